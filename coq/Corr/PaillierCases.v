(** Correspondence glue shared by C07 and C08: a case is one key (configuration, p, q) with a list of
    recorded operations of the REAL implementation; [check_case] evaluates the model of
    Model/Paillier.v on the same operands and compares.  [check_case_big] does the same with the BigZ mirror
    (Model/PaillierBig.v) for key-sized operands. *)
From Bignums Require Import BigZ.
From SL Require Import Lib.Base Model.Paillier Model.PaillierBig.
Local Open Scope Z_scope.

(** result of one call as recorded by the harness: value, [None] (plaintext not admitted), panic *)
Inductive res : Type := RV (z : Z) | RNone | RPanic.

Definition res_eqb (a b : res) : bool :=
  match a, b with
  | RV x, RV y => x =? y
  | RNone, RNone => true
  | _, _ => false       (* the model never panics on these operations: a recorded panic is a mismatch *)
  end.

Inductive pop : Type :=
| OKey (n nn phi : Z) (ip : option (Z * Z * Z * Z))   (* get_n, get_nn, get_phi, extract_n_root_init_params *)
| OEnc (m r : Z) (c : res)          (* into_message m >>= encrypt_with_r r *)
| ODec (c : Z) (m : res)
| ODecF (c : Z) (m : res)
| ORoot (z : Z) (r : res)
| OAdd (c1 c2 : Z) (c : res)
| OMul (c k : Z) (r : res)          (* into_message k >>= mul c *)
| OMulVt (c k : Z) (r : res)
| OMsg (len : Z) (v : Z) (r : res)  (* message on the [len]-byte little-endian encoding of v *)
| OIMsg (m : Z) (r : res)
| ODeserPk (n : Z) (cls : Z)        (* outcome class of Deserialize for PK2048 *)
| ODeserSk (p q : Z) (cls : Z).

(** (wP, p, q, operations) *)
Definition case : Type := (Z * Z * Z * list pop)%type.

Definition opt_res (o : option Z) : res := match o with Some z => RV z | None => RNone end.
Definition cls_eqb (o : N) (c : Z) : bool := Z.min 10 (Z.of_N o) =? Z.min 10 c.

Definition check_op (w : widths) (sk : skey) (op : pop) : bool :=
  let pk := sk_pk sk in
  match op with
  | OKey n nn phi ip =>
      (pk_n pk =? n) && (pk_nn pk =? nn) && (sk_phi sk =? phi) &&
      match ip with
      | Some (dp, dq, pm, qm) =>
          let '(a, b, c, d) := extract_n_root_init_params w sk in
          (a =? dp) && (b =? dq) && (c =? pm) && (d =? qm)
      | None => false
      end
  | OEnc m r c => res_eqb (match into_message pk m with Some m' => RV (encrypt w pk m' r) | None => RNone end) c
  | ODec c m => res_eqb (RV (decrypt w sk c)) m
  | ODecF c m => res_eqb (RV (decrypt_fast w sk c)) m
  | ORoot z r => res_eqb (RV (extract_n_root w sk z)) r
  | OAdd c1 c2 c => res_eqb (RV (add w pk c1 c2)) c
  | OMul c k r => res_eqb (match into_message pk k with Some k' => RV (mul w pk c k') | None => RNone end) r
  | OMulVt c k r => res_eqb (match into_message pk k with Some k' => RV (mul_vartime w pk c k') | None => RNone end) r
  | OMsg len v r => res_eqb (opt_res (message w pk (to_le (Z.to_nat len) (Z.to_N v)))) r
  | OIMsg m r => res_eqb (opt_res (into_message pk m)) r
  | ODeserPk n cls => cls_eqb (deser_pk_class w n) cls
  | ODeserSk p q cls => cls_eqb (deser_sk_class w p q) cls
  end.

Definition check_case (c : case) : bool :=
  let '(b, p, q, ops) := c in
  let w := widths_of_wP b in
  let sk := from_pq w p q in
  forallb (check_op w sk) ops.

(** the same through the BigZ mirror *)
Definition bres (x : bZ) : res := RV [[x]].

Definition check_op_big (w : widths) (sk : bskey) (op : pop) : bool :=
  let pk := bsk_pk sk in
  match op with
  | OKey n nn phi ip =>
      ([[bpk_n pk]] =? n) && ([[bpk_nn pk]] =? nn) && ([[bsk_phi sk]] =? phi) &&
      match ip with
      | Some (dp, dq, pm, qm) =>
          let '(a, b, c, d) := bextract_n_root_init_params w sk in
          ([[a]] =? dp) && ([[b]] =? dq) && ([[c]] =? pm) && ([[d]] =? qm)
      | None => false
      end
  | OEnc m r c => res_eqb (match binto_message pk (bz m) with Some m' => bres (bencrypt w pk m' (bz r)) | None => RNone end) c
  | ODec c m => res_eqb (bres (bdecrypt w sk (bz c))) m
  | ODecF c m => res_eqb (bres (bdecrypt_fast w sk (bz c))) m
  | ORoot z r => res_eqb (bres (bextract_n_root w sk (bz z))) r
  | OAdd c1 c2 c => res_eqb (bres (badd w pk (bz c1) (bz c2))) c
  | OMul c k r => res_eqb (match binto_message pk (bz k) with Some k' => bres (bmul w pk (bz c) k') | None => RNone end) r
  | OMulVt c k r => res_eqb (match binto_message pk (bz k) with Some k' => bres (bmul_vartime w pk (bz c) k') | None => RNone end) r
  | OMsg len v r => res_eqb (opt_res (message w (pk_of_big pk) (to_le (Z.to_nat len) (Z.to_N v)))) r
  | OIMsg m r => res_eqb (opt_res (into_message (pk_of_big pk) m)) r
  | ODeserPk n cls => cls_eqb (deser_pk_class w n) cls
  | ODeserSk p q cls => cls_eqb (deser_sk_class w p q) cls
  end.

Definition check_case_big (c : case) : bool :=
  let '(b, p, q, ops) := c in
  let w := widths_of_wP b in
  let sk := bfrom_pq w (bz p) (bz q) in
  forallb (check_op_big w sk) ops.

(** both evaluators (used on mid-size keys to validate the mirror against the Z model) *)
Definition check_case_both (c : case) : bool := check_case c && check_case_big c.
