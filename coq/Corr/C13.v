(** Correspondence for C13: every case carries the inputs of one call of a function of
    crates/sl-mpc-mate/src/math.rs and the result the implementation produced (recorded by
    harness/src/c13.rs); [check_case] runs the model on the same inputs with q = the secp256k1
    group order and compares.
    Scalar results: [Some v] = returned value, [None] = the real call panicked (never expected).
    Group-side results: the harness records the discrete logarithm d of a result point R after checking
    R = d*G itself with k256 ([None] / [Err 0] when that check failed); the model is run in the
    discrete-log instance (Model/PolyDlog.v) on the discrete logarithms of the input points. *)
From SL Require Import Lib.Base Model.Matrix Model.Poly Model.PolyDlog Model.PolyBirkhoff.
Local Open Scope Z_scope.

Definition q : Z := Poly.secp256k1_q.

Inductive case : Type :=
| CFact (s e : nat) (r : option Z)                         (* factorial_range(s, e) *)
| CEval (f : list Z) (x : Z) (r : option Z)                (* Polynomial::evaluate_at *)
| CDeriv (f : list Z) (n : nat) (x : Z) (r : option Z)     (* Polynomial::derivative_at *)
| CCommit (f : list Z) (r : option (list Z))               (* Polynomial::commit, discrete logs of the points *)
| CGEval (F : list Z) (x : Z) (r : option Z)               (* GroupPolynomial::evaluate_at on points F_i*G *)
| CGDeriv (F : list Z) (n : nat) (r : outcome (list Z))    (* GroupPolynomial::derivative_coeffs *)
| CMult (x : Z) (n_i n : nat) (r : option (list Z))        (* polynomial_coeff_multipliers *)
| CBirk (params : list (Z * nat)) (r : outcome (list Z))   (* birkhoff_coeffs *)
| CFeld (F : list Z) (x v g : Z) (r : option bool).        (* feldman_verify on points F_i*G, base g*G *)

Definition zlist_eqb : list Z -> list Z -> bool := list_eqb Z.eqb.

Definition opt_eqb {A} (eqb : A -> A -> bool) (a b : option A) : bool :=
  match a, b with
  | Some x, Some y => eqb x y
  | None, None => true
  | _, _ => false
  end.

Definition out_eqb {A} (eqb : A -> A -> bool) (a b : outcome A) : bool :=
  match a, b with
  | Val x, Val y => eqb x y
  | Err x, Err y => N.eqb x y
  | Panic x, Panic y => N.eqb x y
  | _, _ => false
  end.

(** recorded scalars must be canonical (the harness prints k256's canonical encoding) *)
Definition canon (x : Z) : bool := (0 <=? x) && (x <? q).
Definition canon_list (l : list Z) : bool := forallb canon l.

Definition model_out (c : case) : case :=
  match c with
  | CFact s e _ => CFact s e (Some (factorial_range q s e))
  | CEval f x _ => CEval f x (Some (evaluate_at q f x))
  | CDeriv f n x _ => CDeriv f n x (Some (derivative_at q f n x))
  | CCommit f _ => CCommit f (Some (dl_commit q f))
  | CGEval F x _ => CGEval F x (Some (dl_evaluate_at q F x))
  | CGDeriv F n _ => CGDeriv F n (dl_derivative_coeffs q F n)
  | CMult x n_i n _ => CMult x n_i n (Some (polynomial_coeff_multipliers q x n_i n))
  | CBirk p _ => CBirk p (birkhoff_coeffs q p)
  | CFeld F x v g _ => CFeld F x v g (Some (dl_feldman_verify q F x v g))
  end.

Definition check_case (c : case) : bool :=
  match c with
  | CFact s e r => opt_eqb Z.eqb (Some (factorial_range q s e)) r
  | CEval f x r => canon_list f && canon x && opt_eqb Z.eqb (Some (evaluate_at q f x)) r
  | CDeriv f n x r => canon_list f && canon x && opt_eqb Z.eqb (Some (derivative_at q f n x)) r
  | CCommit f r => canon_list f && opt_eqb zlist_eqb (Some (dl_commit q f)) r
  | CGEval F x r => canon_list F && canon x && opt_eqb Z.eqb (Some (dl_evaluate_at q F x)) r
  | CGDeriv F n r => canon_list F && out_eqb zlist_eqb (dl_derivative_coeffs q F n) r
  | CMult x n_i n r => canon x && opt_eqb zlist_eqb (Some (polynomial_coeff_multipliers q x n_i n)) r
  | CBirk p r => canon_list (map fst p) && out_eqb zlist_eqb (birkhoff_coeffs q p) r
  | CFeld F x v g r =>
      canon_list F && canon x && canon v && canon g &&
      opt_eqb Bool.eqb (Some (dl_feldman_verify q F x v g)) r
  end.
