(** Correspondence for C07 (Paillier: encrypt / decrypt / decrypt_fast / extract_n_root / message /
    key construction / Deserialize validation).  The case type and evaluators are shared with C08. *)
From SL Require Export Lib.Base Model.Paillier Corr.PaillierCases.
