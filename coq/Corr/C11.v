(** Correspondence for the C11 entry points modelled in Model/Panic.v: a frame and the
    outcome class the real code produced for the two send paths and the header view
    (0 = value / accepted, 1 = error, 2 = panic). *)
From SL Require Import Lib.Base Model.Panic.
Local Open Scope N_scope.

(* frame, class of <&MsgHdr>::try_from, class of MessageRelay::start_send, class of SimpleMessageRelay::send *)
Definition case : Type := (list N * N * N * N)%type.

Definition cls {A} (o : outcome A) : N := match o with Val _ => 0 | Err _ => 1 | Panic _ => 2 end.

Definition send_cls (o : outcome frame_class) : N :=
  match o with Val FShort => 1 | Val _ => 0 | Err _ => 1 | Panic _ => 2 end.

Definition check_case (c : case) : bool :=
  let '(frame, h, s, r) := c in
  (cls (msghdr_try_from frame) =? h) && (send_cls (classify_start_send frame) =? s)
  (* SimpleMessageRelay::send returns (): ignored short frames and publications are both class 0 *)
  && ((if is_panic (classify_relay_send frame) then 2 else 0) =? r).
