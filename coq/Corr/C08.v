(** Correspondence for C08 (Paillier add / mul / mul_vartime and decryption of their results). *)
From SL Require Export Lib.Base Model.Paillier Corr.PaillierCases.
