(** Correspondence for C20: the harness writes (matrix, rows argument, determinant outcome of the real
    [mod_bareiss_determinant] (through the hook), outcome of the real [matrix_inverse]); the model of
    Model/Matrix.v is evaluated on the same matrix at the secp256k1 group order.
    The last component is a budget flag set by checks/c20.py: [true] = the inverse is evaluated in Coq
    as well, [false] = only the determinant is (a 256-bit [Z.modulo] costs ~7 ms under vm_compute, so
    an 8x8 inverse takes ~90 s in the model; the quick tier evaluates inverses up to 6x6). *)
From SL Require Import Lib.Base Model.Matrix.
Local Open Scope Z_scope.

Definition case : Type := (mat * nat * outcome Z * outcome mat * bool)%type.

Definition q : Z := secp256k1_q.

Definition outcome_eqb {A} (eqb : A -> A -> bool) (x y : outcome A) : bool :=
  match x, y with
  | Val a, Val b => eqb a b
  | Err a, Err b => N.eqb a b
  | Panic a, Panic b => N.eqb a b
  | _, _ => false
  end.

Definition mat_eqb : mat -> mat -> bool := list_eqb (list_eqb Z.eqb).

Definition check_case (c : case) : bool :=
  let '(m, rows, d, inv, full) := c in
  outcome_eqb Z.eqb (bareiss q m rows) d &&
  (if full then outcome_eqb mat_eqb (matrix_inverse q m rows) inv else true).

Definition model_out (c : case) : outcome Z * outcome mat :=
  let '(m, rows, _, _, _) := c in (bareiss q m rows, matrix_inverse q m rows).
