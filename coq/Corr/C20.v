(** Correspondence for C20: the harness writes (matrix, rows argument, determinant outcome of the real
    [mod_bareiss_determinant] (through the hook), outcome of the real [matrix_inverse]); the model of
    Model/Matrix.v is evaluated on the same matrix at the secp256k1 group order. *)
From SL Require Import Lib.Base Model.Matrix.
Local Open Scope Z_scope.

Definition case : Type := (mat * nat * outcome Z * outcome mat)%type.

Definition q : Z := secp256k1_q.

Definition outcome_eqb {A} (eqb : A -> A -> bool) (x y : outcome A) : bool :=
  match x, y with
  | Val a, Val b => eqb a b
  | Err a, Err b => N.eqb a b
  | Panic a, Panic b => N.eqb a b
  | _, _ => false
  end.

Definition mat_eqb : mat -> mat -> bool := list_eqb (list_eqb Z.eqb).

Definition check_case (c : case) : bool :=
  let '(m, rows, d, inv) := c in
  outcome_eqb Z.eqb (bareiss q m rows) d && outcome_eqb mat_eqb (matrix_inverse q m rows) inv.

Definition model_out (c : case) : outcome Z * outcome mat :=
  let '(m, rows, _, _) := c in (bareiss q m rows, matrix_inverse q m rows).
