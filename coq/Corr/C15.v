(** Correspondence for C15 and C16: the harness runs histories against the real SimpleMessageRelay
    (virtual clock) and header-codec cases against the real message.rs functions; the model
    (Model/Relay.v) is run on the same inputs and compared with what the implementation did.

    A history case is the list of operations, each with the observations recorded from the
    implementation: the [Result] of the sink, the frames received when a connection was drained (compared
    as a MULTISET: queue/channel interleaving is runtime dependent), [messages()] (compared as a set). *)
From SL Require Import Lib.Base.
From SL Require Export Model.Relay.  (* the generated case files import only this module *)
Local Open Scope N_scope.

Inductive case :=
| CCodec (id : list N) (ttl flags : N) (payload : list N)           (* arguments of allocate_message *)
         (impl_frame : list N)                                      (* its result *)
         (impl_id : list N) (impl_ttl_secs impl_flags : N)          (* hdr.id(), hdr.ttl().as_secs(), hdr.flags() *)
         (impl_ask : list N)                                        (* AskMsg::allocate(id, ttl) *)
| CHist (h : list (op * list obs)).

(** multiset equality of lists of byte strings *)
Fixpoint remove_one (x : list N) (l : list (list N)) : option (list (list N)) :=
  match l with
  | [] => None
  | y :: r => if bytes_eqb x y then Some r
              else match remove_one x r with Some r' => Some (y :: r') | None => None end
  end.
Fixpoint multiset_eqb (a b : list (list N)) : bool :=
  match a with
  | [] => match b with [] => true | _ => false end
  | x :: r => match remove_one x b with Some b' => multiset_eqb r b' | None => false end
  end.

Definition obs_match (model impl : obs) : bool :=
  match model, impl with
  | ObsSend a, ObsSend b => Bool.eqb a b
  | ObsDrain c l, ObsDrain c' l' => (c =? c') && multiset_eqb l l'
  | ObsMsgs l, ObsMsgs l' => multiset_eqb l l'
  | _, _ => false
  end.

Fixpoint check_hist (s : state) (h : list (op * list obs)) : bool :=
  match h with
  | [] => true
  | (o, recorded) :: r =>
      let '(s', ob) := step s o in
      list_eqb obs_match ob recorded && check_hist s' r
  end.

Definition check_case (c : case) : bool :=
  match c with
  | CCodec id ttl flags payload f fid fttl fflags fask =>
      let m := allocate_message id ttl flags payload in
      bytes_eqb m f && bytes_eqb (hdr_id m) fid && (hdr_ttl_secs m =? fttl) && (hdr_flags m =? fflags)
      && bytes_eqb (ask_allocate id ttl) fask
      (* and the accessors applied to the implementation's frame *)
      && bytes_eqb (hdr_id f) fid && (hdr_ttl_secs f =? fttl) && (hdr_flags f =? fflags)
  | CHist h => check_hist init h
  end.

(** what the model observes on a history (for replay files and debugging) *)
Definition model_out (h : list op) : list (list obs) := trace init h.
