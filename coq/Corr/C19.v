(** Correspondence for C19: the harness writes (a, b, implementation result) triples;
    the generated program and the spec are evaluated on the same operands. *)
From SL Require Import Lib.Base Model.ByteLang Model.Gf128 Gen.GfProg.

Definition case : Type := (list N * list N * list N)%type.

(* generated program = implementation output  /\  spec = implementation output *)
Definition check_case (c : case) : bool :=
  let '(a, b, r) := c in
  bytes16 a && bytes16 b && bytes_eqb (gf_prog a b) r && bytes_eqb (gf_spec_bytes a b) r.

Definition model_out (c : case) : list N * list N :=
  let '(a, b, _) := c in (gf_prog a b, gf_spec_bytes a b).
