(** Correspondence for C17.  A case is what the harness did with the REAL BufferedMsgRelay wrapped
    around a scripted mock relay: the scripts, the call sequence with its cancellation points, and,
    per call, the recorded result, the [buffered()] listing afterwards and the calls the wrapper made
    on the inner relay.  The model (Model/Buffered.v) is run on the same scripts and calls.

    Byte strings (frames, ids, ask frames) are interned in a table (first component); everything
    else refers to them by index, which keeps the generated files small. *)
From SL Require Export Lib.Base Model.Buffered.

Inductive krx := KItem (i : N) | KPend | KEnd.
Inductive kcall :=
| KWait (neg : bool) (ids : list N)     (* wait_for(|id| neg xor (id in ids)) *)
| KRecv (id : N) (ttl : N)
| KNext.
Inductive kres := KSome (i : N) | KNone | KCancelled | KPanic.
Inductive klog := LNext | LReady | LSend (i : N) (ok : bool) | LFlush.

Definition case : Type :=
  (list bytes                                          (* table of byte strings *)
   * (list krx * list pres * list bool * list pres)    (* scripts: poll_next, poll_ready, start_send, poll_flush *)
   * list (kcall * N)                                  (* calls, each with its maximal number of polls (then dropped) *)
   * list (kres * list N * list klog))%type.           (* recorded: result, buffered() after, inner calls made *)

Section WithTable.
  Variable tbl : list bytes.

  Definition look (i : N) : option bytes := nth_error tbl (N.to_nat i).

  Fixpoint look_all (l : list N) : option (list bytes) :=
    match l with
    | [] => Some []
    | i :: r => match look i, look_all r with Some b, Some bs => Some (b :: bs) | _, _ => None end
    end.

  Fixpoint rx_of (l : list krx) : option (list rx_ev) :=
    match l with
    | [] => Some []
    | k :: r =>
        match rx_of r with
        | None => None
        | Some r' =>
            match k with
            | KItem i => match look i with Some b => Some (Item b :: r') | None => None end
            | KPend => Some (RxPending :: r')
            | KEnd => Some (RxEnd :: r')
            end
        end
    end.

  Definition pred_of (neg : bool) (ids : list bytes) : bytes -> bool :=
    fun id => xorb neg (existsb (bytes_eqb id) ids).

  Definition call_of (k : kcall) : option call :=
    match k with
    | KWait neg ids => match look_all ids with Some l => Some (CWait (pred_of neg l)) | None => None end
    | KRecv id ttl => match look id with Some b => Some (CRecv b ttl) | None => None end
    | KNext => Some CNext
    end.

  Definition res_eqb (m : result) (k : kres) : bool :=
    match m, k with
    | RSome b, KSome i => match look i with Some b' => bytes_eqb b b' | None => false end
    | RNone, KNone => true
    | RCancelled, KCancelled => true
    | RPanic, KPanic => true
    | _, _ => false
    end.

  Definition log_eqb (m : icall) (k : klog) : bool :=
    match m, k with
    | INext, LNext => true
    | IReady, LReady => true
    | IFlush, LFlush => true
    | ISend b ok, LSend i ok' =>
        Bool.eqb ok ok' && match look i with Some b' => bytes_eqb b b' | None => false end
    | _, _ => false
    end.

  Fixpoint list_eqb2 {A B} (f : A -> B -> bool) (l1 : list A) (l2 : list B) : bool :=
    match l1, l2 with
    | [], [] => true
    | x :: r1, y :: r2 => f x y && list_eqb2 f r1 r2
    | _, _ => false
    end.

  Definition buf_eqb (m : list bytes) (k : list N) : bool :=
    list_eqb2 (fun b i => match look i with Some b' => bytes_eqb b b' | None => false end) m k.

  Definition clear_log (s : state) : state :=
    let r := relay s in
    mkState (in_buf s) (mkInner (i_rx r) (i_rdy r) (i_snd r) (i_fls r) []).

  (** run the calls one by one, comparing after each *)
  Fixpoint check_calls (cs : list (kcall * N)) (rec : list (kres * list N * list klog)) (s : state) : bool :=
    match cs, rec with
    | [], [] => true
    | (k, n) :: cs', (kr, kb, kl) :: rec' =>
        match call_of k with
        | None => false
        | Some c =>
            let '(r, s') := run_call c (N.to_nat n) (clear_log s) in
            res_eqb r kr && buf_eqb (buffered s') kb
            && list_eqb2 log_eqb (rev (i_log (relay s'))) kl
            && check_calls cs' rec' s'
        end
    | _, _ => false
    end.
End WithTable.

Definition check_case (c : case) : bool :=
  let '(tbl, (krx_, rdy, snd_, fls), cs, rec) := c in
  match rx_of tbl krx_ with
  | None => false
  | Some rxs => check_calls tbl cs rec (init (mkInner rxs rdy snd_ fls []))
  end.

(** what the model computes for a case (for diagnostics in replay files) *)
Definition model_out (c : case) : list (result * list bytes) :=
  let '(tbl, (krx_, rdy, snd_, fls), cs, _) := c in
  match rx_of tbl krx_ with
  | None => []
  | Some rxs =>
      (fix go (cs : list (kcall * N)) (s : state) : list (result * list bytes) :=
         match cs with
         | [] => []
         | (k, n) :: cs' =>
             match call_of tbl k with
             | None => []
             | Some c => let '(r, s') := run_call c (N.to_nat n) s in (r, buffered s') :: go cs' s'
             end
         end) cs (init (mkInner rxs rdy snd_ fls []))
  end.
