(** Extraction of the C09/C10 model (verifiable RSA encryption) for the correspondence driver
    (ExtrOcamlBasic only). *)
From Coq Require Import ExtrOcamlBasic.
From SL Require Import Lib.Base Lib.Oracle Model.VEnc.
Extraction Language OCaml.
Extraction "../ocaml/gen/m_c09.ml" conv_anchor encrypt_with_proof_usize verify decrypt to_bytes from_bytes
  repr_be from_repr_be repr_le from_repr_le label_int mod_inverse bu_from_be bu_to_be.
