(** Extraction of the C14 model for the correspondence driver (ExtrOcamlBasic only). *)
From Coq Require Import ExtrOcamlBasic.
From SL Require Import Lib.Base Lib.Oracle Model.Dlog.
Extraction Language OCaml.
Extraction "../ocaml/gen/m_c14.ml" conv_anchor new_dlog_proof prove verify fiat_shamir.
