(** Extraction of the C01/C02 model (random vector OLE, both variants, with the SoftSpoken and Endemic
    models underneath) for the correspondence driver (ExtrOcamlBasic only). *)
From Coq Require Import ExtrOcamlBasic.
From SL Require Import Lib.Base Lib.Oracle Model.SoftSpoken Model.Endemic Model.RvoleCore Model.Rvole.
Extraction Language OCaml.
Extraction "../ocaml/gen/m_c01.ml" conv_anchor
  rvole_recv_new rvole_send_process rvole_recv_process rvole_adv_send
  rvole_ot_recv_new rvole_ot_send_process rvole_ot_recv_process rvole_ot_adv_send
  rmsg_to_bytes rmsg_of_bytes rv_state_bytes round1_bytes eot_msg_bytes chunks skipn
  rv_xi rv_lb rv_rho.
