(** Extraction of the C03/C04 model (SoftSpoken OT extension) for the correspondence driver (ExtrOcamlBasic only). *)
From Coq Require Import ExtrOcamlBasic.
From SL Require Import Lib.Base Lib.Oracle Model.Gf128 Model.SoftSpoken.
Extraction Language OCaml.
Extraction "../ocaml/gen/m_c03.ml" conv_anchor g_add ss_receiver_buf ss_receiver ss_sender adv_receiver gen_seed_ot
  round1_bytes round1_default chunks.
