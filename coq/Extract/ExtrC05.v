(** Extraction of the C05 model (Endemic base OT) for the correspondence driver (ExtrOcamlBasic only). *)
From Coq Require Import ExtrOcamlBasic.
From SL Require Import Lib.Base Lib.Oracle Model.Endemic.
Extraction Language OCaml.
Extraction "../ocaml/gen/m_c05.ml" conv_anchor eot_receiver_new eot_sender_process eot_receiver_process
  h_function h_function_opt h_function_2 h_prefix h2_query enc33.
