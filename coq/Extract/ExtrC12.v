(** Extraction of the C12 model and specification for the correspondence driver (ExtrOcamlBasic only). *)
From Coq Require Import ExtrOcamlBasic.
From SL Require Import Lib.Base Lib.Oracle Model.Bip32 Model.Bip32Spec.
Extraction Language OCaml.
Extraction "../ocaml/gen/m_c12.ml" conv_anchor top derive_child_pubkey get_finger_print derive_xpub to_string
  walk_offsets prefix_u32 base58_encode base58_decode hex_encode bip32_spec spec_string CKDpub fingerprint.
