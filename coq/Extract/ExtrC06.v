(** Extraction of the C06 model (all-but-one PPRF) for the correspondence driver (ExtrOcamlBasic only). *)
From Coq Require Import ExtrOcamlBasic.
From SL Require Import Lib.Base Lib.Oracle Model.Pprf.
Extraction Language OCaml.
Extraction "../ocaml/gen/m_c06.ml" conv_anchor g_add build_pprf eval_pprf adv_pprf eval_tree_core
  msgs_to_bytes msgs_of_bytes sender_keys_of_bytes recv_keys_of_bytes sender_seed_bytes recv_seed_bytes
  chunks Kdepth Ntrees LB2 tree_slice tree_bits.
