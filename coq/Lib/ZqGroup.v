(** The discrete-log instance of the abstract group interface: carrier = residues mod q,
    generator 1.  It satisfies [group_laws] for every q > 1, so theorems stated under
    [group_laws] are not vacuous. *)
From SL Require Import Lib.Base Lib.Oracle.
From Coq Require Import Eqdep_dec.
Local Open Scope Z_scope.

Section Zq.
  Variable q : Z.
  Hypothesis q_gt1 : 1 < q.

  Definition zq : Type := { z : Z | (z mod q =? z) = true }.

  Lemma zq_ok z : ((z mod q) mod q =? z mod q) = true.
  Proof. apply Z.eqb_eq. apply Z.mod_mod. lia. Qed.

  Definition mk (z : Z) : zq := exist _ (z mod q) (zq_ok z).
  Definition val (a : zq) : Z := proj1_sig a.

  Lemma zq_eq (a b : zq) : val a = val b -> a = b.
  Proof.
    destruct a as [x px], b as [y py]. cbn. intros ->. f_equal.
    apply UIP_dec. apply Bool.bool_dec.
  Qed.

  Lemma val_mk z : val (mk z) = z mod q.
  Proof. reflexivity. Qed.

  Lemma val_red (a : zq) : val a mod q = val a.
  Proof. destruct a as [x px]. cbn. apply Z.eqb_eq. exact px. Qed.

  Lemma val_range (a : zq) : 0 <= val a < q.
  Proof. rewrite <- val_red. apply Z.mod_pos_bound. lia. Qed.

  Definition zq_group : group_ops zq := {|
    g_add := fun a b => mk (val a + val b);
    g_neg := fun a => mk (- val a);
    g_smul := fun k a => mk (k * val a);
    g_gen := mk 1;
    g_id := mk 0;
    g_eqb := fun a b => val a =? val b;
    g_enc := fun a => [Z.to_N (val a)];
    g_dec := fun l => match l with [x] => Some (mk (Z.of_N x)) | _ => None end;
  |}.

  Lemma zq_group_laws : group_laws q zq_group.
  Proof.
    constructor; cbn [zq_group g_add g_neg g_smul g_gen g_id g_eqb g_enc g_dec]; intros.
    - apply zq_eq. rewrite !val_mk. rewrite Zplus_mod_idemp_r, Zplus_mod_idemp_l. f_equal. lia.
    - apply zq_eq. rewrite !val_mk. f_equal. lia.
    - apply zq_eq. rewrite !val_mk. rewrite Z.mod_0_l by lia. rewrite Z.add_0_r. apply val_red.
    - apply zq_eq. rewrite !val_mk. rewrite Zplus_mod_idemp_r. rewrite Z.add_opp_diag_r. reflexivity.
    - apply zq_eq. rewrite !val_mk. rewrite Zmult_mod_idemp_l. reflexivity.
    - apply zq_eq. rewrite !val_mk. rewrite <- Zplus_mod. f_equal. lia.
    - apply zq_eq. rewrite !val_mk. rewrite Zmult_mod_idemp_r. f_equal. lia.
    - apply zq_eq. rewrite !val_mk. rewrite Z.mul_1_l. apply val_red.
    - apply zq_eq. rewrite !val_mk. reflexivity.
    - apply zq_eq. rewrite !val_mk. rewrite Zmult_mod_idemp_r. rewrite <- Zplus_mod. f_equal. lia.
    - match goal with E : mk _ = mk _ |- _ => apply (f_equal val) in E; rewrite !val_mk in E end.
      rewrite (Z.mod_small 1) in * by lia. rewrite Z.mul_1_r in *. rewrite Z.mod_0_l in * by lia. assumption.
    - rewrite Z.eqb_eq. split; [apply zq_eq|intros ->; reflexivity].
    - f_equal. apply zq_eq. rewrite val_mk. rewrite Z2N.id by apply val_range. apply val_red.
    - match goal with E : [_] = [_] |- _ => inversion E as [E'] end.
      apply zq_eq. apply Z2N.inj in E'; [assumption|apply val_range|apply val_range].
  Qed.
End Zq.
