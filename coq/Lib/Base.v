(** Shared conventions of the sl-crypto models (DESIGN.md section 3). *)
From Coq Require Export List NArith ZArith Bool Lia.
Export ListNotations.

(** Outcome of a fallible Rust function: value, returned error, or panic. *)
Inductive outcome (A : Type) : Type :=
| Val (a : A)
| Err (e : N)
| Panic (site : N).
Arguments Val {A} a.
Arguments Err {A} e.
Arguments Panic {A} site.

Definition obind {A B} (x : outcome A) (f : A -> outcome B) : outcome B :=
  match x with Val a => f a | Err e => Err e | Panic s => Panic s end.

Definition is_panic {A} (x : outcome A) : bool :=
  match x with Panic _ => true | _ => false end.

(** Indices (as N, starting at 0) of the list elements failing [f]; used by the
    correspondence files written by the harness. *)
Fixpoint bad_from {A} (f : A -> bool) (l : list A) (i : N) : list N :=
  match l with
  | [] => []
  | x :: r => if f x then bad_from f r (N.succ i) else i :: bad_from f r (N.succ i)
  end.
Definition bad_indices {A} (f : A -> bool) (l : list A) : list N := bad_from f l 0%N.

Lemma bad_from_nil {A} (f : A -> bool) l i :
  bad_from f l i = [] <-> forallb f l = true.
Proof.
  revert i; induction l as [|x r IH]; intros i; cbn; [tauto|].
  destruct (f x); cbn; [apply IH|split; discriminate].
Qed.

(** Bytes. *)
Definition byte_ok (x : N) : bool := N.ltb x 256.
Definition bytes_ok (l : list N) : bool := forallb byte_ok l.

Fixpoint list_eqb {A} (eqb : A -> A -> bool) (l1 l2 : list A) : bool :=
  match l1, l2 with
  | [], [] => true
  | x :: r1, y :: r2 => eqb x y && list_eqb eqb r1 r2
  | _, _ => false
  end.
Definition bytes_eqb := list_eqb N.eqb.

Lemma list_eqb_eq {A} (eqb : A -> A -> bool)
  (H : forall x y, eqb x y = true <-> x = y) l1 l2 :
  list_eqb eqb l1 l2 = true <-> l1 = l2.
Proof.
  revert l2; induction l1 as [|x r IH]; destruct l2 as [|y r2]; cbn;
    try (split; [discriminate|discriminate]); try tauto.
  rewrite andb_true_iff, H, IH. split; [intros [-> ->]; reflexivity|].
  intros E; inversion E; auto.
Qed.

Lemma bytes_eqb_eq l1 l2 : bytes_eqb l1 l2 = true <-> l1 = l2.
Proof. apply list_eqb_eq. intros; apply N.eqb_eq. Qed.

(** little-endian value of a byte string and back *)
Fixpoint of_le (l : list N) : N :=
  match l with [] => 0 | x :: r => x + 256 * of_le r end%N.
Fixpoint to_le (n : nat) (v : N) : list N :=
  match n with O => [] | S k => (v mod 256)%N :: to_le k (v / 256)%N end.
Definition of_be (l : list N) : N := of_le (rev l).
Definition to_be (n : nat) (v : N) : list N := rev (to_le n v).
