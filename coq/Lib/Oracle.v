(** Uninterpreted functions of the models (DESIGN.md 3.2, 3.3): hash transcripts and the
    elliptic-curve group.  Models take these as Section variables; theorems hold for every
    instance satisfying the stated laws; the correspondence instantiates them with the real
    implementation through the extracted driver's callbacks. *)
From SL Require Import Lib.Base.
Local Open Scope N_scope.

(** Merlin transcript operations; an oracle maps the whole history, ending in a
    [TChallenge], to the bytes of that last challenge. *)
Inductive top :=
| TInit (label : list N)
| TAppend (label data : list N)
| TAppendU64 (label : list N) (v : N)
| TChallenge (label : list N) (len : N).

Definition transcript_oracle := list top -> list N.

(** 8-byte big-endian domain label: (version << 48) | id   (crates/sl-oblivious/src/label.rs) *)
Definition label_bytes (ver id : N) : list N := to_be 8 (ver * 2 ^ 48 + id).

(** ASCII of short literal labels is supplied by the models as explicit byte lists. *)

(** Abstract group interface (a Z_q-module with an encoding).  [G] is the carrier. *)
Record group_ops (G : Type) := {
  g_add : G -> G -> G;
  g_neg : G -> G;
  g_smul : Z -> G -> G;
  g_gen : G;
  g_id : G;
  g_eqb : G -> G -> bool;
  g_enc : G -> list N;            (* compressed encoding; identity has a 1-byte encoding in k256 *)
  g_dec : list N -> option G;
}.
Arguments g_add {G}. Arguments g_neg {G}. Arguments g_smul {G}. Arguments g_gen {G}.
Arguments g_id {G}. Arguments g_eqb {G}. Arguments g_enc {G}. Arguments g_dec {G}.

(** Laws assumed of the group (hypotheses of theorems, never axioms). [q] is the group order. *)
Record group_laws {G} (q : Z) (O : group_ops G) : Prop := {
  gl_add_assoc : forall a b c, g_add O a (g_add O b c) = g_add O (g_add O a b) c;
  gl_add_comm : forall a b, g_add O a b = g_add O b a;
  gl_add_id : forall a, g_add O a (g_id O) = a;
  gl_add_neg : forall a, g_add O a (g_neg O a) = g_id O;
  gl_smul_mod : forall k a, g_smul O k a = g_smul O (k mod q)%Z a;
  gl_smul_add : forall k l a, g_smul O (k + l)%Z a = g_add O (g_smul O k a) (g_smul O l a);
  gl_smul_mul : forall k l a, g_smul O (k * l)%Z a = g_smul O k (g_smul O l a);
  gl_smul_1 : forall a, g_smul O 1%Z a = a;
  gl_smul_0 : forall a, g_smul O 0%Z a = g_id O;
  gl_smul_dist : forall k a b, g_smul O k (g_add O a b) = g_add O (g_smul O k a) (g_smul O k b);
  gl_gen_order : forall k, g_smul O k (g_gen O) = g_id O -> (k mod q = 0)%Z;
  gl_eqb : forall a b, g_eqb O a b = true <-> a = b;
  gl_dec_enc : forall a, g_dec O (g_enc O a) = Some a;
  gl_enc_inj : forall a b, g_enc O a = g_enc O b -> a = b;
}.

(** The discrete-log instance: G = Z_q with generator 1.  Used for non-vacuity Examples. *)
Definition zq_ops (q : Z) : group_ops Z := {|
  g_add := fun a b => ((a + b) mod q)%Z;
  g_neg := fun a => ((- a) mod q)%Z;
  g_smul := fun k a => ((k * a) mod q)%Z;
  g_gen := (1 mod q)%Z;
  g_id := 0%Z;
  g_eqb := Z.eqb;
  g_enc := fun a => [Z.to_N a];
  g_dec := fun l => match l with [x] => Some (Z.of_N x) | _ => None end;
|}.

(** Extraction anchor: makes every extracted model module contain the three number types. *)
Definition conv_anchor (p : positive) (n : N) (z : Z) : unit := tt.
