(** C01/C02: the executable composed model of the random vector OLE.

    OT-extension variant (crates/sl-oblivious/src/rvole.rs):
      [rvole_recv_new]      RVOLEReceiver::new      -- calls [ss_receiver_buf] where the code calls
                                                       SoftSpokenOTReceiver::process (same session id,
                                                       choices = beta, the caller's Round1Output buffer)
      [rvole_send_process]  RVOLESender::process    -- calls [ss_sender] where the code calls
                                                       SoftSpokenOTSender::process (same session id); its
                                                       error is propagated with [?]
      [rvole_recv_process]  RVOLEReceiver::process
    Base-OT variant (rvole_ot_variant.rs):
      [rvole_ot_recv_new], [rvole_ot_send_process], [rvole_ot_recv_process]: two Endemic instances under
      the session ids derived with the RANDOM_VOLE_BASE_OT transcript, keys re-hashed per row with the
      SoftSpoken randomisation label ([ot_rows] of Model/RvoleCore.v).

    Random tapes, in the order the code draws from the rng:
      rvole.rs new:      beta (L_BYTES), then the SoftSpoken receiver's 16 bytes;
      rvole.rs process:  RHO blocks of 64 bytes ([Scalar::generate_biased]);
      ot variant new:    tape of Endemic receiver a (bits, t_a list, r_other list), then of receiver b;
      ot variant sender: (t_b_0, t_b_1) pairs of OT a, then of OT b, then the eta blocks.
    The RVOLE algebra itself is Model/RvoleCore.v.  No proofs in this file. *)
From SL Require Import Lib.Base Lib.Oracle Gen.Params Model.SoftSpoken Model.Endemic Model.RvoleCore.
Local Open Scope Z_scope.

Definition rv_err_decode : N := 2.      (* Err("Decode error") from EndemicOTReceiver::process *)
Definition rv_err_base_ot : N := 3.     (* Err("Base OT error") *)
Definition rv_panic_assert : N := 1.    (* assert_eq!(len_a + len_b, XI) *)

Section Rvole.
  Variable H : transcript_oracle.
  Variable q : Z.

  (* ================================================================== OT-extension variant *)
  (** RVOLEReceiver { session_id, beta, receiver_extended_output } *)
  Record rv_state := { rr_sid : list N; rr_beta : list N; rr_ext : ReceiverExtendedOutput }.

  (** bytemuck::bytes_of(&*state) *)
  Definition rv_state_bytes (st : rv_state) : list N :=
    rr_sid st ++ rr_beta st ++ re_choices (rr_ext st) ++ concat (map (@concat N) (re_v_x (rr_ext st))).

  (** RVOLEReceiver::new(session_id, seed_ot_results, round1_output, rng) -> (state, b), round1_output *)
  Definition rvole_recv_new (sid : list N) (seed : SenderOTSeed) (buf : Round1Output)
             (beta tape : list N) : (rv_state * Z) * Round1Output :=
    let b := rvole_b H q rv_xi sid (rv_bit beta) in
    let '(r1, ext) := ss_receiver_buf H sid seed buf beta tape in
    (({| rr_sid := sid; rr_beta := beta; rr_ext := ext |}, b), r1).

  (** RVOLESender::process(session_id, seed_ot_results, a, round1_output, output, rng) *)
  Definition rvole_send_process (sid : list N) (seed : ReceiverOTSeed) (a : list Z) (r1 : Round1Output)
             (eta_tape : list (list N)) : outcome (rmsg * list Z) :=
    match ss_sender H sid seed r1 with
    | Val so => Val (rvole_send_core H q rv_xi rv_lb rv_rho sid (cell (se_v_0 so)) (cell (se_v_1 so)) a eta_tape)
    | Err e => Err e
    | Panic s => Panic s
    end.

  (** RVOLEReceiver::process(&self, rvole_output) *)
  Definition rvole_recv_process (st : rv_state) (m : rmsg) : outcome (list Z) :=
    rvole_recv_core H q rv_xi rv_lb rv_rho (rr_sid st) (rv_bit (rr_beta st)) (cell (re_v_x (rr_ext st))) m.

  (** the calibrated adversarial sender on top of the real OT layer *)
  Definition rvole_adv_send (sid : list N) (seed : ReceiverOTSeed) (a : list Z) (r1 : Round1Output)
             (eta_tape : list (list N)) (spec : adv_spec) : outcome rmsg :=
    match ss_sender H sid seed r1 with
    | Val so => Val (adv_sender H q rv_xi rv_lb rv_rho sid (cell (se_v_0 so)) (cell (se_v_1 so)) a eta_tape spec)
    | Err e => Err e
    | Panic s => Panic s
    end.

  (* ================================================================== base-OT variant *)
  Variable G : Type.
  Variable O : group_ops G.

  (** session_id_a, session_id_b: two successive challenges of
      Transcript(RANDOM_VOLE_BASE_OT){"session-id": sid} *)
  Definition ot_sids (sid : list N) : list N * list N :=
    let ha := [TInit rv_base_ot_label; TAppend L_rv_session_id sid; TChallenge L_rv_sid_a 32] in
    let hb := ha ++ [TChallenge L_rv_sid_b 32] in
    (H ha, H hb).

  (** instances per Endemic OT (LAMBDA_C) *)
  Definition rv_half : nat := eot_n.

  (** RVOLEReceiver { session_id, beta } plus the two boxed EndemicOTReceiver states *)
  Record rvo_state := { ro_sid : list N; ro_beta : list N; ro_a : recv_state; ro_b : recv_state }.

  Definition eot_msg_bytes (m : list (list N * list N)) : list N :=
    concat (map (fun p => fst p ++ snd p) m).

  (** RVOLEReceiver::new(session_id, rvole_output_1, rng) -> (state, receiver_a, receiver_b, b), RVOLEMsg1 *)
  Definition rvole_ot_recv_new (sid : list N)
             (bits_a : list N) (tas_a : list Z) (ros_a : list G)
             (bits_b : list N) (tas_b : list Z) (ros_b : list G)
    : outcome ((rvo_state * Z) * (list (list N * list N) * list (list N * list N))) :=
    let '(sa, sb) := ot_sids sid in
    let '(st_a, m1a) := eot_receiver_new G O H sa bits_a tas_a ros_a in
    let '(st_b, m1b) := eot_receiver_new G O H sb bits_b tas_b ros_b in
    (* assert_eq!(beta_a.len() + beta_b.len(), XI_BYTES) *)
    if (length (rs_bits st_a) + length (rs_bits st_b) =? Nat.div rv_xi 8)%nat then
      let beta := rs_bits st_a ++ rs_bits st_b in
      let b := rvole_b H q rv_xi sid (rv_bit beta) in
      Val (({| ro_sid := sid; ro_beta := beta; ro_a := st_a; ro_b := st_b |}, b), (m1a, m1b))
    else Panic rv_panic_assert.

  (** row j uses key j of OT a for j < XI/2, key j - XI/2 of OT b otherwise *)
  Definition split_keys {A} (ka kb : list A) (d : A) (j : nat) : A :=
    if (j <? Nat.div rv_xi 2)%nat then nth j ka d else nth (j - Nat.div rv_xi 2) kb d.

  (** RVOLESender::process(session_id, a, rvole_output_1, output, rng):
      ((ot_msg2_a, ot_msg2_b), Ok((a_tilde/eta/mu_hash, c)) | Err) *)
  Definition rvole_ot_send_process (sid : list N) (a : list Z)
             (m1a m1b : list (list N * list N)) (tbs_a tbs_b : list (Z * Z)) (eta_tape : list (list N))
    : (list (list N * list N) * list (list N * list N)) * outcome (rmsg * list Z) :=
    let '(sa, sb) := ot_sids sid in
    let '(m2a, ra) := eot_sender_process G O H sa m1a tbs_a in
    match ra with
    | Val ka =>
      let '(m2b, rb) := eot_sender_process G O H sb m1b tbs_b in
      match rb with
      | Val kb =>
        if (length ka + length kb =? rv_xi)%nat then
          ((m2a, m2b),
           Val (rvole_ot_send_core H q rv_xi rv_lb rv_rho sid
                  (fun j => fst (split_keys ka kb ([], []) j)) (fun j => snd (split_keys ka kb ([], []) j))
                  a eta_tape))
        else ((m2a, m2b), Panic rv_panic_assert)
      | _ => ((m2a, m2b), Err rv_err_base_ot)
      end
    | _ => ((m2a, []), Err rv_err_base_ot)
    end.

  (** RVOLEReceiver::process(&self, rvole_output_2, receiver_a, receiver_b) *)
  Definition rvole_ot_recv_process (st : rvo_state) (m2a m2b : list (list N * list N)) (m : rmsg)
    : outcome (list Z) :=
    match eot_receiver_process G O H (ro_a st) m2a with
    | Val (_, ka) =>
      match eot_receiver_process G O H (ro_b st) m2b with
      | Val (_, kb) =>
        if (length ka + length kb =? rv_xi)%nat then
          rvole_ot_recv_core H q rv_xi rv_lb rv_rho (ro_sid st) (rv_bit (ro_beta st)) (split_keys ka kb []) m
        else Panic rv_panic_assert
      | Err _ => Err rv_err_decode
      | Panic s => Panic s
      end
    | Err _ => Err rv_err_decode
    | Panic s => Panic s
    end.

  (** the calibrated adversarial sender on top of honest base OTs *)
  Definition rvole_ot_adv_send (sid : list N) (a : list Z)
             (m1a m1b : list (list N * list N)) (tbs_a tbs_b : list (Z * Z)) (eta_tape : list (list N))
             (spec : adv_spec)
    : (list (list N * list N) * list (list N * list N)) * outcome rmsg :=
    let '(sa, sb) := ot_sids sid in
    let '(m2a, ra) := eot_sender_process G O H sa m1a tbs_a in
    let '(m2b, rb) := eot_sender_process G O H sb m1b tbs_b in
    match ra, rb with
    | Val ka, Val kb =>
      let v0 := ot_rows H rv_xi rv_lb rv_rho sid (fun j => fst (split_keys ka kb ([], []) j)) in
      let v1 := ot_rows H rv_xi rv_lb rv_rho sid (fun j => snd (split_keys ka kb ([], []) j)) in
      ((m2a, m2b), Val (adv_sender H q rv_xi rv_lb rv_rho sid (cell v0) (cell v1) a eta_tape spec))
    | _, _ => ((m2a, m2b), Err rv_err_base_ot)
    end.
End Rvole.
