(** C18: control skeletons.  For every function the property names, the skeleton lists each
    source-level loop / closure-loop / branch / exit site (keyed as in the generated inventory
    Gen/Sites.v by kind and ordinal) with the number of times its body executes, as a function of
    the loop counters and -- where the source branches on data -- of the secret inputs.
    crypto-bigint primitives appear through leakage contracts: a primitive call contributes
    (primitive, cost parameter) where the cost parameter is the value its iteration count
    depends on (read from the crypto-bigint 0.5.5 sources: ct_div_rem / const_rem / const_rem_wide
    iterate BITS - bits_vartime(rhs) + 1 times; pow_bounded_exp iterates over exponent_bits;
    inv_odd_mod_bounded over its two bit bounds). *)
From SL Require Import Lib.Base Gen.Params.
Local Open Scope N_scope.

Definition site : Type := (N * N)%type.          (* (kind, ordinal) *)
Definition site_eqb (a b : site) : bool := (fst a =? fst b) && (snd a =? snd b).

Definition K_FOR : N := 1.  Definition K_IF : N := 4.  Definition K_CLOSURE : N := 6.
Definition K_TRY : N := 7.  Definition K_RETURN : N := 8.
Definition K_ELSE : N := 104.   (* pseudo-kind: executions of the else side of `if #k` *)

Inductive sk :=
| KLoop (s : site) (n : list N -> N) (body : list sk)       (* body runs n(ctrs) times with ctrs ++ [i] *)
| KIf (s : site) (c : list N -> bool) (thn els : list sk)   (* then-side counted under s, else-side under (K_ELSE, ord) *)
| KExit (s : site).                                         (* `?` / return: not taken on accepted runs *)

Fixpoint sum_upto (n : nat) (i : N) (f : N -> N) : N :=
  match n with O => 0 | S k => f i + sum_upto k (N.succ i) f end.

(** number of executions of the body attached to site [x] *)
Fixpoint count_node (node : sk) (c : list N) (x : site) {struct node} : N :=
  let count_list := fix cl (l : list sk) (c : list N) : N :=
    match l with [] => 0 | h :: t => N.add (count_node h c x) (cl t c) end in
  match node with
  | KLoop s n body =>
      N.add (if site_eqb s x then n c else 0)
            (sum_upto (N.to_nat (n c)) 0 (fun i => count_list body (c ++ [i])))
  | KIf s cnd thn els =>
      if cnd c
      then N.add (if site_eqb s x then 1 else 0) (count_list thn c)
      else N.add (if site_eqb (K_ELSE, snd s) x then 1 else 0) (count_list els c)
  | KExit _ => 0
  end.

Fixpoint count (l : list sk) (c : list N) (x : site) : N :=
  match l with [] => 0 | h :: t => N.add (count_node h c x) (count t c x) end.

Fixpoint sites_node (node : sk) : list site :=
  let sl := fix sl (l : list sk) : list site :=
    match l with [] => [] | h :: t => sites_node h ++ sl t end in
  match node with
  | KLoop s _ body => s :: sl body
  | KIf s _ thn els => s :: sl thn ++ sl els
  | KExit s => [s]
  end.
Fixpoint sites_of (l : list sk) : list site :=
  match l with [] => [] | h :: t => sites_node h ++ sites_of t end.

Definition const (n : N) : list N -> N := fun _ => n.
Definition ctr (k : nat) (c : list N) : N := nth k c 0.

(** ---------------------------------------------------------------- eval_pprf (all_but_one.rs)
    public: nothing; secrets: base-OT choice bits / keys / message -- none of them is branched on.
    Exit: the digest mismatch `return Err` (a function of the message validity, not counted). *)
Definition skel_pprf_eval : list sk :=
  [KLoop (K_FOR, 0) (const GP.LAMBDA_C_DIV_SOFT_SPOKEN_K)
     [KLoop (K_FOR, 1) (const (GP.SOFT_SPOKEN_K - 1))                   (* i = 1 + ctr 1 *)
        [KLoop (K_FOR, 2) (fun c => 2 ^ (1 + ctr 1 c))
           [KLoop (K_CLOSURE, 0) (const GP.LAMBDA_C_BYTES) []];
         KLoop (K_FOR, 3) (const GP.LAMBDA_C_BYTES)
           [KLoop (K_FOR, 4) (fun c => 2 ^ (1 + ctr 1 c)) []]];
      KLoop (K_FOR, 5) (const GP.SOFT_SPOKEN_Q)
        [KLoop (K_CLOSURE, 1) (const (2 * GP.LAMBDA_C_BYTES)) [];
         KLoop (K_CLOSURE, 2) (const (2 * GP.LAMBDA_C_BYTES)) []];
      KLoop (K_CLOSURE, 3) (const GP.SOFT_SPOKEN_Q) [];
      KIf (K_IF, 0) (fun _ => false) [KExit (K_RETURN, 0)] []]].

(** ---------------------------------------------------------------- SoftSpokenOTSender::process
    secret: delta = random_choices (punctured index per tree).  The first loop nest BRANCHES on it:
    `if j == random_choices[i]` -- then-side: zero the row, else-side: expand the key. *)
Definition skel_ss_sender (delta : list N) : list sk :=
  [KLoop (K_FOR, 0) (const GP.LAMBDA_C_DIV_SOFT_SPOKEN_K)
     [KLoop (K_FOR, 1) (const GP.SOFT_SPOKEN_Q)
        [KIf (K_IF, 0) (fun c => ctr 1 c =? nth (N.to_nat (ctr 0 c)) delta 0) [] []]];
   KLoop (K_FOR, 2) (const GP.LAMBDA_C_DIV_SOFT_SPOKEN_K)
     [KLoop (K_FOR, 3) (const GP.SOFT_SPOKEN_K)
        [KLoop (K_FOR, 4) (const GP.SOFT_SPOKEN_Q) [KLoop (K_FOR, 5) (const GP.L_PRIME_BYTES) []];
         KLoop (K_FOR, 6) (const GP.L_PRIME_BYTES) []]];
   KLoop (K_FOR, 7) (const GP.LAMBDA_C_DIV_SOFT_SPOKEN_K) [KLoop (K_FOR, 8) (const GP.SOFT_SPOKEN_K) []];
   KLoop (K_CLOSURE, 0) (const GP.SOFT_SPOKEN_M) [];
   KLoop (K_FOR, 9) (const GP.LAMBDA_C)
     [KLoop (K_FOR, 10) (const GP.SOFT_SPOKEN_M) [KLoop (K_FOR, 11) (const GP.S_BYTES) []];
      KLoop (K_CLOSURE, 1) (const GP.S_BYTES) [];
      KLoop (K_CLOSURE, 2) (const GP.S_BYTES) [];
      KIf (K_IF, 1) (fun _ => false) [KExit (K_RETURN, 0)] []];
   KLoop (K_FOR, 12) (const GP.L)
     [KLoop (K_FOR, 13) (const GP.OT_WIDTH) [];
      KLoop (K_CLOSURE, 3) (const GP.LAMBDA_C_BYTES) [];
      KLoop (K_FOR, 14) (const GP.OT_WIDTH) []]].

Definition skel_ss_transpose : list sk :=
  [KLoop (K_FOR, 0) (const GP.LAMBDA_C_BYTES)
     [KLoop (K_FOR, 1) (const 8)
        [KLoop (K_FOR, 2) (const GP.L_PRIME_BYTES) [KLoop (K_FOR, 3) (const 8) []]]]].

(** ---------------------------------------------------------------- RVOLE (rvole.rs); XI = L *)
Definition XI : N := GP.L.
Definition skel_rvole_receiver : list sk :=
  [KLoop (K_FOR, 0) (const XI) [KLoop (K_FOR, 1) (const GP.L_BATCH_PLUS_RHO) []];
   KLoop (K_FOR, 2) (const GP.RHO) [KLoop (K_FOR, 3) (const GP.L_BATCH) []];
   KLoop (K_FOR, 4) (const XI) [KLoop (K_FOR, 5) (const GP.L_BATCH) []; KLoop (K_FOR, 6) (const GP.RHO) []];
   KLoop (K_FOR, 7) (const XI) [KLoop (K_FOR, 8) (const GP.RHO) [KLoop (K_FOR, 9) (const GP.L_BATCH) []]];
   KIf (K_IF, 0) (fun _ => false) [KExit (K_RETURN, 0)] [];
   KLoop (K_FOR, 10) (const GP.L_BATCH) [KLoop (K_FOR, 11) (const XI) []]].

Definition skel_rvole_sender : list sk :=
  [KExit (K_TRY, 0);
   KLoop (K_CLOSURE, 0) (const GP.L_BATCH) [KLoop (K_CLOSURE, 1) (const XI) []];
   KLoop (K_CLOSURE, 2) (const GP.RHO) [];
   KLoop (K_FOR, 0) (const XI) [KLoop (K_FOR, 1) (const GP.L_BATCH) []; KLoop (K_FOR, 2) (const GP.RHO) []];
   KLoop (K_FOR, 3) (const GP.RHO) [KLoop (K_FOR, 4) (const GP.L_BATCH) []];
   KLoop (K_FOR, 5) (const GP.RHO) [KLoop (K_CLOSURE, 3) (const GP.L_BATCH) []];
   KLoop (K_FOR, 6) (const XI) [KLoop (K_FOR, 7) (const GP.RHO) [KLoop (K_FOR, 8) (const GP.L_BATCH) []]]].

(** ---------------------------------------------------------------- Paillier: no source-level sites;
    leakage contracts of the crypto-bigint primitives.  A trace is the list of
    (primitive, cost parameter) in call order. *)
Definition P_POW : N := 1.        (* pow_bounded_exp / pow: parameter = exponent bit bound *)
Definition P_DIV : N := 2.        (* ct_div_rem via wrapping_div: parameter = (width, bits rhs) packed *)
Definition P_REM : N := 3.        (* const_rem / rem *)
Definition P_REMW : N := 4.       (* const_rem_wide *)
Definition pack (w b : N) : N := w * 65536 + b.

Record pkey := { kp : N; kq : N; kwC : N; kwM : N; kwP : N }.
Definition kn (k : pkey) : N := kp k * kq k.

Definition trace_encrypt (k : pkey) (m r : N) : list (N * N) := [(P_POW, N.size (kn k))].
Definition trace_decrypt (k : pkey) (c : N) : list (N * N) :=
  [(P_POW, kwM k); (P_DIV, pack (kwC k) (N.size (kn k))); (P_REM, pack (kwM k) (N.size (kn k)));
   (P_REMW, pack (kwM k) (N.size (kn k)))].
Definition trace_mp (k : pkey) (p : N) : list (N * N) :=
  [(P_POW, kwP k); (P_DIV, pack (kwM k) (N.size p)); (P_REM, pack (kwP k) (N.size p)); (P_REMW, pack (kwP k) (N.size p))].
Definition trace_recombine (k : pkey) : list (N * N) :=
  [(P_REM, pack (kwP k) (N.size (kq k))); (P_REMW, pack (kwP k) (N.size (kq k)))].
Definition trace_decrypt_fast (k : pkey) (c : N) : list (N * N) :=
  [(P_REMW, pack (kwM k) (N.size (kp k * kp k))); (P_REMW, pack (kwM k) (N.size (kq k * kq k)))]
  ++ trace_mp k (kp k) ++ trace_mp k (kq k) ++ trace_recombine k.
Definition trace_extract_n_root (k : pkey) (z : N) : list (N * N) :=
  [(P_REMW, pack (kwP k) (N.size (kp k))); (P_REMW, pack (kwP k) (N.size (kq k)));
   (P_POW, kwP k); (P_POW, kwP k)] ++ trace_recombine k.
Definition trace_mul (k : pkey) (c m : N) : list (N * N) := [(P_POW, kwM k)].
Definition trace_add (k : pkey) (c1 c2 : N) : list (N * N) := [].
(** NOT constant time: the bound is the bit length of the (secret) scalar *)
Definition trace_mul_vartime (k : pkey) (c m : N) : list (N * N) := [(P_POW, N.size m)].

(** two keys of the same public size class *)
Definition same_class (k1 k2 : pkey) : Prop :=
  kwC k1 = kwC k2 /\ kwM k1 = kwM k2 /\ kwP k1 = kwP k2 /\
  N.size (kn k1) = N.size (kn k2) /\ N.size (kp k1) = N.size (kp k2) /\ N.size (kq k1) = N.size (kq k2) /\
  N.size (kp k1 * kp k1) = N.size (kp k2 * kp k2) /\ N.size (kq k1 * kq k1) = N.size (kq k2 * kq k2).
