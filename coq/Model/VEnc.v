(** C09 / C10 (and the byte-level entry points used by C11): verifiable RSA encryption,
    crates/sl-verifiable-enc/src/lib.rs, as the code is after the fix: commits F2 (decode_scalar
    left-pads), F3 (from_bytes rejects security_param > 256) and F8 (decrypt scans on when an RSA
    decryption fails).

    The model is a Section over
      - an abstract curve: [G], [O : group_ops G], group order [q], [psize] = size_of::<G::Repr>();
      - the scalar encoding [repr] / [from_repr] (PrimeField::to_repr / from_repr; width 32; the code
        applies BigUint::from_bytes_be to these bytes whatever the byte order of the curve is, so
        big-endian secp256k1 and little-endian edwards25519 are two instances, see [repr_be], [repr_le]);
      - [sha256];
      - RSA PKCS#1 v1.5: [rsa_enc seed pk m] (the ChaCha20 rng is re-seeded from [seed] in every call,
        so the ciphertext is a function of (seed, pk, m)), [rsa_dec sk c], moduli [pk_n], [sk_n].
    Random tape of encrypt_with_proof: the seed and the nonces r_i (a function nat -> Z, reduced mod q).
    No proofs in this file. *)
From SL Require Import Lib.Base Lib.Oracle Gen.Params.
Local Open Scope Z_scope.

(** RsaError *)
Definition E_ENC : N := 1%N.                 (* EncError *)
Definition E_DEC : N := 2%N.                 (* DecError *)
Definition E_INVALID_LABEL : N := 3%N.       (* InvalidLabel *)
Definition E_VERIFICATION : N := 4%N.        (* VerificationFailed *)
Definition E_INVALID_SIZE : N := 5%N.        (* InvalidSizeParam *)
(** SerdeError(msg): 10 + index of the message in from_bytes
    0 "Input data too short"  1 "Inconsistent scalar size"  2 "Inconsistent g_r size"
    3 "Security param must at least be 128"  4 "Security param must at most be 256"
    5 "Inconsistent number of proofs, ..."  6 "Inconsistent data length"
    7 "Unexpected end of data while reading proofs"  8 "Unexpected end of data while reading scalars"
    9 "Invalid scalar" *)
Definition E_SERDE (k : N) : N := (10 + k)%N.

(** b"Verified-RSA-encryption" *)
Definition A_CHALLENGE : list N :=
  [86;101;114;105;102;105;101;100;45;82;83;65;45;101;110;99;114;121;112;116;105;111;110]%N.
(** b"SL-label-for-RSA" *)
Definition A_LABEL : list N := [83;76;45;108;97;98;101;108;45;102;111;114;45;82;83;65]%N.

(** size_of::<<G::Scalar as PrimeField>::Repr>() for both curves *)
Definition SCALAR_SIZE : nat := 32.
(** SECURITY_PARAM (generated from the source by the T1 translator) *)
Definition SEC_PARAM : nat := N.to_nat GP.VENC_SECURITY_PARAM.

(** ** num-bigint-dig BigUint <-> bytes *)
(** BigUint::from_bytes_be: any length, leading zeros ignored, [] is 0 *)
Definition bu_from_be (b : list N) : Z := Z.of_N (of_be b).
(** number of bytes of the minimal big-endian encoding; zero has the one-byte encoding [0] *)
Definition byte_len (v : Z) : nat := Z.to_nat (Z.log2 v / 8 + 1).
(** BigUint::to_bytes_be *)
Definition bu_to_be (v : Z) : list N := to_be (byte_len v) (Z.to_N v).

(** ModInverse::mod_inverse (extended Euclid): Some (the inverse in [0,n)) iff gcd(g,n) = 1.
    [egcd] keeps  t_i * g = r_i (mod n). *)
Fixpoint egcd (fuel : nat) (r0 r1 t0 t1 : Z) : option (Z * Z) :=
  match fuel with
  | O => None
  | S f => if r1 =? 0 then Some (r0, t0)
           else let d := r0 / r1 in egcd f r1 (r0 - d * r1) t1 (t0 - d * t1)
  end.
Definition mod_inverse (g n : Z) : option Z :=
  match egcd (2 * Z.to_nat (Z.log2 n + 1) + 2) n (g mod n) 0 1 with
  | Some (d, t) => if d =? 1 then Some (t mod n) else None
  | None => None
  end.

(** ** The two scalar encodings (instances of [repr]/[from_repr]) *)
Definition repr_be (s : Z) : list N := to_be SCALAR_SIZE (Z.to_N s).
Definition from_repr_be (q : Z) (b : list N) : option Z :=
  if (length b =? SCALAR_SIZE)%nat
  then (let v := Z.of_N (of_be b) in if v <? q then Some v else None)
  else None.
Definition repr_le (s : Z) : list N := to_le SCALAR_SIZE (Z.to_N s).
Definition from_repr_le (q : Z) (b : list N) : option Z :=
  if (length b =? SCALAR_SIZE)%nat
  then (let v := Z.of_N (of_le b) in if v <? q then Some v else None)
  else None.

(** ProofData<G> *)
Record slot := { s_gr : list N; s_encxr : list N; s_encr : list N }.
(** VerifiableRsaEncryption<G>; scalars are their canonical representatives in [0,q) *)
Record vproof := { vp_seed : list N; vp_slots : list slot; vp_opens : list Z; vp_sp : nat }.

(** bytes of one slot as hashed by [challenge] and written by [to_bytes] (same order in both) *)
Definition slot_bytes (s : slot) : list N := s_gr s ++ s_encxr s ++ s_encr s.

(** ExtractBit::extract_bit: self[idx >> 3] panics when out of range *)
Definition extract_bit (ch : list N) (idx : nat) : outcome bool :=
  match nth_error ch (idx / 8)%nat with
  | None => Panic 2%N
  | Some byte => Val (N.testbit byte (N.of_nat (idx mod 8)%nat))
  end.

Definition u16be (v : nat) : list N := to_be 2 (N.of_nat v mod 65536)%N.   (* (v as u16).to_be_bytes() *)

(** data[i], &data[a..b]; offsets and lengths are usize values, kept in binary ([len] = data.len()) *)
Definition byte_at (d : list N) (i : N) : outcome N :=
  match nth_error d (N.to_nat i) with Some x => Val x | None => Panic 10%N end.
Definition slice (d : list N) (len a b : N) : outcome (list N) :=
  if ((b <=? len) && (a <=? b))%N then Val (firstn (N.to_nat (b - a)) (skipn (N.to_nat a) d)) else Panic 11%N.
(** &data[off..off+n] at the read cursor of from_bytes: [rest] is data[off..] (the loops only move forward), the bounds
    check is the one of the Rust slice expression *)
Definition take (rest : list N) (len off n : N) : outcome (list N * list N) :=
  if (off + n <=? len)%N then Val (firstn (N.to_nat n) rest, skipn (N.to_nat n) rest) else Panic 11%N.
(** u16::from_be_bytes([data[off], data[off+1]]) as usize *)
Definition u16_at (d : list N) (off : N) : outcome N :=
  obind (byte_at d off) (fun hi => obind (byte_at d (off + 1)) (fun lo => Val (hi * 256 + lo)%N)).

Section VEnc.
  Variable G : Type.
  Variable O : group_ops G.
  Variable q : Z.
  Variable psize : nat.
  Variable repr : Z -> list N.
  Variable from_repr : list N -> option Z.
  Variable sha256 : list N -> list N.
  Variable PK SK : Type.
  Variable pk_n : PK -> Z.
  Variable sk_n : SK -> Z.
  Variable rsa_enc : list N -> PK -> list N -> option (list N).
  Variable rsa_dec : SK -> list N -> option (list N).

  (** label_int_from_bytes *)
  Definition label_int (label : list N) : Z := bu_from_be (sha256 (A_LABEL ++ label)).

  (** rsa_encrypt_with_label(m, label, pk, seed) *)
  Definition rsa_encrypt_with_label (m label : list N) (pk : PK) (seed : list N) : outcome (list N) :=
    let n := pk_n pk in
    if n =? 0 then Panic 1%N      (* BigUint % 0 *)
    else
      let pt := (bu_from_be m * label_int label) mod n in
      match rsa_enc seed pk (bu_to_be pt) with
      | Some c => Val c
      | None => Err E_ENC
      end.

  (** rsa_decrypt_with_label(ciphertext, label, sk); [li] is label_int(label).mod_inverse(n), a function of
      (label, sk) only, which [decrypt] below evaluates once for all slots *)
  Definition rsa_decrypt_with_inv (li : option Z) (c : list N) (sk : SK) : outcome (list N) :=
    match rsa_dec sk c with
    | None => Err E_DEC
    | Some pt =>
      let n := sk_n sk in
      match li with
      | None => Err E_INVALID_LABEL
      | Some li => if n =? 0 then Panic 1%N else Val (bu_to_be ((bu_from_be pt * li) mod n))
      end
    end.
  Definition label_inv (label : list N) (sk : SK) : option Z := mod_inverse (label_int label) (sk_n sk).
  Definition rsa_decrypt_with_label (c label : list N) (sk : SK) : outcome (list N) :=
    rsa_decrypt_with_inv (label_inv label sk) c sk.

  (** decode_scalar (after F2): longer than the scalar width -> None; left-pad; canonical value *)
  Definition decode_scalar (b : list N) : option Z :=
    if (SCALAR_SIZE <? length b)%nat then None
    else from_repr (repeat 0%N (SCALAR_SIZE - length b) ++ b).

  (** challenge(q_point, label, proofs) *)
  Definition challenge (Q : G) (label : list N) (slots : list slot) : list N :=
    sha256 (A_CHALLENGE ++ g_enc O Q ++ flat_map slot_bytes slots ++ label).

  (** the first loop of encrypt_with_proof: per slot (ProofData, r, x + r) *)
  Fixpoint enc_slots (x : Z) (pk : PK) (label seed : list N) (tape : nat -> Z) (cnt i : nat)
    : outcome (list (slot * Z * Z)) :=
    match cnt with
    | 0%nat => Val []
    | S c =>
      let r := tape i mod q in
      let g_r := g_smul O r (g_gen O) in
      let xr := (x + r) mod q in
      obind (rsa_encrypt_with_label (repr r) label pk seed) (fun enc_r =>
      obind (rsa_encrypt_with_label (repr xr) label pk seed) (fun enc_xr =>
      obind (enc_slots x pk label seed tape c (S i)) (fun rest =>
      Val (({| s_gr := g_enc O g_r; s_encxr := enc_xr; s_encr := enc_r |}, r, xr) :: rest))))
    end.

  (** the second loop: conditional_select(r_i, x + r_i, challenge bit i) *)
  Fixpoint open_slots (ch : list N) (l : list (slot * Z * Z)) (i : nat) : outcome (list Z) :=
    match l with
    | [] => Val []
    | (_, r, xr) :: rest =>
      obind (extract_bit ch i) (fun b =>
      obind (open_slots ch rest (S i)) (fun os => Val ((if b then xr else r) :: os)))
    end.

  Definition encrypt_with_proof (x : Z) (pk : PK) (label : list N) (sp_opt : option nat)
             (seed : list N) (tape : nat -> Z) : outcome vproof :=
    let sp := match sp_opt with Some s => s | None => SEC_PARAM end in
    if ((sp <? SEC_PARAM) || (256 <? sp))%nat then Err E_INVALID_SIZE
    else
      let Q := g_smul O x (g_gen O) in
      obind (enc_slots x pk label seed tape sp 0%nat) (fun l =>
      let slots := map (fun t => fst (fst t)) l in
      let ch := challenge Q label slots in
      obind (open_slots ch l 0%nat) (fun os =>
      Val {| vp_seed := seed; vp_slots := slots; vp_opens := os; vp_sp := sp |})).

  (** The public entry point takes [Option<usize>]: the range test happens on the caller's value at its full width,
      before anything is allocated or narrowed.  [encrypt_with_proof] above is the same function on the parameters
      that are small enough to be written as a nat (Proofs/VEncCore.v: encrypt_usize_nat); this one is what the
      correspondence runs, with parameters up to 2^64-1. *)
  Definition encrypt_with_proof_usize (x : Z) (pk : PK) (label : list N) (sp_opt : option N)
             (seed : list N) (tape : nat -> Z) : outcome vproof :=
    match sp_opt with
    | None => encrypt_with_proof x pk label None seed tape
    | Some s =>
      if ((s <? N.of_nat SEC_PARAM) || (256 <? s))%N then Err E_INVALID_SIZE
      else encrypt_with_proof x pk label (Some (N.to_nat s)) seed tape
    end.

  (** one iteration of the loop of [verify] *)
  Definition verify_slot (Q : G) (pk : PK) (label seed ch : list N) (i : nat) (pr : slot) (s : Z)
    : outcome unit :=
    let scalar_expo := g_smul O s (g_gen O) in
    obind (extract_bit ch i) (fun bit =>
    obind (rsa_encrypt_with_label (repr s) label pk seed) (fun enc =>
    match g_dec O (s_gr pr) with
    | None => Err E_VERIFICATION
    | Some g_r =>
      let cond_a := g_eqb O g_r scalar_expo && bytes_eqb (s_encr pr) enc in
      let cond_b := g_eqb O (g_add O Q g_r) scalar_expo && bytes_eqb (s_encxr pr) enc in
      if (if bit then cond_b else cond_a) then Val tt else Err E_VERIFICATION
    end)).

  (** for i in 0..security_param { self.proofs[i]; self.open_scalars[i]; ... } *)
  Fixpoint verify_slots (Q : G) (pk : PK) (label seed ch : list N) (cnt i : nat)
           (ps : list slot) (os : list Z) : outcome unit :=
    match cnt with
    | 0%nat => Val tt
    | S c =>
      match ps with
      | [] => Panic 3%N
      | pr :: ps' =>
        match os with
        | [] => Panic 4%N
        | s :: os' =>
          obind (verify_slot Q pk label seed ch i pr s) (fun _ =>
          verify_slots Q pk label seed ch c (S i) ps' os')
        end
      end
    end.

  Definition verify (p : vproof) (Q : G) (pk : PK) (label : list N) : outcome unit :=
    let ch := challenge Q label (vp_slots p) in
    verify_slots Q pk label (vp_seed p) ch (vp_sp p) 0%nat (vp_slots p) (vp_opens p).

  (** ciphertext -> scalar, as both halves of a slot are treated in [decrypt]:
      any failure (RSA, label inverse, length, non-canonical value) skips the slot *)
  Definition dec_scalar (sk : SK) (li : option Z) (c : list N) : outcome (option Z) :=
    match rsa_decrypt_with_inv li c sk with
    | Val m => Val (decode_scalar m)
    | Err _ => Val None
    | Panic s => Panic s
    end.

  Fixpoint decrypt_slots (Q : G) (sk : SK) (li : option Z) (ps : list slot) : outcome Z :=
    match ps with
    | [] => Err E_DEC
    | pr :: rest =>
      obind (dec_scalar sk li (s_encr pr)) (fun ro =>
      match ro with
      | None => decrypt_slots Q sk li rest
      | Some r =>
        obind (dec_scalar sk li (s_encxr pr)) (fun xro =>
        match xro with
        | None => decrypt_slots Q sk li rest
        | Some xr =>
          let x := (xr - r) mod q in
          if g_eqb O (g_smul O x (g_gen O)) Q then Val x else decrypt_slots Q sk li rest
        end)
      end)
    end.

  Definition decrypt (p : vproof) (Q : G) (sk : SK) (label : list N) : outcome Z :=
    if negb (length (vp_slots p) =? vp_sp p)%nat then Err E_VERIFICATION
    else decrypt_slots Q sk (label_inv label sk) (vp_slots p).

  (** to_bytes: self.proofs[0] panics on an empty proof list *)
  Definition to_bytes (p : vproof) : outcome (list N) :=
    match vp_slots p with
    | [] => Panic 5%N
    | s0 :: _ =>
      Val (vp_seed p ++ u16be (vp_sp p) ++ u16be (length (s_gr s0)) ++ u16be (length (s_encxr s0))
           ++ u16be SCALAR_SIZE
           ++ flat_map slot_bytes (vp_slots p) ++ flat_map repr (vp_opens p))
    end.

  (** from_bytes: the "Read proofs" loop; [rest] = data[off..]; returns the slots, the final offset and data[off'..] *)
  Fixpoint read_slots (rest : list N) (len : N) (cnt : nat) (off gsz esz : N)
    : outcome (list slot * (N * list N)) :=
    match cnt with
    | 0%nat => Val ([], (off, rest))
    | S c =>
      if (len <? off + (gsz + 2 * esz))%N then Err (E_SERDE 7)
      else
        obind (take rest len off gsz) (fun gr =>
        if negb (length (fst gr) =? psize)%nat then Panic 12%N     (* copy_from_slice length mismatch *)
        else
        obind (take (snd gr) len (off + gsz) esz) (fun exr =>
        obind (take (snd exr) len (off + gsz + esz) esz) (fun er =>
        obind (read_slots (snd er) len c (off + gsz + esz + esz) gsz esz) (fun so =>
        Val ({| s_gr := fst gr; s_encxr := fst exr; s_encr := fst er |} :: fst so, snd so)))))
    end.

  (** the "Read open scalars" loop *)
  Fixpoint read_scalars (rest : list N) (len : N) (cnt : nat) (off : N) : outcome (list Z) :=
    match cnt with
    | 0%nat => Val []
    | S c =>
      if (len <? off + N.of_nat SCALAR_SIZE)%N then Err (E_SERDE 8)
      else
        obind (take rest len off (N.of_nat SCALAR_SIZE)) (fun b =>
        match decode_scalar (fst b) with
        | None => Err (E_SERDE 9)
        | Some s => obind (read_scalars (snd b) len c (off + N.of_nat SCALAR_SIZE)) (fun rs => Val (s :: rs))
        end)
    end.

  Definition from_bytes (d : list N) : outcome vproof :=
    let len := N.of_nat (length d) in
    if (len <? 32 + 8)%N then Err (E_SERDE 0)
    else
      obind (slice d len 0 32) (fun seed =>
      obind (u16_at d 32) (fun sp =>
      obind (u16_at d 34) (fun g_r_size =>
      obind (u16_at d 36) (fun enc_size =>
      obind (u16_at d 38) (fun scalar_size =>
      if negb (scalar_size =? N.of_nat SCALAR_SIZE)%N then Err (E_SERDE 1)
      else if negb (g_r_size =? N.of_nat psize)%N then Err (E_SERDE 2)
      else
        let proof_size := (g_r_size + 2 * enc_size)%N in
        let remaining := (len - 40)%N in
        let num := (remaining / (proof_size + scalar_size))%N in
        if (sp <? N.of_nat SEC_PARAM)%N then Err (E_SERDE 3)
        else if (256 <? sp)%N then Err (E_SERDE 4)
        else if negb (num =? sp)%N then Err (E_SERDE 5)
        else if negb (remaining mod (proof_size + scalar_size) =? 0)%N then Err (E_SERDE 6)
        else
          obind (read_slots (skipn 40 d) len (N.to_nat num) 40 g_r_size enc_size) (fun so =>
          obind (read_scalars (snd (snd so)) len (N.to_nat num) (fst (snd so))) (fun opens =>
          Val {| vp_seed := seed; vp_slots := fst so; vp_opens := opens; vp_sp := N.to_nat sp |}))))))).
End VEnc.

(** ** Packaging: one record for everything the model is parametrised by, and the entry points applied to it
    (the property statements of Props/C09.v and Props/C10.v quantify over all such worlds). *)
Record venc_world := {
  w_G : Type;
  w_O : group_ops w_G;
  w_q : Z;
  w_psize : nat;
  w_repr : Z -> list N;
  w_from_repr : list N -> option Z;
  w_sha256 : list N -> list N;
  w_PK : Type;
  w_SK : Type;
  w_pk_n : w_PK -> Z;
  w_sk_n : w_SK -> Z;
  w_rsa_enc : list N -> w_PK -> list N -> option (list N);
  w_rsa_dec : w_SK -> list N -> option (list N);
}.

Definition W_gen (W : venc_world) : w_G W := g_gen (w_O W).
Definition W_smul (W : venc_world) (k : Z) (P : w_G W) : w_G W := g_smul (w_O W) k P.
Definition W_label_int (W : venc_world) (label : list N) : Z := label_int (w_sha256 W) label.
Definition W_enc_label (W : venc_world) (m label : list N) (pk : w_PK W) (seed : list N) : outcome (list N) :=
  rsa_encrypt_with_label (w_sha256 W) (w_PK W) (w_pk_n W) (w_rsa_enc W) m label pk seed.
Definition W_dec_scalar (W : venc_world) (sk : w_SK W) (label c : list N) : outcome (option Z) :=
  dec_scalar (w_from_repr W) (w_SK W) (w_sk_n W) (w_rsa_dec W) sk (label_inv (w_sha256 W) (w_SK W) (w_sk_n W) label sk) c.
Definition W_challenge (W : venc_world) (Q : w_G W) (label : list N) (slots : list slot) : list N :=
  challenge (w_G W) (w_O W) (w_sha256 W) Q label slots.
Definition W_encrypt (W : venc_world) (x : Z) (pk : w_PK W) (label : list N) (sp : option nat)
           (seed : list N) (tape : nat -> Z) : outcome vproof :=
  encrypt_with_proof (w_G W) (w_O W) (w_q W) (w_repr W) (w_sha256 W) (w_PK W) (w_pk_n W) (w_rsa_enc W)
                     x pk label sp seed tape.
Definition W_encrypt_usize (W : venc_world) (x : Z) (pk : w_PK W) (label : list N) (sp : option N)
           (seed : list N) (tape : nat -> Z) : outcome vproof :=
  encrypt_with_proof_usize (w_G W) (w_O W) (w_q W) (w_repr W) (w_sha256 W) (w_PK W) (w_pk_n W) (w_rsa_enc W)
                     x pk label sp seed tape.
Definition W_verify (W : venc_world) (p : vproof) (Q : w_G W) (pk : w_PK W) (label : list N) : outcome unit :=
  verify (w_G W) (w_O W) (w_repr W) (w_sha256 W) (w_PK W) (w_pk_n W) (w_rsa_enc W) p Q pk label.
Definition W_decrypt (W : venc_world) (p : vproof) (Q : w_G W) (sk : w_SK W) (label : list N) : outcome Z :=
  decrypt (w_G W) (w_O W) (w_q W) (w_from_repr W) (w_sha256 W) (w_SK W) (w_sk_n W) (w_rsa_dec W) p Q sk label.
Definition W_to_bytes (W : venc_world) (p : vproof) : outcome (list N) := to_bytes (w_repr W) p.
Definition W_from_bytes (W : venc_world) (d : list N) : outcome vproof :=
  from_bytes (w_psize W) (w_from_repr W) d.
