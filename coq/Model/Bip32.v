(** C12 -- BIP32 public derivation: executable model of crates/sl-mpc-mate/src/bip32.rs
    (the code as it is after the F5 repair: [derive_xpub] rejects an identity root and paths
    longer than 255).  No proofs here (Proofs/Bip32*.v); the independent specification is
    Model/Bip32Spec.v.

    Conventions: bytes are [N] below 256, strings are the lists of their ASCII codes.
    A [ChildIndex] is the 32-bit number [ChildIndex::to_bits] (bit 31 = hardened), i.e. the model
    covers every value built with [ChildIndex::normal/hardened/from_bits/from_str]; the raw enum
    value [ChildIndex::Normal(n)] with n >= 2^31 (rejected by every constructor of the
    derivation-path crate) is outside the model.
    The curve group, HMAC-SHA512, SHA-256 and RIPEMD-160 are Section variables. [g_enc] is the
    SEC1 compressed encoding ([to_encoded_point(true).as_bytes()]): 33 bytes, but the single byte
    [0] for the identity -- which is why the two [expect]s of the code are real panic sites. *)
From SL Require Import Lib.Base Lib.Oracle.
Local Open Scope N_scope.

(** [BIP32Error] *)
Definition E_Hardened : N := 1.            (* HardenedChildNotSupported *)
Definition E_InvalidChainCode : N := 2.    (* never produced: HMAC accepts keys of every length *)
Definition E_PointAtInfinity : N := 3.     (* PubkeyPointAtInfinity *)
Definition E_InvalidChildScalar : N := 4.
Definition E_PathTooDeep : N := 5.

(** panic sites *)
Definition P_fp33 : N := 1.    (* get_finger_print: expect("compressed pubkey must be 33 bytes") *)
Definition P_ser78 : N := 2.   (* XPubKey::to_string: expect("... must be 78 bytes") *)

(** [Prefix] and [From<Prefix> for u32] *)
Inductive prefix := XPub | YPub | ZPub | TPub | Custom (v : N).
Definition prefix_u32 (p : prefix) : N :=
  match p with
  | XPub => 0x0488b21e
  | YPub => 0x049d7cb2
  | ZPub => 0x04b24746
  | TPub => 0x043587cf
  | Custom v => v
  end.

(** [ChildIndex] as its 32 bits *)
Definition is_normal (i : N) : bool := i <? 2 ^ 31.
Definition to_bits (i : N) : N := i.
Definition to_u32 (i : N) : N := i mod 2 ^ 31.      (* the index without the hardened flag *)

(** ** Strings *)

(** [hex::encode]: lower case *)
Definition hex_digit (d : N) : N := if d <? 10 then 48 + d else 87 + d.
Definition hex_encode (l : list N) : list N :=
  flat_map (fun b => [hex_digit (b / 16); hex_digit (b mod 16)]) l.

(** digits of [n] in base [base], most significant first, no leading zero digit ([] for 0).
    The fuel (the bit length of n) always suffices for base >= 2. *)
Fixpoint digits_aux (base : N) (fuel : nat) (n : N) (acc : list N) : list N :=
  match fuel with
  | O => acc
  | S f => if n =? 0 then acc else digits_aux base f (n / base) (n mod base :: acc)
  end.
Definition digits (base n : N) : list N := digits_aux base (N.size_nat n) n [].

(** value of a digit string, most significant first *)
Fixpoint undigits (base : N) (ds : list N) (acc : N) : N :=
  match ds with [] => acc | d :: r => undigits base r (acc * base + d) end.

(** Bitcoin alphabet 123456789ABCDEFGHJKLMNPQRSTUVWXYZabcdefghijkmnopqrstuvwxyz *)
Definition b58_alphabet : list N :=
  [49;50;51;52;53;54;55;56;57;
   65;66;67;68;69;70;71;72; 74;75;76;77;78; 80;81;82;83;84;85;86;87;88;89;90;
   97;98;99;100;101;102;103;104;105;106;107; 109;110;111;112;113;114;115;116;117;118;119;120;121;122].
Definition b58_char (d : N) : N := nth (N.to_nat d) b58_alphabet 0.

Fixpoint index_of (c : N) (l : list N) (i : N) : option N :=
  match l with [] => None | x :: r => if x =? c then Some i else index_of c r (N.succ i) end.
Definition b58_index (c : N) : option N := index_of c b58_alphabet 0.

Fixpoint count_lead (z : N) (l : list N) : nat :=
  match l with x :: r => if x =? z then S (count_lead z r) else O | [] => O end.

(** [bs58::encode(..).with_alphabet(BITCOIN)]: every leading zero byte becomes '1', the rest is the
    base-58 numeral of the big-endian value. *)
Definition base58_encode (b : list N) : list N :=
  repeat 49 (count_lead 0 b) ++ map b58_char (digits 58 (of_be b)).

Fixpoint b58_indices (s : list N) : option (list N) :=
  match s with
  | [] => Some []
  | c :: r => match b58_index c, b58_indices r with Some d, Some ds => Some (d :: ds) | _, _ => None end
  end.

(** the inverse (used to state the round trip, and evaluated by the driver) *)
Definition base58_decode (s : list N) : option (list N) :=
  match b58_indices s with
  | Some ds => Some (repeat 0 (count_lead 49 s) ++ digits 256 (undigits 58 ds 0))
  | None => None
  end.

(** ** The derivation functions *)
Section Bip32.
  Variable G : Type.
  Variable O : group_ops G.
  Variable hmac512 : list N -> list N -> list N.   (* key, data -> 64 bytes *)
  Variable sha256 : list N -> list N.
  Variable ripemd160 : list N -> list N.
  Variable q : Z.                                   (* Secp256k1::ORDER *)

  (** [derive_child_pubkey(parent_pubkey, parent_chain_code, child_number)]
      -> (Scalar::reduce(I_L), child key, child chain code).
      The code tests [il_int > ORDER]; BIP32 says "parse256(I_L) >= n": I_L = n is accepted here
      (offset 0, child = parent).  There is NO identity check on the parent. *)
  Definition derive_child_pubkey (parent : G) (chain_code : list N) (i : N)
    : outcome (Z * G * list N) :=
    if is_normal i then
      let result := hmac512 chain_code (g_enc O parent ++ to_be 4 (to_bits i)) in
      let il_int := Z.of_N (of_be (firstn 32 result)) in
      let child_chain_code := skipn 32 result in
      if (il_int >? q)%Z then Err E_InvalidChildScalar
      else
        let offset := (il_int mod q)%Z in
        let child := g_add O (g_smul O offset (g_gen O)) parent in
        if g_eqb O child (g_id O) then Err E_PointAtInfinity
        else Val (offset, child, child_chain_code)
    else Err E_Hardened.

  (** [get_finger_print] *)
  Definition get_finger_print (public_key : G) : outcome (list N) :=
    let pubkey_bytes := g_enc O public_key in
    if (length pubkey_bytes =? 33)%nat
    then Val (firstn 4 (ripemd160 (sha256 pubkey_bytes)))
    else Panic P_fp33.

  Record xpubkey := {
    x_prefix : prefix;
    x_parent_fingerprint : list N;
    x_child_number : N;
    x_pubkey : G;
    x_chain_code : list N;
    x_depth : N;
  }.

  (** the [for child_num in path] loop; state = (pubkey, chain_code, parent_fingerprint) *)
  Fixpoint walk (pubkey : G) (chain_code parent_fingerprint : list N) (path : list N)
    : outcome (G * list N * list N) :=
    match path with
    | [] => Val (pubkey, chain_code, parent_fingerprint)
    | child_num :: rest =>
      obind (get_finger_print pubkey) (fun fp =>
      obind (derive_child_pubkey pubkey chain_code child_num) (fun r =>
      let '(_, child_pubkey, child_chain_code) := r in
      walk child_pubkey child_chain_code fp rest))
    end.

  (** [derive_xpub(prefix, root_public_key, root_chain_code, chain_path)] *)
  Definition derive_xpub (pfx : prefix) (root : G) (root_chain_code : list N) (path : list N)
    : outcome xpubkey :=
    if g_eqb O root (g_id O) then Err E_PointAtInfinity
    else
      let depth := N.of_nat (length path) in
      if 255 <? depth then Err E_PathTooDeep
      else
        let final_child_num := if depth =? 0 then 0 else nth (length path - 1)%nat path 0 in
        obind (walk root root_chain_code [0; 0; 0; 0] path) (fun st =>
        let '(pubkey, chain_code, parent_fingerprint) := st in
        Val {| x_prefix := pfx;
               x_depth := depth mod 256;                        (* depth as u8 *)
               x_parent_fingerprint := parent_fingerprint;
               x_child_number := to_u32 final_child_num;
               x_chain_code := chain_code;
               x_pubkey := pubkey |}).

  (** the 78 bytes of [XPubKey::to_string] before the length check *)
  Definition serialize (x : xpubkey) : list N :=
    to_be 4 (prefix_u32 (x_prefix x)) ++ [x_depth x] ++ x_parent_fingerprint x
      ++ to_be 4 (x_child_number x) ++ x_chain_code x ++ g_enc O (x_pubkey x).

  (** [base58_encode]: payload || first 4 bytes of SHA256(SHA256(payload)) *)
  Definition base58check (serialized : list N) : list N :=
    base58_encode (serialized ++ firstn 4 (sha256 (sha256 serialized))).

  (** [XPubKey::to_string(encoded)] *)
  Definition to_string (x : xpubkey) (encoded : bool) : outcome (list N) :=
    let serialized := serialize x in
    if (length serialized =? 78)%nat
    then Val (if encoded then base58check serialized else hex_encode serialized)
    else Panic P_ser78.

  (** the offsets [derive_child_pubkey] returns along a path (the loop discards them; callers
      that sign with a derived key add them up) *)
  Fixpoint walk_offsets (pubkey : G) (chain_code : list N) (path : list N) : list Z :=
    match path with
    | [] => []
    | i :: rest =>
      match derive_child_pubkey pubkey chain_code i with
      | Val (o, child, cc) => o :: walk_offsets child cc rest
      | _ => []
      end
    end.
End Bip32.
