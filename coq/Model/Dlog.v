(** C14: Schnorr proof of knowledge of a discrete logarithm with Fiat-Shamir over a merlin
    transcript (crates/sl-oblivious/src/zkproofs.rs, utils::TranscriptProtocol in lib.rs). *)
From SL Require Import Lib.Base Lib.Oracle Gen.Params.
Local Open Scope Z_scope.

(* ASCII labels used by the code *)
Definition L_session_id : list N := [115;101;115;115;105;111;110;95;105;100]%N.   (* "session_id" *)
Definition L_party_id : list N := [112;97;114;116;121;95;105;100]%N.              (* "party_id" *)
Definition L_action : list N := [97;99;116;105;111;110]%N.                        (* "action" *)
Definition L_y : list N := [121]%N.                                                (* "y" *)
Definition L_t : list N := [116]%N.                                                (* "t" *)
Definition L_base_point : list N := [98;97;115;101;45;112;111;105;110;116]%N.     (* "base-point" *)

Definition dlog_label : list N := label_bytes GP.LABEL_VERSION GP.DLOG_CHALLENGE_LABEL_ID.

(** Transcript::new_dlog_proof(session_id, party_id, action, label) *)
Definition new_dlog_proof (sid : list N) (party : N) (action label : list N) : list top :=
  [TInit label; TAppend L_session_id sid; TAppendU64 L_party_id party; TAppend L_action action].

Section Dlog.
  Variable G : Type.
  Variable O : group_ops G.
  Variable H : transcript_oracle.
  Variable q : Z.

  (** operations appended by [fiat_shamir] (the transcript is mutated: they stay in the history) *)
  Definition fs_ops (y t B : G) : list top :=
    [TAppend L_y (g_enc O y); TAppend L_t (g_enc O t); TAppend L_base_point (g_enc O B);
     TChallenge dlog_label 32].

  (** challenge_scalar: 32 challenge bytes, big-endian, reduced mod q *)
  Definition fiat_shamir (y t B : G) (pre : list top) : Z * list top :=
    let h := pre ++ fs_ops y t B in
    (Z.of_N (of_be (H h)) mod q, h).

  (** DLogProof::prove with the nonce r drawn from the rng made explicit *)
  Definition prove (x : Z) (B : G) (pre : list top) (r : Z) : (G * Z) * list top :=
    let t := g_smul O r B in
    let y := g_smul O x B in
    let '(c, h) := fiat_shamir y t B pre in
    ((t, (r + c * x) mod q), h).

  Definition verify (pf : G * Z) (y B : G) (pre : list top) : bool * list top :=
    let '(t, s) := pf in
    let '(c, h) := fiat_shamir y t B pre in
    (g_eqb O (g_smul O s B) (g_add O t (g_smul O c y)), h).
End Dlog.
