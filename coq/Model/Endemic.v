(** C05: Endemic base OT (crates/sl-oblivious/src/endemic_ot.rs), 256 one-out-of-two instances.

    Conventions.
    - The group is the abstract [group_ops]; [g_enc] is the SEC1 compressed encoding (1 byte for the
      identity, 33 bytes otherwise).  The code's [encode_point]/[to_affine().to_bytes()] copies that
      encoding into a zeroed 33-byte array: [enc33].  [decode_point] is [g_dec] (on 33-byte strings);
      NB k256's GroupEncoding::from_bytes accepts 33 zero bytes as the identity, so the real
      [decode_point (encode_point p) = Some p] for EVERY p (premise [enc33_roundtrip] of the theorems;
      in the correspondence [g_dec] is the real [decode_point], see harness/src/c05.rs).
    - A message is a list of pairs of 33-byte strings: entry [idx] = ([r_list[idx][0]], [r_list[idx][1]])
      (resp. [m_b_list]); flattened it is the #[repr(C)] byte image of the message.
    - Random tapes are explicit, in the order the code draws from the rng:
      receiver: packed choice bits (32 bytes), then the 256 scalars t_a, then one random point
      r_other per instance (drawn inside the loop, after ALL scalars);
      sender: per instance t_b_0 then t_b_1.
    - The [black_box(h_function(choice ^ 1, idx, sid, r_choice))] call in [EndemicOTReceiver::new] is a
      dummy evaluation for timing only; its result is dropped and it does not touch the rng, so it
      has no functional effect and is NOT modelled.
    - [h_function]'s rejection-sampling loop has explicit fuel [h_fuel]; on exhaustion the model
      returns the identity (the real code would keep looping).  The theorems that speak about
      oracle outputs carry the hypothesis that the loop succeeded; the correspondence driver
      reports the longest retry chain seen (it must stay below the fuel).
    No proofs in this file. *)
From SL Require Import Lib.Base Lib.Oracle Gen.Params.
Local Open Scope Z_scope.

(* ASCII labels used by the code *)
Definition L_eot_session_id : list N := [115;101;115;115;105;111;110;45;105;100]%N.          (* "session-id" *)
Definition L_eot_ro_index : list N := [114;111;45;105;110;100;101;120]%N.                    (* "ro-index" *)
Definition L_eot_batch_index : list N := [98;97;116;99;104;45;105;110;100;101;120]%N.        (* "batch-index" (h_function) *)
Definition L_eot_batch_index2 : list N := [98;97;116;99;104;95;105;110;100;101;120]%N.       (* "batch_index" (h_function_2) *)
Definition L_eot_pk : list N := [112;107]%N.                                                 (* "pk" *)
Definition L_eot_compressed_point : list N :=
  [99;111;109;112;114;101;115;115;101;100;45;112;111;105;110;116]%N.                          (* "compressed-point" *)
Definition L_eot_ot_seed : list N := [111;116;45;115;101;101;100]%N.                         (* "ot-seed" *)

Definition endemic_label : list N := label_bytes GP.LABEL_VERSION GP.ENDEMIC_OT_LABEL_ID.

(** [(x as u16).to_be_bytes()] *)
Definition u16_be (v : N) : list N := to_be 2 (v mod 65536)%N.

(** number of instances (LAMBDA_C) *)
Definition eot_n : nat := N.to_nat GP.LAMBDA_C.

(** fuel of the hash-to-curve retry loop *)
Definition h_fuel : nat := 64.

(** [extract_bit]: bit [idx & 7] of byte [idx >> 3] *)
Definition bit_at (bits : list N) (idx : nat) : bool :=
  N.testbit (nth (Nat.div idx 8) bits 0%N) (N.of_nat (Nat.modulo idx 8)).

(** [compressed_point[0] &= 1; compressed_point[0] ^= 2] *)
Definition fix_byte0 (l : list N) : list N :=
  match l with
  | [] => []
  | b :: r => N.lxor (N.land b 1) 2 :: r
  end.

Definition eot_challenge : top := TChallenge L_eot_compressed_point 33.

Definition eot_err_decode : N := 1.   (* Err("Decode error") *)

Section Endemic.
  Variable G : Type.
  Variable O : group_ops G.
  Variable H : transcript_oracle.
  Variable q : Z.

  (** [p.to_affine().to_bytes()]: the SEC1 compressed encoding copied into a zeroed 33-byte array *)
  Definition enc33 (p : G) : list N :=
    let e := g_enc O p in e ++ repeat 0%N (33 - length e).

  (** transcript of [h_function] before the first challenge *)
  Definition h_prefix (ro_index batch_index : N) (sid : list N) (pk : G) : list top :=
    [TInit endemic_label;
     TAppend L_eot_session_id sid;
     TAppend L_eot_ro_index (u16_be ro_index);
     TAppend L_eot_batch_index (u16_be batch_index);
     TAppend L_eot_pk (enc33 pk)].

  (** the retry loop: every iteration challenges the SAME transcript again (the history grows) *)
  Fixpoint h_loop (fuel : nat) (hist : list top) : option G :=
    match fuel with
    | 0%nat => None
    | S k =>
      let hist' := hist ++ [eot_challenge] in
      match g_dec O (fix_byte0 (H hist')) with
      | Some p => Some p
      | None => h_loop k hist'
      end
    end.

  Definition h_function_opt (ro_index batch_index : N) (sid : list N) (pk : G) : option G :=
    h_loop h_fuel (h_prefix ro_index batch_index sid pk).

  Definition h_function (ro_index batch_index : N) (sid : list N) (pk : G) : G :=
    match h_function_opt ro_index batch_index sid pk with
    | Some p => p
    | None => g_id O          (* fuel exhausted: excluded by hypothesis / never observed *)
    end.

  Definition h2_query (batch_index : N) (pk : G) : list top :=
    [TInit endemic_label;
     TAppend L_eot_batch_index2 (u16_be batch_index);
     TAppend L_eot_pk (enc33 pk);
     TChallenge L_eot_ot_seed 32].

  Definition h_function_2 (batch_index : N) (pk : G) : list N := H (h2_query batch_index pk).

  (** [match decode_point(b) { None => { error = true; IDENTITY } Some(v) => v }] *)
  Definition dec_or_id (b : list N) : G * bool :=
    match g_dec O b with
    | Some p => (p, false)
    | None => (g_id O, true)
    end.

  (* ------------------------------------------------------------------ receiver, round 1 *)
  Record recv_state := { rs_bits : list N; rs_ta : list Z }.

  Definition ro_of_bit (c : bool) : N := if c then 1%N else 0%N.

  Definition recv_r_choice (sid : list N) (c : bool) (idx : N) (t_a : Z) (r_other : G) : G :=
    let h_choice := h_function (ro_of_bit c) idx sid r_other in
    g_add O (g_smul O t_a (g_gen O)) (g_neg O h_choice).

  (** one iteration of the [for_each] in [EndemicOTReceiver::new]:
      r_values[c] = r_choice, r_values[c ^ 1] = r_other *)
  Definition recv_instance (sid : list N) (c : bool) (idx : N) (t_a : Z) (r_other : G)
    : list N * list N :=
    let r_choice := recv_r_choice sid c idx t_a r_other in
    if c then (enc33 r_other, enc33 r_choice) else (enc33 r_choice, enc33 r_other).

  Definition eot_receiver_new (sid : list N) (choice_bits : list N) (t_a_list : list Z)
             (r_other_list : list G) : recv_state * list (list N * list N) :=
    ({| rs_bits := choice_bits; rs_ta := t_a_list |},
     map (fun idx => recv_instance sid (bit_at choice_bits idx) (N.of_nat idx)
                                   (nth idx t_a_list 0) (nth idx r_other_list (g_id O)))
         (seq 0 eot_n)).

  (* ------------------------------------------------------------------ sender *)
  (** one iteration of [array::from_fn] in [EndemicOTSender::process]:
      ((m_b_0, m_b_1), (rho_0, rho_1), error) *)
  Definition send_instance (sid : list N) (idx : N) (r0b r1b : list N) (tb0 tb1 : Z)
    : (list N * list N) * (list N * list N) * bool :=
    let '(r0, e0) := dec_or_id r0b in
    let '(r1, e1) := dec_or_id r1b in
    let m_a_0 := g_add O r0 (h_function 0 idx sid r1) in
    let m_a_1 := g_add O r1 (h_function 1 idx sid r0) in
    let m_b_0 := g_smul O tb0 (g_gen O) in
    let m_b_1 := g_smul O tb1 (g_gen O) in
    let rho_0 := h_function_2 idx (g_smul O tb0 m_a_0) in
    let rho_1 := h_function_2 idx (g_smul O tb1 m_a_1) in
    ((enc33 m_b_0, enc33 m_b_1), (rho_0, rho_1), orb e0 e1).

  Definition send_all (sid : list N) (msg1 : list (list N * list N)) (tb_list : list (Z * Z)) :=
    map (fun idx => let r := nth idx msg1 ([], []) in
                    let tb := nth idx tb_list (0, 0) in
                    send_instance sid (N.of_nat idx) (fst r) (snd r) (fst tb) (snd tb))
        (seq 0 eot_n).

  (** message 2 is an output parameter: it is written also when the function returns Err *)
  Definition eot_sender_process (sid : list N) (msg1 : list (list N * list N)) (tb_list : list (Z * Z))
    : list (list N * list N) * outcome (list (list N * list N)) :=
    let res := send_all sid msg1 tb_list in
    (map (fun r => fst (fst r)) res,
     if existsb snd res then Err eot_err_decode else Val (map (fun r => snd (fst r)) res)).

  (* ------------------------------------------------------------------ receiver, round 2 *)
  Definition recv_process_instance (st : recv_state) (idx : nat) (mb : list N * list N)
    : list N * bool :=
    let c := bit_at (rs_bits st) idx in
    let '(p, e) := dec_or_id (if c then snd mb else fst mb) in
    (h_function_2 (N.of_nat idx) (g_smul O (nth idx (rs_ta st) 0) p), e).

  Definition recv_all (st : recv_state) (msg2 : list (list N * list N)) :=
    map (fun idx => recv_process_instance st idx (nth idx msg2 ([], []))) (seq 0 eot_n).

  (** Val (choice_bits, keys) *)
  Definition eot_receiver_process (st : recv_state) (msg2 : list (list N * list N))
    : outcome (list N * list (list N)) :=
    let res := recv_all st msg2 in
    if existsb snd res then Err eot_err_decode else Val (rs_bits st, map fst res).
End Endemic.
