(** The "discrete-log instance" of the abstract group of Model/Poly.v: G := Z_q (canonical
    residues, as a subset type so that the module laws hold on the nose), gen := 1.
    Used (a) for non-vacuity of every theorem that assumes [module_laws] and (b) by the C13
    correspondence: the harness records the discrete logarithms of the points the real code
    handles, the group-side model functions are run in this instance on those logarithms.
    No proof scripts here. *)
From SL Require Import Lib.Base Model.Poly.
Local Open Scope Z_scope.

Section Dlog.
  Variable q : Z.

  Definition zq : Type := { x : Z | (x mod q =? x) = true }.

  (** canonical residue of [x].  The membership proof is obtained by *running* the boolean test on
      the reduced value (one cheap extra reduction of a number below q) so that vm_compute never
      has to normalise a proof term mentioning the unreduced product; the [else] branch is
      unreachable (Proofs/PolyDlog.v, [zq_val_mk]). *)
  Definition zq_mk (x : Z) : zq :=
    let r := x mod q in
    (if (r mod q =? r) as b return ((r mod q =? r) = b -> zq)
     then fun H => exist _ r H
     else fun _ => exist _ 0 eq_refl) eq_refl.
  Definition zq_val (a : zq) : Z := proj1_sig a.

  Definition dl_add (a b : zq) : zq := zq_mk (zq_val a + zq_val b).
  Definition dl_neg (a : zq) : zq := zq_mk (- zq_val a).
  Definition dl_id : zq := zq_mk 0.
  Definition dl_gen : zq := zq_mk 1.
  Definition dl_smul (x : Z) (a : zq) : zq := zq_mk (x * zq_val a).
  Definition dl_eqb (a b : zq) : bool := zq_val a =? zq_val b.

  (** group-side functions of Model/Poly.v in this instance, on discrete logs *)
  Definition dl_points (l : list Z) : list zq := map zq_mk l.
  Definition dl_commit (f : list Z) : list Z :=
    map zq_val (commit zq dl_smul dl_gen f).
  Definition dl_evaluate_at (F : list Z) (x : Z) : Z :=
    zq_val (g_evaluate_at q zq dl_add dl_id dl_smul (dl_points F) x).
  Definition dl_derivative_coeffs (F : list Z) (n : nat) : outcome (list Z) :=
    match g_derivative_coeffs q zq dl_smul (dl_points F) n with
    | Val l => Val (map zq_val l)
    | Err e => Err e
    | Panic s => Panic s
    end.
  Definition dl_feldman_verify (F : list Z) (x v g : Z) : bool :=
    feldman_verify q zq dl_add dl_id dl_smul dl_eqb (dl_points F) x v (zq_mk g).
End Dlog.
