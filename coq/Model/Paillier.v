(** Executable model of crates/sl-paillier/src/lib.rs (constant-time Paillier on crypto-bigint 0.5.5).

    All values are [Z].  The Rust types [Uint<C>], [Uint<M>], [Uint<P>] (C = 2M = 4P limbs) become a
    record of bit widths; EVERY place where the Rust code changes width or can wrap is an explicit
    [wrap w x := x mod 2^w].  A value of type [Uint<L>] is always in [0, 2^w): model functions are meant
    to be applied to such values only (the harness can only build such values); widening [resize] (zero
    extension) is therefore the identity and is not written, narrowing [resize] is [wrap].

    crypto-bigint primitives are modelled by their input/output behaviour read from the 0.5.5 sources:
    - [DynResidue::new x params] / [retrieve]: a residue is the integer [x mod modulus]
      ([DynResidueParams::new] panics on an even modulus: see [from_pq_outcome]).
    - [pow_bounded_exp b e bits]: [b ^ (e mod 2^bits) mod modulus] (only the low [bits] bits of the
      exponent are scanned; [bits = 0] gives 1).  [pow e] is [pow_bounded_exp e (width of e)].
    - [const_rem], [const_rem_wide], [%]: the true remainder (for a zero divisor the code returns the
      dividend, and so does Coq's [Z.modulo]).
    - [wrapping_div]: the true quotient; panics on a zero divisor (the model returns 0 there; every divisor
      in this file is p, q or n of a constructed key, and construction already panics if one of them is even).
    - [sub_mod a b p]: [(a - b) + (if a < b then p else 0)], wrapped to the width; NO reduction of the
      operands, so the result is [(a-b) mod p] only if [a - b] lies in [-p, p).
    - [inv_odd_mod], [inv_odd_mod_bounded], [inv_mod]: [modinv], an executable extended Euclid.
      For coprime arguments and modulus > 1 it returns THE inverse in [0, modulus) (proved in
      Proofs/PaillierNT.v), which is what crypto-bigint returns there.  Out of contract: for
      gcd(a,m) = g <> 1 the model returns a Bezout coefficient t with t*a = g (mod m), reduced mod m, for
      m = 1 it returns 0 and for m <= 0 the value [0 mod m]; crypto-bigint returns an unspecified value
      (and a false flag, which sl-paillier discards) in these cases.  They are reachable only through
      invalid keys, which every theorem excludes by [key_ok].
    NO proofs in this file. *)
From SL Require Import Lib.Base.
Local Open Scope Z_scope.

(** ** Widths *)
Record widths : Type := Widths { wC : Z; wM : Z; wP : Z }.

(** [SK<C,M,P>] requires [Uint<M>: From<(Uint<P>,Uint<P>)>] and [Uint<C>: From<(Uint<M>,Uint<M>)>],
    i.e. M = 2P and C = 2M limbs of 64 bits. *)
Definition widths_ok (w : widths) : Prop :=
  0 < wP w /\ wP w mod 8 = 0 /\ wM w = 2 * wP w /\ wC w = 2 * wM w.

Definition widths_of_wP (b : Z) : widths := Widths (4 * b) (2 * b) b.
Definition cfg512 : widths := Widths 512 256 128.     (* SK<8,4,2>    *)
Definition cfg1024 : widths := Widths 1024 512 256.   (* SK<16,8,4>   *)
Definition cfg2048 : widths := Widths 2048 1024 512.  (* SK<32,16,8>  *)
Definition cfg4096 : widths := Widths 4096 2048 1024. (* SK<64,32,16> = SK2048 *)

(** ** crypto-bigint primitives *)
Definition wrap (w x : Z) : Z := x mod 2 ^ w.
Definition wadd (w a b : Z) : Z := wrap w (a + b).   (* wrapping_add *)
Definition wsub (w a b : Z) : Z := wrap w (a - b).   (* wrapping_sub *)
Definition wdiv (a b : Z) : Z := a / b.              (* wrapping_div *)
Definition crem (a m : Z) : Z := a mod m.            (* const_rem / const_rem_wide / % *)

(** [bits_vartime] *)
Definition bits (x : Z) : Z := if x <=? 0 then 0 else Z.log2 x + 1.

Definition sub_mod (w a b p : Z) : Z := wrap w ((a - b) + (if a <? b then p else 0)).

(** square-and-multiply, most significant bit first; the base is reduced once (DynResidue::new) *)
Fixpoint powmod_pos (b : Z) (e : positive) (m : Z) : Z :=
  match e with
  | xH => b
  | xO e' => let t := powmod_pos b e' m in (t * t) mod m
  | xI e' => let t := powmod_pos b e' m in (((t * t) mod m) * b) mod m
  end.

Definition powmod (b e m : Z) : Z :=
  match e with
  | Zpos e' => powmod_pos (b mod m) e' m
  | _ => 1 mod m
  end.

Definition pow_bounded_exp (b e ebits m : Z) : Z := powmod b (e mod 2 ^ ebits) m.

(** extended Euclid on (r0, r1) with coefficients (t0, t1) of [a]: invariant t_i * a = r_i (mod m) *)
Fixpoint egcd_loop (fuel : nat) (r0 r1 t0 t1 : Z) : Z * Z :=
  match fuel with
  | O => (r0, t0)
  | S k => if r1 =? 0 then (r0, t0)
           else let q := r0 / r1 in egcd_loop k r1 (r0 - q * r1) t1 (t0 - q * t1)
  end.

Definition egcd_fuel (m : Z) : nat := S (Z.to_nat (2 * (Z.log2 m + 1))).

Definition modinv (a m : Z) : Z :=
  snd (egcd_loop (egcd_fuel m) m (a mod m) 0 1) mod m.

(** ** Keys *)
Record pkey : Type := PKey { pk_n : Z; pk_nn : Z }.

Record skey : Type := SKey {
  sk_pk : pkey;
  sk_phi : Z; sk_inv_phi : Z;
  sk_p : Z; sk_hp : Z;
  sk_q : Z; sk_hq : Z;
  sk_pinv_q : Z;
  sk_pp : Z;            (* modulus of pp_params *)
  sk_qq : Z             (* modulus of qq_params *)
}.

(** [PK::from_n]: nn = n.square_wide().into() *)
Definition from_n (w : widths) (n : Z) : pkey := PKey n (wrap (wC w) (n * n)).

(** [SK::h] *)
Definition h (w : widths) (p pp n : Z) : Z :=
  let n_mod_pp := crem n pp in
  let x := sub_mod (wM w) 1 n_mod_pp pp in
  let l := wdiv (wsub (wM w) x 1) p in
  wrap (wP w) (modinv l p).

(** [SK::from_pq] *)
Definition from_pq (w : widths) (p q : Z) : skey :=
  let n := wrap (wM w) (q * p) in
  let pk := from_n w n in
  let phi := wrap (wM w) (wsub (wP w) q 1 * wsub (wP w) p 1) in
  let inv_phi := modinv phi n in
  let pinv_q := modinv p q in
  let pp := wrap (wM w) (p * p) in
  let hp := h w p pp n in
  let qq := wrap (wM w) (q * q) in
  let hq := h w q qq n in
  SKey pk phi inv_phi p hp q hq pinv_q pp qq.

(** The panics of key construction: [DynResidueParams::new] on N^2, p^2, q^2 (in this order; the
    [NonZero::new(n).unwrap()] and the [wrapping_div] by p, q cannot fire afterwards). *)
Definition from_n_panics (w : widths) (n : Z) : option N :=
  if Z.even (wrap (wC w) (n * n)) then Some 1%N else None.

Definition from_pq_panics (w : widths) (p q : Z) : option N :=
  if Z.even (wrap (wC w) (wrap (wM w) (q * p) * wrap (wM w) (q * p))) then Some 1%N
  else if Z.even (wrap (wM w) (p * p)) then Some 2%N
  else if Z.even (wrap (wM w) (q * q)) then Some 3%N
  else None.

Definition from_n_outcome (w : widths) (n : Z) : outcome pkey :=
  match from_n_panics w n with Some s => Panic s | None => Val (from_n w n) end.

Definition from_pq_outcome (w : widths) (p q : Z) : outcome skey :=
  match from_pq_panics w p q with Some s => Panic s | None => Val (from_pq w p q) end.

(** ** Public-key operations *)
Definition encrypt (w : widths) (pk : pkey) (m r : Z) : Z :=
  let n := pk_n pk in
  let nn := pk_nn pk in
  let r_pow_n := pow_bounded_exp r n (bits n) nn in
  let g_pow_m := crem (wadd (wC w) (wrap (wC w) (m * n)) 1) nn in
  crem (g_pow_m * r_pow_n) nn.

Definition add (w : widths) (pk : pkey) (c1 c2 : Z) : Z :=
  crem (crem c1 (pk_nn pk) * crem c2 (pk_nn pk)) (pk_nn pk).

(** [pow(&m.0)]: exponent read at its full width [wM] *)
Definition mul (w : widths) (pk : pkey) (c k : Z) : Z :=
  pow_bounded_exp c k (wM w) (pk_nn pk).

Definition mul_vartime (w : widths) (pk : pkey) (c k : Z) : Z :=
  pow_bounded_exp c (wrap (wM w) k) (bits k) (pk_nn pk).

Definition into_message (pk : pkey) (m : Z) : option Z :=
  if m <? pk_n pk then Some m else None.

Definition le_value (bytes : list N) : Z := Z.of_N (of_le bytes).

Definition nonzero_byte (b : N) : bool := negb (N.eqb b 0).

(** [PK::message] (repaired behaviour: a non-zero byte beyond BYTES rejects) *)
Definition message (w : widths) (pk : pkey) (bytes : list N) : option Z :=
  let size := Nat.min (Z.to_nat (wM w / 8)) (length bytes) in
  if existsb nonzero_byte (skipn size bytes) then None
  else into_message pk (le_value (firstn size bytes)).

(** ** Private-key operations *)
Definition decrypt (w : widths) (sk : skey) (c : Z) : Z :=
  let n := pk_n (sk_pk sk) in
  let nn := pk_nn (sk_pk sk) in
  let x := pow_bounded_exp c (wrap (wM w) (sk_phi sk)) (wM w) nn in
  let m := wrap (wM w) (wdiv (wsub (wC w) x 1) n) in
  let m_mod_n := crem m n in
  crem (m_mod_n * sk_inv_phi sk) n.

Definition decompose (c p q : Z) : Z * Z := (crem c p, crem c q).

Definition mp (w : widths) (cp p hp pp : Z) : Z :=
  let x := pow_bounded_exp cp (wrap (wP w) (wsub (wP w) p 1)) (wP w) pp in
  let l := wrap (wP w) (wdiv (wsub (wM w) x 1) p) in
  let x := crem l p in
  crem (x * hp) p.

(** Garner recombination, HAC 14.71 *)
Definition recombine (w : widths) (p_inv_q v1 v2 p q : Z) : Z :=
  let v1_less_q := crem v1 q in
  let d := sub_mod (wP w) v2 v1_less_q q in
  let u := crem (d * p_inv_q) q in
  wadd (wM w) (wrap (wM w) (u * p)) v1.

Definition decrypt_fast (w : widths) (sk : skey) (c : Z) : Z :=
  let '(cp, cq) := decompose c (sk_pp sk) (sk_qq sk) in
  let m_p := mp w cp (sk_p sk) (sk_hp sk) (sk_pp sk) in
  let m_q := mp w cq (sk_q sk) (sk_hq sk) (sk_qq sk) in
  recombine w (sk_pinv_q sk) m_p m_q (sk_p sk) (sk_q sk).

(** (dk_dp, dk_dq, modulus of p_params, modulus of q_params) *)
Definition extract_n_root_init_params (w : widths) (sk : skey) : Z * Z * Z * Z :=
  let qm1 := wsub (wP w) (sk_q sk) 1 in
  let pm1 := wsub (wP w) (sk_p sk) 1 in
  let dn := modinv (pk_n (sk_pk sk)) (sk_phi sk) in
  let '(dp, dq) := decompose dn pm1 qm1 in
  (dp, dq, sk_p sk, sk_q sk).

Definition extract_n_root_with (w : widths) (sk : skey) (z : Z) (ip : Z * Z * Z * Z) : Z :=
  let '(dp, dq, pmod, qmod) := ip in
  let '(zp, zq) := decompose z (sk_p sk) (sk_q sk) in
  let rp := pow_bounded_exp zp dp (wP w) pmod in
  let rq := pow_bounded_exp zq dq (wP w) qmod in
  recombine w (sk_pinv_q sk) rp rq (sk_p sk) (sk_q sk).

Definition extract_n_root (w : widths) (sk : skey) (z : Z) : Z :=
  extract_n_root_with w sk z (extract_n_root_init_params w sk).

(** ** Minimal (serialised) forms and the validation of the Deserialize impls *)
Definition to_minimal (sk : skey) : Z * Z := (sk_p sk, sk_q sk).
Definition from_minimal (w : widths) (pq : Z * Z) : skey := from_pq w (fst pq) (snd pq).
Definition pk_to_minimal (pk : pkey) : Z := pk_n pk.
Definition pk_from_minimal (w : widths) (n : Z) : pkey := from_n w n.

(** Err 1: NonZero rejects 0;  Err 2: the oddness check of the repaired Deserialize impls. *)
Definition deser_pk (w : widths) (n : Z) : outcome pkey :=
  if n =? 0 then Err 1%N
  else if Z.odd n then from_n_outcome w n else Err 2%N.

Definition deser_sk (w : widths) (p q : Z) : outcome skey :=
  if Z.odd p && Z.odd q then from_pq_outcome w p q else Err 2%N.

(** ** Valid keys *)
Definition key_ok (w : widths) (p q : Z) : Prop :=
  Znumtheory.prime p /\ Znumtheory.prime q /\ p <> q /\ Z.odd p = true /\ Z.odd q = true /\
  Z.gcd (p * q) ((p - 1) * (q - 1)) = 1 /\
  p < 2 ^ wP w /\ q < 2 ^ wP w /\ p * q < 2 ^ wM w.

(** outcome class used by the correspondence: 0 = value, 1/2 = error code, 10 + site = panic *)
Definition outcome_class {A} (o : outcome A) : N :=
  match o with Val _ => 0%N | Err e => e | Panic s => (10 + s)%N end.

(** the class of [deser_pk] / [deser_sk] without building the key (same case analysis; equality with
    [outcome_class (deser_* ...)] is proved in Proofs/PaillierWidth.v) *)
Definition deser_pk_class (w : widths) (n : Z) : N :=
  if n =? 0 then 1%N
  else if Z.odd n then match from_n_panics w n with Some s => (10 + s)%N | None => 0%N end else 2%N.

Definition deser_sk_class (w : widths) (p q : Z) : N :=
  if Z.odd p && Z.odd q then match from_pq_panics w p q with Some s => (10 + s)%N | None => 0%N end else 2%N.
