(** Model of crates/sl-mpc-mate/src/math.rs (property C13): polynomials over the scalar
    field Z mod q, the u64 factorial table, falling-factorial multipliers, derivatives,
    evaluation (scalar side: power sum; group side: running-power fold), commitments,
    the Birkhoff matrix and the Feldman check.

    Scalars are integers; every field operation reduces modulo [q] (a parameter; the
    correspondence instantiates the secp256k1 group order).  Indices, lengths and
    derivative orders (Rust [usize]) are [nat].  No proofs in this file. *)
From SL Require Import Lib.Base.
Local Open Scope Z_scope.

(** k256::Secp256k1::ORDER *)
Definition secp256k1_q : Z :=
  0xFFFFFFFFFFFFFFFFFFFFFFFFFFFFFFFEBAAEDCE6AF48A03BBFD25E8CD0364141.

(* ------------------------------------------------------------------------- u64 table *)

(** wrap-around of u64 arithmetic *)
Definition u64_wrap (x : Z) : Z := x mod 2 ^ 64.

(** [static FACT: [u64; 21]] *)
Definition FACT_LEN : nat := 21.

(** [const fn small_factorial<N>()]: a = [1; N]; j = 1; while j < N { a[j] = j as u64 * a[j-1]; j += 1 }.
    The multiplication is written with the u64 wrap (in a const context an overflow would be a
    compile error; Proofs/PolyFact.v shows that no entry of the 21-entry table wraps). *)
Fixpoint small_factorial_loop (fuel : nat) (j : Z) (prev : Z) : list Z :=
  match fuel with
  | O => []
  | S k => let v := u64_wrap (u64_wrap j * prev) in v :: small_factorial_loop k (j + 1) v
  end.

Definition small_factorial (N : nat) : list Z :=
  match N with
  | O => []
  | S k => 1 :: small_factorial_loop k 1 1
  end.

Definition FACT : list Z := small_factorial FACT_LEN.

(** enumerate() *)
Fixpoint enumerate_from {A} (i : nat) (l : list A) : list (nat * A) :=
  match l with
  | [] => []
  | a :: r => (i, a) :: enumerate_from (S i) r
  end.
Definition enumerate {A} (l : list A) : list (nat * A) := enumerate_from 0 l.

(* ------------------------------------------------------------------------- scalar side *)
Section Scalar.
  Variable q : Z.

  Definition fadd (a b : Z) : Z := (a + b) mod q.
  Definition fmul (a b : Z) : Z := (a * b) mod q.
  Definition fone : Z := 1 mod q.          (* Scalar::ONE *)
  (** [S::from(x: u64)] (for [usize as u64] on a 64-bit target the cast is the identity below 2^64) *)
  Definition from_u64 (x : Z) : Z := u64_wrap x mod q.

  (** [x.pow_vartime([e])]: x^e in the field, 0^0 = 1 *)
  Fixpoint fpow (x : Z) (e : nat) : Z :=
    match e with
    | O => fone
    | S k => fmul (fpow x k) x
    end.

  (** [Sum for Scalar]: additive fold from ZERO *)
  Definition fsum (l : list Z) : Z := fold_left fadd l 0.

  (** [factorial_range(start, end)] = product over (start, end].  Contract of the code:
      [start <= end] (a [debug_assert]; every caller in math.rs satisfies it).
      - table branch ([end < FACT.len()]): u64 division [FACT[end] / FACT[start]], then [S::from];
      - product branch: [(start+1..=end).fold(S::from(1), |acc, x| acc * S::from(x as u64))]. *)
  Definition factorial_range (s e : nat) : Z :=
    if (e <? length FACT)%nat then
      from_u64 (nth e FACT 0 / nth s FACT 0)
    else
      fold_left (fun acc x => fmul acc (from_u64 (Z.of_nat x))) (seq (S s) (e - s)) (from_u64 1).

  (** [factorial(n)] *)
  Definition factorial (n : nat) : Z := factorial_range 0 n.

  (** [Polynomial::evaluate_at]: sum_i (x^i * coeff_i), powers computed independently *)
  Definition evaluate_at (f : list Z) (x : Z) : Z :=
    fsum (map (fun ic : nat * Z => let (i, c) := ic in fmul (fpow x i) c) (enumerate f)).

  (** [Polynomial::derivative_at(n, x)]:
      enumerate().skip(n).map(|(i,c)| factorial_range(i-n, i) * c * x^(i-n)).sum() *)
  Definition derivative_at (f : list Z) (n : nat) (x : Z) : Z :=
    fsum (map (fun ic : nat * Z => let (i, c) := ic in
                 fmul (fmul (factorial_range (i - n) i) c) (fpow x (i - n)))
              (skipn n (enumerate f))).

  (** [Polynomial::get_constant] = coeffs[0] (index panic on the empty polynomial) *)
  Definition get_constant (f : list Z) : outcome Z :=
    match f with [] => Panic 1%N | c :: _ => Val c end.

  (** [polynomial_coeff_multipliers(x_i, n_i, n)]: row of the Birkhoff matrix *)
  Definition polynomial_coeff_multipliers (x : Z) (n_i n : nat) : list Z :=
    map (fun idx : nat =>
           if (idx <? n_i)%nat then 0
           else fmul (factorial_range (idx - n_i) idx) (fpow x (idx - n_i)))
        (seq 0 n).

  (** the matrix handed to [matrix_inverse] by [birkhoff_coeffs] *)
  Definition birkhoff_matrix (params : list (Z * nat)) : list (list Z) :=
    map (fun p : Z * nat => let (x, n_i) := p in
           polynomial_coeff_multipliers x n_i (length params)) params.

  (* ----------------------------------------------------------------------- group side *)
  (** The curve group is an abstract Z_q-module (DESIGN.md 3.2). [smul x P] is the Rust [P * x]. *)
  Section Group.
    Variable G : Type.
    Variable gadd : G -> G -> G.
    Variable gneg : G -> G.
    Variable gid : G.
    Variable smul : Z -> G -> G.
    Variable geqb : G -> G -> bool.

    (** the laws assumed of the group (used as a hypothesis by the proofs, never as an axiom) *)
    Record module_laws (gen : G) : Prop := {
      gadd_assoc : forall P Q R, gadd P (gadd Q R) = gadd (gadd P Q) R;
      gadd_comm : forall P Q, gadd P Q = gadd Q P;
      gadd_id_l : forall P, gadd gid P = P;
      gadd_neg_l : forall P, gadd (gneg P) P = gid;
      smul_add_l : forall a b P, smul (a + b) P = gadd (smul a P) (smul b P);
      smul_add_r : forall a P Q, smul a (gadd P Q) = gadd (smul a P) (smul a Q);
      smul_mul : forall a b P, smul a (smul b P) = smul (a * b) P;
      smul_one : forall P, smul 1 P = P;
      smul_mod : forall a P, smul (a mod q) P = smul a P;
      gen_free : forall a, smul a gen = gid -> a mod q = 0;
      geqb_spec : forall P Q, geqb P Q = true <-> P = Q
    }.

    (** [Polynomial::commit]: coefficient-wise [G::generator() * coeff] *)
    Definition commit (gen : G) (f : list Z) : list G := map (fun c => smul c gen) f.

    (** the fold shared (textually duplicated in the code) by [GroupPolynomial::evaluate_at] and
        [feldman_verify]: (sum, x^i) -> (sum + coeff * x^i, x^i * x), from (identity, ONE) *)
    Definition g_eval_step (x : Z) (st : G * Z) (coeff : G) : G * Z :=
      let (s, x_pow_i) := st in (gadd s (smul x_pow_i coeff), fmul x_pow_i x).

    (** [GroupPolynomial::evaluate_at] *)
    Definition g_evaluate_at (F : list G) (x : Z) : G :=
      fst (fold_left (g_eval_step x) F (gid, fone)).

    (** [GroupPolynomial::derivative_coeffs(n)]:
        self.coeffs[n..].iter().enumerate().map(|(pos, u)| u * factorial_range(pos, pos + n));
        the slice panics when n > len. *)
    Definition g_derivative_coeffs (F : list G) (n : nat) : outcome (list G) :=
      if (length F <? n)%nat then Panic 2%N
      else Val (map (fun pu : nat * G => let (pos, u) := pu in
                       smul (factorial_range pos (pos + n)) u)
                    (enumerate (skipn n F))).

    (** [GroupPolynomial::get_constant] *)
    Definition g_get_constant (F : list G) : outcome G :=
      match F with [] => Panic 3%N | c :: _ => Val c end.

    (** [feldman_verify(u_i_k, x_i, f_i_value, g)]: running-power fold in the exponent,
        rejection of the identity, comparison with [g * f_i_value]. *)
    Definition feldman_verify (F : list G) (x : Z) (f_i_value : Z) (g : G) : bool :=
      let point := fst (fold_left (fun (st : G * Z) (coeff : G) =>
                                     let (sum, val) := st in
                                     (gadd sum (smul val coeff), fmul val x))
                                  F (gid, fone)) in
      if geqb point gid then false
      else geqb point (smul f_i_value g).
  End Group.
End Scalar.
