(** C03 / C04: SoftSpoken OT extension (crates/sl-oblivious/src/soft_spoken/soft_spoken_ot.rs).

    [ss_receiver_buf] / [ss_sender] follow [SoftSpokenOTReceiver::process] / [SoftSpokenOTSender::process]
    loop by loop.  NOTE the naming of the code: the extension RECEIVER holds the [SenderOTSeed] (all 16 keys
    of every tree) and the extension SENDER holds the [ReceiverOTSeed] (punctured index + keys).
    Conventions:
    - byte strings are [list N]; matrices are lists of rows.  The code's [r_x[j][i]] is [rx[i][j]] here
      (tree index first), every other index order is the code's;
    - every buffer that merlin fills ([challenge_bytes] into a fixed-size array) is normalised with
      [fitb n] (exactly n entries, each reduced to 8 bits): the identity on what a real transcript returns,
      so the theorems hold for EVERY function [H] without a well-formedness premise on the oracle;
    - loops that are independent per byte ([for k in 0..L_PRIME_BYTES { a[k] ^= m & b[k] }]) are written on
      whole rows ([xor_bytes], [and_mask]); the order of the XORs into one byte is the code's;
    - the receiver ACCUMULATES ([^=]) into the caller's [Round1Output] (u, x, t): the initial buffer is an
      input of [ss_receiver_buf]; [ss_receiver] passes the all-zero [Default] value.  [v_x] is overwritten;
      [extended_output.choices] is read, never written: the record returned carries it unchanged;
    - [rng.fill_bytes(&mut buf[L_BYTES..])] is the explicit 16-byte [tape];
    - the field multiplication is [gf_spec_bytes] (Model/Gf128.v), proved equal to
      [binary_field_multiply_gf_2_128] by C19;
    - the sender's branch [j == random_choices[i]] is kept literally: for an index >= 16 no row is zeroed
      and all 16 keys of [otp_dec_keys[i]] are expanded. *)
From SL Require Import Lib.Base Lib.Oracle Gen.Params Model.Gf128.
Local Open Scope N_scope.

(* ------------------------------------------------------------------ sizes (nat, for loops and lengths) *)
Definition ssQ : nat := N.to_nat GP.SOFT_SPOKEN_Q.                      (* 16 *)
Definition ssK : nat := N.to_nat GP.SOFT_SPOKEN_K.                      (* 4 *)
Definition ssM : nat := N.to_nat GP.SOFT_SPOKEN_M.                      (* 4 *)
Definition ssTrees : nat := N.to_nat GP.LAMBDA_C_DIV_SOFT_SPOKEN_K.     (* 64 *)
Definition ssLC : nat := N.to_nat GP.LAMBDA_C.                          (* 256 *)
Definition ssLCB : nat := N.to_nat GP.LAMBDA_C_BYTES.                   (* 32 *)
Definition ssL : nat := N.to_nat GP.L.                                  (* 512 *)
Definition ssLB : nat := N.to_nat GP.L_BYTES.                           (* 64 *)
Definition ssLPB : nat := N.to_nat GP.L_PRIME_BYTES.                    (* 80 *)
Definition ssSB : nat := N.to_nat GP.S_BYTES.                           (* 16 *)
Definition ssW : nat := N.to_nat GP.OT_WIDTH.                           (* 3 *)
Definition ssKB : nat := N.to_nat GP.KAPPA_BYTES.                       (* 32 *)

(* ------------------------------------------------------------------ labels *)
Definition ss_label : list N := label_bytes GP.LABEL_VERSION GP.SOFT_SPOKEN_LABEL_ID.
Definition ss_expand_label : list N := label_bytes GP.LABEL_VERSION GP.SOFT_SPOKEN_EXPAND_LABEL_ID.
Definition ss_matrix_hash_label : list N := label_bytes GP.LABEL_VERSION GP.SOFT_SPOKEN_MATRIX_HASH_LABEL_ID.
Definition ss_randomize_label : list N := label_bytes GP.LABEL_VERSION GP.SOFT_SPOKEN_RANDOMIZE_LABEL_ID.
Definition SSL_session_id : list N := [115;101;115;115;105;111;110;45;105;100].    (* "session-id" *)
Definition SSL_index : list N := [105;110;100;101;120].                            (* "index" *)

(** SoftSpokenOTError::AbortProtocolAndBanReceiver *)
Definition ss_err_ban : N := 1.

(* ------------------------------------------------------------------ byte-string helpers *)
Definition zbytes (n : nat) : list N := repeat 0 n.

(** a fixed-size [u8] array of n entries initialised from [l] (identity on n well-formed bytes) *)
Definition fitb (n : nat) (l : list N) : list N :=
  map (fun x => N.land x 255) (firstn n l ++ zbytes (n - length l)).

(** element-wise [a[k] ^= b[k]] over zipped slices (stops at the shorter one, like [zip]) *)
Fixpoint xor_bytes (a b : list N) : list N :=
  match a, b with
  | x :: r, y :: s => N.lxor x y :: xor_bytes r s
  | _, _ => []
  end.

(** utils::bit_to_bit_mask : -(bit as i8) as u8 *)
Definition bit_to_bit_mask (bit : N) : N := (256 - bit) mod 256.

(** [mask & b[k]] for every k *)
Definition and_mask (m : N) (l : list N) : list N := map (N.land m) l.

Definition Nseq (n : nat) : list N := map N.of_nat (seq 0 n).

Fixpoint ss_upd (l : list N) (i : nat) (x : N) : list N :=
  match l, i with
  | [], _ => []
  | _ :: r, O => x :: r
  | y :: r, S k => y :: ss_upd r k x
  end.

(** utils::ExtractBit::extract_bit *)
Definition ss_extract_bit (l : list N) (idx : nat) : bool :=
  let byte_idx := (idx / 8)%nat in
  let bit_idx := (idx mod 8)%nat in
  let byte := nth byte_idx l 0 in
  let mask := N.shiftl 1 (N.of_nat bit_idx) in
  negb (N.land byte mask =? 0).

(** [k] consecutive chunks of [n] entries *)
Fixpoint chunks {A} (n k : nat) (l : list A) : list (list A) :=
  match k with
  | O => []
  | S k' => firstn n l :: chunks n k' (skipn n l)
  end.

(** [row[j * S_BYTES..][..S_BYTES]] *)
Definition ss_chunk (j : nat) (row : list N) : list N := firstn ssSB (skipn (j * ssSB) row).

(* ------------------------------------------------------------------ data *)
(** SenderOTSeed: otp_enc_keys[i][j], i < 64 trees, j < 16 leaves, 32 bytes each *)
Record SenderOTSeed := { otp_enc_keys : list (list (list N)) }.
(** ReceiverOTSeed: random_choices[i] (u8), otp_dec_keys[i][j] *)
Record ReceiverOTSeed := { random_choices : list N; otp_dec_keys : list (list (list N)) }.
(** Round1Output { u : [[u8;80];64], x : [u8;16], t : [[u8;16];256] } *)
Record Round1Output := { r1_u : list (list N); r1_x : list N; r1_t : list (list N) }.
(** ReceiverExtendedOutput { choices : [u8;64], v_x : [[[u8;32];3];512] } *)
Record ReceiverExtendedOutput := { re_choices : list N; re_v_x : list (list (list N)) }.
(** SenderExtendedOutput { v_0, v_1 : [[[u8;32];3];512] } *)
Record SenderExtendedOutput := { se_v_0 : list (list (list N)); se_v_1 : list (list (list N)) }.

(** Default::default() *)
Definition round1_default : Round1Output :=
  {| r1_u := repeat (zbytes ssLPB) ssTrees; r1_x := zbytes ssSB; r1_t := repeat (zbytes ssSB) ssLC |}.

(** bytemuck::bytes_of (repr(C): u, x, t) *)
Definition round1_bytes (m : Round1Output) : list N := concat (r1_u m) ++ r1_x m ++ concat (r1_t m).

(* ------------------------------------------------------------------ transpose_bool_matrix *)
(** [shifted_bit = ((byte >> column_bit_byte) & 1) << row_bit_byte], OR-ed over the 8 rows of one output byte *)
Definition ss_pack8 (col_bit : N) (grp : list N) : N :=
  fold_left (fun acc kb => let '(row_bit, byte) := kb in
               N.lor acc (N.shiftl (N.land (N.shiftr byte col_bit) 1) row_bit))
            (combine (Nseq 8) grp) 0.

(** input : [[u8; L_PRIME_BYTES]; LAMBDA_C]  ->  output : [[u8; LAMBDA_C_BYTES]; L_PRIME];
    output[(column_byte << 3) + column_bit_byte][row_byte] collects input[(row_byte << 3) + row_bit_byte][column_byte].
    The column bytes are read once per [column_byte] and grouped by [row_byte] (8 consecutive rows). *)
Definition transpose_bool_matrix (input : list (list N)) : list (list N) :=
  flat_map (fun column_byte =>
              let col := map (fun row => nth column_byte row 0) input in
              let groups := chunks 8 ssLCB col in
              map (fun column_bit_byte => map (ss_pack8 column_bit_byte) groups) (Nseq 8))
           (seq 0 ssLPB).

(* ------------------------------------------------------------------ seed generation *)
(** generate_all_but_one_seed_ot: [keys] are the 64x16 values of [rng.gen::<[u8;32]>()] in call order,
    [picks] the 64 values of [rng.gen_range(0..=SOFT_SPOKEN_Q-1)] (then [as u8]). *)
Definition gen_seed_ot (keys : list (list (list N))) (picks : list N) : SenderOTSeed * ReceiverOTSeed :=
  let choices := map (fun c => c mod 256) picks in
  let dec := map (fun ck => let '(choice, keys_i) := ck in
                     map (fun jk => let '(j, key) := jk in
                            if j =? choice then zbytes ssLCB else key)
                         (combine (Nseq ssQ) keys_i))
                 (combine choices keys) in
  ({| otp_enc_keys := keys |}, {| random_choices := choices; otp_dec_keys := dec |}).

Section SoftSpoken.
  Variable H : transcript_oracle.

  (** [challenge_bytes] into a buffer of n bytes *)
  Definition Hn (n : nat) (ops : list top) : list N := fitb n (H ops).

  (* ---------------------------------------------------------------- transcripts *)
  (** PRG expansion of one seed-OT key: Transcript::new(SOFT_SPOKEN_LABEL); append(b"", sid); append(b"", key);
      challenge_bytes(SOFT_SPOKEN_EXPAND_LABEL, 80 bytes) *)
  Definition ss_prg_ops (sid key : list N) : list top :=
    [TInit ss_label; TAppend [] sid; TAppend [] key; TChallenge ss_expand_label GP.L_PRIME_BYTES].
  Definition ss_prg (sid key : list N) : list N := Hn ssLPB (ss_prg_ops sid key).

  (** matrix_hasher / hash_matrix_u: the 64 rows of u, then a 32-byte challenge *)
  Definition matrix_hash_ops (sid : list N) (u : list (list N)) : list top :=
    [TInit ss_label; TAppend SSL_session_id sid] ++ map (TAppend []) u ++ [TChallenge ss_matrix_hash_label 32].
  Definition matrix_digest (sid : list N) (u : list (list N)) : list N := Hn 32 (matrix_hash_ops sid u).

  (** chi_j: Transcript::new(b""); append_u64(b"index", j); append(b"", digest); challenge_bytes(b"", 16 bytes) *)
  Definition chi_ops (j : N) (digest : list N) : list top :=
    [TInit []; TAppendU64 SSL_index j; TAppend [] digest; TChallenge [] GP.S_BYTES].
  Definition chi_matrix (digest : list N) : list (list N) :=
    map (fun j => Hn ssSB (chi_ops j digest)) (Nseq ssM).

  (** per-row randomisation: new(SOFT_SPOKEN_LABEL); append(b"session-id", sid); append_u64(b"index", j);
      append(SOFT_SPOKEN_RANDOMIZE_LABEL, row); then OT_WIDTH consecutive 32-byte challenges with label b"" *)
  Definition rand_ops (sid : list N) (j : N) (row : list N) : list top :=
    [TInit ss_label; TAppend SSL_session_id sid; TAppendU64 SSL_index j; TAppend ss_randomize_label row].
  Definition rand_query (sid : list N) (j : N) (row : list N) (k : nat) : list top :=
    rand_ops sid j row ++ repeat (TChallenge [] GP.KAPPA_BYTES) (S k).
  Definition rand_out (sid : list N) (j : N) (row : list N) : list (list N) :=
    map (fun k => Hn ssKB (rand_query sid j row k)) (seq 0 ssW).

  (* ---------------------------------------------------------------- the check value  Phi_chi(row) *)
  (** init ^= sum_j row[16j..16j+16] * chi_j  (j < M), then ^= row[16M..16M+16]:
      computes [x] from the extended choices, [t_i] from [v_i] (receiver) and [q_row] from [w_i] (sender) *)
  Definition phi_acc (chis : list (list N)) (row init : list N) : list N :=
    xor_bytes
      (fold_left (fun acc jc => let '(j, chi_j) := jc in
                    xor_bytes acc (gf_spec_bytes (ss_chunk j row) chi_j))
                 (combine (seq 0 ssM) chis) init)
      (ss_chunk ssM row).

  (* ---------------------------------------------------------------- receiver *)
  (** rx[i][j] = PRG(otp_enc_keys[i][j]) *)
  Definition recv_expand (sid : list N) (seed : SenderOTSeed) : list (list (list N)) :=
    map (map (ss_prg sid)) (otp_enc_keys seed).

  (** u[i][k] ^= r_x[0][i][k]; ...; u[i][k] ^= r_x[15][i][k]; u[i][k] ^= choice[k] *)
  Definition recv_u_row (epc u0_i : list N) (rs : list (list N)) : list N :=
    xor_bytes (fold_left xor_bytes rs u0_i) epc.
  Definition recv_u (epc : list N) (u0 : list (list N)) (rx : list (list (list N))) : list (list N) :=
    map (fun ur => recv_u_row epc (fst ur) (snd ur)) (combine u0 rx).

  (** v[i*K + bit_index][k] ^= bit_to_bit_mask((j >> bit_index) & 1) & r_x[j][i][k]   for j = 0..15 *)
  Definition recv_v_row (rs : list (list N)) (bit_index : N) : list N :=
    fold_left (fun acc jr => let '(j, r) := jr in
                 let bit := N.land (N.shiftr j bit_index) 1 in
                 let x_i_mask := bit_to_bit_mask bit in
                 xor_bytes acc (and_mask x_i_mask r))
              (combine (Nseq ssQ) rs) (zbytes ssLPB).
  Definition recv_v_blocks (rx : list (list (list N))) : list (list (list N)) :=
    map (fun rs => map (recv_v_row rs) (Nseq ssK)) rx.
  Definition recv_v (rx : list (list (list N))) : list (list N) := concat (recv_v_blocks rx).

  (** t.iter_mut().zip(&v) *)
  Definition recv_t (chis : list (list N)) (v t0 : list (list N)) : list (list N) :=
    map (fun tv => phi_acc chis (snd tv) (fst tv)) (combine t0 v).

  (** v_x[j] for j < L from psi[j] *)
  Definition rand_rows (sid : list N) (rows : list (list N)) : list (list (list N)) :=
    map (fun jr => rand_out sid (fst jr) (snd jr)) (combine (Nseq ssL) rows).

  Definition ss_receiver_buf (sid : list N) (seed : SenderOTSeed) (buf : Round1Output)
             (choices tape : list N) : Round1Output * ReceiverExtendedOutput :=
    let extended_packed_choices := choices ++ tape in
    let rx := recv_expand sid seed in
    let u := recv_u extended_packed_choices (r1_u buf) rx in
    let v := recv_v rx in
    let digest_matrix_u := matrix_digest sid u in
    let chis := chi_matrix digest_matrix_u in
    let x := phi_acc chis extended_packed_choices (r1_x buf) in
    let t := recv_t chis v (r1_t buf) in
    let psi := transpose_bool_matrix v in
    ({| r1_u := u; r1_x := x; r1_t := t |},
     {| re_choices := choices; re_v_x := rand_rows sid psi |}).

  Definition ss_receiver (sid : list N) (seed : SenderOTSeed) (choices tape : list N)
    : Round1Output * ReceiverExtendedOutput :=
    ss_receiver_buf sid seed round1_default choices tape.

  (* ---------------------------------------------------------------- sender *)
  (** rx'[i][j] = 0 if j == random_choices[i] else PRG(otp_dec_keys[i][j]) *)
  Definition send_expand (sid : list N) (seed : ReceiverOTSeed) : list (list (list N)) :=
    map (fun dk => let '(delta, keys_i) := dk in
           map (fun jk => let '(j, key) := jk in
                  if j =? delta then zbytes ssLPB else ss_prg sid key)
               (combine (Nseq ssQ) keys_i))
        (combine (random_choices seed) (otp_dec_keys seed)).

  (** w[i*K + bit_index][k] ^= mask(((delta ^ j) >> bit_index) & 1) & r_x[j][i][k]  for j = 0..15,
      then ^= mask((delta >> bit_index) & 1) & u[i][k] *)
  Definition send_w_row (delta : N) (rs : list (list N)) (u_i : list N) (bit_index : N) : list N :=
    let acc :=
      fold_left (fun acc jr => let '(j, r) := jr in
                   let delta_minus_x := N.lxor delta j in
                   let bit := N.land (N.shiftr delta_minus_x bit_index) 1 in
                   let x_i := bit_to_bit_mask bit in
                   xor_bytes acc (and_mask x_i r))
                (combine (Nseq ssQ) rs) (zbytes ssLPB) in
    let delta_i := N.land (N.shiftr delta bit_index) 1 in
    let delta_i_mask := bit_to_bit_mask delta_i in
    xor_bytes acc (and_mask delta_i_mask u_i).
  Definition send_w_blocks (deltas : list N) (rx : list (list (list N))) (u : list (list N))
    : list (list (list N)) :=
    map (fun dru => let '(delta, (rs, u_i)) := dru in map (send_w_row delta rs u_i) (Nseq ssK))
        (combine deltas (combine rx u)).
  Definition send_w (deltas : list N) (rx : list (list (list N))) (u : list (list N)) : list (list N) :=
    concat (send_w_blocks deltas rx u).

  (** packed_nabla[(i*K+b)/8] ^= ((delta_i >> b) & 1) << ((i*K+b) % 8) *)
  Definition packed_nabla (deltas : list N) : list N :=
    fold_left (fun acc id => let '(i, delta) := id in
      fold_left (fun acc bit_index =>
                   let delta_i := N.land (N.shiftr delta (N.of_nat bit_index)) 1 in
                   let byte_index := ((i * ssK + bit_index) / 8)%nat in
                   let bit_index2 := ((i * ssK + bit_index) mod 8)%nat in
                   ss_upd acc byte_index (N.lxor (nth byte_index acc 0) (N.shiftl delta_i (N.of_nat bit_index2))))
                (seq 0 ssK) acc)
      (combine (seq 0 ssTrees) deltas) (zbytes ssLCB).

  (** one iteration of the consistency loop; true = the row passes *)
  Definition send_row_ok (chis : list (list N)) (nabla : list N) (msg : Round1Output)
             (i : nat) (w_i : list N) : bool :=
    let q_row := phi_acc chis w_i (zbytes ssSB) in
    let bit := ss_extract_bit nabla i in
    let bit_mask := bit_to_bit_mask (if bit then 1 else 0) in
    let t_i_plus_delta_i_times_x :=
      map (fun tx => N.lxor (fst tx) (N.land bit_mask (snd tx))) (combine (nth i (r1_t msg) []) (r1_x msg)) in
    bytes_eqb q_row t_i_plus_delta_i_times_x.          (* !ct_ne *)

  Definition send_check (chis : list (list N)) (nabla : list N) (msg : Round1Output) (w : list (list N)) : bool :=
    forallb (fun iw => send_row_ok chis nabla msg (fst iw) (snd iw)) (combine (seq 0 ssLC) w).

  Definition send_outputs (sid : list N) (nabla : list N) (zeta : list (list N)) : SenderExtendedOutput :=
    {| se_v_0 := rand_rows sid zeta;
       se_v_1 := rand_rows sid (map (fun z => xor_bytes z nabla) zeta) |}.

  Definition ss_sender (sid : list N) (seed : ReceiverOTSeed) (msg : Round1Output) : outcome SenderExtendedOutput :=
    let rx := send_expand sid seed in
    let w_matrix := send_w (random_choices seed) rx (r1_u msg) in
    let nabla := packed_nabla (random_choices seed) in
    let digest_matrix_u := matrix_digest sid (r1_u msg) in
    let chi := chi_matrix digest_matrix_u in
    if send_check chi nabla msg w_matrix then
      Val (send_outputs sid nabla (transpose_bool_matrix w_matrix))
    else Err ss_err_ban.

  (* ---------------------------------------------------------------- calibrated adversarial receiver (C04) *)
  (** Deviation e[i] (80 bytes) is added to block i of the honest u; the challenges chi' are re-derived from
      the new u; x' = Phi_chi'(choices); row 4i+b of t' = Phi_chi'(v_row) ^ (bit b of g[i]) * Phi_chi'(e[i]),
      i.e. compensated under the guess g[i] of the sender's punctured index of tree i. *)
  Definition adv_t_block (chis : list (list N)) (g_i : N) (e_i : list N) (v_rows : list (list N))
    : list (list N) :=
    let a_i := phi_acc chis e_i (zbytes ssSB) in
    map (fun bv => let '(b, v_r) := bv in
           xor_bytes (phi_acc chis v_r (zbytes ssSB))
                     (and_mask (bit_to_bit_mask (N.land (N.shiftr g_i b) 1)) a_i))
        (combine (Nseq ssK) v_rows).

  Definition adv_receiver (sid : list N) (seed : SenderOTSeed) (choices tape : list N)
             (e : list (list N)) (g : list N) : Round1Output :=
    let epc := choices ++ tape in
    let rx := recv_expand sid seed in
    let u := recv_u epc (r1_u round1_default) rx in
    let u' := map (fun ue => xor_bytes (fst ue) (snd ue)) (combine u e) in
    let chis := chi_matrix (matrix_digest sid u') in
    let x' := phi_acc chis epc (zbytes ssSB) in
    let t' := concat (map (fun gev => let '(g_i, (e_i, v_rows)) := gev in adv_t_block chis g_i e_i v_rows)
                          (combine g (combine e (recv_v_blocks rx)))) in
    {| r1_u := u'; r1_x := x'; r1_t := t' |}.
End SoftSpoken.
