(** A small imperative language over byte arrays: the target of the T1 translator
    (tools/gen_model.py) for straight-line/loop code such as
    [binary_field_multiply_gf_2_128].  Deep embedding, so that panic-freedom
    ([run_ok]) and XOR-linearity ([lin_check]) are decided by computation on the
    *generated* program and justified once and for all by the soundness theorems
    in Proofs/ByteLangLin.v. *)
From SL Require Import Lib.Base.
Local Open Scope N_scope.

(** Index expressions: loop counters (de Bruijn level: 0 = outermost) and constants. *)
Inductive iexp :=
| IVar (n : nat)
| IConst (c : N)
| IAdd (a b : iexp)
| ISub (a b : iexp).

(** Byte expressions (all results are u8). *)
Inductive bexp :=
| BGet (arr : nat) (i : iexp)          (* arr[i] *)
| BLocal (n : nat)                     (* let-bound local, de Bruijn level *)
| BConst (c : N)
| BAnd (a b : bexp)
| BOr (a b : bexp)
| BXor (a b : bexp)
| BShl (a : bexp) (k : iexp)           (* (a << k) as u8 *)
| BShr (a : bexp) (k : iexp)           (* a >> k *)
| BNeg (a : bexp).                     (* -(a as i8) as u8 = (256 - a) mod 256 *)

Inductive stmt :=
| SSkip
| SSeq (s1 s2 : stmt)
| SSet (arr : nat) (i : iexp) (e : bexp)       (* arr[i] = e *)
| SXor (arr : nat) (i : iexp) (e : bexp)       (* arr[i] ^= e *)
| SLet (e : bexp) (body : stmt)                (* let x = e; body *)
| SFor (rev : bool) (lo hi : iexp) (body : stmt) (* for v in lo..hi (.rev()) *)
| SCopy (dst : nat) (len : N) (src : nat).     (* dst[..len].copy_from_slice(&src[..]) ; src.len() = len *)

(** Environments. *)
Record env := { arrs : list (list N); locals : list N; ctrs : list N }.

Definition nthN (l : list N) (i : N) : N := nth (N.to_nat i) l 0.
Fixpoint upd (l : list N) (i : nat) (v : N) : list N :=
  match l, i with
  | [], _ => []
  | _ :: r, O => v :: r
  | x :: r, S k => x :: upd r k v
  end.
Fixpoint upd_arr (l : list (list N)) (a : nat) (f : list N -> list N) : list (list N) :=
  match l, a with
  | [], _ => []
  | x :: r, O => f x :: r
  | x :: r, S k => x :: upd_arr r k f
  end.

Fixpoint ieval (c : list N) (e : iexp) : N :=
  match e with
  | IVar n => nth n c 0
  | IConst k => k
  | IAdd a b => ieval c a + ieval c b
  | ISub a b => ieval c a - ieval c b
  end.

Definition u8 (x : N) : N := x mod 256.

Fixpoint beval (E : env) (e : bexp) : N :=
  match e with
  | BGet a i => nthN (nth a (arrs E) []) (ieval (ctrs E) i)
  | BLocal n => nth n (locals E) 0
  | BConst c => c
  | BAnd a b => N.land (beval E a) (beval E b)
  | BOr a b => N.lor (beval E a) (beval E b)
  | BXor a b => N.lxor (beval E a) (beval E b)
  | BShl a k => u8 (N.shiftl (beval E a) (ieval (ctrs E) k))
  | BShr a k => N.shiftr (beval E a) (ieval (ctrs E) k)
  | BNeg a => u8 (256 - beval E a)
  end.

Definition set_arr (E : env) (a : nat) (i : N) (v : N) : env :=
  {| arrs := upd_arr (arrs E) a (fun l => upd l (N.to_nat i) v);
     locals := locals E; ctrs := ctrs E |}.

(** iterate [f] over lo, lo+1, ..., (n values) or downwards from lo+n-1 *)
Fixpoint iter_up {S} (n : nat) (i : N) (f : N -> S -> S) (s : S) : S :=
  match n with O => s | S k => iter_up k (N.succ i) f (f i s) end.
Fixpoint iter_down {S} (n : nat) (lo : N) (f : N -> S -> S) (s : S) : S :=
  match n with O => s | S k => iter_down k lo f (f (lo + N.of_nat k) s) end.

Fixpoint run (p : stmt) (E : env) : env :=
  match p with
  | SSkip => E
  | SSeq a b => run b (run a E)
  | SSet a i e => set_arr E a (ieval (ctrs E) i) (beval E e)
  | SXor a i e =>
      let ix := ieval (ctrs E) i in
      set_arr E a ix (N.lxor (nthN (nth a (arrs E) []) ix) (beval E e))
  | SLet e body =>
      let E' := run body {| arrs := arrs E; locals := locals E ++ [beval E e]; ctrs := ctrs E |} in
      {| arrs := arrs E'; locals := locals E; ctrs := ctrs E |}
  | SFor rev lo hi body =>
      let l := ieval (ctrs E) lo in
      let h := ieval (ctrs E) hi in
      let n := N.to_nat (h - l) in
      let step := fun (v : N) (A : list (list N)) =>
        arrs (run body {| arrs := A; locals := locals E; ctrs := ctrs E ++ [v] |}) in
      {| arrs := (if rev then iter_down n l step (arrs E) else iter_up n l step (arrs E));
         locals := locals E; ctrs := ctrs E |}
  | SCopy d len s =>
      let src := nth s (arrs E) [] in
      {| arrs := upd_arr (arrs E) d (fun l => firstn (N.to_nat len) src ++ skipn (N.to_nat len) l);
         locals := locals E; ctrs := ctrs E |}
  end.

(** Panic-freedom: every array index in range, no index underflow, every shift
    amount below 8, [copy_from_slice] lengths equal.  Array *lengths* never change
    and indices/shift amounts depend on loop counters only, so this is decided by
    running the program on array lengths alone. *)
Fixpoint iok (c : list N) (e : iexp) : bool :=
  match e with
  | IVar n => Nat.ltb n (length c)
  | IConst _ => true
  | IAdd a b => iok c a && iok c b
  | ISub a b => iok c a && iok c b && (ieval c b <=? ieval c a)
  end.

Fixpoint bok (lens : list N) (nloc : nat) (c : list N) (e : bexp) : bool :=
  match e with
  | BGet a i => iok c i && Nat.ltb a (length lens) && (ieval c i <? nth a lens 0)
  | BLocal n => Nat.ltb n nloc
  | BConst k => k <? 256
  | BAnd a b | BOr a b | BXor a b => bok lens nloc c a && bok lens nloc c b
  | BShl a k | BShr a k => bok lens nloc c a && iok c k && (ieval c k <? 8)
  | BNeg a => bok lens nloc c a
  end.

Fixpoint all_up (n : nat) (i : N) (f : N -> bool) : bool :=
  match n with O => true | S k => f i && all_up k (N.succ i) f end.

Fixpoint sok (lens : list N) (nloc : nat) (c : list N) (p : stmt) : bool :=
  match p with
  | SSkip => true
  | SSeq a b => sok lens nloc c a && sok lens nloc c b
  | SSet a i e | SXor a i e =>
      iok c i && Nat.ltb a (length lens) && (ieval c i <? nth a lens 0) && bok lens nloc c e
  | SLet e body => bok lens nloc c e && sok lens (S nloc) c body
  | SFor _ lo hi body =>
      iok c lo && iok c hi &&
      all_up (N.to_nat (ieval c hi - ieval c lo)) (ieval c lo)
             (fun v => sok lens nloc (c ++ [v]) body)
  | SCopy d len s =>
      Nat.ltb d (length lens) && Nat.ltb s (length lens) &&
      (len <=? nth d lens 0) && (nth s lens 0 =? len)
  end.

(** XOR-linearity type system.  [cls a = true] marks array [a] as *linear* (its
    content is an XOR-linear function of the linear inputs); other arrays are
    *public* (independent of the linear inputs).  An expression is typed with
      - [Some m]: linear, and its value only has bits inside mask [m];
      - [None]  : public. *)
Definition ety := option N.

Definition masks_disjoint (m1 m2 : N) : bool := N.land m1 m2 =? 0.

(** Shift amounts are counter-dependent: bound the result mask by the union over
    k in 0..7 unless the amount is a literal. *)
Definition shl_mask (m : N) (k : iexp) : N :=
  match k with IConst c => u8 (N.shiftl m c) | _ => 255 end.
Definition shr_mask (m : N) (k : iexp) : N :=
  match k with IConst c => N.shiftr m c | _ => m end.
(* for a non-literal right shift by k<8 the bits of (x >> k) lie within the
   downward closure of m: m ∪ m>>1 ∪ ... ∪ m>>7 *)
Definition down_closure (m : N) : N :=
  fold_left N.lor (map (N.shiftr m) [0;1;2;3;4;5;6;7]) 0.

Fixpoint lin_e (cls : list bool) (lt : list ety) (e : bexp) : option ety :=
  match e with
  | BGet a _ => Some (if nth a cls false then Some 255 else None)
  | BLocal n => nth_error lt n
  | BConst c => Some (if c =? 0 then Some 0 else None)
  | BAnd a b =>
      match lin_e cls lt a, lin_e cls lt b with
      | Some (Some m), Some None =>
          Some (Some (match b with BConst c => N.land m c | _ => m end))
      | Some None, Some (Some m) =>
          Some (Some (match a with BConst c => N.land m c | _ => m end))
      | Some None, Some None => Some None
      | _, _ => None
      end
  | BXor a b =>
      match lin_e cls lt a, lin_e cls lt b with
      | Some (Some m1), Some (Some m2) => Some (Some (N.lor m1 m2))
      | Some None, Some None => Some None
      | _, _ => None
      end
  | BOr a b =>
      match lin_e cls lt a, lin_e cls lt b with
      | Some (Some m1), Some (Some m2) =>
          if masks_disjoint m1 m2 then Some (Some (N.lor m1 m2)) else None
      | Some None, Some None => Some None
      | _, _ => None
      end
  | BShl a k =>
      match lin_e cls lt a with
      | Some (Some m) => Some (Some (shl_mask m k))
      | Some None => Some None
      | None => None
      end
  | BShr a k =>
      match lin_e cls lt a with
      | Some (Some m) =>
          Some (Some (match k with IConst _ => shr_mask m k | _ => down_closure m end))
      | Some None => Some None
      | None => None
      end
  | BNeg a =>
      match lin_e cls lt a with
      | Some (Some m) => if N.lor m 1 =? 1 then Some (Some 255) else None
      | Some None => Some None
      | None => None
      end
  end.

Definition is_lin (t : ety) : bool := match t with Some _ => true | None => false end.

Fixpoint lin_s (cls : list bool) (lt : list ety) (p : stmt) : bool :=
  match p with
  | SSkip => true
  | SSeq a b => lin_s cls lt a && lin_s cls lt b
  | SSet a _ e | SXor a _ e =>
      match lin_e cls lt e with
      | Some t => Bool.eqb (nth a cls false) (is_lin t)
      | None => false
      end
  | SLet e body =>
      match lin_e cls lt e with
      | Some t => lin_s cls (lt ++ [t]) body
      | None => false
      end
  | SFor _ _ _ body => lin_s cls lt body
  | SCopy d _ s => Bool.eqb (nth d cls false) (nth s cls false)
  end.
