(* FROZEN COPY of Gen/Sites.v (made by hand when the skeletons of Model/CtSkel.v were written).
   The obligation sites_unchanged_* in Proofs/CtSkel.v compares it with the freshly generated inventory.
   Control-flow site inventory of the functions property C18 names: every if/match/while/for/loop,
   closure-taking iterator adaptor, `?`, return/break/continue and short-circuit operator, keyed by
   (kind, ordinal of that kind within the function, hash of the whitespace-normalised header text). *)
From Coq Require Import NArith List.
Import ListNotations.
Local Open Scope N_scope.
Module FSites.

Definition paillier_encrypt_with_r : list (N * N * N) := [

].

Definition paillier_decrypt : list (N * N * N) := [

].

Definition paillier_h : list (N * N * N) := [

].

Definition paillier_mp : list (N * N * N) := [

].

Definition paillier_decrypt_fast : list (N * N * N) := [

].

Definition paillier_extract_n_root : list (N * N * N) := [

].

Definition paillier_decompose : list (N * N * N) := [

].

Definition paillier_recombine : list (N * N * N) := [

].

Definition paillier_add : list (N * N * N) := [

].

Definition paillier_mul : list (N * N * N) := [

].

Definition paillier_mul_vartime : list (N * N * N) := [

].

Definition pprf_eval : list (N * N * N) := [
  (* for #0: for (j, out) in output.iter().enumerate() *) (1, 0, 106257378508711);
  (* for #1: for i in 1..SOFT_SPOKEN_K *) (1, 1, 61979706509331);
  (* for #2: for y in 0..(1 << i) *) (1, 2, 62873297493090);
  (* closure #0: for_each *) (6, 0, 119262128052406);
  (* for #3: for b_i in 0..LAMBDA_C_BYTES *) (1, 3, 123359988146696);
  (* for #4: for y in 0..2usize.pow(i as u32) *) (1, 4, 218661948176376);
  (* for #5: for y in 0..SOFT_SPOKEN_Q *) (1, 5, 274705551800967);
  (* closure #1: for_each *) (6, 1, 119262128052406);
  (* closure #2: for_each *) (6, 2, 119262128052406);
  (* closure #3: for_each *) (6, 3, 119262128052406);
  (* if #0: if s_tilda_digest.ct_ne(s_tilda_expected).into() *) (4, 0, 141748968901006);
  (* return #0: return *) (8, 0, 231971837890350)
].

Definition ss_sender_process : list (N * N * N) := [
  (* for #0: for i in 0..LAMBDA_C_DIV_SOFT_SPOKEN_K *) (1, 0, 146354080799170);
  (* for #1: for (j, rx_j) in r_x.iter_mut().enumerate() *) (1, 1, 152131588140827);
  (* if #0: if j == seed_ot_results.random_choices[i] as usize *) (4, 0, 77548007245374);
  (* for #2: for i in 0..LAMBDA_C_DIV_SOFT_SPOKEN_K *) (1, 2, 146354080799170);
  (* for #3: for bit_index in 0..SOFT_SPOKEN_K *) (1, 3, 14568370568901);
  (* for #4: for (j, rx_j) in r_x.iter().enumerate() *) (1, 4, 155446047503660);
  (* for #5: for k in 0..L_PRIME_BYTES *) (1, 5, 159196234803082);
  (* for #6: for k in 0..L_PRIME_BYTES *) (1, 6, 159196234803082);
  (* for #7: for i in 0..LAMBDA_C_DIV_SOFT_SPOKEN_K *) (1, 7, 146354080799170);
  (* for #8: for bit_index in 0..SOFT_SPOKEN_K *) (1, 8, 14568370568901);
  (* closure #0: array::from_fn *) (6, 0, 77700517507580);
  (* for #9: for (i, w_matrix_i) in w_matrix.iter().enumerate() *) (1, 9, 281171174122969);
  (* for #10: for (j, chi_j) in chi_matrix.iter().enumerate() *) (1, 10, 262445621631510);
  (* for #11: for k in 0..S_BYTES *) (1, 11, 187411600683228);
  (* closure #1: for_each *) (6, 1, 119262128052406);
  (* closure #2: array::from_fn *) (6, 2, 77700517507580);
  (* if #1: if q_row.ct_ne(&t_i_plus_delta_i_times_x).into() *) (4, 1, 41546580211326);
  (* return #0: return *) (8, 0, 231971837890350);
  (* for #12: for j in 0..L *) (1, 12, 78336211079700);
  (* for #13: for k in &mut v_0[j] *) (1, 13, 55734157355503);
  (* closure #3: for_each *) (6, 3, 119262128052406);
  (* for #14: for k in &mut v_1[j] *) (1, 14, 17056600458278)
].

Definition ss_transpose : list (N * N * N) := [
  (* for #0: for row_byte in 0..LAMBDA_C_BYTES *) (1, 0, 175992616166721);
  (* for #1: for row_bit_byte in 0..8 *) (1, 1, 76286928829883);
  (* for #2: for column_byte in 0..L_PRIME_BYTES *) (1, 2, 209851141229834);
  (* for #3: for column_bit_byte in 0..8 *) (1, 3, 229838067483373)
].

Definition rvole_receiver_process : list (N * N * N) := [
  (* for #0: for j in 0..XI *) (1, 0, 251334702565549);
  (* for #1: for i in 0..L_BATCH_PLUS_RHO *) (1, 1, 128879193314235);
  (* for #2: for k in 0..RHO *) (1, 2, 240314117224258);
  (* for #3: for i in 0..L_BATCH *) (1, 3, 49479272343961);
  (* for #4: for j in 0..XI *) (1, 4, 251334702565549);
  (* for #5: for i in 0..L_BATCH *) (1, 5, 49479272343961);
  (* for #6: for k in 0..RHO *) (1, 6, 240314117224258);
  (* for #7: for j in 0..XI *) (1, 7, 251334702565549);
  (* for #8: for k in 0..RHO *) (1, 8, 240314117224258);
  (* for #9: for i in 0..L_BATCH *) (1, 9, 49479272343961);
  (* if #0: if rvole_output.mu_hash.ct_ne(&mu_prime_hash).into() *) (4, 0, 153380221530178);
  (* return #0: return *) (8, 0, 231971837890350);
  (* for #10: for i in 0..L_BATCH *) (1, 10, 49479272343961);
  (* for #11: for (j, gv) in generate_gadget_vec(&self.session_id).enumerate() *) (1, 11, 66935411825802)
].

Definition rvole_sender_process : list (N * N * N) := [
  (* try #0: ? *) (7, 0, 122422809990306);
  (* closure #0: array::from_fn *) (6, 0, 77700517507580);
  (* closure #1: map *) (6, 1, 105278289222450);
  (* closure #2: for_each *) (6, 2, 119262128052406);
  (* for #0: for (j, a_tilde_j_ref) in output.a_tilde.iter_mut().enumerate() *) (1, 0, 182284109298777);
  (* for #1: for i in 0..L_BATCH *) (1, 1, 49479272343961);
  (* for #2: for (k, eta) in output.eta.iter().enumerate() *) (1, 2, 116813484702532);
  (* for #3: for k in 0..RHO *) (1, 3, 240314117224258);
  (* for #4: for i in 0..L_BATCH *) (1, 4, 49479272343961);
  (* for #5: for (k, eta) in output.eta.iter_mut().enumerate() *) (1, 5, 266233071022242);
  (* closure #3: map *) (6, 3, 105278289222450);
  (* for #6: for j in 0..XI *) (1, 6, 251334702565549);
  (* for #7: for k in 0..RHO *) (1, 7, 240314117224258);
  (* for #8: for i in 0..L_BATCH *) (1, 8, 49479272343961)
].

End FSites.
