(** C12 -- BIP32 (Bitcoin Improvement Proposal 32) public parent -> public child derivation and
    extended-key serialisation, written from the text of the BIP, independently of the loop of
    crates/sl-mpc-mate/src/bip32.rs.  Only the string primitives (hex, Base58) are shared with
    Model/Bip32.v; Base58 itself is characterised independently by [base58_decode_encode].

    BIP32, "Public parent key -> public child key":
      CKDpub((Kpar, cpar), i) -> (Ki, ci):
      - if i >= 2^31 (hardened child): return failure;
      - else let I = HMAC-SHA512(Key = cpar, Data = serP(Kpar) || ser32(i));
      - split I into two 32-byte sequences, IL and IR;
      - Ki = point(parse256(IL)) + Kpar;  ci = IR;
      - in case parse256(IL) >= n or Ki is the point at infinity, the resulting key is invalid.
    "Key identifiers": HASH160 = RIPEMD160 after SHA256 of serP(K); the first 32 bits are the fingerprint.
    "Serialization format": 4 bytes version || 1 byte depth || 4 bytes parent fingerprint (0x00000000 if
      master) || 4 bytes child number ser32(i) (0x00000000 if master) || 32 bytes chain code || 33 bytes serP(K);
      then Base58Check: append the first 32 bits of the double SHA-256 and convert to Base58.
    "The key tree": N(m/a/b/c) = CKDpub(CKDpub(CKDpub(m, a), b), c). *)
From SL Require Import Lib.Base Lib.Oracle Model.Bip32.
Local Open Scope N_scope.

(** version bytes: BIP32 (mainnet / testnet public), BIP49 and BIP84 (SLIP-132 ypub / zpub) *)
Definition version_mainnet_public : N := 0x0488B21E.
Definition version_testnet_public : N := 0x043587CF.
Definition version_ypub : N := 0x049D7CB2.
Definition version_zpub : N := 0x04B24746.

Section Spec.
  Variable G : Type.
  Variable O : group_ops G.
  Variable hmac512 : list N -> list N -> list N.
  Variable sha256 : list N -> list N.
  Variable ripemd160 : list N -> list N.
  Variable n : Z.     (* the order of the curve *)

  Definition serP (P : G) : list N := g_enc O P.
  Definition ser32 (i : N) : list N := to_be 4 i.
  Definition parse256 (b : list N) : Z := Z.of_N (of_be b).
  Definition point (p : Z) : G := g_smul O p (g_gen O).
  Definition hash160 (b : list N) : list N := ripemd160 (sha256 b).
  Definition fingerprint (K : G) : list N := firstn 4 (hash160 (serP K)).

  Definition CKDpub (Kpar : G) (cpar : list N) (i : N) : option (G * list N) :=
    if 2 ^ 31 <=? i then None
    else
      let I := hmac512 cpar (serP Kpar ++ ser32 i) in
      let IL := firstn 32 I in
      let IR := skipn 32 I in
      let Ki := g_add O (point (parse256 IL)) Kpar in
      if (n <=? parse256 IL)%Z || g_eqb O Ki (g_id O) then None else Some (Ki, IR).

  (** an extended public key with its position in the tree *)
  Record ext_pub := {
    e_depth : N;             (* 0 for the master, parent's depth + 1 otherwise *)
    e_fingerprint : list N;  (* of the parent key *)
    e_child_number : N;
    e_chain_code : list N;
    e_key : G;
  }.

  Definition master (K : G) (c : list N) : ext_pub :=
    {| e_depth := 0; e_fingerprint := [0; 0; 0; 0]; e_child_number := 0; e_chain_code := c; e_key := K |}.

  Definition CKDpub_ext (par : ext_pub) (i : N) : option ext_pub :=
    match CKDpub (e_key par) (e_chain_code par) i with
    | Some (Ki, ci) =>
      Some {| e_depth := e_depth par + 1; e_fingerprint := fingerprint (e_key par);
              e_child_number := i; e_chain_code := ci; e_key := Ki |}
    | None => None
    end.

  (** N(m/a/b/c) = CKDpub(CKDpub(CKDpub(m,a),b),c): recursion from the leaf, i.e. on the reversed path *)
  Fixpoint derive_rev (K : G) (c : list N) (rpath : list N) : option ext_pub :=
    match rpath with
    | [] => Some (master K c)
    | i :: r => match derive_rev K c r with Some par => CKDpub_ext par i | None => None end
    end.

  Definition bip32_spec (K : G) (c : list N) (path : list N) : option ext_pub :=
    derive_rev K c (rev path).

  (** serialisation; the depth field is one byte, so keys below level 255 have none *)
  Definition serialize_ext (version : N) (e : ext_pub) : list N :=
    ser32 version ++ [e_depth e] ++ e_fingerprint e ++ ser32 (e_child_number e)
      ++ e_chain_code e ++ serP (e_key e).

  Definition checksum (payload : list N) : list N := firstn 4 (sha256 (sha256 payload)).

  Definition spec_string (version : N) (e : ext_pub) (base58 : bool) : option (list N) :=
    if e_depth e <? 256 then
      let s := serialize_ext version e in
      Some (if base58 then base58_encode (s ++ checksum s) else hex_encode s)
    else None.

  (** the I_L of the step from [par] to child [i] (to name the I_L = n boundary on which the code
      and the BIP differ) *)
  Definition step_IL (par : ext_pub) (i : N) : Z :=
    parse256 (firstn 32 (hmac512 (e_chain_code par) (serP (e_key par) ++ ser32 i))).
End Spec.
