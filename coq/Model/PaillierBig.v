(** [Bignums.BigZ] mirror of Model/Paillier.v, used ONLY to evaluate the model on key-sized operands in the
    correspondence check (stdlib [Z] in [vm_compute] needs minutes for one 2048-bit exponentiation, BigZ seconds).
    Every function below is the same program as its namesake in Model/Paillier.v with [Z] operations replaced
    by [BigZ] operations; Proofs/PaillierBigSpec.v proves [[bf x] = f [x]] for each of them from the
    [BigZ.spec_*] lemmas (these rest on the specifications of the kernel's primitive 63-bit integers).
    Exponents, widths and fuel stay in [Z]/[nat].  NO proofs in this file. *)
From Bignums Require Import BigZ.
From SL Require Import Lib.Base Model.Paillier.
Local Open Scope Z_scope.

Notation bZ := BigZ.t_.
Notation "[[ x ]]" := (BigZ.to_Z x) (at level 0, x at level 99).
Definition bz (x : Z) : bZ := BigZ.of_Z x.

Definition bwrap (w : Z) (x : bZ) : bZ := BigZ.modulo x (bz (2 ^ w)).
Definition bwadd (w : Z) (a b : bZ) : bZ := bwrap w (BigZ.add a b).
Definition bwsub (w : Z) (a b : bZ) : bZ := bwrap w (BigZ.sub a b).
Definition bwdiv (a b : bZ) : bZ := BigZ.div a b.
Definition bcrem (a m : bZ) : bZ := BigZ.modulo a m.
Definition bbits (x : bZ) : Z := bits [[x]].

Definition bsub_mod (w : Z) (a b p : bZ) : bZ :=
  bwrap w (BigZ.add (BigZ.sub a b) (if BigZ.ltb a b then p else bz 0)).

Fixpoint bpowmod_pos (b : bZ) (e : positive) (m : bZ) : bZ :=
  match e with
  | xH => b
  | xO e' => let t := bpowmod_pos b e' m in BigZ.modulo (BigZ.mul t t) m
  | xI e' => let t := bpowmod_pos b e' m in BigZ.modulo (BigZ.mul (BigZ.modulo (BigZ.mul t t) m) b) m
  end.

Definition bpowmod (b : bZ) (e : Z) (m : bZ) : bZ :=
  match e with
  | Zpos e' => bpowmod_pos (BigZ.modulo b m) e' m
  | _ => BigZ.modulo (bz 1) m
  end.

Definition bpow_bounded_exp (b e : bZ) (ebits : Z) (m : bZ) : bZ :=
  bpowmod b ([[e]] mod 2 ^ ebits) m.

Fixpoint begcd_loop (fuel : nat) (r0 r1 t0 t1 : bZ) : bZ * bZ :=
  match fuel with
  | O => (r0, t0)
  | S k => if BigZ.eqb r1 (bz 0) then (r0, t0)
           else let q := BigZ.div r0 r1 in
                begcd_loop k r1 (BigZ.sub r0 (BigZ.mul q r1)) t1 (BigZ.sub t0 (BigZ.mul q t1))
  end.

Definition bmodinv (a m : bZ) : bZ :=
  BigZ.modulo (snd (begcd_loop (egcd_fuel [[m]]) m (BigZ.modulo a m) (bz 0) (bz 1))) m.

Record bpkey : Type := BPKey { bpk_n : bZ; bpk_nn : bZ }.
Record bskey : Type := BSKey {
  bsk_pk : bpkey; bsk_phi : bZ; bsk_inv_phi : bZ; bsk_p : bZ; bsk_hp : bZ; bsk_q : bZ; bsk_hq : bZ;
  bsk_pinv_q : bZ; bsk_pp : bZ; bsk_qq : bZ }.

Definition pk_of_big (k : bpkey) : pkey := PKey [[bpk_n k]] [[bpk_nn k]].
Definition sk_of_big (k : bskey) : skey :=
  SKey (pk_of_big (bsk_pk k)) [[bsk_phi k]] [[bsk_inv_phi k]] [[bsk_p k]] [[bsk_hp k]] [[bsk_q k]] [[bsk_hq k]]
       [[bsk_pinv_q k]] [[bsk_pp k]] [[bsk_qq k]].

Definition bfrom_n (w : widths) (n : bZ) : bpkey := BPKey n (bwrap (wC w) (BigZ.mul n n)).

Definition bh (w : widths) (p pp n : bZ) : bZ :=
  let n_mod_pp := bcrem n pp in
  let x := bsub_mod (wM w) (bz 1) n_mod_pp pp in
  let l := bwdiv (bwsub (wM w) x (bz 1)) p in
  bwrap (wP w) (bmodinv l p).

Definition bfrom_pq (w : widths) (p q : bZ) : bskey :=
  let n := bwrap (wM w) (BigZ.mul q p) in
  let pk := bfrom_n w n in
  let phi := bwrap (wM w) (BigZ.mul (bwsub (wP w) q (bz 1)) (bwsub (wP w) p (bz 1))) in
  let inv_phi := bmodinv phi n in
  let pinv_q := bmodinv p q in
  let pp := bwrap (wM w) (BigZ.mul p p) in
  let hp := bh w p pp n in
  let qq := bwrap (wM w) (BigZ.mul q q) in
  let hq := bh w q qq n in
  BSKey pk phi inv_phi p hp q hq pinv_q pp qq.

Definition bencrypt (w : widths) (pk : bpkey) (m r : bZ) : bZ :=
  let n := bpk_n pk in
  let nn := bpk_nn pk in
  let r_pow_n := bpow_bounded_exp r n (bbits n) nn in
  let g_pow_m := bcrem (bwadd (wC w) (bwrap (wC w) (BigZ.mul m n)) (bz 1)) nn in
  bcrem (BigZ.mul g_pow_m r_pow_n) nn.

Definition badd (w : widths) (pk : bpkey) (c1 c2 : bZ) : bZ :=
  bcrem (BigZ.mul (bcrem c1 (bpk_nn pk)) (bcrem c2 (bpk_nn pk))) (bpk_nn pk).

Definition bmul (w : widths) (pk : bpkey) (c k : bZ) : bZ :=
  bpow_bounded_exp c k (wM w) (bpk_nn pk).

Definition bmul_vartime (w : widths) (pk : bpkey) (c k : bZ) : bZ :=
  bpow_bounded_exp c (bwrap (wM w) k) (bbits k) (bpk_nn pk).

Definition binto_message (pk : bpkey) (m : bZ) : option bZ :=
  if BigZ.ltb m (bpk_n pk) then Some m else None.

Definition bdecrypt (w : widths) (sk : bskey) (c : bZ) : bZ :=
  let n := bpk_n (bsk_pk sk) in
  let nn := bpk_nn (bsk_pk sk) in
  let x := bpow_bounded_exp c (bwrap (wM w) (bsk_phi sk)) (wM w) nn in
  let m := bwrap (wM w) (bwdiv (bwsub (wC w) x (bz 1)) n) in
  let m_mod_n := bcrem m n in
  bcrem (BigZ.mul m_mod_n (bsk_inv_phi sk)) n.

Definition bdecompose (c p q : bZ) : bZ * bZ := (bcrem c p, bcrem c q).

Definition bmp (w : widths) (cp p hp pp : bZ) : bZ :=
  let x := bpow_bounded_exp cp (bwrap (wP w) (bwsub (wP w) p (bz 1))) (wP w) pp in
  let l := bwrap (wP w) (bwdiv (bwsub (wM w) x (bz 1)) p) in
  let x := bcrem l p in
  bcrem (BigZ.mul x hp) p.

Definition brecombine (w : widths) (p_inv_q v1 v2 p q : bZ) : bZ :=
  let v1_less_q := bcrem v1 q in
  let d := bsub_mod (wP w) v2 v1_less_q q in
  let u := bcrem (BigZ.mul d p_inv_q) q in
  bwadd (wM w) (bwrap (wM w) (BigZ.mul u p)) v1.

Definition bdecrypt_fast (w : widths) (sk : bskey) (c : bZ) : bZ :=
  let '(cp, cq) := bdecompose c (bsk_pp sk) (bsk_qq sk) in
  let m_p := bmp w cp (bsk_p sk) (bsk_hp sk) (bsk_pp sk) in
  let m_q := bmp w cq (bsk_q sk) (bsk_hq sk) (bsk_qq sk) in
  brecombine w (bsk_pinv_q sk) m_p m_q (bsk_p sk) (bsk_q sk).

Definition bextract_n_root_init_params (w : widths) (sk : bskey) : bZ * bZ * bZ * bZ :=
  let qm1 := bwsub (wP w) (bsk_q sk) (bz 1) in
  let pm1 := bwsub (wP w) (bsk_p sk) (bz 1) in
  let dn := bmodinv (bpk_n (bsk_pk sk)) (bsk_phi sk) in
  let '(dp, dq) := bdecompose dn pm1 qm1 in
  (dp, dq, bsk_p sk, bsk_q sk).

Definition bextract_n_root_with (w : widths) (sk : bskey) (z : bZ) (ip : bZ * bZ * bZ * bZ) : bZ :=
  let '(dp, dq, pmod, qmod) := ip in
  let '(zp, zq) := bdecompose z (bsk_p sk) (bsk_q sk) in
  let rp := bpow_bounded_exp zp dp (wP w) pmod in
  let rq := bpow_bounded_exp zq dq (wP w) qmod in
  brecombine w (bsk_pinv_q sk) rp rq (bsk_p sk) (bsk_q sk).

Definition bextract_n_root (w : widths) (sk : bskey) (z : bZ) : bZ :=
  bextract_n_root_with w sk z (bextract_n_root_init_params w sk).
