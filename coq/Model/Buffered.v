(** Executable model of [BufferedMsgRelay] (crates/sl-mpc-mate/src/coord/buffered.rs), property C17.

    The wrapper owns [in_buf : Vec<Vec<u8>>] and an inner [Relay].  The inner relay is a *script*:
    what its [poll_next] / [poll_ready] / [start_send] / [poll_flush] return, in the order the
    wrapper calls them, plus a log of those calls (newest first).  The three entry points of the
    wrapper ([wait_for], [recv], the [Stream] impl reached through [StreamExt::next]) are futures;
    one *poll* of a future runs the code until it returns or until the inner relay answers
    [Poll::Pending].  What a suspended future holds between two polls is made explicit in [fut]:

      - [wait_for] parked in [self.relay.flush().await]  : nothing but the predicate   ([WsFlush])
      - [wait_for] parked in [self.relay.next().await]   : nothing but the predicate   ([WsNext])
        (the local [msg] is never alive across an await: it is pushed to [in_buf] or returned first)
      - [recv] parked in [self.relay.ask(id, ttl).await] : the id and the not yet sent ask frame
        (futures_util::sink::Feed { sink, item: Some(frame) })                         ([FAsk])
      - [Next] (StreamExt::next)                         : nothing                     ([FNext])

    No suspended future holds a frame that came out of the inner relay.  Dropping a future
    (cancellation) discards exactly the [fut] value; a later call starts from [fut_of_call].
    NO proofs in this file (see Proofs/Buffered.v). *)
From SL Require Import Lib.Base Gen.Params.

Definition bytes := list N.

(** MESSAGE_HEADER_SIZE / MESSAGE_ID_SIZE, generated from message.rs on every run (tie T1). *)
Definition HDR : nat := N.to_nat GP.MSG_MESSAGE_HEADER_SIZE.
Definition IDSZ : nat := N.to_nat GP.MSG_MESSAGE_ID_SIZE.

(** [<&MsgHdr>::try_from(msg.as_slice())] succeeds iff the slice has a first chunk of
    MESSAGE_HEADER_SIZE bytes ([first_chunk], the cast of [u8; 36] to an align-1 struct cannot fail). *)
Definition wf (m : bytes) : bool := Nat.leb HDR (length m).
(** [hdr.id()] = [data[..MESSAGE_ID_SIZE]] of the first MESSAGE_HEADER_SIZE bytes. *)
Definition hdr_id (m : bytes) : bytes := firstn IDSZ (firstn HDR m).

(** [<&MsgHdr>::try_from(msg).ok().filter(|hdr| predicate(hdr.id())).is_some()] *)
Definition matches (p : bytes -> bool) (m : bytes) : bool := wf m && p (hdr_id m).

(** the closure [|msg| msg.eq(id)] of [recv]: equality of two [MsgId] = [[u8; 32]] *)
Definition id_pred (id : bytes) : bytes -> bool := fun x => bytes_eqb x id.

(** [AskMsg::allocate(id, ttl)] = [allocate_message(id, ttl, 0, &[])]:
    id bytes, then [((ttl & 0xffff) | 0 << 16).to_le_bytes()]. *)
Definition ask_frame (id : bytes) (ttl : N) : bytes := id ++ to_le 4 (ttl mod 65536)%N.

(** ** Vec operations exactly as used *)

(** [iter().position(f)] *)
Fixpoint position {A} (f : A -> bool) (l : list A) : option nat :=
  match l with
  | [] => None
  | x :: r => if f x then Some O else option_map S (position f r)
  end.

(** [Vec::pop]: removes and returns the LAST element *)
Fixpoint pop {A} (l : list A) : option (A * list A) :=
  match l with
  | [] => None
  | x :: r => match pop r with
              | None => Some (x, [])
              | Some (y, r') => Some (y, x :: r')
              end
  end.

(** [Vec::swap_remove(i)]: element i is replaced by the last element, the vector shrinks by one;
    panics (None) when [i >= len]. *)
Definition swap_remove {A} (l : list A) (i : nat) : option (A * list A) :=
  match nth_error l i, pop l with
  | Some x, Some (lst, l1) =>
      if Nat.eqb i (length l1) then Some (x, l1)
      else Some (x, firstn i l1 ++ lst :: skipn (S i) l1)
  | _, _ => None
  end.

(** [Vec::push] *)
Definition push {A} (l : list A) (x : A) : list A := l ++ [x].

(** ** The scripted inner relay *)
Inductive rx_ev := Item (m : bytes) | RxPending | RxEnd.     (* results of poll_next *)
Inductive pres := POk | PPending | PErr.                      (* results of poll_ready / poll_flush *)
Inductive icall := INext | IReady | ISend (m : bytes) (ok : bool) | IFlush.

Record inner := mkInner {
  i_rx  : list rx_ev;   (* consumed from the front by poll_next; exhausted = Ready(None) *)
  i_rdy : list pres;    (* consumed by poll_ready; exhausted = Ready(Ok) *)
  i_snd : list bool;    (* consumed by start_send (true = Ok); exhausted = Ok *)
  i_fls : list pres;    (* consumed by poll_flush; exhausted = Ready(Ok) *)
  i_log : list icall    (* calls made by the wrapper, newest first *)
}.

Record state := mkState { in_buf : list bytes; relay : inner }.

Definition init (r : inner) : state := mkState [] r.

Definition pop_pres (l : list pres) : pres * list pres :=
  match l with [] => (POk, []) | x :: r => (x, r) end.
Definition pop_bool (l : list bool) : bool * list bool :=
  match l with [] => (true, []) | x :: r => (x, r) end.

Definition inner_poll_ready (r : inner) : pres * inner :=
  let '(x, l) := pop_pres (i_rdy r) in
  (x, mkInner (i_rx r) l (i_snd r) (i_fls r) (IReady :: i_log r)).
Definition inner_start_send (r : inner) (m : bytes) : bool * inner :=
  let '(x, l) := pop_bool (i_snd r) in
  (x, mkInner (i_rx r) (i_rdy r) l (i_fls r) (ISend m x :: i_log r)).
Definition inner_poll_flush (r : inner) : pres * inner :=
  let '(x, l) := pop_pres (i_fls r) in
  (x, mkInner (i_rx r) (i_rdy r) (i_snd r) l (IFlush :: i_log r)).

(** ** Futures *)
Inductive wstage := WsStart | WsFlush | WsNext.
Inductive fut :=
| FWait (p : bytes -> bool) (st : wstage)   (* wait_for(p): not yet polled / parked in flush / parked in next *)
| FAsk (id : bytes) (frame : bytes)         (* recv(id, ttl): the Feed still holds the ask frame *)
| FNext.                                    (* StreamExt::next on the wrapper *)

Inductive pollres :=
| Done (r : option bytes)      (* Poll::Ready(r) *)
| Suspended (f : fut)          (* Poll::Pending; f is what the future holds *)
| Panicked.                    (* swap_remove out of range (proved unreachable) *)

(** the [loop] of wait_for: one [self.relay.next().await] per iteration.
    Structural on the rx script; returns (result, rest of script, in_buf, log). *)
Fixpoint wait_loop (p : bytes -> bool) (l : list rx_ev) (buf : list bytes) (lg : list icall)
  : pollres * list rx_ev * list bytes * list icall :=
  match l with
  | [] => (Done None, [], buf, INext :: lg)                       (* next() = None: `?` returns None *)
  | RxEnd :: r => (Done None, r, buf, INext :: lg)
  | RxPending :: r => (Suspended (FWait p WsNext), r, buf, INext :: lg)
  | Item m :: r =>
      if wf m then
        if p (hdr_id m) then (Done (Some m), r, buf, INext :: lg)  (* good, return it *)
        else wait_loop p r (push buf m) (INext :: lg)              (* push into the buffer and try again *)
      else wait_loop p r buf (INext :: lg)                         (* shorter than a header: dropped *)
  end.

Definition poll_wait_next (p : bytes -> bool) (s : state) : pollres * state :=
  let r := relay s in
  let '(res, rx', buf', lg') := wait_loop p (i_rx r) (in_buf s) (i_log r) in
  (res, mkState buf' (mkInner rx' (i_rdy r) (i_snd r) (i_fls r) lg')).

(** [self.relay.flush().await.ok()?] then the loop *)
Definition poll_wait_flush (p : bytes -> bool) (s : state) : pollres * state :=
  let '(x, r') := inner_poll_flush (relay s) in
  let s' := mkState (in_buf s) r' in
  match x with
  | PPending => (Suspended (FWait p WsFlush), s')
  | PErr => (Done None, s')
  | POk => poll_wait_next p s'
  end.

(** first poll of wait_for: look into the input buffer first *)
Definition poll_wait_start (p : bytes -> bool) (s : state) : pollres * state :=
  match position (matches p) (in_buf s) with
  | Some idx =>
      match swap_remove (in_buf s) idx with
      | Some (m, buf') => (Done (Some m), mkState buf' (relay s))
      | None => (Panicked, s)
      end
  | None => poll_wait_flush p s
  end.

(** [self.relay.ask(id, ttl).await.ok()?] (Feed::poll: poll_ready, then start_send), then
    [self.wait_for(|msg| msg.eq(id)).await] *)
Definition poll_ask (id frame : bytes) (s : state) : pollres * state :=
  let '(x, r1) := inner_poll_ready (relay s) in
  match x with
  | PPending => (Suspended (FAsk id frame), mkState (in_buf s) r1)
  | PErr => (Done None, mkState (in_buf s) r1)
  | POk =>
      let '(ok, r2) := inner_start_send r1 frame in
      if ok then poll_wait_start (id_pred id) (mkState (in_buf s) r2)
      else (Done None, mkState (in_buf s) r2)
  end.

(** [Stream::poll_next] of the wrapper *)
Definition poll_next (s : state) : pollres * state :=
  match pop (in_buf s) with
  | Some (m, buf') => (Done (Some m), mkState buf' (relay s))
  | None =>
      let r := relay s in
      match i_rx r with
      | [] => (Done None, mkState (in_buf s) (mkInner [] (i_rdy r) (i_snd r) (i_fls r) (INext :: i_log r)))
      | RxEnd :: l => (Done None, mkState (in_buf s) (mkInner l (i_rdy r) (i_snd r) (i_fls r) (INext :: i_log r)))
      | RxPending :: l => (Suspended FNext, mkState (in_buf s) (mkInner l (i_rdy r) (i_snd r) (i_fls r) (INext :: i_log r)))
      | Item m :: l => (Done (Some m), mkState (in_buf s) (mkInner l (i_rdy r) (i_snd r) (i_fls r) (INext :: i_log r)))
      end
  end.

Definition poll_fut (f : fut) (s : state) : pollres * state :=
  match f with
  | FWait p WsStart => poll_wait_start p s
  | FWait p WsFlush => poll_wait_flush p s
  | FWait p WsNext => poll_wait_next p s
  | FAsk id frame => poll_ask id frame s
  | FNext => poll_next s
  end.

(** ** Calls of the application *)
Inductive call :=
| CWait (p : bytes -> bool)
| CRecv (id : bytes) (ttl : N)
| CNext.

Inductive result := RSome (m : bytes) | RNone | RCancelled | RPanic.

Definition fut_of_call (c : call) : fut :=
  match c with
  | CWait p => FWait p WsStart
  | CRecv id ttl => FAsk id (ask_frame id ttl)
  | CNext => FNext
  end.

(** poll the future at most [k] times; if it is still pending after that, DROP it *)
Fixpoint drive (k : nat) (f : fut) (s : state) : result * state :=
  match k with
  | O => (RCancelled, s)
  | S k' =>
      match poll_fut f s with
      | (Done (Some m), s') => (RSome m, s')
      | (Done None, s') => (RNone, s')
      | (Panicked, s') => (RPanic, s')
      | (Suspended f', s') => drive k' f' s'
      end
  end.

Definition run_call (c : call) (k : nat) (s : state) : result * state := drive k (fut_of_call c) s.

(** a call sequence with its cancellation points: (call, maximal number of polls) *)
Fixpoint run (cs : list (call * nat)) (s : state) : list result * state :=
  match cs with
  | [] => ([], s)
  | (c, k) :: r =>
      let '(x, s1) := run_call c k s in
      let '(xs, s2) := run r s1 in
      (x :: xs, s2)
  end.

(** [buffered()] / [buffered_mut()] (read side) *)
Definition buffered (s : state) : list bytes := in_buf s.

(** bookkeeping used by the statements *)
Fixpoint items (l : list rx_ev) : list bytes :=
  match l with
  | [] => []
  | Item m :: r => m :: items r
  | _ :: r => items r
  end.
Fixpoint handed (rs : list result) : list bytes :=
  match rs with
  | [] => []
  | RSome m :: r => m :: handed r
  | _ :: r => handed r
  end.
