(** C11: entry points that parse peer-supplied bytes, as total functions into [outcome] with an
    explicit [Panic] wherever the Rust code would panic (index out of bounds, unwrap on None,
    assert, expect).  This file holds the small entry points not owned by an area model:
    the message-header views of crates/sl-mpc-mate/src/message.rs and the frame classification of
    the relay's Sink (coord/simple.rs start_send / SimpleMessageRelay::send). *)
From SL Require Import Lib.Base Gen.Params.
Local Open Scope N_scope.

Definition HDR : nat := N.to_nat GP.MSG_MESSAGE_HEADER_SIZE.
Definition IDSZ : nat := N.to_nat GP.MSG_MESSAGE_ID_SIZE.

(** slice indexing as Rust does it: &l[a..b] panics unless a <= b <= len *)
Definition slice (site : N) (l : list N) (a b : nat) : outcome (list N) :=
  if (Nat.leb a b && Nat.leb b (length l))%bool then Val (firstn (b - a) (skipn a l)) else Panic site.

(** <&MsgHdr>::try_from(&[u8]) : first_chunk::<36>() then a cast that cannot fail (alignment 1) *)
Definition msghdr_try_from (frame : list N) : outcome (list N) :=
  if Nat.leb HDR (length frame) then Val (firstn HDR frame) else Err 1.

Definition msgid_try_from (frame : list N) : outcome (list N) :=
  if Nat.leb IDSZ (length frame) then Val (firstn IDSZ frame) else Err 1.

(** MsgHdr::id / ttl / flags on a 36-byte header: each slices and `try_into().unwrap()`s *)
Definition hdr_id (h : list N) : outcome (list N) :=
  obind (slice 11 h 0 IDSZ) (fun s => if Nat.eqb (length s) IDSZ then Val s else Panic 12).
Definition hdr_ttl (h : list N) : outcome N :=
  obind (slice 13 h IDSZ (length h)) (fun rest =>
  obind (slice 14 rest 0 2) (fun s => if Nat.eqb (length s) 2 then Val (of_le s) else Panic 15)).
Definition hdr_flags (h : list N) : outcome N :=
  obind (slice 16 h IDSZ (length h)) (fun rest =>
  obind (slice 17 rest 2 (length rest)) (fun s => if Nat.eqb (length s) 2 then Val (of_le s) else Panic 18)).

(** everything the relay does with an incoming frame before touching its tables *)
Inductive frame_class := FShort | FAsk (id : list N) (ttl : N) | FPublish (id : list N) (ttl : N).

(** Sink::start_send *)
Definition classify_start_send (frame : list N) : outcome frame_class :=
  match msghdr_try_from frame with
  | Val h =>
      obind (hdr_id h) (fun id => obind (hdr_ttl h) (fun ttl =>
        if Nat.eqb (length frame) HDR then Val (FAsk id ttl) else Val (FPublish id ttl)))
  | Err _ => Val FShort            (* MessageSendError *)
  | Panic s => Panic s
  end.

(** SimpleMessageRelay::send -> Inner::send : frames of at most HDR bytes are ignored (after the
    fix: commit; before it `assert!(len > HDR)` panicked while the mutex was held) *)
Definition classify_relay_send (frame : list N) : outcome frame_class :=
  if Nat.leb (length frame) HDR then Val FShort
  else match msghdr_try_from frame with
       | Val h => obind (hdr_id h) (fun id => obind (hdr_ttl h) (fun ttl => Val (FPublish id ttl)))
       | Err _ => Panic 21          (* the `.try_into().unwrap()` in Inner::send *)
       | Panic s => Panic s
       end.
