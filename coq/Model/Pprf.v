(** C06: all-but-one PPRF / GGM tree (crates/sl-oblivious/src/soft_spoken/all_but_one.rs).

    [build_pprf] / [eval_pprf] follow the code loop by loop.  Conventions:
    - byte strings are [list N]; every fixed-size array read ([u8;32] keys, [u8;64] proof values, the
      challenge buffers filled by merlin) is normalised with [fit n] (identity on well-typed data), so the
      model is total and its theorems need no length premises on the oracle or on the inputs;
    - the per-byte loops [for b_i in 0..LAMBDA_C_BYTES] are element-wise and are modelled on whole strings
      ([bxor]); [conditional_assign(&v, choice)] / [ct_ne] are [if] on the compared indices;
    - the accumulator that the code keeps in place in [s_star_i_plus_1[2*y_star+ct_x]] is a separate
      fold accumulator here (it is never read through another index while it is being built);
    - [build_pprf] accumulates into the caller's [t_tilda] ([*t ^= s]); the initial buffer is an input;
      everything else the two functions write is overwritten, not accumulated;
    - the tree depth (number of base OTs per tree) and the number of trees are parameters of the [_gen]
      functions; [build_pprf]/[eval_pprf] instantiate them with SOFT_SPOKEN_K and LAMBDA_C / SOFT_SPOKEN_K. *)
From SL Require Import Lib.Base Lib.Oracle Gen.Params.
Local Open Scope nat_scope.

Notation bytes := (list N) (only parsing).

(* ------------------------------------------------------------------ constants and labels *)
Definition LB : nat := N.to_nat GP.LAMBDA_C_BYTES.              (* 32 *)
Definition LB2 : nat := 2 * LB.                                 (* LAMBDA_C_BYTES * 2 *)
Definition NLB : N := GP.LAMBDA_C_BYTES.
Definition NLB2 : N := (GP.LAMBDA_C_BYTES * 2)%N.
Definition Kdepth : nat := N.to_nat GP.SOFT_SPOKEN_K.
Definition Ntrees : nat := N.to_nat (GP.LAMBDA_C / GP.SOFT_SPOKEN_K)%N.

Definition L_session_id : list N := [115;101;115;115;105;111;110;45;105;100]%N.   (* "session-id" *)
Definition abo_label : list N := label_bytes GP.LABEL_VERSION GP.ALL_BUT_ONE_LABEL_ID.
Definition pprf_label : list N := label_bytes GP.LABEL_VERSION GP.ALL_BUT_ONE_PPRF_LABEL_ID.
Definition hash_label : list N := label_bytes GP.LABEL_VERSION GP.ALL_BUT_ONE_PPRF_HASH_LABEL_ID.
Definition proof_label : list N := label_bytes GP.LABEL_VERSION GP.ALL_BUT_ONE_PPRF_PROOF_LABEL_ID.

Definition err_invalid_proof : N := 1%N.                        (* Err("Invalid proof") *)

(* ------------------------------------------------------------------ byte-string helpers *)
Definition zeros (n : nat) : bytes := repeat 0%N n.
(** a fixed-size array of n bytes initialised from [l] *)
Definition fit (n : nat) (l : bytes) : bytes := firstn n l ++ zeros (n - length l).
Definition bxor (a b : bytes) : bytes := map (fun p => N.lxor (fst p) (snd p)) (combine a b).

Fixpoint upd {A} (i : nat) (v : A) (l : list A) : list A :=
  match l, i with
  | [], _ => []
  | _ :: r, O => v :: r
  | x :: r, S k => x :: upd k v r
  end.

(** utils::ExtractBit::extract_bit on the packed choice bits *)
Definition extract_bit (b : bytes) (idx : nat) : bool := N.testbit (nth (idx / 8) b 0%N) (N.of_nat (idx mod 8)).

Fixpoint evens {A} (l : list A) : list A :=
  match l with x :: _ :: r => x :: evens r | [x] => [x] | [] => [] end.
Fixpoint odds {A} (l : list A) : list A :=
  match l with _ :: y :: r => y :: odds r | _ => [] end.

(** the PPRF message of one tree: struct PPRF { t, s_tilda, t_tilda } *)
Record pprf_msg := { p_t : list (bytes * bytes); p_s_tilda : bytes; p_t_tilda : bytes }.
Definition default_msg : pprf_msg := {| p_t := []; p_s_tilda := []; p_t_tilda := [] |}.

Definition sel {A} (c : bool) (p : A * A) : A := if c then snd p else fst p.
Definition bit_nat (c : bool) : nat := if c then 1 else 0.

Section Pprf.
  Variable H : transcript_oracle.

  (* ---------------------------------------------------------------- transcripts *)
  (** Transcript::new(&ALL_BUT_ONE_LABEL); append_message(b"session-id", session_id) *)
  Definition abo_pre (sid : bytes) : list top := [TInit abo_label; TAppend L_session_id sid].

  (** GGM doubling: one transcript, two consecutive 32-byte challenges with the empty label *)
  Definition ggm_q (sid seed : bytes) (second : bool) : list top :=
    abo_pre sid ++ TAppend pprf_label seed :: TChallenge [] NLB :: (if second then [TChallenge [] NLB] else []).
  Definition ggm_left (sid seed : bytes) : bytes := fit LB (H (ggm_q sid seed false)).
  Definition ggm_right (sid seed : bytes) : bytes := fit LB (H (ggm_q sid seed true)).

  (** per-leaf proof value (64 bytes) *)
  Definition proof_q (sid leaf : bytes) : list top :=
    abo_pre sid ++ [TAppend proof_label leaf; TChallenge [] NLB2].
  Definition leaf_proof (sid leaf : bytes) : bytes := fit LB2 (H (proof_q sid leaf)).

  (** hash of all proof values: append_message(b"", v) for each, challenge under the HASH label *)
  Definition hash_q (sid : bytes) (ps : list bytes) : list top :=
    abo_pre sid ++ map (TAppend []) ps ++ [TChallenge hash_label NLB2].
  Definition proof_hash (sid : bytes) (ps : list bytes) : bytes := fit LB2 (H (hash_q sid ps)).

  (* ---------------------------------------------------------------- sender: one tree *)
  (** s_i_plus_1[2y] , s_i_plus_1[2y+1]  for y in 0..2^i *)
  Definition expand (sid : bytes) (s : list bytes) : list bytes :=
    flat_map (fun x => [ggm_left sid x; ggm_right sid x]) s.

  (** levels i = 1 .. K-1: expansion and the two correction words
      t[i-1][b] = rho_b  ^  XOR_y s_{i+1}[2y+b]   (assignment followed by ^= in ascending y) *)
  Fixpoint build_levels (sid : bytes) (s : list bytes) (ks : list (bytes * bytes))
    : list bytes * list (bytes * bytes) :=
    match ks with
    | [] => (s, [])
    | (r0, r1) :: ks' =>
      let s' := expand sid s in
      let t0 := fold_left bxor (evens s') (fit LB r0) in
      let t1 := fold_left bxor (odds s') (fit LB r1) in
      let '(leaves, ts) := build_levels sid s' ks' in
      (leaves, (t0, t1) :: ts)
    end.

  (** [ks]: the K base-OT key pairs (rho_0, rho_1) of this tree; [tt0]: initial content of out.t_tilda.
      Result: the leaves (SenderOTSeed.otp_enc_keys[j]) and the message of the tree. *)
  Definition build_tree (sid : bytes) (ks : list (bytes * bytes)) (tt0 : bytes) : list bytes * pprf_msg :=
    let k0 := hd ([], []) ks in
    let '(leaves, ts) := build_levels sid [fit LB (fst k0); fit LB (snd k0)] (tl ks) in
    let proofs := map (leaf_proof sid) leaves in
    (leaves, {| p_t := ts;
                p_s_tilda := proof_hash sid proofs;
                p_t_tilda := fold_left bxor proofs (fit LB2 tt0) |}).

  (* ---------------------------------------------------------------- receiver: one tree *)
  (** one iteration of [for i in 1..SOFT_SPOKEN_K]: [s] = s_star_i (2^i entries), [c] = the choice bit of
      base OT j*K+i, [tw] = out.t[i-1], [F] = otp_dec_keys[j*K+i] *)
  Definition eval_level (sid : bytes) (s : list bytes) (ystar : nat) (c : bool) (tw : bytes * bytes) (F : bytes)
    : list bytes * nat :=
    let s1 := flat_map (fun ysy : nat * bytes =>
                 let (y, sy) := ysy in
                 if Nat.eqb y ystar then [zeros LB; zeros LB]            (* choice = y.ct_ne(&y_star) is false *)
                 else [ggm_left sid sy; ggm_right sid sy])
               (combine (seq 0 (length s)) s) in
    let ct_x := bit_nat c in                                            (* x_star_i ^ 1 *)
    let x_star_i := bit_nat (negb c) in                                 (* 1 ^ choice bit *)
    let acc0 := bxor (fit LB (sel c tw)) (fit LB F) in                  (* out.t[i-1][ct_x] ^ big_f_i_star *)
    let acc := fold_left (fun a y => if Nat.eqb y ystar then a
                                     else bxor a (nth (2 * y + ct_x) s1 (zeros LB)))
                         (seq 0 (length s)) acc0 in
    (upd (2 * ystar + ct_x) acc s1, 2 * ystar + x_star_i).

  Fixpoint eval_levels (sid : bytes) (s : list bytes) (ystar : nat)
           (cs : list bool) (fs : list bytes) (ts : list (bytes * bytes)) : list bytes * nat :=
    match cs with
    | [] => (s, ystar)
    | c :: cs' =>
      let '(s', y') := eval_level sid s ystar c (hd ([], []) ts) (hd [] fs) in
      eval_levels sid s' y' cs' (tl fs) (tl ts)
    end.

  (** the values hashed by the verifier: s_tilda_star[y] for y in 0..Q (slot y_star rebuilt from t_tilda) *)
  Definition proof_view (sid : bytes) (s : list bytes) (ystar : nat) (tt : bytes) : list bytes :=
    let ps := map (fun ysy : nat * bytes =>
                 let (y, sy) := ysy in
                 if Nat.eqb y ystar then zeros LB2 else leaf_proof sid sy)
              (combine (seq 0 (length s)) s) in
    let acc := fold_left (fun a y => if Nat.eqb y ystar then a else bxor a (nth y ps (zeros LB2)))
                         (seq 0 (length s)) (fit LB2 tt) in
    upd ystar acc ps.

  (** everything [eval_pprf] computes for one tree before the comparison:
      (y_star, s_star_i after the last level, s_tilda_digest).
      [cs]: the K choice bits of the tree, [fs]: the K received keys. *)
  Definition eval_tree_core (sid : bytes) (cs : list bool) (fs : list bytes) (m : pprf_msg)
    : nat * list bytes * bytes :=
    let c0 := hd false cs in
    let k0 := fit LB (hd [] fs) in
    let s0 := if c0 then [zeros LB; k0] else [k0; zeros LB] in         (* s_star_i[x_star_0] = key *)
    let y0 := bit_nat (negb c0) in                                     (* y_star = x_star_0 ^ 1 *)
    let '(s, ystar) := eval_levels sid s0 y0 (tl cs) (tl fs) (p_t m) in
    (ystar, s, proof_hash sid (proof_view sid s ystar (p_t_tilda m))).

  Definition eval_tree (sid : bytes) (cs : list bool) (fs : list bytes) (m : pprf_msg)
    : outcome (nat * list bytes) :=
    let '(ystar, s, digest) := eval_tree_core sid cs fs m in
    if bytes_eqb digest (p_s_tilda m) then Val (ystar, s) else Err err_invalid_proof.

  Fixpoint eval_trees (sid : bytes) (inp : list (list bool * list bytes * pprf_msg))
    : outcome (list (nat * list bytes)) :=
    match inp with
    | [] => Val []
    | (cs, fs, m) :: r =>
      obind (eval_tree sid cs fs m) (fun x => obind (eval_trees sid r) (fun xs => Val (x :: xs)))
    end.

  (* ---------------------------------------------------------------- all trees *)
  (** base-OT instances j*K .. j*K+K-1 *)
  Definition tree_slice {A} (K j : nat) (l : list A) : list A := firstn K (skipn (j * K) l).
  Definition tree_bits (K j : nat) (choice_bits : bytes) : list bool :=
    map (extract_bit choice_bits) (seq (j * K) K).

  Definition build_pprf_gen (K n : nat) (sid : bytes) (sender_keys : list (bytes * bytes)) (tt_init : list bytes)
    : list (list bytes * pprf_msg) :=
    map (fun j => build_tree sid (tree_slice K j sender_keys) (nth j tt_init [])) (seq 0 n).

  Definition eval_inputs (K n : nat) (choice_bits : bytes) (recv_keys : list bytes) (msg : list pprf_msg)
    : list (list bool * list bytes * pprf_msg) :=
    map (fun j => (tree_bits K j choice_bits, tree_slice K j recv_keys, nth j msg default_msg)) (seq 0 n).

  Definition eval_pprf_gen (K n : nat) (sid : bytes) (choice_bits : bytes) (recv_keys : list bytes)
             (msg : list pprf_msg) : outcome (list (nat * list bytes)) :=
    eval_trees sid (eval_inputs K n choice_bits recv_keys msg).

  (** [sender_keys]: the LAMBDA_C pairs (rho_0, rho_1) of endemic_ot::SenderOutput;
      [tt_init]: the initial t_tilda of every tree (the caller's PPRFOutput buffer).
      Result per tree: (SenderOTSeed.otp_enc_keys[j], PPRFOutput.0[j]). *)
  Definition build_pprf := build_pprf_gen Kdepth Ntrees.
  (** Result: Err "Invalid proof" or per tree (random_choices[j], otp_dec_keys[j]). *)
  Definition eval_pprf := eval_pprf_gen Kdepth Ntrees.

  (* ---------------------------------------------------------------- message surgery, adversary *)
  Definition map_t (f : bytes -> bytes) (level : nat) (side : bool) (m : pprf_msg) : pprf_msg :=
    {| p_t := match nth_error (p_t m) level with
              | Some (a, b) => upd level (if side then (a, f b) else (f a, b)) (p_t m)
              | None => p_t m
              end;
       p_s_tilda := p_s_tilda m; p_t_tilda := p_t_tilda m |}.
  Definition set_s_tilda (v : bytes) (m : pprf_msg) : pprf_msg :=
    {| p_t := p_t m; p_s_tilda := v; p_t_tilda := p_t_tilda m |}.
  Definition set_t_tilda (v : bytes) (m : pprf_msg) : pprf_msg :=
    {| p_t := p_t m; p_s_tilda := p_s_tilda m; p_t_tilda := v |}.

  (** the receiver keys a sender expects for guessed choice bits [g] *)
  Definition keys_for (ks : list (bytes * bytes)) (g : list bool) : list bytes :=
    map (fun kc : (bytes * bytes) * bool => sel (snd kc) (fst kc)) (combine ks g).

  (** Calibrated adversarial sender for one tree: honest build, correction word t[level][side] ^= delta,
      then s_tilda re-derived by simulating the receiver for the guessed choice bits [g] of this tree. *)
  Definition adv_tree (sid : bytes) (ks : list (bytes * bytes)) (tt0 : bytes)
             (level : nat) (side : bool) (delta : bytes) (g : list bool) : list bytes * pprf_msg :=
    let '(leaves, m) := build_tree sid ks tt0 in
    let m1 := map_t (fun w => bxor w (fit LB delta)) level side m in
    let '(_, _, digest) := eval_tree_core sid g (keys_for ks g) m1 in
    (leaves, set_s_tilda digest m1).

  Definition adv_pprf_gen (K n : nat) (sid : bytes) (sender_keys : list (bytes * bytes)) (tt_init : list bytes)
             (tree level : nat) (side : bool) (delta : bytes) (g : list bool) : list (list bytes * pprf_msg) :=
    map (fun j => if Nat.eqb j tree
                  then adv_tree sid (tree_slice K j sender_keys) (nth j tt_init []) level side delta g
                  else build_tree sid (tree_slice K j sender_keys) (nth j tt_init [])) (seq 0 n).
  Definition adv_pprf := adv_pprf_gen Kdepth Ntrees.
End Pprf.

(* ------------------------------------------------------------------ wire / memory layout *)
(** bytemuck::bytes_of(&PPRF): t[0][0] t[0][1] ... t[K-2][1] s_tilda t_tilda *)
Definition msg_to_bytes (m : pprf_msg) : bytes :=
  flat_map (fun p : bytes * bytes => fst p ++ snd p) (p_t m) ++ p_s_tilda m ++ p_t_tilda m.
Definition msgs_to_bytes (ms : list pprf_msg) : bytes := flat_map msg_to_bytes ms.

Fixpoint chunks (fuel n : nat) (l : bytes) : list bytes :=
  match fuel with
  | O => []
  | S f => firstn n l :: chunks f n (skipn n l)
  end.
Fixpoint pairs_of {A} (l : list A) (d : A) : list (A * A) :=
  match l with x :: y :: r => (x, y) :: pairs_of r d | [x] => [(x, d)] | [] => [] end.

Definition msg_size (K : nat) : nat := (K - 1) * 2 * LB + LB2 + LB2.
Definition msg_of_bytes (K : nat) (b : bytes) : pprf_msg :=
  let tb := firstn ((K - 1) * 2 * LB) b in
  let r := skipn ((K - 1) * 2 * LB) b in
  {| p_t := pairs_of (chunks ((K - 1) * 2) LB tb) [];
     p_s_tilda := firstn LB2 r;
     p_t_tilda := firstn LB2 (skipn LB2 r) |}.
Definition msgs_of_bytes (K n : nat) (b : bytes) : list pprf_msg :=
  map (msg_of_bytes K) (chunks n (msg_size K) b).

(** endemic_ot::SenderOutput as rho_0 || rho_1 per instance; ReceiverOutput.otp_dec_keys as 32-byte blocks *)
Definition sender_keys_of_bytes (n : nat) (b : bytes) : list (bytes * bytes) := pairs_of (chunks (2 * n) LB b) [].
Definition recv_keys_of_bytes (n : nat) (b : bytes) : list bytes := chunks n LB b.

(** SenderOTSeed / ReceiverOTSeed as bytes (bytemuck layout): all leaves; all y_star as u8 then all leaves *)
Definition sender_seed_bytes (r : list (list bytes * pprf_msg)) : bytes := flat_map (fun x => concat (fst x)) r.
Definition recv_seed_bytes (r : list (nat * list bytes)) : bytes :=
  map (fun x => (N.of_nat (fst x) mod 256)%N) r ++ flat_map (fun x => concat (snd x)) r.
