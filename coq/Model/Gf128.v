(** Specification of multiplication in GF(2)[x]/(x^128+x^7+x^2+x+1) on the integer
    encoding "bit i of the integer = coefficient of x^i" (so bit i of byte j of the
    little-endian byte string is the coefficient of x^(8j+i)).  Textbook
    shift-and-add, independent of the comb/reduction structure of the code. *)
From SL Require Import Lib.Base.
Local Open Scope N_scope.

Definition gf_poly_low : N := 135.          (* x^7 + x^2 + x + 1 *)
Definition two128 : N := 2 ^ 128.

(** multiply by x and reduce *)
Definition xtime (a : N) : N :=
  let d := 2 * a in
  if d <? two128 then d else N.lxor (d - two128) gf_poly_low.

(** [gf_mul_fuel n a b] = sum over the low n bits i of b of a * x^i *)
Fixpoint gf_mul_fuel (n : nat) (a b : N) : N :=
  match n with
  | O => 0
  | S k => N.lxor (if N.odd b then a else 0) (gf_mul_fuel k (xtime a) (N.div2 b))
  end.

Definition gf_spec (a b : N) : N := gf_mul_fuel 128 a b.

Definition bytes16 (l : list N) : bool := Nat.eqb (length l) 16 && bytes_ok l.

(** the expected result of the implementation on byte strings *)
Definition gf_spec_bytes (a b : list N) : list N := to_le 16 (gf_spec (of_le a) (of_le b)).

(** monomial x^i as 16 bytes *)
Definition mono (i : nat) : list N := to_le 16 (N.shiftl 1 (N.of_nat i)).
