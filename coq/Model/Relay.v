(** Executable model of the in-memory message relay
      crates/sl-mpc-mate/src/coord/simple.rs   (SimpleMessageRelay, MessageRelay, Inner)
    and of the 36-byte header codec
      crates/sl-mpc-mate/src/message.rs        (MsgHdr::{encode,id,ttl,flags}, allocate_message, AskMsg).
    Properties C15 and C16.  NO proofs here (Proofs/Relay*.v).

    Conventions
    - a byte is an [N] below 256, a frame is a [list N]; a message id is the list of its 32 bytes;
    - time is an [N]: nanoseconds since the base of the (virtual) clock; [Instant + Duration] is [+]
      (the overflow panic of [Instant + Duration] is out of reach of u16-second TTLs and not modelled);
    - [HashMap<MsgId, MsgEntry>] is an association list that never holds two pairs with the same key
      (every insertion removes the key first); its iteration order is never observed ([messages()] is
      compared as a set);
    - [BinaryHeap<Expire>] is a list; [pop_min] returns an entry with the smallest [when] (the FIRST such
      entry of the list: the real pop order among equal keys is unspecified, and Proofs/RelayCleanup.v
      proves that the result of [cleanup] does not depend on it);
    - the [mpsc] channel of a connection and the [queue: Vec<Vec<u8>>] of immediate replies are two lists of
      (connection, frame) pairs shared by all connections: [queue] newest first ([Vec::pop] is LIFO),
      [chan] oldest first.  The channel capacity (100) is not modelled: a spawned [tx.send(msg).await]
      that finds the channel full completes as soon as the receiver drains, so the frames receivable after
      a drain-until-pending are the same;
    - the expiry stored in [Ready] is GHOST state: the Rust [MsgEntry::Ready(Vec<u8>)] does not store it and
      no function below reads it (theorem [ghost_not_read], Proofs/RelaySpec.v / Props/C15.v); it names "the
      message's own expiry" in the invariants of C16. *)
From SL Require Import Lib.Base Gen.Params.
Local Open Scope N_scope.

(** * Header codec (message.rs) *)

Definition ID_SIZE : nat := N.to_nat GP.MSG_MESSAGE_ID_SIZE.          (* MESSAGE_ID_SIZE = 32 *)
Definition HDR_SIZE : nat := N.to_nat GP.MSG_MESSAGE_HEADER_SIZE.     (* MESSAGE_HEADER_SIZE = 32 + 2 + 2 *)

Definition time := N.
Definition conn := N.
Definition msgid := list N.
Definition frame := list N.

Definition as_u32 (x : N) : N := x mod 2 ^ 32.
Definition as_u16 (x : N) : N := x mod 2 ^ 16.

(** [MsgHdr::encode(hdr, id, ttl: u32, flags: u16)]:
      let data: u32 = (ttl & 0xffff) | (flags as u32) << 16;
      hdr[..32] = id;  hdr[32..] = data.to_le_bytes() *)
Definition hdr_encode (id : msgid) (ttl flags : N) : list N :=
  let data := as_u32 (N.lor (N.land (as_u32 ttl) 0xffff) (N.shiftl (as_u16 flags) 16)) in
  id ++ to_le 4 data.

(** [allocate_message(id, ttl, flags, payload)] and [AskMsg::allocate(id, ttl)] *)
Definition allocate_message (id : msgid) (ttl flags : N) (payload : list N) : frame :=
  hdr_encode id ttl flags ++ payload.
Definition ask_allocate (id : msgid) (ttl : N) : frame := allocate_message id ttl 0 [].

(** [<&MsgHdr>::try_from(&[u8])]: succeeds iff at least 36 bytes; the accessors read the first 36. *)
Definition hdr_ok (f : frame) : bool := Nat.leb HDR_SIZE (length f).
Definition hdr_id (f : frame) : msgid := firstn ID_SIZE f.
(** [ttl()]: u16 little endian at offset 32, in seconds *)
Definition hdr_ttl_secs (f : frame) : N := of_le (firstn 2 (skipn ID_SIZE f)).
(** [flags()]: u16 little endian at offset 34 *)
Definition hdr_flags (f : frame) : N := of_le (firstn 2 (skipn 2 (skipn ID_SIZE f))).
(** [Duration::from_secs(secs as u64)] in nanoseconds *)
Definition NANOS : N := 1000000000.
Definition hdr_ttl (f : frame) : N := hdr_ttl_secs f * NANOS.

(** * Relay state (simple.rs) *)

Inductive kind := KAsk | KPub.
Definition kind_eqb (a b : kind) : bool :=
  match a, b with KAsk, KAsk => true | KPub, KPub => true | _, _ => false end.

(** [MsgEntry]; the [exp] of [Ready] is ghost (see above). [Waiters] holds one [conn] per [tx.clone()]. *)
Inductive entry :=
| Ready (exp : time) (m : frame)
| Waiters (exp : time) (l : list conn).

(** [Expire(when, id, kind)] *)
Definition hentry : Type := (time * msgid * kind)%type.
Definition h_when (e : hentry) : time := fst (fst e).
Definition h_id (e : hentry) : msgid := snd (fst e).
Definition h_kind (e : hentry) : kind := snd e.

Record state := mkState {
  msgs  : list (msgid * entry);      (* Inner.messages *)
  heap  : list hentry;               (* Inner.expire *)
  queue : list (conn * frame);       (* MessageRelay.queue of every connection, newest first *)
  chan  : list (conn * frame);       (* frames sent into the mpsc channel of a connection, oldest first *)
}.

Definition init : state := mkState [] [] [] [].

Definition id_eqb (a b : msgid) : bool := bytes_eqb a b.

(** finite map operations *)
Fixpoint lookup (k : msgid) (m : list (msgid * entry)) : option entry :=
  match m with
  | [] => None
  | (k', v) :: r => if id_eqb k k' then Some v else lookup k r
  end.
Fixpoint remove (k : msgid) (m : list (msgid * entry)) : list (msgid * entry) :=
  match m with
  | [] => []
  | (k', v) :: r => if id_eqb k k' then remove k r else (k', v) :: remove k r
  end.
Definition insert (k : msgid) (v : entry) (m : list (msgid * entry)) : list (msgid * entry) :=
  (k, v) :: remove k m.

(** [BinaryHeap::peek/pop] with [Ord for Expire] = reversed order of [when]: an entry with the smallest
    [when], and the remaining entries (in their original relative order). *)
Fixpoint pop_min (h : list hentry) : option (hentry * list hentry) :=
  match h with
  | [] => None
  | e :: r =>
      match pop_min r with
      | None => Some (e, [])
      | Some (m, r') => if h_when e <=? h_when m then Some (e, r) else Some (m, e :: r')
      end
  end.

(** body of the [while let Some(Expire(when,id,kind)) = peek()] loop of [Inner::cleanup] after the
    [when > now] test: remove the map entry iff its kind matches (and, for waiters, their stored maximum
    expiry has passed) *)
Definition expire_entry (now : time) (e : hentry) (m : list (msgid * entry)) : list (msgid * entry) :=
  match lookup (h_id e) m with
  | Some (Ready _ _) => if kind_eqb (h_kind e) KPub then remove (h_id e) m else m
  | Some (Waiters exp _) => if kind_eqb (h_kind e) KAsk && (exp <=? now) then remove (h_id e) m else m
  | None => m
  end.

Fixpoint cleanup_loop (fuel : nat) (now : time) (m : list (msgid * entry)) (h : list hentry)
  : list (msgid * entry) * list hentry :=
  match fuel with
  | O => (m, h)
  | S fuel' =>
      match pop_min h with
      | None => (m, h)
      | Some (e, rest) =>
          if now <? h_when e then (m, h)                               (* if *when > now { break } *)
          else cleanup_loop fuel' now (expire_entry now e m) rest      (* ...; self.expire.pop() *)
      end
  end.

(** [Inner::cleanup(now)]; the loop pops at most [length heap] entries *)
Definition cleanup (now : time) (s : state) : state :=
  let '(m, h) := cleanup_loop (length (heap s)) now (msgs s) (heap s) in
  mkState m h (queue s) (chan s).

(** [Inner::send(msg)] with the clock reading [now] *)
Definition inner_send (f : frame) (now : time) (s : state) : state :=
  if Nat.leb (length f) HDR_SIZE then s                                 (* ignored, clock not read *)
  else
    let expire := now + hdr_ttl f in
    let id := hdr_id f in
    let k := if Nat.eqb (length f) HDR_SIZE then KAsk else KPub in
    let s1 := cleanup now s in
    match lookup id (msgs s1) with
    | Some (Waiters _ l) =>
        (* wake up all waiters (one spawned tx.send per waiter), replace by Ready, cleanup_later *)
        mkState (insert id (Ready expire f) (msgs s1)) ((expire, id, k) :: heap s1)
                (queue s1) (chan s1 ++ map (fun c => (c, f)) l)
    | Some (Ready _ _) => s1                                            (* ignore dups *)
    | None =>
        mkState (insert id (Ready expire f) (msgs s1)) ((expire, id, k) :: heap s1) (queue s1) (chan s1)
    end.

(** [Inner::recv(id, ttl, tx)] called from [start_send] of connection [c]; a returned message is pushed
    on the connection's queue *)
Definition inner_recv (c : conn) (id : msgid) (ttl : N) (now : time) (s : state) : state :=
  let expire := now + ttl in
  let s1 := cleanup now s in
  match lookup id (msgs s1) with
  | Some (Ready _ m) => mkState (msgs s1) (heap s1) ((c, m) :: queue s1) (chan s1)
  | Some (Waiters prev l) =>
      mkState (insert id (Waiters (N.max expire prev) (l ++ [c])) (msgs s1))
              ((expire, id, KAsk) :: heap s1) (queue s1) (chan s1)
  | None =>
      mkState (insert id (Waiters expire [c]) (msgs s1)) ((expire, id, KAsk) :: heap s1) (queue s1) (chan s1)
  end.

(** * Operations and observations *)

Inductive op :=
| OSend (c : conn) (f : frame) (t : time)     (* Sink::start_send on connection c, clock = t *)
| ORelaySend (f : frame) (t : time)           (* SimpleMessageRelay::send, clock = t *)
| ODrain (c : conn)                           (* poll the Stream of c until Pending (tasks have run) *)
| OMessages.                                  (* SimpleMessageRelay::messages() *)

Inductive obs :=
| ObsSend (ok : bool)                         (* Result of start_send: Ok / Err(MessageSendError) *)
| ObsDrain (c : conn) (l : list frame)        (* frames received, queue (LIFO) then channel (FIFO) *)
| ObsMsgs (l : list msgid).                   (* key set of the store *)

Definition on_conn (c : conn) (x : conn * frame) : bool := fst x =? c.
Definition pending (c : conn) (s : state) : list frame :=
  map snd (filter (on_conn c) (queue s)) ++ map snd (filter (on_conn c) (chan s)).
Definition not_on_conn (c : conn) (x : conn * frame) : bool := negb (on_conn c x).

Definition step (s : state) (o : op) : state * list obs :=
  match o with
  | OSend c f t =>
      if negb (hdr_ok f) then (s, [ObsSend false])                          (* try_into fails: Err *)
      else if Nat.eqb (length f) HDR_SIZE
      then (inner_recv c (hdr_id f) (hdr_ttl f) t s, [ObsSend true])
      else (inner_send f t s, [ObsSend true])
  | ORelaySend f t => (inner_send f t s, [])
  | ODrain c =>
      (mkState (msgs s) (heap s) (filter (not_on_conn c) (queue s)) (filter (not_on_conn c) (chan s)),
       [ObsDrain c (pending c s)])
  | OMessages => (s, [ObsMsgs (map fst (msgs s))])
  end.

(** histories: final state by [fold_left], observations per operation *)
Definition exec (s : state) (h : list op) : state := fold_left (fun s o => fst (step s o)) h s.

Fixpoint trace (s : state) (h : list op) : list (list obs) :=
  match h with
  | [] => []
  | o :: r => snd (step s o) :: trace (fst (step s o)) r
  end.

(** the clock read by an operation, if it reads it *)
Definition op_time (o : op) : option time :=
  match o with
  | OSend _ _ t => Some t
  | ORelaySend _ t => Some t
  | _ => None
  end.

(** [clock_mono t0 h]: the clock values carried by the operations of [h] never decrease, starting at [t0]
    ([Instant] is monotonic) *)
Fixpoint clock_mono (t0 : time) (h : list op) : Prop :=
  match h with
  | [] => True
  | o :: r => match op_time o with
              | Some t => t0 <= t /\ clock_mono t r
              | None => clock_mono t0 r
              end
  end.

(** the time of the last clock-carrying operation *)
Fixpoint last_time (t0 : time) (h : list op) : time :=
  match h with
  | [] => t0
  | o :: r => match op_time o with Some t => last_time t r | None => last_time t0 r end
  end.
