(** Executable model of crates/sl-mpc-mate/src/matrix.rs (C20; also used by C13).

    A matrix is a list of rows, [mat := list (list Z)]; a scalar of the field is its canonical
    representative [0 <= x < q] (what [k256::Scalar] stores); [q] is a parameter of every function
    (the secp256k1 group order in the correspondence, an arbitrary prime in the theorems).
    Every Rust indexing operation is an explicit [mget]/[mset] that yields [Panic] when out of
    bounds, so ragged input is modelled, too.  NO proofs in this file (see Proofs/Matrix*.v). *)
From SL Require Import Lib.Base.
Local Open Scope Z_scope.

Definition mat : Type := list (list Z).

(** * Scalars modulo q *)
Definition zq_add (q a b : Z) : Z := (a + b) mod q.
Definition zq_sub (q a b : Z) : Z := (a - b) mod q.
Definition zq_neg (q a : Z) : Z := (- a) mod q.
Definition zq_mul (q a b : Z) : Z := (a * b) mod q.
Definition zq_is_zero (a : Z) : bool := a =? 0.
(* Field::pow with a small exponent *)
Fixpoint zq_pow (q a : Z) (e : nat) : Z :=
  match e with O => 1 | S e' => zq_mul q a (zq_pow q a e') end.

(** [Scalar::invert]: extended Euclid on (q, a), with the coefficient of [a] only.
    Invariant r_i = s_i * a (mod q).  Fuel 2*log2_up q is enough because the product of two
    consecutive remainders at least halves in every step (Proofs/MatrixInv.v).
    Result: [None] exactly when gcd(a, q) <> 1 -- for prime q exactly when a = 0, which is the
    behaviour of [k256::Scalar::invert] ([CtOption] none iff zero). *)
Fixpoint egcd (fuel : nat) (r0 s0 r1 s1 : Z) : Z * Z :=
  match fuel with
  | O => (r0, s0)
  | S f =>
      if r1 =? 0 then (r0, s0)
      else let k := r0 / r1 in egcd f r1 s1 (r0 - k * r1) (s0 - k * s1)
  end.

Definition zq_invert (q a : Z) : option Z :=
  if a =? 0 then None
  else
    let '(g, s) := egcd (Z.to_nat (2 * Z.log2_up q)) q 0 a 1 in
    if g =? 1 then Some (s mod q) else None.

(** * Error codes and panic sites *)
Definition E_NOT_SQUARE : N := 1.   (* Err("Not a square matrix") *)
Definition E_NO_INVERSE : N := 2.   (* Err("Modular inverse does not exist while computing determinant, ...") *)
Definition P_INDEX : N := 1.        (* index out of bounds / split_at_mut mid > len / swap out of bounds *)
Definition P_EXPECT_DET : N := 2.   (* .expect("Error while finding det") *)
Definition P_UNWRAP_INV : N := 3.   (* determinant.invert().unwrap() on a zero determinant *)
Definition P_EXPECT_MINOR : N := 4. (* .expect("Error while finding det for minor, ...") *)
Definition P_OVERFLOW : N := 5.     (* len - 1 with len = 0 (overflow-checks) *)

(** * Indexing *)
Definition mget (m : mat) (i j : nat) : outcome Z :=
  match nth_error m i with
  | None => Panic P_INDEX
  | Some r => match nth_error r j with None => Panic P_INDEX | Some x => Val x end
  end.

Fixpoint list_set {A} (l : list A) (i : nat) (x : A) : list A :=
  match l, i with
  | [], _ => []
  | _ :: r, O => x :: r
  | y :: r, S i' => y :: list_set r i' x
  end.

Definition mset (m : mat) (i j : nat) (x : Z) : outcome mat :=
  match nth_error m i with
  | None => Panic P_INDEX
  | Some r => if (j <? length r)%nat then Val (list_set m i (list_set r j x)) else Panic P_INDEX
  end.

(* matrix.swap(i, r) *)
Definition swap_rows (m : mat) (i r : nat) : outcome mat :=
  match nth_error m i, nth_error m r with
  | Some ri, Some rr => Val (list_set (list_set m i rr) r ri)
  | _, _ => Panic P_INDEX
  end.

(** Loops: [for a in l { s = f(s, a)? }] *)
Fixpoint ofold {S A} (f : S -> A -> outcome S) (l : list A) (s : S) : outcome S :=
  match l with
  | [] => Val s
  | a :: r => obind (f s a) (ofold f r)
  end.

Fixpoint omapi {A B} (f : nat -> A -> outcome B) (i : nat) (l : list A) : outcome (list B) :=
  match l with
  | [] => Val []
  | a :: r => obind (f i a) (fun b => obind (omapi f (S i) r) (fun bs => Val (b :: bs)))
  end.

(* the range (i+1)..rows *)
Definition range_after (i rows : nat) : list nat := seq (i + 1) (rows - (i + 1)).

(** * mod_bareiss_determinant *)

(* for m in (i+1)..rows { if !matrix[m][i].is_zero() { ...; break } } : first row with a non-zero entry *)
Fixpoint find_pivot (mx : mat) (i : nat) (cands : list nat) : outcome (option nat) :=
  match cands with
  | [] => Val None
  | r :: rest =>
      obind (mget mx r i) (fun x =>
        if zq_is_zero x then find_pivot mx i rest else Val (Some r))
  end.

(* "Swap rows if the diagonal element is zero" *)
Definition pivot (q : Z) (rows i : nat) (mx : mat) (sign : Z) : outcome (mat * Z) :=
  obind (mget mx i i) (fun d =>
    if zq_is_zero d then
      obind (find_pivot mx i (range_after i rows)) (fun o =>
        match o with
        | None => Val (mx, sign)
        | Some r => obind (swap_rows mx i r) (fun mx' => Val (mx', zq_neg q sign))
        end)
    else Val (mx, sign)).

(** What [if i != 0 { let inv = matrix[i-1][i-1].invert(); if inv.is_none() { return Err }; matrix[j][k] *= inv }]
    does in step [i].  [matrix[i-1][i-1]] is not written during step [i] (all writes go to [j][k] with
    j, k > i) and was read successfully in step i-1, so [invert()] has the same argument in every
    iteration of the j/k loops; the model evaluates it once per step (a 256-bit inversion is the
    expensive operation under vm_compute) and applies the result at the place where the code does. *)
Inductive scale : Type := NoScale | NoInverse | ScaleBy (inv : Z).

Definition prev_scale (q : Z) (i : nat) (mx : mat) : outcome scale :=
  if (i =? 0)%nat then Val NoScale
  else obind (mget mx (i - 1) (i - 1)) (fun p =>
         match zq_invert q p with None => Val NoInverse | Some v => Val (ScaleBy v) end).

(* body of the k loop *)
Definition elim_cell (q : Z) (i : nat) (sc : scale) (mx : mat) (j k : nat) : outcome mat :=
  obind (mget mx j k) (fun mjk =>
  obind (mget mx i i) (fun mii =>
  let jki := zq_mul q mjk mii in
  obind (mget mx j i) (fun mji =>
  obind (mget mx i k) (fun mik =>
  let jik := zq_mul q mji mik in
  obind (mset mx j k (zq_sub q jki jik)) (fun mx1 =>
  match sc with
  | NoScale => Val mx1
  | NoInverse => Err E_NO_INVERSE
  | ScaleBy inv => obind (mget mx1 j k) (fun x => mset mx1 j k (zq_mul q x inv))
  end))))).

Definition eliminate (q : Z) (rows i : nat) (sc : scale) (mx : mat) : outcome mat :=
  ofold (fun mx j => ofold (fun mx k => elim_cell q i sc mx j k) (range_after i rows) mx)
        (range_after i rows) mx.

(* for i in 0..(rows-1) { ... } ; Ok(matrix[rows-1][rows-1] * sign) *)
Fixpoint bareiss_steps (q : Z) (rows : nat) (is : list nat) (mx : mat) (sign : Z) : outcome Z :=
  match is with
  | [] => obind (mget mx (rows - 1) (rows - 1)) (fun x => Val (zq_mul q x sign))
  | i :: is' =>
      obind (pivot q rows i mx sign) (fun '(mx1, sign1) =>
      obind (mget mx1 i i) (fun p =>
      if zq_is_zero p then Val 0
      else
        obind (prev_scale q i mx1) (fun sc =>
        obind (eliminate q rows i sc mx1) (fun mx2 =>
        bareiss_steps q rows is' mx2 sign1))))
  end.

Definition bareiss (q : Z) (m : mat) (rows : nat) : outcome Z :=
  if (rows =? 0)%nat && (match m with [] => true | _ => false end) then Val 1
  else if negb (length m =? rows)%nat then Err E_NOT_SQUARE
  else
    match m with
    | [] => Panic P_INDEX                      (* matrix[0]; unreachable: len = rows = 0 returned above *)
    | r0 :: _ =>
        if negb (length r0 =? rows)%nat then Err E_NOT_SQUARE
        else bareiss_steps q rows (seq 0 (rows - 1)) m 1
    end.

(** * matrix_minor, transpose *)
Fixpoint remove_nth {A} (i : nat) (l : list A) : list A :=
  match l, i with
  | [], _ => []
  | _ :: r, O => r
  | x :: r, S i' => x :: remove_nth i' r
  end.

Definition matrix_minor (m : mat) (i j : nat) : mat := map (remove_nth j) (remove_nth i m).

(* core::mem::swap(&mut v[n][m], &mut v[m][n]) through split_at_mut(n+1) *)
Definition swap_cell (v : mat) (n m : nat) : outcome mat :=
  if (n + 1 <=? length v)%nat then
    obind (mget v n m) (fun a =>
    obind (mget v m n) (fun b =>
    obind (mset v n m b) (fun v1 => mset v1 m n a)))
  else Panic P_INDEX.

Definition transpose (v : mat) : outcome mat :=
  match v with
  | [] => Panic P_INDEX
  | r0 :: _ =>
      let len := length r0 in
      if (len =? 0)%nat then Panic P_OVERFLOW
      else
        ofold (fun v n =>
                 if (n + 1 <=? length v)%nat then
                   ofold (fun v m => swap_cell v n m) (range_after n len) v
                 else Panic P_INDEX)
              (seq 0 (len - 1)) v
  end.

(** * matrix_inverse *)
Definition expect_det {A} (site : N) (x : outcome A) : outcome A :=
  match x with Err _ => Panic site | o => o end.

Definition cofactor_cell (q : Z) (m : mat) (r c : nat) : outcome Z :=
  let minor := matrix_minor m r c in
  let e := zq_pow q (zq_sub q 0 1) (r + c) in
  obind (expect_det P_EXPECT_MINOR (bareiss q minor (length minor))) (fun d => Val (zq_mul q e d)).

Definition cofactors (q : Z) (m : mat) : outcome mat :=
  omapi (fun r row => omapi (fun c _ => cofactor_cell q m r c) 0 row) 0 m.

Definition matrix_inverse (q : Z) (m : mat) (rows : nat) : outcome mat :=
  obind (expect_det P_EXPECT_DET (bareiss q m rows)) (fun det =>
  match zq_invert q det with
  | None => Panic P_UNWRAP_INV
  | Some dinv =>
      let n := length m in
      let minus_one := zq_sub q 0 1 in
      if (n =? 2)%nat then
        obind (mget m 1 1) (fun m11 =>
        obind (mget m 0 1) (fun m01 =>
        obind (mget m 1 0) (fun m10 =>
        obind (mget m 0 0) (fun m00 =>
        Val [[zq_mul q m11 dinv; zq_mul q (zq_mul q minus_one m01) dinv];
             [zq_mul q (zq_mul q minus_one m10) dinv; zq_mul q m00 dinv]]))))
      else
        obind (cofactors q m) (fun cof =>
        obind (transpose cof) (fun t =>
        Val (map (map (fun x => zq_mul q x dinv)) t)))
  end).

(** * Matrix product and identity on lists (used in statements and by C13) *)
Definition dot (q : Z) (u v : list Z) : Z :=
  fold_left (fun acc ab => zq_add q acc (zq_mul q (fst ab) (snd ab))) (combine u v) 0.
Definition mat_col (j : nat) (m : mat) : list Z := map (fun r => nth j r 0) m.
Definition mat_mul (q : Z) (a b : mat) : mat :=
  map (fun r => map (fun j => dot q r (mat_col j b)) (seq 0 (length (hd [] b)))) a.
Definition mat_id (n : nat) : mat :=
  map (fun i => map (fun j => if (i =? j)%nat then 1 else 0) (seq 0 n)) (seq 0 n).

(** Well-shaped n x n matrix with canonical entries (premise of the theorems). *)
Definition wf_mat (q : Z) (n : nat) (m : mat) : Prop :=
  length m = n /\ Forall (fun r => length r = n /\ Forall (fun x => 0 <= x < q) r) m.
Definition wf_matb (q : Z) (n : nat) (m : mat) : bool :=
  (length m =? n)%nat && forallb (fun r => (length r =? n)%nat && forallb (fun x => (0 <=? x) && (x <? q)) r) m.

(** The secp256k1 group order (k256::Secp256k1::ORDER; compared with the harness output on every run). *)
Definition secp256k1_q : Z := 0xFFFFFFFFFFFFFFFFFFFFFFFFFFFFFFFEBAAEDCE6AF48A03BBFD25E8CD0364141.
