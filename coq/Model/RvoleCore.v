(** C01/C02: random vector OLE (crates/sl-oblivious/src/rvole.rs, rvole_ot_variant.rs) -- the
    RVOLE-specific layer with the oblivious-transfer layer ABSTRACTED.

    The OT layer (SoftSpoken extension in rvole.rs, two Endemic base OTs + re-hashing in
    rvole_ot_variant.rs) hands the two parties matrices of 32-byte strings:
      sender    v_0, v_1 : row j (< XI), column k (< L_BATCH + RHO)  |->  32 bytes
      receiver  v_x, and the choice bits beta
    Here these are inputs ([mat] = nat -> nat -> list N); Model/Rvole.v composes these functions with
    the SoftSpoken / Endemic models exactly where the code calls them.

    Conventions.
    - [Scalar::reduce(U256::from_be_bytes(b))] is [reduce_be b] = of_be b mod q;
      [Scalar::generate_biased] reduces 64 big-endian bytes from the rng: also [reduce_be].
      [s.to_bytes()] is [scalar_bytes] = 32 big-endian bytes of the canonical representative.
    - Scalars are integers; only the values that the code serialises ([to_bytes]) or returns are
      reduced, intermediate sums are not (the same residues; this is what the theorems are about and
      the byte-for-byte correspondence validates it).
    - [conditional_select(x0, x1, bit)] is [if bit then x1 else x0].
    - Transcripts: the gadget vector and the theta challenges are successive challenges of ONE
      growing merlin transcript ([chal_seq]).
    - A round-two message is the record [rmsg]; [rmsg_to_bytes]/[rmsg_of_bytes] is the #[repr(C)]
      byte image (RVOLEOutput; the tail of RVOLEMsg2).
    No proofs in this file. *)
From SL Require Import Lib.Base Lib.Oracle Gen.Params.
Local Open Scope Z_scope.

(* ASCII labels used by the code *)
Definition L_rv_session_id : list N := [115;101;115;115;105;111;110;45;105;100]%N.   (* "session-id" *)
Definition L_rv_index : list N := [105;110;100;101;120]%N.   (* "index" *)
Definition L_rv_next_value : list N := [110;101;120;116;32;118;97;108;117;101]%N.   (* "next value" *)
Definition L_rv_row : list N := [114;111;119;32;111;102;32;97;32;116;105;108;100;101]%N.   (* "row of a tilde" *)
Definition L_rv_theta_k : list N := [116;104;101;116;97;32;107]%N.   (* "theta k" *)
Definition L_rv_theta_i : list N := [116;104;101;116;97;32;105]%N.   (* "theta i" *)
Definition L_rv_theta : list N := [116;104;101;116;97]%N.   (* "theta" *)
Definition L_rv_chosen : list N := [99;104;111;115;101;110]%N.   (* "chosen" *)
Definition L_rv_mu_hash : list N := [109;117;45;104;97;115;104]%N.   (* "mu-hash" *)
Definition L_rv_sid_a : list N := [115;101;115;115;105;111;110;45;105;100;45;97]%N.   (* "session-id-a" *)
Definition L_rv_sid_b : list N := [115;101;115;115;105;111;110;45;105;100;45;98]%N.   (* "session-id-b" *)

Definition rv_gadget_label : list N := label_bytes GP.LABEL_VERSION GP.RANDOM_VOLE_GADGET_VECTOR_LABEL_ID.
Definition rv_theta_label : list N := label_bytes GP.LABEL_VERSION GP.RANDOM_VOLE_THETA_LABEL_ID.
Definition rv_mu_label : list N := label_bytes GP.LABEL_VERSION GP.RANDOM_VOLE_MU_LABEL_ID.
Definition rv_base_ot_label : list N := label_bytes GP.LABEL_VERSION GP.RANDOM_VOLE_BASE_OT_ID.
Definition rv_ss_label : list N := label_bytes GP.LABEL_VERSION GP.SOFT_SPOKEN_LABEL_ID.
Definition rv_ss_randomize_label : list N := label_bytes GP.LABEL_VERSION GP.SOFT_SPOKEN_RANDOMIZE_LABEL_ID.

(** XI = L, L_BATCH, RHO of params.rs *)
Definition rv_xi : nat := N.to_nat GP.L.
Definition rv_lb : nat := N.to_nat GP.L_BATCH.
Definition rv_rho : nat := N.to_nat GP.RHO.

Definition rv_err_check : N := 1.      (* Err("Consistency check failed") *)

(** [extract_bit]: bit [idx & 7] of byte [idx >> 3] *)
Definition rv_bit (bits : list N) (idx : nat) : bool :=
  N.testbit (nth (Nat.div idx 8) bits 0%N) (N.of_nat (Nat.modulo idx 8)).

(** [to_le] / [to_be] of Lib/Base.v with masks and shifts instead of divisions ([be_bytes_spec]) *)
Fixpoint le_bytes (n : nat) (v : N) : list N :=
  match n with O => [] | S k => N.land v 255 :: le_bytes k (N.shiftr v 8) end.
Definition be_bytes (n : nat) (v : N) : list N := rev (le_bytes n v).
(** [of_be] of Lib/Base.v by Horner with shifts: be_acc l 0 = of_be l ([be_acc_spec]) *)
Fixpoint be_acc (l : list N) (acc : N) : N :=
  match l with [] => acc | x :: r => be_acc r (N.shiftl acc 8 + x)%N end.

Definition sumZ (l : list Z) : Z := fold_right Z.add 0 l.
Definition sum_upto (n : nat) (f : nat -> Z) : Z := sumZ (map f (seq 0 n)).
Definition b2z (b : bool) : Z := if b then 1 else 0.

(** matrices of byte strings: row, column |-> bytes *)
Definition mat : Type := nat -> nat -> list N.
Definition cell (m : list (list (list N))) : mat := fun j k => nth k (nth j m []) [].

(** round-two message (RVOLEOutput) *)
Record rmsg := { m_atilde : list (list (list N)); m_eta : list (list N); m_mu : list N }.

Fixpoint rv_chunks (n k : nat) (l : list N) : list (list N) :=
  match k with
  | O => []
  | S k' => firstn n l :: rv_chunks n k' (skipn n l)
  end.

Definition rmsg_to_bytes (m : rmsg) : list N :=
  concat (map (@concat N) (m_atilde m)) ++ concat (m_eta m) ++ m_mu m.

(** adversary description: gadget position |-> (replacement input vector, guess of beta there) *)
Definition adv_spec : Type := list (nat * (list Z * bool)).
Fixpoint adv_lookup (spec : adv_spec) (j : nat) : option (list Z * bool) :=
  match spec with
  | [] => None
  | (j', x) :: r => if Nat.eqb j' j then Some x else adv_lookup r j
  end.

Section RvoleCore.
  Variable H : transcript_oracle.
  Variable q : Z.
  Variables xi lb rho : nat.        (* XI, L_BATCH, RHO *)

  Definition rv_w : nat := (lb + rho)%nat.      (* OT_WIDTH = L_BATCH_PLUS_RHO *)

  (** [v mod q] with fast paths for values within one modulus of the canonical range (the extracted
      model runs on unary/binary [positive]s: a general division of 256-bit numbers costs ~10^5 steps).
      Equal to [v mod q] for every v and q (Proofs/RvoleLemmas.v, [fmod_spec]). *)
  Definition fmod (v : Z) : Z :=
    if 0 <=? v then
      if v <? q then v else let v1 := v - q in if v1 <? q then v1 else v mod q
    else
      let v1 := v + q in if 0 <=? v1 then v1 else v mod q.

  (** = Z.of_N (of_be b) mod q  ([reduce_be_spec]) *)
  Definition reduce_be (b : list N) : Z := fmod (Z.of_N (be_acc b 0)).
  (** = to_be 32 (Z.to_N (z mod q))  ([scalar_bytes_spec]) *)
  Definition scalar_bytes (z : Z) : list N := be_bytes 32 (Z.to_N (fmod z)).

  (** successive challenges of one growing transcript: every step ends in a [TChallenge] *)
  Fixpoint chal_seq (pre : list top) (steps : list (list top)) : list (list N) :=
    match steps with
    | [] => []
    | s :: r => let h := pre ++ s in H h :: chal_seq h r
    end.

  (* ------------------------------------------------------------------ gadget vector *)
  Definition gadget_pre (sid : list N) : list top :=
    [TInit rv_gadget_label; TAppend L_rv_session_id sid].
  Definition gadget_step (i : nat) : list top :=
    [TAppendU64 L_rv_index (N.of_nat i); TChallenge L_rv_next_value 32].
  (** generate_gadget_vec(session_id), all XI values *)
  Definition gadget (sid : list N) : list Z :=
    map reduce_be (chal_seq (gadget_pre sid) (map gadget_step (seq 0 xi))).

  (** <g, f> (not reduced) *)
  Definition gadget_dot (gv : list Z) (f : nat -> Z) : Z :=
    sum_upto xi (fun j => nth j gv 0 * f j).

  (** b = <g, beta>: the fold of conditional selects in [RVOLEReceiver::new] *)
  Definition rvole_b (sid : list N) (beta : nat -> bool) : Z :=
    gadget_dot (gadget sid) (fun j => b2z (beta j)) mod q.

  (* ------------------------------------------------------------------ theta challenges *)
  Definition theta_pre (sid : list N) (at_ : mat) : list top :=
    [TInit rv_theta_label; TAppend L_rv_session_id sid] ++
    flat_map (fun j => TAppendU64 L_rv_row (N.of_nat j) :: map (fun k => TAppend [] (at_ j k)) (seq 0 rv_w))
             (seq 0 xi).
  Definition theta_step (ki : nat * nat) : list top :=
    [TAppendU64 L_rv_theta_k (N.of_nat (fst ki)); TAppendU64 L_rv_theta_i (N.of_nat (snd ki));
     TChallenge L_rv_theta 32].
  Definition theta_idx : list (nat * nat) :=
    flat_map (fun k => map (fun i => (k, i)) (seq 0 lb)) (seq 0 rho).
  Definition thetas (sid : list N) (at_ : mat) : list Z :=
    map reduce_be (chal_seq (theta_pre sid at_) (map theta_step theta_idx)).
  Definition theta (th : list Z) (k i : nat) : Z := nth (k * lb + i) th 0.
  (** sum_i theta[k][i] * f i (not reduced) *)
  Definition theta_dot (th : list Z) (k : nat) (f : nat -> Z) : Z :=
    sum_upto lb (fun i => theta th k i * f i).

  (* ------------------------------------------------------------------ mu hash *)
  Definition mu_query (sid : list N) (items : list (list N)) : list top :=
    [TInit rv_mu_label; TAppend L_rv_session_id sid] ++ map (TAppend L_rv_chosen) items ++
    [TChallenge L_rv_mu_hash 64].
  (** items in the order of the loops: for j in 0..XI { for k in 0..RHO { .. } } *)
  Definition items_of (f : nat -> nat -> list N) : list (list N) :=
    flat_map (fun j => map (f j) (seq 0 rho)) (seq 0 xi).

  Definition build_mat (f : mat) : list (list (list N)) :=
    map (fun j => map (f j) (seq 0 rv_w)) (seq 0 xi).

  (* ------------------------------------------------------------------ sender *)
  Definition alpha (v : mat) (j k : nat) : Z := reduce_be (v j k).

  (** what is added to alpha_0 - alpha_1 in column k: a[k] for k < L_BATCH, else reduce(eta[k - L_BATCH]) *)
  Definition ext_in (a eta0 : list Z) (k : nat) : Z :=
    if (k <? lb)%nat then nth k a 0 else nth (k - lb) eta0 0.

  Definition atilde_cell (v0 v1 : mat) (a eta0 : list Z) : mat :=
    fun j k => scalar_bytes (alpha v0 j k - alpha v1 j k + ext_in a eta0 k).

  Definition send_item (v0 : mat) (th : list Z) : mat :=
    fun j k => scalar_bytes (alpha v0 j (lb + k) + theta_dot th k (alpha v0 j)).

  (** c[i] = - sum_j g_j * alpha_0(j, i) *)
  Definition send_shares (sid : list N) (v0 : mat) : list Z :=
    let gv := gadget sid in
    map (fun i => (- gadget_dot gv (fun j => alpha v0 j i)) mod q) (seq 0 lb).

  (** RVOLESender::process after the OT layer.  [eta_tape]: RHO blocks of 64 rng bytes
      ([Scalar::generate_biased]).  Returns (round-two message, c). *)
  Definition rvole_send_core (sid : list N) (v0 v1 : mat) (a : list Z) (eta_tape : list (list N))
    : rmsg * list Z :=
    let c := send_shares sid v0 in
    let eta0 := map reduce_be eta_tape in
    let at_ := build_mat (atilde_cell v0 v1 a eta0) in
    let th := thetas sid (cell at_) in
    let eta := map (fun k => scalar_bytes (nth k eta0 0 + theta_dot th k (fun i => nth i a 0))) (seq 0 rho) in
    let mu := H (mu_query sid (items_of (send_item v0 th))) in
    ({| m_atilde := at_; m_eta := eta; m_mu := mu |}, c).

  (* ------------------------------------------------------------------ receiver *)
  (** d_dot[j][k] (k < L_BATCH) and d_hat[j][k - L_BATCH]: v_x, plus a_tilde iff beta_j = 1 *)
  Definition dd (beta : nat -> bool) (vx at_ : mat) (j k : nat) : Z :=
    fmod (alpha vx j k + (if beta j then alpha at_ j k else 0)).

  Definition recv_item (beta : nat -> bool) (vx at_ : mat) (eta : nat -> list N) (th : list Z) : mat :=
    fun j k => scalar_bytes (dd beta vx at_ j (lb + k) + theta_dot th k (dd beta vx at_ j)
                             - (if beta j then reduce_be (eta k) else 0)).

  Definition recv_mu (sid : list N) (beta : nat -> bool) (vx : mat) (m : rmsg) : list N :=
    let at_ := cell (m_atilde m) in
    let th := thetas sid at_ in
    H (mu_query sid (items_of (recv_item beta vx at_ (fun k => nth k (m_eta m) []) th))).

  Definition recv_shares (sid : list N) (beta : nat -> bool) (vx : mat) (m : rmsg) : list Z :=
    let gv := gadget sid in
    let at_ := cell (m_atilde m) in
    map (fun i => gadget_dot gv (fun j => dd beta vx at_ j i) mod q) (seq 0 lb).

  (** RVOLEReceiver::process after the OT layer *)
  Definition rvole_recv_core (sid : list N) (beta : nat -> bool) (vx : mat) (m : rmsg) : outcome (list Z) :=
    if bytes_eqb (m_mu m) (recv_mu sid beta vx m)
    then Val (recv_shares sid beta vx m)
    else Err rv_err_check.

  Definition rmsg_of_bytes (b : list N) : rmsg :=
    let na := (xi * rv_w * 32)%nat in
    {| m_atilde := map (rv_chunks 32 rv_w) (rv_chunks (rv_w * 32) xi (firstn na b));
       m_eta := rv_chunks 32 rho (firstn (rho * 32) (skipn na b));
       m_mu := skipn (na + rho * 32) b |}.

  (* ------------------------------------------------------------------ base-OT variant: keys -> v *)
  (** v[j] from the base-OT key of instance j: three challenges of
      Transcript(SOFT_SPOKEN_LABEL){"session-id": sid, "index": j, RANDOMIZE_LABEL: key} *)
  Definition ot_expand_pre (sid : list N) (j : nat) (key : list N) : list top :=
    [TInit rv_ss_label; TAppend L_rv_session_id sid; TAppendU64 L_rv_index (N.of_nat j);
     TAppend rv_ss_randomize_label key].
  Definition ot_expand (sid : list N) (j : nat) (key : list N) : list (list N) :=
    chal_seq (ot_expand_pre sid j key) (repeat [TChallenge [] 32] rv_w).
  Definition ot_rows (sid : list N) (keys : nat -> list N) : list (list (list N)) :=
    map (fun j => ot_expand sid j (keys j)) (seq 0 xi).

  (** base-OT variant after the two Endemic instances: keys0/keys1 = rho_0/rho_1 of instance j
      (instances of OT a, then of OT b) *)
  Definition rvole_ot_send_core (sid : list N) (keys0 keys1 : nat -> list N) (a : list Z)
             (eta_tape : list (list N)) : rmsg * list Z :=
    let v0 := ot_rows sid keys0 in
    let v1 := ot_rows sid keys1 in
    rvole_send_core sid (cell v0) (cell v1) a eta_tape.

  Definition rvole_ot_recv_core (sid : list N) (beta : nat -> bool) (keysx : nat -> list N) (m : rmsg)
    : outcome (list Z) :=
    let vx := ot_rows sid keysx in
    rvole_recv_core sid beta (cell vx) m.

  (* ------------------------------------------------------------------ calibrated adversarial sender *)
  (** The sender replaces its input by [a'] at the gadget positions listed in [spec] (a_tilde rows
      there are computed from a'), derives theta from the message it actually sends, derives eta
      honestly from [a], and computes the mu items as the receiver will compute them IF beta_j equals
      its guess g_j at every listed position. *)
  Definition adv_in (spec : adv_spec) (a : list Z) (j i : nat) : Z :=
    match adv_lookup spec j with
    | Some (a', _) => nth i a' 0
    | None => nth i a 0
    end.
  Definition adv_guess (spec : adv_spec) (j : nat) : bool :=
    match adv_lookup spec j with
    | Some (_, g) => g
    | None => false
    end.
  (** Delta_j[i] = a'_j[i] - a[i] *)
  Definition adv_delta (spec : adv_spec) (a : list Z) (j i : nat) : Z := adv_in spec a j i - nth i a 0.

  Definition adv_atilde_cell (v0 v1 : mat) (spec : adv_spec) (a eta0 : list Z) : mat :=
    fun j k => scalar_bytes (alpha v0 j k - alpha v1 j k +
                             (if (k <? lb)%nat then adv_in spec a j k else nth (k - lb) eta0 0)).

  Definition adv_item (v0 : mat) (spec : adv_spec) (a : list Z) (th : list Z) : mat :=
    fun j k => scalar_bytes (alpha v0 j (lb + k) + theta_dot th k (alpha v0 j)
                             + (if adv_guess spec j then theta_dot th k (adv_delta spec a j) else 0)).

  Definition adv_sender (sid : list N) (v0 v1 : mat) (a : list Z) (eta_tape : list (list N))
             (spec : adv_spec) : rmsg :=
    let eta0 := map reduce_be eta_tape in
    let at_ := build_mat (adv_atilde_cell v0 v1 spec a eta0) in
    let th := thetas sid (cell at_) in
    let eta := map (fun k => scalar_bytes (nth k eta0 0 + theta_dot th k (fun i => nth i a 0))) (seq 0 rho) in
    let mu := H (mu_query sid (items_of (adv_item v0 spec a th))) in
    {| m_atilde := at_; m_eta := eta; m_mu := mu |}.
End RvoleCore.
