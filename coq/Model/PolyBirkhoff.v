(** [birkhoff_coeffs] of crates/sl-mpc-mate/src/math.rs: first row of the inverse of the Birkhoff
    matrix; the inverse is the C20 model (Model/Matrix.v, not edited here).  No proofs. *)
From SL Require Import Lib.Base Model.Matrix Model.Poly.
Local Open Scope Z_scope.

(** let n = params.len();
    let matrix = params.iter().map(|(x_i, n_i)| polynomial_coeff_multipliers(x_i, *n_i, n)).collect();
    matrix_inverse::<C>(matrix, n).swap_remove(0)
    ([matrix_inverse] panics on a singular matrix; [swap_remove(0)] panics on an empty result). *)
Definition birkhoff_coeffs (q : Z) (params : list (Z * nat)) : outcome (list Z) :=
  let n := length params in
  obind (matrix_inverse q (birkhoff_matrix q params) n) (fun inv =>
    match inv with
    | [] => Panic 4%N
    | row0 :: _ => Val row0
    end).
