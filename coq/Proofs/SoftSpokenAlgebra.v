(** SoftSpoken: the per-tree XOR algebra (w = v ^ delta * (sum r ^ u)) and the GF(2^128)-linear check value Phi. *)
From SL Require Import Lib.Base Lib.Oracle Gen.Params Model.Gf128 Model.SoftSpoken.
From SL Require Import Proofs.ByteLangLin Proofs.Gf128Spec Proofs.SoftSpokenBytes.
Local Open Scope nat_scope.

Lemma fold_left_ext_in {A B} (f g : A -> B -> A) (l : list B) :
  (forall a x, In x l -> f a x = g a x) -> forall a, fold_left f l a = fold_left g l a.
Proof.
  induction l as [|x r IH]; intros H a; [reflexivity|]. cbn [fold_left].
  rewrite H by (left; reflexivity). apply IH. intros a' y Hy. apply H. right. exact Hy.
Qed.

Lemma in_combine_Forall {A B} (P : B -> Prop) (la : list A) (lb : list B) a b :
  Forall P lb -> In (a, b) (combine la lb) -> P b.
Proof. intros H Hin. apply in_combine_r in Hin. rewrite Forall_forall in H. apply H, Hin. Qed.

(* ------------------------------------------------------------------ selected sums *)
(** acc ^= (sel j ? r_j : 0) over the zipped (j, r_j) *)
Definition vfold (sel : N -> bool) (js : list N) (rs : list (list N)) (acc : list N) : list N :=
  fold_left (fun acc jr => xor_bytes acc (maskb (sel (fst jr)) (snd jr))) (combine js rs) acc.

Definition xsum (rs : list (list N)) (acc : list N) : list N := fold_left xor_bytes rs acc.

Definition lenall (n : nat) (rs : list (list N)) : Prop := Forall (fun r => length r = n) rs.

Lemma rowP_lenall n rs : Forall (rowP n) rs -> lenall n rs.
Proof. apply Forall_impl. intros r [L _]. exact L. Qed.

Lemma xsum_length n rs acc : lenall n rs -> length acc = n -> length (xsum rs acc) = n.
Proof.
  intros H; revert acc; induction H as [|r rs Hr Hrs IH]; intros acc Ha; [exact Ha|].
  cbn. apply IH. apply xor_bytes_len; assumption.
Qed.

Lemma xsum_bytes rs acc : Forall bytesP rs -> bytesP acc -> bytesP (xsum rs acc).
Proof.
  intros H; revert acc; induction H as [|r rs Hr Hrs IH]; intros acc Ha; [exact Ha|].
  cbn. apply IH. apply xor_bytes_bytes; assumption.
Qed.

Lemma xsum_row n rs acc : Forall (rowP n) rs -> rowP n acc -> rowP n (xsum rs acc).
Proof.
  intros H [La Ba]. split.
  - apply xsum_length; [apply rowP_lenall, H|exact La].
  - apply xsum_bytes; [|exact Ba]. eapply Forall_impl; [|exact H]. intros r [_ B]. exact B.
Qed.

Lemma vfold_length n sel js rs acc : lenall n rs -> length acc = n -> length (vfold sel js rs acc) = n.
Proof.
  intros H; revert js acc; induction H as [|r rs Hr Hrs IH]; intros [|j js] acc Ha; cbn; try exact Ha.
  apply IH. apply xor_bytes_len; [exact Ha|rewrite maskb_length; exact Hr].
Qed.

Lemma vfold_bytes sel js rs acc : Forall bytesP rs -> bytesP acc -> bytesP (vfold sel js rs acc).
Proof.
  intros H; revert js acc; induction H as [|r rs Hr Hrs IH]; intros [|j js] acc Ha; cbn; try exact Ha.
  apply IH. apply xor_bytes_bytes; [exact Ha|apply maskb_bytes, Hr].
Qed.

Lemma vfold_row n sel js rs acc : Forall (rowP n) rs -> rowP n acc -> rowP n (vfold sel js rs acc).
Proof.
  intros H [La Ba]. split.
  - apply vfold_length; [apply rowP_lenall, H|exact La].
  - apply vfold_bytes; [|exact Ba]. eapply Forall_impl; [|exact H]. intros r [_ B]. exact B.
Qed.

(** rows may differ where the selector is off *)
Lemma vfold_ext sel js : forall rs rs' acc, length rs = length js -> length rs' = length js ->
  (forall k, k < length js -> maskb (sel (nth k js 0%N)) (nth k rs []) = maskb (sel (nth k js 0%N)) (nth k rs' [])) ->
  vfold sel js rs acc = vfold sel js rs' acc.
Proof.
  induction js as [|j js IH]; intros rs rs' acc L L' H; [reflexivity|].
  destruct rs as [|r rs]; [discriminate|]. destruct rs' as [|r' rs']; [discriminate|].
  unfold vfold. cbn [combine fold_left fst snd].
  pose proof (H 0 (Nat.lt_0_succ _)) as H0. cbn [nth] in H0. rewrite H0.
  apply IH; cbn in *; try lia. intros k Hk. apply (H (S k)). lia.
Qed.

(** the core identity: with sel'(j) = d xor sel(j),  W = V ^ d * U   (accumulators related the same way) *)
Lemma vfold_core n (d : bool) (sel sel' : N -> bool) :
  (forall j, sel' j = xorb d (sel j)) ->
  forall js rs av au aw, length rs = length js -> lenall n rs ->
    length av = n -> length au = n ->
    aw = xor_bytes av (maskb d au) ->
    vfold sel' js rs aw = xor_bytes (vfold sel js rs av) (maskb d (xsum rs au)).
Proof.
  intros Hsel. induction js as [|j js IH]; intros rs av au aw L Hn Lv Lu Hw.
  - destruct rs; [|discriminate]. exact Hw.
  - destruct rs as [|r rs]; [discriminate|]. pose proof (Forall_inv Hn) as Lr; pose proof (Forall_inv_tail Hn) as Hrs; cbn beta in Lr.
    unfold vfold, xsum. cbn [combine fold_left fst snd].
    apply IH; try assumption.
    + cbn in L. lia.
    + apply xor_bytes_len; [exact Lv|rewrite maskb_length; exact Lr].
    + apply xor_bytes_len; [exact Lu|exact Lr].
    + rewrite Hw, Hsel. destruct d.
      * (* d = true *)
        rewrite xorb_true_l. cbn [maskb]. destruct (sel j); cbn [negb maskb].
        -- rewrite xor_bytes_swap4, xor_bytes_self. reflexivity.
        -- rewrite (xor_bytes_zeros_r av (length r)) by (rewrite Lr; exact Lv). apply xor_bytes_assoc.
      * (* d = false *)
        rewrite xorb_false_l. cbn [maskb].
        rewrite (xor_bytes_zeros_r av (length au)) by (rewrite Lu; exact Lv).
        rewrite xor_bytes_zeros_r; [reflexivity|].
        rewrite (xor_bytes_len n au r Lu Lr).
        apply xor_bytes_len; [exact Lv|rewrite maskb_length; exact Lr].
Qed.

(* ------------------------------------------------------------------ the model's row functions *)
Lemma recv_v_row_vfold rs b : Forall bytesP rs ->
  recv_v_row rs b = vfold (fun j => N.testbit j b) (Nseq ssQ) rs (zbytes ssLPB).
Proof.
  intros HB. unfold recv_v_row, vfold. apply fold_left_ext_in.
  intros a [j r] Hin. cbn [fst snd]. f_equal. apply and_mask_shiftr.
  exact (in_combine_Forall _ _ _ _ _ HB Hin).
Qed.

Lemma send_w_row_vfold delta rs u_i b : Forall bytesP rs -> bytesP u_i ->
  send_w_row delta rs u_i b =
  xor_bytes (vfold (fun j => N.testbit (N.lxor delta j) b) (Nseq ssQ) rs (zbytes ssLPB))
            (maskb (N.testbit delta b) u_i).
Proof.
  intros HB Hu. unfold send_w_row. rewrite and_mask_shiftr by exact Hu. f_equal.
  unfold vfold. apply fold_left_ext_in.
  intros a [j r] Hin. cbn [fst snd]. f_equal. apply and_mask_shiftr.
  exact (in_combine_Forall _ _ _ _ _ HB Hin).
Qed.

(** Sender's row of one tree against the receiver's, for ANY u row: the keys may differ at the punctured leaf. *)
Theorem send_w_row_char delta rs rs' u_i b :
  length rs = ssQ -> length rs' = ssQ -> Forall (rowP ssLPB) rs -> Forall (rowP ssLPB) rs' -> rowP ssLPB u_i ->
  (forall j, j < ssQ -> N.of_nat j <> delta -> nth j rs' [] = nth j rs []) ->
  send_w_row delta rs' u_i b =
  xor_bytes (recv_v_row rs b) (maskb (N.testbit delta b) (xor_bytes (xsum rs (zbytes ssLPB)) u_i)).
Proof.
  intros L L' HR HR' [Lu Bu] Hagree.
  assert (HB : Forall bytesP rs) by (eapply Forall_impl; [|exact HR]; intros r [_ B]; exact B).
  assert (HB' : Forall bytesP rs') by (eapply Forall_impl; [|exact HR']; intros r [_ B]; exact B).
  assert (Hlen : forall k, k < ssQ -> length (nth k rs []) = ssLPB /\ length (nth k rs' []) = ssLPB).
  { intros k Hk. rewrite Forall_forall in HR, HR'. split.
    - apply HR, nth_In. lia.
    - apply HR', nth_In. lia. }
  rewrite send_w_row_vfold by assumption. rewrite recv_v_row_vfold by assumption.
  rewrite (vfold_ext _ (Nseq ssQ) rs' rs); try (rewrite Nseq_length; assumption).
  2:{ rewrite Nseq_length. intros k Hk. rewrite Nseq_nth by exact Hk.
      destruct (N.eq_dec (N.of_nat k) delta) as [E|NE].
      - rewrite E, N.lxor_nilpotent, N.bits_0. cbn [maskb].
        destruct (Hlen k Hk) as [-> ->]. reflexivity.
      - rewrite (Hagree k Hk NE). reflexivity. }
  rewrite (vfold_core ssLPB (N.testbit delta b) (fun j => N.testbit j b) _
             (fun j => N.lxor_spec delta j b) (Nseq ssQ) rs (zbytes ssLPB) (zbytes ssLPB) (zbytes ssLPB));
    try apply zbytes_length; try (rewrite Nseq_length; assumption); try (apply rowP_lenall; assumption).
  2:{ destruct (N.testbit delta b); cbn [maskb]; rewrite ?zbytes_length;
        symmetry; apply xor_bytes_zeros_r, zbytes_length. }
  rewrite xor_bytes_assoc. f_equal. symmetry. apply maskb_xor.
  rewrite Lu. apply xsum_length; [apply rowP_lenall; assumption|apply zbytes_length].
Qed.

Lemma recv_u_row_char epc rs : length epc = ssLPB -> Forall (rowP ssLPB) rs ->
  xor_bytes (xsum rs (zbytes ssLPB)) (recv_u_row epc (zbytes ssLPB) rs) = epc.
Proof.
  intros Le HR. unfold recv_u_row. fold (xsum rs (zbytes ssLPB)).
  assert (L : length (xsum rs (zbytes ssLPB)) = ssLPB)
    by (apply xsum_length; [apply rowP_lenall, HR|apply zbytes_length]).
  rewrite <- xor_bytes_assoc, xor_bytes_self, L. apply xor_bytes_zeros_l, Le.
Qed.

(* ------------------------------------------------------------------ GF(2^128) multiplication is XOR-linear *)
Lemma pow256_pow2 n : (256 ^ N.of_nat n = 2 ^ (8 * N.of_nat n))%N.
Proof. change 256%N with (2 ^ 8)%N. rewrite <- N.pow_mul_r. reflexivity. Qed.

Lemma of_le_xor x y : length x = length y -> bytesP x -> bytesP y ->
  of_le (xor_bytes x y) = N.lxor (of_le x) (of_le y).
Proof.
  intros L Bx By. set (n := length x).
  assert (Lxy : length (xor_bytes x y) = n) by (apply xor_bytes_len; [reflexivity|symmetry; exact L]).
  assert (Bxy : bytesP (xor_bytes x y)) by (apply xor_bytes_bytes; assumption).
  assert (Hlt : (N.lxor (of_le x) (of_le y) < 256 ^ N.of_nat n)%N).
  { rewrite pow256_pow2. apply lxor_lt_pow2; rewrite <- pow256_pow2.
    - apply of_le_lt, Bx.
    - unfold n. rewrite L. apply of_le_lt, By. }
  rewrite <- (of_le_to_le n (N.lxor (of_le x) (of_le y)) Hlt).
  f_equal. rewrite to_le_lxor. unfold n at 1. rewrite (to_le_of_le x Bx).
  unfold n. rewrite L, (to_le_of_le y By). reflexivity.
Qed.

Lemma of_le_lt128 x : length x <= 16 -> bytesP x -> (of_le x < two128)%N.
Proof.
  intros L B. eapply N.lt_le_trans; [apply of_le_lt, B|].
  rewrite <- pow256_16. apply N.pow_le_mono_r; [discriminate|lia].
Qed.

Lemma gf_bytes_length a b : length (gf_spec_bytes a b) = 16.
Proof. apply to_le_length. Qed.
Lemma gf_bytes_bytes a b : bytesP (gf_spec_bytes a b).
Proof. apply to_le_bytes. Qed.
Lemma gf_bytes_row a b : rowP 16 (gf_spec_bytes a b).
Proof. split; [apply gf_bytes_length|apply gf_bytes_bytes]. Qed.

Theorem gf_bytes_xor_l x y chi : length x = length y -> length x <= 16 -> bytesP x -> bytesP y ->
  gf_spec_bytes (xor_bytes x y) chi = xor_bytes (gf_spec_bytes x chi) (gf_spec_bytes y chi).
Proof.
  intros L L16 Bx By. unfold gf_spec_bytes. rewrite of_le_xor by assumption.
  rewrite spec_lxor_l by (apply of_le_lt128; [lia|assumption]; assumption).
  apply to_le_lxor.
Qed.

(* ------------------------------------------------------------------ Phi *)
(** the check value of a row for zero initial accumulator *)
Definition Phi (chis : list (list N)) (row : list N) : list N := phi_acc chis row (zbytes ssSB).

Definition pfold (chis : list (list N)) (row : list N) (s k : nat) (init : list N) : list N :=
  fold_left (fun acc jc => let '(j, chi_j) := jc in xor_bytes acc (gf_spec_bytes (ss_chunk j row) chi_j))
            (combine (seq s k) chis) init.

Lemma phi_acc_pfold chis row init :
  phi_acc chis row init = xor_bytes (pfold chis row 0 ssM init) (ss_chunk ssM row).
Proof. reflexivity. Qed.

Lemma ss_chunk_xor j a b : ss_chunk j (xor_bytes a b) = xor_bytes (ss_chunk j a) (ss_chunk j b).
Proof. unfold ss_chunk. rewrite xor_bytes_skipn, xor_bytes_firstn. reflexivity. Qed.

Lemma ss_chunk_length_le j a : length (ss_chunk j a) <= 16.
Proof. unfold ss_chunk. rewrite firstn_length, ssSB_val. lia. Qed.

Lemma ss_chunk_length_eq j a b : length a = length b -> length (ss_chunk j a) = length (ss_chunk j b).
Proof. intros L. unfold ss_chunk. rewrite !firstn_length, !skipn_length, L. reflexivity. Qed.

Lemma firstn_Forall {A} (P : A -> Prop) n l : Forall P l -> Forall P (firstn n l).
Proof. revert l; induction n as [|n IH]; intros l H; [constructor|]. destruct H; cbn; constructor; auto. Qed.
Lemma skipn_Forall {A} (P : A -> Prop) n l : Forall P l -> Forall P (skipn n l).
Proof. revert l; induction n as [|n IH]; intros l H; [exact H|]. destruct H; cbn; [constructor|auto]. Qed.

Lemma ss_chunk_bytes j a : bytesP a -> bytesP (ss_chunk j a).
Proof. intros H. unfold ss_chunk. apply firstn_Forall, skipn_Forall, H. Qed.

Lemma ss_chunk_row j a : length a = ssLPB -> bytesP a -> j <= 4 -> rowP 16 (ss_chunk j a).
Proof.
  intros L B Hj. split; [|apply ss_chunk_bytes, B].
  unfold ss_chunk. rewrite firstn_length, skipn_length, L, ssSB_val, ssLPB_val. lia.
Qed.

Lemma pfold_length chis row s k init : length init = 16 -> length (pfold chis row s k init) = 16.
Proof.
  unfold pfold. revert s k init; induction chis as [|c chis IH]; intros s k init Li.
  - destruct k; exact Li.
  - destruct k as [|k]; [exact Li|]. cbn [seq combine fold_left]. apply IH.
    apply xor_bytes_len; [exact Li|apply gf_bytes_length].
Qed.

Lemma pfold_bytes chis row s k init : bytesP init -> bytesP (pfold chis row s k init).
Proof.
  unfold pfold. revert s k init; induction chis as [|c chis IH]; intros s k init Bi.
  - destruct k; exact Bi.
  - destruct k as [|k]; [exact Bi|]. cbn [seq combine fold_left]. apply IH.
    apply xor_bytes_bytes; [exact Bi|apply gf_bytes_bytes].
Qed.

Lemma pfold_xor chis a b : length a = length b -> bytesP a -> bytesP b ->
  forall s k ia ib, length ia = 16 -> length ib = 16 ->
  pfold chis (xor_bytes a b) s k (xor_bytes ia ib) = xor_bytes (pfold chis a s k ia) (pfold chis b s k ib).
Proof.
  intros L Ba Bb. unfold pfold. induction chis as [|c chis IH]; intros s k ia ib La Lb.
  - destruct k; reflexivity.
  - destruct k as [|k]; [reflexivity|]. cbn [seq combine fold_left].
    rewrite ss_chunk_xor. rewrite gf_bytes_xor_l;
      [|apply ss_chunk_length_eq, L|apply ss_chunk_length_le|apply ss_chunk_bytes, Ba|apply ss_chunk_bytes, Bb].
    rewrite xor_bytes_swap4. apply IH; apply xor_bytes_len; try assumption; apply gf_bytes_length.
Qed.

Lemma Phi_row chis row : length row = ssLPB -> bytesP row -> rowP 16 (Phi chis row).
Proof.
  intros L B. unfold Phi. rewrite phi_acc_pfold.
  destruct (ss_chunk_row 4 row L B (le_n _)) as [Lc Bc]. rewrite ssM_val. split.
  - apply xor_bytes_len; [apply pfold_length; rewrite ssSB_val; apply zbytes_length|exact Lc].
  - apply xor_bytes_bytes; [apply pfold_bytes, zbytes_bytes|exact Bc].
Qed.

Theorem Phi_xor chis a b : rowP ssLPB a -> rowP ssLPB b ->
  Phi chis (xor_bytes a b) = xor_bytes (Phi chis a) (Phi chis b).
Proof.
  intros [La Ba] [Lb Bb]. unfold Phi. rewrite !phi_acc_pfold.
  rewrite ss_chunk_xor.
  rewrite <- (xor_bytes_zeros_r (zbytes ssSB) ssSB (zbytes_length _)) at 1.
  rewrite pfold_xor; try assumption; try (rewrite ssSB_val; apply zbytes_length); [|congruence].
  apply xor_bytes_swap4.
Qed.

Lemma Phi_zeros chis : Phi chis (zbytes ssLPB) = zbytes 16.
Proof.
  pose proof (Phi_xor chis (zbytes ssLPB) (zbytes ssLPB) (zbytes_row _) (zbytes_row _)) as H.
  rewrite xor_bytes_self, zbytes_length in H. rewrite H at 1.
  rewrite xor_bytes_self. destruct (Phi_row chis (zbytes ssLPB) (zbytes_length _) (zbytes_bytes _)) as [-> _].
  reflexivity.
Qed.

Theorem Phi_maskb chis c a : rowP ssLPB a -> Phi chis (maskb c a) = maskb c (Phi chis a).
Proof.
  intros [La Ba]. destruct c; cbn [maskb]; [reflexivity|].
  rewrite La. destruct (Phi_row chis a La Ba) as [-> _]. apply Phi_zeros.
Qed.

(** Phi(v ^ n * c) = Phi v ^ n * Phi c *)
Theorem Phi_xor_maskb chis v c a : rowP ssLPB v -> rowP ssLPB a ->
  Phi chis (xor_bytes v (maskb c a)) = xor_bytes (Phi chis v) (maskb c (Phi chis a)).
Proof.
  intros Hv Ha. rewrite Phi_xor; [|exact Hv|apply maskb_row, Ha]. rewrite Phi_maskb by exact Ha. reflexivity.
Qed.
