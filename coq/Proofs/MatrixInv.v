(** C20, part 1 (stdlib style): specification of the scalar inverse [zq_invert] (extended Euclid with fuel)
    and elementary facts about the modular operations of Model/Matrix.v. *)
From Coq Require Import ZArith Znumtheory Lia List.
From SL Require Import Lib.Base Model.Matrix.
Local Open Scope Z_scope.

Lemma egcd_spec q a fuel : forall r0 s0 r1 s1,
  0 <= r1 < r0 -> r0 * r1 < 2 ^ Z.of_nat fuel ->
  (q | r0 - s0 * a) -> (q | r1 - s1 * a) ->
  fst (egcd fuel r0 s0 r1 s1) = Z.gcd r0 r1 /\
  (q | fst (egcd fuel r0 s0 r1 s1) - snd (egcd fuel r0 s0 r1 s1) * a).
Proof.
  induction fuel as [|f IH]; intros r0 s0 r1 s1 Hr Hf H0 H1.
  - cbn [egcd fst snd]. change (2 ^ Z.of_nat 0) with 1 in Hf.
    assert (r1 = 0) by nia. subst r1. rewrite Z.gcd_0_r, Z.abs_eq by lia. auto.
  - cbn [egcd]. destruct (Z.eqb_spec r1 0) as [E|NE].
    + subst r1. cbn [fst snd]. rewrite Z.gcd_0_r, Z.abs_eq by lia. auto.
    + assert (Hr1 : 0 < r1) by lia.
      pose proof (Z.div_mod r0 r1 NE) as Hdm.
      pose proof (Z.mod_pos_bound r0 r1 Hr1) as Hmb.
      set (k := r0 / r1) in *.
      assert (Hk : 1 <= k).
      { unfold k. apply Z.div_le_lower_bound; lia. }
      assert (E2 : r0 - k * r1 = r0 mod r1) by lia.
      assert (Hlt : 2 * (r0 mod r1) < r0) by nia.
      specialize (IH r1 s1 (r0 - k * r1) (s0 - k * s1)).
      destruct IH as [G D].
      * lia.
      * rewrite E2. rewrite Nat2Z.inj_succ, Z.pow_succ_r in Hf by lia. nia.
      * exact H1.
      * replace (r0 - k * r1 - (s0 - k * s1) * a) with ((r0 - s0 * a) - k * (r1 - s1 * a)) by ring.
        apply Z.divide_sub_r; [exact H0|]. apply Z.divide_mul_r. exact H1.
      * split; [|exact D]. rewrite G.
        replace (r0 - k * r1) with (r0 + (- k) * r1) by ring.
        rewrite Z.gcd_add_mult_diag_r. apply Z.gcd_comm.
Qed.

Lemma zq_invert_zero q : zq_invert q 0 = None.
Proof. reflexivity. Qed.

Lemma zq_invert_spec q a : 1 < q -> 0 < a < q ->
  match zq_invert q a with
  | Some v => 0 <= v < q /\ (a * v) mod q = 1
  | None => Z.gcd q a <> 1
  end.
Proof.
  intros Hq Ha. unfold zq_invert.
  destruct (Z.eqb_spec a 0) as [?|_]; [lia|].
  set (fuel := Z.to_nat (2 * Z.log2_up q)).
  destruct (egcd_spec q a fuel q 0 a 1) as [G D].
  - lia.
  - unfold fuel. pose proof (Z.log2_up_nonneg q) as Hl.
    rewrite Z2Nat.id by lia.
    destruct (Z.log2_up_spec q Hq) as [_ Hu].
    replace (2 * Z.log2_up q) with (Z.log2_up q + Z.log2_up q) by ring.
    rewrite Z.pow_add_r by lia. nia.
  - exists 1. ring.
  - exists 0. ring.
  - destruct (egcd fuel q 0 a 1) as [g s]. cbn [fst snd] in G, D.
    destruct (Z.eqb_spec g 1) as [E|NE].
    + split; [apply Z.mod_pos_bound; lia|].
      rewrite Z.mul_mod_idemp_r by lia.
      subst g. destruct D as [c Hc].
      replace (a * s) with (1 + (- c) * q) by lia.
      rewrite Z.mod_add by lia. apply Z.mod_small; lia.
    + congruence.
Qed.

Lemma zq_invert_prime q a : prime q -> 0 < a < q ->
  exists v, zq_invert q a = Some v /\ 0 <= v < q /\ (a * v) mod q = 1.
Proof.
  intros Hp Ha. pose proof (prime_ge_2 q Hp) as H2.
  pose proof (zq_invert_spec q a ltac:(lia) Ha) as S.
  destruct (zq_invert q a) as [v|].
  - exists v; auto.
  - exfalso. apply S. apply Zgcd_1_rel_prime. apply rel_prime_sym.
    apply rel_prime_le_prime; [exact Hp|lia].
Qed.

(** canonical range of the modular operations *)
Lemma zq_mul_range q a b : 0 < q -> 0 <= zq_mul q a b < q.
Proof. intros; apply Z.mod_pos_bound; lia. Qed.
Lemma zq_sub_range q a b : 0 < q -> 0 <= zq_sub q a b < q.
Proof. intros; apply Z.mod_pos_bound; lia. Qed.
Lemma zq_neg_range q a : 0 < q -> 0 <= zq_neg q a < q.
Proof. intros; apply Z.mod_pos_bound; lia. Qed.
Lemma zq_add_range q a b : 0 < q -> 0 <= zq_add q a b < q.
Proof. intros; apply Z.mod_pos_bound; lia. Qed.
