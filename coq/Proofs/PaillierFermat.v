(** Fermat's little theorem over [Z], transported from MathComp's [fermat_little] (binomial.v).
    This is the only file of the Paillier development that uses MathComp. *)
From mathcomp Require Import all_ssreflect zify.
From Coq Require Import ZArith Znumtheory Lia.

Lemma of_nat_expn a b : Z.of_nat (expn a b) = (Z.of_nat a ^ Z.of_nat b)%Z.
Proof.
  elim: b => [|b IH]; first by rewrite expn0.
  rewrite expnS Nat2Z.inj_succ Z.pow_succ_r; last by lia.
  rewrite -IH. lia.
Qed.

Lemma of_nat_modn a b : (0 < b)%nat -> Z.of_nat (modn a b) = (Z.of_nat a mod Z.of_nat b)%Z.
Proof.
  move=> Hb.
  have E := divn_eq a b.
  have L := ltn_pmod a Hb.
  move: E L. set r := modn a b. set d := divn a b. move=> E L.
  apply: (Z.mod_unique _ _ (Z.of_nat d)); lia.
Qed.

Lemma prime_Z_nat p : Znumtheory.prime p -> mathcomp.ssreflect.prime.prime (Z.to_nat p).
Proof.
  move=> Hp. have H2 := prime_ge_2 _ Hp.
  apply/primeP; split; first by lia.
  move=> d /dvdnP [k Hk].
  have Hd : (Z.of_nat d | p)%Z.
  { exists (Z.of_nat k). have : Z.of_nat (Z.to_nat p) = Z.of_nat (muln k d) by rewrite Hk. lia. }
  case: (prime_divisors _ Hp _ Hd) => [|[|[|]]] H; apply/orP.
  - lia.
  - left; apply/eqP; lia.
  - right; apply/eqP; lia.
  - lia.
Qed.

Theorem fermat_pow_p (p a : Z) : Znumtheory.prime p -> (0 <= a)%Z -> ((a ^ p) mod p = a mod p)%Z.
Proof.
  move=> Hp Ha. have H2 := prime_ge_2 _ Hp.
  have F := fermat_little (Z.to_nat a) (prime_Z_nat _ Hp).
  have Hpos : (0 < Z.to_nat p)%nat by lia.
  have := f_equal Z.of_nat F.
  rewrite !of_nat_modn // of_nat_expn !Z2Nat.id //; lia.
Qed.
