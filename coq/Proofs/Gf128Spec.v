(** The specification [gf_spec] is bilinear over XOR, commutative, has identity 1 and is
    associative on operands below 2^128; little-endian conversion lemmas. *)
From SL Require Import Lib.Base Model.ByteLang Model.Gf128 Proofs.ByteLangLin.
Local Open Scope N_scope.

Definition two127 : N := 2 ^ 127.

Lemma two128_val : two128 = 340282366920938463463374607431768211456.
Proof. reflexivity. Qed.
Lemma two127_val : two127 = 170141183460469231731687303715884105728.
Proof. reflexivity. Qed.

Ltac xsolve := let n := fresh "n" in bits n; bcases.

(** * Numbers below a power of two *)

Lemma lt_pow2_land n x : x < 2 ^ n <-> N.land x (N.ones n) = x.
Proof.
  rewrite N.land_ones. split.
  - apply N.mod_small.
  - intros <-. apply N.mod_lt. apply N.pow_nonzero. discriminate.
Qed.

Lemma lxor_lt_pow2 n a b : a < 2 ^ n -> b < 2 ^ n -> N.lxor a b < 2 ^ n.
Proof.
  rewrite !lt_pow2_land. intros Ha Hb. rewrite land_lxor_l, Ha, Hb. reflexivity.
Qed.

Lemma lxor_lt128 a b : a < two128 -> b < two128 -> N.lxor a b < two128.
Proof. apply lxor_lt_pow2. Qed.

Lemma mod_pow2_lxor n a b : (N.lxor a b) mod 2 ^ n = N.lxor (a mod 2 ^ n) (b mod 2 ^ n).
Proof. rewrite <- !N.land_ones. apply land_lxor_l. Qed.

Lemma div_pow2_lxor n a b : (N.lxor a b) / 2 ^ n = N.lxor (a / 2 ^ n) (b / 2 ^ n).
Proof. rewrite <- !N.shiftr_div_pow2. apply N.shiftr_lxor. Qed.

Lemma double_shiftl z : 2 * z = N.shiftl z 1.
Proof. rewrite N.shiftl_mul_pow2. change (2 ^ 1) with 2. apply N.mul_comm. Qed.

Lemma double_lxor a b : 2 * N.lxor a b = N.lxor (2 * a) (2 * b).
Proof. rewrite !double_shiftl. apply N.shiftl_lxor. Qed.

Lemma lxor_add_pow2 k r : r < 2 ^ k -> r + 2 ^ k = N.lxor r (2 ^ k).
Proof.
  intros H. apply N.add_nocarry_lxor. bits n. rewrite N.pow2_bits_eqb.
  destruct (N.eqb_spec k n) as [<-|]; [|apply andb_false_r].
  rewrite <- (N.mod_small r (2 ^ k) H), N.mod_pow2_bits_high by apply N.le_refl. reflexivity.
Qed.

(** * [xtime] *)

Lemma xtime_char a : a < two128 ->
  xtime a = N.lxor (2 * (a mod two127)) (135 * (a / two127)).
Proof.
  intros H. unfold xtime, gf_poly_low.
  pose proof (N.div_mod' a two127) as D.
  assert (Hr : a mod two127 < two127) by (apply N.mod_lt; discriminate).
  assert (Ht : a / two127 < 2) by (apply N.div_lt_upper_bound; [discriminate|exact H]).
  set (t := a / two127) in *. set (r := a mod two127) in *.
  rewrite two128_val in *. rewrite two127_val in *.
  assert (Hc : t = 0 \/ t = 1) by lia. destruct Hc as [-> | ->].
  - destruct (N.ltb_spec (2 * a) 340282366920938463463374607431768211456); [|lia].
    rewrite N.mul_0_r, N.lxor_0_r. lia.
  - destruct (N.ltb_spec (2 * a) 340282366920938463463374607431768211456); [lia|].
    change (135 * 1) with 135. f_equal. lia.
Qed.

Lemma xtime_lt a : a < two128 -> xtime a < two128.
Proof.
  intros H. unfold xtime, gf_poly_low.
  destruct (N.ltb_spec (2 * a) two128) as [Hl|Hg]; [assumption|].
  apply lxor_lt128; [|reflexivity]. rewrite two128_val in *. lia.
Qed.

Lemma xtime_0 : xtime 0 = 0.
Proof. reflexivity. Qed.

Lemma xtime_lxor a b : a < two128 -> b < two128 ->
  xtime (N.lxor a b) = N.lxor (xtime a) (xtime b).
Proof.
  intros Ha Hb. rewrite !xtime_char by (try apply lxor_lt128; assumption).
  unfold two127. rewrite mod_pow2_lxor, div_pow2_lxor, double_lxor. fold two127.
  assert (Hta : a / two127 < 2) by (apply N.div_lt_upper_bound; [discriminate|exact Ha]).
  assert (Htb : b / two127 < 2) by (apply N.div_lt_upper_bound; [discriminate|exact Hb]).
  set (ta := a / two127) in *. set (tb := b / two127) in *.
  assert (Hl : 135 * N.lxor ta tb = N.lxor (135 * ta) (135 * tb)).
  { assert (Ca : ta = 0 \/ ta = 1) by lia. assert (Cb : tb = 0 \/ tb = 1) by lia.
    destruct Ca as [-> | ->]; destruct Cb as [-> | ->]; reflexivity. }
  rewrite Hl. apply lxor_swap.
Qed.

(** iterated [xtime] *)
Fixpoint xpow (j : nat) (a : N) : N :=
  match j with O => a | S k => xpow k (xtime a) end.

Lemma xpow_xtime j a : xpow j (xtime a) = xtime (xpow j a).
Proof. revert a; induction j as [|j IH]; intros a; cbn [xpow]; [reflexivity|apply IH]. Qed.

Lemma xpow_lt j a : a < two128 -> xpow j a < two128.
Proof. revert a; induction j as [|j IH]; intros a H; cbn [xpow]; [assumption|apply IH, xtime_lt, H]. Qed.

Lemma xpow_add i j a : xpow i (xpow j a) = xpow (i + j) a.
Proof.
  revert a; induction j as [|j IH]; intros a; cbn [xpow].
  - rewrite Nat.add_0_r. reflexivity.
  - rewrite IH, Nat.add_succ_r. reflexivity.
Qed.

Lemma xpow_one i : (i < 128)%nat -> xpow i 1 = 2 ^ N.of_nat i.
Proof.
  induction i as [|i IH]; intros Hi; [reflexivity|].
  cbn [xpow]. rewrite xpow_xtime, IH by lia.
  rewrite Nat2N.inj_succ, N.pow_succ_r'. unfold xtime.
  destruct (N.ltb_spec (2 * 2 ^ N.of_nat i) two128) as [|Hg]; [reflexivity|exfalso].
  rewrite <- N.pow_succ_r' in Hg. apply N.le_ngt in Hg. apply Hg.
  unfold two128. apply N.pow_lt_mono_r; lia.
Qed.

(** * The shift-and-add loop *)

Lemma odd_lxor a b : N.odd (N.lxor a b) = xorb (N.odd a) (N.odd b).
Proof. rewrite <- !N.bit0_odd. apply N.lxor_spec. Qed.

Lemma div2_lxor a b : N.div2 (N.lxor a b) = N.lxor (N.div2 a) (N.div2 b).
Proof. rewrite !N.div2_spec. apply N.shiftr_lxor. Qed.

Lemma fuel_0_r n : forall a, gf_mul_fuel n a 0 = 0.
Proof. induction n as [|n IH]; intros a; cbn [gf_mul_fuel N.odd N.div2]; [reflexivity|]. rewrite IH. reflexivity. Qed.

Lemma fuel_0_l n : forall b, gf_mul_fuel n 0 b = 0.
Proof.
  induction n as [|n IH]; intros b; cbn [gf_mul_fuel]; [reflexivity|].
  rewrite xtime_0, IH. destruct (N.odd b); reflexivity.
Qed.

Lemma fuel_lt n : forall a b, a < two128 -> gf_mul_fuel n a b < two128.
Proof.
  induction n as [|n IH]; intros a b H; cbn [gf_mul_fuel]; [reflexivity|].
  apply lxor_lt128; [destruct (N.odd b); [assumption|reflexivity]|apply IH, xtime_lt, H].
Qed.

Lemma fuel_lxor_r n : forall a b1 b2,
  gf_mul_fuel n a (N.lxor b1 b2) = N.lxor (gf_mul_fuel n a b1) (gf_mul_fuel n a b2).
Proof.
  induction n as [|n IH]; intros a b1 b2; cbn [gf_mul_fuel]; [reflexivity|].
  rewrite div2_lxor, IH, odd_lxor.
  destruct (N.odd b1); destruct (N.odd b2); cbn [xorb]; xsolve.
Qed.

Lemma fuel_lxor_l n : forall a1 a2 b, a1 < two128 -> a2 < two128 ->
  gf_mul_fuel n (N.lxor a1 a2) b = N.lxor (gf_mul_fuel n a1 b) (gf_mul_fuel n a2 b).
Proof.
  induction n as [|n IH]; intros a1 a2 b H1 H2; cbn [gf_mul_fuel]; [reflexivity|].
  rewrite xtime_lxor, IH by (try apply xtime_lt; assumption).
  destruct (N.odd b); xsolve.
Qed.

Lemma fuel_xtime n : forall a c, a < two128 ->
  gf_mul_fuel n (xtime a) c = xtime (gf_mul_fuel n a c).
Proof.
  induction n as [|n IH]; intros a c H; cbn [gf_mul_fuel]; [reflexivity|].
  rewrite xtime_lxor.
  - rewrite IH by (apply xtime_lt, H). destruct (N.odd c); [reflexivity|rewrite xtime_0; reflexivity].
  - destruct (N.odd c); [assumption|reflexivity].
  - apply fuel_lt, xtime_lt, H.
Qed.

Lemma fuel_mono n : forall j a, (j < n)%nat -> gf_mul_fuel n a (2 ^ N.of_nat j) = xpow j a.
Proof.
  induction n as [|n IH]; intros j a Hj; [lia|]. cbn [gf_mul_fuel]. destruct j as [|j].
  - change (2 ^ N.of_nat 0) with 1. cbn [N.odd N.div2 xpow]. rewrite fuel_0_r. apply N.lxor_0_r.
  - rewrite Nat2N.inj_succ, N.pow_succ_r'.
    rewrite N.odd_mul, N.odd_2, N.div2_double. cbn [andb xpow].
    rewrite N.lxor_0_l. apply IH. lia.
Qed.

(** * Additive maps that agree on the 128 monomials agree below 2^128 *)

Section Basis.
  Variable T : Type.
  Variable op : T -> T -> T.
  Variables f g : N -> T.
  Hypothesis Hf : forall x y, x < two128 -> y < two128 -> f (N.lxor x y) = op (f x) (f y).
  Hypothesis Hg : forall x y, x < two128 -> y < two128 -> g (N.lxor x y) = op (g x) (g y).
  Hypothesis H0 : f 0 = g 0.
  Hypothesis Hb : forall i, (i < 128)%nat -> f (2 ^ N.of_nat i) = g (2 ^ N.of_nat i).

  Lemma basis_ind k : (k <= 128)%nat -> forall x, x < 2 ^ N.of_nat k -> f x = g x.
  Proof.
    induction k as [|k IH]; intros Hk x Hx.
    - change (2 ^ N.of_nat 0) with 1 in Hx. assert (x = 0) by lia. subst x. exact H0.
    - rewrite Nat2N.inj_succ, N.pow_succ_r' in Hx.
      assert (Hq : 2 ^ N.of_nat k < two128) by (unfold two128; apply N.pow_lt_mono_r; lia).
      set (q := 2 ^ N.of_nat k) in *.
      assert (Hq0 : q <> 0) by (apply N.pow_nonzero; discriminate).
      pose proof (N.div_mod' x q) as D.
      pose proof (N.mod_lt x q Hq0) as Hr.
      assert (Ht : x / q < 2) by (apply N.div_lt_upper_bound; [assumption|lia]).
      set (t := x / q) in *. set (r := x mod q) in *.
      assert (Hc : t = 0 \/ t = 1) by lia.
      destruct Hc as [E|E]; rewrite E in D.
      + apply IH; [lia|]. fold q. lia.
      + assert (Ex : x = N.lxor r q).
        { unfold q. rewrite <- lxor_add_pow2 by exact Hr. fold q. lia. }
        rewrite Ex. rewrite Hf, Hg by (try assumption; apply N.lt_trans with q; assumption).
        f_equal; [apply IH; [lia|exact Hr]|apply Hb; lia].
  Qed.

  Lemma basis_agree x : x < two128 -> f x = g x.
  Proof. apply (basis_ind 128 (le_n _)). Qed.
End Basis.

(** * Field laws of [gf_spec] *)

Lemma spec_lxor_r a b1 b2 : gf_spec a (N.lxor b1 b2) = N.lxor (gf_spec a b1) (gf_spec a b2).
Proof. apply fuel_lxor_r. Qed.

Lemma spec_lxor_l a1 a2 b : a1 < two128 -> a2 < two128 ->
  gf_spec (N.lxor a1 a2) b = N.lxor (gf_spec a1 b) (gf_spec a2 b).
Proof. apply fuel_lxor_l. Qed.

Lemma spec_lt a b : a < two128 -> gf_spec a b < two128.
Proof. apply fuel_lt. Qed.

Lemma spec_0_r a : gf_spec a 0 = 0.
Proof. apply fuel_0_r. Qed.
Lemma spec_0_l b : gf_spec 0 b = 0.
Proof. apply fuel_0_l. Qed.

Lemma spec_mono a j : (j < 128)%nat -> gf_spec a (2 ^ N.of_nat j) = xpow j a.
Proof. apply fuel_mono. Qed.

Lemma spec_xtime_l a c : a < two128 -> gf_spec (xtime a) c = xtime (gf_spec a c).
Proof. apply fuel_xtime. Qed.

Lemma spec_xpow_l j : forall a c, a < two128 -> gf_spec (xpow j a) c = xpow j (gf_spec a c).
Proof.
  induction j as [|j IH]; intros a c H; cbn [xpow]; [reflexivity|].
  rewrite IH by (apply xtime_lt, H). rewrite spec_xtime_l by exact H. reflexivity.
Qed.

Lemma pow2_lt128 i : (i < 128)%nat -> 2 ^ N.of_nat i < two128.
Proof. intros H. unfold two128. apply N.pow_lt_mono_r; lia. Qed.

Lemma spec_mono_comm i j : (i < 128)%nat -> (j < 128)%nat ->
  gf_spec (2 ^ N.of_nat i) (2 ^ N.of_nat j) = gf_spec (2 ^ N.of_nat j) (2 ^ N.of_nat i).
Proof.
  intros Hi Hj. rewrite !spec_mono by assumption.
  rewrite <- !xpow_one by assumption. rewrite !xpow_add. f_equal. apply Nat.add_comm.
Qed.

Lemma spec_comm_mono i b : (i < 128)%nat -> b < two128 ->
  gf_spec (2 ^ N.of_nat i) b = gf_spec b (2 ^ N.of_nat i).
Proof.
  intros Hi. apply (basis_agree N N.lxor (gf_spec (2 ^ N.of_nat i)) (fun b => gf_spec b (2 ^ N.of_nat i))).
  - intros; apply spec_lxor_r.
  - intros; apply spec_lxor_l; assumption.
  - rewrite spec_0_r, spec_0_l. reflexivity.
  - intros j Hj. apply spec_mono_comm; assumption.
Qed.

Theorem spec_comm a b : a < two128 -> b < two128 -> gf_spec a b = gf_spec b a.
Proof.
  intros Ha Hb. revert a Ha.
  apply (basis_agree N N.lxor (fun a => gf_spec a b) (gf_spec b)).
  - intros; apply spec_lxor_l; assumption.
  - intros; apply spec_lxor_r.
  - rewrite spec_0_r, spec_0_l. reflexivity.
  - intros i Hi. apply spec_comm_mono; assumption.
Qed.

Theorem spec_one_r a : gf_spec a 1 = a.
Proof. apply (spec_mono a 0). lia. Qed.

Theorem spec_one_l a : a < two128 -> gf_spec 1 a = a.
Proof. intros H. rewrite spec_comm by (try assumption; reflexivity). apply spec_one_r. Qed.

Lemma spec_xpow_r j a c : a < two128 -> c < two128 ->
  gf_spec a (xpow j c) = xpow j (gf_spec a c).
Proof.
  intros Ha Hc. rewrite spec_comm by (try apply xpow_lt; assumption).
  rewrite spec_xpow_l by assumption. rewrite (spec_comm c a) by assumption. reflexivity.
Qed.

Theorem spec_assoc a b c : a < two128 -> b < two128 -> c < two128 ->
  gf_spec (gf_spec a b) c = gf_spec a (gf_spec b c).
Proof.
  intros Ha Hb Hc. revert b Hb.
  apply (basis_agree N N.lxor (fun b => gf_spec (gf_spec a b) c) (fun b => gf_spec a (gf_spec b c))).
  - intros x y Hx Hy. rewrite spec_lxor_r. apply spec_lxor_l; apply spec_lt; assumption.
  - intros x y Hx Hy. rewrite spec_lxor_l by assumption. apply spec_lxor_r.
  - rewrite spec_0_r, !spec_0_l, spec_0_r. reflexivity.
  - intros j Hj. rewrite spec_mono by assumption.
    rewrite spec_xpow_l by assumption.
    rewrite (spec_comm (2 ^ N.of_nat j) c) by (try apply pow2_lt128; assumption).
    rewrite spec_mono by assumption. rewrite spec_xpow_r by assumption. reflexivity.
Qed.

(** * Little-endian byte strings *)

Definition byteP (x : N) : Prop := x < 256.

Lemma bytes_ok_Forall l : bytes_ok l = true <-> Forall byteP l.
Proof.
  unfold bytes_ok. rewrite forallb_forall, Forall_forall. unfold byte_ok, byteP.
  split; intros H x Hx; [apply N.ltb_lt|apply N.ltb_lt]; auto.
Qed.

Lemma bytes16_inv l : bytes16 l = true -> length l = 16%nat /\ Forall byteP l.
Proof.
  unfold bytes16. intros H. apply andb_true_iff in H. destruct H as [H1 H2].
  split; [apply Nat.eqb_eq; assumption|apply bytes_ok_Forall; assumption].
Qed.

Lemma Forall_byte_inm l : Forall byteP l -> Forall (inm 255) l.
Proof. apply Forall_impl. intros x. apply byte_lt. Qed.

Lemma to_le_length n : forall v, length (to_le n v) = n.
Proof. induction n as [|n IH]; intros v; cbn [to_le length]; [reflexivity|rewrite IH; reflexivity]. Qed.

Lemma to_le_bytes n : forall v, Forall byteP (to_le n v).
Proof.
  induction n as [|n IH]; intros v; cbn [to_le]; constructor; [|apply IH].
  apply N.mod_lt. discriminate.
Qed.

Lemma to_le_bytes16 v : bytes16 (to_le 16 v) = true.
Proof.
  unfold bytes16. apply andb_true_iff. split.
  - apply Nat.eqb_eq, to_le_length.
  - apply bytes_ok_Forall, to_le_bytes.
Qed.

Lemma to_le_lxor n : forall u v, to_le n (N.lxor u v) = xorl (to_le n u) (to_le n v).
Proof.
  induction n as [|n IH]; intros u v; cbn [to_le xorl]; [reflexivity|].
  f_equal; [apply u8_lxor|].
  change 256 with (2 ^ 8). rewrite div_pow2_lxor. apply IH.
Qed.

Lemma of_le_to_le n : forall v, v < 256 ^ N.of_nat n -> of_le (to_le n v) = v.
Proof.
  induction n as [|n IH]; intros v Hv; cbn [to_le of_le].
  - change (256 ^ N.of_nat 0) with 1 in Hv. lia.
  - rewrite Nat2N.inj_succ, N.pow_succ_r' in Hv.
    rewrite IH by (apply N.div_lt_upper_bound; [discriminate|assumption]).
    pose proof (N.div_mod' v 256). lia.
Qed.

Lemma to_le_of_le l : Forall byteP l -> to_le (length l) (of_le l) = l.
Proof.
  induction 1 as [|x r Hx Hr IH]; cbn [length to_le of_le]; [reflexivity|].
  unfold byteP in Hx.
  rewrite (N.mul_comm 256), N.mod_add, N.div_add by discriminate.
  rewrite N.mod_small, N.div_small by assumption. rewrite N.add_0_l, IH. reflexivity.
Qed.

Lemma of_le_lt l : Forall byteP l -> of_le l < 256 ^ N.of_nat (length l).
Proof.
  induction 1 as [|x r Hx Hr IH]; cbn [length of_le]; [reflexivity|].
  rewrite Nat2N.inj_succ, N.pow_succ_r'. unfold byteP in Hx.
  set (p := 256 ^ N.of_nat (length r)) in *. lia.
Qed.

Lemma pow256_16 : 256 ^ N.of_nat 16 = two128.
Proof. reflexivity. Qed.

Lemma of_le_to_le16 v : v < two128 -> of_le (to_le 16 v) = v.
Proof. intros H. apply of_le_to_le. rewrite pow256_16. exact H. Qed.

Lemma to_le_of_le16 l : bytes16 l = true -> to_le 16 (of_le l) = l.
Proof. intros H. destruct (bytes16_inv l H) as [L B]. rewrite <- L. apply to_le_of_le, B. Qed.

Lemma of_le_lt16 l : bytes16 l = true -> of_le l < two128.
Proof.
  intros H. destruct (bytes16_inv l H) as [L B]. rewrite <- pow256_16, <- L. apply of_le_lt, B.
Qed.
