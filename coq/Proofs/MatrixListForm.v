(** C20, part 4: list form of the inverse theorem ([mat_mul q M' M = mat_id n]), by transporting [mat_mul]/[mat_id]
    to MathComp's product and identity.  Used by C13 (Birkhoff coefficients = row 0 of the inverse). *)
Set Warnings "-ambiguous-paths,-notation-overridden,-redundant-canonical-projection".
From mathcomp Require Import all_ssreflect all_fingroup all_algebra.
From Coq Require Import ZArith.
From SL Require Import Lib.Base Model.Matrix Proofs.MatrixInv Proofs.MatrixList Proofs.MatrixField.
From mathcomp Require Import zify ring.
Import GRing.Theory.
Set Implicit Arguments.
Unset Strict Implicit.
Unset Printing Implicit Defensive.
Local Open Scope ring_scope.

Arguments wf_mat_shape [q n m].
Arguments wf_mat_range [q n m j k].
Arguments wf_mat_intro [q n m].
Arguments mat_mul_wf q [n a b].
Arguments mat_col_nth [n b] k [i].
Arguments mat_col_length [n b] k.
Arguments ent_ext [n a b].

Section ListForm.
Variable q : Z.
Hypothesis q_prime : Znumtheory.prime q.
Let Hq : (0 < q)%Z. Proof. have := q_gt1 q_prime; lia. Qed.

Definition dot_step (acc : Z) (ab : Z * Z) : Z := zq_add q acc (zq_mul q (fst ab) (snd ab)).

Lemma dot_fold_range l acc : (0 <= acc < q)%Z -> (0 <= fold_left dot_step l acc < q)%Z.
Proof. by elim: l acc => [|ab l IH] acc Ha //=; apply: IH; apply: zq_add_range. Qed.

Lemma Z2F_dot_fold n : forall u v acc, length u = n -> length v = n ->
  (forall i, (0 <= nth i u 0)%Z) -> (forall i, (0 <= nth i v 0)%Z) -> (0 <= acc)%Z ->
  Z2F q (fold_left dot_step (combine u v) acc)
    = Z2F q acc + \sum_(i < n) Z2F q (nth i u 0%Z) * Z2F q (nth i v 0%Z).
Proof.
elim: n => [|n IH] [|x u] [|y v] acc //= Lu Lv Hu Hv Ha; first by rewrite big_ord0 addr0.
case: Lu => Lu; case: Lv => Lv.
have Hx := Hu 0%nat; have Hy := Hv 0%nat; rewrite /= in Hx Hy.
have [? ?] := zq_mul_range q x y Hq.
rewrite (IH u v) //.
- rewrite big_ord_recl /= /dot_step /= Z2F_zq_add // Z2F_zq_mul // addrA. by [].
- by move=> i; apply: (Hu i.+1).
- by move=> i; apply: (Hv i.+1).
- by have [? ?] := zq_add_range q acc (zq_mul q x y) Hq.
Qed.

Lemma mxof_mat_mul n a b : (0 < n)%coq_nat -> wf_mat q n a -> wf_mat q n b ->
  wf_mat q n (mat_mul q a b) /\ mxof q n (mat_mul q a b) = mxof q n a *m mxof q n b.
Proof.
move=> Hn Wa Wb.
have Sa := wf_mat_shape Wa. have Sb := wf_mat_shape Wb.
have [S X] := mat_mul_wf q Hn Sa Sb.
split.
- apply: wf_mat_intro => // j k Hj Hk. rewrite X // /dot.
  apply: (@dot_fold_range _ 0%Z). lia.
- apply/matrixP=> j k. rewrite !mxE.
  have Hj : (j < n)%coq_nat by have := ltn_ord j; lia.
  have Hk : (k < n)%coq_nat by have := ltn_ord k; lia.
  rewrite X // /dot.
  rewrite (@Z2F_dot_fold n) //.
  + rewrite Z2F_0 // add0r. apply: eq_bigr => i _.
    have Hi : (i < n)%coq_nat by have := ltn_ord i; lia.
    by rewrite !mxE (mat_col_nth k Sb Hi).
  + by case: Sa => _; apply.
  + exact: mat_col_length.
  + move=> i. have [Hi|Hi] := ltnP i n.
    * by have [? _] := wf_mat_range Wa (j:=j) (k:=i) ltac:(lia) ltac:(lia).
    * rewrite nth_overflow; first lia. case: Sa => _ ->; lia.
  + move=> i. have [Hi|Hi] := ltnP i n.
    * rewrite (mat_col_nth k Sb); last lia.
      by have [? _] := wf_mat_range Wb (j:=i) (k:=k) ltac:(lia) ltac:(lia).
    * rewrite nth_overflow; first lia. rewrite (mat_col_length k Sb); lia.
Qed.

Lemma mxof_mat_id n : wf_mat q n (mat_id n) /\ mxof q n (mat_id n) = 1%:M.
Proof.
have [S X] := mat_id_wf n. have H1 := q_gt1 q_prime. split.
- apply: wf_mat_intro => // j k Hj Hk. rewrite X //. case: Nat.eqb; lia.
- apply/matrixP=> j k. rewrite !mxE X; try (have := ltn_ord j; have := ltn_ord k; lia).
  case: Nat.eqb_spec => E.
  + have -> : j = k by apply: val_inj. by rewrite eqxx Z2F_1.
  + case: eqP => [E'|_]; last by rewrite Z2F_0. by case: E; rewrite E'.
Qed.

Lemma mxof_inj n a b : wf_mat q n a -> wf_mat q n b -> mxof q n a = mxof q n b -> a = b.
Proof.
move=> Wa Wb E. apply: (ent_ext (wf_mat_shape Wa) (wf_mat_shape Wb)) => j k Hj Hk.
have Hj' : (j < n)%nat by lia. have Hk' : (k < n)%nat by lia.
have := congr1 (fun M : 'M_n => M (Ordinal Hj') (Ordinal Hk')) E. rewrite !mxE /=.
by apply: (Z2F_inj q_prime); [apply: (wf_mat_range Wa)|apply: (wf_mat_range Wb)].
Qed.

(** List form of the inverse theorem: no MathComp notion in the statement. *)
Theorem inverse_correct_list n m : (0 < n)%coq_nat -> wf_mat q n m -> bareiss q m n <> Val 0%Z ->
  exists m', [/\ matrix_inverse q m n = Val m', wf_mat q n m',
                 mat_mul q m' m = mat_id n & mat_mul q m m' = mat_id n].
Proof.
move=> Hn W Hd.
have Nd : \det (mxof q n m) != 0.
  by apply/eqP=> E; apply: Hd; rewrite (bareiss_det q_prime W) E (F2Z_0 q_prime).
have [m' [E W' L R]] := inverse_correct_mx q_prime Hn W Nd.
exists m'; split=> //.
- have [W1 E1] := mxof_mat_mul Hn W' W. have [W2 E2] := mxof_mat_id n.
  by apply: (mxof_inj W1 W2); rewrite E1 E2.
- have [W1 E1] := mxof_mat_mul Hn W W'. have [W2 E2] := mxof_mat_id n.
  by apply: (mxof_inj W1 W2); rewrite E1 E2.
Qed.

(** ... and the determinant: a value, which is 0 exactly for the singular matrices. *)
Lemma bareiss_zero_iff n m : wf_mat q n m -> (bareiss q m n = Val 0%Z <-> \det (mxof q n m) = 0).
Proof.
move=> W; rewrite (bareiss_det q_prime W); split=> [[E]|->]; last by rewrite (F2Z_0 q_prime).
by rewrite -(Z2F_F2Z q_prime (\det _)) E Z2F_0.
Qed.

(** The singular case, exactly: the determinant comes back as the VALUE 0, and the only failure of [matrix_inverse]
    is the [unwrap] of [Scalar::invert] on that 0 -- never an arithmetic failure inside the elimination. *)
Lemma inverse_singular n m : wf_mat q n m -> bareiss q m n = Val 0%Z ->
  matrix_inverse q m n = Panic P_UNWRAP_INV.
Proof. by move=> W E; rewrite /matrix_inverse E /expect_det /obind zq_invert_zero. Qed.

(** The result is THE inverse: every well-shaped one-sided inverse of m equals the matrix returned. *)
Lemma inverse_unique n m m' x : (0 < n)%coq_nat -> wf_mat q n m -> wf_mat q n m' -> wf_mat q n x ->
  mat_mul q m' m = mat_id n -> mat_mul q m m' = mat_id n ->
  (mat_mul q x m = mat_id n \/ mat_mul q m x = mat_id n) -> x = m'.
Proof.
move=> Hn W W' Wx L R H. apply: (mxof_inj Wx W').
have [_ Eid] := mxof_mat_id n.
have [_ EL] := mxof_mat_mul Hn W' W. have [_ ER] := mxof_mat_mul Hn W W'.
have L' : mxof q n m' *m mxof q n m = 1%:M by rewrite -EL L Eid.
have R' : mxof q n m *m mxof q n m' = 1%:M by rewrite -ER R Eid.
case: H => H.
- have [_ EX] := mxof_mat_mul Hn Wx W.
  have X' : mxof q n x *m mxof q n m = 1%:M by rewrite -EX H Eid.
  by rewrite -[LHS]mulmx1 -R' mulmxA X' mul1mx.
- have [_ EX] := mxof_mat_mul Hn W Wx.
  have X' : mxof q n m *m mxof q n x = 1%:M by rewrite -EX H Eid.
  by rewrite -[LHS]mul1mx -L' -mulmxA X' mulmx1.
Qed.
End ListForm.

Lemma det_mx22 (R : comRingType) (A : 'M[R]_2) : \det A = A 0 0 * A 1 1 - A 0 1 * A 1 0.
Proof.
rewrite (expand_det_row A 0) !big_ord_recl big_ord0 /cofactor !det_mx11 !mxE /=.
have -> : lift (0 : 'I_2) 0 = 1 by apply: val_inj.
have -> : lift (1 : 'I_2) (0 : 'I_1) = 0 :> 'I_2 by apply: val_inj.
by rewrite /bump /= !addn0 expr0 expr1 mul1r mulN1r mulrN addr0.
Qed.

(** Anchor for the abstraction [mxof]/[F2Z]: the 2 x 2 determinant in closed form over Z. *)
Section Anchor.
Variable q : Z.
Hypothesis q_prime : Znumtheory.prime q.
Lemma bareiss_2x2 a b c d : (0 <= a < q)%Z -> (0 <= b < q)%Z -> (0 <= c < q)%Z -> (0 <= d < q)%Z ->
  bareiss q [:: [:: a; b]; [:: c; d]] 2 = Val ((a * d - b * c) mod q)%Z.
Proof.
move=> Ha Hb Hc Hd.
have Hq : (0 < q)%Z by have := q_gt1 q_prime; lia.
have W : wf_mat q 2 [:: [:: a; b]; [:: c; d]].
  split=> //. apply: List.Forall_cons; last apply: List.Forall_cons; last exact: List.Forall_nil.
  - by split=> //; apply: List.Forall_cons => //; apply: List.Forall_cons => //.
  - by split=> //; apply: List.Forall_cons => //; apply: List.Forall_cons => //.
rewrite (bareiss_det q_prime W) det_mx22 !mxE /= !modn_small // /ent /=. congr Val.
have -> : ((a * d - b * c) mod q)%Z = zq_sub q (zq_mul q a d) (zq_mul q b c).
  by rewrite /zq_sub /zq_mul -Zminus_mod.
have [? ?] := zq_mul_range q a d Hq. have [? ?] := zq_mul_range q b c Hq.
rewrite -!(Z2F_zq_mul q_prime) -?(Z2F_zq_sub q_prime); try lia.
rewrite (F2Z_Z2F q_prime) //. exact: zq_sub_range.
Qed.
End Anchor.
