(** C20, part 3 (MathComp style): the model of Model/Matrix.v against MathComp's Leibniz determinant.

    Scalars [0 <= z < q] are related to the prime field ['F_p], p = Z.to_nat q, by [Z2F]/[F2Z] (a bijection
    that maps zq_add/zq_sub/zq_mul/zq_invert to the field operations); a list matrix [m] is abstracted to
    [mxof n m : 'M['F_p]_n].  Main results, for EVERY dimension n, under the section hypothesis [prime q]:
      - [bareiss_det]        bareiss q m n = Val (\det (mxof n m))          (n = 0 included)
      - [bareiss_singular]   zero determinant => Val 0 (never Err / Panic)
      - [inverse_correct_mx] n >= 1, det <> 0 => matrix_inverse returns M' with M' * M = M * M' = 1.
    Proof of the determinant: induction on the number of remaining elimination steps with the invariant
      result = sign * \det (trailing block) / (previous pivot)^(remaining steps),
    using CoqEAL's [bareiss_key_lemma] (Schur-type identity) for one step, [det_perm] for the row swap
    and a zero first column for the early exit.  The "previous pivot is not invertible" branch is unreachable
    because the previous pivot is a non-zero pivot ([prev_ok]) and q is prime. *)
Set Warnings "-ambiguous-paths,-notation-overridden,-redundant-canonical-projection".
From mathcomp Require Import all_ssreflect all_fingroup all_algebra.
From Coq Require Import ZArith.
From CoqEAL Require Import bareiss.
From SL Require Import Lib.Base Model.Matrix Proofs.MatrixInv Proofs.MatrixList.
From mathcomp Require Import zify ring.
Import GRing.Theory.
Set Implicit Arguments.
Unset Strict Implicit.
Unset Printing Implicit Defensive.
Local Open Scope ring_scope.

Arguments mget_wf [n m j k].
Arguments wf_mat_shape [q n m].
Arguments wf_mat_range [q n m j k].
Arguments wf_mat_intro [q n m].
Arguments eliminate_wf q [n i] sc [m].
Arguments pivot_wf q [n i m] s.
Arguments bareiss_unfold q [n m].
Arguments bareiss_empty q [m].
Arguments matrix_minor_wf [n m r c].
Arguments transpose_wf [n m].
Arguments cofactors_wf q [n m] g.
Arguments map_map_wf [n m] f.

Section Field.
Variable q : Z.
Hypothesis q_prime : Znumtheory.prime q.

Definition p : nat := Z.to_nat q.

Lemma q_gt1 : (1 < q)%Z.
Proof. have := Znumtheory.prime_ge_2 q q_prime. lia. Qed.

Lemma Zp_q : Z.of_nat p = q.
Proof. rewrite /p. have := q_gt1. lia. Qed.

Lemma p_prime : prime p.
Proof.
apply/primeP; split; first by have := q_gt1; rewrite /p; lia.
move=> d /dvdnP [k Hk].
have Hd : (Z.of_nat d | q)%Z by exists (Z.of_nat k); rewrite -Zp_q Hk; lia.
have := Znumtheory.prime_divisors q q_prime _ Hd.
rewrite -Zp_q => H. apply/orP.
have [E|NE] := eqVneq d 1%nat; first by left.
right. apply/eqP. lia.
Qed.

Definition F : fieldType := [fieldType of 'F_p].

Definition Z2F (z : Z) : F := (Z.to_nat (z mod q))%:R.
Definition F2Z (x : F) : Z := Z.of_nat (nat_of_ord x).

Lemma p_eq0 : p%:R = 0 :> F.
Proof. exact: (char_Fp_0 p_prime). Qed.

Lemma Z2F_nat (n : nat) : Z2F (Z.of_nat n) = n%:R.
Proof.
rewrite /Z2F -Zp_q -Nat2Z.inj_mod Nat2Z.id.
have Hp : p <> 0%nat by have := q_gt1; rewrite /p; lia.
rewrite {2}(Nat.div_mod n p Hp).
rewrite -[(_ + _)%coq_nat]/(addn _ _) -[(_ * _)%coq_nat]/(muln _ _).
by rewrite natrD natrM p_eq0 mul0r add0r.
Qed.

Lemma Z2F_mod z : Z2F (z mod q) = Z2F z.
Proof. by rewrite /Z2F Zmod_mod. Qed.

Lemma Z2F_nonneg z : (0 <= z)%Z -> Z2F z = (Z.to_nat z)%:R.
Proof. by move=> Hz; rewrite -{1}(Z2Nat.id z Hz) Z2F_nat. Qed.

Lemma Z2F_add_nn a b : (0 <= a)%Z -> (0 <= b)%Z -> Z2F (a + b) = Z2F a + Z2F b.
Proof.
move=> Ha Hb; rewrite !Z2F_nonneg //; last lia.
by rewrite Z2Nat.inj_add // -[(_ + _)%coq_nat]/(addn _ _) natrD.
Qed.

Lemma Z2F_mul_nn a b : (0 <= a)%Z -> (0 <= b)%Z -> Z2F (a * b) = Z2F a * Z2F b.
Proof.
move=> Ha Hb; rewrite !Z2F_nonneg //; last lia.
by rewrite Z2Nat.inj_mul // -[(_ * _)%coq_nat]/(muln _ _) natrM.
Qed.

Lemma Z2F_0 : Z2F 0 = 0.
Proof. by rewrite (Z2F_nat 0). Qed.

Lemma Z2F_1 : Z2F 1 = 1.
Proof. by rewrite (Z2F_nat 1). Qed.

Lemma Z2F_zq_mul a b : (0 <= a)%Z -> (0 <= b)%Z -> Z2F (zq_mul q a b) = Z2F a * Z2F b.
Proof. by move=> Ha Hb; rewrite /zq_mul Z2F_mod Z2F_mul_nn. Qed.

Lemma Z2F_zq_add a b : (0 <= a)%Z -> (0 <= b)%Z -> Z2F (zq_add q a b) = Z2F a + Z2F b.
Proof. by move=> Ha Hb; rewrite /zq_add Z2F_mod Z2F_add_nn. Qed.

Lemma Z2F_zq_sub a b : (0 <= a)%Z -> (0 <= b)%Z -> Z2F (zq_sub q a b) = Z2F a - Z2F b.
Proof.
move=> Ha Hb. apply/eqP; rewrite eq_sym subr_eq; apply/eqP.
have Hq := q_gt1.
have Hc : (0 <= zq_sub q a b < q)%Z by apply: zq_sub_range; lia.
rewrite -Z2F_add_nn //; last lia.
rewrite -(Z2F_mod (_ + _)) /zq_sub Zplus_mod_idemp_l.
by rewrite (_ : (a - b + b = a)%Z) ?Z2F_mod //; lia.
Qed.

Lemma Z2F_zq_neg a : (0 <= a)%Z -> Z2F (zq_neg q a) = - Z2F a.
Proof.
move=> Ha. have -> : zq_neg q a = zq_sub q 0 a by rewrite /zq_neg /zq_sub.
by rewrite Z2F_zq_sub // Z2F_0 sub0r.
Qed.

Lemma scalar_ops a b : (0 <= a < q)%Z -> (0 <= b < q)%Z ->
  [/\ Z2F (zq_add q a b) = Z2F a + Z2F b,
      Z2F (zq_sub q a b) = Z2F a - Z2F b,
      Z2F (zq_mul q a b) = Z2F a * Z2F b &
      Z2F (zq_neg q a) = - Z2F a].
Proof.
move=> [Ha _] [Hb _].
by split; [apply: Z2F_zq_add|apply: Z2F_zq_sub|apply: Z2F_zq_mul|apply: Z2F_zq_neg].
Qed.

Lemma F2Z_range x : (0 <= F2Z x < q)%Z.
Proof.
rewrite /F2Z -Zp_q. have := ltn_ord x. rewrite [X in (_ < X)%nat](Fp_cast p_prime). lia.
Qed.

Lemma F2Z_Z2F z : (0 <= z < q)%Z -> F2Z (Z2F z) = z.
Proof.
move=> Hz. rewrite /F2Z /Z2F Z.mod_small // (val_Fp_nat p_prime) modn_small; first lia.
rewrite /p. lia.
Qed.

Lemma Z2F_F2Z x : Z2F (F2Z x) = x.
Proof. by rewrite /F2Z Z2F_nat natr_Zp. Qed.

Lemma Z2F_inj a b : (0 <= a < q)%Z -> (0 <= b < q)%Z -> Z2F a = Z2F b -> a = b.
Proof. by move=> Ha Hb E; rewrite -(F2Z_Z2F Ha) -(F2Z_Z2F Hb) E. Qed.

Lemma Z2F_eq0 z : (0 <= z < q)%Z -> (Z2F z == 0) = (z =? 0)%Z.
Proof.
move=> Hz. apply/eqP/idP.
- move=> E; apply/Z.eqb_eq; apply: (Z2F_inj Hz); last by rewrite Z2F_0.
  by have := q_gt1; lia.
- by move/Z.eqb_eq => ->; rewrite Z2F_0.
Qed.

Lemma Z2F_neq0 z : (0 <= z < q)%Z -> z <> 0%Z -> Z2F z != 0.
Proof. by move=> Hz Nz; rewrite Z2F_eq0 //; apply/negP => /Z.eqb_eq. Qed.

Lemma Z2F_invert a : (0 <= a < q)%Z -> a <> 0%Z ->
  exists v, [/\ zq_invert q a = Some v, (0 <= v < q)%Z & Z2F v = (Z2F a)^-1].
Proof.
move=> Ha Na.
have [|v [E [Hv Hm]]] := @zq_invert_prime q a q_prime; first lia.
exists v; split=> //.
have H1 : Z2F a * Z2F v = 1.
  by rewrite -Z2F_mul_nn; try lia; rewrite -Z2F_mod Hm Z2F_1.
have Nz : Z2F a != 0.
  by apply/eqP=> E0; move: H1; rewrite E0 mul0r => /eqP; rewrite eq_sym oner_eq0.
by rewrite -[LHS](mulKf Nz) H1 mulr1.
Qed.

(** * Matrices *)
Definition mxof (n : nat) (m : mat) : 'M[F]_n := \matrix_(i, j) Z2F (ent m i j).
Definition trail (i k : nat) (m : mat) : 'M[F]_(k.+1) := \matrix_(a, b) Z2F (ent m (i + a) (i + b)).
Definition dprev (i : nat) (m : mat) : F := if i is i'.+1 then Z2F (ent m i' i') else 1.

Lemma det_step k (d : F) (T : 'M[F]_(1 + k.+1)) : d != 0 -> T 0 0 != 0 ->
  \det (d^-1 *: (T 0 0 *: drsubmx T - dlsubmx T *m ursubmx T)) / (T 0 0) ^+ k = \det T / d ^+ k.+1.
Proof.
move=> Hd Ha. set a := T 0 0.
have Eul : ulsubmx T = a%:M by apply/rowP=> i; rewrite ord1 !mxE !lshift0.
have K := bareiss_key_lemma a (ursubmx T) (dlsubmx T) (drsubmx T).
rewrite -Eul submxK in K.
have {}K : \det (a *: drsubmx T - dlsubmx T *m ursubmx T) = a ^+ k * \det T.
  apply: (mulfI Ha). by rewrite -K exprS mulrA.
rewrite detZ K exprVn.
have : a ^+ k != 0 by rewrite expf_neq0.
have : d ^+ k.+1 != 0 by rewrite expf_neq0.
move: (a ^+ k) (d ^+ k.+1) (\det T) => x y t Hy Hx.
by field; rewrite Hx Hy.
Qed.

Lemma det_zero_col k (T : 'M[F]_k.+1) : (forall a, T a 0 = 0) -> \det T = 0.
Proof. by move=> H; rewrite (expand_det_col T 0) big1 // => a _; rewrite H mul0r. Qed.

Lemma det_xrow0 k (T : 'M[F]_k.+1) r : r != 0 -> \det (xrow 0 r T) = - \det T.
Proof.
move=> Hr. rewrite xrowE det_mulmx /tperm_mx det_perm odd_tperm eq_sym Hr.
by rewrite expr1 mulN1r.
Qed.

Lemma cellv_range sc x a y b : (0 <= cellv q sc x a y b < q)%Z.
Proof.
have Hq : (0 < q)%Z by have := q_gt1; lia.
by rewrite /cellv; case: sc => [||v] /=; [apply: zq_sub_range|apply: zq_sub_range|apply: zq_mul_range].
Qed.

Lemma Z2F_cellv sc (x a y b : Z) (dv : F) :
  (0 <= x)%Z -> (0 <= a)%Z -> (0 <= y)%Z -> (0 <= b)%Z ->
  (forall v, (0 <= v < q)%Z -> Z2F (scale_apply q sc v) = dv * Z2F v) ->
  Z2F (cellv q sc x a y b) = dv * (Z2F x * Z2F a - Z2F y * Z2F b).
Proof.
move=> Hx Ha Hy Hb Hsc.
have Hq : (0 < q)%Z by have := q_gt1; lia.
rewrite /cellv Hsc; last by apply: zq_sub_range.
have [? ?] := zq_mul_range q x a Hq. have [? ?] := zq_mul_range q y b Hq.
by rewrite Z2F_zq_sub // !Z2F_zq_mul.
Qed.

Definition prev_ok (i : nat) (m : mat) : Prop := if i is i'.+1 then ent m i' i' <> 0%Z else True.

Lemma prev_scale_ok n i m : wf_mat q n m -> (i < n)%coq_nat -> prev_ok i m ->
  exists sc, [/\ prev_scale q i m = Val sc, sc <> NoInverse, dprev i m != 0 &
    forall v, (0 <= v < q)%Z -> Z2F (scale_apply q sc v) = (dprev i m)^-1 * Z2F v].
Proof.
move=> W Hi. case: i Hi => [|i'] Hi Hp /=.
- by exists NoScale; split; [by []|by []|by []|move=> v _; rewrite invr1 mul1r].
- rewrite /prev_scale /=.
  have -> : (i' - 0)%coq_nat = i' by lia.
  rewrite (mget_wf (wf_mat_shape W)); [|lia|lia]. rewrite /=.
  have Hr : (0 <= ent m i' i' < q)%Z by apply: (wf_mat_range W); lia.
  have [v [E Hv Ev]] := Z2F_invert Hr Hp.
  rewrite E. exists (ScaleBy v); split=> //.
  + exact: Z2F_neq0.
  + move=> x Hx /=. rewrite Z2F_zq_mul; [|lia|lia]. by rewrite Ev mulrC.
Qed.

Lemma prev_swap i r m m1 : (i < r)%coq_nat ->
  (forall j k, ent m1 j k = ent m (swap_idx i r j) k) ->
  prev_ok i m -> prev_ok i m1 /\ dprev i m1 = dprev i m.
Proof.
case: i => [|i'] //= Hr Hsw Hp. rewrite !Hsw /swap_idx.
have -> : (i' =? r)%coq_nat = false by apply/Nat.eqb_neq; lia.
have -> : (i' =? i'.+1)%coq_nat = false by apply/Nat.eqb_neq; lia.
by [].
Qed.

Lemma steps_correct k : forall i m s,
  wf_mat q (i + k + 1) m -> (0 <= s < q)%Z -> prev_ok i m ->
  bareiss_steps q (i + k + 1) (List.seq i k) m s
    = Val (F2Z (Z2F s * \det (trail i k m) / (dprev i m) ^+ k)).
Proof.
have Hq : (0 < q)%Z by have := q_gt1; lia.
elim: k => [|k IH] i m s W Hs Hp.
- rewrite /= .
  have -> : (i + 0 + 1 - 1)%coq_nat = i by lia.
  rewrite (mget_wf (wf_mat_shape W)); [|lia|lia]. rewrite /=. congr Val.
  rewrite expr0 divr1 det_mx11 mxE /= addn0.
  have Hr : (0 <= ent m i i < q)%Z by apply: (wf_mat_range W); lia.
  rewrite mulrC -Z2F_zq_mul; [|lia|lia]. rewrite F2Z_Z2F //. exact: zq_mul_range.
- have En : (i + k.+1 + 1 = i.+1 + k + 1)%nat by lia.
  set n := (i + k.+1 + 1)%nat in W *.
  have Hin : (i < n)%coq_nat by rewrite /n; lia.
  (* the part after the pivot search, for a matrix whose pivot is non-zero *)
  have continue : forall m1 s1, wf_mat q n m1 -> (0 <= s1 < q)%Z -> prev_ok i m1 -> ent m1 i i <> 0%Z ->
      obind (mget m1 i i) (fun p0 =>
        if zq_is_zero p0 then Val 0%Z
        else obind (prev_scale q i m1) (fun sc => obind (eliminate q n i sc m1) (fun m2 =>
               bareiss_steps q n (List.seq i.+1 k) m2 s1)))
      = Val (F2Z (Z2F s1 * \det (trail i k.+1 m1) / (dprev i m1) ^+ k.+1)).
    move=> m1 s1 W1 Hs1 Hp1 Hnz.
    have S1 := wf_mat_shape W1.
    rewrite (mget_wf S1) //= /zq_is_zero.
    have -> : (ent m1 i i =? 0)%Z = false by apply/Z.eqb_neq.
    have [sc [Esc Nsc Hd Hsc]] := prev_scale_ok W1 Hin Hp1.
    rewrite Esc /=.
    have [m2 [E2 [S2 X2]]] := eliminate_wf q sc S1 Hin Nsc.
    rewrite E2 /=.
    have R1 : forall a b, (a < n)%coq_nat -> (b < n)%coq_nat -> (0 <= ent m1 a b < q)%Z.
      by move=> a b Ha Hb; apply: (wf_mat_range W1).
    have W2 : wf_mat q n m2.
      apply: wf_mat_intro => // a b Ha Hb. rewrite X2.
      by case: ifP => _; [apply: cellv_range|apply: R1].
    have Hp2 : prev_ok i.+1 m2.
      rewrite /prev_ok X2. by rewrite Nat.ltb_irrefl.
    move: W2; rewrite /n En => W2.
    rewrite (IH i.+1 m2 s1 W2 Hs1 Hp2). congr Val. congr F2Z.
    rewrite -!mulrA; congr (_ * _).
    have Ed : dprev i.+1 m2 = Z2F (ent m1 i i) by rewrite /= X2 Nat.ltb_irrefl.
    set T : 'M[F]_(1 + k.+1) := trail i k.+1 m1.
    have ET00 : T 0 0 = Z2F (ent m1 i i) by rewrite /T mxE /= addn0.
    have Ha : T 0 0 != 0 by rewrite ET00; apply: Z2F_neq0 => //; apply: R1.
    rewrite Ed -ET00 -(det_step Hd Ha). congr (\det _ / _).
    apply/matrixP=> a b. rewrite !mxE big_ord1 !mxE /=.
    rewrite X2.
    have -> : (i <? i.+1 + a)%coq_nat = true by apply/Nat.ltb_lt; lia.
    have -> : (i.+1 + a <? n)%coq_nat = true by apply/Nat.ltb_lt; have := ltn_ord a; rewrite /n; lia.
    have -> : (i <? i.+1 + b)%coq_nat = true by apply/Nat.ltb_lt; lia.
    have -> : (i.+1 + b <? n)%coq_nat = true by apply/Nat.ltb_lt; have := ltn_ord b; rewrite /n; lia.
    rewrite /= /elimv (Z2F_cellv _ _ _ _ Hsc).
    + by rewrite !addn0 !addnA !addn1 [Z2F (ent m1 i i) * _]mulrC.
    + by have := R1 (i.+1 + a)%nat (i.+1 + b)%nat; have := ltn_ord a; have := ltn_ord b; rewrite /n; lia.
    + by have := R1 i i; lia.
    + by have := R1 (i.+1 + a)%nat i; have := ltn_ord a; rewrite /n; lia.
    + by have := R1 i (i.+1 + b)%nat; have := ltn_ord b; rewrite /n; lia.
  rewrite [List.seq i k.+1]/= [bareiss_steps _ _ _ _ _]/=.
  have [m1 [s1 [Ep [S1 Hc]]]] := pivot_wf q s (wf_mat_shape W) Hin.
  rewrite Ep [obind _ _]/=.
  case: Hc => [[-> [-> Hnz]]|[[-> [-> [Hz Hcol]]]|[r [Hr [Hz [Hnz [-> Hsw]]]]]]].
  + exact: continue.
  + rewrite (mget_wf (wf_mat_shape W)) //= /zq_is_zero Hz /=. congr Val.
    rewrite det_zero_col ?mulr0 ?mul0r /F2Z //.
    move=> a. rewrite mxE /= addn0.
    have [->|Na] := eqVneq a 0; first by rewrite addn0 Hz Z2F_0.
    rewrite Hcol ?Z2F_0 //. have := ltn_ord a. rewrite /n. 
    have : (0 < a)%nat by rewrite lt0n. lia.
  + have R0 : forall a b, (a < n)%coq_nat -> (b < n)%coq_nat -> (0 <= ent m a b < q)%Z.
      by move=> a b Ha Hb; apply: (wf_mat_range W).
    have W1 : wf_mat q n m1.
      apply: wf_mat_intro => // a b Ha Hb. rewrite Hsw. apply: R0 => //.
      rewrite /swap_idx. by case: (a =? r)%coq_nat; [|case: (a =? i)%coq_nat]; lia.
    have Hs1 : (0 <= zq_neg q s < q)%Z by apply: zq_neg_range.
    have [Hp1 Ed] := prev_swap (proj1 Hr) Hsw Hp.
    have Hnz1 : ent m1 i i <> 0%Z.
      rewrite Hsw /swap_idx Nat.eqb_refl.
      have -> : (i =? r)%coq_nat = false by apply/Nat.eqb_neq; lia.
      exact: Hnz.
    rewrite (continue m1 _ W1 Hs1 Hp1 Hnz1). congr Val. congr F2Z.
    have Hri : (r - i < k.+2)%nat by rewrite /n in Hr; lia.
    have E1 : trail i k.+1 m1 = xrow 0 (Ordinal Hri) (trail i k.+1 m).
      apply/matrixP=> a b. rewrite !mxE Hsw. congr (Z2F (ent m _ _)).
      rewrite /swap_idx. 
      case: tpermP => [->|->|Na0 Nar] /=.
      * rewrite addn0 Nat.eqb_refl. case: Nat.eqb_spec; lia.
      * have -> : (i + (r - i))%nat = r by lia. by rewrite Nat.eqb_refl addn0.
      * have {}Na0 : nat_of_ord a <> 0%nat by move=> E; apply: Na0; apply: val_inj.
        have {}Nar : nat_of_ord a <> (r - i)%nat by move=> E; apply: Nar; apply: val_inj.
        have -> : (i + a =? r)%coq_nat = false by apply/Nat.eqb_neq; lia.
        have -> : (i + a =? i)%coq_nat = false by apply/Nat.eqb_neq; lia.
        by [].
    rewrite E1 Ed det_xrow0; last by rewrite -val_eqE /=; lia.
    rewrite Z2F_zq_neg; last lia. by rewrite mulrNN.
Qed.

Lemma F2Z_1 : F2Z 1 = 1%Z.
Proof. by rewrite -Z2F_1 F2Z_Z2F //; have := q_gt1; lia. Qed.

Lemma F2Z_0 : F2Z 0 = 0%Z.
Proof. by rewrite -Z2F_0 F2Z_Z2F //; have := q_gt1; lia. Qed.

(** * The determinant *)
Theorem bareiss_det n m : wf_mat q n m -> bareiss q m n = Val (F2Z (\det (mxof n m))).
Proof.
case: n => [|k] W.
- by rewrite (bareiss_empty q (wf_mat_shape W)) det_mx00 F2Z_1.
- rewrite (bareiss_unfold q _ (wf_mat_shape W)); last lia.
  have -> : (k.+1 - 1)%coq_nat = k by lia.
  have E : k.+1 = (0 + k + 1)%nat by lia.
  have := @steps_correct k 0 m 1%Z. rewrite -E => -> //; last by have := q_gt1; lia.
  congr Val; congr F2Z. rewrite /= expr1n divr1 Z2F_1 mul1r. by congr (\det _).
Qed.

Corollary bareiss_singular n m : wf_mat q n m -> \det (mxof n m) = 0 -> bareiss q m n = Val 0%Z.
Proof. by move=> W E; rewrite (bareiss_det W) E F2Z_0. Qed.

(** * The inverse *)
Lemma zq_pow_range a e : (0 <= zq_pow q a e < q)%Z.
Proof.
have Hq := q_gt1.
by case: e => [|e] /=; [lia|apply: zq_mul_range; lia].
Qed.

Lemma Z2F_minus_one : Z2F (zq_sub q 0 1) = -1.
Proof. by rewrite Z2F_zq_sub // Z2F_0 Z2F_1 sub0r. Qed.

Lemma Z2F_pow_m1 e : Z2F (zq_pow q (zq_sub q 0 1) e) = (-1) ^+ e.
Proof.
have Hq : (0 < q)%Z by have := q_gt1; lia.
elim: e => [|e IH] /=; first by rewrite Z2F_1 expr0.
have [? ?] := zq_sub_range q 0 1 Hq. have [? ?] := zq_pow_range (zq_sub q 0 1) e.
by rewrite Z2F_zq_mul // IH Z2F_minus_one exprS.
Qed.

Lemma bumpE r j : MatrixList.bump r j = fintype.bump r j.
Proof.
rewrite /MatrixList.bump /fintype.bump.
case: Nat.ltb_spec => H; case: leqP => H'; rewrite ?add0n ?add1n //; lia.
Qed.

Lemma wf_mat_minor n m (r c : 'I_n.+1) : wf_mat q n.+1 m ->
  wf_mat q n (matrix_minor m r c) /\
  mxof n (matrix_minor m r c) = row' r (col' c (mxof n.+1 m)).
Proof.
move=> W.
have Hr : (r < n.+1)%coq_nat by have := ltn_ord r; lia.
have Hc : (c < n.+1)%coq_nat by have := ltn_ord c; lia.
have [S X] := matrix_minor_wf (wf_mat_shape W) Hr Hc.
split.
- apply: wf_mat_intro => // a b Ha Hb. rewrite X. apply: (wf_mat_range W).
  + rewrite /MatrixList.bump; case: Nat.ltb_spec; lia.
  + rewrite /MatrixList.bump; case: Nat.ltb_spec; lia.
- by apply/matrixP=> a b; rewrite !mxE X !bumpE.
Qed.

Lemma inverse_from_adj n (A M' : 'M[F]_n) : \det A != 0 -> M' = (\det A)^-1 *: \adj A ->
  M' *m A = 1%:M /\ A *m M' = 1%:M.
Proof.
move=> Hd ->. split.
- by rewrite -scalemxAl mul_adj_mx scale_scalar_mx mulVf.
- by rewrite -scalemxAr mul_mx_adj scale_scalar_mx mulVf.
Qed.

Lemma adj_entry n (A : 'M[F]_n.+1) (j k : 'I_n.+1) :
  \adj A j k = (-1) ^+ (k + j) * \det (row' k (col' j A)).
Proof. by rewrite /adjugate mxE /cofactor. Qed.

Theorem inverse_correct_mx n m : (0 < n)%coq_nat -> wf_mat q n m -> \det (mxof n m) != 0 ->
  exists m', [/\ matrix_inverse q m n = Val m', wf_mat q n m',
                 mxof n m' *m mxof n m = 1%:M & mxof n m *m mxof n m' = 1%:M].
Proof.
move=> Hn W Hd.
have Hq : (0 < q)%Z by have := q_gt1; lia.
have Hdz : (0 <= F2Z (\det (mxof n m)) < q)%Z := F2Z_range _.
have Ndz : F2Z (\det (mxof n m)) <> 0%Z.
  by move=> E; move/eqP: Hd; apply; rewrite -(Z2F_F2Z (\det _)) E Z2F_0.
have [dinv [Einv Hdinv Edinv]] := Z2F_invert Hdz Ndz.
rewrite Z2F_F2Z in Edinv.
have R := wf_mat_range W.
have S := wf_mat_shape W.
suff [m' [E' W' EM']] : exists m', [/\ matrix_inverse q m n = Val m', wf_mat q n m' &
                                     mxof n m' = (\det (mxof n m))^-1 *: \adj (mxof n m)].
  by exists m'; have [? ?] := inverse_from_adj Hd EM'; split.
rewrite /matrix_inverse (bareiss_det W) /= Einv.
have -> : length m = n by case: W.
case: Nat.eqb_spec => [E2|N2].
- subst n.
  rewrite !(mget_wf S) /=; try lia.
  eexists; split; first by reflexivity.
  + apply: wf_mat_intro.
    * by split=> //; move=> [|[|j]] //=; lia.
    * by move=> [|[|a]] [|[|b]] Ha Hb //=; try lia; apply: zq_mul_range.
  + have [? ?] := R 0%nat 0%nat ltac:(lia) ltac:(lia).
    have [? ?] := R 0%nat 1%nat ltac:(lia) ltac:(lia).
    have [? ?] := R 1%nat 0%nat ltac:(lia) ltac:(lia).
    have [? ?] := R 1%nat 1%nat ltac:(lia) ltac:(lia).
    have [? ?] := zq_sub_range q 0 1 Hq.
    have M1 := Z2F_minus_one.
    have [? ?] := zq_mul_range q (zq_sub q 0 1) (ent m 0 1) Hq.
    have [? ?] := zq_mul_range q (zq_sub q 0 1) (ent m 1 0) Hq.
    apply/matrixP=> i j; rewrite [LHS]mxE [RHS]mxE adj_entry det_mx11 !mxE.
    case: i => [[|[|//]] Hi]; case: j => [[|[|//]] Hj] /=;
      rewrite ?Z2F_zq_mul ?M1 -?Edinv; try lia; try (apply: zq_mul_range; lia);
      rewrite /fintype.bump /= ?addn0 ?expr0 ?expr1 ?expr2; ring.
- case: n Hn W Hd Hdz Ndz Einv Edinv R S N2 => [|n'] Hn W Hd Hdz Ndz Einv Edinv R S N2; first by lia.
  pose g (r c : nat) : Z :=
    zq_mul q (zq_pow q (zq_sub q 0 1) (r + c)) (F2Z (\det (mxof n' (matrix_minor m r c)))).
  have Hcell : forall r c, (r < n'.+1)%coq_nat -> (c < n'.+1)%coq_nat ->
      cofactor_cell q m r c = Val (g r c).
    move=> r c Hr Hc. rewrite /cofactor_cell.
    have Hr' : (r < n'.+1)%nat by lia. have Hc' : (c < n'.+1)%nat by lia.
    have [Wm _] := wf_mat_minor (Ordinal Hr') (Ordinal Hc') W. rewrite /= in Wm.
    have -> : length (matrix_minor m r c) = n' by case: Wm.
    by rewrite (bareiss_det Wm).
  rewrite (cofactors_wf q g S Hcell) /obind.
  have [St Xt] := mtab_wf n'.+1 g.
  have [t [Et [S_t X_t]]] := transpose_wf Hn St.
  rewrite Et.
  have [Sm Xm] := map_map_wf (fun x => zq_mul q x dinv) S_t.
  eexists; split; first by reflexivity.
  + apply: wf_mat_intro => // a b Ha Hb. rewrite Xm //. exact: zq_mul_range.
  + apply/matrixP=> j k; rewrite [LHS]mxE [RHS]mxE adj_entry.
    have Hj : (j < n'.+1)%coq_nat by have := ltn_ord j; lia.
    have Hk : (k < n'.+1)%coq_nat by have := ltn_ord k; lia.
    rewrite Xm // X_t // Xt // /g.
    have [? ?] := zq_pow_range (zq_sub q 0 1) (k + j).
    have [? ?] := F2Z_range (\det (mxof n' (matrix_minor m k j))).
    have [? ?] := zq_mul_range q (zq_pow q (zq_sub q 0 1) (k + j))
                    (F2Z (\det (mxof n' (matrix_minor m k j)))) Hq.
    rewrite !Z2F_zq_mul //; try lia.
    rewrite Z2F_pow_m1 Z2F_F2Z Edinv.
    have [_ ->] := wf_mat_minor k j W.
    by rewrite mulrC.
Qed.
End Field.

(** The section hypothesis is satisfiable: the whole development instantiated at q = 3. *)
Example bareiss_det_F3 := @bareiss_det 3%Z Znumtheory.prime_3.
Example inverse_correct_F3 := @inverse_correct_mx 3%Z Znumtheory.prime_3.
