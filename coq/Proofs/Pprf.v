(** C06, all trees: honest runs, the learned leaves, the punctured slot, seeds_ok, and the
    unconditional tampering results (digest, unused correction word).  For every oracle H. *)
From SL Require Import Lib.Base Lib.Oracle Gen.Params Model.Pprf Proofs.PprfBytes Proofs.PprfTree.
Local Open Scope nat_scope.

(* ------------------------------------------------------------------ predicates used by the statements *)
(** the conclusion of the base OTs (C05): receiver key i is the sender's rho_c for its choice bit c;
    the list lengths are what the Rust array types [_; LAMBDA_C] guarantee *)
Definition ot_consistent_gen (K n : nat) (sk : list (bytes * bytes)) (cb : bytes) (rk : list bytes) : Prop :=
  length sk = n * K /\ length rk = n * K /\
  forall i, i < n * K -> nth i rk [] = sel (extract_bit cb i) (nth i sk ([], [])).
Definition ot_consistent := ot_consistent_gen Kdepth Ntrees.

(** the caller's t_tilda buffers are all-zero (PPRFOutput::default()) *)
Definition tt_zero (tt : list bytes) : Prop := forall j, fit LB2 (nth j tt []) = zeros LB2.

Definition dres : nat * list bytes := (0, []).
Definition dbuild : list bytes * pprf_msg := ([], default_msg).

(** seeds_ok of C03 (DESIGN.md): per tree the punctured index is below Q and the receiver's keys equal the
    sender's off the punctured index. [sseed] = SenderOTSeed.otp_enc_keys, [rch] = ReceiverOTSeed.random_choices,
    [rseed] = ReceiverOTSeed.otp_dec_keys *)
Definition seeds_ok_gen (Q n : nat) (sseed : list (list bytes)) (rch : list nat) (rseed : list (list bytes)) : Prop :=
  forall i, i < n ->
    nth i rch 0 < Q /\
    forall j, j < Q -> j <> nth i rch 0 -> nth j (nth i rseed []) [] = nth j (nth i sseed []) [].
Definition seeds_ok := seeds_ok_gen (N.to_nat GP.SOFT_SPOKEN_Q) Ntrees.

(* ------------------------------------------------------------------ list facts *)
Lemma nth_map_seq {A} (f : nat -> A) k n j d : j < n -> nth j (map f (seq k n)) d = f (k + j).
Proof.
  intros Hj. rewrite (nth_indep _ d (f 0)) by (rewrite map_length, seq_length; exact Hj).
  rewrite map_nth, seq_nth by exact Hj. reflexivity.
Qed.

Lemma tree_slice_length {A} K j n (l : list A) : length l = n * K -> j < n -> length (tree_slice K j l) = K.
Proof.
  intros Hl Hj. unfold tree_slice. rewrite firstn_length, skipn_length, Hl. nia.
Qed.

Lemma nth_tree_slice {A} K j (l : list A) i d : i < K -> nth i (tree_slice K j l) d = nth (j * K + i) l d.
Proof. intros Hi. unfold tree_slice. rewrite nth_firstn_lt by exact Hi. apply nth_skipn_add. Qed.

Lemma tree_bits_length K j cb : length (tree_bits K j cb) = K.
Proof. unfold tree_bits. rewrite map_length, seq_length. reflexivity. Qed.

Lemma nth_tree_bits K j cb i : i < K -> nth i (tree_bits K j cb) false = extract_bit cb (j * K + i).
Proof. intros Hi. unfold tree_bits. apply nth_map_seq. exact Hi. Qed.

Lemma okeys_of_nth m : forall ks cs fs,
  length ks = m -> length cs = m -> length fs = m ->
  (forall i, i < m -> nth i fs [] = sel (nth i cs false) (nth i ks ([], []))) -> okeys ks cs fs.
Proof.
  induction m as [|m IH]; intros ks cs fs Hk Hc Hf Hn.
  - destruct ks, cs, fs; try discriminate. exact I.
  - destruct ks as [|k ks], cs as [|c cs], fs as [|f fs]; try discriminate. cbn [okeys]. split.
    + apply (Hn 0). lia.
    + apply IH; cbn in *; try lia. intros i Hi. apply (Hn (S i)). lia.
Qed.

Lemma okeys_slice K n sk cb rk j :
  ot_consistent_gen K n sk cb rk -> j < n -> okeys (tree_slice K j sk) (tree_bits K j cb) (tree_slice K j rk).
Proof.
  intros [Hsk [Hrk Hc]] Hj. apply (okeys_of_nth K).
  - apply (tree_slice_length K j n); assumption.
  - apply tree_bits_length.
  - apply (tree_slice_length K j n); assumption.
  - intros i Hi. rewrite !nth_tree_slice, nth_tree_bits by exact Hi. apply Hc. nia.
Qed.

Lemma nth_tl {A} i (l : list A) d : nth i (tl l) d = nth (S i) l d.
Proof. destruct l; [destruct i; reflexivity|reflexivity]. Qed.

Section All.
  Variable H : transcript_oracle.
  Variable sid : bytes.

  Definition eval_tree' (x : list bool * list bytes * pprf_msg) : outcome (nat * list bytes) :=
    let '(cs, fs, m) := x in eval_tree H sid cs fs m.

  Lemma eval_trees_cons x r :
    eval_trees H sid (x :: r) =
    obind (eval_tree' x) (fun v => obind (eval_trees H sid r) (fun vs => Val (v :: vs))).
  Proof. destruct x as [[cs fs] m]. reflexivity. Qed.

  Lemma eval_tree_cases cs fs m :
    (exists v, eval_tree H sid cs fs m = Val v) \/ eval_tree H sid cs fs m = Err err_invalid_proof.
  Proof.
    unfold eval_tree. destruct (eval_tree_core H sid cs fs m) as [[y s] d].
    destruct (bytes_eqb d (p_s_tilda m)); [left; eexists; reflexivity|right; reflexivity].
  Qed.

  Lemma eval_trees_cases inp :
    (exists r, eval_trees H sid inp = Val r) \/ eval_trees H sid inp = Err err_invalid_proof.
  Proof.
    induction inp as [|x inp IH]; [left; eexists; reflexivity|].
    rewrite eval_trees_cons. destruct x as [[cs fs] m]. cbn [eval_tree'].
    destruct (eval_tree_cases cs fs m) as [[v ->]| ->]; [|right; reflexivity]. cbn [obind].
    destruct IH as [[r ->]| ->]; [left; eexists; reflexivity|right; reflexivity].
  Qed.

  Lemma eval_trees_seq_val g (Q : nat -> nat * list bytes -> Prop) n : forall k,
    (forall j, j < n -> exists v, eval_tree' (g (k + j)) = Val v /\ Q (k + j) v) ->
    exists r, eval_trees H sid (map g (seq k n)) = Val r /\ length r = n /\
              forall j, j < n -> Q (k + j) (nth j r dres).
  Proof.
    induction n as [|n IH]; intros k Hall.
    - exists []. repeat split. intros j Hj. lia.
    - cbn [seq map]. rewrite eval_trees_cons.
      destruct (Hall 0) as [v [Ev Qv]]; [lia|]. rewrite Nat.add_0_r in Ev, Qv. rewrite Ev. cbn [obind].
      destruct (IH (S k)) as [r [Er [Lr Qr]]].
      { intros j Hj. replace (S k + j) with (k + S j) by lia. apply Hall. lia. }
      rewrite Er. cbn [obind]. exists (v :: r). split; [reflexivity|]. split; [cbn; lia|].
      intros [|j] Hj; [rewrite Nat.add_0_r; exact Qv|].
      cbn [nth]. replace (k + S j) with (S k + j) by lia. apply Qr. lia.
  Qed.

  Lemma eval_trees_seq_inv g n : forall k r,
    eval_trees H sid (map g (seq k n)) = Val r ->
    length r = n /\ forall j, j < n -> eval_tree' (g (k + j)) = Val (nth j r dres).
  Proof.
    induction n as [|n IH]; intros k r E.
    - cbn in E. inversion E. split; [reflexivity|]. intros j Hj. lia.
    - cbn [seq map] in E. rewrite eval_trees_cons in E.
      destruct (eval_tree' (g k)) as [v| |] eqn:Ev; cbn [obind] in E; try discriminate.
      destruct (eval_trees H sid (map g (seq (S k) n))) as [vs| |] eqn:Er; cbn [obind] in E; try discriminate.
      inversion E; subst r. destruct (IH (S k) vs Er) as [Lr Hr]. split; [cbn; lia|].
      intros [|j] Hj; [rewrite Nat.add_0_r; exact Ev|].
      cbn [nth]. replace (k + S j) with (S k + j) by lia. apply Hr. lia.
  Qed.

  Lemma eval_trees_seq_err g n : forall k j e,
    j < n -> eval_tree' (g (k + j)) = Err e -> eval_trees H sid (map g (seq k n)) = Err err_invalid_proof.
  Proof.
    induction n as [|n IH]; intros k j e Hj Ej; [lia|].
    destruct (eval_trees_cases (map g (seq k (S n)))) as [[r Er]|Ee]; [|exact Ee].
    exfalso. destruct (eval_trees_seq_inv g (S n) k r Er) as [_ Hr]. rewrite (Hr j Hj) in Ej. discriminate.
  Qed.

  Lemma eval_trees_seq_ext g g' n : forall k,
    (forall j, j < n -> eval_tree' (g (k + j)) = eval_tree' (g' (k + j))) ->
    eval_trees H sid (map g (seq k n)) = eval_trees H sid (map g' (seq k n)).
  Proof.
    induction n as [|n IH]; intros k Hall; [reflexivity|].
    cbn [seq map]. rewrite !eval_trees_cons.
    pose proof (Hall 0) as E0. rewrite Nat.add_0_r in E0. rewrite E0 by lia.
    rewrite (IH (S k)); [reflexivity|]. intros j Hj. replace (S k + j) with (k + S j) by lia. apply Hall. lia.
  Qed.

  (* ---------------------------------------------------------------- honest runs *)
  Lemma nth_build K n sk tt j : j < n ->
    nth j (build_pprf_gen H K n sid sk tt) dbuild = build_tree H sid (tree_slice K j sk) (nth j tt []).
  Proof. intros Hj. unfold build_pprf_gen. rewrite nth_map_seq by exact Hj. reflexivity. Qed.

  Lemma nth_build_msgs K n sk tt j : j < n ->
    nth j (map snd (build_pprf_gen H K n sid sk tt)) default_msg =
    snd (build_tree H sid (tree_slice K j sk) (nth j tt [])).
  Proof.
    intros Hj. change default_msg with (snd dbuild). rewrite map_nth, nth_build by exact Hj. reflexivity.
  Qed.

  Lemma pprf_honest_core K n sk cb rk tt :
    0 < K -> ot_consistent_gen K n sk cb rk -> tt_zero tt ->
    exists r, eval_pprf_gen H K n sid cb rk (map snd (build_pprf_gen H K n sid sk tt)) = Val r /\
              length r = n /\
              forall j, j < n ->
                tree_res_ok (fst (nth j (build_pprf_gen H K n sid sk tt) dbuild)) (tree_bits K j cb) (nth j r dres).
  Proof.
    intros HK Hc Htt. unfold eval_pprf_gen, eval_inputs.
    apply (eval_trees_seq_val _
             (fun j v => tree_res_ok (fst (nth j (build_pprf_gen H K n sid sk tt) dbuild)) (tree_bits K j cb) v) n 0).
    intros j Hj. cbn [Nat.add eval_tree'].
    rewrite nth_build_msgs, nth_build by exact Hj.
    apply eval_tree_honest.
    - apply (okeys_slice K n); assumption.
    - intros E. pose proof (tree_slice_length K j n sk (proj1 Hc) Hj) as L. rewrite E in L. cbn in L. lia.
    - apply Htt.
  Qed.

  (* ---------------------------------------------------------------- tampering, unconditional parts *)
  (** eval_pprf is a function of the inputs of the individual trees *)
  Lemma eval_inputs_nth K n cb rk ms j : j < n ->
    nth j (eval_inputs K n cb rk ms) ([], [], default_msg) =
    (tree_bits K j cb, tree_slice K j rk, nth j ms default_msg).
  Proof. intros Hj. unfold eval_inputs. rewrite nth_map_seq by exact Hj. reflexivity. Qed.

  (** ANY change of s_tilda in an accepted message is rejected *)
  Lemma flip_digest_gen K n cb rk ms j v r :
    j < n -> j < length ms ->
    eval_pprf_gen H K n sid cb rk ms = Val r ->
    v <> p_s_tilda (nth j ms default_msg) ->
    eval_pprf_gen H K n sid cb rk (upd j (set_s_tilda v (nth j ms default_msg)) ms) = Err err_invalid_proof.
  Proof.
    intros Hj Hjl Eok Hv. unfold eval_pprf_gen, eval_inputs in *.
    destruct (eval_trees_seq_inv _ n 0 r Eok) as [_ Hr]. specialize (Hr j Hj). cbn [Nat.add eval_tree'] in Hr.
    apply (eval_trees_seq_err _ n 0 j err_invalid_proof Hj). cbn [Nat.add eval_tree'].
    rewrite nth_upd_same by exact Hjl.
    unfold eval_tree in *. rewrite eval_tree_core_set_s_tilda.
    destruct (eval_tree_core H sid (tree_bits K j cb) (tree_slice K j rk) (nth j ms default_msg)) as [[y s] d].
    cbn [p_s_tilda set_s_tilda].
    destruct (bytes_eqb d (p_s_tilda (nth j ms default_msg))) eqn:E1; [|discriminate].
    apply bytes_eqb_eq in E1.
    destruct (bytes_eqb d v) eqn:E2; [|reflexivity].
    apply bytes_eqb_eq in E2. exfalso. apply Hv. rewrite <- E1, <- E2. reflexivity.
  Qed.

  (** the receiver reads only the correction word selected by its choice bit *)
  Fixpoint ts_equiv (cs : list bool) (ts ts' : list (bytes * bytes)) : Prop :=
    match cs with
    | [] => True
    | c :: cs' => sel c (hd ([], []) ts) = sel c (hd ([], []) ts') /\ ts_equiv cs' (tl ts) (tl ts')
    end.

  Lemma ts_equiv_refl cs : forall ts, ts_equiv cs ts ts.
  Proof. induction cs as [|c cs IH]; intros ts; cbn; auto. Qed.

  Lemma eval_level_sel s ystar c tw tw' F :
    sel c tw = sel c tw' -> eval_level H sid s ystar c tw F = eval_level H sid s ystar c tw' F.
  Proof. intros E. unfold eval_level. rewrite E. reflexivity. Qed.

  Lemma eval_levels_ts_equiv cs : forall s ystar fs ts ts',
    ts_equiv cs ts ts' -> eval_levels H sid s ystar cs fs ts = eval_levels H sid s ystar cs fs ts'.
  Proof.
    induction cs as [|c cs IH]; intros s ystar fs ts ts' Heq; [reflexivity|].
    cbn [eval_levels]. destruct Heq as [E Heq]. rewrite (eval_level_sel _ _ _ _ _ _ E).
    destruct (eval_level H sid s ystar c (hd ([], []) ts') (hd [] fs)) as [s' y']. apply IH. exact Heq.
  Qed.

  Lemma upd_unused level : forall cs ts a b (f : bytes -> bytes),
    nth_error ts level = Some (a, b) ->
    ts_equiv cs ts (upd level (if negb (nth level cs false) then (a, f b) else (f a, b)) ts).
  Proof.
    induction level as [|level IH]; intros cs ts a b f E.
    - destruct ts as [|p ts]; [discriminate|]. cbn in E. inversion E; subst p.
      destruct cs as [|c cs]; [exact I|]. cbn [ts_equiv upd hd tl nth]. split; [destruct c; reflexivity|apply ts_equiv_refl].
    - destruct ts as [|p ts]; [discriminate|]. cbn in E.
      destruct cs as [|c cs]; [exact I|]. cbn [ts_equiv upd hd tl nth]. split; [reflexivity|]. apply IH. exact E.
  Qed.

  Lemma eval_tree_unused cs fs m level f :
    eval_tree H sid cs fs (map_t f level (negb (nth (S level) cs false)) m) = eval_tree H sid cs fs m.
  Proof.
    unfold eval_tree, eval_tree_core, map_t. cbn [p_t p_t_tilda p_s_tilda].
    destruct (nth_error (p_t m) level) as [[a b]|] eqn:E; [|reflexivity].
    rewrite <- (eval_levels_ts_equiv (tl cs) _ _ _ (p_t m)); [reflexivity|].
    rewrite <- nth_tl. apply upd_unused. exact E.
  Qed.

  Lemma flip_unused_gen K n cb rk ms j level f :
    S level < K ->
    eval_pprf_gen H K n sid cb rk
      (upd j (map_t f level (negb (extract_bit cb (j * K + S level))) (nth j ms default_msg)) ms) =
    eval_pprf_gen H K n sid cb rk ms.
  Proof.
    intros Hl. unfold eval_pprf_gen, eval_inputs. apply eval_trees_seq_ext. intros i Hi. cbn [Nat.add eval_tree'].
    destruct (Nat.eq_dec j i) as [->|Hne]; [|rewrite nth_upd_other by exact Hne; reflexivity].
    destruct (Nat.lt_ge_cases i (length ms)) as [Hlt|Hge]; [|rewrite upd_ge by exact Hge; reflexivity].
    rewrite nth_upd_same by exact Hlt.
    rewrite <- (nth_tree_bits K i cb (S level) Hl). apply eval_tree_unused.
  Qed.
End All.
