(** C06: tampering with a correction word the receiver uses, or with t_tilda, and the calibrated
    adversarial sender.  "Rejected" is proved in the form of DESIGN.md 3.3:
    accepted -> an explicit coincidence of oracle outputs on distinct queries.  For every oracle H. *)
From SL Require Import Lib.Base Lib.Oracle Gen.Params Model.Pprf Proofs.PprfBytes Proofs.PprfTree Proofs.Pprf.
Local Open Scope nat_scope.

(** n-fold application, innermost first *)
Fixpoint iterl {A} (n : nat) (f : A -> A) (x : A) : A :=
  match n with O => x | S k => iterl k f (f x) end.

Section Tamper.
  Variable H : transcript_oracle.
  Variable sid : bytes.

  Notation gl := (ggm_left H sid).
  Notation P := (leaf_proof H sid).

  (* ---------------------------------------------------------------- the coincidence events *)
  (** two different lists of proof values with the same 64-byte hash (s_tilda) *)
  Definition hash_collision (ps ps' : list bytes) : Prop :=
    ps <> ps' /\ proof_hash H sid ps = proof_hash H sid ps'.
  (** two different leaves with the same 64-byte proof value *)
  Definition leaf_collision : Prop := exists x x', x <> x' /\ P x = P x'.
  (** two different seeds with the same left child (first 32-byte challenge of the GGM transcript) *)
  Definition prg_collision : Prop := exists x x', x <> x' /\ gl x = gl x'.

  (** the queries behind these events are syntactically distinct *)
  Lemma hash_q_inj ps ps' : hash_q sid ps = hash_q sid ps' -> ps = ps'.
  Proof.
    unfold hash_q, abo_pre. cbn [app]. intros E. inversion E as [E1]. clear E.
    revert ps' E1. induction ps as [|p ps IH]; intros [|p' ps'] E1; cbn in E1; try discriminate; [reflexivity|].
    inversion E1. f_equal. apply IH. assumption.
  Qed.
  Lemma proof_q_inj x x' : proof_q sid x = proof_q sid x' -> x = x'.
  Proof. unfold proof_q, abo_pre. cbn [app]. intros E. inversion E. reflexivity. Qed.
  Lemma ggm_q_inj x x' b b' : ggm_q sid x b = ggm_q sid x' b' -> x = x'.
  Proof. unfold ggm_q, abo_pre. cbn [app]. intros E. inversion E. reflexivity. Qed.

  Lemma iter_collision n : forall x x', x <> x' -> iterl n gl x = iterl n gl x' -> prg_collision.
  Proof.
    induction n as [|n IH]; intros x x' Hne E; [contradiction|].
    cbn [iterl] in E.
    destruct (bytes_eq_dec (gl x) (gl x')) as [Eq|Neq].
    - exists x, x'. split; assumption.
    - apply (IH (gl x) (gl x') Neq E).
  Qed.

  (* ---------------------------------------------------------------- shape and leftmost path, any state *)
  Lemma eval_levels_shape cs : forall s ystar fs ts,
    ystar < length s ->
    let r := eval_levels H sid s ystar cs fs ts in
    snd r = ystar_from ystar cs /\ length (fst r) = length s * 2 ^ length cs /\ snd r < length (fst r).
  Proof.
    induction cs as [|c cs IH]; intros s ystar fs ts Hys; cbv zeta.
    - cbn. repeat split; lia.
    - cbn [eval_levels].
      destruct (eval_level_spec H sid s ystar c (hd ([], []) ts) (hd [] fs) Hys) as [Hy' [Hl' _]].
      destruct (eval_level H sid s ystar c (hd ([], []) ts) (hd [] fs)) as [s' y']. cbn [fst snd] in *.
      assert (Hys' : y' < length s') by (pose proof (bit_nat_lt (negb c)); lia).
      destruct (IH s' y' (tl fs) (tl ts) Hys') as [A [B C]].
      split; [rewrite A, Hy'; reflexivity|]. split; [|exact C].
      rewrite B, Hl'. cbn [length Nat.pow]. lia.
  Qed.

  (** a node z off the punctured path: its leftmost descendant is derived by the receiver with ggm_left only *)
  Lemma eval_levels_leftmost cs : forall s ystar fs ts z,
    ystar < length s -> z < length s -> z <> ystar ->
    let r := eval_levels H sid s ystar cs fs ts in
    nth (z * 2 ^ length cs) (fst r) [] = iterl (length cs) gl (nth z s []) /\
    z * 2 ^ length cs <> snd r /\ z * 2 ^ length cs < length (fst r).
  Proof.
    induction cs as [|c cs IH]; intros s ystar fs ts z Hys Hz Hne; cbv zeta.
    - cbn. rewrite Nat.mul_1_r. repeat split; assumption.
    - cbn [eval_levels].
      destruct (eval_level_spec H sid s ystar c (hd ([], []) ts) (hd [] fs) Hys) as [Hy' [Hl' Hn']].
      destruct (eval_level H sid s ystar c (hd ([], []) ts) (hd [] fs)) as [s' y']. cbn [fst snd] in *.
      pose proof (bit_nat_lt (negb c)) as Hxi.
      assert (Hys' : y' < length s') by lia.
      assert (Hz' : 2 * z < length s') by lia.
      assert (Hne' : 2 * z <> y') by lia.
      destruct (IH s' y' (tl fs) (tl ts) (2 * z) Hys' Hz' Hne') as [A [B C]].
      replace (z * 2 ^ length (c :: cs)) with (2 * z * 2 ^ length cs) by (cbn [length Nat.pow]; lia).
      split; [|split; assumption].
      rewrite A. specialize (Hn' z 0 Hz). rewrite Nat.add_0_r in Hn'. rewrite Hn' by lia.
      destruct (Nat.eqb_spec z ystar); [contradiction|].
      reflexivity.
  Qed.

  Lemma build_levels_leftmost ks : forall s z, z < length s ->
    nth (z * 2 ^ length ks) (fst (build_levels H sid s ks)) [] = iterl (length ks) gl (nth z s []).
  Proof.
    induction ks as [|[r0 r1] ks IH]; intros s z Hz.
    - cbn. rewrite Nat.mul_1_r. reflexivity.
    - rewrite build_levels_cons. cbn [fst].
      replace (z * 2 ^ length ((r0, r1) :: ks)) with (2 * z * 2 ^ length ks) by (cbn [length Nat.pow]; lia).
      rewrite IH by (rewrite expand_length; lia).
      pose proof (nth_expand H sid s z 0 Hz) as E. rewrite Nat.add_0_r in E. rewrite E by lia.
      reflexivity.
  Qed.

  (* ---------------------------------------------------------------- a tampered used word at one level *)
  Lemma level_acc_sel s ystar c tw tw' F : sel c tw = sel c tw' -> level_acc H sid s ystar c tw F = level_acc H sid s ystar c tw' F.
  Proof. intros E. unfold level_acc. rewrite E. reflexivity. Qed.

  Lemma level_acc_tampered s sr ystar c r0 r1 F tw' D :
    agree s sr ystar -> fit LB F = fit LB (sel c (r0, r1)) -> length D = LB ->
    sel c tw' = bxor (sel c (corr_word H sid 0 s r0, corr_word H sid 1 s r1)) D ->
    level_acc H sid sr ystar c tw' F = bxor (child H sid (bit_nat c) (nth ystar s [])) D.
  Proof.
    intros Hag HF HD Hsel.
    rewrite <- (level_acc_honest H sid s sr ystar c r0 r1 F Hag HF).
    unfold level_acc. rewrite Hsel.
    set (w := sel c (corr_word H sid 0 s r0, corr_word H sid 1 s r1)).
    assert (Hw : length w = LB).
    { unfold w. destruct c; cbn [sel fst snd]; unfold corr_word;
        (apply bxor_length; [apply fit_length | apply xsum_length, all_len_map_child]). }
    rewrite (fit_id LB (bxor w D)) by (apply bxor_length; assumption).
    rewrite (fit_id LB w Hw).
    replace (bxor (bxor w D) (fit LB F)) with (bxor (bxor w (fit LB F)) D).
    2:{ rewrite <- !bxor_assoc. f_equal. apply bxor_comm. }
    apply (skip_fold_shift LB).
    - intros. apply child_length.
    - apply bxor_length; [assumption|apply fit_length].
    - assumption.
  Qed.

  (** the tampering relation between the honest correction words [ts] and the received ones [ts'],
      relative to the receiver's bits: the word read at [level] is shifted by D, every other word read is unchanged *)
  Fixpoint tampered_at (level : nat) (cs : list bool) (ts ts' : list (bytes * bytes)) (D : bytes) : Prop :=
    match cs with
    | [] => False
    | c :: cs' =>
      match level with
      | 0 => sel c (hd ([], []) ts') = bxor (sel c (hd ([], []) ts)) D /\ ts_equiv cs' (tl ts) (tl ts')
      | S l => sel c (hd ([], []) ts) = sel c (hd ([], []) ts') /\ tampered_at l cs' (tl ts) (tl ts') D
      end
    end.

  Lemma upd_tampered level : forall cs ts a b D,
    level < length cs -> nth_error ts level = Some (a, b) ->
    tampered_at level cs ts (upd level (if nth level cs false then (a, bxor b D) else (bxor a D, b)) ts) D.
  Proof.
    induction level as [|level IH]; intros cs ts a b D Hl E.
    - destruct ts as [|p ts]; [discriminate|]. cbn in E. inversion E; subst p.
      destruct cs as [|c cs]; [cbn in Hl; lia|]. cbn [tampered_at upd hd tl nth].
      split; [destruct c; reflexivity|apply ts_equiv_refl].
    - destruct ts as [|p ts]; [discriminate|]. cbn in E.
      destruct cs as [|c cs]; [cbn in Hl; lia|]. cbn [tampered_at upd hd tl nth].
      split; [reflexivity|]. apply IH; [cbn in Hl; lia|exact E].
  Qed.

  (** after a tampered used word: some learned leaf is iter^n gl of a wrong seed, the sender's is iter^n gl of the right one *)
  Definition wrong_leaf (leaves sr : list bytes) (ystar : nat) : Prop :=
    exists idx n x x', idx < length leaves /\ idx <> ystar /\ x <> x' /\
                       nth idx leaves [] = iterl n gl x /\ nth idx sr [] = iterl n gl x'.

  Lemma eval_levels_tampered ks : forall level cs fs s sr ystar ts' D,
    okeys ks cs fs -> agree s sr ystar -> length D = LB -> D <> zeros LB ->
    tampered_at level cs (snd (build_levels H sid s ks)) ts' D ->
    let b := build_levels H sid s ks in
    let r := eval_levels H sid sr ystar cs fs ts' in
    snd r = ystar_from ystar cs /\ length (fst r) = length (fst b) /\ snd r < length (fst r) /\
    wrong_leaf (fst b) (fst r) (snd r).
  Proof.
    induction ks as [|[r0 r1] ks IH]; intros level cs fs s sr ystar ts' D Hok Hag HD HDnz Htam.
    - destruct cs, fs; cbn in Hok; try contradiction. destruct level; cbn in Htam; contradiction.
    - destruct cs as [|c cs], fs as [|f fs]; cbn in Hok; try contradiction. destruct Hok as [Hf Hok].
      assert (HF : fit LB f = fit LB (sel c (r0, r1))) by (rewrite Hf; reflexivity).
      pose proof Hag as [Hlen [Hys [Hz Heq]]].
      assert (Hys' : ystar < length sr) by lia.
      cbv zeta. rewrite build_levels_cons in *. cbn [fst snd] in *.
      destruct level as [|level]; cbn [tampered_at hd tl] in Htam; destruct Htam as [Hsel Hrest].
      + (* the tampered level *)
        cbn [eval_levels].
        destruct (eval_level_spec H sid sr ystar c (hd ([], []) ts') (hd [] (f :: fs)) Hys') as [Hy' [Hl' Hn']].
        cbn [hd tl] in *.
        rewrite (level_acc_tampered s sr ystar c r0 r1 f (hd ([], []) ts') D Hag HF HD Hsel) in Hn'.
        destruct (eval_level H sid sr ystar c (hd ([], []) ts') f) as [s' y']. cbn [fst snd] in *.
        pose proof (bit_nat_lt c) as Hc. pose proof (bit_nat_lt (negb c)) as Hxi. pose proof (bit_nat_negb c) as Hcx.
        set (z := 2 * ystar + bit_nat c).
        assert (Hys1 : y' < length s') by lia.
        assert (Hz1 : z < length s') by (unfold z; lia).
        assert (Hne1 : z <> y') by (unfold z; lia).
        rewrite <- (eval_levels_ts_equiv H sid cs s' y' fs _ _ Hrest).
        destruct (eval_levels_shape cs s' y' fs (snd (build_levels H sid (expand H sid s) ks)) Hys1) as [A [B C]].
        destruct (eval_levels_leftmost cs s' y' fs (snd (build_levels H sid (expand H sid s) ks)) z Hys1 Hz1 Hne1)
          as [L1 [L2 L3]].
        pose proof (eval_levels_honest H sid ks cs fs (expand H sid s)) as Hhon.
        destruct (okeys_length _ _ _ Hok) as [Lcs _].
        assert (Hlb : length (fst (build_levels H sid (expand H sid s) ks)) = length s' * 2 ^ length cs).
        { (* the sender's leaf count, from the shape of an honest run on any agreeing state *)
          pose proof (eval_level_honest H sid s sr ystar c r0 r1 f Hag HF) as [Hag2 _].
          destruct (Hhon _ _ Hok Hag2) as [_ [_ Hcount]]. rewrite Hcount, expand_length, Hl', Hlen, Lcs. reflexivity. }
        split; [rewrite A, Hy'; reflexivity|]. split; [rewrite B, Hlb; reflexivity|]. split; [exact C|].
        exists (z * 2 ^ length cs), (length cs), (child H sid (bit_nat c) (nth ystar s [])),
               (bxor (child H sid (bit_nat c) (nth ystar s [])) D).
        split; [rewrite Hlb, <- B; exact L3|]. split; [exact L2|]. split.
        * intros E. symmetry in E. revert E. apply (bxor_neq _ _ LB); [apply child_length|exact HD|exact HDnz].
        * split.
          -- rewrite Lcs. rewrite build_levels_leftmost by (rewrite expand_length; unfold z; lia).
             unfold z. rewrite nth_expand by lia. reflexivity.
          -- rewrite L1. unfold z. rewrite (Hn' ystar (bit_nat c)) by lia. rewrite !Nat.eqb_refl. reflexivity.
      + (* an honest level before the tampered one *)
        cbn [eval_levels hd tl].
        rewrite <- (eval_level_sel H sid sr ystar c _ _ f Hsel).
        destruct (eval_level_honest H sid s sr ystar c r0 r1 f Hag HF) as [Hag' Hy'].
        destruct (eval_level H sid sr ystar c (corr_word H sid 0 s r0, corr_word H sid 1 s r1) f) as [s' y'].
        cbn [fst snd] in *.
        destruct (IH level cs fs (expand H sid s) s' y' (tl ts') D Hok Hag' HD HDnz Hrest) as [A [B [C W]]].
        split; [rewrite A, Hy'; reflexivity|]. split; [exact B|]. split; [exact C|exact W].
  Qed.

  (* ---------------------------------------------------------------- one tree *)
  (** the receiver's state after the last level *)
  Definition recv_state (cs : list bool) (fs : list bytes) (ts : list (bytes * bytes)) : list bytes * nat :=
    let c0 := hd false cs in
    let k0 := fit LB (hd [] fs) in
    eval_levels H sid (if c0 then [zeros LB; k0] else [k0; zeros LB]) (bit_nat (negb c0)) (tl cs) (tl fs) ts.

  Definition recv_view (cs : list bool) (fs : list bytes) (m : pprf_msg) : list bytes :=
    proof_view H sid (fst (recv_state cs fs (p_t m))) (snd (recv_state cs fs (p_t m))) (p_t_tilda m).

  Lemma eval_tree_core_eq cs fs m :
    eval_tree_core H sid cs fs m =
    (snd (recv_state cs fs (p_t m)), fst (recv_state cs fs (p_t m)), proof_hash H sid (recv_view cs fs m)).
  Proof.
    unfold eval_tree_core, recv_view, recv_state.
    destruct (eval_levels H sid _ _ (tl cs) (tl fs) (p_t m)) as [s y]. reflexivity.
  Qed.

  Lemma eval_tree_val_inv cs fs m v :
    eval_tree H sid cs fs m = Val v ->
    v = (snd (recv_state cs fs (p_t m)), fst (recv_state cs fs (p_t m))) /\
    proof_hash H sid (recv_view cs fs m) = p_s_tilda m.
  Proof.
    unfold eval_tree. rewrite eval_tree_core_eq.
    destruct (bytes_eqb _ _) eqn:E; [|discriminate]. apply bytes_eqb_eq in E.
    intros E2. inversion E2. split; [reflexivity|exact E].
  Qed.

  Definition sender_leaves (ks : list (bytes * bytes)) : list bytes :=
    fst (build_levels H sid [fit LB (fst (hd ([], []) ks)); fit LB (snd (hd ([], []) ks))] (tl ks)).
  Definition sender_ts (ks : list (bytes * bytes)) : list (bytes * bytes) :=
    snd (build_levels H sid [fit LB (fst (hd ([], []) ks)); fit LB (snd (hd ([], []) ks))] (tl ks)).

  Lemma build_tree_eq ks tt0 :
    build_tree H sid ks tt0 =
    (sender_leaves ks, {| p_t := sender_ts ks;
                          p_s_tilda := proof_hash H sid (map P (sender_leaves ks));
                          p_t_tilda := fold_left bxor (map P (sender_leaves ks)) (fit LB2 tt0) |}).
  Proof.
    unfold build_tree, sender_leaves, sender_ts.
    destruct (build_levels H sid _ (tl ks)) as [lv ts]. reflexivity.
  Qed.

  Lemma recv_state_honest ks cs fs :
    okeys ks cs fs -> ks <> [] ->
    agree (sender_leaves ks) (fst (recv_state cs fs (sender_ts ks))) (snd (recv_state cs fs (sender_ts ks))) /\
    snd (recv_state cs fs (sender_ts ks)) = ystar_of_bits cs /\ length (sender_leaves ks) = 2 ^ length cs.
  Proof.
    intros Hok Hne. destruct ks as [|k0 ks]; [contradiction|].
    destruct cs as [|c0 cs], fs as [|f0 fs]; cbn in Hok; try contradiction. destruct Hok as [Hf0 Hok].
    unfold recv_state, sender_leaves, sender_ts. cbn [hd tl].
    pose proof (agree_level0 k0 c0 f0 Hf0) as Hag0.
    destruct (eval_levels_honest H sid ks cs fs _ _ _ Hok Hag0) as [A [B C]].
    split; [exact A|]. split.
    - rewrite B. unfold ystar_of_bits, ystar_from. cbn [fold_left]. unfold ystar_step at 2. reflexivity.
    - rewrite C. destruct (okeys_length _ _ _ Hok) as [E _]. cbn [length Nat.pow]. rewrite E. lia.
  Qed.

  (** the view of an honest message is the sender's list of proof values *)
  Lemma recv_view_honest ks cs fs tt0 :
    okeys ks cs fs -> ks <> [] -> fit LB2 tt0 = zeros LB2 ->
    recv_view cs fs (snd (build_tree H sid ks tt0)) = map P (sender_leaves ks).
  Proof.
    intros Hok Hne Htt. rewrite build_tree_eq. unfold recv_view. cbn [snd p_t p_t_tilda].
    destruct (recv_state_honest ks cs fs Hok Hne) as [Hag _].
    apply proof_view_honest; assumption.
  Qed.

  (** a tampered used correction word of tree (ks, cs, fs) at index [level] of t *)
  Lemma recv_state_tampered ks cs fs level ts' D :
    okeys ks cs fs -> ks <> [] -> length D = LB -> D <> zeros LB ->
    tampered_at level (tl cs) (sender_ts ks) ts' D ->
    snd (recv_state cs fs ts') = ystar_of_bits cs /\
    length (fst (recv_state cs fs ts')) = length (sender_leaves ks) /\
    snd (recv_state cs fs ts') < length (fst (recv_state cs fs ts')) /\
    wrong_leaf (sender_leaves ks) (fst (recv_state cs fs ts')) (snd (recv_state cs fs ts')).
  Proof.
    intros Hok Hne HD HDnz Htam. destruct ks as [|k0 ks]; [contradiction|].
    destruct cs as [|c0 cs], fs as [|f0 fs]; cbn in Hok; try contradiction. destruct Hok as [Hf0 Hok].
    unfold recv_state, sender_leaves, sender_ts in *. cbn [hd tl] in *.
    pose proof (agree_level0 k0 c0 f0 Hf0) as Hag0.
    destruct (eval_levels_tampered ks level cs fs _ _ _ ts' D Hok Hag0 HD HDnz Htam) as [A [B [C W]]].
    split; [|split; [exact B|split; [exact C|exact W]]].
    rewrite A. unfold ystar_of_bits, ystar_from. cbn [fold_left]. unfold ystar_step at 2. reflexivity.
  Qed.

  (** ... and what it means for the proof values: equal views force a collision *)
  Lemma wrong_leaf_view leaves sr ystar tt :
    ystar < length sr -> length sr = length leaves -> wrong_leaf leaves sr ystar ->
    proof_view H sid sr ystar tt = map P leaves -> leaf_collision \/ prg_collision.
  Proof.
    intros Hys Hlen [idx [n [x [x' [Hidx [Hne [Hx [El Er]]]]]]]] Hview.
    destruct (proof_view_spec H sid sr ystar tt Hys) as [_ Hn].
    assert (Hp : P (nth idx sr []) = P (nth idx leaves [])).
    { assert (Hi : idx < length sr) by lia. pose proof (Hn idx Hi) as E.
      destruct (Nat.eqb_spec idx ystar); [contradiction|]. rewrite <- E, Hview.
      rewrite (nth_indep _ [] (P [])) by (rewrite map_length; exact Hidx). apply map_nth. }
    destruct (bytes_eq_dec (nth idx sr []) (nth idx leaves [])) as [Eq|Neq].
    - right. rewrite El, Er in Eq. apply (iter_collision n x x' Hx). symmetry. exact Eq.
    - left. exists (nth idx sr []), (nth idx leaves []). split; assumption.
  Qed.

  (** map_t with an XOR on the side the receiver reads gives the tampering relation *)
  Lemma map_t_tampered cs m level D :
    S level < length cs -> level < length (p_t m) ->
    tampered_at level (tl cs) (p_t m) (p_t (map_t (fun w => bxor w D) level (nth (S level) cs false) m)) D.
  Proof.
    intros Hl Hlt. unfold map_t. cbn [p_t].
    destruct (nth_error (p_t m) level) as [[a b]|] eqn:E.
    - rewrite <- nth_tl. apply upd_tampered; [|exact E]. destruct cs; cbn in *; lia.
    - apply nth_error_None in E. lia.
  Qed.

  Lemma sender_ts_length ks : length (sender_ts ks) = length (tl ks).
  Proof.
    unfold sender_ts. generalize [fit LB (fst (hd ([], []) ks)); fit LB (snd (hd ([], []) ks))].
    induction (tl ks) as [|[r0 r1] l IH]; intros s; [reflexivity|].
    rewrite build_levels_cons. cbn [snd length]. rewrite IH. reflexivity.
  Qed.

  (** TREE-LEVEL CHARACTERISATION, used correction word:
      if the receiver's view of the tampered message equals the sender's proof values, a leaf-proof or PRG
      collision exists *)
  Lemma tampered_word_view ks cs fs tt0 level delta :
    okeys ks cs fs -> ks <> [] -> S level < length ks -> fit LB delta <> zeros LB ->
    let m := snd (build_tree H sid ks tt0) in
    let m' := map_t (fun w => bxor w (fit LB delta)) level (nth (S level) cs false) m in
    recv_view cs fs m' = map P (sender_leaves ks) -> leaf_collision \/ prg_collision.
  Proof.
    intros Hok Hne Hl HD. cbv zeta. intros Hview.
    destruct (okeys_length _ _ _ Hok) as [Lcs _].
    assert (Htam : tampered_at level (tl cs) (sender_ts ks)
                     (p_t (map_t (fun w => bxor w (fit LB delta)) level (nth (S level) cs false)
                                 (snd (build_tree H sid ks tt0)))) (fit LB delta)).
    { replace (sender_ts ks) with (p_t (snd (build_tree H sid ks tt0))) at 1 by (rewrite build_tree_eq; reflexivity).
      apply map_t_tampered; [lia|]. rewrite build_tree_eq. cbn [snd p_t]. rewrite sender_ts_length.
      destruct ks; cbn in *; lia. }
    destruct (recv_state_tampered ks cs fs level _ (fit LB delta) Hok Hne (fit_length _ _) HD Htam) as [_ [B [C W]]].
    unfold recv_view in Hview.
    apply (wrong_leaf_view _ _ _ _ C B W Hview).
  Qed.

  (** skip_fold is injective in its start value *)
  Lemma skip_fold_inj n f ystar l : forall a a',
    (forall y, In y l -> length (f y) = n) -> length a = n -> length a' = n ->
    skip_fold f ystar l a = skip_fold f ystar l a' -> a = a'.
  Proof.
    unfold skip_fold. induction l as [|y l IH]; intros a a' Hf Ha Ha' E; [exact E|].
    assert (Hfl : forall z, In z l -> length (f z) = n) by (intros z Hz; apply Hf; right; assumption).
    assert (Hfy : length (f y) = n) by (apply Hf; left; reflexivity).
    cbn [fold_left] in E. destruct (Nat.eqb y ystar); [apply IH; assumption|].
    apply IH in E; try assumption; try (apply bxor_length; assumption).
    rewrite <- (bxor_cancel_r a (f y) n Ha Hfy), E. apply (bxor_cancel_r a' (f y) n Ha' Hfy).
  Qed.

  (** TREE-LEVEL CHARACTERISATION, t_tilda: any other t_tilda changes the view *)
  Lemma tampered_tt_view ks cs fs tt0 v :
    okeys ks cs fs -> ks <> [] -> fit LB2 tt0 = zeros LB2 ->
    let m := snd (build_tree H sid ks tt0) in
    fit LB2 v <> p_t_tilda m ->
    recv_view cs fs (set_t_tilda v m) <> map P (sender_leaves ks).
  Proof.
    intros Hok Hne Htt. cbv zeta. intros Hv Hview.
    pose proof (recv_view_honest ks cs fs tt0 Hok Hne Htt) as Hh.
    rewrite <- Hh in Hview. unfold recv_view in Hview. cbn [set_t_tilda p_t p_t_tilda] in Hview.
    destruct (recv_state_honest ks cs fs Hok Hne) as [[Hlen [Hys _]] _].
    set (m := snd (build_tree H sid ks tt0)) in *.
    assert (Ept : p_t m = sender_ts ks) by (unfold m; rewrite build_tree_eq; reflexivity).
    rewrite Ept in Hview.
    set (sr := fst (recv_state cs fs (sender_ts ks))) in *. set (ys := snd (recv_state cs fs (sender_ts ks))) in *.
    assert (Hys' : ys < length sr) by lia.
    destruct (proof_view_spec H sid sr ys v Hys') as [_ Hn1].
    destruct (proof_view_spec H sid sr ys (p_t_tilda m) Hys') as [_ Hn2].
    pose proof (Hn1 ys Hys') as E1. pose proof (Hn2 ys Hys') as E2. rewrite Hview, E2, Nat.eqb_refl in E1.
    unfold view_acc in E1. apply Hv.
    assert (Htl : length (p_t_tilda m) = LB2).
    { unfold m. rewrite build_tree_eq. cbn [snd p_t_tilda].
      rewrite (fold_left_bxor LB2) by (try apply all_len_map_P; apply fit_length).
      apply bxor_length; [apply fit_length|apply xsum_length, all_len_map_P]. }
    rewrite <- (fit_id LB2 (p_t_tilda m) Htl).
    symmetry.
    apply (skip_fold_inj LB2 (fun y => P (nth y sr [])) ys (seq 0 (length sr)));
      [intros; apply P_length | apply fit_length | apply fit_length | exact E1].
  Qed.
End Tamper.
