(** C13 birkhoff_is_lagrange: when every derivative order is zero the Birkhoff matrix is the
    Vandermonde matrix and row 0 of a left inverse is the vector of Lagrange coefficients at 0:
        b_j * prod_{m<>j} (x_m - x_j) = prod_{m<>j} x_m   (mod q),
    and for prime q with pairwise distinct nodes b_j is the ONLY solution of that equation, i.e.
    b_j = prod_{m<>j} x_m / (x_m - x_j) in the field.
    Proof: pair the moment conditions sum_i b_i x_i^k = [k = 0] with the coefficients of
    L_j(X) = prod_{m<>j} (x_m - X); L_j vanishes at every node except x_j. *)
From Coq Require Import Znumtheory.
From SL Require Import Lib.Base Model.Matrix Model.Poly Model.PolyBirkhoff.
From SL Require Import Proofs.PolyFact Proofs.PolySum Proofs.PolyDeriv Proofs.PolyGroup Proofs.PolyBirkhoff.
Local Open Scope Z_scope.

(** coefficients of (a - X) * p(X), for p given by its coefficient list *)
Definition padd_const (c : Z) (r : list Z) : list Z :=
  match r with [] => [c] | r0 :: r' => (c + r0) :: r' end.

Fixpoint pmul_rev (a : Z) (p : list Z) : list Z :=
  match p with
  | [] => []
  | c :: t => (a * c) :: padd_const (- c) (pmul_rev a t)
  end.

Lemma peval_padd_const c r x : peval (padd_const c r) x = c + peval r x.
Proof. destruct r as [|r0 r']; cbn [padd_const peval]; ring. Qed.

Lemma peval_pmul_rev a p x : peval (pmul_rev a p) x = (a - x) * peval p x.
Proof.
  induction p as [|c t IH]; cbn [pmul_rev peval]; [ring|].
  rewrite peval_padd_const, IH. ring.
Qed.

Lemma pmul_rev_length a p : p <> [] -> length (pmul_rev a p) = S (length p).
Proof.
  induction p as [|c t IH]; intros H; [contradiction|].
  cbn [pmul_rev length]. f_equal.
  destruct t as [|c' t']; [reflexivity|].
  specialize (IH ltac:(discriminate)).
  destruct (pmul_rev a (c' :: t')) as [|r0 r'] eqn:E; [cbn in IH; discriminate|].
  cbn [padd_const length] in *. exact IH.
Qed.

(** prod_{m in l} (node m - X) *)
Definition lag_poly (node : nat -> Z) (l : list nat) : list Z :=
  fold_right (fun m acc => pmul_rev (node m) acc) [1] l.

Lemma lag_poly_nonempty node l : lag_poly node l <> [].
Proof.
  induction l as [|m l IH]; cbn [lag_poly fold_right]; [discriminate|].
  fold (lag_poly node l). destruct (lag_poly node l) as [|c t]; [contradiction|]. cbn [pmul_rev]. discriminate.
Qed.

Lemma lag_poly_length node l : length (lag_poly node l) = S (length l).
Proof.
  induction l as [|m l IH]; [reflexivity|].
  cbn [lag_poly fold_right length]. fold (lag_poly node l).
  rewrite pmul_rev_length by apply lag_poly_nonempty. rewrite IH. reflexivity.
Qed.

Lemma lag_poly_eval node l x : peval (lag_poly node l) x = zprod (map (fun m => node m - x) l).
Proof.
  induction l as [|m l IH]; [unfold lag_poly, zprod; cbn [fold_right peval map]; ring|].
  cbn [lag_poly fold_right map zprod]. fold (lag_poly node l). fold (zprod (map (fun m0 => node m0 - x) l)).
  rewrite peval_pmul_rev, IH. reflexivity.
Qed.

Lemma zprod_zero l : In 0 l -> zprod l = 0.
Proof.
  induction l as [|a l IH]; intros H; [destruct H|]. cbn [zprod fold_right]. fold (zprod l).
  destruct H as [->|H]; [ring|]. rewrite IH by exact H. ring.
Qed.

(** indices below n other than j *)
Definition others (n j : nat) : list nat := seq 0 j ++ seq (S j) (n - S j).

Lemma others_length n j : (j < n)%nat -> length (others n j) = (n - 1)%nat.
Proof. intros H. unfold others. rewrite app_length, !seq_length. lia. Qed.

Lemma others_in n j i : (j < n)%nat -> In i (others n j) <-> (i < n /\ i <> j)%nat.
Proof. intros Hj. unfold others. rewrite in_app_iff, !in_seq. lia. Qed.

Lemma mod_eq_sub a b q : a mod q = b mod q <-> (a - b) mod q = 0.
Proof.
  split; intros H.
  - rewrite Zminus_mod, H, Z.sub_diag. apply Zmod_0_l.
  - replace a with ((a - b) + b) by ring. rewrite Zplus_mod, H, Z.add_0_l. apply Zmod_mod.
Qed.

Section Lagrange.
  Variable q : Z.

  (** a zero-order row of the Birkhoff matrix is a Vandermonde row *)
  Lemma mcoef_order0 x k : Z.of_nat k < 2 ^ 64 -> mcoef q x 0 k mod q = x ^ Z.of_nat k mod q.
  Proof.
    intros Hk. unfold mcoef. cbn [Nat.ltb Nat.leb]. rewrite Nat.sub_0_r.
    rewrite fmul_mod, factorial_range_spec by lia. rewrite range_prod_refl, fpow_spec.
    rewrite <- Zmult_mod. f_equal. ring.
  Qed.

  Section Params.
    Variable params : list (Z * nat).
    Let n := length params.
    Let xs (i : nat) : Z := fst (nth i params (0, O)).
    Hypothesis Hne : params <> [].
    Hypothesis Hn : Z.of_nat n <= 2 ^ 64.
    Hypothesis Hrank0 : forall i, (i < n)%nat -> snd (nth i params (0, O)) = O.

    (** numerator and denominator of the j-th Lagrange coefficient at 0 *)
    Definition lag_num (j : nat) : Z := zprod (map (fun m => xs m) (others n j)).
    Definition lag_den (j : nat) : Z := zprod (map (fun m => xs m - xs j) (others n j)).

    Lemma moments b :
      (forall k, (k < n)%nat ->
         bigsum n (fun i => nth i b 0 * mcoef q (xs i) (snd (nth i params (0, O))) k) mod q
         = (if (0 =? k)%nat then 1 else 0)) ->
      forall k, (k < n)%nat ->
        bigsum n (fun i => nth i b 0 * xs i ^ Z.of_nat k) mod q = (if (0 =? k)%nat then 1 else 0).
    Proof.
      intros H k Hk. rewrite <- (H k Hk). apply bigsum_mod_ext. intros i Hi.
      rewrite Hrank0 by exact Hi.
      rewrite <- Zmult_mod_idemp_r. rewrite <- (mcoef_order0 (xs i) k) by lia.
      rewrite Zmult_mod_idemp_r. reflexivity.
    Qed.

    Lemma lagrange_equation b j : (j < n)%nat ->
      (forall k, (k < n)%nat ->
        bigsum n (fun i => nth i b 0 * xs i ^ Z.of_nat k) mod q = (if (0 =? k)%nat then 1 else 0)) ->
      (nth j b 0 * lag_den j) mod q = lag_num j mod q.
    Proof.
      intros Hj Hmom.
      set (Lp := lag_poly xs (others n j)).
      assert (HL : length Lp = n) by (unfold Lp; rewrite lag_poly_length, others_length by exact Hj; lia).
      (* sum_k L_k * (sum_i b_i x_i^k), evaluated in two ways *)
      assert (E1 : bigsum n (fun k => nth k Lp 0 * bigsum n (fun i => nth i b 0 * xs i ^ Z.of_nat k))
                   = bigsum n (fun i => nth i b 0 * peval Lp (xs i))).
      { transitivity (bigsum n (fun k => bigsum n (fun i => nth k Lp 0 * (nth i b 0 * xs i ^ Z.of_nat k)))).
        - apply bigsum_ext. intros k Hk. symmetry. apply bigsum_scale_l.
        - rewrite bigsum_swap. apply bigsum_ext. intros i Hi.
          rewrite peval_bigsum, HL. rewrite <- bigsum_scale_l. apply bigsum_ext. intros k Hk. ring. }
      (* right-hand side: only the node x_j survives *)
      assert (E2 : bigsum n (fun i => nth i b 0 * peval Lp (xs i)) = nth j b 0 * lag_den j).
      { rewrite (bigsum_single n j); [|exact Hj|].
        - unfold Lp. rewrite lag_poly_eval. reflexivity.
        - intros i Hi Hij. unfold Lp. rewrite lag_poly_eval. rewrite zprod_zero; [ring|].
          apply in_map_iff. exists i. split; [ring|]. apply others_in; lia. }
      (* left-hand side modulo q: only k = 0 survives *)
      assert (E3 : bigsum n (fun k => nth k Lp 0 * bigsum n (fun i => nth i b 0 * xs i ^ Z.of_nat k)) mod q
                   = lag_num j mod q).
      { transitivity (bigsum n (fun k => nth k Lp 0 * (if (0 =? k)%nat then 1 else 0)) mod q).
        - apply bigsum_mod_ext. intros k Hk. rewrite <- (Hmom k Hk). apply eq_sym, Zmult_mod_idemp_r.
        - rewrite (bigsum_single n 0); [|lia|intros i Hi Hi0; destruct i; [contradiction|cbn [Nat.eqb]; ring]].
          cbn [Nat.eqb]. rewrite Z.mul_1_r. f_equal.
          assert (P0 : peval Lp 0 = nth 0 Lp 0) by (destruct Lp; cbn [peval nth]; ring).
          rewrite <- P0. unfold Lp. rewrite lag_poly_eval. unfold lag_num. f_equal.
          apply map_ext. intros m. ring. }
      rewrite <- E2, <- E1. exact E3.
    Qed.

    (** C13 birkhoff_is_lagrange, first half: the equation of the Lagrange coefficient *)
    Theorem birkhoff_lagrange_equation Minv :
      matrix_inverse q (birkhoff_matrix q params) n = Val Minv ->
      mat_mul q Minv (birkhoff_matrix q params) = mat_id n ->
      exists b, birkhoff_coeffs q params = Val b /\
        forall j, (j < n)%nat -> (nth j b 0 * lag_den j) mod q = lag_num j mod q.
    Proof.
      intros Hinv Hmul.
      destruct (row0_of_left_inverse q params Hne Minv Hmul) as (b & rest & -> & Hrow).
      exists b. split.
      { unfold birkhoff_coeffs. fold n. rewrite Hinv. reflexivity. }
      intros j Hj. apply lagrange_equation; [exact Hj|]. apply moments. exact Hrow.
    Qed.

    (** second half: for prime q and pairwise distinct nodes the equation has one solution *)
    Hypothesis Hprime : prime q.

    Lemma prime_divides_zprod l : (q | zprod l) -> exists a, In a l /\ (q | a).
    Proof.
      induction l as [|a l IH]; cbn [zprod fold_right]; intros H.
      - exfalso. destruct Hprime as [Hq _]. apply Z.divide_1_r in H. lia.
      - fold (zprod l) in H. apply (prime_mult q Hprime) in H. destruct H as [H|H].
        + exists a. split; [left; reflexivity|exact H].
        + destruct (IH H) as (a' & Hin & Hd). exists a'. split; [right; exact Hin|exact Hd].
    Qed.

    Theorem birkhoff_is_lagrange Minv :
      (forall i j, (i < n)%nat -> (j < n)%nat -> i <> j -> xs i mod q <> xs j mod q) ->
      matrix_inverse q (birkhoff_matrix q params) n = Val Minv ->
      mat_mul q Minv (birkhoff_matrix q params) = mat_id n ->
      exists b, birkhoff_coeffs q params = Val b /\
        forall j, (j < n)%nat ->
          (nth j b 0 * lag_den j) mod q = lag_num j mod q /\
          forall lam, (lam * lag_den j) mod q = lag_num j mod q -> nth j b 0 mod q = lam mod q.
    Proof.
      intros Hdist Hinv Hmul.
      destruct (birkhoff_lagrange_equation Minv Hinv Hmul) as (b & Hb & Heq).
      exists b. split; [exact Hb|]. intros j Hj. split; [apply Heq; exact Hj|].
      intros lam Hlam.
      assert (Hq : q <> 0) by (destruct Hprime; lia).
      apply mod_eq_sub. apply (Z.mod_divide _ _ Hq).
      assert (D : (q | (nth j b 0 - lam) * lag_den j)).
      { apply (Z.mod_divide _ _ Hq). replace ((nth j b 0 - lam) * lag_den j)
          with (nth j b 0 * lag_den j - lam * lag_den j) by ring.
        apply mod_eq_sub. rewrite Heq by exact Hj. symmetry. exact Hlam. }
      apply (prime_mult q Hprime) in D. destruct D as [D|D]; [exact D|].
      exfalso. apply prime_divides_zprod in D. destruct D as (a & Hin & Hd).
      apply in_map_iff in Hin. destruct Hin as (m & <- & Hm). apply others_in in Hm; [|exact Hj].
      apply (Z.mod_divide _ _ Hq) in Hd. apply mod_eq_sub in Hd.
      apply (Hdist m j); [lia|exact Hj|lia|exact Hd].
    Qed.
  End Params.
End Lagrange.

(** non-vacuity: three parties with ids 1,2,3, all orders zero: b = (3, -3, 1) *)
Example lagrange_example :
  birkhoff_coeffs Poly.secp256k1_q [(1, 0%nat); (2, 0%nat); (3, 0%nat)]
  = Val [3; Poly.secp256k1_q - 3; 1].
Proof. vm_compute. reflexivity. Qed.
