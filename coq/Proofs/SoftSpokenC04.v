(** C04: the OT-extension sender catches a deviating receiver.
    General characterisation of the sender's verdict for ANY well-formed first-round message, then:
    transit corruption of t / x, tampered u, the calibrated selective-failure adversary. *)
From SL Require Import Lib.Base Lib.Oracle Gen.Params Model.Gf128 Model.SoftSpoken.
From SL Require Import Proofs.ByteLangLin Proofs.Gf128Spec Proofs.SoftSpokenBytes Proofs.SoftSpokenAlgebra
  Proofs.SoftSpokenTranspose Proofs.SoftSpokenC03.
Local Open Scope nat_scope.

Lemma list_neq_nth {A} (d : A) (l1 l2 : list A) : length l1 = length l2 -> l1 <> l2 ->
  ~ (forall i, i < length l1 -> nth i l1 d = nth i l2 d).
Proof. intros L NE Hall. apply NE. apply (nth_ext l1 l2 d d L Hall). Qed.

Lemma low4_eq (a b : N) : (a < 16)%N -> (b < 16)%N ->
  (forall k, k < 4 -> N.testbit a (N.of_nat k) = N.testbit b (N.of_nat k)) -> a = b.
Proof.
  intros Ha Hb Hbits. apply N.bits_inj. intros k.
  destruct (N.lt_ge_cases k 4) as [Hk|Hk].
  - rewrite <- (N2Nat.id k). apply Hbits. lia.
  - assert (high : forall x, (x < 16)%N -> N.testbit x k = false).
    { intros x Hx. destruct (N.eq_dec x 0) as [->|NZ]; [apply N.bits_0|].
      apply N.bits_above_log2. apply N.log2_lt_pow2; [lia|].
      eapply N.lt_le_trans; [exact Hx|]. change 16%N with (2 ^ 4)%N. apply N.pow_le_mono_r; [discriminate|exact Hk]. }
    rewrite (high a Ha), (high b Hb). reflexivity.
Qed.

Lemma maskb_eq_iff (n g : bool) (A : list N) : maskb n A = maskb g A <-> (n = g \/ A = zbytes (length A)).
Proof.
  destruct n, g; cbn [maskb]; split; intros Hx; try (left; reflexivity); try reflexivity.
  - right. exact Hx.
  - destruct Hx as [Hx|Hx]; [discriminate|exact Hx].
  - right. symmetry. exact Hx.
  - destruct Hx as [Hx|Hx]; [discriminate|symmetry; exact Hx].
Qed.

(** P ^ n*(C ^ A) = (P ^ g*A) ^ n*C   <->   n*A = g*A *)
Lemma sel_eq_iff (P C A : list N) (n g : bool) : length P = 16 -> length C = 16 -> length A = 16 ->
  (xor_bytes P (maskb n (xor_bytes C A)) = xor_bytes (xor_bytes P (maskb g A)) (maskb n C)
   <-> maskb n A = maskb g A).
Proof.
  intros LP LC LA.
  rewrite maskb_xor by congruence.
  rewrite (xor_bytes_assoc P (maskb g A) (maskb n C)), (xor_bytes_comm (maskb g A) (maskb n C)).
  split.
  - intros E. apply xor_bytes_inj_l in E.
    + apply xor_bytes_inj_l in E; [exact E| |]; rewrite !maskb_length; congruence.
    + rewrite xor_bytes_length, !maskb_length, LC, LA, LP. reflexivity.
    + rewrite xor_bytes_length, !maskb_length, LC, LA, LP. reflexivity.
  - intros ->. reflexivity.
Qed.

Section C04.
  Variable H : transcript_oracle.
  Variable sid : list N.
  Variable ss : SenderOTSeed.
  Variable rs : ReceiverOTSeed.
  Hypothesis Hseeds : seeds_ok ss rs.

  Let deltas := random_choices rs.
  Let v := recv_v (recv_expand H sid ss).
  Let nabla := packed_nabla deltas.

  Lemma deltas_len : length deltas = ssTrees.
  Proof. apply Hseeds. Qed.

  (** the choice vector the sender effectively sees in the block of row r: sum_j r_j ^ u_i *)
  Definition eff (u' : list (list N)) (r : nat) : list N :=
    xor_bytes (tree_sum H sid ss (r / 4)) (nth (r / 4) u' []).

  Lemma eff_row u' r : length u' = ssTrees -> Forall (rowP ssLPB) u' -> r < ssLC -> rowP ssLPB (eff u' r).
  Proof.
    intros Lu Hu Hr. rewrite ssLC_val in Hr. apply xor_bytes_row; [apply tree_sum_row|].
    apply Forall_nth_P; [exact Hu|]. rewrite Lu, ssTrees_val. apply Nat.div_lt_upper_bound; lia.
  Qed.

  Definition w_of (u' : list (list N)) : list (list N) := send_w deltas (send_expand H sid rs) u'.
  Definition chis_of (u' : list (list N)) : list (list N) := chi_matrix H (matrix_digest H sid u').

  Lemma w_of_length u' : length u' = ssTrees -> length (w_of u') = ssLC.
  Proof.
    intros Lu. apply send_w_length; [apply deltas_len| |exact Lu]. apply send_expand_length; apply Hseeds.
  Qed.

  Lemma w_of_row u' r : length u' = ssTrees -> Forall (rowP ssLPB) u' -> r < ssLC ->
    nth r (w_of u') [] = xor_bytes (nth r v []) (maskb (nabla_bit deltas r) (eff u' r)).
  Proof.
    intros Lu Hu Hr. pose proof Hr as Hr'. rewrite ssLC_val in Hr'.
    assert (Hi : r / 4 < ssTrees) by (rewrite ssTrees_val; apply Nat.div_lt_upper_bound; lia).
    assert (Hb : r mod 4 < ssK) by (rewrite ssK_val; apply Nat.mod_upper_bound; discriminate).
    rewrite (div_mod_4' r) at 1 2. unfold w_of, v, deltas.
    rewrite (send_w_general H sid ss rs u' (r / 4) (r mod 4) Hseeds Lu Hu Hi Hb). reflexivity.
  Qed.

  (** the equations the sender checks, in terms of the receiver-side quantities *)
  Definition accept_eqs (msg : Round1Output) : Prop :=
    forall r, r < ssLC ->
      Phi (chis_of (r1_u msg)) (xor_bytes (nth r v []) (maskb (nabla_bit deltas r) (eff (r1_u msg) r))) =
      xor_bytes (nth r (r1_t msg) []) (maskb (nabla_bit deltas r) (r1_x msg)).

  Lemma send_row_ok_iff chis msg r w_r : r < ssLC -> Forall byteP (r1_x msg) ->
    send_row_ok chis nabla msg r w_r = true <->
    Phi chis w_r = xor_bytes (nth r (r1_t msg) []) (maskb (nabla_bit deltas r) (r1_x msg)).
  Proof.
    intros Hr Bx. unfold send_row_ok. rewrite map_combine_xor, ss_extract_bit_bitat.
    unfold nabla. rewrite packed_nabla_bitat by (try apply deltas_len; exact Hr).
    change (if nabla_bit deltas r then 1%N else 0%N) with (N.b2n (nabla_bit deltas r)).
    rewrite and_mask_bit by exact Bx. apply bytes_eqb_eq.
  Qed.

  Lemma send_check_iff msg : msg_ok msg ->
    send_check (chis_of (r1_u msg)) nabla msg (w_of (r1_u msg)) = true <-> accept_eqs msg.
  Proof.
    intros (Lu & Hu & [Lx Bx] & Lt & Ht). unfold send_check. rewrite forallb_forall. split.
    - intros Hall r Hr. rewrite <- w_of_row by assumption.
      apply (send_row_ok_iff _ msg r _ Hr Bx).
      apply (Hall (r, nth r (w_of (r1_u msg)) [])).
      rewrite <- (w_of_length _ Lu). apply (combine_seq_in _ 0 r). rewrite w_of_length by exact Lu. exact Hr.
    - intros Heq [r wr] Hin. cbn [fst snd].
      rewrite <- (w_of_length _ Lu) in Hin. destruct (in_combine_seq _ 0 r wr [] Hin) as [Hr ->].
      rewrite Nat.sub_0_r. rewrite w_of_length in Hr by exact Lu.
      apply (send_row_ok_iff _ msg r _ (proj2 Hr) Bx). rewrite w_of_row by (try assumption; apply Hr).
      apply Heq. apply Hr.
  Qed.

  Lemma sender_eq msg :
    ss_sender H sid rs msg =
    if send_check (chis_of (r1_u msg)) nabla msg (w_of (r1_u msg))
    then Val (send_outputs H sid nabla (transpose_bool_matrix (w_of (r1_u msg)))) else Err ss_err_ban.
  Proof. reflexivity. Qed.

  (** The verdict of the sender on ANY well-formed message. *)
  Theorem sender_accepts_iff msg : msg_ok msg ->
    ((exists so, ss_sender H sid rs msg = Val so) <-> accept_eqs msg).
  Proof.
    intros Hm. rewrite sender_eq. rewrite <- (send_check_iff msg Hm).
    destruct (send_check _ _ _ _).
    - split; [intros _; reflexivity|intros _; eexists; reflexivity].
    - split; [intros [so Hx]; discriminate|intros Hx; discriminate].
  Qed.

  Theorem sender_rejects_iff msg : msg_ok msg ->
    (ss_sender H sid rs msg = Err ss_err_ban <-> ~ accept_eqs msg).
  Proof.
    intros Hm. rewrite sender_eq. rewrite <- (send_check_iff msg Hm).
    destruct (send_check _ _ _ _).
    - split; [intros Hx; discriminate|intros Hx; exfalso; apply Hx; reflexivity].
    - split; [intros _ E; discriminate|intros _; reflexivity].
  Qed.

  (** no output without acceptance: the result is [Val] of the outputs or exactly the ban error *)
  Theorem sender_val_or_ban msg :
    (exists so, ss_sender H sid rs msg = Val so) \/ ss_sender H sid rs msg = Err ss_err_ban.
  Proof. rewrite sender_eq. destruct (send_check _ _ _ _); [left; eexists; reflexivity|right; reflexivity]. Qed.

  (* ---------------------------------------------------------------- the honest message and its corruptions *)
  Variable choices tape : list N.
  Hypothesis Hchoices : rowP ssLB choices.
  Hypothesis Htape : rowP ssSB tape.

  Let epc := choices ++ tape.
  Let m := fst (ss_receiver H sid ss choices tape).
  Let u := r1_u m.
  Let chis := chis_of u.

  Lemma hu_length : length u = ssTrees.
  Proof. exact (u_length H sid ss rs choices tape Hseeds). Qed.
  Lemma hu_rows : Forall (rowP ssLPB) u.
  Proof. exact (u_rows H sid ss rs choices tape Hseeds Hchoices Htape). Qed.
  Lemma hepc_row : rowP ssLPB epc.
  Proof. exact (epc_row choices tape Hchoices Htape). Qed.

  Lemma hx_eq : r1_x m = Phi chis epc.
  Proof. reflexivity. Qed.

  Lemma ht_nth r : r < ssLC -> nth r (r1_t m) [] = Phi chis (nth r v []).
  Proof. intros Hr. exact (recv_t_nth H sid ss rs choices tape Hseeds r Hr). Qed.

  Lemma ht_length : length (r1_t m) = ssLC.
  Proof.
    unfold m, ss_receiver, ss_receiver_buf. cbn [fst r1_t]. unfold recv_t. cbn [round1_default r1_t].
    rewrite map_length, combine_length, repeat_length.
    rewrite (v_length H sid ss rs Hseeds). apply Nat.min_id.
  Qed.

  Lemma hv_row r : r < ssLC -> rowP ssLPB (nth r v []).
  Proof. apply (v_row H sid ss rs Hseeds). Qed.

  Lemma phi_row16 c row : rowP ssLPB row -> rowP 16 (Phi c row).
  Proof. intros [L B]. apply Phi_row; assumption. Qed.

  Lemma hmsg_ok : msg_ok m.
  Proof.
    split; [exact hu_length|]. split; [exact hu_rows|]. split; [|split].
    - rewrite hx_eq, ssSB_val. apply phi_row16, hepc_row.
    - exact ht_length.
    - apply Forall_forall. intros row Hin. destruct (In_nth _ _ [] Hin) as (r & Hr & <-).
      rewrite ht_length in Hr. rewrite ht_nth by exact Hr. rewrite ssSB_val. apply phi_row16, hv_row, Hr.
  Qed.

  (** sum_j r_j ^ (honest u_i) = the extended choice vector *)
  Lemma eff_honest r : r < ssLC -> eff u r = epc.
  Proof.
    intros Hr. rewrite ssLC_val in Hr. unfold eff, tree_sum.
    assert (Hi : r / 4 < ssTrees) by (rewrite ssTrees_val; apply Nat.div_lt_upper_bound; lia).
    pose proof (u_nth H sid ss rs choices tape Hseeds (r / 4) Hi) as E.
    change (recv_u (choices ++ tape) (r1_u round1_default) (recv_expand H sid ss)) with u in E. rewrite E.
    apply recv_u_row_char; [apply hepc_row|apply recv_expand_rows].
  Qed.

  (** for a deviating u' = u ^ e the effective vector of block i is epc ^ e_i *)
  Lemma eff_dev u' r : length u' = ssTrees -> Forall (rowP ssLPB) u' -> r < ssLC ->
    eff u' r = xor_bytes epc (xor_bytes (nth (r / 4) u []) (nth (r / 4) u' [])).
  Proof.
    intros Lu Hu Hr. rewrite <- (eff_honest r Hr). unfold eff.
    pose proof Hr as Hr'. rewrite ssLC_val in Hr'.
    assert (Hi : r / 4 < ssTrees) by (rewrite ssTrees_val; apply Nat.div_lt_upper_bound; lia).
    destruct (tree_sum_row H sid ss (r / 4)) as [LS _].
    assert (L1 : length (nth (r / 4) u []) = ssLPB) by (apply (Forall_nth_P _ _ _ [] hu_rows); rewrite hu_length; exact Hi).
    assert (L2 : length (nth (r / 4) u' []) = ssLPB) by (apply (Forall_nth_P _ _ _ [] Hu); rewrite Lu; exact Hi).
    rewrite xor_bytes_assoc. f_equal. rewrite <- xor_bytes_assoc, xor_bytes_self, L1.
    symmetry. apply xor_bytes_zeros_l, L2.
  Qed.

  (* -------- t *)
  (** A message that differs from the honest one only in t is accepted iff t is unchanged. *)
  Theorem flip_t_char t' : length t' = ssLC -> Forall (rowP ssSB) t' ->
    ((exists so, ss_sender H sid rs {| r1_u := u; r1_x := r1_x m; r1_t := t' |} = Val so) <-> t' = r1_t m).
  Proof.
    intros Lt Ht.
    assert (Hm' : msg_ok {| r1_u := u; r1_x := r1_x m; r1_t := t' |}).
    { destruct hmsg_ok as (A & B & C & _ & _). repeat split; cbn; try assumption; apply C. }
    rewrite (sender_accepts_iff _ Hm'). unfold accept_eqs. cbn [r1_u r1_x r1_t].
    pose proof (proj1 (sender_accepts_iff m hmsg_ok) (ex_intro _ _ (honest_accepted H sid ss rs choices tape Hseeds Hchoices Htape))) as Hh.
    unfold accept_eqs in Hh. fold u in Hh.
    split.
    - intros Heq. apply (nth_ext t' (r1_t m) [] []); [rewrite ht_length; exact Lt|].
      intros r Hr. rewrite Lt in Hr. specialize (Heq r Hr). specialize (Hh r Hr). rewrite Hh in Heq.
      symmetry. eapply xor_bytes_inj_r; [| |exact Heq].
      + rewrite maskb_length. destruct hmsg_ok as (_ & _ & [Lx _] & _ & Hrows).
        rewrite Lx. apply (Forall_nth_P _ _ _ [] Hrows). rewrite ht_length. exact Hr.
      + rewrite maskb_length. destruct hmsg_ok as (_ & _ & [Lx _] & _ & _).
        rewrite Lx. apply (Forall_nth_P _ _ _ [] Ht). rewrite Lt. exact Hr.
    - intros ->. exact Hh.
  Qed.

  Theorem flip_t_rejected t' : length t' = ssLC -> Forall (rowP ssSB) t' -> t' <> r1_t m ->
    ss_sender H sid rs {| r1_u := u; r1_x := r1_x m; r1_t := t' |} = Err ss_err_ban.
  Proof.
    intros Lt Ht NE. destruct (sender_val_or_ban {| r1_u := u; r1_x := r1_x m; r1_t := t' |}) as [Hacc|Hrej]; [|exact Hrej].
    exfalso. apply NE. apply (flip_t_char t' Lt Ht). exact Hacc.
  Qed.

  (* -------- x *)
  Lemma nabla_bits_zero_iff :
    (forall r, r < ssLC -> nabla_bit deltas r = false) <-> (forall i, i < ssTrees -> nth i deltas 0%N = 0%N).
  Proof.
    destruct Hseeds as (_ & _ & _ & Hs). split.
    - intros Hz i Hi. destruct (Hs i Hi) as (Hd & _). apply (low4_eq _ 0%N Hd); [reflexivity|].
      intros k Hk. rewrite N.bits_0. specialize (Hz (4 * i + k)). unfold nabla_bit in Hz.
      destruct (div_mod_4 i k Hk) as [E1 E2]. rewrite E1, E2 in Hz. apply Hz.
      rewrite ssLC_val. rewrite ssTrees_val in Hi. lia.
    - intros Hz r Hr. unfold nabla_bit. rewrite Hz; [apply N.bits_0|].
      rewrite ssLC_val in Hr. rewrite ssTrees_val. apply Nat.div_lt_upper_bound; lia.
  Qed.

  (** A message that differs from the honest one only in x (x' <> x) is accepted iff every punctured index is 0
      (nabla = 0: the sender never looks at x). *)
  Theorem flip_x_char x' : rowP ssSB x' -> x' <> r1_x m ->
    ((exists so, ss_sender H sid rs {| r1_u := u; r1_x := x'; r1_t := r1_t m |} = Val so) <->
     forall i, i < ssTrees -> nth i deltas 0%N = 0%N).
  Proof.
    intros Hx NE.
    assert (Hm' : msg_ok {| r1_u := u; r1_x := x'; r1_t := r1_t m |}).
    { destruct hmsg_ok as (A & B & _ & D & E). repeat split; cbn; try assumption; apply Hx. }
    rewrite (sender_accepts_iff _ Hm'). unfold accept_eqs. cbn [r1_u r1_x r1_t].
    pose proof (proj1 (sender_accepts_iff m hmsg_ok) (ex_intro _ _ (honest_accepted H sid ss rs choices tape Hseeds Hchoices Htape))) as Hh.
    unfold accept_eqs in Hh. fold u in Hh.
    rewrite <- nabla_bits_zero_iff.
    destruct hmsg_ok as (_ & _ & [Lx _] & _ & Hrows). destruct Hx as [Lx' Bx'].
    split.
    - intros Heq r Hr. specialize (Heq r Hr). specialize (Hh r Hr). rewrite Hh in Heq.
      apply xor_bytes_inj_l in Heq.
      + destruct (nabla_bit deltas r); [|reflexivity]. cbn [maskb] in Heq. exfalso. apply NE. symmetry. exact Heq.
      + rewrite maskb_length, Lx. symmetry. apply (Forall_nth_P _ _ _ [] Hrows). rewrite ht_length. exact Hr.
      + rewrite maskb_length, Lx'. symmetry. apply (Forall_nth_P _ _ _ [] Hrows). rewrite ht_length. exact Hr.
    - intros Hz r Hr. rewrite (Hh r Hr). rewrite (Hz r Hr). cbn [maskb]. rewrite Lx, Lx'. reflexivity.
  Qed.

  Theorem flip_x_rejected x' : rowP ssSB x' -> x' <> r1_x m ->
    (exists i, i < ssTrees /\ nth i deltas 0%N <> 0%N) ->
    ss_sender H sid rs {| r1_u := u; r1_x := x'; r1_t := r1_t m |} = Err ss_err_ban.
  Proof.
    intros Hx NE (i & Hi & NZ).
    destruct (sender_val_or_ban {| r1_u := u; r1_x := x'; r1_t := r1_t m |}) as [Hacc|Hrej]; [|exact Hrej].
    exfalso. apply NZ. apply (proj1 (flip_x_char x' Hx NE) Hacc i Hi).
  Qed.

  (* -------- u *)
  (** A message whose u was replaced (x, t still the honest ones) is accepted iff the FRESH challenges
      chi' = H(digest u') satisfy, for every row r = 4i+b, one explicit GF(2^128)-linear equation relating
      them to the old data (v, the old check values, the difference e_i = u_i ^ u'_i and the bit delta_{i,b}). *)
  Theorem tampered_u_accept_char u' : length u' = ssTrees -> Forall (rowP ssLPB) u' ->
    ((exists so, ss_sender H sid rs {| r1_u := u'; r1_x := r1_x m; r1_t := r1_t m |} = Val so) <->
     forall r, r < ssLC ->
       let e_i := xor_bytes (nth (r / 4) u []) (nth (r / 4) u' []) in
       xor_bytes (Phi (chis_of u') (nth r v []))
                 (maskb (nabla_bit deltas r) (xor_bytes (Phi (chis_of u') epc) (Phi (chis_of u') e_i))) =
       xor_bytes (Phi chis (nth r v [])) (maskb (nabla_bit deltas r) (Phi chis epc))).
  Proof.
    intros Lu Hu.
    assert (Hm' : msg_ok {| r1_u := u'; r1_x := r1_x m; r1_t := r1_t m |}).
    { destruct hmsg_ok as (_ & _ & C & D & E). repeat split; cbn; try assumption; apply C. }
    rewrite (sender_accepts_iff _ Hm'). unfold accept_eqs. cbn [r1_u r1_x r1_t].
    split; intros Heq r Hr; specialize (Heq r Hr); cbn zeta in *.
    - rewrite ht_nth, hx_eq in Heq by exact Hr. rewrite <- Heq.
      rewrite (eff_dev u' r Lu Hu Hr).
      pose proof Hr as Hr'. rewrite ssLC_val in Hr'.
      assert (Hi : r / 4 < ssTrees) by (rewrite ssTrees_val; apply Nat.div_lt_upper_bound; lia).
      assert (He : rowP ssLPB (xor_bytes (nth (r / 4) u []) (nth (r / 4) u' []))).
      { apply xor_bytes_row; [apply (Forall_nth_P _ _ _ [] hu_rows); rewrite hu_length; exact Hi
                             |apply (Forall_nth_P _ _ _ [] Hu); rewrite Lu; exact Hi]. }
      rewrite Phi_xor_maskb; [|apply hv_row, Hr|apply xor_bytes_row; [apply hepc_row|exact He]].
      rewrite (Phi_xor (chis_of u') epc (xor_bytes (nth (r / 4) u []) (nth (r / 4) u' []))); [|apply hepc_row|exact He].
      reflexivity.
    - rewrite ht_nth, hx_eq by exact Hr. rewrite <- Heq.
      rewrite (eff_dev u' r Lu Hu Hr).
      pose proof Hr as Hr'. rewrite ssLC_val in Hr'.
      assert (Hi : r / 4 < ssTrees) by (rewrite ssTrees_val; apply Nat.div_lt_upper_bound; lia).
      assert (He : rowP ssLPB (xor_bytes (nth (r / 4) u []) (nth (r / 4) u' []))).
      { apply xor_bytes_row; [apply (Forall_nth_P _ _ _ [] hu_rows); rewrite hu_length; exact Hi
                             |apply (Forall_nth_P _ _ _ [] Hu); rewrite Lu; exact Hi]. }
      rewrite Phi_xor_maskb; [|apply hv_row, Hr|apply xor_bytes_row; [apply hepc_row|exact He]].
      rewrite (Phi_xor (chis_of u') epc (xor_bytes (nth (r / 4) u []) (nth (r / 4) u' []))); [|apply hepc_row|exact He].
      reflexivity.
  Qed.
End C04.

(* ==================================================================== the calibrated adversary *)
Section C04Adv.
  Variable H : transcript_oracle.
  Variable sid : list N.
  Variable ss : SenderOTSeed.
  Variable rs : ReceiverOTSeed.
  Variable choices tape : list N.
  Variable e : list (list N).
  Variable g : list N.
  Hypothesis Hseeds : seeds_ok ss rs.
  Hypothesis Hchoices : rowP ssLB choices.
  Hypothesis Htape : rowP ssSB tape.
  Hypothesis He_len : length e = ssTrees.
  Hypothesis He_rows : Forall (rowP ssLPB) e.
  Hypothesis Hg_len : length g = ssTrees.
  Hypothesis Hg_lt : forall i, i < ssTrees -> (nth i g 0 < 16)%N.

  Let deltas := random_choices rs.
  Let epc := choices ++ tape.
  Let rx := recv_expand H sid ss.
  Let v := recv_v rx.
  Let u := r1_u (fst (ss_receiver H sid ss choices tape)).
  Let m' := adv_receiver H sid ss choices tape e g.
  Let u' := r1_u m'.
  Let chis' := chis_of H sid u'.
  (** the hash image of the deviation of block i under the fresh challenges *)
  Let A (i : nat) := Phi chis' (nth i e []).

  Lemma hu_len' : length u = ssTrees.
  Proof. exact (hu_length H sid ss rs Hseeds choices tape). Qed.
  Lemma hu_rows' : Forall (rowP ssLPB) u.
  Proof. exact (hu_rows H sid ss rs Hseeds choices tape Hchoices Htape). Qed.

  Lemma adv_u_nth i : nth i u' [] = xor_bytes (nth i u []) (nth i e []).
  Proof. unfold u', m', adv_receiver. cbn [r1_u]. apply map_combine_xor_bytes. Qed.

  Lemma adv_u_length : length u' = ssTrees.
  Proof.
    unfold u', m', adv_receiver. cbn [r1_u]. rewrite map_length, combine_length, He_len.
    change (recv_u (choices ++ tape) (r1_u round1_default) (recv_expand H sid ss)) with u.
    rewrite hu_len'. apply Nat.min_id.
  Qed.

  Lemma e_row i : i < ssTrees -> rowP ssLPB (nth i e []).
  Proof. intros Hi. apply Forall_nth_P; [exact He_rows|rewrite He_len; exact Hi]. Qed.

  Lemma hu_row i : i < ssTrees -> rowP ssLPB (nth i u []).
  Proof.
    intros Hi. apply Forall_nth_P; [apply hu_rows'|]. rewrite hu_len'. exact Hi.
  Qed.

  Lemma adv_u_rows : Forall (rowP ssLPB) u'.
  Proof.
    apply Forall_forall. intros row Hin. destruct (In_nth _ _ [] Hin) as (i & Hi & <-).
    rewrite adv_u_length in Hi. rewrite adv_u_nth. apply xor_bytes_row; [apply hu_row, Hi|apply e_row, Hi].
  Qed.

  Lemma adv_x_eq : r1_x m' = Phi chis' epc.
  Proof. reflexivity. Qed.

  Lemma blocks_length : length (recv_v_blocks rx) = ssTrees.
  Proof. unfold recv_v_blocks. rewrite map_length. unfold rx. rewrite recv_expand_length. apply Hseeds. Qed.

  Lemma blocks_nth i : i < ssTrees -> nth i (recv_v_blocks rx) [] = map (recv_v_row (nth i rx [])) (Nseq ssK).
  Proof.
    intros Hi. unfold recv_v_blocks. apply (nth_map_lt (fun rs0 => map (recv_v_row rs0) (Nseq ssK)) rx i [] []).
    unfold rx. rewrite recv_expand_length. destruct Hseeds as (-> & _). exact Hi.
  Qed.

  Lemma adv_block_length gi ei rows : length rows = ssK -> length (adv_t_block chis' gi ei rows) = ssK.
  Proof. intros L. unfold adv_t_block. rewrite map_length, combine_length, Nseq_length, L. apply Nat.min_id. Qed.

  Lemma adv_t_nth i b : i < ssTrees -> b < ssK ->
    nth (i * ssK + b) (r1_t m') [] =
    xor_bytes (Phi chis' (nth (i * ssK + b) v [])) (maskb (N.testbit (nth i g 0%N) (N.of_nat b)) (A i)).
  Proof.
    intros Hi Hb. unfold m', adv_receiver. cbn [r1_t].
    change (recv_u (choices ++ tape) (r1_u round1_default) (recv_expand H sid ss)) with u.
    fold rx. change (map (fun ue => xor_bytes (fst ue) (snd ue)) (combine u e)) with u'.
    fold (chis_of H sid u'). fold chis'.
    rewrite (concat_nth_const _ ssK); [| |exact Hb].
    2:{ intros l Hl. apply in_map_iff in Hl. destruct Hl as ([gi [ei rows]] & <- & Hin).
        apply adv_block_length. apply in_combine_r in Hin. apply in_combine_r in Hin.
        unfold recv_v_blocks in Hin. apply in_map_iff in Hin. destruct Hin as (rs0 & <- & _).
        rewrite map_length. apply Nseq_length. }
    rewrite (nth_map_combine _ _ _ i 0%N ([], []) []) by (rewrite ?combine_length, ?He_len, ?blocks_length, ?Hg_len; lia).
    rewrite (combine_nth_lt _ _ i [] []) by (rewrite ?He_len, ?blocks_length; exact Hi).
    rewrite blocks_nth by exact Hi. unfold adv_t_block.
    rewrite (nth_map_combine _ _ _ b 0%N [] []) by (rewrite ?map_length, ?Nseq_length; exact Hb).
    rewrite Nseq_nth by exact Hb.
    rewrite (nth_map_lt _ _ _ 0%N) by (rewrite Nseq_length; exact Hb). rewrite Nseq_nth by exact Hb.
    unfold v. rewrite recv_v_nth; [|unfold rx; rewrite recv_expand_length; destruct Hseeds as (-> & _); exact Hi|exact Hb].
    rewrite and_mask_shiftr; [reflexivity|].
    apply (phi_row16 chis' (nth i e [])), e_row, Hi.
  Qed.

  Lemma adv_t_length : length (r1_t m') = ssLC.
  Proof.
    unfold m', adv_receiver. cbn [r1_t]. rewrite (concat_length_const _ ssK).
    - rewrite map_length, !combine_length, Hg_len, He_len. fold rx. rewrite blocks_length, !Nat.min_id. reflexivity.
    - intros l Hl. apply in_map_iff in Hl. destruct Hl as ([gi [ei rows]] & <- & Hin).
      unfold adv_t_block. rewrite map_length, combine_length, Nseq_length.
      apply in_combine_r in Hin. apply in_combine_r in Hin.
      unfold recv_v_blocks in Hin. apply in_map_iff in Hin. destruct Hin as (rs0 & <- & _).
      rewrite map_length, Nseq_length. apply Nat.min_id.
  Qed.

  Lemma A_row i : i < ssTrees -> rowP 16 (A i).
  Proof. intros Hi. apply phi_row16, e_row, Hi. Qed.

  Lemma adv_t_row r : r < ssLC ->
    nth r (r1_t m') [] =
    xor_bytes (Phi chis' (nth r v [])) (maskb (N.testbit (nth (r / 4) g 0%N) (N.of_nat (r mod 4))) (A (r / 4))).
  Proof.
    intros Hr. rewrite ssLC_val in Hr.
    assert (Hi : r / 4 < ssTrees) by (rewrite ssTrees_val; apply Nat.div_lt_upper_bound; lia).
    assert (Hb : r mod 4 < ssK) by (rewrite ssK_val; apply Nat.mod_upper_bound; discriminate).
    rewrite (div_mod_4' r) at 1 2. apply adv_t_nth; assumption.
  Qed.

  Lemma adv_msg_ok : msg_ok m'.
  Proof.
    split; [exact adv_u_length|]. split; [exact adv_u_rows|]. split; [|split].
    - rewrite adv_x_eq, ssSB_val. apply phi_row16, (epc_row choices tape Hchoices Htape).
    - exact adv_t_length.
    - apply Forall_forall. intros row Hin. destruct (In_nth _ _ [] Hin) as (r & Hr & <-).
      rewrite adv_t_length in Hr. rewrite adv_t_row by exact Hr. rewrite ssSB_val.
      pose proof Hr as Hr'. rewrite ssLC_val in Hr'.
      apply xor_bytes_row; [apply phi_row16, (v_row H sid ss rs Hseeds), Hr|].
      apply maskb_row, A_row. rewrite ssTrees_val. apply Nat.div_lt_upper_bound; lia.
  Qed.

  (** row r passes the sender's check iff the guessed bit is right or the hash image of e_i vanishes *)
  Lemma adv_row_iff r : r < ssLC ->
    (Phi chis' (xor_bytes (nth r v []) (maskb (nabla_bit deltas r) (eff H sid ss u' r))) =
     xor_bytes (nth r (r1_t m') []) (maskb (nabla_bit deltas r) (r1_x m'))) <->
    (nabla_bit deltas r = N.testbit (nth (r / 4) g 0%N) (N.of_nat (r mod 4)) \/ A (r / 4) = zbytes 16).
  Proof.
    intros Hr. pose proof Hr as Hr'. rewrite ssLC_val in Hr'.
    assert (Hi : r / 4 < ssTrees) by (rewrite ssTrees_val; apply Nat.div_lt_upper_bound; lia).
    rewrite (eff_dev H sid ss rs Hseeds choices tape Hchoices Htape u' r adv_u_length adv_u_rows Hr).
    fold u epc. rewrite adv_u_nth.
    destruct (hu_row _ Hi) as [Lu _]. destruct (e_row _ Hi) as [Le _].
    assert (Ecancel : xor_bytes (nth (r / 4) u []) (xor_bytes (nth (r / 4) u []) (nth (r / 4) e [])) = nth (r / 4) e []).
    { rewrite <- xor_bytes_assoc, xor_bytes_self, Lu. apply xor_bytes_zeros_l, Le. }
    rewrite Ecancel.
    rewrite Phi_xor_maskb; [|apply (v_row H sid ss rs Hseeds), Hr
                            |apply xor_bytes_row; [apply (epc_row choices tape Hchoices Htape)|apply e_row, Hi]].
    rewrite (Phi_xor chis' epc (nth (r / 4) e [])); [|apply (epc_row choices tape Hchoices Htape)|apply e_row, Hi].
    rewrite adv_t_row by exact Hr. rewrite adv_x_eq. fold (A (r / 4)).
    destruct (A_row _ Hi) as [LA _].
    rewrite sel_eq_iff; [| | |exact LA].
    - rewrite maskb_eq_iff, LA. reflexivity.
    - apply (phi_row16 chis'), (v_row H sid ss rs Hseeds), Hr.
    - apply (phi_row16 chis'), (epc_row choices tape Hchoices Htape).
  Qed.

  (** C04 selective failure: the calibrated adversary is accepted iff for every block the hash image of its
      deviation is zero or its guess equals the sender's punctured index. *)
  Theorem selective_failure :
    (exists so, ss_sender H sid rs m' = Val so) <->
    (forall i, i < ssTrees -> A i = zbytes 16 \/ nth i g 0%N = nth i deltas 0%N).
  Proof.
    rewrite (sender_accepts_iff H sid ss rs Hseeds m' adv_msg_ok). unfold accept_eqs.
    fold deltas v u'. split.
    - intros Hall i Hi.
      destruct (list_eq_dec N.eq_dec (A i) (zbytes 16)) as [Z|NZ]; [left; exact Z|right].
      destruct Hseeds as (_ & _ & _ & Hs). destruct (Hs i Hi) as (Hd & _).
      apply (low4_eq _ _ (Hg_lt i Hi) Hd). intros b Hb.
      assert (Hr : 4 * i + b < ssLC) by (rewrite ssLC_val; rewrite ssTrees_val in Hi; lia).
      pose proof (proj1 (adv_row_iff _ Hr) (Hall _ Hr)) as Hx.
      destruct (div_mod_4 i b Hb) as [E1 E2]. rewrite E1, E2 in Hx.
      destruct Hx as [Hx|Hx]; [|contradiction].
      unfold nabla_bit in Hx. rewrite E1, E2 in Hx. symmetry. exact Hx.
    - intros Hall r Hr. apply (adv_row_iff r Hr).
      pose proof Hr as Hr'. rewrite ssLC_val in Hr'.
      assert (Hi : r / 4 < ssTrees) by (rewrite ssTrees_val; apply Nat.div_lt_upper_bound; lia).
      destruct (Hall _ Hi) as [Z|E]; [right; exact Z|left].
      unfold nabla_bit. rewrite E. reflexivity.
  Qed.

  Theorem selective_failure_reject :
    (exists i, i < ssTrees /\ A i <> zbytes 16 /\ nth i g 0%N <> nth i deltas 0%N) ->
    ss_sender H sid rs m' = Err ss_err_ban.
  Proof.
    intros (i & Hi & NZ & NE).
    destruct (sender_val_or_ban H sid rs m') as [Hacc|Hrej]; [|exact Hrej].
    exfalso. destruct (proj1 selective_failure Hacc i Hi); contradiction.
  Qed.

  (** A deviation all of whose non-degenerate blocks carry the guess 0: if it is accepted, the sender's outputs
      are exactly those of the honest message (the guess was right, so the deviating blocks are invisible). *)
  Theorem zero_guess_outputs so :
    (forall i, i < ssTrees -> nth i e [] = zbytes ssLPB \/ (nth i g 0%N = 0%N /\ A i <> zbytes 16)) ->
    ss_sender H sid rs m' = Val so ->
    ss_sender H sid rs (fst (ss_receiver H sid ss choices tape)) = Val so.
  Proof.
    intros Hzero Hacc.
    pose proof (proj1 selective_failure (ex_intro _ so Hacc)) as Hsel.
    rewrite (honest_accepted H sid ss rs choices tape Hseeds Hchoices Htape).
    rewrite sender_eq in Hacc. destruct (send_check _ _ _ _); [|discriminate].
    rewrite <- Hacc. f_equal. f_equal. f_equal.
    (* the two W matrices coincide row by row *)
    change (w_of H sid rs u = w_of H sid rs u').
    apply (nth_ext _ _ [] []).
    { rewrite (w_of_length H sid ss rs Hseeds u hu_len'), (w_of_length H sid ss rs Hseeds u' adv_u_length). reflexivity. }
    intros r Hr. rewrite (w_of_length H sid ss rs Hseeds u hu_len') in Hr.
    rewrite (w_of_row H sid ss rs Hseeds u r hu_len' hu_rows' Hr).
    rewrite (w_of_row H sid ss rs Hseeds u' r adv_u_length adv_u_rows Hr).
    f_equal.
    pose proof Hr as Hr'. rewrite ssLC_val in Hr'.
    assert (Hi : r / 4 < ssTrees) by (rewrite ssTrees_val; apply Nat.div_lt_upper_bound; lia).
    destruct (hu_row _ Hi) as [Lu _]. destruct (e_row _ Hi) as [Le _].
    destruct (Hzero _ Hi) as [Ez|[Gz NZ]].
    - unfold eff. rewrite adv_u_nth, Ez. rewrite (xor_bytes_zeros_r (nth (r / 4) u [])) by exact Lu. reflexivity.
    - destruct (Hsel _ Hi) as [Z|E]; [contradiction|].
      unfold nabla_bit. fold deltas. rewrite <- E, Gz, N.bits_0. cbn [maskb].
      unfold eff. rewrite adv_u_nth, !xor_bytes_length, Lu, Le. reflexivity.
  Qed.
End C04Adv.
