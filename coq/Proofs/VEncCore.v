(** C09 / C10: proofs about the verifiable-encryption model (coq/Model/VEnc.v), for every world
    (curve, scalar encoding, sha256, RSA oracle pair) satisfying [world_ok], every key pair satisfying
    [rsa_pair_ok]. *)
From SL Require Import Lib.Base Lib.Oracle Model.VEnc Proofs.VEncBytes.
From Coq Require Import Znumtheory.
Local Open Scope Z_scope.

(** Hypotheses on the uninterpreted parts of a world. *)
Record world_ok (W : venc_world) : Prop := {
  wo_q : 1 < w_q W;
  wo_laws : group_laws (w_q W) (w_O W);
  wo_repr : repr_laws (w_q W) (w_repr W) (w_from_repr W);
  wo_sha : forall x, length (w_sha256 W x) = 32%nat /\ bytes_ok (w_sha256 W x) = true;
  wo_psize : forall P, length (g_enc (w_O W) P) = w_psize W;
}.

(** RSA PKCS#1 v1.5 correctness for one key pair -- a HYPOTHESIS about the oracle pair, not a theorem:
    same modulus on both sides, at least 75 bytes (so that a 64-byte plaintext respects the k - 11 limit),
    and decryption inverts encryption for every seed and every message of at most k - 11 bytes. *)
Definition rsa_pair_ok (W : venc_world) (pk : w_PK W) (sk : w_SK W) : Prop :=
  w_pk_n W pk = w_sk_n W sk /\
  2 ^ 592 <= w_pk_n W pk /\
  forall seed m, bytes_ok m = true -> (length m + 11 <= byte_len (w_pk_n W pk))%nat ->
    exists c, w_rsa_enc W seed pk m = Some c /\ w_rsa_dec W sk c = Some m.

(** struct invariant of VerifiableRsaEncryption established by encrypt_with_proof and from_bytes *)
Definition vproof_wf (W : venc_world) (p : vproof) : Prop :=
  length (vp_slots p) = vp_sp p /\ length (vp_opens p) = vp_sp p /\
  Forall (fun o => 0 <= o < w_q W) (vp_opens p).

(** the side of slot j that the challenge bit [b] leaves unopened does not lead [decrypt] to the discrete log of Q:
    it fails to decrypt / to decode, or decodes to a scalar that does not match the opened one *)
Definition W_unopened_bad (W : venc_world) (Q : w_G W) (sk : w_SK W) (label : list N) (b : bool) (pr : slot) (o : Z) : Prop :=
  match W_dec_scalar W sk label (if b then s_encr pr else s_encxr pr) with
  | Val (Some y) => W_smul W ((if b then o - y else y - o) mod w_q W) (W_gen W) <> Q
  | _ => True
  end.
(** ... in EVERY slot: the prover fixed, before the challenge existed, the complement of all challenge bits *)
Definition AllUnopenedBad (W : venc_world) (p : vproof) (Q : w_G W) (sk : w_SK W) (label : list N) : Prop :=
  forall j pr o b, nth_error (vp_slots p) j = Some pr -> nth_error (vp_opens p) j = Some o ->
    extract_bit (W_challenge W Q label (vp_slots p)) j = Val b -> W_unopened_bad W Q sk label b pr o.

Lemma pow256_32 : 256 ^ Z.of_nat 32 = 2 ^ 256. Proof. reflexivity. Qed.
Lemma pow256_64 : 256 ^ Z.of_nat 64 = 2 ^ 512. Proof. reflexivity. Qed.
Lemma pow256_74 : 256 ^ Z.of_nat 74 = 2 ^ 592. Proof. reflexivity. Qed.

Section Core.
  Variable W : venc_world.
  Hypothesis WOK : world_ok W.

  Local Notation G := (w_G W).
  Local Notation O := (w_O W).
  Local Notation q := (w_q W).
  Local Notation repr := (w_repr W).
  Local Notation from_repr := (w_from_repr W).
  Local Notation gen := (g_gen (w_O W)).
  Local Notation smul := (g_smul (w_O W)).
  Local Notation add := (g_add (w_O W)).

  Let laws := wo_laws W WOK.
  Let RL := wo_repr W WOK.
  Let q_gt1 := wo_q W WOK.

  (** *** group facts *)
  Lemma smul_mod_l k a : smul (k mod q) a = smul k a.
  Proof. symmetry. apply (gl_smul_mod q O laws). Qed.

  Lemma add_cancel_l a b c : add a b = add a c -> b = c.
  Proof.
    intros E. assert (E2 : add (g_neg O a) (add a b) = add (g_neg O a) (add a c)) by (rewrite E; reflexivity).
    rewrite !(gl_add_assoc q O laws) in E2.
    rewrite (gl_add_comm q O laws (g_neg O a) a), (gl_add_neg q O laws) in E2.
    rewrite (gl_add_comm q O laws (g_id O) b), (gl_add_comm q O laws (g_id O) c) in E2.
    rewrite !(gl_add_id q O laws) in E2. exact E2.
  Qed.

  Lemma smul_neg1 a : smul (-1) a = g_neg O a.
  Proof.
    apply (add_cancel_l a). rewrite (gl_add_neg q O laws).
    rewrite <- (gl_smul_1 q O laws a) at 1. rewrite <- (gl_smul_add q O laws).
    replace (1 + -1) with 0 by lia. apply (gl_smul_0 q O laws).
  Qed.

  Lemma smul_gen_inj a b : 0 <= a < q -> 0 <= b < q -> smul a gen = smul b gen -> a = b.
  Proof.
    intros Ha Hb E.
    assert (D : (a - b) mod q = 0).
    { apply (gl_gen_order q O laws). replace (a - b) with (a + (-1) * b) by lia.
      rewrite (gl_smul_add q O laws), (gl_smul_mul q O laws). rewrite <- E.
      rewrite smul_neg1. apply (gl_add_neg q O laws). }
    apply Z.mod_divide in D; [|lia]. destruct D as [k D].
    assert (k = 0) by nia. lia.
  Qed.

  Lemma add_smul_gen x r : add (smul x gen) (smul r gen) = smul ((x + r) mod q) gen.
  Proof. rewrite smul_mod_l. symmetry. apply (gl_smul_add q O laws). Qed.

  (** *** sizes of the integers fed to RSA *)
  Lemma repr_int_range s : 0 <= bu_from_be (repr s) < 2 ^ 256.
  Proof.
    split; [apply bu_from_be_nonneg|]. rewrite <- pow256_32.
    replace 32%nat with (length (repr s)) by apply (rl_len _ _ _ RL).
    apply bu_from_be_lt. apply (rl_bytes _ _ _ RL).
  Qed.

  Lemma label_int_range label : 0 <= W_label_int W label < 2 ^ 256.
  Proof.
    unfold W_label_int, label_int. split; [apply bu_from_be_nonneg|]. rewrite <- pow256_32.
    destruct (wo_sha W WOK (A_LABEL ++ label)) as [Hl Hb]. rewrite <- Hl. apply bu_from_be_lt. exact Hb.
  Qed.

  (** *** honest label-bound encryption decrypts (uses the RSA hypothesis) *)
  Lemma enc_label_dec pk sk label seed s : rsa_pair_ok W pk sk ->
    exists c, W_enc_label W (repr s) label pk seed = Val c /\
              w_rsa_dec W sk c = Some (bu_to_be (bu_from_be (repr s) * W_label_int W label)).
  Proof.
    intros (Hn & Hbig & Hrsa). unfold W_enc_label, rsa_encrypt_with_label.
    fold (W_label_int W label).
    pose proof (repr_int_range s) as Hm. pose proof (label_int_range label) as Hl.
    assert (Hbig' : 2 ^ 512 <= w_pk_n W pk).
    { eapply Z.le_trans; [|exact Hbig]. apply Z.pow_le_mono_r; lia. }
    pose proof (label_no_wrap _ _ _ Hm Hl Hbig') as Hnw.
    destruct (w_pk_n W pk =? 0) eqn:E0; [apply Z.eqb_eq in E0; lia|].
    rewrite (Z.mod_small _ _ Hnw).
    set (pt := bu_from_be (repr s) * W_label_int W label) in *.
    destruct (Hrsa seed (bu_to_be pt)) as (c & Hc & Hd).
    - apply bytes_ok_bu_to_be.
    - rewrite length_bu_to_be.
      assert (byte_len pt <= 64)%nat.
      { apply byte_len_le; [lia|]. rewrite pow256_64.
        replace (2 ^ 512) with (2 ^ 256 * 2 ^ 256) by reflexivity. nia. }
      assert (74 + 1 <= byte_len (w_pk_n W pk))%nat by (apply byte_len_ge; rewrite pow256_74; exact Hbig).
      lia.
    - exists c. rewrite Hc. auto.
  Qed.

  Lemma sk_n_pos pk sk : rsa_pair_ok W pk sk -> 2 ^ 592 <= w_sk_n W sk.
  Proof. intros (Hn & Hbig & _). rewrite <- Hn. exact Hbig. Qed.

  (** a ciphertext produced by the label-bound encryption of a canonical scalar is recovered by [dec_scalar] *)
  Lemma dec_scalar_honest pk sk label seed s c li : rsa_pair_ok W pk sk -> 0 <= s < q ->
    label_inv (w_sha256 W) (w_SK W) (w_sk_n W) label sk = Some li ->
    W_enc_label W (repr s) label pk seed = Val c ->
    dec_scalar from_repr (w_SK W) (w_sk_n W) (w_rsa_dec W) sk (Some li) c = Val (Some s).
  Proof.
    intros Hp Hs Hli Hc.
    destruct (enc_label_dec pk sk label seed s Hp) as (c' & Hc' & Hd). rewrite Hc in Hc'. inversion Hc'; subst c'.
    pose proof (sk_n_pos pk sk Hp) as Hbig.
    assert (Hnpos : 0 < w_sk_n W sk).
    { eapply Z.lt_le_trans; [|exact Hbig]. apply Z.pow_pos_nonneg; lia. }
    unfold dec_scalar, rsa_decrypt_with_inv. rewrite Hd.
    destruct (w_sk_n W sk =? 0) eqn:E0; [apply Z.eqb_eq in E0; lia|].
    pose proof (repr_int_range s) as Hm. pose proof (label_int_range label) as Hl.
    assert (Hbig' : 2 ^ 512 <= w_sk_n W sk).
    { eapply Z.le_trans; [|exact Hbig]. apply Z.pow_le_mono_r; lia. }
    pose proof (label_no_wrap _ _ _ Hm Hl Hbig') as Hnw.
    rewrite bu_from_to_be by lia.
    unfold label_inv in Hli. fold (W_label_int W label) in Hli.
    assert (Hrt : (bu_from_be (repr s) * W_label_int W label * li) mod w_sk_n W sk = bu_from_be (repr s)).
    { rewrite <- (Z.mod_small (bu_from_be (repr s) * W_label_int W label) (w_sk_n W sk)) at 1 by exact Hnw.
      apply label_roundtrip; [exact Hnpos| |exact Hli].
      assert (2 ^ 256 <= 2 ^ 512) by (apply Z.pow_le_mono_r; lia). lia. }
    rewrite Hrt. f_equal. unfold decode_scalar.
    assert (L32 : length (repr s) = 32%nat) by apply (rl_len _ _ _ RL).
    destruct (pad_roundtrip (repr s)) as [P1 P2]; [lia|apply (rl_bytes _ _ _ RL)|].
    rewrite L32 in P1, P2. change SCALAR_SIZE with 32%nat.
    destruct (32 <? length (bu_to_be (bu_from_be (repr s))))%nat eqn:E; [apply Nat.ltb_lt in E; lia|].
    rewrite P2. apply (rl_from_repr _ _ _ RL). exact Hs.
  Qed.

  (** *** encrypt_with_proof *)
  Local Notation ENC := (enc_slots G O q repr (w_sha256 W) (w_PK W) (w_pk_n W) (w_rsa_enc W)).
  Local Notation ENCL := (rsa_encrypt_with_label (w_sha256 W) (w_PK W) (w_pk_n W) (w_rsa_enc W)).
  Local Notation VSLOT := (verify_slot G O repr (w_sha256 W) (w_PK W) (w_pk_n W) (w_rsa_enc W)).
  Local Notation VSLOTS := (verify_slots G O repr (w_sha256 W) (w_PK W) (w_pk_n W) (w_rsa_enc W)).
  Local Notation DSC := (dec_scalar from_repr (w_SK W) (w_sk_n W) (w_rsa_dec W)).
  Local Notation DSLOTS := (decrypt_slots G O q from_repr (w_SK W) (w_sk_n W) (w_rsa_dec W)).
  Local Notation LINV := (label_inv (w_sha256 W) (w_SK W) (w_sk_n W)).

  Lemma sec_param_128 : SEC_PARAM = 128%nat.
  Proof. reflexivity. Qed.

  Lemma enc_slots_length x pk label seed tape : forall cnt i l,
    ENC x pk label seed tape cnt i = Val l -> length l = cnt.
  Proof.
    induction cnt as [|c IH]; intros i l E; cbn [enc_slots] in E.
    - inversion E. reflexivity.
    - destruct (ENCL (repr (tape i mod q)) label pk seed) as [e1| |]; cbn [obind] in E; try discriminate.
      destruct (ENCL (repr ((x + tape i mod q) mod q)) label pk seed) as [e2| |]; cbn [obind] in E; try discriminate.
      destruct (ENC x pk label seed tape c (S i)) as [rest| |] eqn:Er; cbn [obind] in E; try discriminate.
      inversion E. cbn [length]. f_equal. eapply IH. exact Er.
  Qed.

  Lemma open_slots_length ch : forall (l : list (slot * Z * Z)) i os, open_slots ch l i = Val os -> length os = length l.
  Proof.
    induction l as [|[[sl r] xr] rest IH]; intros i os E; cbn [open_slots] in E.
    - inversion E. reflexivity.
    - destruct (extract_bit ch i) as [b| |]; cbn [obind] in E; try discriminate.
      destruct (open_slots ch rest (S i)) as [os'| |] eqn:Eo; cbn [obind] in E; try discriminate.
      inversion E. cbn [length]. f_equal. eapply IH. exact Eo.
  Qed.

  Lemma open_slots_range ch : forall (l : list (slot * Z * Z)) i os,
    Forall (fun t => 0 <= snd (fst t) < q /\ 0 <= snd t < q) l ->
    open_slots ch l i = Val os -> Forall (fun o => 0 <= o < q) os.
  Proof.
    induction l as [|[[sl r] xr] rest IH]; intros i os F E; cbn [open_slots] in E.
    - inversion E. constructor.
    - destruct (extract_bit ch i) as [b| |]; cbn [obind] in E; try discriminate.
      destruct (open_slots ch rest (S i)) as [os'| |] eqn:Eo; cbn [obind] in E; try discriminate.
      inversion E. inversion F as [|? ? [F1 F2] F3]; subst. cbn [fst snd] in *. constructor.
      + destruct b; assumption.
      + eapply IH; eassumption.
  Qed.

  Lemma enc_slots_range x pk label seed tape : forall cnt i l,
    ENC x pk label seed tape cnt i = Val l -> Forall (fun t => 0 <= snd (fst t) < q /\ 0 <= snd t < q) l.
  Proof.
    induction cnt as [|c IH]; intros i l E; cbn [enc_slots] in E.
    - inversion E. constructor.
    - destruct (ENCL (repr (tape i mod q)) label pk seed) as [e1| |]; cbn [obind] in E; try discriminate.
      destruct (ENCL (repr ((x + tape i mod q) mod q)) label pk seed) as [e2| |]; cbn [obind] in E; try discriminate.
      destruct (ENC x pk label seed tape c (S i)) as [rest| |] eqn:Er; cbn [obind] in E; try discriminate.
      inversion E. constructor; [|eapply IH; exact Er]. cbn [fst snd].
      split; apply Z.mod_pos_bound; lia.
  Qed.

  (** the honest openings pass every slot of [verify]; no property of RSA or of the hash is used *)
  Lemma honest_verify_slots x pk label seed tape ch : forall cnt i l os,
    ENC x pk label seed tape cnt i = Val l -> open_slots ch l i = Val os ->
    VSLOTS (smul x gen) pk label seed ch cnt i (map (fun t => fst (fst t)) l) os = Val tt.
  Proof.
    induction cnt as [|c IH]; intros i l os E Eo; cbn [enc_slots] in E.
    - reflexivity.
    - destruct (ENCL (repr (tape i mod q)) label pk seed) as [e1| |] eqn:E1; cbn [obind] in E; try discriminate.
      destruct (ENCL (repr ((x + tape i mod q) mod q)) label pk seed) as [e2| |] eqn:E2; cbn [obind] in E; try discriminate.
      destruct (ENC x pk label seed tape c (S i)) as [rest| |] eqn:Er; cbn [obind] in E; try discriminate.
      inversion E; subst l; clear E. cbn [open_slots] in Eo.
      destruct (extract_bit ch i) as [b| |] eqn:Eb; cbn [obind] in Eo; try discriminate.
      destruct (open_slots ch rest (S i)) as [os'| |] eqn:Eo'; cbn [obind] in Eo; try discriminate.
      inversion Eo; subst os; clear Eo.
      cbn [map fst verify_slots]. unfold verify_slot. rewrite Eb. cbn [obind s_gr s_encr s_encxr].
      rewrite (gl_dec_enc q O laws).
      destruct b.
      + rewrite E2. cbn [obind]. rewrite (proj2 (gl_eqb q O laws _ _) (add_smul_gen x (tape i mod q))).
        rewrite (proj2 (bytes_eqb_eq e2 e2) eq_refl). cbn [andb obind]. apply IH; assumption.
      + rewrite E1. cbn [obind]. rewrite (proj2 (gl_eqb q O laws _ _) eq_refl).
        rewrite (proj2 (bytes_eqb_eq e1 e1) eq_refl). cbn [andb obind]. apply IH; assumption.
  Qed.

  Definition sp_val (sp : option nat) : nat := match sp with Some s => s | None => SEC_PARAM end.

  Lemma encrypt_inv x pk label sp seed tape p : W_encrypt W x pk label sp seed tape = Val p ->
    (128 <= sp_val sp <= 256)%nat /\
    exists l os, ENC x pk label seed tape (sp_val sp) 0%nat = Val l /\
      open_slots (W_challenge W (smul x gen) label (map (fun t => fst (fst t)) l)) l 0%nat = Val os /\
      p = {| vp_seed := seed; vp_slots := map (fun t => fst (fst t)) l; vp_opens := os; vp_sp := sp_val sp |}.
  Proof.
    unfold W_encrypt, encrypt_with_proof. fold (sp_val sp). set (n := sp_val sp). intros E.
    destruct ((n <? SEC_PARAM)%nat || (256 <? n)%nat) eqn:Er; [discriminate|].
    apply orb_false_iff in Er. destruct Er as [R1 R2]. apply Nat.ltb_ge in R1, R2. rewrite sec_param_128 in R1.
    split; [lia|].
    destruct (ENC x pk label seed tape n 0%nat) as [l| |] eqn:El; cbn [obind] in E; try discriminate.
    fold (W_challenge W (smul x gen) label (map (fun t => fst (fst t)) l)) in E.
    destruct (open_slots _ l 0%nat) as [os| |] eqn:Eo; cbn [obind] in E; try discriminate.
    inversion E. eauto.
  Qed.

  (** C09: security parameters outside 128..=256 are refused *)
  Lemma venc_param_range_lem x pk label sp seed tape : (sp < 128 \/ 256 < sp)%nat ->
    W_encrypt W x pk label (Some sp) seed tape = Err E_INVALID_SIZE.
  Proof.
    intros H. unfold W_encrypt, encrypt_with_proof. rewrite sec_param_128.
    destruct ((sp <? 128)%nat || (256 <? sp)%nat) eqn:E; [reflexivity|].
    apply orb_false_iff in E. destruct E as [R1 R2]. apply Nat.ltb_ge in R1, R2. lia.
  Qed.

  (** the usize-wide entry point agrees with the nat-indexed one on every nat, and refuses everything outside the
      window at full width (no narrowing before the comparison) *)
  Lemma encrypt_usize_nat x pk label (sp : option nat) seed tape :
    W_encrypt_usize W x pk label (option_map N.of_nat sp) seed tape = W_encrypt W x pk label sp seed tape.
  Proof.
    unfold W_encrypt_usize, W_encrypt, encrypt_with_proof_usize. destruct sp as [s|]; cbn [option_map]; [|reflexivity].
    rewrite Nat2N.id.
    destruct ((N.of_nat s <? N.of_nat SEC_PARAM)%N || (256 <? N.of_nat s)%N) eqn:E; [|reflexivity].
    unfold encrypt_with_proof.
    assert (R : ((s <? SEC_PARAM)%nat || (256 <? s)%nat) = true).
    { apply orb_true_iff in E. apply orb_true_iff. destruct E as [E|E]; [left|right].
      - apply N.ltb_lt in E. apply Nat.ltb_lt. lia.
      - apply N.ltb_lt in E. apply Nat.ltb_lt. lia. }
    rewrite R. reflexivity.
  Qed.

  Lemma venc_param_range_usize_lem x pk label (s : N) seed tape : (s < 128 \/ 256 < s)%N ->
    W_encrypt_usize W x pk label (Some s) seed tape = Err E_INVALID_SIZE.
  Proof.
    intros H. unfold W_encrypt_usize, encrypt_with_proof_usize. rewrite sec_param_128.
    destruct ((s <? N.of_nat 128)%N || (256 <? s)%N) eqn:E; [reflexivity|].
    apply orb_false_iff in E. destruct E as [R1 R2]. apply N.ltb_ge in R1, R2. lia.
  Qed.

  Lemma encrypt_usize_in_range x pk label (s : N) seed tape : (128 <= s <= 256)%N ->
    W_encrypt_usize W x pk label (Some s) seed tape = W_encrypt W x pk label (Some (N.to_nat s)) seed tape.
  Proof.
    intros H. rewrite <- (encrypt_usize_nat x pk label (Some (N.to_nat s))). cbn [option_map]. rewrite N2Nat.id. reflexivity.
  Qed.

  (** C09: every produced proof verifies against x*G -- for every x, label, key, tape, oracle *)
  Lemma venc_honest_verifies_lem x pk label sp seed tape p :
    W_encrypt W x pk label sp seed tape = Val p ->
    W_verify W p (W_smul W x (W_gen W)) pk label = Val tt.
  Proof.
    intros E. apply encrypt_inv in E. destruct E as (_ & l & os & El & Eo & ->).
    unfold W_verify, verify, W_smul, W_gen. cbn [vp_seed vp_slots vp_opens vp_sp].
    eapply honest_verify_slots; eassumption.
  Qed.

  Lemma encrypt_wf x pk label sp seed tape p : W_encrypt W x pk label sp seed tape = Val p -> vproof_wf W p.
  Proof.
    intros E. apply encrypt_inv in E. destruct E as (_ & l & os & El & Eo & ->).
    unfold vproof_wf. cbn [vp_seed vp_slots vp_opens vp_sp]. rewrite map_length.
    pose proof (enc_slots_length _ _ _ _ _ _ _ _ El) as L1.
    pose proof (open_slots_length _ _ _ _ Eo) as L2. repeat split; try lia.
    eapply open_slots_range; [|exact Eo]. eapply enc_slots_range; exact El.
  Qed.

  (** with a working RSA key and a 32-byte hash the prover never fails for a permitted parameter *)
  Lemma enc_slots_ok x pk sk label seed tape : rsa_pair_ok W pk sk -> forall cnt i,
    exists l, ENC x pk label seed tape cnt i = Val l.
  Proof.
    intros Hp. induction cnt as [|c IH]; intros i; cbn [enc_slots]; [eauto|].
    destruct (enc_label_dec pk sk label seed (tape i mod q) Hp) as (c1 & E1 & _).
    destruct (enc_label_dec pk sk label seed ((x + tape i mod q) mod q) Hp) as (c2 & E2 & _).
    unfold W_enc_label in E1, E2. rewrite E1, E2. cbn [obind].
    destruct (IH (S i)) as [rest Er]. rewrite Er. cbn [obind]. eauto.
  Qed.

  Lemma extract_bit_ok ch i : length ch = 32%nat -> (i < 256)%nat -> exists b, extract_bit ch i = Val b.
  Proof.
    intros L Hi. unfold extract_bit.
    destruct (nth_error ch (i / 8)) eqn:E; [eauto|].
    apply nth_error_None in E. assert (i / 8 < 32)%nat by (apply Nat.div_lt_upper_bound; lia). lia.
  Qed.

  Lemma open_slots_ok ch : length ch = 32%nat -> forall (l : list (slot * Z * Z)) i, (i + length l <= 256)%nat ->
    exists os, open_slots ch l i = Val os.
  Proof.
    intros L. induction l as [|[[sl r] xr] rest IH]; intros i Hi; cbn [open_slots]; [eauto|].
    cbn [length] in Hi. destruct (extract_bit_ok ch i L) as [b Eb]; [lia|]. rewrite Eb. cbn [obind].
    destruct (IH (S i)) as [os Eo]; [lia|]. rewrite Eo. cbn [obind]. eauto.
  Qed.

  Lemma venc_encrypt_succeeds_lem x pk sk label sp seed tape : rsa_pair_ok W pk sk ->
    (match sp with Some s => 128 <= s <= 256 | None => True end)%nat ->
    exists p, W_encrypt W x pk label sp seed tape = Val p.
  Proof.
    intros Hp Hs. unfold W_encrypt, encrypt_with_proof.
    set (n := match sp with Some s => s | None => SEC_PARAM end).
    assert (Hn : (128 <= n <= 256)%nat) by (unfold n; destruct sp; [exact Hs|rewrite sec_param_128; lia]).
    destruct ((n <? SEC_PARAM)%nat || (256 <? n)%nat) eqn:Er.
    { apply orb_true_iff in Er. rewrite sec_param_128 in Er. destruct Er as [R|R]; apply Nat.ltb_lt in R; lia. }
    destruct (enc_slots_ok x pk sk label seed tape Hp n 0%nat) as [l El]. rewrite El. cbn [obind].
    destruct (open_slots_ok (challenge G O (w_sha256 W) (smul x gen) label (map (fun t => fst (fst t)) l))) with (l := l) (i := 0%nat)
      as [os Eo].
    - unfold challenge. apply (wo_sha W WOK).
    - rewrite (enc_slots_length _ _ _ _ _ _ _ _ El). lia.
    - rewrite Eo. cbn [obind]. eauto.
  Qed.

  (** *** decrypt *)
  Lemma dec_scalar_total sk li c : w_sk_n W sk <> 0 -> exists o, DSC sk li c = Val o.
  Proof.
    intros Hn. unfold dec_scalar, rsa_decrypt_with_inv.
    destruct (w_rsa_dec W sk c); [|eauto]. destruct li; [|eauto].
    destruct (w_sk_n W sk =? 0) eqn:E; [apply Z.eqb_eq in E; contradiction|eauto].
  Qed.

  (** C09/C10: whatever [decrypt] returns is the discrete logarithm of Q (unconditional) *)
  Lemma decrypt_slots_sound Q sk li : forall ps y, DSLOTS Q sk li ps = Val y -> smul y gen = Q /\ 0 <= y < q.
  Proof.
    induction ps as [|pr rest IH]; intros y E; cbn [decrypt_slots] in E; [discriminate|].
    destruct (DSC sk li (s_encr pr)) as [[r|]| |]; cbn [obind] in E; try discriminate; [|apply IH; exact E].
    destruct (DSC sk li (s_encxr pr)) as [[xr|]| |]; cbn [obind] in E; try discriminate; [|apply IH; exact E].
    destruct (g_eqb O (smul ((xr - r) mod q) gen) Q) eqn:Eq; [|apply IH; exact E].
    inversion E; subst y. split; [apply (gl_eqb q O laws); exact Eq|apply Z.mod_pos_bound; lia].
  Qed.

  Lemma venc_decrypt_sound_lem p Q sk label y : W_decrypt W p Q sk label = Val y ->
    W_smul W y (W_gen W) = Q /\ 0 <= y < q.
  Proof.
    unfold W_decrypt, decrypt. destruct (negb (length (vp_slots p) =? vp_sp p)%nat); [discriminate|].
    apply decrypt_slots_sound.
  Qed.

  (** a slot both of whose ciphertexts lead to the discrete log of Q makes [decrypt] succeed, whatever the
      other slots contain *)
  Definition slot_yields (Q : G) (sk : w_SK W) (li : option Z) (pr : slot) : Prop :=
    exists r xr, DSC sk li (s_encr pr) = Val (Some r) /\ DSC sk li (s_encxr pr) = Val (Some xr) /\
                 smul ((xr - r) mod q) gen = Q.

  Lemma decrypt_slots_finds Q sk li : w_sk_n W sk <> 0 -> forall ps pr, In pr ps -> slot_yields Q sk li pr ->
    exists x, DSLOTS Q sk li ps = Val x.
  Proof.
    intros Hn. induction ps as [|a rest IH]; intros pr Hin Hy; [contradiction|].
    cbn [decrypt_slots].
    assert (Hrec : a <> pr -> exists x, DSLOTS Q sk li rest = Val x).
    { intros Hne. destruct Hin as [->|Hin]; [contradiction|]. eapply IH; eassumption. }
    destruct (dec_scalar_total sk li (s_encr a) Hn) as [ro Er]. rewrite Er. cbn [obind].
    destruct ro as [r|].
    - destruct (dec_scalar_total sk li (s_encxr a) Hn) as [xro Ex]. rewrite Ex. cbn [obind].
      destruct xro as [xr|].
      + destruct (g_eqb O (smul ((xr - r) mod q) gen) Q) eqn:Eq; [eauto|].
        apply Hrec. intros ->. destruct Hy as (r' & xr' & E1 & E2 & E3).
        rewrite Er in E1. rewrite Ex in E2.
        assert (r' = r) by congruence. assert (xr' = xr) by congruence. subst r' xr'.
        apply (gl_eqb q O laws) in E3. rewrite E3 in Eq. discriminate.
      + apply Hrec. intros ->. destruct Hy as (r' & xr' & E1 & E2 & E3). rewrite Ex in E2. discriminate.
    - apply Hrec. intros ->. destruct Hy as (r' & xr' & E1 & E2 & E3). rewrite Er in E1. discriminate.
  Qed.

  Lemma label_inv_some pk sk label : rsa_pair_ok W pk sk -> Z.gcd (W_label_int W label) (w_pk_n W pk) = 1 ->
    exists li, LINV label sk = Some li.
  Proof.
    intros Hp Hg. pose proof (sk_n_pos pk sk Hp) as Hbig. destruct Hp as (Hn & _ & _).
    unfold label_inv. fold (W_label_int W label). rewrite <- Hn in *.
    apply mod_inverse_complete; [|exact Hg].
    eapply Z.lt_le_trans; [|exact Hbig]. apply Z.pow_gt_1; lia.
  Qed.

  Lemma sk_n_nonzero pk sk : rsa_pair_ok W pk sk -> w_sk_n W sk <> 0.
  Proof.
    intros Hp. pose proof (sk_n_pos pk sk Hp) as Hbig.
    assert (0 < 2 ^ 592) by (apply Z.pow_pos_nonneg; lia). lia.
  Qed.

  (** C09: decrypt returns x for EVERY tape (nonces with leading / trailing zero bytes included), every x incl. 0 *)
  Lemma venc_honest_decrypts_lem x pk sk label sp seed tape p : rsa_pair_ok W pk sk ->
    Z.gcd (W_label_int W label) (w_pk_n W pk) = 1 -> 0 <= x < q ->
    W_encrypt W x pk label sp seed tape = Val p ->
    W_decrypt W p (W_smul W x (W_gen W)) sk label = Val x.
  Proof.
    intros Hp Hg Hx E. apply encrypt_inv in E. destruct E as (Hn & l & os & El & Eo & ->).
    set (n := sp_val sp) in *.
    unfold W_decrypt, decrypt, W_smul, W_gen. cbn [vp_seed vp_slots vp_opens vp_sp]. rewrite map_length.
    rewrite (enc_slots_length _ _ _ _ _ _ _ _ El), Nat.eqb_refl. cbn [negb].
    destruct (label_inv_some pk sk label Hp Hg) as [li Hli]. rewrite Hli.
    destruct n as [|c]; [lia|]. cbn [enc_slots] in El.
    destruct (ENCL (repr (tape 0%nat mod q)) label pk seed) as [e1| |] eqn:E1; cbn [obind] in El; try discriminate.
    destruct (ENCL (repr ((x + tape 0%nat mod q) mod q)) label pk seed) as [e2| |] eqn:E2; cbn [obind] in El; try discriminate.
    destruct (ENC x pk label seed tape c 1%nat) as [rest| |] eqn:Er; cbn [obind] in El; try discriminate.
    inversion El; subst l; clear El. cbn [map fst decrypt_slots s_encr s_encxr].
    assert (Hr : 0 <= tape 0%nat mod q < q) by (apply Z.mod_pos_bound; lia).
    assert (Hxr : 0 <= (x + tape 0%nat mod q) mod q < q) by (apply Z.mod_pos_bound; lia).
    rewrite (dec_scalar_honest pk sk label seed _ e1 li Hp Hr Hli E1). cbn [obind].
    rewrite (dec_scalar_honest pk sk label seed _ e2 li Hp Hxr Hli E2). cbn [obind].
    assert (Ex : ((x + tape 0%nat mod q) mod q - tape 0%nat mod q) mod q = x).
    { rewrite Zminus_mod_idemp_l. replace (x + tape 0%nat mod q - tape 0%nat mod q) with x by lia.
      apply Z.mod_small. exact Hx. }
    rewrite Ex. rewrite (proj2 (gl_eqb q O laws _ _) eq_refl). reflexivity.
  Qed.

  (** *** verify: what acceptance says about every slot *)
  Lemma verify_slot_inv Q pk label seed ch i pr s : VSLOT Q pk label seed ch i pr s = Val tt ->
    exists b enc R, extract_bit ch i = Val b /\ ENCL (repr s) label pk seed = Val enc /\
      g_dec O (s_gr pr) = Some R /\
      (if b then add Q R = smul s gen /\ s_encxr pr = enc else R = smul s gen /\ s_encr pr = enc).
  Proof.
    unfold verify_slot. intros E.
    destruct (extract_bit ch i) as [b| |]; cbn [obind] in E; try discriminate.
    destruct (ENCL (repr s) label pk seed) as [enc| |]; cbn [obind] in E; try discriminate.
    destruct (g_dec O (s_gr pr)) as [R|]; try discriminate.
    exists b, enc, R. repeat split; auto. destruct b.
    - destruct (g_eqb O (add Q R) (smul s gen)) eqn:E1; cbn [andb] in E; try discriminate.
      destruct (bytes_eqb (s_encxr pr) enc) eqn:E2; try discriminate.
      split; [apply (gl_eqb q O laws); exact E1|apply bytes_eqb_eq; exact E2].
    - destruct (g_eqb O R (smul s gen)) eqn:E1; cbn [andb] in E; try discriminate.
      destruct (bytes_eqb (s_encr pr) enc) eqn:E2; try discriminate.
      split; [apply (gl_eqb q O laws); exact E1|apply bytes_eqb_eq; exact E2].
  Qed.

  Lemma verify_slots_inv Q pk label seed ch : forall cnt i ps os,
    VSLOTS Q pk label seed ch cnt i ps os = Val tt ->
    forall j pr s, (j < cnt)%nat -> nth_error ps j = Some pr -> nth_error os j = Some s ->
      VSLOT Q pk label seed ch (i + j) pr s = Val tt.
  Proof.
    induction cnt as [|c IH]; intros i ps os E j pr s Hj Hp Ho; [lia|].
    cbn [verify_slots] in E. destruct ps as [|p0 ps']; [discriminate|]. destruct os as [|o0 os']; [discriminate|].
    destruct (VSLOT Q pk label seed ch i p0 o0) as [[]| |] eqn:E0; cbn [obind] in E; try discriminate.
    destruct j as [|j'].
    - cbn [nth_error] in Hp, Ho. inversion Hp; inversion Ho; subst. rewrite Nat.add_0_r. exact E0.
    - cbn [nth_error] in Hp, Ho. replace (i + S j')%nat with (S i + j')%nat by lia.
      eapply IH; [exact E| |exact Hp|exact Ho]. lia.
  Qed.

  Lemma verify_accept_slot p Q pk label j pr o : W_verify W p Q pk label = Val tt -> (j < vp_sp p)%nat ->
    nth_error (vp_slots p) j = Some pr -> nth_error (vp_opens p) j = Some o ->
    exists b enc R, extract_bit (W_challenge W Q label (vp_slots p)) j = Val b /\
      W_enc_label W (repr o) label pk (vp_seed p) = Val enc /\ g_dec O (s_gr pr) = Some R /\
      (if b then add Q R = smul o gen /\ s_encxr pr = enc else R = smul o gen /\ s_encr pr = enc).
  Proof.
    unfold W_verify, verify. intros E Hj Hp Ho.
    pose proof (verify_slots_inv _ _ _ _ _ _ _ _ _ E j pr o Hj Hp Ho) as V. cbn [Nat.add] in V.
    apply verify_slot_inv in V. exact V.
  Qed.

  (** C10: deterministic rejections -- each one dies when one half of the per-slot conjunction is deleted *)
  Lemma venc_open_mismatch_commitment_lem p Q pk label j pr o b R : (j < vp_sp p)%nat ->
    nth_error (vp_slots p) j = Some pr -> nth_error (vp_opens p) j = Some o ->
    extract_bit (W_challenge W Q label (vp_slots p)) j = Val b -> g_dec O (s_gr pr) = Some R ->
    W_smul W o (W_gen W) <> (if b then g_add O Q R else R) ->
    W_verify W p Q pk label <> Val tt.
  Proof.
    intros Hj Hp Ho Hb HR Hne V.
    destruct (verify_accept_slot p Q pk label j pr o V Hj Hp Ho) as (b' & enc & R' & Eb & _ & ER & C).
    rewrite Hb in Eb. inversion Eb; subst b'. rewrite HR in ER. inversion ER; subst R'.
    apply Hne. unfold W_smul, W_gen. destruct b; destruct C as [C _]; symmetry; exact C.
  Qed.

  Lemma venc_open_mismatch_cipher_lem p Q pk label j pr o b : (j < vp_sp p)%nat ->
    nth_error (vp_slots p) j = Some pr -> nth_error (vp_opens p) j = Some o ->
    extract_bit (W_challenge W Q label (vp_slots p)) j = Val b ->
    W_enc_label W (repr o) label pk (vp_seed p) <> Val (if b then s_encxr pr else s_encr pr) ->
    W_verify W p Q pk label <> Val tt.
  Proof.
    intros Hj Hp Ho Hb Hne V.
    destruct (verify_accept_slot p Q pk label j pr o V Hj Hp Ho) as (b' & enc & R' & Eb & Ee & _ & C).
    rewrite Hb in Eb. inversion Eb; subst b'.
    apply Hne. rewrite Ee. f_equal. destruct b; destruct C as [_ C]; symmetry; exact C.
  Qed.

  Lemma venc_bad_point_rejected_lem p Q pk label j pr : (j < vp_sp p)%nat ->
    nth_error (vp_slots p) j = Some pr -> (j < length (vp_opens p))%nat ->
    g_dec O (s_gr pr) = None ->
    W_verify W p Q pk label <> Val tt.
  Proof.
    intros Hj Hp Hl Hd V.
    destruct (nth_error (vp_opens p) j) as [o|] eqn:Ho; [|apply nth_error_None in Ho; lia].
    destruct (verify_accept_slot p Q pk label j pr o V Hj Hp Ho) as (b' & enc & R' & _ & _ & ER & _).
    rewrite Hd in ER. discriminate.
  Qed.

  (** *** recoverability *)
  (** in an accepted proof, a slot whose UNOPENED ciphertext decrypts to a matching scalar yields the secret *)
  Lemma accept_slot_yields p Q pk sk label li j pr o b y : W_verify W p Q pk label = Val tt ->
    vproof_wf W p -> rsa_pair_ok W pk sk -> LINV label sk = Some li ->
    nth_error (vp_slots p) j = Some pr -> nth_error (vp_opens p) j = Some o ->
    extract_bit (W_challenge W Q label (vp_slots p)) j = Val b ->
    DSC sk (Some li) (if b then s_encr pr else s_encxr pr) = Val (Some y) ->
    smul ((if b then o - y else y - o) mod q) gen = Q ->
    slot_yields Q sk (Some li) pr.
  Proof.
    intros V (L1 & L2 & F) Hp Hli Hs Ho Hb Hy HQ.
    assert (Hj : (j < vp_sp p)%nat) by (rewrite <- L1; apply nth_error_Some; rewrite Hs; discriminate).
    assert (Hor : 0 <= o < q).
    { apply nth_error_In in Ho. exact (proj1 (Forall_forall _ _) F o Ho). }
    destruct (verify_accept_slot p Q pk label j pr o V Hj Hs Ho) as (b' & enc & R & Eb & Ee & _ & C).
    rewrite Hb in Eb. inversion Eb; subst b'.
    pose proof (dec_scalar_honest pk sk label (vp_seed p) o enc li Hp Hor Hli Ee) as Hd.
    unfold slot_yields. destruct b; destruct C as [_ C]; subst enc.
    - exists y, o. auto.
    - exists o, y. auto.
  Qed.

  Lemma decrypt_slots_of_decrypt p Q sk label r : vproof_wf W p ->
    W_decrypt W p Q sk label = r -> DSLOTS Q sk (LINV label sk) (vp_slots p) = r.
  Proof.
    intros (L1 & _ & _). unfold W_decrypt, decrypt. rewrite L1, Nat.eqb_refl. cbn [negb]. auto.
  Qed.

  (** C10: acceptance implies recoverability, or the prover guessed the complement of ALL challenge bits *)
  Lemma venc_accept_recover_lem p Q pk sk label : vproof_wf W p -> rsa_pair_ok W pk sk ->
    Z.gcd (W_label_int W label) (w_pk_n W pk) = 1 ->
    W_verify W p Q pk label = Val tt ->
    (exists x, W_decrypt W p Q sk label = Val x /\ W_smul W x (W_gen W) = Q) \/ AllUnopenedBad W p Q sk label.
  Proof.
    intros WF Hp Hg V.
    destruct (W_decrypt W p Q sk label) as [x|e|site] eqn:D.
    - left. exists x. split; [reflexivity|]. apply (venc_decrypt_sound_lem p Q sk label x D).
    - right. intros j pr o b Hs Ho Hb. unfold W_unopened_bad, W_dec_scalar.
      destruct (label_inv_some pk sk label Hp Hg) as [li Hli]. rewrite Hli.
      destruct (DSC sk (Some li) (if b then s_encr pr else s_encxr pr)) as [[y|]| |] eqn:Ey; auto.
      intros HQ. unfold W_smul, W_gen in HQ.
      pose proof (accept_slot_yields p Q pk sk label li j pr o b y V WF Hp Hli Hs Ho Hb Ey HQ) as Y.
      destruct (decrypt_slots_finds Q sk (Some li) (sk_n_nonzero pk sk Hp) (vp_slots p) pr (nth_error_In _ _ Hs) Y) as [x Ex].
      apply (decrypt_slots_of_decrypt p Q sk label _ WF) in D. rewrite Hli, Ex in D. discriminate.
    - right. intros j pr o b Hs Ho Hb. unfold W_unopened_bad, W_dec_scalar.
      destruct (label_inv_some pk sk label Hp Hg) as [li Hli]. rewrite Hli.
      destruct (DSC sk (Some li) (if b then s_encr pr else s_encxr pr)) as [[y|]| |] eqn:Ey; auto.
      intros HQ. unfold W_smul, W_gen in HQ.
      pose proof (accept_slot_yields p Q pk sk label li j pr o b y V WF Hp Hli Hs Ho Hb Ey HQ) as Y.
      destruct (decrypt_slots_finds Q sk (Some li) (sk_n_nonzero pk sk Hp) (vp_slots p) pr (nth_error_In _ _ Hs) Y) as [x Ex].
      apply (decrypt_slots_of_decrypt p Q sk label _ WF) in D. rewrite Hli, Ex in D. discriminate.
  Qed.

  (** the value is unique: for Q = x*G with canonical x, [decrypt] can only return x *)
  Lemma decrypt_unique p x sk label y : 0 <= x < q ->
    W_decrypt W p (W_smul W x (W_gen W)) sk label = Val y -> y = x.
  Proof.
    intros Hx D. apply venc_decrypt_sound_lem in D. destruct D as [D Hy].
    unfold W_smul, W_gen in D. apply smul_gen_inj; assumption.
  Qed.

  (** C10 (grinding): however many slots are corrupted, one intact slot (both ciphertexts are label-bound
      encryptions of r and x + r, under any seeds) makes decrypt return x -- no matter what verify said *)
  Lemma venc_grinding_k_lem p x pk sk label : rsa_pair_ok W pk sk ->
    Z.gcd (W_label_int W label) (w_pk_n W pk) = 1 -> 0 <= x < q ->
    length (vp_slots p) = vp_sp p ->
    (exists pr r seed1 seed2, In pr (vp_slots p) /\ 0 <= r < q /\
        W_enc_label W (repr r) label pk seed1 = Val (s_encr pr) /\
        W_enc_label W (repr ((x + r) mod q)) label pk seed2 = Val (s_encxr pr)) ->
    W_decrypt W p (W_smul W x (W_gen W)) sk label = Val x.
  Proof.
    intros Hp Hg Hx L (pr & r & s1 & s2 & Hin & Hr & E1 & E2).
    destruct (label_inv_some pk sk label Hp Hg) as [li Hli].
    assert (Hxr : 0 <= (x + r) mod q < q) by (apply Z.mod_pos_bound; lia).
    assert (Y : slot_yields (smul x gen) sk (Some li) pr).
    { exists r, ((x + r) mod q). split; [|split].
      - eapply dec_scalar_honest; eassumption.
      - eapply dec_scalar_honest; eassumption.
      - rewrite Zminus_mod_idemp_l. replace (x + r - r) with x by lia. apply smul_mod_l. }
    destruct (decrypt_slots_finds _ sk (Some li) (sk_n_nonzero pk sk Hp) (vp_slots p) pr Hin Y) as [y Ey].
    assert (D : W_decrypt W p (W_smul W x (W_gen W)) sk label = Val y).
    { unfold W_decrypt, decrypt, W_smul, W_gen. rewrite L, Nat.eqb_refl. cbn [negb]. rewrite Hli. exact Ey. }
    rewrite D. f_equal. eapply decrypt_unique; eassumption.
  Qed.
End Core.
