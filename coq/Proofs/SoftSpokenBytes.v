(** Generic byte-string / list lemmas for the SoftSpoken proofs (C03, C04). *)
From SL Require Import Lib.Base Lib.Oracle Gen.Params Model.Gf128 Model.SoftSpoken.
From SL Require Import Proofs.ByteLangLin Proofs.Gf128Spec.
Local Open Scope nat_scope.

(* ------------------------------------------------------------------ constants *)
Lemma ssQ_val : ssQ = 16. Proof. reflexivity. Qed.
Lemma ssK_val : ssK = 4. Proof. reflexivity. Qed.
Lemma ssM_val : ssM = 4. Proof. reflexivity. Qed.
Lemma ssTrees_val : ssTrees = 64. Proof. reflexivity. Qed.
Lemma ssLC_val : ssLC = 256. Proof. reflexivity. Qed.
Lemma ssLCB_val : ssLCB = 32. Proof. reflexivity. Qed.
Lemma ssL_val : ssL = 512. Proof. reflexivity. Qed.
Lemma ssLB_val : ssLB = 64. Proof. reflexivity. Qed.
Lemma ssLPB_val : ssLPB = 80. Proof. reflexivity. Qed.
Lemma ssSB_val : ssSB = 16. Proof. reflexivity. Qed.
Lemma ssW_val : ssW = 3. Proof. reflexivity. Qed.
Lemma ssKB_val : ssKB = 32. Proof. reflexivity. Qed.
Global Opaque ssQ ssK ssM ssTrees ssLC ssLCB ssL ssLB ssLPB ssSB ssW ssKB.

(* ------------------------------------------------------------------ bytes *)
Definition bytesP (l : list N) : Prop := Forall byteP l.
(** a well-formed byte row of length n *)
Definition rowP (n : nat) (l : list N) : Prop := length l = n /\ Forall byteP l.

Lemma zbytes_length n : length (zbytes n) = n.
Proof. apply repeat_length. Qed.
Lemma zbytes_bytes n : Forall byteP (zbytes n).
Proof. induction n; cbn; constructor; [reflexivity|assumption]. Qed.
Lemma zbytes_row n : rowP n (zbytes n).
Proof. split; [apply zbytes_length|apply zbytes_bytes]. Qed.
Lemma zbytes_S n : zbytes (S n) = 0%N :: zbytes n.
Proof. reflexivity. Qed.

Lemma land_255_byte x : (N.land x 255 < 256)%N.
Proof.
  change 255%N with (N.ones 8). rewrite N.land_ones. apply N.mod_lt. discriminate.
Qed.

Lemma land_255_id x : byteP x -> N.land 255 x = x.
Proof.
  intros Hx. rewrite N.land_comm. change 255%N with (N.ones 8). rewrite N.land_ones.
  apply N.mod_small. exact Hx.
Qed.

Lemma fitb_length n l : length (fitb n l) = n.
Proof.
  unfold fitb. rewrite map_length, app_length, firstn_length, zbytes_length. lia.
Qed.
Lemma fitb_bytes n l : Forall byteP (fitb n l).
Proof.
  unfold fitb. apply Forall_forall. intros x Hx. apply in_map_iff in Hx. destruct Hx as (y & <- & _).
  apply land_255_byte.
Qed.
Lemma fitb_row n l : rowP n (fitb n l).
Proof. split; [apply fitb_length|apply fitb_bytes]. Qed.

Lemma lxor_byte x y : byteP x -> byteP y -> byteP (N.lxor x y).
Proof. unfold byteP. change 256%N with (2 ^ 8)%N. apply lxor_lt_pow2. Qed.

(* ------------------------------------------------------------------ xor_bytes *)
Lemma xor_bytes_xorl a b : xor_bytes a b = xorl a b.
Proof. reflexivity. Qed.

Lemma xor_bytes_length a b : length (xor_bytes a b) = Nat.min (length a) (length b).
Proof. revert b; induction a as [|x r IH]; intros [|y s]; cbn; try reflexivity. rewrite IH. reflexivity. Qed.

Lemma xor_bytes_len n a b : length a = n -> length b = n -> length (xor_bytes a b) = n.
Proof. intros <- Hb. rewrite xor_bytes_length, Hb. apply Nat.min_id. Qed.

Lemma xor_bytes_bytes a b : Forall byteP a -> Forall byteP b -> Forall byteP (xor_bytes a b).
Proof.
  intros Ha; revert b; induction Ha as [|x r Hx Hr IH]; intros b Hb; [constructor|].
  destruct Hb as [|y s Hy Hs]; cbn; constructor; [apply lxor_byte; assumption|apply IH; assumption].
Qed.

Lemma xor_bytes_row n a b : rowP n a -> rowP n b -> rowP n (xor_bytes a b).
Proof. intros [La Ba] [Lb Bb]. split; [apply xor_bytes_len|apply xor_bytes_bytes]; assumption. Qed.

Lemma xor_bytes_comm a b : xor_bytes a b = xor_bytes b a.
Proof.
  revert b; induction a as [|x r IH]; intros [|y s]; cbn; try reflexivity.
  rewrite N.lxor_comm, IH. reflexivity.
Qed.

Lemma xor_bytes_assoc a b c : xor_bytes (xor_bytes a b) c = xor_bytes a (xor_bytes b c).
Proof.
  revert b c; induction a as [|x r IH]; intros [|y s] [|z t]; cbn; try reflexivity.
  rewrite N.lxor_assoc, IH. reflexivity.
Qed.

Lemma xor_bytes_zeros_r a n : length a = n -> xor_bytes a (zbytes n) = a.
Proof.
  revert n; induction a as [|x r IH]; intros n Hn; [reflexivity|].
  destruct n as [|n]; [discriminate|]. cbn in *. rewrite N.lxor_0_r, IH by lia. reflexivity.
Qed.

Lemma xor_bytes_zeros_l a n : length a = n -> xor_bytes (zbytes n) a = a.
Proof. intros H. rewrite xor_bytes_comm. apply xor_bytes_zeros_r, H. Qed.

Lemma xor_bytes_self a : xor_bytes a a = zbytes (length a).
Proof. induction a as [|x r IH]; [reflexivity|]. cbn. rewrite N.lxor_nilpotent, IH. reflexivity. Qed.

(** (a ^ r) ^ r = a *)
Lemma xor_bytes_cancel a r : length a = length r -> xor_bytes (xor_bytes a r) r = a.
Proof.
  intros H. rewrite xor_bytes_assoc, xor_bytes_self. apply xor_bytes_zeros_r. exact H.
Qed.

(** (p ^ q) ^ (r ^ s) = (p ^ r) ^ (q ^ s) *)
Lemma xor_bytes_swap4 p q r s :
  xor_bytes (xor_bytes p q) (xor_bytes r s) = xor_bytes (xor_bytes p r) (xor_bytes q s).
Proof.
  rewrite !xor_bytes_assoc. f_equal. rewrite <- !xor_bytes_assoc. f_equal. apply xor_bytes_comm.
Qed.

Lemma xor_bytes_inj_r a b c : length a = length c -> length b = length c ->
  xor_bytes a c = xor_bytes b c -> a = b.
Proof.
  intros Ha Hb H. rewrite <- (xor_bytes_cancel a c Ha), <- (xor_bytes_cancel b c Hb), H. reflexivity.
Qed.

Lemma xor_bytes_inj_l a b c : length a = length c -> length b = length c ->
  xor_bytes c a = xor_bytes c b -> a = b.
Proof. intros Ha Hb. rewrite !(xor_bytes_comm c). apply xor_bytes_inj_r; assumption. Qed.

Lemma xor_bytes_eq_zero a b n : length a = n -> length b = n -> xor_bytes a b = zbytes n -> a = b.
Proof.
  intros Ha Hb H. apply (xor_bytes_inj_r a b b); [congruence|reflexivity|].
  rewrite H, xor_bytes_self, Hb. reflexivity.
Qed.

Lemma xor_bytes_firstn k a b : firstn k (xor_bytes a b) = xor_bytes (firstn k a) (firstn k b).
Proof.
  revert a b; induction k as [|k IH]; intros a b; [reflexivity|].
  destruct a as [|x r], b as [|y s]; cbn; try reflexivity.
  rewrite IH. reflexivity.
Qed.

Lemma xor_bytes_skipn k a b : skipn k (xor_bytes a b) = xor_bytes (skipn k a) (skipn k b).
Proof.
  revert a b; induction k as [|k IH]; intros a b; [reflexivity|].
  destruct a as [|x r], b as [|y s]; cbn; try reflexivity; [destruct (skipn k r); reflexivity|apply IH].
Qed.

Lemma xor_bytes_app a1 a2 b1 b2 : length a1 = length b1 ->
  xor_bytes (a1 ++ a2) (b1 ++ b2) = xor_bytes a1 b1 ++ xor_bytes a2 b2.
Proof.
  revert b1; induction a1 as [|x r IH]; intros [|y s] H; cbn in *; try discriminate; [reflexivity|].
  rewrite IH by lia. reflexivity.
Qed.

Lemma xor_bytes_nth a b k : k < length a -> k < length b ->
  nth k (xor_bytes a b) 0%N = N.lxor (nth k a 0%N) (nth k b 0%N).
Proof.
  revert b k; induction a as [|x r IH]; intros [|y s] [|k] Ha Hb; cbn in *; try lia; try reflexivity.
  apply IH; lia.
Qed.

Lemma map_combine_xor (m : N) (t x : list N) :
  map (fun tx => N.lxor (fst tx) (N.land m (snd tx))) (combine t x) = xor_bytes t (and_mask m x).
Proof.
  revert x; induction t as [|a r IH]; intros [|b s]; cbn; try reflexivity. rewrite IH. reflexivity.
Qed.

Lemma xor_bytes_nil_r a : xor_bytes a [] = [].
Proof. destruct a; reflexivity. Qed.

Lemma map_combine_xor_bytes (u e : list (list N)) i :
  nth i (map (fun ue => xor_bytes (fst ue) (snd ue)) (combine u e)) [] = xor_bytes (nth i u []) (nth i e []).
Proof.
  revert e i; induction u as [|a r IH]; intros e i.
  - destruct i; reflexivity.
  - destruct e as [|b s].
    + cbn [combine map]. destruct i; cbn [nth]; rewrite xor_bytes_nil_r; reflexivity.
    + destruct i; cbn [combine map nth fst snd]; [reflexivity|apply IH].
Qed.

(* ------------------------------------------------------------------ masks *)
(** the value selected by a mask bit: the row or zeros *)
Definition maskb (c : bool) (l : list N) : list N := if c then l else zbytes (length l).

Lemma maskb_length c l : length (maskb c l) = length l.
Proof. destruct c; cbn; [reflexivity|apply zbytes_length]. Qed.
Lemma maskb_bytes c l : Forall byteP l -> Forall byteP (maskb c l).
Proof. destruct c; cbn; [auto|intros _; apply zbytes_bytes]. Qed.
Lemma maskb_row n c l : rowP n l -> rowP n (maskb c l).
Proof. intros [L B]. split; [rewrite maskb_length; exact L|apply maskb_bytes, B]. Qed.

Lemma bit_to_bit_mask_b2n c : bit_to_bit_mask (N.b2n c) = if c then 255%N else 0%N.
Proof. destruct c; reflexivity. Qed.

Lemma land_shiftr_1 x b : N.land (N.shiftr x b) 1 = N.b2n (N.testbit x b).
Proof.
  change 1%N with (N.ones 1) at 1. rewrite N.land_ones. change (2 ^ 1)%N with 2%N.
  rewrite <- N.bit0_mod, N.shiftr_spec', N.add_0_l. reflexivity.
Qed.

Lemma and_mask_0 l : and_mask 0 l = zbytes (length l).
Proof.
  induction l as [|x r IH]; [reflexivity|]. cbn [and_mask map length]. rewrite zbytes_S, N.land_0_l.
  f_equal. exact IH.
Qed.

Lemma and_mask_255 l : Forall byteP l -> and_mask 255 l = l.
Proof.
  induction 1 as [|x r Hx Hr IH]; [reflexivity|]. cbn [and_mask map].
  f_equal; [apply land_255_id, Hx|exact IH].
Qed.

Lemma and_mask_bit c l : Forall byteP l -> and_mask (bit_to_bit_mask (N.b2n c)) l = maskb c l.
Proof.
  intros H. rewrite bit_to_bit_mask_b2n. destruct c; [apply and_mask_255, H|apply and_mask_0].
Qed.

Lemma and_mask_shiftr x b l : Forall byteP l ->
  and_mask (bit_to_bit_mask (N.land (N.shiftr x b) 1)) l = maskb (N.testbit x b) l.
Proof. intros H. rewrite land_shiftr_1. apply and_mask_bit, H. Qed.

Lemma maskb_xor c a b : length a = length b ->
  maskb c (xor_bytes a b) = xor_bytes (maskb c a) (maskb c b).
Proof.
  intros H. destruct c; cbn; [reflexivity|].
  rewrite xor_bytes_length, <- H, Nat.min_id. symmetry. apply xor_bytes_zeros_r, zbytes_length.
Qed.

(** a ^ maskb c r : conditional xor *)
Lemma xor_maskb a c r : length a = length r -> xor_bytes a (maskb c r) = if c then xor_bytes a r else a.
Proof. intros H. destruct c; cbn; [reflexivity|]. apply xor_bytes_zeros_r, H. Qed.

(* ------------------------------------------------------------------ bits of byte strings *)
(** bit [idx] of a packed bit string, little-endian within bytes *)
Definition bitat (l : list N) (idx : nat) : bool :=
  N.testbit (nth (idx / 8) l 0%N) (N.of_nat (idx mod 8)).

Lemma land_pow2_testbit a k : negb (N.land a (N.shiftl 1 k) =? 0)%N = N.testbit a k.
Proof.
  rewrite N.shiftl_1_l.
  destruct (N.testbit a k) eqn:E.
  - destruct (N.eqb_spec (N.land a (2 ^ k)) 0) as [Z|]; [|reflexivity].
    exfalso. assert (N.testbit (N.land a (2 ^ k)) k = true).
    { rewrite N.land_spec, E, N.pow2_bits_true. reflexivity. }
    rewrite Z, N.bits_0 in H. discriminate.
  - destruct (N.eqb_spec (N.land a (2 ^ k)) 0) as [Z|NZ]; [reflexivity|].
    exfalso. apply NZ. apply N.bits_inj. intros m. rewrite N.land_spec, N.bits_0, N.pow2_bits_eqb.
    destruct (N.eqb_spec k m) as [<-|]; [rewrite E; reflexivity|apply andb_false_r].
Qed.

Lemma ss_extract_bit_bitat l idx : ss_extract_bit l idx = bitat l idx.
Proof. unfold ss_extract_bit, bitat. apply land_pow2_testbit. Qed.

Lemma byte_testbit_high x k : byteP x -> (8 <= k)%N -> N.testbit x k = false.
Proof.
  intros Hx Hk. destruct (N.eq_dec x 0) as [->|NZ]; [apply N.bits_0|].
  apply N.bits_above_log2. apply N.log2_lt_pow2; [lia|].
  unfold byteP in Hx. eapply N.lt_le_trans; [exact Hx|].
  change 256%N with (2 ^ 8)%N. apply N.pow_le_mono_r; [discriminate|exact Hk].
Qed.

(** two byte rows of the same length are equal when all their bits agree *)
Lemma bytes_ext (a b : list N) : length a = length b ->
  (forall i k, i < length a -> N.testbit (nth i a 0%N) k = N.testbit (nth i b 0%N) k) -> a = b.
Proof.
  intros L H. apply (nth_ext a b 0%N 0%N L). intros i Hi. apply N.bits_inj. intros k. apply H, Hi.
Qed.

(* ------------------------------------------------------------------ list plumbing *)
Lemma Nseq_length n : length (Nseq n) = n.
Proof. unfold Nseq. rewrite map_length, seq_length. reflexivity. Qed.
Lemma Nseq_nth n k : k < n -> nth k (Nseq n) 0%N = N.of_nat k.
Proof.
  intros H. unfold Nseq. change 0%N with (N.of_nat 0). rewrite map_nth, seq_nth by exact H. reflexivity.
Qed.

Lemma chunks_length {A} n k (l : list A) : length (chunks n k l) = k.
Proof. revert l; induction k as [|k IH]; intros l; cbn; [reflexivity|rewrite IH; reflexivity]. Qed.

Lemma skipn_plus {A} a b (l : list A) : skipn (a + b) l = skipn b (skipn a l).
Proof.
  revert l; induction a as [|a IH]; intros l; [reflexivity|].
  destruct l as [|x r]; cbn [Nat.add skipn]; [destruct b; reflexivity|apply IH].
Qed.

Lemma chunks_nth {A} n k (l : list A) j : j < k -> nth j (chunks n k l) [] = firstn n (skipn (j * n) l).
Proof.
  revert l j; induction k as [|k IH]; intros l j Hj; [lia|].
  destruct j as [|j]; cbn [chunks nth]; [reflexivity|].
  rewrite IH by lia. cbn [Nat.mul]. rewrite skipn_plus. reflexivity.
Qed.

Lemma nth_firstn_skipn {A} (l : list A) n s k d : k < n -> nth k (firstn n (skipn s l)) d = nth (s + k) l d.
Proof.
  intros Hk. revert l; induction s as [|s IH]; intros l.
  - cbn [skipn Nat.add]. revert n l Hk; induction k as [|k IHk]; intros n l Hk; destruct n as [|n]; try lia;
      destruct l as [|x r]; cbn; try reflexivity. apply IHk. lia.
  - destruct l as [|x r]; [|cbn [skipn Nat.add nth]; apply IH].
    cbn [skipn]. rewrite firstn_nil. destruct k, (S s + _); reflexivity.
Qed.

(** concatenation of blocks of constant length k *)
Lemma concat_nth_const {A} (ll : list (list A)) k d i b :
  (forall l, In l ll -> length l = k) -> b < k ->
  nth (i * k + b) (concat ll) d = nth b (nth i ll []) d.
Proof.
  intros Hl Hb. revert i; induction ll as [|l r IH]; intros i.
  - cbn. destruct i, b, (_ + _); reflexivity.
  - assert (Ll : length l = k) by (apply Hl; left; reflexivity).
    assert (Hr : forall l', In l' r -> length l' = k) by (intros l' H'; apply Hl; right; exact H').
    cbn [concat]. destruct i as [|i].
    + cbn [Nat.mul Nat.add nth]. apply app_nth1. lia.
    + cbn [nth]. rewrite app_nth2 by lia. rewrite <- (IH Hr i). f_equal. lia.
Qed.

Lemma concat_length_const {A} (ll : list (list A)) k :
  (forall l, In l ll -> length l = k) -> length (concat ll) = length ll * k.
Proof.
  induction ll as [|l r IH]; intros Hl; [reflexivity|]. cbn [concat length]. rewrite app_length, IH.
  - rewrite (Hl l) by (left; reflexivity). cbn. reflexivity.
  - intros l' H'. apply Hl. right. exact H'.
Qed.

Lemma flat_map_nth_const {A B} (f : A -> list B) (l : list A) k d i b :
  (forall a, length (f a) = k) -> b < k ->
  nth (i * k + b) (flat_map f l) d = nth b (nth i (map f l) []) d.
Proof.
  intros Hf Hb. rewrite flat_map_concat_map. apply concat_nth_const; [|exact Hb].
  intros x Hx. apply in_map_iff in Hx. destruct Hx as (a & <- & _). apply Hf.
Qed.

Lemma in_combine_seq {A} (l : list A) s r x d :
  In (r, x) (combine (seq s (length l)) l) -> s <= r < s + length l /\ x = nth (r - s) l d.
Proof.
  revert s; induction l as [|y t IH]; intros s; cbn [length seq combine]; [intros []|].
  intros [E|Hin].
  - inversion E; subst. split; [lia|]. rewrite Nat.sub_diag. reflexivity.
  - apply IH in Hin. destruct Hin as [Hr ->]. split; [lia|].
    replace (r - s) with (S (r - S s)) by lia. reflexivity.
Qed.

Lemma combine_seq_in {A} (l : list A) s k d : k < length l ->
  In (s + k, nth k l d) (combine (seq s (length l)) l).
Proof.
  revert s k; induction l as [|y t IH]; intros s k Hk; cbn [length] in *; [lia|].
  cbn [seq combine]. destruct k as [|k].
  - left. rewrite Nat.add_0_r. reflexivity.
  - right. replace (s + S k) with (S s + k) by lia. apply IH. lia.
Qed.

Lemma combine_nth_lt {A B} (la : list A) (lb : list B) i da db :
  i < length la -> i < length lb -> nth i (combine la lb) (da, db) = (nth i la da, nth i lb db).
Proof.
  revert lb i; induction la as [|a r IH]; intros [|b s] [|i] Ha Hb; cbn in *; try lia; try reflexivity.
  apply IH; lia.
Qed.

Lemma nth_map_combine {A B C} (f : A * B -> C) (la : list A) (lb : list B) i da db dc :
  i < length la -> i < length lb ->
  nth i (map f (combine la lb)) dc = f (nth i la da, nth i lb db).
Proof.
  intros Ha Hb. rewrite (nth_indep _ dc (f (da, db))) by (rewrite map_length, combine_length; lia).
  rewrite map_nth, combine_nth_lt by assumption. reflexivity.
Qed.
