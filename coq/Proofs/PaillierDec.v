(** Decryption theorems for the Paillier model: standard decryption inverts encryption, the CRT path agrees
    with it on every ciphertext coprime to N, N-th root extraction, homomorphisms. *)
From Coq Require Import ZArith Znumtheory Zpow_facts Lia List.
From SL Require Import Lib.Base Model.Paillier Proofs.PaillierNT Proofs.PaillierWidth.
Local Open Scope Z_scope.

Opaque modinv powmod Z.pow.

Lemma one_plus_mod N k : 1 < N -> (1 + k * N) mod (N * N) = 1 + (k mod N) * N.
Proof.
  intros HN. symmetry. apply Z.mod_unique with (k / N).
  - left. pose proof (Z.mod_pos_bound k N ltac:(lia)). nia.
  - pose proof (Z.div_mod k N ltac:(lia)). nia.
Qed.

Lemma rel_prime_mod_iff a n : 0 < n -> rel_prime a n -> rel_prime (a mod n) n.
Proof.
  intros Hn H. apply Zgcd_1_rel_prime. apply Zgcd_1_rel_prime in H.
  rewrite Z.gcd_mod by lia. rewrite Z.gcd_comm. exact H.
Qed.

Lemma rel_prime_factor_l a p q : rel_prime a (p * q) -> rel_prime a p.
Proof. intros H. apply rel_prime_sym. eapply rel_prime_div; [apply rel_prime_sym; exact H|]. exists q; ring. Qed.

Lemma rel_prime_factor_r a p q : rel_prime a (p * q) -> rel_prime a q.
Proof. intros H. apply rel_prime_sym. eapply rel_prime_div; [apply rel_prime_sym; exact H|]. exists p; ring. Qed.

Lemma rel_prime_neg a n : rel_prime a n -> rel_prime (- a) n.
Proof.
  intros H. apply Zgcd_1_rel_prime. apply Zgcd_1_rel_prime in H. rewrite Z.gcd_opp_l. exact H.
Qed.

(** Garner recombination: the unique value below p*q with the given residues *)
Lemma recombine_spec w pinv v1 v2 p q :
  0 < wP w -> 0 < wM w -> 1 < p < 2 ^ wP w -> 1 < q < 2 ^ wP w -> p * q < 2 ^ wM w ->
  cong q (pinv * p) 1 -> 0 <= v1 < p -> 0 <= v2 < q ->
  let x := recombine w pinv v1 v2 p q in
  0 <= x < p * q /\ cong p x v1 /\ cong q x v2.
Proof.
  intros HP HM Hp Hq Hn Hinv Hv1 Hv2. unfold recombine, crem.
  pose proof (Z.mod_pos_bound v1 q ltac:(lia)) as Hv1q.
  set (d := sub_mod (wP w) v2 (v1 mod q) q).
  assert (Hd : 0 <= d < q /\ cong q d (v2 - v1)).
  { subst d. unfold sub_mod. destruct (Z.ltb_spec v2 (v1 mod q)).
    - rewrite wrap_small by lia. split; [lia|].
      apply cong_div; [lia|]. exists (1 + v1 / q). pose proof (Z.div_mod v1 q ltac:(lia)). lia.
    - rewrite wrap_small by lia. split; [lia|].
      apply cong_div; [lia|]. exists (v1 / q). pose proof (Z.div_mod v1 q ltac:(lia)). lia. }
  destruct Hd as [Hd1 Hd2].
  pose proof (Z.mod_pos_bound (d * pinv) q ltac:(lia)) as Hu.
  set (u := (d * pinv) mod q) in *.
  assert (Hup : 0 <= u * p <= (q - 1) * p) by nia.
  unfold wadd. rewrite (wrap_small (wM w) (u * p)) by nia. rewrite wrap_small by nia.
  split; [nia|]. split.
  - apply cong_div; [lia|]. exists u. ring.
  - apply cong_trans with (d * pinv * p + v1).
    + apply cong_add; [lia| |apply cong_refl]. apply cong_mul; [lia| |apply cong_refl].
      subst u. apply cong_mod; lia.
    + apply cong_trans with (d * 1 + v1).
      * apply cong_add; [lia| |apply cong_refl]. rewrite <- Z.mul_assoc. apply cong_mul; [lia|apply cong_refl|exact Hinv].
      * apply cong_trans with (v2 - v1 + v1); [|replace (v2 - v1 + v1) with v2 by ring; apply cong_refl].
        apply cong_add; [lia| |apply cong_refl]. rewrite Z.mul_1_r. exact Hd2.
Qed.

Lemma crt_unique p q x y : 0 < p -> 0 < q -> rel_prime p q ->
  0 <= x < p * q -> 0 <= y < p * q -> cong p x y -> cong q x y -> x = y.
Proof. intros. apply cong_small with (p * q); try assumption. apply cong_crt; assumption. Qed.

(** [mp] for a prime a with cofactor b: if c^((a-1)(b-1)) = 1 + k a b (mod a^2) and D (a-1)(b-1) = k (mod a)
    then D = mp (mod a). *)
Lemma mp_spec w a b c k D :
  widths_ok w -> prime a -> prime b -> a <> b -> 3 <= a -> 3 <= b -> a < 2 ^ wP w -> a * a < 2 ^ wM w ->
  rel_prime (b - 1) a ->
  0 <= c -> rel_prime c a ->
  cong (a * a) (c ^ ((a - 1) * (b - 1))) (1 + k * (a * b)) ->
  cong a (D * ((a - 1) * (b - 1))) k ->
  let m := mp w (c mod (a * a)) a (h w a (a * a) (a * b)) (a * a) in
  0 <= m < a /\ cong a D m.
Proof.
  intros Hw Pa Pb Hne Ha3 Hb3 Ha Haa Hb1 Hc Hca Hk HD.
  destruct (h_spec w a b Hw Pa Pb Hne Ha3 Ha Haa) as [Hh1 Hh2].
  destruct Hw as (HP & H8 & HM & HC).
  set (hp := h w a (a * a) (a * b)) in *.
  unfold mp, crem.
  unfold wsub. rewrite !(wrap_small (wP w) (a - 1)) by lia.
  rewrite pow_bounded_exp_spec by (try nia; lia).
  rewrite <- Zpower_mod by nia.
  set (xp := c ^ (a - 1) mod (a * a)).
  assert (Hxp : 0 <= xp < a * a) by (subst xp; apply Z.mod_pos_bound; nia).
  assert (Hxp1 : cong a xp 1).
  { apply cong_trans with (c ^ (a - 1)).
    - apply cong_dvd with (a * a); [lia|nia|exists a; ring|]. subst xp. apply cong_mod; nia.
    - unfold cong. rewrite fermat by (first [assumption | apply not_divide_of_rel_prime; [lia|assumption]]).
      rewrite Z.mod_small by lia. reflexivity. }
  apply cong_div in Hxp1; [|lia]. destruct Hxp1 as [t Ht].
  assert (Ht1 : 0 <= t < a) by nia.
  assert (Ext : xp = 1 + t * a) by lia.
  rewrite (wrap_small (wM w) (xp - 1)) by nia.
  replace (xp - 1) with (t * a) by lia. unfold wdiv. rewrite Z.div_mul by lia.
  rewrite (wrap_small (wP w) t) by lia. rewrite (Z.mod_small t a) by lia.
  split; [apply Z.mod_pos_bound; lia|].
  (* k b = (b-1) t (mod a) *)
  assert (Hkb : cong a (k * b) ((b - 1) * t)).
  { assert (H1 : cong (a * a) (c ^ ((a - 1) * (b - 1))) (1 + (b - 1) * t * a)).
    { rewrite Z.pow_mul_r by lia.
      apply cong_trans with (xp ^ (b - 1)).
      - apply cong_pow; [nia|]. apply cong_sym. subst xp. apply cong_mod; nia.
      - rewrite Ext. apply one_plus_pow; lia. }
    assert (H2 : cong (a * a) (1 + k * (a * b)) (1 + (b - 1) * t * a)).
    { eapply cong_trans; [apply cong_sym; exact Hk|exact H1]. }
    apply cong_div in H2; [|nia]. destruct H2 as [z Hz].
    apply cong_div; [lia|]. exists z. nia. }
  (* D (-b) = t (mod a) *)
  assert (HDt : cong a (D * (- b)) t).
  { apply cong_cancel with (b - 1); [lia|assumption|].
    apply cong_trans with (k * b); [|exact Hkb].
    apply cong_trans with (D * ((a - 1) * (b - 1)) * b).
    - apply cong_div; [lia|]. exists (- (D * (b - 1) * b)). ring.
    - apply cong_mul; [lia|exact HD|apply cong_refl]. }
  apply cong_cancel with (- b); [lia| |].
  - apply rel_prime_neg. apply rel_prime_sym. apply prime_rel_prime; [assumption|].
    intros Hd. apply prime_divisors in Hd; [|assumption]. lia.
  - rewrite (Z.mul_comm (- b) D).
    apply cong_trans with t; [exact HDt|].
    apply cong_sym.
    apply cong_trans with (t * hp * (- b)).
    + rewrite (Z.mul_comm (- b)). apply cong_mul; [lia| |apply cong_refl]. apply cong_mod; lia.
    + rewrite <- Z.mul_assoc. apply cong_trans with (t * 1); [|rewrite Z.mul_1_r; apply cong_refl].
      apply cong_mul; [lia|apply cong_refl|exact Hh2].
Qed.

Section Key.
  Variable w : widths.
  Variables p q : Z.
  Hypothesis Hw : widths_ok w.
  Hypothesis Hk : key_ok w p q.

  Let n := p * q.
  Let phi := (p - 1) * (q - 1).
  Let sk := from_pq w p q.
  Let pk := sk_pk sk.

  Ltac facts :=
    destruct (key_basic w p q Hw Hk) as (Pp & Pq & Hne & Hp3 & Hq3 & Hp & Hq & Hn & Hpp & Hqq & Hnn & HP & HM & HC & Hphi & Hrel & Hg1 & Hg2);
    destruct (sk_fields w p q Hw Hk) as (Fpk & Fphi & Fp & Fq & Fpp & Fqq & Finv & Fpinv);
    fold n in Hn, Hnn, Hphi, Hg1, Hg2, Fpk; fold phi in Hphi, Hg1, Hg2, Fphi, Finv; fold sk in Fpk, Fphi, Fp, Fq, Fpp, Fqq, Finv, Fpinv.

  (** every ciphertext coprime to N: c^phi = 1 + k N (mod N^2) with k < N, and decrypt returns k / phi mod N *)
  Lemma decrypt_char c : 0 <= c -> rel_prime c n ->
    exists k, 0 <= k < n /\ (c ^ phi) mod (n * n) = 1 + k * n /\
              decrypt w sk c = (k * modinv phi n) mod n.
  Proof.
    intros Hc Hcn. facts.
    assert (Hn1 : 1 < n) by (subst n; nia).
    set (x := (c ^ phi) mod (n * n)).
    assert (Hx : 0 <= x < n * n) by (subst x; apply Z.mod_pos_bound; nia).
    assert (Hx1 : cong n x 1).
    { apply cong_trans with (c ^ phi).
      - apply cong_dvd with (n * n); [lia|nia|exists n; ring|]. subst x. apply cong_mod; nia.
      - subst n phi. apply euler_pq; assumption. }
    apply cong_div in Hx1; [|lia]. destruct Hx1 as [k Hk1].
    exists k. assert (Hkr : 0 <= k < n) by nia.
    split; [exact Hkr|]. split; [lia|].
    unfold decrypt. rewrite Fpk, Fphi, Finv. cbn [pk_n pk_nn].
    rewrite (wrap_small (wM w) phi) by lia.
    rewrite pow_bounded_exp_spec by (try nia; lia). fold x.
    unfold wsub. rewrite (wrap_small (wC w) (x - 1)) by nia. rewrite Hk1.
    unfold wdiv. rewrite Z.div_mul by lia. rewrite (wrap_small (wM w) k) by lia.
    unfold crem. rewrite (Z.mod_small k n) by lia. reflexivity.
  Qed.

  Lemma decrypt_range c : 0 <= decrypt w sk c < n.
  Proof.
    facts. unfold decrypt, crem. rewrite Fpk. cbn [pk_n]. apply Z.mod_pos_bound. subst n; nia.
  Qed.

  (** ciphertexts of the form (1 + m N) r^N decrypt to m mod N *)
  Lemma decrypt_form c m r : 0 <= c -> 0 <= r -> rel_prime r n ->
    cong (n * n) c ((1 + m * n) * r ^ n) -> decrypt w sk c = m mod n.
  Proof.
    intros Hc Hr Hrn Hform. facts.
    assert (Hn1 : 1 < n) by (subst n; nia).
    (* c is coprime to n *)
    assert (Hcn : rel_prime c n).
    { assert (Hcr : cong n c (r ^ n)).
      { apply cong_trans with ((1 + m * n) * r ^ n).
        - apply cong_dvd with (n * n); [lia|nia|exists n; ring|exact Hform].
        - apply cong_div; [lia|]. exists (m * r ^ n). ring. }
      apply cong_div in Hcr; [|lia]. destruct Hcr as [z Hz].
      assert (Hrn' : rel_prime (r ^ n) n).
      { apply rel_prime_sym. apply rel_prime_Zpower_r; [lia|apply rel_prime_sym; exact Hrn]. }
      apply Zgcd_1_rel_prime. apply Zgcd_1_rel_prime in Hrn'.
      replace c with (r ^ n + z * n) by lia. rewrite Z.gcd_comm, Z.gcd_add_mult_diag_r, Z.gcd_comm. exact Hrn'. }
    destruct (decrypt_char c Hc Hcn) as (k & Hkr & Hkx & Hdec). rewrite Hdec.
    (* 1 + k n = 1 + phi m n (mod n^2) *)
    assert (H1 : cong (n * n) (c ^ phi) (1 + phi * m * n)).
    { apply cong_trans with (((1 + m * n) * r ^ n) ^ phi); [apply cong_pow; [nia|exact Hform]|].
      rewrite Z.pow_mul_l. rewrite <- (Z.mul_1_r (1 + phi * m * n)).
      apply cong_mul; [nia| |].
      - replace (phi * m * n) with (phi * m * n) by ring.
        eapply cong_trans; [apply one_plus_pow; lia|]. replace (phi * m * n) with (phi * m * n) by ring. apply cong_refl.
      - rewrite <- Z.pow_mul_r by lia. subst n phi. apply euler_nn; assumption. }
    assert (H2 : cong (n * n) (1 + k * n) (1 + phi * m * n)).
    { eapply cong_trans; [|exact H1]. rewrite <- Hkx. apply cong_mod; nia. }
    apply cong_div in H2; [|nia]. destruct H2 as [z Hz].
    assert (Hkm : cong n k (phi * m)). { apply cong_div; [lia|]. exists z. nia. }
    destruct (inv_phi_spec w p q Hw Hk) as [Hi1 Hi2]. fold n phi in Hi1, Hi2.
    apply cong_trans with (phi * m * modinv phi n); [apply cong_mul; [lia|exact Hkm|apply cong_refl]|].
    replace (phi * m * modinv phi n) with (m * (modinv phi n * phi)) by ring.
    rewrite <- (Z.mul_1_r m) at 2. apply cong_mul; [lia|apply cong_refl|exact Hi2].
  Qed.

  (** the CRT path agrees with the standard path on EVERY ciphertext coprime to N *)
  Lemma paths_agree c : 0 <= c -> rel_prime c n -> decrypt_fast w sk c = decrypt w sk c.
  Proof.
    intros Hc Hcn. facts.
    assert (Hn1 : 1 < n) by (subst n; nia).
    destruct (decrypt_char c Hc Hcn) as (k & Hkr & Hkx & Hdec).
    pose proof (decrypt_range c) as HD. set (D := decrypt w sk c) in *.
    destruct (inv_phi_spec w p q Hw Hk) as [Hi1 Hi2]. fold n phi in Hi1, Hi2.
    destruct (pinv_q_spec w p q Hw Hk) as [Hj1 Hj2].
    destruct (hp_spec w p q Hw Hk) as (Ehp & _). destruct (hq_spec w p q Hw Hk) as (Ehq & _).
    fold sk in Ehp, Ehq.
    (* D phi = k (mod n) *)
    assert (HDk : cong n (D * phi) k).
    { rewrite Hdec. apply cong_trans with (k * modinv phi n * phi).
      - apply cong_mul; [lia|apply cong_mod; lia|apply cong_refl].
      - rewrite <- Z.mul_assoc. rewrite <- (Z.mul_1_r k) at 2. apply cong_mul; [lia|apply cong_refl|exact Hi2]. }
    assert (Hx : cong (n * n) (c ^ phi) (1 + k * n)).
    { rewrite <- Hkx. apply cong_sym, cong_mod; nia. }
    assert (Hgp : rel_prime (q - 1) p).
    { apply Zgcd_1_rel_prime. apply Zgcd_1_rel_prime. apply rel_prime_sym.
      eapply rel_prime_div with (p := n); [|exists q; subst n; ring].
      apply rel_prime_sym. eapply rel_prime_div with (p := phi); [|exists (p - 1); subst phi; ring].
      apply Zgcd_1_rel_prime; assumption. }
    assert (Hgq : rel_prime (p - 1) q).
    { apply rel_prime_sym.
      eapply rel_prime_div with (p := n); [|exists p; subst n; ring].
      apply rel_prime_sym. eapply rel_prime_div with (p := phi); [|exists (q - 1); subst phi; ring].
      apply Zgcd_1_rel_prime; assumption. }
    (* residues of D *)
    pose proof (mp_spec w p q c k D Hw Pp Pq Hne Hp3 Hq3 Hp Hpp Hgp Hc (rel_prime_factor_l _ _ _ Hcn)) as Mp.
    cbv zeta in Mp. destruct Mp as [Mp1 Mp2].
    { apply cong_dvd with (n * n); [nia|nia|exists (q * q); subst n; ring|exact Hx]. }
    { apply cong_dvd with n; [lia|lia|exists q; subst n; ring|exact HDk]. }
    pose proof (mp_spec w q p c k D Hw Pq Pp (not_eq_sym Hne) Hq3 Hp3 Hq Hqq Hgq Hc (rel_prime_factor_r _ _ _ Hcn)) as Mq.
    cbv zeta in Mq. destruct Mq as [Mq1 Mq2].
    { replace ((q - 1) * (p - 1)) with phi by (subst phi; ring). replace (q * p) with n by (subst n; ring).
      apply cong_dvd with (n * n); [nia|nia|exists (p * p); subst n; ring|exact Hx]. }
    { replace ((q - 1) * (p - 1)) with phi by (subst phi; ring).
      apply cong_dvd with n; [lia|lia|exists p; subst n; ring|exact HDk]. }
    unfold decrypt_fast, decompose, crem. rewrite Fpp, Fqq, Fp, Fq, Fpinv, Ehp, Ehq.
    pose proof (recombine_spec w (modinv p q) _ _ p q HP HM ltac:(lia) ltac:(lia) Hn Hj2 Mp1 Mq1) as R.
    cbv zeta in R. destruct R as (R1 & R2 & R3).
    apply crt_unique with p q; try lia; try assumption.
    - apply cong_trans with (1 := R2). apply cong_sym; exact Mp2.
    - apply cong_trans with (1 := R3). apply cong_sym; exact Mq2.
  Qed.

  (** N-th root *)
  Lemma root_exp_spec a b d r : prime a -> 0 <= r -> rel_prime r a -> 0 <= d ->
    cong (a - 1) (b * d) 1 -> 0 <= b -> cong a ((r ^ b) ^ d) r.
  Proof.
    intros Pa Hr Hra Hd Hbd Hb. pose proof (prime_ge_2 a Pa).
    rewrite <- Z.pow_mul_r by lia.
    destruct (Z.eq_dec a 2) as [->|Hne2].
    - (* a - 1 = 1: everything is congruent; use r odd *)
      assert (Hodd : cong 2 r 1).
      { unfold cong. apply not_divide_of_rel_prime in Hra; [|lia].
        pose proof (Z.mod_pos_bound r 2 ltac:(lia)). destruct (Z.eq_dec (r mod 2) 0) as [E|E].
        - exfalso. apply Hra. apply Z.mod_divide; [lia|exact E].
        - rewrite (Z.mod_small 1 2) by lia. lia. }
      apply cong_trans with (1 ^ (b * d)); [apply cong_pow; [lia|exact Hodd]|].
      rewrite Z.pow_1_l by nia. apply cong_sym; exact Hodd.
    - apply cong_div in Hbd; [|lia]. destruct Hbd as [t Ht].
      assert (Ht0 : 0 <= t) by nia.
      replace (b * d) with (1 + (a - 1) * t) by lia.
      rewrite Z.pow_add_r, Z.pow_1_r by nia.
      rewrite <- (Z.mul_1_r r) at 3. apply cong_mul; [lia|apply cong_refl|].
      apply pow_cong_1; [lia|lia|lia|].
      unfold cong. rewrite fermat by (first [assumption | apply not_divide_of_rel_prime; [lia|assumption]]).
      rewrite Z.mod_small by lia. reflexivity.
  Qed.

  Lemma nroot r : 0 <= r < n -> rel_prime r n -> extract_n_root w sk (r ^ n mod n) = r.
  Proof.
    intros Hr Hrn. facts.
    assert (Hn1 : 1 < n) by (subst n; nia).
    destruct (pinv_q_spec w p q Hw Hk) as [Hj1 Hj2].
    assert (Hphi1 : 1 < phi) by (subst phi; nia).
    destruct (modinv_spec n phi Hphi1 Hg2) as [Hd1 Hd2].
    assert (Hdn : cong phi (n * modinv n phi) 1).
    { unfold cong. rewrite (Z.mul_comm n), Hd2, Z.mod_small by lia. reflexivity. }
    set (dn := modinv n phi) in *.
    unfold extract_n_root, extract_n_root_init_params, extract_n_root_with, decompose, crem.
    rewrite Fpk, Fphi, Fp, Fq, Fpinv. cbn [pk_n]. fold dn.
    unfold wsub. rewrite (wrap_small (wP w) (p - 1)), (wrap_small (wP w) (q - 1)) by lia.
    pose proof (Z.mod_pos_bound dn (p - 1) ltac:(lia)) as Hdp.
    pose proof (Z.mod_pos_bound dn (q - 1) ltac:(lia)) as Hdq.
    rewrite !pow_bounded_exp_spec by lia.
    set (z := r ^ n mod n).
    rewrite <- (Zpower_mod z _ p), <- (Zpower_mod z _ q) by lia.
    assert (Hzp : cong p z (r ^ n)).
    { apply cong_dvd with n; [lia|lia|exists q; subst n; ring|subst z; apply cong_mod; lia]. }
    assert (Hzq : cong q z (r ^ n)).
    { apply cong_dvd with n; [lia|lia|exists p; subst n; ring|subst z; apply cong_mod; lia]. }
    assert (Rp : cong p (z ^ (dn mod (p - 1)) mod p) r).
    { eapply cong_trans; [apply cong_mod; lia|].
      eapply cong_trans; [apply cong_pow; [lia|exact Hzp]|].
      apply root_exp_spec; try assumption; try lia.
      - apply rel_prime_factor_l with q; exact Hrn.
      - apply cong_trans with (n * dn).
        + apply cong_mul; [lia|apply cong_refl|apply cong_mod; lia].
        + apply cong_dvd with phi; [lia|lia|exists (q - 1); subst phi; ring|exact Hdn]. }
    assert (Rq : cong q (z ^ (dn mod (q - 1)) mod q) r).
    { eapply cong_trans; [apply cong_mod; lia|].
      eapply cong_trans; [apply cong_pow; [lia|exact Hzq]|].
      apply root_exp_spec; try assumption; try lia.
      - apply rel_prime_factor_r with p; exact Hrn.
      - apply cong_trans with (n * dn).
        + apply cong_mul; [lia|apply cong_refl|apply cong_mod; lia].
        + apply cong_dvd with phi; [lia|lia|exists (p - 1); subst phi; ring|exact Hdn]. }
    pose proof (recombine_spec w (modinv p q) (z ^ (dn mod (p - 1)) mod p) (z ^ (dn mod (q - 1)) mod q) p q
                  HP HM ltac:(lia) ltac:(lia) Hn Hj2
                  (Z.mod_pos_bound _ p ltac:(lia)) (Z.mod_pos_bound _ q ltac:(lia))) as R.
    cbv zeta in R. destruct R as (R1 & R2 & R3).
    apply crt_unique with p q; try lia; try assumption.
    - eapply cong_trans; [exact R2|exact Rp].
    - eapply cong_trans; [exact R3|exact Rq].
  Qed.
End Key.
