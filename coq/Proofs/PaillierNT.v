(** Number theory for the Paillier model, directly over [Z] (Znumtheory), plus the specifications of the
    executable helpers of Model/Paillier.v: [powmod], [pow_bounded_exp], [modinv]. *)
From Coq Require Import ZArith Znumtheory Zpow_facts Lia.
From SL Require Import Lib.Base Model.Paillier Proofs.PaillierFermat.
Local Open Scope Z_scope.

(** * Congruences *)
Definition cong (n a b : Z) : Prop := a mod n = b mod n.

Lemma cong_refl n a : cong n a a. Proof. reflexivity. Qed.
Lemma cong_sym n a b : cong n a b -> cong n b a. Proof. unfold cong; congruence. Qed.
Lemma cong_trans n a b c : cong n a b -> cong n b c -> cong n a c. Proof. unfold cong; congruence. Qed.

Lemma cong_div n a b : 0 < n -> cong n a b <-> (n | a - b).
Proof.
  intros Hn; unfold cong; split; intros H.
  - apply Z.mod_divide; [lia|]. rewrite Zminus_mod, H, Z.sub_diag. apply Z.mod_0_l; lia.
  - apply Z.mod_divide in H; [|lia].
    rewrite <- (Z.sub_add b a) at 1. rewrite Z.add_mod, H by lia. rewrite Z.add_0_l. apply Z.mod_mod; lia.
Qed.

Lemma cong_mod n a : 0 < n -> cong n (a mod n) a.
Proof. intros; unfold cong; apply Z.mod_mod; lia. Qed.

Lemma cong_add n a b c d : 0 < n -> cong n a b -> cong n c d -> cong n (a + c) (b + d).
Proof. unfold cong; intros Hn H1 H2. rewrite (Z.add_mod a), (Z.add_mod b), H1, H2 by lia. reflexivity. Qed.

Lemma cong_sub n a b c d : 0 < n -> cong n a b -> cong n c d -> cong n (a - c) (b - d).
Proof. unfold cong; intros Hn H1 H2. rewrite (Zminus_mod a), (Zminus_mod b), H1, H2. reflexivity. Qed.

Lemma cong_mul n a b c d : 0 < n -> cong n a b -> cong n c d -> cong n (a * c) (b * d).
Proof. unfold cong; intros Hn H1 H2. rewrite (Z.mul_mod a), (Z.mul_mod b), H1, H2 by lia. reflexivity. Qed.

Lemma cong_pow n a b k : 0 < n -> cong n a b -> cong n (a ^ k) (b ^ k).
Proof. unfold cong; intros Hn H. rewrite (Zpower_mod a), (Zpower_mod b), H by lia. reflexivity. Qed.

Lemma cong_small n a b : 0 <= a < n -> 0 <= b < n -> cong n a b -> a = b.
Proof. unfold cong; intros Ha Hb H. rewrite !Z.mod_small in H by lia. exact H. Qed.

Lemma cong_dvd d n a b : 0 < d -> 0 < n -> (d | n) -> cong n a b -> cong d a b.
Proof.
  intros Hd Hn Hdn H. apply cong_div in H; [|lia]. apply cong_div; [lia|].
  eapply Z.divide_trans; eauto.
Qed.

Lemma cong_cancel n c a b : 0 < n -> rel_prime c n -> cong n (c * a) (c * b) -> cong n a b.
Proof.
  intros Hn Hc H. apply cong_div in H; [|lia]. apply cong_div; [lia|].
  apply Gauss with c; [|apply rel_prime_sym; exact Hc].
  replace (c * (a - b)) with (c * a - c * b) by ring. exact H.
Qed.

Lemma divide_coprime_mul p q x : rel_prime p q -> (p | x) -> (q | x) -> (p * q | x).
Proof.
  intros Hpq [k ->] Hq.
  assert (Hk : (q | k)). { apply Gauss with p; [rewrite Z.mul_comm; exact Hq|apply rel_prime_sym; exact Hpq]. }
  destruct Hk as [j ->]. exists j. ring.
Qed.

Lemma cong_crt p q a b : 0 < p -> 0 < q -> rel_prime p q -> cong p a b -> cong q a b -> cong (p * q) a b.
Proof.
  intros Hp Hq Hpq H1 H2. apply cong_div in H1; [|lia]. apply cong_div in H2; [|lia].
  apply cong_div; [nia|]. apply divide_coprime_mul; assumption.
Qed.

(** * Specification of the executable helpers *)
Lemma powmod_pos_spec b e m : 0 < m -> 0 <= b < m -> powmod_pos b e m = (b ^ Zpos e) mod m.
Proof.
  intros Hm Hb. induction e as [e IH|e IH|]; cbn [powmod_pos].
  - rewrite IH. change (Zpos e~1) with (2 * Zpos e + 1).
    rewrite Z.pow_add_r, Z.pow_1_r by lia.
    replace (2 * Zpos e) with (Zpos e + Zpos e) by lia. rewrite Z.pow_add_r by lia.
    rewrite <- Z.mul_mod by lia. rewrite Z.mul_mod_idemp_l by lia. reflexivity.
  - rewrite IH. change (Zpos e~0) with (2 * Zpos e).
    replace (2 * Zpos e) with (Zpos e + Zpos e) by lia. rewrite Z.pow_add_r by lia.
    rewrite <- Z.mul_mod by lia. reflexivity.
  - rewrite Z.pow_1_r, Z.mod_small by lia. reflexivity.
Qed.

Lemma powmod_spec b e m : 0 < m -> 0 <= e -> powmod b e m = (b ^ e) mod m.
Proof.
  intros Hm He. unfold powmod. destruct e as [|e|e]; [reflexivity| |lia].
  rewrite powmod_pos_spec by (try apply Z.mod_pos_bound; lia).
  symmetry; apply Zpower_mod; lia.
Qed.

Lemma pow_bounded_exp_spec b e ebits m :
  0 < m -> 0 <= ebits -> 0 <= e < 2 ^ ebits -> pow_bounded_exp b e ebits m = (b ^ e) mod m.
Proof.
  intros Hm Hb He. unfold pow_bounded_exp. rewrite Z.mod_small by lia. apply powmod_spec; lia.
Qed.

Lemma bits_spec x : 0 <= x -> 0 <= bits x /\ x < 2 ^ bits x.
Proof.
  intros Hx. unfold bits. destruct (Z.leb_spec x 0).
  - cbn. lia.
  - pose proof (Z.log2_spec x H) as L. pose proof (Z.log2_nonneg x). rewrite <- Z.add_1_r in L. lia.
Qed.

(** extended Euclid *)
Lemma egcd_step_bound r0 r1 : 0 < r1 <= r0 -> 2 * (r1 * (r0 mod r1)) <= r0 * r1.
Proof.
  intros H. pose proof (Z.mod_pos_bound r0 r1 ltac:(lia)) as Hm.
  pose proof (Z.div_mod r0 r1 ltac:(lia)) as Hd.
  assert (1 <= r0 / r1) by (apply Z.div_le_lower_bound; lia).
  nia.
Qed.

Lemma egcd_loop_spec a m fuel : forall r0 r1 t0 t1,
  0 <= r1 <= r0 -> r0 * r1 < 2 ^ Z.of_nat fuel ->
  (m | t0 * a - r0) -> (m | t1 * a - r1) ->
  let '(g, t) := egcd_loop fuel r0 r1 t0 t1 in g = Z.gcd r0 r1 /\ (m | t * a - g).
Proof.
  induction fuel as [|k IH]; intros r0 r1 t0 t1 Hr Hf H0 H1.
  - cbn in *. assert (r1 = 0) by nia. subst r1. rewrite Z.gcd_0_r, Z.abs_eq by lia. auto.
  - cbn [egcd_loop]. destruct (Z.eqb_spec r1 0) as [->|Hnz].
    + rewrite Z.gcd_0_r, Z.abs_eq by lia. auto.
    + assert (Hmod : r0 - r0 / r1 * r1 = r0 mod r1) by (rewrite Z.mod_eq by lia; ring).
      rewrite Hmod.
      pose proof (Z.mod_pos_bound r0 r1 ltac:(lia)) as Hb.
      specialize (IH r1 (r0 mod r1) t1 (t0 - r0 / r1 * t1)).
      destruct (egcd_loop k r1 (r0 mod r1) t1 (t0 - r0 / r1 * t1)) as [g t].
      rewrite (Z.gcd_comm r0 r1), <- (Z.gcd_mod r0 r1 Hnz), (Z.gcd_comm (r0 mod r1)).
      apply IH; [lia| |exact H1|].
      * pose proof (egcd_step_bound r0 r1 ltac:(lia)).
        rewrite Nat2Z.inj_succ, Z.pow_succ_r in Hf by lia. lia.
      * rewrite <- Hmod.
        replace ((t0 - r0 / r1 * t1) * a - (r0 - r0 / r1 * r1))
          with ((t0 * a - r0) - (r0 / r1) * (t1 * a - r1)) by ring.
        apply Z.divide_sub_r; [exact H0|apply Z.divide_mul_r; exact H1].
Qed.

Lemma egcd_fuel_enough m : 1 < m -> m * m < 2 ^ Z.of_nat (egcd_fuel m).
Proof.
  intros Hm. unfold egcd_fuel. pose proof (Z.log2_spec m ltac:(lia)) as L. pose proof (Z.log2_nonneg m).
  rewrite Nat2Z.inj_succ, Z2Nat.id by lia.
  rewrite <- Z.add_1_r in L.
  assert (m * m < 2 ^ (Z.log2 m + 1) * 2 ^ (Z.log2 m + 1)) by nia.
  rewrite <- Z.pow_add_r in H0 by lia.
  replace (2 * (Z.log2 m + 1)) with (Z.log2 m + 1 + (Z.log2 m + 1)) by lia.
  rewrite Z.pow_succ_r by lia. lia.
Qed.

(** On coprime arguments [modinv] is THE inverse in [0, m). *)
Theorem modinv_spec a m : 1 < m -> Z.gcd a m = 1 ->
  0 <= modinv a m < m /\ (modinv a m * a) mod m = 1.
Proof.
  intros Hm Hg. unfold modinv.
  pose proof (Z.mod_pos_bound a m ltac:(lia)) as Hb.
  pose proof (egcd_loop_spec a m (egcd_fuel m) m (a mod m) 0 1 ltac:(lia)) as S.
  destruct (egcd_loop (egcd_fuel m) m (a mod m) 0 1) as [g t]. cbn [snd].
  destruct S as [Sg St].
  - pose proof (egcd_fuel_enough m Hm). nia.
  - exists (-1). ring.
  - rewrite Z.mul_1_l. apply Zmod_divide_minus; [lia|reflexivity].
  - split; [apply Z.mod_pos_bound; lia|].
    rewrite Z.gcd_comm, Z.gcd_mod, Z.gcd_comm in Sg by lia. rewrite Hg in Sg. subst g.
    rewrite Z.mul_mod_idemp_l by lia. apply Zdivide_mod_minus; [lia|exact St].
Qed.

Lemma modinv_cong a m : 1 < m -> Z.gcd a m = 1 -> cong m (modinv a m * a) 1.
Proof. intros Hm Hg. unfold cong. rewrite (proj2 (modinv_spec a m Hm Hg)), Z.mod_small; lia. Qed.

(** * Fermat, Euler for a product of two primes, lifting to squares *)
Lemma fermat a p : prime p -> 0 <= a -> ~ (p | a) -> (a ^ (p - 1)) mod p = 1.
Proof.
  intros Hp Ha Hnd. pose proof (prime_ge_2 p Hp).
  pose proof (fermat_pow_p p a Hp Ha) as F.
  apply Zdivide_mod_minus; [lia|].
  apply Gauss with a; [|apply prime_rel_prime; assumption].
  replace (a * (a ^ (p - 1) - 1)) with (a ^ p - a).
  - apply cong_div; [lia|exact F].
  - replace p with (Z.succ (p - 1)) at 1 by lia. rewrite Z.pow_succ_r by lia. ring.
Qed.

Lemma not_divide_of_rel_prime p a : 1 < p -> rel_prime a p -> ~ (p | a).
Proof.
  intros Hp Hr Hd. apply Zgcd_1_rel_prime in Hr.
  assert (p | 1). { rewrite <- Hr. apply Z.gcd_greatest; [exact Hd|apply Z.divide_refl]. }
  apply Z.divide_1_r_nonneg in H; lia.
Qed.

Lemma pow_cong_1 n a e k : 0 < n -> 0 <= e -> 0 <= k -> cong n (a ^ e) 1 -> cong n (a ^ (e * k)) 1.
Proof.
  intros Hn He Hk H. rewrite Z.pow_mul_r by lia.
  apply cong_trans with (1 ^ k); [apply cong_pow; assumption|]. rewrite Z.pow_1_l by lia. apply cong_refl.
Qed.

Lemma euler_pq p q r : prime p -> prime q -> p <> q -> 0 <= r -> rel_prime r (p * q) ->
  cong (p * q) (r ^ ((p - 1) * (q - 1))) 1.
Proof.
  intros Hp Hq Hne Hr Hrel. pose proof (prime_ge_2 p Hp). pose proof (prime_ge_2 q Hq).
  assert (Hrp : rel_prime r p). { apply rel_prime_sym. eapply rel_prime_div; [apply rel_prime_sym; exact Hrel|]. exists q; ring. }
  assert (Hrq : rel_prime r q). { apply rel_prime_sym. eapply rel_prime_div; [apply rel_prime_sym; exact Hrel|]. exists p; ring. }
  apply cong_crt; [lia|lia|apply prime_rel_prime; [exact Hp|]| |].
  - intros Hd. apply prime_divisors in Hd; [|exact Hq]. lia.
  - apply pow_cong_1; [lia|lia|lia|]. unfold cong. rewrite fermat by (first [assumption | apply not_divide_of_rel_prime; [lia|assumption]]). rewrite Z.mod_small by lia. reflexivity.
  - rewrite Z.mul_comm. apply pow_cong_1; [lia|lia|lia|]. unfold cong. rewrite fermat by (first [assumption | apply not_divide_of_rel_prime; [lia|assumption]]). rewrite Z.mod_small by lia. reflexivity.
Qed.

(** (1 + aN)^k = 1 + k a N  (mod N^2) *)
Lemma one_plus_pow N a k : 0 < N -> 0 <= k -> cong (N * N) ((1 + a * N) ^ k) (1 + k * a * N).
Proof.
  intros HN Hk. revert k Hk. apply natlike_ind.
  - cbn. apply cong_refl.
  - intros k Hk IH. rewrite Z.pow_succ_r by lia.
    eapply cong_trans; [apply cong_mul; [nia|apply cong_refl|exact IH]|].
    apply cong_div; [nia|]. exists (k * a * a). ring.
Qed.

(** x = 1 (mod N)  ->  x^N = 1 (mod N^2) *)
Lemma pow_N_lift N x : 0 < N -> cong N x 1 -> cong (N * N) (x ^ N) 1.
Proof.
  intros HN H. apply cong_div in H; [|lia]. destruct H as [t Ht].
  replace x with (1 + t * N) by lia.
  eapply cong_trans; [apply one_plus_pow; lia|].
  apply cong_div; [nia|]. exists t. ring.
Qed.

Lemma euler_nn p q r : prime p -> prime q -> p <> q -> 0 <= r -> rel_prime r (p * q) ->
  cong ((p * q) * (p * q)) (r ^ ((p * q) * ((p - 1) * (q - 1)))) 1.
Proof.
  intros Hp Hq Hne Hr Hrel. pose proof (prime_ge_2 p Hp). pose proof (prime_ge_2 q Hq).
  rewrite (Z.mul_comm (p * q) ((p - 1) * (q - 1))), Z.pow_mul_r by nia.
  apply pow_N_lift; [nia|]. apply euler_pq; assumption.
Qed.

(** 0 <= k < N: (1 + k N) mod N^2 and the L function *)
Lemma L_of_one_plus N k : 1 < N -> ((1 + k * N) mod (N * N) - 1) / N = k mod N.
Proof.
  intros HN.
  assert (E : (1 + k * N) mod (N * N) = 1 + (k mod N) * N).
  { symmetry. apply Z.mod_unique with (k / N).
    - left. pose proof (Z.mod_pos_bound k N ltac:(lia)). nia.
    - pose proof (Z.div_mod k N ltac:(lia)). nia. }
  rewrite E. replace (1 + k mod N * N - 1) with (k mod N * N) by ring. apply Z.div_mul; lia.
Qed.
