(** Width reasoning for the Paillier model: under [widths_ok] and [key_ok] no [wrap] of key construction
    loses anything, the fields of [from_pq] have their mathematical values, and the public-key operations
    have their closed forms.  Also: plaintext admission, minimal-form round trip, Deserialize validation. *)
From Coq Require Import ZArith Znumtheory Zpow_facts Lia List.
From SL Require Import Lib.Base Model.Paillier Proofs.PaillierNT.
Import ListNotations.
Local Open Scope Z_scope.

Opaque modinv powmod Z.pow.

Lemma wrap_small w x : 0 <= x < 2 ^ w -> wrap w x = x.
Proof. intros; unfold wrap; apply Z.mod_small; assumption. Qed.

Lemma pow2_pos w : 0 <= w -> 0 < 2 ^ w.
Proof. intros; apply Z.pow_pos_nonneg; lia. Qed.

Lemma pow2_double w : 0 <= w -> 2 ^ (2 * w) = 2 ^ w * 2 ^ w.
Proof. intros. replace (2 * w) with (w + w) by lia. apply Z.pow_add_r; lia. Qed.

(** * Public key: closed forms (need only 0 < n and n^2 < 2^wC) *)
Section PublicKey.
  Variable w : widths.
  Variable n : Z.
  Hypothesis Hn : 0 < n.
  Hypothesis HwC : 0 <= wC w.
  Hypothesis HwM : 0 <= wM w.
  Hypothesis Hnn : n * n < 2 ^ wC w.

  Let pk := from_n w n.

  Lemma from_n_fields : pk_n pk = n /\ pk_nn pk = n * n.
  Proof. subst pk; unfold from_n; cbn [pk_n pk_nn]. rewrite wrap_small by nia. auto. Qed.

  Lemma encrypt_closed m r : 0 <= m < n ->
    encrypt w pk m r = ((1 + m * n) * r ^ n) mod (n * n).
  Proof.
    intros Hm. destruct from_n_fields as [E1 E2]. unfold encrypt. rewrite E1, E2.
    destruct (bits_spec n ltac:(lia)) as [Hb1 Hb2].
    rewrite pow_bounded_exp_spec by nia.
    unfold wadd, crem. rewrite (wrap_small (wC w) (m * n)) by nia.
    rewrite wrap_small by nia.
    rewrite <- Z.mul_mod by nia. f_equal. ring.
  Qed.

  Lemma add_closed c1 c2 : add w pk c1 c2 = (c1 * c2) mod (n * n).
  Proof.
    destruct from_n_fields as [E1 E2]. unfold add, crem. rewrite E2. symmetry; apply Z.mul_mod; nia.
  Qed.

  Lemma mul_closed c k : 0 <= k < 2 ^ wM w -> mul w pk c k = (c ^ k) mod (n * n).
  Proof.
    intros Hk. destruct from_n_fields as [E1 E2]. unfold mul. rewrite E2.
    apply pow_bounded_exp_spec; [nia|lia|lia].
  Qed.

  Lemma mul_vartime_closed c k : 0 <= k < 2 ^ wM w -> mul_vartime w pk c k = (c ^ k) mod (n * n).
  Proof.
    intros Hk. destruct from_n_fields as [E1 E2]. unfold mul_vartime. rewrite E2.
    rewrite wrap_small by lia. destruct (bits_spec k ltac:(lia)).
    apply pow_bounded_exp_spec; [nia|lia|lia].
  Qed.

  Lemma mul_vartime_eq_mul_n c k : 0 <= k < 2 ^ wM w -> mul_vartime w pk c k = mul w pk c k.
  Proof. intros; rewrite mul_vartime_closed, mul_closed by assumption; reflexivity. Qed.
End PublicKey.

(** * Plaintext admission *)
Lemma le_value_cons x l : le_value (x :: l) = Z.of_N x + 256 * le_value l.
Proof. unfold le_value. cbn [of_le]. rewrite N2Z.inj_add, N2Z.inj_mul. reflexivity. Qed.

Lemma le_value_nonneg l : 0 <= le_value l.
Proof. unfold le_value. apply N2Z.is_nonneg. Qed.

Lemma le_value_app a b : le_value (a ++ b) = le_value a + 256 ^ Z.of_nat (length a) * le_value b.
Proof.
  induction a as [|x a IH].
  - cbn [app length]. change (Z.of_nat 0) with 0. rewrite Z.pow_0_r. unfold le_value at 2. cbn [of_le]. lia.
  - cbn [app length]. rewrite !le_value_cons, IH, Nat2Z.inj_succ, Z.pow_succ_r by lia. ring.
Qed.

Lemma le_value_zero l : existsb nonzero_byte l = false -> le_value l = 0.
Proof.
  induction l as [|x l IH]; [reflexivity|]. cbn [existsb]. intros H. apply Bool.orb_false_iff in H. destruct H as [Hx Hl].
  rewrite le_value_cons, IH by assumption. unfold nonzero_byte in Hx. apply Bool.negb_false_iff, N.eqb_eq in Hx. subst; reflexivity.
Qed.

Lemma le_value_nonzero l : existsb nonzero_byte l = true -> 1 <= le_value l.
Proof.
  induction l as [|x l IH]; cbn [existsb]; intros H; [discriminate|]. rewrite le_value_cons.
  pose proof (le_value_nonneg l). pose proof (N2Z.is_nonneg x).
  apply Bool.orb_true_iff in H. destruct H as [Hx|Hl].
  - unfold nonzero_byte in Hx. apply Bool.negb_true_iff, N.eqb_neq in Hx. lia.
  - specialize (IH Hl). lia.
Qed.

Lemma into_message_iff pk v m : into_message pk v = Some m <-> v < pk_n pk /\ m = v.
Proof.
  unfold into_message. destruct (Z.ltb_spec v (pk_n pk)); split.
  - intros E; injection E as E; split; [assumption|congruence].
  - intros [_ E]; congruence.
  - discriminate.
  - intros [? _]; lia.
Qed.

(** A byte string of ANY length is admitted iff its little-endian value is below N. *)
Lemma message_admits_iff_n w n bytes m :
  0 <= wM w -> wM w mod 8 = 0 -> 0 < n <= 2 ^ wM w ->
  message w (from_n w n) bytes = Some m <-> le_value bytes < n /\ m = le_value bytes.
Proof.
  intros HwM H8 Hn. unfold message.
  set (size := Nat.min (Z.to_nat (wM w / 8)) (length bytes)).
  assert (Esplit : le_value bytes = le_value (firstn size bytes) + 256 ^ Z.of_nat size * le_value (skipn size bytes)).
  { rewrite <- (firstn_skipn size bytes) at 1. rewrite le_value_app, firstn_length.
    replace (Nat.min size (length bytes)) with size by (subst size; lia). reflexivity. }
  destruct (existsb nonzero_byte (skipn size bytes)) eqn:Ex.
  - split; [discriminate|]. intros [Hlt _]. exfalso.
    pose proof (le_value_nonzero _ Ex) as H1.
    assert (Hlen : (size < length bytes)%nat).
    { destruct (Nat.lt_ge_cases size (length bytes)) as [|Hge]; [assumption|].
      rewrite skipn_all2 in Ex by assumption. discriminate. }
    assert (Hsize : Z.of_nat size = wM w / 8).
    { subst size. pose proof (Z.div_pos (wM w) 8 HwM ltac:(lia)). lia. }
    assert (E256 : 256 ^ Z.of_nat size = 2 ^ wM w).
    { rewrite Hsize. change 256 with (2 ^ 8). rewrite <- Z.pow_mul_r by (try apply Z.div_pos; lia).
      f_equal. pose proof (Z.div_mod (wM w) 8 ltac:(lia)). lia. }
    pose proof (le_value_nonneg (firstn size bytes)).
    pose proof (pow2_pos (wM w) HwM). nia.
  - rewrite (le_value_zero _ Ex), Z.mul_0_r, Z.add_0_r in Esplit. rewrite Esplit.
    unfold from_n. rewrite into_message_iff. cbn [pk_n]. reflexivity.
Qed.

(** * Deserialize validation *)
Lemma deser_pk_class_spec w n : deser_pk_class w n = outcome_class (deser_pk w n).
Proof.
  unfold deser_pk_class, deser_pk, from_n_outcome. destruct (n =? 0); [reflexivity|].
  destruct (Z.odd n); [|reflexivity]. destruct (from_n_panics w n); reflexivity.
Qed.

Lemma deser_sk_class_spec w p q : deser_sk_class w p q = outcome_class (deser_sk w p q).
Proof.
  unfold deser_sk_class, deser_sk, from_pq_outcome. destruct (Z.odd p && Z.odd q); [|reflexivity].
  destruct (from_pq_panics w p q); reflexivity.
Qed.

Lemma odd_even_false x : Z.odd x = true -> Z.even x = false.
Proof. intros H. rewrite <- Z.negb_odd, H. reflexivity. Qed.

(** The repaired Deserialize impls never reach the panic of [DynResidueParams::new]. *)
Lemma deser_sk_no_panic w p q : widths_ok w -> 0 <= p < 2 ^ wP w -> 0 <= q < 2 ^ wP w ->
  is_panic (deser_sk w p q) = false.
Proof.
  intros (HP & H8 & HM & HC) Hp Hq. unfold deser_sk.
  destruct (Z.odd p) eqn:Op; [|reflexivity]. destruct (Z.odd q) eqn:Oq; [|reflexivity]. cbn [andb].
  assert (Hpow : 2 ^ wM w = 2 ^ wP w * 2 ^ wP w) by (rewrite HM; apply pow2_double; lia).
  assert (HpowC : 2 ^ wC w = 2 ^ wM w * 2 ^ wM w) by (rewrite HC; apply pow2_double; lia).
  unfold from_pq_outcome, from_pq_panics.
  rewrite (wrap_small (wM w) (q * p)), (wrap_small (wM w) (p * p)), (wrap_small (wM w) (q * q)) by nia.
  assert (Hn : 0 <= q * p < 2 ^ wM w) by nia.
  rewrite (wrap_small (wC w)) by (revert Hn; generalize (q * p); intros; nia).
  rewrite !odd_even_false by (rewrite !Z.odd_mul, ?Op, ?Oq; reflexivity). reflexivity.
Qed.

Lemma deser_pk_no_panic w n : widths_ok w -> 0 <= n < 2 ^ wM w -> is_panic (deser_pk w n) = false.
Proof.
  intros (HP & H8 & HM & HC) Hn. unfold deser_pk. destruct (n =? 0); [reflexivity|].
  destruct (Z.odd n) eqn:On; [|reflexivity].
  assert (HpowC : 2 ^ wC w = 2 ^ wM w * 2 ^ wM w) by (rewrite HC; apply pow2_double; lia).
  unfold from_n_outcome, from_n_panics. rewrite wrap_small by nia.
  rewrite odd_even_false by (rewrite Z.odd_mul, On; reflexivity). reflexivity.
Qed.

(** * Secret key: the fields of [from_pq] *)
Section Key.
  Variable w : widths.
  Variables p q : Z.
  Hypothesis Hw : widths_ok w.
  Hypothesis Hk : key_ok w p q.

  Let n := p * q.
  Let phi := (p - 1) * (q - 1).
  Let sk := from_pq w p q.

  Lemma key_basic :
    prime p /\ prime q /\ p <> q /\ 3 <= p /\ 3 <= q /\
    p < 2 ^ wP w /\ q < 2 ^ wP w /\ n < 2 ^ wM w /\ p * p < 2 ^ wM w /\ q * q < 2 ^ wM w /\
    n * n < 2 ^ wC w /\ 0 < wP w /\ 0 < wM w /\ 0 < wC w /\ 0 < phi < n /\
    rel_prime p q /\ Z.gcd phi n = 1 /\ Z.gcd n phi = 1.
  Proof.
    destruct Hw as (HP & H8 & HM & HC). destruct Hk as (Pp & Pq & Hne & Op & Oq & Hg & Hp & Hq & Hn).
    pose proof (prime_ge_2 p Pp). pose proof (prime_ge_2 q Pq).
    assert (p <> 2) by (intros ->; discriminate). assert (q <> 2) by (intros ->; discriminate).
    assert (Hpow : 2 ^ wM w = 2 ^ wP w * 2 ^ wP w) by (rewrite HM; apply pow2_double; lia).
    assert (HpowC : 2 ^ wC w = 2 ^ wM w * 2 ^ wM w) by (rewrite HC; apply pow2_double; lia).
    assert (Hrel : rel_prime p q).
    { apply prime_rel_prime; [assumption|]. intros Hd. apply prime_divisors in Hd; [|assumption]. lia. }
    assert (Hn2 : 0 < p * q < 2 ^ wM w) by nia.
    subst n phi.
    split; [assumption|]. split; [assumption|]. split; [assumption|].
    split; [lia|]. split; [lia|]. split; [assumption|]. split; [assumption|]. split; [assumption|].
    split; [nia|]. split; [nia|].
    split; [revert Hn2; generalize (p * q); intros; nia|].
    split; [lia|]. split; [lia|]. split; [lia|]. split; [nia|].
    split; [assumption|]. split; [rewrite Z.gcd_comm; assumption|assumption].
  Qed.

  Lemma sk_fields :
    sk_pk sk = PKey n (n * n) /\ sk_phi sk = phi /\ sk_p sk = p /\ sk_q sk = q /\
    sk_pp sk = p * p /\ sk_qq sk = q * q /\
    sk_inv_phi sk = modinv phi n /\ sk_pinv_q sk = modinv p q.
  Proof.
    destruct key_basic as (Pp & Pq & Hne & Hp3 & Hq3 & Hp & Hq & Hn & Hpp & Hqq & Hnn & HP & HM & HC & Hphi & _).
    subst sk. unfold from_pq, from_n. cbn [sk_pk sk_phi sk_p sk_q sk_pp sk_qq sk_inv_phi sk_pinv_q].
    assert (En : wrap (wM w) (q * p) = n) by (rewrite wrap_small; subst n; nia).
    rewrite En. unfold wsub. rewrite (wrap_small (wP w) (q - 1)), (wrap_small (wP w) (p - 1)) by lia.
    assert (Ephi : wrap (wM w) ((q - 1) * (p - 1)) = phi) by (rewrite wrap_small; subst phi n; nia).
    rewrite Ephi. rewrite (wrap_small (wC w) (n * n)), (wrap_small (wM w) (p * p)), (wrap_small (wM w) (q * q)) by nia.
    repeat split; reflexivity.
  Qed.

  Lemma inv_phi_spec : 0 <= modinv phi n < n /\ cong n (modinv phi n * phi) 1.
  Proof.
    destruct key_basic as (Pp & Pq & Hne & Hp3 & Hq3 & Hp & Hq & Hn & Hpp & Hqq & Hnn & HP & HM & HC & Hphi & Hrel & Hg1 & Hg2).
    assert (1 < n) by (subst n; nia).
    split; [apply modinv_spec; assumption|apply modinv_cong; assumption].
  Qed.

  Lemma pinv_q_spec : 0 <= modinv p q < q /\ cong q (modinv p q * p) 1.
  Proof.
    destruct key_basic as (Pp & Pq & Hne & Hp3 & Hq3 & Hp & Hq & Hn & Hpp & Hqq & Hnn & HP & HM & HC & Hphi & Hrel & Hg1 & Hg2).
    apply Zgcd_1_rel_prime in Hrel.
    split; [apply modinv_spec; [lia|assumption]|apply modinv_cong; [lia|assumption]].
  Qed.
End Key.

(** [h]: for distinct odd primes a, b (a*a < 2^wM, a < 2^wP), [h w a (a*a) (a*b)] is the inverse of -b modulo a *)
Lemma h_spec w a b : widths_ok w -> prime a -> prime b -> a <> b -> 3 <= a -> a < 2 ^ wP w -> a * a < 2 ^ wM w ->
  0 <= h w a (a * a) (a * b) < a /\ cong a (h w a (a * a) (a * b) * (- b)) 1.
Proof.
  intros (HP & H8 & HM & HC) Pa Pb Hne Ha3 Ha Haa.
  pose proof (prime_ge_2 b Pb) as Hb2.
  assert (Hnd : ~ (a | b)). { intros Hd. apply prime_divisors in Hd; [|assumption]. lia. }
  pose proof (Z.mod_pos_bound b a ltac:(lia)) as Hbm.
  assert (Hbm0 : b mod a <> 0). { intros E. apply Hnd. apply Z.mod_divide; [lia|assumption]. }
  assert (Enm : (a * b) mod (a * a) = a * (b mod a)) by (apply Z.mul_mod_distr_l; lia).
  set (l := a - b mod a).
  assert (Hl : 0 < l < a) by (subst l; lia).
  assert (Hgl : Z.gcd l a = 1).
  { apply Zgcd_1_rel_prime. apply rel_prime_sym, prime_rel_prime; [assumption|].
    intros Hd. apply Z.divide_pos_le in Hd; lia. }
  assert (Eh : h w a (a * a) (a * b) = modinv l a).
  { unfold h, crem, sub_mod, wsub, wdiv. rewrite Enm.
    assert (Hlt : (1 <? a * (b mod a)) = true) by (apply Z.ltb_lt; nia). rewrite Hlt.
    rewrite (wrap_small (wM w) (1 - a * (b mod a) + a * a)) by nia.
    replace (1 - a * (b mod a) + a * a - 1) with (l * a) by (subst l; ring).
    rewrite (wrap_small (wM w) (l * a)) by nia. rewrite Z.div_mul by lia.
    apply wrap_small. pose proof (modinv_spec l a ltac:(lia) Hgl). lia. }
  rewrite Eh. destruct (modinv_spec l a ltac:(lia) Hgl) as [Hr Hi]. split; [exact Hr|].
  apply cong_trans with (modinv l a * l); [|apply modinv_cong; [lia|assumption]].
  apply cong_mul; [lia|apply cong_refl|].
  apply cong_div; [lia|]. exists (- (b / a) - 1). subst l. pose proof (Z.div_mod b a ltac:(lia)). lia.
Qed.

Lemma hp_spec w p q : widths_ok w -> key_ok w p q ->
  sk_hp (from_pq w p q) = h w p (p * p) (p * q) /\
  0 <= sk_hp (from_pq w p q) < p /\ cong p (sk_hp (from_pq w p q) * (- q)) 1.
Proof.
  intros Hw Hk.
  destruct (key_basic w p q Hw Hk) as (Pp & Pq & Hne & Hp3 & Hq3 & Hp & Hq & Hn & Hpp & Hqq & Hnn & HP & HM & HC & Hphi & _).
  assert (E : sk_hp (from_pq w p q) = h w p (p * p) (p * q)).
  { unfold from_pq. cbn [sk_hp]. rewrite (wrap_small (wM w) (p * p)), (wrap_small (wM w) (q * p)) by nia.
    f_equal; ring. }
  rewrite E. split; [reflexivity|]. apply h_spec; assumption.
Qed.

Lemma hq_spec w p q : widths_ok w -> key_ok w p q ->
  sk_hq (from_pq w p q) = h w q (q * q) (q * p) /\
  0 <= sk_hq (from_pq w p q) < q /\ cong q (sk_hq (from_pq w p q) * (- p)) 1.
Proof.
  intros Hw Hk.
  destruct (key_basic w p q Hw Hk) as (Pp & Pq & Hne & Hp3 & Hq3 & Hp & Hq & Hn & Hpp & Hqq & Hnn & HP & HM & HC & Hphi & _).
  assert (E : sk_hq (from_pq w p q) = h w q (q * q) (q * p)).
  { unfold from_pq. cbn [sk_hq]. rewrite (wrap_small (wM w) (q * q)), (wrap_small (wM w) (q * p)) by nia.
    reflexivity. }
  rewrite E. split; [reflexivity|]. apply h_spec; try assumption. congruence.
Qed.

(** * Minimal forms *)
Lemma minimal_roundtrip_pq w p q : from_minimal w (to_minimal (from_pq w p q)) = from_pq w p q.
Proof. reflexivity. Qed.

Lemma pk_roundtrip_n w n : pk_from_minimal w (pk_to_minimal (from_n w n)) = from_n w n.
Proof. reflexivity. Qed.

Lemma sk_pk_is_from_n w p q : widths_ok w -> key_ok w p q -> sk_pk (from_pq w p q) = from_n w (p * q).
Proof.
  intros Hw Hk.
  destruct (key_basic w p q Hw Hk) as (Pp & Pq & Hne & Hp3 & Hq3 & Hp & Hq & Hn & Hpp & Hqq & Hnn & HP & HM & HC & Hphi & _).
  unfold from_pq. cbn [sk_pk]. rewrite (wrap_small (wM w) (q * p)) by nia. f_equal. ring.
Qed.

Lemma deser_sk_valid w p q : widths_ok w -> key_ok w p q -> deser_sk w p q = Val (from_pq w p q).
Proof.
  intros Hw Hk.
  destruct (key_basic w p q Hw Hk) as (Pp & Pq & Hne & Hp3 & Hq3 & Hp & Hq & Hn & Hpp & Hqq & Hnn & HP & HM & HC & Hphi & _).
  destruct Hk as (_ & _ & _ & Op & Oq & _).
  unfold deser_sk. rewrite Op, Oq. cbn [andb]. unfold from_pq_outcome, from_pq_panics.
  rewrite (wrap_small (wM w) (q * p)), (wrap_small (wM w) (p * p)), (wrap_small (wM w) (q * q)) by nia.
  rewrite (wrap_small (wC w)) by nia.
  rewrite !odd_even_false by (rewrite !Z.odd_mul, ?Op, ?Oq; reflexivity). reflexivity.
Qed.

Lemma deser_pk_valid w p q : widths_ok w -> key_ok w p q -> deser_pk w (p * q) = Val (from_n w (p * q)).
Proof.
  intros Hw Hk.
  destruct (key_basic w p q Hw Hk) as (Pp & Pq & Hne & Hp3 & Hq3 & Hp & Hq & Hn & Hpp & Hqq & Hnn & HP & HM & HC & Hphi & _).
  destruct Hk as (_ & _ & _ & Op & Oq & _).
  unfold deser_pk. destruct (Z.eqb_spec (p * q) 0); [nia|].
  rewrite Z.odd_mul, Op, Oq. cbn [andb]. unfold from_n_outcome, from_n_panics.
  rewrite wrap_small by nia. rewrite odd_even_false by (rewrite !Z.odd_mul, Op, Oq; reflexivity). reflexivity.
Qed.
