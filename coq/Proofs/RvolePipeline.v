(** C01, composition: the executable composed model (Model/Rvole.v) run on top of the SoftSpoken model
    resp. the two Endemic instances satisfies c + d = a*b, by instantiating the abstract layer
    (Proofs/RvoleCorrect.v) with the OT theorems of C03 (ss_honest_accepted, ss_chosen_equal) and C05
    (endemic_correct). *)
From SL Require Import Lib.Base Lib.Oracle Gen.Params Model.Gf128 Model.SoftSpoken Model.Endemic
  Model.RvoleCore Model.Rvole.
From SL Require Import Proofs.Gf128Spec Proofs.SoftSpokenBytes Proofs.SoftSpokenC03 Proofs.Endemic Proofs.EndemicThm.
From SL Require Import Proofs.RvoleLemmas Proofs.RvoleCorrect.
Local Open Scope Z_scope.

Lemma rv_xi_val : rv_xi = 512%nat. Proof. reflexivity. Qed.
Lemma rv_lb_val : rv_lb = 2%nat. Proof. reflexivity. Qed.
Lemma rv_rho_val : rv_rho = 1%nat. Proof. reflexivity. Qed.
Global Opaque rv_xi rv_lb rv_rho.

(* ================================================================== OT-extension variant *)
(** the conclusion of C03 in the form the abstract layer wants *)
Lemma ss_gives_ot_correlated H sid ss rs beta tape :
  seeds_ok ss rs -> rowP ssLB beta -> rowP ssSB tape ->
  forall so, ss_sender H sid rs (fst (ss_receiver H sid ss beta tape)) = Val so ->
  ot_correlated rv_xi (rv_lb + rv_rho) (rv_bit beta) (cell (se_v_0 so)) (cell (se_v_1 so))
                (cell (re_v_x (snd (ss_receiver H sid ss beta tape)))).
Proof.
  intros S R1 R2 so E j k Lj Lk. unfold cell.
  rewrite rv_xi_val in Lj. rewrite rv_lb_val, rv_rho_val in Lk.
  rewrite (ss_chosen_equal_lem H sid ss rs beta tape S R1 R2 so E j k)
    by (rewrite ?ssL_val, ?ssW_val; assumption).
  change (bitat beta j) with (rv_bit beta j). destruct (rv_bit beta j); reflexivity.
Qed.

(** [rvole_pipeline_correct]: RVOLEReceiver::new, RVOLESender::process, RVOLEReceiver::process composed
    over the SoftSpoken models, for every oracle, session id, input, tapes and every seed pair satisfying
    [seeds_ok] (proved for the synthetic generator, ss_gen_seed_ot_ok of C03; the conclusion of the
    PPRF layer C06 for the real pipeline). *)
Lemma rvole_pipeline_correct_lem : forall (H : transcript_oracle) (q : Z), 0 < q <= 2 ^ 256 ->
  forall sid ss rs beta tape (a : list Z) (eta_tape : list (list N)),
  seeds_ok ss rs -> rowP ssLB beta -> rowP ssSB tape ->
  let new := rvole_recv_new H q sid ss round1_default beta tape in
  let st := fst (fst new) in let b := snd (fst new) in let r1 := snd new in
  exists m c d,
    rvole_send_process H q sid rs a r1 eta_tape = Val (m, c) /\
    rvole_recv_process H q st m = Val d /\
    b = rvole_b H q rv_xi sid (rv_bit beta) /\
    forall i, (i < rv_lb)%nat -> (nth i c 0 + nth i d 0) mod q = (nth i a 0 * b) mod q.
Proof.
  intros H q Q sid ss rs beta tape a eta_tape S R1 R2 new st b r1.
  assert (EN : new = ((({| rr_sid := sid; rr_beta := beta; rr_ext := snd (ss_receiver H sid ss beta tape) |},
                        rvole_b H q rv_xi sid (rv_bit beta)), fst (ss_receiver H sid ss beta tape)))).
  { unfold new, rvole_recv_new, ss_receiver. destruct (ss_receiver_buf H sid ss round1_default beta tape). reflexivity. }
  assert (Er1 : r1 = fst (ss_receiver H sid ss beta tape)) by (unfold r1; rewrite EN; reflexivity).
  assert (Est : st = {| rr_sid := sid; rr_beta := beta; rr_ext := snd (ss_receiver H sid ss beta tape) |})
    by (unfold st; rewrite EN; reflexivity).
  assert (Eb : b = rvole_b H q rv_xi sid (rv_bit beta)) by (unfold b; rewrite EN; reflexivity).
  destruct (ss_honest_accepted_lem H sid ss rs beta tape S R1 R2) as [so ES].
  pose proof (ss_gives_ot_correlated H sid ss rs beta tape S R1 R2 so ES) as OT.
  destruct (rvole_correct_core H q rv_xi rv_lb rv_rho Q sid (cell (se_v_0 so)) (cell (se_v_1 so))
              (cell (re_v_x (snd (ss_receiver H sid ss beta tape)))) (rv_bit beta) a eta_tape OT)
    as [d [ED ER]].
  set (sent := rvole_send_core H q rv_xi rv_lb rv_rho sid (cell (se_v_0 so)) (cell (se_v_1 so)) a eta_tape) in *.
  exists (fst sent), (snd sent), d.
  split; [|split; [|split]].
  - unfold rvole_send_process. rewrite Er1, ES. fold sent. destruct sent; reflexivity.
  - unfold rvole_recv_process. rewrite Est. cbn [rr_sid rr_beta rr_ext]. exact ED.
  - exact Eb.
  - intros i Li. rewrite Eb. apply ER. exact Li.
Qed.

(* ================================================================== base-OT variant *)
Lemma bit_app_lo (ba bb : list N) j : length ba = 32%nat -> (j < 256)%nat ->
  rv_bit (ba ++ bb) j = bit_at ba j.
Proof.
  intros L Lj. unfold rv_bit, bit_at. rewrite app_nth1; [reflexivity|].
  rewrite L. apply Nat.div_lt_upper_bound; lia.
Qed.

Lemma bit_app_hi (ba bb : list N) j : length ba = 32%nat -> (256 <= j)%nat ->
  rv_bit (ba ++ bb) j = bit_at bb (j - 256).
Proof.
  intros L Lj. unfold rv_bit, bit_at.
  replace j with (32 * 8 + (j - 256))%nat at 1 2 by lia.
  rewrite Nat.div_add_l by lia. rewrite Nat.add_comm with (n := (32 * 8)%nat), Nat.mod_add by lia.
  rewrite app_nth2 by lia. rewrite L. f_equal. f_equal. lia.
Qed.

Lemma sender_keys_length G (O : group_ops G) H sid msg1 tbs m2 keys :
  eot_sender_process G O H sid msg1 tbs = (m2, Val keys) -> length keys = 256%nat.
Proof.
  unfold eot_sender_process. intros E. inversion E as [[E1 E2]].
  destruct (existsb snd (send_all G O H sid msg1 tbs)); [discriminate|]. inversion E2.
  rewrite map_length. unfold send_all. rewrite map_length, seq_length. apply eot_n_256.
Qed.

Lemma receiver_keys_length G (O : group_ops G) H st msg2 bits keys :
  eot_receiver_process G O H st msg2 = Val (bits, keys) -> length keys = 256%nat.
Proof.
  unfold eot_receiver_process. destruct (existsb snd (recv_all G O H st msg2)); [discriminate|].
  intros E. inversion E. rewrite map_length. unfold recv_all. rewrite map_length, seq_length. apply eot_n_256.
Qed.

Lemma half_xi : Nat.div rv_xi 2 = 256%nat.
Proof. rewrite rv_xi_val. reflexivity. Qed.

(** [rvole_ot_pipeline_correct]: the whole base-OT variant (two Endemic instances under the derived
    session ids + re-hashing + RVOLE), for every group satisfying the group laws, every oracle, session
    id, input and all tapes (choice bits are 32 bytes per OT, as the Rust type says). *)
Lemma rvole_ot_pipeline_correct_lem :
  forall G (O : group_ops G) (H : transcript_oracle) (q : Z),
  group_laws q O -> enc33_roundtrip G O -> 0 < q <= 2 ^ 256 ->
  forall sid bits_a tas_a ros_a bits_b tas_b ros_b (a : list Z) tbs_a tbs_b (eta_tape : list (list N)),
  length bits_a = 32%nat -> length bits_b = 32%nat ->
  exists st b m1a m1b m2a m2b m c d,
    rvole_ot_recv_new H q G O sid bits_a tas_a ros_a bits_b tas_b ros_b = Val ((st, b), (m1a, m1b)) /\
    rvole_ot_send_process H q G O sid a m1a m1b tbs_a tbs_b eta_tape = ((m2a, m2b), Val (m, c)) /\
    rvole_ot_recv_process H q G O st m2a m2b m = Val d /\
    b = rvole_b H q rv_xi sid (rv_bit (bits_a ++ bits_b)) /\
    forall i, (i < rv_lb)%nat -> (nth i c 0 + nth i d 0) mod q = (nth i a 0 * b) mod q.
Proof.
  intros G O H q GL RT Q sid bits_a tas_a ros_a bits_b tas_b ros_b a tbs_a tbs_b eta_tape La Lb.
  destruct (ot_sids H sid) as [sa sb] eqn:ES.
  (* the two base OTs *)
  destruct (endemic_correct_lem G O H q GL RT sa bits_a tas_a ros_a tbs_a) as [ska [rka [SA [RA KA]]]].
  destruct (endemic_correct_lem G O H q GL RT sb bits_b tas_b ros_b tbs_b) as [skb [rkb [SB [RB KB]]]].
  cbv zeta in SA, RA, SB, RB.
  destruct (eot_receiver_new G O H sa bits_a tas_a ros_a) as [st_a m1a] eqn:NA.
  destruct (eot_receiver_new G O H sb bits_b tas_b ros_b) as [st_b m1b] eqn:NB.
  cbn [fst snd] in SA, RA, SB, RB.
  assert (Sta : st_a = {| rs_bits := bits_a; rs_ta := tas_a |})
    by (change st_a with (fst (st_a, m1a)); rewrite <- NA; apply recv_new_state).
  assert (Stb : st_b = {| rs_bits := bits_b; rs_ta := tas_b |})
    by (change st_b with (fst (st_b, m1b)); rewrite <- NB; apply recv_new_state).
  destruct (eot_sender_process G O H sa m1a tbs_a) as [m2a ra] eqn:PA.
  destruct (eot_sender_process G O H sb m1b tbs_b) as [m2b rb] eqn:PB.
  cbn [fst snd] in SA, RA, SB, RB. subst ra rb.
  pose proof (sender_keys_length G O H sa m1a tbs_a m2a ska PA) as Lska.
  pose proof (sender_keys_length G O H sb m1b tbs_b m2b skb PB) as Lskb.
  pose proof (receiver_keys_length G O H st_a m2a bits_a rka RA) as Lrka.
  pose proof (receiver_keys_length G O H st_b m2b bits_b rkb RB) as Lrkb.
  set (beta := bits_a ++ bits_b).
  set (keys0 := fun j => fst (split_keys ska skb ([], []) j)).
  set (keys1 := fun j => snd (split_keys ska skb ([], []) j)).
  set (keysx := split_keys rka rkb []).
  (* the key correlation over all 512 rows *)
  assert (K : forall j, (j < rv_xi)%nat -> keysx j = if rv_bit beta j then keys1 j else keys0 j).
  { intros j Lj. rewrite rv_xi_val in Lj. unfold keysx, keys0, keys1, split_keys. rewrite half_xi.
    destruct (Nat.ltb_spec j 256) as [Lo|Hi].
    - unfold beta. rewrite (bit_app_lo bits_a bits_b j La Lo). rewrite (KA j Lo).
      destruct (bit_at bits_a j); reflexivity.
    - unfold beta. rewrite (bit_app_hi bits_a bits_b j La Hi). rewrite (KB (j - 256)%nat) by lia.
      destruct (bit_at bits_b (j - 256)); reflexivity. }
  destruct (rvole_ot_variant_correct_core H q rv_xi rv_lb rv_rho Q sid keys0 keys1 keysx (rv_bit beta) a eta_tape K)
    as [d [ED ER]].
  set (sent := rvole_ot_send_core H q rv_xi rv_lb rv_rho sid keys0 keys1 a eta_tape) in *.
  exists {| ro_sid := sid; ro_beta := beta; ro_a := st_a; ro_b := st_b |},
         (rvole_b H q rv_xi sid (rv_bit beta)), m1a, m1b, m2a, m2b, (fst sent), (snd sent), d.
  assert (T1 : (length bits_a + length bits_b =? Nat.div rv_xi 8)%nat = true)
    by (rewrite La, Lb, rv_xi_val; reflexivity).
  assert (T2 : (length ska + length skb =? rv_xi)%nat = true) by (rewrite Lska, Lskb, rv_xi_val; reflexivity).
  assert (T3 : (length rka + length rkb =? rv_xi)%nat = true) by (rewrite Lrka, Lrkb, rv_xi_val; reflexivity).
  split; [|split; [|split; [|split]]].
  - unfold rvole_ot_recv_new. rewrite ES, NA, NB. rewrite Sta, Stb. cbn [rs_bits]. rewrite T1. reflexivity.
  - unfold rvole_ot_send_process. rewrite ES, PA, PB. rewrite T2.
    fold keys0 keys1. fold sent. destruct sent; reflexivity.
  - unfold rvole_ot_recv_process. cbn [ro_a ro_b ro_sid ro_beta]. rewrite RA, RB. rewrite T3.
    fold keysx. exact ED.
  - reflexivity.
  - exact ER.
Qed.
