(** C02 on the abstract layer (Model/RvoleCore.v): what the receiver's consistency check catches.
    Security-flavoured statements have the form  accepted -> explicit oracle coincidence
    (DESIGN.md 3.3): a collision of the mu hash on two item lists proved different, or linear
    equations that the fresh theta challenges must satisfy. *)
From SL Require Import Lib.Base Lib.Oracle Gen.Params Model.RvoleCore Proofs.RvoleLemmas Proofs.RvoleCorrect.
From Coq Require Import Zdiv Setoid Morphisms.
Local Open Scope Z_scope.

Lemma eqmod_zero q x : eqmod q x 0 -> x mod q = 0.
Proof. intros E. apply eqmod_elim in E. rewrite E. apply Zmod_0_l. Qed.
Lemma eqmod_zero_intro q x : x mod q = 0 -> eqmod q x 0.
Proof. intros E. apply eqmod_intro. rewrite E. symmetry. apply Zmod_0_l. Qed.

(* ------------------------------------------------------------------ injectivity of the queries *)
Lemma map_seq_inj {A} (f g : nat -> A) n :
  map f (seq 0 n) = map g (seq 0 n) -> forall i, (i < n)%nat -> f i = g i.
Proof.
  intros E i L. rewrite <- (nth_map_seq f n i (f i) L). rewrite E. apply nth_map_seq. exact L.
Qed.

Lemma rv_app_inj_len {A} (l1 l1' l2 l2' : list A) :
  length l1 = length l1' -> l1 ++ l2 = l1' ++ l2' -> l1 = l1' /\ l2 = l2'.
Proof.
  revert l1'. induction l1 as [|x r IH]; destruct l1' as [|y r']; cbn; intros L E; try discriminate.
  - auto.
  - inversion E as [[Exy Er]]. destruct (IH r') as [-> ->]; [lia|assumption|auto].
Qed.

Lemma flat_map_seq_inj {A} (f g : nat -> list A) s n :
  (forall i, length (f i) = length (g i)) -> flat_map f (seq s n) = flat_map g (seq s n) ->
  forall i, (s <= i < s + n)%nat -> f i = g i.
Proof.
  revert s; induction n as [|n IH]; intros s Len E i L; [lia|].
  cbn [seq flat_map] in E. apply rv_app_inj_len in E; [|apply Len]. destruct E as [E1 E2].
  destruct (Nat.eq_dec i s) as [->|NE]; [exact E1|]. apply (IH (S s)); [assumption|assumption|lia].
Qed.

Lemma map_inj_list {A B} (f : A -> B) : (forall x y, f x = f y -> x = y) ->
  forall l1 l2, map f l1 = map f l2 -> l1 = l2.
Proof.
  intros I. induction l1 as [|x r IH]; destruct l2 as [|y s]; cbn; intros E; try discriminate; [reflexivity|].
  inversion E as [[E1 E2]]. f_equal; [apply I; assumption|apply IH; assumption].
Qed.

Lemma mu_query_inj sid X Y : mu_query sid X = mu_query sid Y -> X = Y.
Proof.
  unfold mu_query. cbn [app]. intros E. inversion E as [E1]. apply app_inv_tail in E1.
  apply (map_inj_list (TAppend L_rv_chosen)); [|exact E1]. intros x y E2. inversion E2. reflexivity.
Qed.

Lemma items_of_inj xi rho f g : items_of xi rho f = items_of xi rho g ->
  forall j k, (j < xi)%nat -> (k < rho)%nat -> f j k = g j k.
Proof.
  intros E j k Lj Lk. unfold items_of in E.
  apply (flat_map_seq_inj _ _ 0 xi) with (i := j) in E; [|intros; rewrite !map_length; reflexivity|lia].
  apply (map_seq_inj _ _ rho E k Lk).
Qed.

Lemma theta_pre_inj xi lb rho sid at1 at2 :
  theta_pre xi lb rho sid at1 = theta_pre xi lb rho sid at2 ->
  forall j k, (j < xi)%nat -> (k < rv_w lb rho)%nat -> at1 j k = at2 j k.
Proof.
  unfold theta_pre. cbn [app]. intros E j k Lj Lk. inversion E as [E1].
  apply (flat_map_seq_inj _ _ 0 xi) with (i := j) in E1;
    [|intros; cbn [length]; rewrite !map_length; reflexivity|lia].
  inversion E1 as [E2]. pose proof (map_seq_inj _ _ _ E2 k Lk) as E3. inversion E3. reflexivity.
Qed.

Lemma adv_lookup_none spec j : ~ In j (map fst spec) -> adv_lookup spec j = None.
Proof.
  induction spec as [|[j' x] r IH]; cbn [adv_lookup map fst In]; intros N; [reflexivity|].
  destruct (Nat.eqb_spec j' j) as [->|NE]; [exfalso; apply N; left; reflexivity|].
  apply IH. intros I. apply N. right. exact I.
Qed.

Definition list_bytes_eq_dec : forall X Y : list (list N), {X = Y} + {X <> Y} :=
  list_eq_dec (list_eq_dec N.eq_dec).

(* ------------------------------------------------------------------ statements about any message *)
Section Generic.
  Variable H : transcript_oracle.
  Variable q : Z.
  Variables xi lb rho : nat.
  Variable sid : list N.
  Variable beta : nat -> bool.
  Variable vx : mat.

  Notation recv := (rvole_recv_core H q xi lb rho sid beta vx).

  (** the recomputed digest does not depend on the digest field of the message *)
  Lemma recv_mu_indep m m' : m_atilde m' = m_atilde m -> m_eta m' = m_eta m ->
    recv_mu H q xi lb rho sid beta vx m' = recv_mu H q xi lb rho sid beta vx m.
  Proof. unfold recv_mu. intros -> ->. reflexivity. Qed.

  (** ANY change to mu_hash of an accepted message is rejected -- unconditionally *)
  Lemma flip_mu_hash_rejected_lem m m' :
    m_atilde m' = m_atilde m -> m_eta m' = m_eta m -> m_mu m' <> m_mu m ->
    (exists d, recv m = Val d) -> recv m' = Err rv_err_check.
  Proof.
    intros EA EE NM ACC. apply recv_reject_iff. apply recv_accept_iff in ACC.
    rewrite (recv_mu_indep m m' EA EE). congruence.
  Qed.

  (** eta enters only through its reduction: a substituted eta with the same residues gives the same
      verdict and the same shares *)
  Lemma eta_same_residue_lem m m' :
    m_atilde m' = m_atilde m -> m_mu m' = m_mu m ->
    (forall k, (k < rho)%nat -> reduce_be q (nth k (m_eta m') []) = reduce_be q (nth k (m_eta m) [])) ->
    recv m' = recv m.
  Proof.
    intros EA EM EE. unfold rvole_recv_core.
    assert (E1 : recv_mu H q xi lb rho sid beta vx m' = recv_mu H q xi lb rho sid beta vx m).
    { unfold recv_mu. rewrite EA. f_equal. f_equal. apply items_of_ext. intros j k Lj Lk.
      unfold recv_item. rewrite (EE k Lk). reflexivity. }
    assert (E2 : recv_shares H q xi lb sid beta vx m' = recv_shares H q xi lb sid beta vx m).
    { unfold recv_shares. rewrite EA. reflexivity. }
    rewrite E1, E2, EM. reflexivity.
  Qed.

  (** a row with beta_j = 0 never reads the message: its d_dot/d_hat entries are the OT outputs *)
  Lemma zero_bit_row_lem (at_ : mat) j c : beta j = false -> dd q beta vx at_ j c = alpha q vx j c mod q.
  Proof. intros B. rewrite dd_spec. rewrite B. rewrite Z.add_0_r. reflexivity. Qed.
End Generic.

(* ------------------------------------------------------------------ honest sender, message altered in transit *)
Section Transit.
  Variable H : transcript_oracle.
  Variable q : Z.
  Variables xi lb rho : nat.
  Hypothesis q_range : 0 < q <= 2 ^ 256.
  Variable sid : list N.
  Variables v0 v1 vx : mat.
  Variable beta : nat -> bool.
  Variable a : list Z.
  Variable eta_tape : list (list N).
  Hypothesis ot_ok : ot_correlated xi (lb + rho) beta v0 v1 vx.

  Let eta0 := map (reduce_be q) eta_tape.
  Let M := build_mat xi lb rho (atilde_cell q lb v0 v1 a eta0).
  Let th := thetas H q xi lb rho sid (cell M).
  Let msg := fst (rvole_send_core H q xi lb rho sid v0 v1 a eta_tape).
  Notation recv := (rvole_recv_core H q xi lb rho sid beta vx).
  (** the mu items of the honest sender *)
  Let Y := items_of xi rho (send_item q lb v0 th).

  Lemma msg_mu : m_mu msg = H (mu_query sid Y).
  Proof. reflexivity. Qed.

  (* the lemmas of Proofs/RvoleCorrect.v in the local notation *)
  Lemma item_honest' j k : (j < xi)%nat -> (k < rho)%nat ->
    recv_item q lb beta vx (cell M) (fun k => nth k (m_eta msg) []) th j k = send_item q lb v0 th j k.
  Proof. exact (item_honest H q xi lb rho q_range sid v0 v1 vx beta a eta_tape ot_ok j k). Qed.
  Lemma recv_eta_honest' k : (k < rho)%nat ->
    eqmod q (reduce_be q (nth k (m_eta msg) [])) (nth k eta0 0 + theta_dot lb th k (fun i => nth i a 0)).
  Proof. exact (recv_eta_honest H q xi lb rho q_range sid v0 v1 a eta_tape k). Qed.

  Lemma alpha_cell_M j c : (j < xi)%nat -> (c < rv_w lb rho)%nat ->
    alpha q (cell M) j c = (alpha q v0 j c - alpha q v1 j c + ext_in lb a eta0 c) mod q.
  Proof.
    intros Lj Lc. unfold alpha at 1. unfold M. rewrite cell_build by assumption.
    unfold atilde_cell. apply (reduce_scalar_bytes q q_range).
  Qed.

  (* ---------------------------------------------------------------- eta *)
  (** eta' with a different residue at some k0, some beta_j0 = 1: acceptance is a collision of the mu
      hash on two different item lists. *)
  Lemma flip_eta_collision_lem m' j0 k0 :
    m_atilde m' = m_atilde msg -> m_mu m' = m_mu msg ->
    (j0 < xi)%nat -> beta j0 = true -> (k0 < rho)%nat ->
    reduce_be q (nth k0 (m_eta m') []) <> reduce_be q (nth k0 (m_eta msg) []) ->
    (exists d, recv m' = Val d) ->
    let X := items_of xi rho (recv_item q lb beta vx (cell M) (fun k => nth k (m_eta m') []) th) in
    X <> Y /\ mu_query sid X <> mu_query sid Y /\ H (mu_query sid X) = H (mu_query sid Y).
  Proof.
    intros EA EM Lj B Lk NE ACC X.
    apply recv_accept_iff in ACC.
    assert (HX : recv_mu H q xi lb rho sid beta vx m' = H (mu_query sid X)).
    { unfold recv_mu. rewrite EA. reflexivity. }
    assert (NXY : X <> Y).
    { intros E. apply (items_of_inj xi rho _ _ E j0 k0 Lj) in Lk as E1.
      rewrite <- (item_honest' j0 k0 Lj Lk) in E1.
      unfold recv_item in E1. rewrite B in E1. apply (scalar_bytes_inj q q_range) in E1.
      apply eqmod_intro in E1.
      set (r' := reduce_be q (nth k0 (m_eta m') [])) in *.
      set (r := reduce_be q (nth k0 (m_eta msg) [])) in *.
      match type of E1 with eqmod _ (?A - _) _ => set (A0 := A) in * end.
      assert (E2 : eqmod q (A0 - (A0 - r')) (A0 - (A0 - r))) by (rewrite E1; reflexivity).
      replace (A0 - (A0 - r')) with r' in E2 by ring. replace (A0 - (A0 - r)) with r in E2 by ring.
      apply eqmod_elim in E2.
      rewrite !Z.mod_small in E2 by (apply (reduce_be_range q q_range)). apply NE. exact E2. }
    split; [exact NXY|]. split; [intros E; apply NXY; apply (mu_query_inj sid); exact E|].
    rewrite <- HX, <- ACC, EM. apply msg_mu.
  Qed.

  (* ---------------------------------------------------------------- a_tilde *)
  (** the receiver's d_dot/d_hat for an arbitrary a_tilde, relative to the honest one *)
  Lemma dd_tampered (at' : mat) j c : (j < xi)%nat -> (c < rv_w lb rho)%nat ->
    eqmod q (dd q beta vx at' j c)
            (alpha q v0 j c + b2z (beta j) * (ext_in lb a eta0 c + (alpha q at' j c - alpha q (cell M) j c))).
  Proof.
    intros Lj Lc. rewrite dd_spec. rewrite (alpha_cell_M j c Lj Lc).
    unfold alpha at 1. rewrite (ot_ok j c Lj Lc). fold (alpha q v1 j c) (alpha q v0 j c).
    destruct (beta j); cbn [b2z].
    - change (reduce_be q (v1 j c)) with (alpha q v1 j c).
      set (x := alpha q at' j c). set (y0 := alpha q v0 j c). set (y1 := alpha q v1 j c).
      set (e := ext_in lb a eta0 c). clearbody x y0 y1 e. zmod.
    - change (reduce_be q (v0 j c)) with (alpha q v0 j c).
      set (y0 := alpha q v0 j c). clearbody y0. zmod.
  Qed.

  (** a_tilde' differs from a_tilde in some byte: the theta query is a different query, and acceptance
      implies a mu-hash collision on different item lists OR, for EVERY row j and check k, the linear
      equation below between the fresh theta' = H(query') and values fixed before the query:
        sum_i (theta'[k][i] - theta[k][i]) * (alpha_0[j][i] + beta_j a[i])
          + beta_j * (sum_i theta'[k][i] * delta[j][i] + delta[j][L_BATCH + k])  =  0   (mod q)
      where delta = reduce(a_tilde') - reduce(a_tilde). *)
  Lemma tamper_atilde_lem m' :
    m_eta m' = m_eta msg -> m_mu m' = m_mu msg ->
    (exists j c, (j < xi)%nat /\ (c < rv_w lb rho)%nat /\ cell (m_atilde m') j c <> cell M j c) ->
    let at' := cell (m_atilde m') in
    let th' := thetas H q xi lb rho sid at' in
    let delta := fun j c => alpha q at' j c - alpha q (cell M) j c in
    let X := items_of xi rho (recv_item q lb beta vx at' (fun k => nth k (m_eta m') []) th') in
    theta_pre xi lb rho sid at' <> theta_pre xi lb rho sid (cell M) /\
    ((exists d, recv m' = Val d) ->
       (X <> Y /\ mu_query sid X <> mu_query sid Y /\ H (mu_query sid X) = H (mu_query sid Y)) \/
       (forall j k, (j < xi)%nat -> (k < rho)%nat ->
          let F := fun i => alpha q v0 j i + b2z (beta j) * nth i a 0 in
          (theta_dot lb th' k F - theta_dot lb th k F
           + b2z (beta j) * (theta_dot lb th' k (delta j) + delta j (lb + k)%nat)) mod q = 0)).
  Proof.
    intros EE EM [j1 [c1 [Lj1 [Lc1 D]]]] at' th' delta X. split.
    { intros E. apply D. apply (theta_pre_inj xi lb rho sid _ _ E j1 c1 Lj1 Lc1). }
    intros ACC. apply recv_accept_iff in ACC.
    assert (HX : recv_mu H q xi lb rho sid beta vx m' = H (mu_query sid X)) by reflexivity.
    destruct (list_bytes_eq_dec X Y) as [EXY|NXY].
    2:{ left. split; [exact NXY|]. split; [intros E; apply NXY; apply (mu_query_inj sid); exact E|].
        rewrite <- HX, <- ACC, EM. apply msg_mu. }
    right. intros j k Lj Lk F.
    apply (items_of_inj xi rho _ _ EXY j k Lj) in Lk as E1.
    unfold recv_item, send_item in E1. apply (scalar_bytes_inj q q_range) in E1. apply eqmod_intro in E1.
    rewrite (dd_tampered at' j (lb + k)) in E1 by (unfold rv_w; lia). rewrite ext_in_hi in E1.
    rewrite (theta_dot_eqmod q lb th' k (dd q beta vx at' j)
               (fun i => F i + b2z (beta j) * delta j i)) in E1.
    2:{ intros i Li. rewrite (dd_tampered at' j i) by (unfold rv_w; lia). rewrite ext_in_lo by assumption.
        unfold F, delta. apply eqmod_ring. ring. }
    rewrite theta_dot_add, theta_dot_scale in E1.
    assert (EF : theta_dot lb th k F = theta_dot lb th k (alpha q v0 j) +
                 b2z (beta j) * theta_dot lb th k (fun i => nth i a 0)).
    { unfold F. rewrite theta_dot_add, theta_dot_scale. reflexivity. }
    fold (delta j (lb + k)%nat) in E1.
    assert (EEta : eqmod q (if beta j then reduce_be q (nth k (m_eta m') []) else 0)
                     (b2z (beta j) * (nth k eta0 0 + theta_dot lb th k (fun i => nth i a 0)))).
    { destruct (beta j); cbn [b2z]; [|apply eqmod_ring; ring]. rewrite EE.
      rewrite (recv_eta_honest' k Lk). apply eqmod_ring. ring. }
    rewrite EEta in E1. apply eqmod_zero. rewrite EF.
    set (T'F := theta_dot lb th' k F) in *. set (T'd := theta_dot lb th' k (delta j)) in *.
    set (T0 := theta_dot lb th k (alpha q v0 j)) in *.
    set (Ta := theta_dot lb th k (fun i => nth i a 0)) in *.
    set (A := alpha q v0 j (lb + k)) in *. set (e := nth k eta0 0) in *. set (dl := delta j (lb + k)%nat) in *.
    set (b := b2z (beta j)) in *.
    transitivity ((A + b * (e + dl) + (T'F + b * T'd) - b * (e + Ta)) - (A + T0)).
    - apply eqmod_ring. ring.
    - rewrite E1. apply eqmod_ring. ring.
  Qed.
End Transit.

(* ------------------------------------------------------------------ calibrated adversarial sender *)
Section Adversary.
  Variable H : transcript_oracle.
  Variable q : Z.
  Variables xi lb rho : nat.
  Hypothesis q_range : 0 < q <= 2 ^ 256.
  Variable sid : list N.
  Variables v0 v1 vx : mat.
  Variable beta : nat -> bool.
  Variable a : list Z.
  Variable eta_tape : list (list N).
  Hypothesis ot_ok : ot_correlated xi (lb + rho) beta v0 v1 vx.
  Variable spec : adv_spec.

  Let eta0 := map (reduce_be q) eta_tape.
  Let MA := build_mat xi lb rho (adv_atilde_cell q lb v0 v1 spec a eta0).
  Let th' := thetas H q xi lb rho sid (cell MA).
  Let madv := adv_sender H q xi lb rho sid v0 v1 a eta_tape spec.
  Notation recv := (rvole_recv_core H q xi lb rho sid beta vx).
  (** what the adversary hashes / what the receiver will hash *)
  Let YA := items_of xi rho (adv_item q lb v0 spec a th').
  Let XA := items_of xi rho (recv_item q lb beta vx (cell MA) (fun k => nth k (m_eta madv) []) th').
  (** theta'[k] . Delta_j *)
  Let tdelta j k := theta_dot lb th' k (adv_delta spec a j).

  Lemma madv_mu : m_mu madv = H (mu_query sid YA).
  Proof. reflexivity. Qed.
  Lemma madv_recv_mu : recv_mu H q xi lb rho sid beta vx madv = H (mu_query sid XA).
  Proof. reflexivity. Qed.

  Lemma dd_adv j c : (j < xi)%nat -> (c < rv_w lb rho)%nat ->
    eqmod q (dd q beta vx (cell MA) j c)
            (alpha q v0 j c + b2z (beta j) *
               (if (c <? lb)%nat then adv_in spec a j c else nth (c - lb) eta0 0)).
  Proof.
    intros Lj Lc. rewrite dd_spec. unfold MA, alpha. rewrite cell_build by assumption.
    unfold adv_atilde_cell. rewrite (reduce_scalar_bytes q q_range).
    rewrite (ot_ok j c Lj Lc). unfold alpha.
    destruct (beta j); cbn [b2z]; zmod.
  Qed.

  Lemma adv_eta k : (k < rho)%nat ->
    eqmod q (reduce_be q (nth k (m_eta madv) []))
            (nth k eta0 0 + theta_dot lb th' k (fun i => nth i a 0)).
  Proof.
    intros Lk. change (m_eta madv) with
      (map (fun k => scalar_bytes q (nth k eta0 0 + theta_dot lb th' k (fun i => nth i a 0))) (seq 0 rho)).
    rewrite nth_map_seq by assumption. rewrite (reduce_scalar_bytes q q_range). apply eqmod_mod.
  Qed.

  (** the receiver's item = honest formula + beta_j * theta'.Delta_j *)
  Lemma recv_item_adv j k : (j < xi)%nat -> (k < rho)%nat ->
    recv_item q lb beta vx (cell MA) (fun k => nth k (m_eta madv) []) th' j k =
    scalar_bytes q (alpha q v0 j (lb + k) + theta_dot lb th' k (alpha q v0 j) + b2z (beta j) * tdelta j k).
  Proof.
    intros Lj Lk. unfold recv_item. apply scalar_bytes_eqmod. apply eqmod_elim.
    rewrite (dd_adv j (lb + k)) by (unfold rv_w; lia).
    destruct (Nat.ltb_spec (lb + k) lb) as [L|_]; [lia|]. replace (lb + k - lb)%nat with k by lia.
    rewrite (theta_dot_eqmod q lb th' k (dd q beta vx (cell MA) j)
               (fun i => alpha q v0 j i + b2z (beta j) * adv_in spec a j i)).
    2:{ intros i Li. rewrite (dd_adv j i) by (unfold rv_w; lia).
        destruct (Nat.ltb_spec i lb) as [_|L]; [reflexivity|lia]. }
    rewrite theta_dot_add, theta_dot_scale.
    assert (ED : tdelta j k = theta_dot lb th' k (adv_in spec a j) - theta_dot lb th' k (fun i => nth i a 0)).
    { unfold tdelta, adv_delta, theta_dot. rewrite <- sum_upto_sub. apply sum_upto_ext. intros; ring. }
    rewrite ED.
    destruct (beta j); cbn [b2z].
    - rewrite (adv_eta k Lk). apply eqmod_ring. ring.
    - apply eqmod_ring. ring.
  Qed.

  Lemma adv_item_eq j k :
    adv_item q lb v0 spec a th' j k =
    scalar_bytes q (alpha q v0 j (lb + k) + theta_dot lb th' k (alpha q v0 j) + b2z (adv_guess spec j) * tdelta j k).
  Proof.
    unfold adv_item, tdelta. apply scalar_bytes_eqmod. destruct (adv_guess spec j); cbn [b2z]; f_equal; ring.
  Qed.

  (** the two item lists agree iff (beta_j - g_j) * theta'.Delta_j = 0 everywhere *)
  Lemma adv_items_eq_iff :
    XA = YA <-> forall j k, (j < xi)%nat -> (k < rho)%nat ->
                  ((b2z (beta j) - b2z (adv_guess spec j)) * tdelta j k) mod q = 0.
  Proof.
    split.
    - intros E j k Lj Lk. apply (items_of_inj xi rho _ _ E j k Lj) in Lk as E1.
      rewrite (recv_item_adv j k Lj Lk), adv_item_eq in E1.
      apply (scalar_bytes_inj q q_range) in E1. apply eqmod_intro in E1.
      apply eqmod_zero.
      set (A := alpha q v0 j (lb + k) + theta_dot lb th' k (alpha q v0 j)) in *.
      transitivity ((A + b2z (beta j) * tdelta j k) - (A + b2z (adv_guess spec j) * tdelta j k)).
      + apply eqmod_ring. ring.
      + rewrite E1. apply eqmod_ring. ring.
    - intros E. apply items_of_ext. intros j k Lj Lk.
      rewrite (recv_item_adv j k Lj Lk), adv_item_eq. apply scalar_bytes_eqmod.
      specialize (E j k Lj Lk). apply eqmod_elim.
      set (A := alpha q v0 j (lb + k) + theta_dot lb th' k (alpha q v0 j)) in *.
      transitivity (A + b2z (adv_guess spec j) * tdelta j k +
                    (b2z (beta j) - b2z (adv_guess spec j)) * tdelta j k).
      + apply eqmod_ring. ring.
      + apply eqmod_zero_intro in E. rewrite E. apply eqmod_ring. ring.
  Qed.

  Lemma adv_accept_iff : (exists d, recv madv = Val d) <-> H (mu_query sid YA) = H (mu_query sid XA).
  Proof. rewrite recv_accept_iff. rewrite madv_mu, madv_recv_mu. reflexivity. Qed.

  Lemma tdelta_outside j k : ~ In j (map fst spec) -> tdelta j k = 0.
  Proof.
    intros NI. unfold tdelta, theta_dot. apply sum_upto_zero. intros i _.
    unfold adv_delta, adv_in. rewrite (adv_lookup_none spec j NI). ring.
  Qed.

  Lemma guess_wrong_factor (b g : bool) t : b <> g -> ((b2z b - b2z g) * t) mod q = 0 -> t mod q = 0.
  Proof.
    destruct b, g; cbn [b2z]; intros NE E; try (exfalso; apply NE; reflexivity).
    - replace ((1 - 0) * t) with t in E by ring. exact E.
    - replace ((0 - 1) * t) with (- t) in E by ring.
      apply Z.mod_divide in E; [|lia]. apply Z.mod_divide; [lia|]. apply Z.divide_opp_r in E.
      replace (- - t) with t in E by ring. exact E.
  Qed.

  (** Selective failure.  Non-degeneracy: at every attacked position some theta'[k].Delta_j is non-zero
      (theta' is the fresh challenge over the adversary's own message: a single-point oracle event
      otherwise).  Collision-freeness of the mu hash on the two explicit item lists.  Then the message is
      accepted IFF every guess is right. *)
  Lemma selective_failure_lem :
    (forall j, (j < xi)%nat -> In j (map fst spec) -> exists k, (k < rho)%nat /\ tdelta j k mod q <> 0) ->
    (H (mu_query sid YA) = H (mu_query sid XA) -> YA = XA) ->
    ((exists d, recv madv = Val d) <->
     forall j, (j < xi)%nat -> In j (map fst spec) -> adv_guess spec j = beta j).
  Proof.
    intros ND NC. rewrite adv_accept_iff. split.
    - intros E0. apply NC in E0. symmetry in E0. pose proof (proj1 adv_items_eq_iff E0) as E.
      intros j Lj IJ. destruct (ND j Lj IJ) as [k [Lk NZ]].
      destruct (bool_dec (adv_guess spec j) (beta j)) as [EQ|NE]; [exact EQ|].
      exfalso. apply NZ. apply (guess_wrong_factor (beta j) (adv_guess spec j)); [congruence|].
      apply E; assumption.
    - intros G. f_equal. f_equal. symmetry. apply adv_items_eq_iff. intros j k Lj Lk.
      destruct (in_dec Nat.eq_dec j (map fst spec)) as [IJ|NI].
      + rewrite (G j Lj IJ). replace (b2z (beta j) - b2z (beta j)) with 0 by ring. reflexivity.
      + rewrite (tdelta_outside j k NI). rewrite Z.mul_0_r. reflexivity.
  Qed.

  (** The unconditional half: without any assumption on H, right guesses (or degenerate deviations) are
      accepted; and acceptance with a wrong guess at a non-degenerate position is a mu-hash collision
      on two different item lists. *)
  Lemma selective_failure_uncond_lem :
    ((forall j, (j < xi)%nat -> In j (map fst spec) -> adv_guess spec j = beta j) ->
     exists d, recv madv = Val d) /\
    ((exists d, recv madv = Val d) ->
     forall j k, (j < xi)%nat -> (k < rho)%nat -> adv_guess spec j <> beta j -> tdelta j k mod q <> 0 ->
     XA <> YA /\ mu_query sid YA <> mu_query sid XA /\ H (mu_query sid YA) = H (mu_query sid XA)).
  Proof.
    split.
    - intros G. apply adv_accept_iff. f_equal. f_equal. symmetry. apply adv_items_eq_iff. intros j k Lj Lk.
      destruct (in_dec Nat.eq_dec j (map fst spec)) as [IJ|NI].
      + rewrite (G j Lj IJ). replace (b2z (beta j) - b2z (beta j)) with 0 by ring. reflexivity.
      + rewrite (tdelta_outside j k NI). rewrite Z.mul_0_r. reflexivity.
    - intros ACC j k Lj Lk NG NZ. apply adv_accept_iff in ACC.
      assert (NXY : XA <> YA).
      { intros E0. pose proof (proj1 adv_items_eq_iff E0) as E. apply NZ.
        apply (guess_wrong_factor (beta j) (adv_guess spec j)); [congruence|]. apply E; assumption. }
      split; [exact NXY|]. split; [|exact ACC].
      intros E. apply NXY. symmetry. apply (mu_query_inj sid). exact E.
  Qed.

  (** the honest message for the same input and tape *)
  Let msg := fst (rvole_send_core H q xi lb rho sid v0 v1 a eta_tape).

  Lemma adv_cell_outside j c : ~ In j (map fst spec) ->
    adv_atilde_cell q lb v0 v1 spec a eta0 j c = atilde_cell q lb v0 v1 a eta0 j c.
  Proof.
    intros NI. unfold adv_atilde_cell, atilde_cell, ext_in, adv_in. rewrite (adv_lookup_none spec j NI).
    reflexivity.
  Qed.

  (** Zero bits are unaffected: if the receiver's bit is 0 at every attacked position, the receiver's
      d_dot entries -- hence its output shares -- are exactly those of the honest run (whatever the
      replacement inputs were). *)
  Lemma zero_bit_unaffected_lem :
    (forall j, (j < xi)%nat -> In j (map fst spec) -> beta j = false) ->
    recv_shares H q xi lb sid beta vx madv = recv_shares H q xi lb sid beta vx msg.
  Proof.
    intros Z0. unfold recv_shares. apply map_seq_ext. intros i Li. f_equal.
    unfold gadget_dot. apply sum_upto_ext. intros j Lj. f_equal.
    destruct (in_dec Nat.eq_dec j (map fst spec)) as [IJ|NI].
    - rewrite !zero_bit_row_lem by (apply Z0; assumption). reflexivity.
    - rewrite !dd_spec. f_equal. f_equal. destruct (beta j); [|reflexivity]. unfold alpha. f_equal.
      change (m_atilde madv) with MA.
      change (m_atilde msg) with (build_mat xi lb rho (atilde_cell q lb v0 v1 a eta0)).
      unfold MA. rewrite !cell_build by (unfold rv_w; lia). apply adv_cell_outside. exact NI.
  Qed.

  (** ... and then the relation c + d = a * b is the honest one (c = the honest sender's share for input a) *)
  Lemma zero_bit_relation_lem :
    (forall j, (j < xi)%nat -> In j (map fst spec) -> beta j = false) ->
    forall d, recv madv = Val d ->
    forall i, (i < lb)%nat ->
      (nth i (send_shares H q xi lb sid v0) 0 + nth i d 0) mod q = (nth i a 0 * rvole_b H q xi sid beta) mod q.
  Proof.
    intros Z0 d D i Li. apply recv_val in D. subst d. rewrite (zero_bit_unaffected_lem Z0).
    apply (shares_honest H q xi lb rho q_range sid v0 v1 vx beta a eta_tape ot_ok i Li).
  Qed.
End Adversary.

(** with an empty specification the adversary IS the honest sender *)
Lemma adv_sender_nil H q xi lb rho sid v0 v1 a eta_tape :
  adv_sender H q xi lb rho sid v0 v1 a eta_tape [] = fst (rvole_send_core H q xi lb rho sid v0 v1 a eta_tape).
Proof.
  unfold adv_sender, rvole_send_core. cbv zeta. cbn [fst].
  assert (EM : build_mat xi lb rho (adv_atilde_cell q lb v0 v1 [] a (map (reduce_be q) eta_tape)) =
               build_mat xi lb rho (atilde_cell q lb v0 v1 a (map (reduce_be q) eta_tape))) by reflexivity.
  rewrite EM. f_equal. f_equal. f_equal. apply items_of_ext. intros j k _ _.
  unfold adv_item, send_item, adv_guess. cbn [adv_lookup]. apply scalar_bytes_eqmod. f_equal. ring.
Qed.
