(** Association-list lemmas for the relay store (Model/Relay.v: lookup / remove / insert). *)
From SL Require Import Lib.Base Model.Relay.
From Coq Require Import Permutation.
Local Open Scope N_scope.

Lemma id_eqb_spec a b : reflect (a = b) (id_eqb a b).
Proof.
  unfold id_eqb. destruct (bytes_eqb a b) eqn:E; constructor.
  - apply bytes_eqb_eq; exact E.
  - intros ->. assert (bytes_eqb b b = true) by (apply bytes_eqb_eq; reflexivity). congruence.
Qed.

Lemma id_eqb_refl a : id_eqb a a = true.
Proof. destruct (id_eqb_spec a a); congruence. Qed.

Lemma id_eqb_sym a b : id_eqb a b = id_eqb b a.
Proof. destruct (id_eqb_spec a b), (id_eqb_spec b a); congruence. Qed.

Lemma id_eqb_neq a b : a <> b -> id_eqb a b = false.
Proof. destruct (id_eqb_spec a b); congruence. Qed.

Lemma kind_eqb_spec a b : reflect (a = b) (kind_eqb a b).
Proof. destruct a, b; constructor; congruence. Qed.

Definition keys (m : list (msgid * entry)) : list msgid := map fst m.

Lemma remove_filter k m : remove k m = filter (fun kv => negb (id_eqb k (fst kv))) m.
Proof.
  induction m as [|[k' v] r IH]; cbn [remove filter fst]; [reflexivity|].
  destruct (id_eqb k k'); cbn [negb]; rewrite IH; reflexivity.
Qed.

Lemma lookup_remove_eq k m : lookup k (remove k m) = None.
Proof.
  induction m as [|[k' v] r IH]; cbn [remove lookup]; [reflexivity|].
  destruct (id_eqb k k') eqn:E; [exact IH|]. cbn [lookup]. rewrite E. exact IH.
Qed.

Lemma lookup_remove_neq k k' m : k <> k' -> lookup k' (remove k m) = lookup k' m.
Proof.
  intros N. induction m as [|[k2 v] r IH]; cbn [remove lookup]; [reflexivity|].
  destruct (id_eqb_spec k k2) as [->|N2].
  - rewrite IH. rewrite id_eqb_neq by congruence. reflexivity.
  - cbn [lookup]. rewrite IH. reflexivity.
Qed.

Lemma lookup_insert_eq k v m : lookup k (insert k v m) = Some v.
Proof. unfold insert. cbn [lookup]. rewrite id_eqb_refl. reflexivity. Qed.

Lemma lookup_insert_neq k k' v m : k <> k' -> lookup k' (insert k v m) = lookup k' m.
Proof.
  intros N. unfold insert. cbn [lookup]. rewrite id_eqb_neq by congruence.
  apply lookup_remove_neq; exact N.
Qed.

Lemma lookup_insert k k' v m :
  lookup k' (insert k v m) = if id_eqb k k' then Some v else lookup k' m.
Proof.
  destruct (id_eqb_spec k k') as [->|N]; [apply lookup_insert_eq|apply lookup_insert_neq; exact N].
Qed.

Lemma lookup_remove k k' m :
  lookup k' (remove k m) = if id_eqb k k' then None else lookup k' m.
Proof.
  destruct (id_eqb_spec k k') as [->|N]; [apply lookup_remove_eq|apply lookup_remove_neq; exact N].
Qed.

Lemma lookup_In k v m : lookup k m = Some v -> In (k, v) m.
Proof.
  induction m as [|[k' v'] r IH]; cbn [lookup]; [discriminate|].
  destruct (id_eqb_spec k k') as [->|N]; intros H.
  - inversion H; subst. left; reflexivity.
  - right; auto.
Qed.

Lemma lookup_None_keys k m : lookup k m = None <-> ~ In k (keys m).
Proof.
  induction m as [|[k' v'] r IH]; cbn [lookup keys map fst In]; [tauto|].
  destruct (id_eqb_spec k k') as [->|N].
  - split; [discriminate|intros H; exfalso; apply H; left; reflexivity].
  - rewrite IH. unfold keys. split; [intros H [E|I]; [congruence|auto]|intros H I; apply H; right; exact I].
Qed.

Lemma In_lookup k v m : NoDup (keys m) -> In (k, v) m -> lookup k m = Some v.
Proof.
  induction m as [|[k' v'] r IH]; cbn [lookup keys map fst In]; intros ND I; [contradiction|].
  inversion ND as [|? ? NI ND']; subst.
  destruct I as [E|I].
  - inversion E; subst. rewrite id_eqb_refl. reflexivity.
  - destruct (id_eqb_spec k k') as [->|N]; [|apply IH; assumption].
    exfalso. apply NI. change (In k' (keys r)). unfold keys. apply in_map_iff. exists (k', v); auto.
Qed.

Lemma keys_filter_NoDup p m : NoDup (keys m) -> NoDup (keys (filter p m)).
Proof.
  induction m as [|[k v] r IH]; cbn [filter keys map fst]; intros ND; [constructor|].
  inversion ND as [|? ? NI ND']; subst.
  destruct (p (k, v)); [|apply IH; exact ND'].
  cbn [keys map fst]. constructor; [|apply IH; exact ND'].
  intros I. apply NI. unfold keys in *. apply in_map_iff in I. destruct I as [[k2 v2] [E I]].
  apply filter_In in I. apply in_map_iff. exists (k2, v2). tauto.
Qed.

Lemma keys_remove_NoDup k m : NoDup (keys m) -> NoDup (keys (remove k m)).
Proof. rewrite remove_filter. apply keys_filter_NoDup. Qed.

Lemma keys_remove_notin k m : ~ In k (keys (remove k m)).
Proof. apply lookup_None_keys. apply lookup_remove_eq. Qed.

Lemma keys_insert_NoDup k v m : NoDup (keys m) -> NoDup (keys (insert k v m)).
Proof.
  intros ND. unfold insert. cbn [keys map fst]. constructor.
  - apply keys_remove_notin.
  - apply keys_remove_NoDup; exact ND.
Qed.

(** lookup in a filtered store (the filter looks at key and value) *)
Lemma lookup_filter p k m : NoDup (keys m) ->
  lookup k (filter p m) = match lookup k m with Some v => if p (k, v) then Some v else None | None => None end.
Proof.
  induction m as [|[k' v'] r IH]; cbn [filter lookup keys map fst]; intros ND; [reflexivity|].
  inversion ND as [|? ? NI ND']; subst.
  destruct (id_eqb_spec k k') as [->|N].
  - destruct (p (k', v')) eqn:P.
    + cbn [lookup]. rewrite id_eqb_refl. reflexivity.
    + assert (L : lookup k' r = None) by (apply lookup_None_keys; exact NI).
      rewrite IH by exact ND'. rewrite L. reflexivity.
  - destruct (p (k', v')); [cbn [lookup]; rewrite id_eqb_neq by exact N|]; apply IH; exact ND'.
Qed.

Lemma remove_not_in k m : lookup k m = None -> remove k m = m.
Proof.
  induction m as [|[k' v'] r IH]; cbn [lookup remove]; [reflexivity|].
  destruct (id_eqb k k'); [discriminate|]. intros H. rewrite IH by exact H. reflexivity.
Qed.

Lemma existsb_perm {A} (f : A -> bool) l l' : Permutation l l' -> existsb f l = existsb f l'.
Proof.
  induction 1; cbn [existsb]; try congruence.
  destruct (f x), (f y); reflexivity.
Qed.

Lemma filter_perm {A} (f : A -> bool) l l' : Permutation l l' -> Permutation (filter f l) (filter f l').
Proof.
  induction 1; cbn [filter].
  - constructor.
  - destruct (f x); [constructor|]; assumption.
  - destruct (f x), (f y); try apply Permutation_refl; apply perm_swap.
  - eapply Permutation_trans; eassumption.
Qed.

Lemma filter_filter {A} (p q : A -> bool) l : filter p (filter q l) = filter (fun x => q x && p x) l.
Proof.
  induction l as [|x r IH]; cbn [filter]; [reflexivity|].
  destruct (q x); cbn [filter andb]; [destruct (p x)|]; rewrite IH; reflexivity.
Qed.

Lemma filter_true_all {A} (p : A -> bool) l : (forall x, In x l -> p x = true) -> filter p l = l.
Proof.
  induction l as [|x r IH]; cbn [filter]; intros H; [reflexivity|].
  rewrite H by (left; reflexivity). rewrite IH; [reflexivity|]. intros; apply H; right; assumption.
Qed.

Lemma filter_false_all {A} (p : A -> bool) l : (forall x, In x l -> p x = false) -> filter p l = [].
Proof.
  induction l as [|x r IH]; cbn [filter]; intros H; [reflexivity|].
  rewrite H by (left; reflexivity). apply IH. intros; apply H; right; assumption.
Qed.
