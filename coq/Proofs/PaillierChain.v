(** C08, compositional form: the homomorphisms hold for EVERY ciphertext that carries a plaintext
    -- results of earlier [add]/[mul]/[mul_vartime] calls included -- not only for fresh encryptions,
    and therefore for every expression tree of homomorphic operations, of any depth, by induction.

    [carries c m]: c is a non-negative integer congruent to (1 + m N) r^N modulo N^2 for some unit r.
    The plaintext index m is an arbitrary integer (sums and products are NOT reduced along the way);
    decryption returns m mod N, which is how wrap-around is covered at every depth. *)
From Coq Require Import ZArith Znumtheory Zpow_facts Lia List.
From SL Require Import Lib.Base Model.Paillier Proofs.PaillierNT Proofs.PaillierWidth Proofs.PaillierDec Proofs.PaillierHom.
Local Open Scope Z_scope.

Opaque modinv powmod Z.pow.

(** expression trees over the public-key operations *)
Inductive hexpr : Type :=
| HEnc (m r : Z)                 (* a fresh encryption of m with randomiser r *)
| HAdd (a b : hexpr)             (* PublicKey::add *)
| HMul (a : hexpr) (k : Z)       (* PublicKey::mul (constant time) *)
| HMulV (a : hexpr) (k : Z).     (* PublicKey::mul_vartime *)

(** the ciphertext the model computes for a tree *)
Fixpoint hct (w : widths) (pk : pkey) (e : hexpr) : Z :=
  match e with
  | HEnc m r => encrypt w pk m r
  | HAdd a b => add w pk (hct w pk a) (hct w pk b)
  | HMul a k => mul w pk (hct w pk a) k
  | HMulV a k => mul_vartime w pk (hct w pk a) k
  end.

(** the integer the tree denotes (no reduction anywhere) *)
Fixpoint hval (e : hexpr) : Z :=
  match e with
  | HEnc m _ => m
  | HAdd a b => hval a + hval b
  | HMul a k | HMulV a k => k * hval a
  end.

(** the ciphertext by independent arbitrary-precision arithmetic: products and powers modulo N^2 *)
Fixpoint hct_spec (nn : Z) (enc : Z -> Z -> Z) (e : hexpr) : Z :=
  match e with
  | HEnc m r => enc m r
  | HAdd a b => (hct_spec nn enc a * hct_spec nn enc b) mod nn
  | HMul a k | HMulV a k => (hct_spec nn enc a ^ k) mod nn
  end.

(** inputs the real API accepts: plaintexts in [0,N), unit randomisers, scalars in [0,N) *)
Fixpoint hwf (n : Z) (e : hexpr) : Prop :=
  match e with
  | HEnc m r => 0 <= m < n /\ 0 <= r /\ Z.gcd r n = 1
  | HAdd a b => hwf n a /\ hwf n b
  | HMul a k | HMulV a k => hwf n a /\ 0 <= k < n
  end.

Section Key.
  Variable w : widths.
  Variables p q : Z.
  Hypothesis Hw : widths_ok w.
  Hypothesis Hk : key_ok w p q.

  Let n := p * q.
  Let sk := from_pq w p q.
  Let pk := sk_pk sk.

  Definition carries (c m : Z) : Prop :=
    0 <= c /\ exists r, 0 <= r /\ Z.gcd r n = 1 /\ cong (n * n) c ((1 + m * n) * r ^ n).

  Ltac facts :=
    destruct (key_basic w p q Hw Hk) as (Pp & Pq & Hne & Hp3 & Hq3 & Hp & Hq & Hn & Hpp & Hqq & Hnn & HP & HM & HC & Hphi & Hrel & Hg1 & Hg2);
    fold n in Hn, Hnn, Hphi, Hg1, Hg2;
    assert (Hn0 : 0 < n) by (subst n; nia).

  Lemma carries_enc m r : 0 <= m < n -> 0 <= r -> Z.gcd r n = 1 -> carries (encrypt w pk m r) m.
  Proof.
    intros Hm Hr Hg. split.
    - apply (enc_range w p q Hw Hk); assumption.
    - exists r. split; [exact Hr|]. split; [exact Hg|]. apply (enc_form w p q Hw Hk); assumption.
  Qed.

  Lemma carries_dec c m : carries c m -> decrypt w sk c = m mod n /\ decrypt_fast w sk c = m mod n.
  Proof.
    intros (Hc & r & Hr & Hg & Hform). apply (dec_form_mod w p q Hw Hk) with r; assumption.
  Qed.

  Lemma carries_unit c m : carries c m -> Z.gcd c n = 1.
  Proof.
    intros (Hc & r & Hr & Hg & Hform). apply Zgcd_1_rel_prime.
    apply (form_coprime w p q Hw Hk) with m r; [apply Zgcd_1_rel_prime; exact Hg|exact Hform].
  Qed.

  Lemma carries_add c1 m1 c2 m2 : carries c1 m1 -> carries c2 m2 -> carries (add w pk c1 c2) (m1 + m2).
  Proof.
    intros (Hc1 & r1 & Hr1 & Hg1' & F1) (Hc2 & r2 & Hr2 & Hg2' & F2). facts.
    unfold pk, sk. rewrite (add_closed_k w p q Hw Hk). fold n. split.
    - apply Z.mod_pos_bound; nia.
    - exists (r1 * r2). split; [nia|]. split.
      + apply Zgcd_1_rel_prime. apply rel_prime_sym. apply rel_prime_mult; apply rel_prime_sym; apply Zgcd_1_rel_prime; assumption.
      + eapply cong_trans; [apply cong_mod; nia|].
        eapply cong_trans; [apply cong_mul; [nia|exact F1|exact F2]|].
        rewrite Z.pow_mul_l.
        replace ((1 + m1 * n) * r1 ^ n * ((1 + m2 * n) * r2 ^ n)) with (((1 + m1 * n) * (1 + m2 * n)) * (r1 ^ n * r2 ^ n)) by ring.
        apply cong_mul; [nia| |apply cong_refl].
        apply cong_div; [nia|]. exists (m1 * m2). ring.
  Qed.

  Lemma carries_mul c m k : carries c m -> 0 <= k < 2 ^ wM w -> carries (mul w pk c k) (k * m).
  Proof.
    intros (Hc & r & Hr & Hg & F) Hkk. facts.
    unfold pk, sk. rewrite (mul_closed_k w p q Hw Hk) by assumption. fold n. split.
    - apply Z.mod_pos_bound; nia.
    - exists (r ^ k). split; [apply Z.pow_nonneg; lia|]. split.
      + apply Zgcd_1_rel_prime. apply rel_prime_sym. apply rel_prime_Zpower_r; [lia|]. apply rel_prime_sym, Zgcd_1_rel_prime; assumption.
      + eapply cong_trans; [apply cong_mod; nia|].
        eapply cong_trans; [apply cong_pow; [nia|exact F]|].
        rewrite Z.pow_mul_l. rewrite <- !Z.pow_mul_r by lia. rewrite (Z.mul_comm n k).
        apply cong_mul; [nia| |apply cong_refl].
        eapply cong_trans; [apply one_plus_pow; lia|]. apply cong_refl.
  Qed.

  Lemma carries_mul_vartime c m k : carries c m -> 0 <= k < 2 ^ wM w -> carries (mul_vartime w pk c k) (k * m).
  Proof.
    intros Hc Hkk. unfold pk, sk. rewrite (mul_vartime_eq w p q Hw Hk) by assumption. apply carries_mul; assumption.
  Qed.

  Lemma scalar_fits k : 0 <= k < n -> 0 <= k < 2 ^ wM w.
  Proof. intros Hkn. facts. lia. Qed.

  (** every well-formed tree computes a ciphertext that carries the tree's integer value *)
  Lemma tree_carries e : hwf n e -> carries (hct w pk e) (hval e).
  Proof.
    induction e as [m r|a IHa b IHb|a IHa k|a IHa k]; cbn [hwf hct hval].
    - intros (Hm & Hr & Hg). apply carries_enc; assumption.
    - intros (Ha & Hb). apply carries_add; auto.
    - intros (Ha & Hkn). apply carries_mul; [auto|apply scalar_fits; exact Hkn].
    - intros (Ha & Hkn). apply carries_mul_vartime; [auto|apply scalar_fits; exact Hkn].
  Qed.

  Lemma tree_decrypts e : hwf n e ->
    decrypt w sk (hct w pk e) = hval e mod n /\ decrypt_fast w sk (hct w pk e) = hval e mod n.
  Proof. intros He. apply carries_dec. apply tree_carries. exact He. Qed.

  Lemma tree_closed e : hwf n e -> hct w pk e = hct_spec (n * n) (encrypt w pk) e.
  Proof.
    induction e as [m r|a IHa b IHb|a IHa k|a IHa k]; cbn [hwf hct hct_spec].
    - reflexivity.
    - intros (Ha & Hb). rewrite <- IHa, <- IHb by assumption. apply (add_closed_k w p q Hw Hk).
    - intros (Ha & Hkn). rewrite <- IHa by assumption. apply (mul_closed_k w p q Hw Hk). apply scalar_fits; exact Hkn.
    - intros (Ha & Hkn). rewrite <- IHa by assumption.
      unfold pk, sk. rewrite (mul_vartime_eq w p q Hw Hk) by (apply scalar_fits; exact Hkn).
      apply (mul_closed_k w p q Hw Hk). apply scalar_fits; exact Hkn.
  Qed.

  (** the constant-time and the variable-time multiplications are interchangeable anywhere in a tree *)
  Fixpoint devar (e : hexpr) : hexpr :=
    match e with
    | HEnc m r => HEnc m r
    | HAdd a b => HAdd (devar a) (devar b)
    | HMul a k | HMulV a k => HMul (devar a) k
    end.

  Lemma tree_devar e : hwf n e -> hct w pk (devar e) = hct w pk e.
  Proof.
    induction e as [m r|a IHa b IHb|a IHa k|a IHa k]; cbn [hwf hct devar].
    - reflexivity.
    - intros (Ha & Hb). rewrite IHa, IHb by assumption. reflexivity.
    - intros (Ha & Hkn). rewrite IHa by assumption. reflexivity.
    - intros (Ha & Hkn). rewrite IHa by assumption. symmetry.
      apply (mul_vartime_eq w p q Hw Hk). apply scalar_fits; exact Hkn.
  Qed.
End Key.

(** C07: encryption is injective in BOTH arguments -- a ciphertext determines its plaintext (by decryption) and its
    randomiser (by N-th root extraction of the ciphertext reduced mod N). *)
Section Injective.
  Variable w : widths.
  Variables p q : Z.
  Hypothesis Hw : widths_ok w.
  Hypothesis Hk : key_ok w p q.
  Let n := p * q.
  Let sk := from_pq w p q.
  Let pk := sk_pk sk.

  Lemma enc_mod_n m r : 0 <= m < n -> encrypt w pk m r mod n = r ^ n mod n.
  Proof.
    intros Hm.
    destruct (key_basic w p q Hw Hk) as (Pp & Pq & Hne & Hp3 & Hq3 & Hp & Hq & Hn & _).
    fold n in Hn. assert (Hn0 : 0 < n) by (subst n; nia).
    change (cong n (encrypt w pk m r) (r ^ n)).
    apply cong_trans with ((1 + m * n) * r ^ n).
    - apply cong_dvd with (n * n); [lia|nia|exists n; ring|]. apply (enc_form w p q Hw Hk). exact Hm.
    - apply cong_div; [lia|]. exists (m * r ^ n). ring.
  Qed.

  Lemma enc_root m r : 0 <= m < n -> 0 <= r < n -> Z.gcd r n = 1 ->
    extract_n_root w sk (encrypt w pk m r mod n) = r.
  Proof. intros Hm Hr Hg. rewrite enc_mod_n by assumption. apply (nroot_gcd w p q Hw Hk); assumption. Qed.

  Lemma enc_injective m r m' r' : 0 <= m < n -> 0 <= m' < n -> 0 <= r < n -> 0 <= r' < n ->
    Z.gcd r n = 1 -> Z.gcd r' n = 1 -> encrypt w pk m r = encrypt w pk m' r' -> m = m' /\ r = r'.
  Proof.
    intros Hm Hm' Hr Hr' Hg Hg' E. split.
    - rewrite <- (S_dec_enc w p q Hw Hk m r) by (try assumption; lia).
      rewrite <- (S_dec_enc w p q Hw Hk m' r') by (try assumption; lia).
      fold sk pk. rewrite E. reflexivity.
    - rewrite <- (enc_root m r) by assumption. rewrite <- (enc_root m' r') by assumption. rewrite E. reflexivity.
  Qed.
End Injective.

Section Statements.
  Variable w : widths.
  Variables p q : Z.
  Hypothesis Hw : widths_ok w.
  Hypothesis Hk : key_ok w p q.
  Let n := p * q.
  Let sk := from_pq w p q.
  Let pk := sk_pk sk.

  Lemma S_add_hom_any c1 m1 c2 m2 : carries p q c1 m1 -> carries p q c2 m2 ->
    carries p q (add w pk c1 c2) (m1 + m2) /\
    decrypt w sk (add w pk c1 c2) = (m1 + m2) mod n /\ decrypt_fast w sk (add w pk c1 c2) = (m1 + m2) mod n.
  Proof.
    intros H1 H2. pose proof (carries_add w p q Hw Hk c1 m1 c2 m2 H1 H2) as H.
    split; [exact H|]. apply (carries_dec w p q Hw Hk). exact H.
  Qed.

  Lemma S_mul_hom_any c m k : carries p q c m -> 0 <= k < n ->
    carries p q (mul w pk c k) (k * m) /\ mul_vartime w pk c k = mul w pk c k /\
    decrypt w sk (mul w pk c k) = (k * m) mod n /\ decrypt_fast w sk (mul w pk c k) = (k * m) mod n.
  Proof.
    intros H1 Hkn. pose proof (scalar_fits w p q Hw Hk k Hkn) as Hkk.
    pose proof (carries_mul w p q Hw Hk c m k H1 Hkk) as H.
    split; [exact H|]. split; [apply (mul_vartime_eq w p q Hw Hk); exact Hkk|].
    apply (carries_dec w p q Hw Hk). exact H.
  Qed.

  Lemma S_tree e : hwf n e ->
    decrypt w sk (hct w pk e) = hval e mod n /\ decrypt_fast w sk (hct w pk e) = hval e mod n /\
    hct w pk e = hct_spec (n * n) (encrypt w pk) e /\ hct w pk (devar e) = hct w pk e.
  Proof.
    intros He. destruct (tree_decrypts w p q Hw Hk e He) as [D1 D2].
    split; [exact D1|]. split; [exact D2|]. split; [apply (tree_closed w p q Hw Hk); exact He|apply (tree_devar w p q Hw Hk); exact He].
  Qed.
End Statements.

(** a concrete deep tree with wrap-around at every level (non-vacuity of [hwf] and of the conclusion) *)
Example hom_tree_example :
  let e := HMul (HAdd (HMulV (HAdd (HEnc 100 2) (HEnc 150 3)) 186) (HEnc 186 5)) 186 in
  hwf (11 * 17) e /\ hval e > 1000 * (11 * 17) /\
  decrypt cfg512 (from_pq cfg512 11 17) (hct cfg512 (sk_pk (from_pq cfg512 11 17)) e) = 64.
Proof. cbv zeta. split; [|split]; vm_compute; intuition congruence. Qed.
