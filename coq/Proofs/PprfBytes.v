(** Byte-string algebra used by the C06 proofs: fixed-length XOR, XOR sums, list update. *)
From SL Require Import Lib.Base Model.Pprf.
Local Open Scope nat_scope.

Arguments bxor : simpl never.
Arguments fit : simpl never.
Arguments zeros : simpl never.

Definition bytes_eq_dec : forall a b : bytes, {a = b} + {a <> b} := list_eq_dec N.eq_dec.
Definition bytess_eq_dec : forall a b : list bytes, {a = b} + {a <> b} := list_eq_dec bytes_eq_dec.

Lemma zeros_length n : length (zeros n) = n.
Proof. apply repeat_length. Qed.

Lemma fit_length n l : length (fit n l) = n.
Proof.
  unfold fit. rewrite app_length, firstn_length, zeros_length. lia.
Qed.

Lemma fit_id n l : length l = n -> fit n l = l.
Proof.
  intros <-. unfold fit. rewrite firstn_all, Nat.sub_diag. cbn. apply app_nil_r.
Qed.

Lemma fit_fit n l : fit n (fit n l) = fit n l.
Proof. apply fit_id, fit_length. Qed.

Lemma fit_nil n : fit n [] = zeros n.
Proof. unfold fit. rewrite firstn_nil. cbn. rewrite Nat.sub_0_r. reflexivity. Qed.

Lemma bxor_length a b n : length a = n -> length b = n -> length (bxor a b) = n.
Proof.
  intros Ha Hb. unfold bxor. rewrite map_length, combine_length. lia.
Qed.

Lemma bxor_comm a b : bxor a b = bxor b a.
Proof.
  unfold bxor. revert b. induction a as [|x a IH]; destruct b as [|y b]; cbn; try reflexivity.
  rewrite N.lxor_comm. f_equal. apply IH.
Qed.

Lemma bxor_assoc a b c : bxor a (bxor b c) = bxor (bxor a b) c.
Proof.
  unfold bxor. revert b c. induction a as [|x a IH]; destruct b as [|y b]; destruct c as [|z c]; cbn; try reflexivity.
  rewrite N.lxor_assoc. f_equal. apply IH.
Qed.

Lemma bxor_self a : bxor a a = zeros (length a).
Proof.
  unfold bxor, zeros. induction a as [|x a IH]; cbn; [reflexivity|].
  rewrite N.lxor_nilpotent. f_equal. apply IH.
Qed.

Lemma bxor_zeros_r a n : length a = n -> bxor a (zeros n) = a.
Proof.
  intros <-. unfold bxor, zeros. induction a as [|x a IH]; cbn; [reflexivity|].
  rewrite N.lxor_0_r. f_equal. apply IH.
Qed.

Lemma bxor_zeros_l a n : length a = n -> bxor (zeros n) a = a.
Proof. intros. rewrite bxor_comm. apply bxor_zeros_r. assumption. Qed.

Lemma bxor_cancel_r a b n : length a = n -> length b = n -> bxor (bxor a b) b = a.
Proof.
  intros Ha Hb. rewrite <- bxor_assoc, bxor_self, Hb. apply bxor_zeros_r. assumption.
Qed.

Lemma bxor_cancel_l a b n : length a = n -> length b = n -> bxor b (bxor b a) = a.
Proof.
  intros Ha Hb. rewrite bxor_assoc, bxor_self, Hb. apply bxor_zeros_l. assumption.
Qed.

(** a non-zero difference changes the string *)
Lemma bxor_neq a d n : length a = n -> length d = n -> d <> zeros n -> bxor a d <> a.
Proof.
  intros Ha Hd Hnz E. apply Hnz.
  rewrite <- (bxor_cancel_l d a n Hd Ha). rewrite E, bxor_self, Ha. reflexivity.
Qed.

Lemma bxor_diff a b n : length a = n -> length b = n -> a <> b -> bxor a b <> zeros n.
Proof.
  intros Ha Hb Hne E. apply Hne.
  rewrite <- (bxor_cancel_r a b n Ha Hb). rewrite E. apply bxor_zeros_l. assumption.
Qed.

(** XOR sum of a list of n-byte strings *)
Definition xsum (n : nat) (l : list bytes) : bytes := fold_right bxor (zeros n) l.
Definition all_len (n : nat) (l : list bytes) : Prop := Forall (fun x => length x = n) l.

Lemma xsum_length n l : all_len n l -> length (xsum n l) = n.
Proof.
  induction 1 as [|x l Hx Hl IH]; cbn; [apply zeros_length|]. apply bxor_length; assumption.
Qed.

Lemma fold_left_bxor n l a : all_len n l -> length a = n -> fold_left bxor l a = bxor a (xsum n l).
Proof.
  intros Hl. revert a. induction Hl as [|x l Hx Hl IH]; intros a Ha; cbn.
  - symmetry. apply bxor_zeros_r. assumption.
  - rewrite IH by (apply bxor_length; assumption). rewrite bxor_assoc. reflexivity.
Qed.

(** the receiver's fold: XOR of f y over a duplicate-free index list, skipping y = ystar *)
Definition skip_fold (f : nat -> bytes) (ystar : nat) (l : list nat) (a : bytes) : bytes :=
  fold_left (fun a y => if Nat.eqb y ystar then a else bxor a (f y)) l a.

Lemma skip_fold_notin n f ystar l a :
  ~ In ystar l -> (forall y, In y l -> length (f y) = n) -> length a = n ->
  skip_fold f ystar l a = bxor a (xsum n (map f l)).
Proof.
  unfold skip_fold. revert a. induction l as [|y l IH]; intros a Hni Hf Ha; cbn.
  - symmetry. apply bxor_zeros_r. assumption.
  - destruct (Nat.eqb_spec y ystar) as [->|Hne]; [exfalso; apply Hni; left; reflexivity|].
    rewrite IH.
    + rewrite bxor_assoc. reflexivity.
    + intros Hin. apply Hni. right. assumption.
    + intros z Hz. apply Hf. right. assumption.
    + apply bxor_length; [assumption|]. apply Hf. left. reflexivity.
Qed.

Lemma skip_fold_in n f ystar l a :
  NoDup l -> In ystar l -> (forall y, In y l -> length (f y) = n) -> length a = n ->
  skip_fold f ystar l a = bxor a (bxor (xsum n (map f l)) (f ystar)).
Proof.
  revert a. induction l as [|y l IH]; intros a Hnd Hin Hf Ha; [destruct Hin|].
  apply NoDup_cons_iff in Hnd. destruct Hnd as [Hny Hnd'].
  assert (Hfl : forall z, In z l -> length (f z) = n) by (intros z Hz; apply Hf; right; assumption).
  assert (Hxs : length (xsum n (map f l)) = n).
  { apply xsum_length. apply Forall_forall. intros x Hx. apply in_map_iff in Hx. destruct Hx as [z [<- Hz]]. auto. }
  unfold skip_fold in *. cbn [fold_left map xsum fold_right].
  destruct (Nat.eqb_spec y ystar) as [->|Hne].
  - fold (skip_fold f ystar l a). rewrite (skip_fold_notin n) by assumption.
    f_equal. fold (xsum n (map f l)).
    rewrite (bxor_comm (f ystar)). symmetry. apply (bxor_cancel_r _ _ n); [assumption|]. apply Hf. left. reflexivity.
  - destruct Hin as [E|Hin]; [contradiction|].
    rewrite IH; try assumption.
    + fold (xsum n (map f l)). rewrite !bxor_assoc. reflexivity.
    + apply bxor_length; [assumption|]. apply Hf. left. reflexivity.
Qed.

Lemma skip_fold_ext f g ystar l a :
  (forall y, In y l -> y <> ystar -> f y = g y) -> skip_fold f ystar l a = skip_fold g ystar l a.
Proof.
  unfold skip_fold. revert a. induction l as [|y l IH]; intros a Hfg; cbn; [reflexivity|].
  destruct (Nat.eqb_spec y ystar) as [->|Hne].
  - apply IH. intros z Hz. apply Hfg. right. assumption.
  - rewrite (Hfg y) by (auto; left; reflexivity). apply IH. intros z Hz. apply Hfg. right. assumption.
Qed.

(** shifting the start value by d shifts the result by d *)
Lemma skip_fold_shift n f ystar l a d :
  (forall y, In y l -> length (f y) = n) -> length a = n -> length d = n ->
  skip_fold f ystar l (bxor a d) = bxor (skip_fold f ystar l a) d.
Proof.
  unfold skip_fold. revert a. induction l as [|y l IH]; intros a Hf Ha Hd; cbn; [reflexivity|].
  assert (Hfl : forall z, In z l -> length (f z) = n) by (intros z Hz; apply Hf; right; assumption).
  destruct (Nat.eqb_spec y ystar) as [->|Hne]; [apply IH; assumption|].
  rewrite <- IH; try assumption.
  - f_equal. rewrite <- !bxor_assoc. f_equal. apply bxor_comm.
  - apply bxor_length; [assumption|]. apply Hf. left. reflexivity.
Qed.

Lemma skip_fold_length n f ystar l a :
  (forall y, In y l -> length (f y) = n) -> length a = n -> length (skip_fold f ystar l a) = n.
Proof.
  unfold skip_fold. revert a. induction l as [|y l IH]; intros a Hf Ha; cbn; [assumption|].
  assert (Hfl : forall z, In z l -> length (f z) = n) by (intros z Hz; apply Hf; right; assumption).
  destruct (Nat.eqb y ystar); apply IH; try assumption.
  apply bxor_length; [assumption|]. apply Hf. left. reflexivity.
Qed.

(* ------------------------------------------------------------------ upd *)
Lemma upd_length {A} i (v : A) l : length (upd i v l) = length l.
Proof. revert i. induction l as [|x l IH]; destruct i; cbn; auto. Qed.

Lemma nth_upd_same {A} i (v d : A) l : i < length l -> nth i (upd i v l) d = v.
Proof.
  revert i. induction l as [|x l IH]; destruct i; cbn; intros Hi; try lia; [reflexivity|]. apply IH. lia.
Qed.

Lemma nth_upd_other {A} i j (v d : A) l : i <> j -> nth j (upd i v l) d = nth j l d.
Proof.
  revert i j. induction l as [|x l IH]; destruct i, j; cbn; intros Hij; try reflexivity; try lia.
  apply IH. lia.
Qed.

Lemma upd_ge {A} i (v : A) l : length l <= i -> upd i v l = l.
Proof.
  revert i. induction l as [|x l IH]; destruct i; cbn; intros Hi; try reflexivity; try lia.
  f_equal. apply IH. lia.
Qed.

(** two lists of equal length with equal entries are equal *)
Lemma nth_ext_d {A} (d : A) l l' :
  length l = length l' -> (forall i, i < length l -> nth i l d = nth i l' d) -> l = l'.
Proof. intros Hl Hn. apply (nth_ext l l' d d Hl Hn). Qed.
