(** C11 for the OT stack and the random VOLE: the `process` functions that consume a peer's protocol message.
    The messages are fixed-size arrays in Rust (bytemuck / serde arrays), modelled as lists read with total
    accessors, so malformed CONTENT can only lead to [Err] (decode error, invalid proof, consistency-check
    abort) -- the only explicit panic sites are the `assert_eq!(len_a + len_b, XI)` of the base-OT RVOLE variant.
    Each lemma is for EVERY message (any list shape, any bytes), every oracle, every group, every local state. *)
From SL Require Import Lib.Base Lib.Oracle Gen.Params Model.SoftSpoken Model.Endemic Model.RvoleCore Model.Rvole.
From SL Require Model.Pprf.

(** ** Endemic base OT *)
Lemma eot_sender_process_total G (O : group_ops G) (H : transcript_oracle) sid msg1 tbs :
  is_panic (snd (eot_sender_process G O H sid msg1 tbs)) = false.
Proof. unfold eot_sender_process. cbv beta iota zeta delta [snd]. destruct (existsb _ _); reflexivity. Qed.

Lemma eot_receiver_process_total G (O : group_ops G) (H : transcript_oracle) st msg2 :
  is_panic (eot_receiver_process G O H st msg2) = false.
Proof. unfold eot_receiver_process. destruct (existsb _ _); reflexivity. Qed.

(** number of keys the two `process` functions return, whatever the message was *)
Lemma eot_sender_keys_len G (O : group_ops G) (H : transcript_oracle) sid msg1 tbs ks :
  snd (eot_sender_process G O H sid msg1 tbs) = Val ks -> length ks = eot_n.
Proof.
  unfold eot_sender_process. cbv beta iota zeta delta [snd]. destruct (existsb _ _); [discriminate|].
  intros E. apply (f_equal (fun o => match o with Val x => length x | _ => 0%nat end)) in E. cbv beta iota in E.
  rewrite <- E. unfold send_all. rewrite !map_length, seq_length. reflexivity.
Qed.

Lemma eot_receiver_keys_len G (O : group_ops G) (H : transcript_oracle) st msg2 b ks :
  eot_receiver_process G O H st msg2 = Val (b, ks) -> length ks = eot_n.
Proof.
  unfold eot_receiver_process. destruct (existsb _ _); [discriminate|].
  intros E. apply (f_equal (fun o => match o with Val x => length (snd x) | _ => 0%nat end)) in E.
  cbv beta iota delta [snd] in E.
  rewrite <- E. unfold recv_all. rewrite !map_length, seq_length. reflexivity.
Qed.

(** ** PPRF (all-but-one OT): eval_pprf on the sender's PPRFOutput *)
Lemma eval_tree_total (H : transcript_oracle) sid cs fs m : is_panic (Pprf.eval_tree H sid cs fs m) = false.
Proof.
  unfold Pprf.eval_tree. destruct (Pprf.eval_tree_core H sid cs fs m) as [[y s] dg].
  destruct (bytes_eqb _ _); reflexivity.
Qed.

Lemma eval_trees_total (H : transcript_oracle) sid inp : is_panic (Pprf.eval_trees H sid inp) = false.
Proof.
  induction inp as [|[[cs fs] m] r IH]; [reflexivity|]. cbn [Pprf.eval_trees].
  pose proof (eval_tree_total H sid cs fs m) as T.
  destruct (Pprf.eval_tree H sid cs fs m) as [x|e|k]; cbn [obind]; [|reflexivity|discriminate].
  destruct (Pprf.eval_trees H sid r) as [xs|e|k]; cbn [obind]; [reflexivity|reflexivity|exact IH].
Qed.

Lemma eval_pprf_total (H : transcript_oracle) sid choice_bits recv_keys msg :
  is_panic (Pprf.eval_pprf H sid choice_bits recv_keys msg) = false.
Proof. apply eval_trees_total. Qed.

(** ** SoftSpoken OT extension: the sender on the receiver's Round1Output *)
Lemma ss_sender_total (H : transcript_oracle) sid seed msg : is_panic (ss_sender H sid seed msg) = false.
Proof. unfold ss_sender. destruct (send_check _ _ _ _); reflexivity. Qed.

(** ** RVOLE, OT-extension variant *)
Lemma rvole_send_process_total (H : transcript_oracle) q sid seed a r1 eta :
  is_panic (rvole_send_process H q sid seed a r1 eta) = false.
Proof.
  unfold rvole_send_process. pose proof (ss_sender_total H sid seed r1) as T.
  destruct (ss_sender H sid seed r1); [reflexivity|reflexivity|exact T].
Qed.

Lemma rvole_recv_core_total (H : transcript_oracle) q xi lb rho sid beta vx m :
  is_panic (rvole_recv_core H q xi lb rho sid beta vx m) = false.
Proof. unfold rvole_recv_core. destruct (bytes_eqb _ _); reflexivity. Qed.

Lemma rvole_recv_process_total (H : transcript_oracle) q st m :
  is_panic (rvole_recv_process H q st m) = false.
Proof. apply rvole_recv_core_total. Qed.

(** ** RVOLE, base-OT variant: the assert_eq! sites *)
Lemma rv_two_halves : (Nat.eqb (eot_n + eot_n) rv_xi) = true.
Proof. vm_compute. reflexivity. Qed.

Lemma rvole_ot_send_process_total (H : transcript_oracle) q G (O : group_ops G) sid a m1a m1b tbs_a tbs_b eta :
  is_panic (snd (rvole_ot_send_process H q G O sid a m1a m1b tbs_a tbs_b eta)) = false.
Proof.
  unfold rvole_ot_send_process. destruct (ot_sids H sid) as [sa sb].
  destruct (eot_sender_process G O H sa m1a tbs_a) as [m2a ra] eqn:Ea.
  destruct ra as [ka|e|k]; [|reflexivity|reflexivity].
  destruct (eot_sender_process G O H sb m1b tbs_b) as [m2b rb] eqn:Eb.
  destruct rb as [kb|e|k]; [|reflexivity|reflexivity].
  pose proof (eot_sender_keys_len G O H sa m1a tbs_a ka) as La. rewrite Ea in La. specialize (La eq_refl).
  pose proof (eot_sender_keys_len G O H sb m1b tbs_b kb) as Lb. rewrite Eb in Lb. specialize (Lb eq_refl).
  rewrite La, Lb, rv_two_halves. reflexivity.
Qed.

Lemma rvole_ot_recv_process_total (H : transcript_oracle) q G (O : group_ops G) st m2a m2b m :
  is_panic (rvole_ot_recv_process H q G O st m2a m2b m) = false.
Proof.
  unfold rvole_ot_recv_process.
  destruct (eot_receiver_process G O H (ro_a st) m2a) as [[ba ka]|e|k] eqn:Ea; [|reflexivity|].
  2:{ pose proof (eot_receiver_process_total G O H (ro_a st) m2a) as T. rewrite Ea in T. discriminate. }
  destruct (eot_receiver_process G O H (ro_b st) m2b) as [[bb kb]|e|k] eqn:Eb; [|reflexivity|].
  2:{ pose proof (eot_receiver_process_total G O H (ro_b st) m2b) as T. rewrite Eb in T. discriminate. }
  rewrite (eot_receiver_keys_len _ _ _ _ _ _ _ Ea), (eot_receiver_keys_len _ _ _ _ _ _ _ Eb), rv_two_halves.
  unfold rvole_ot_recv_core. apply rvole_recv_core_total.
Qed.

(** RVOLEReceiver::new of the base-OT variant reads no peer data; its assert compares the lengths of the two
    LOCAL choice-bit strings (fixed-size arrays in Rust) -- it holds exactly when they add up to XI/8 bytes *)
Lemma rvole_ot_recv_new_total (H : transcript_oracle) q G (O : group_ops G) sid bits_a tas_a ros_a bits_b tas_b ros_b :
  (length bits_a + length bits_b = Nat.div rv_xi 8)%nat ->
  is_panic (rvole_ot_recv_new H q G O sid bits_a tas_a ros_a bits_b tas_b ros_b) = false.
Proof.
  intros L. unfold rvole_ot_recv_new. destruct (ot_sids H sid) as [sa sb].
  unfold eot_receiver_new. cbn [rs_bits]. rewrite L, Nat.eqb_refl. reflexivity.
Qed.

(** non-vacuity of the premise: two 32-byte choice strings (the sizes of the Rust arrays) *)
Example rv_recv_new_premise_satisfiable :
  (length (repeat 0%N 32) + length (repeat 0%N 32) = Nat.div rv_xi 8)%nat.
Proof. vm_compute. reflexivity. Qed.
