(** C16: what [Inner::cleanup] computes, and that it does not depend on the order in which the
    [BinaryHeap] hands out its entries (any order among equal keys, in fact any order among due entries).

    [cleanup_loop_exact]    the pop-min loop of the model removes exactly the store entries that are [dead]
                            (a due heap entry of the matching kind exists; for waiters: and their stored
                            maximum expiry has passed) and leaves exactly the heap entries with [when > now];
    [cleanup_rel]           the NONDETERMINISTIC loop: at every iteration any entry with the smallest [when]
                            may be the one [peek]ed, and the heap left by [pop] is any rearrangement;
    [cleanup_rel_det]       every execution of the nondeterministic loop ends in the same store and the same
                            multiset of heap entries; [cleanup_loop_rel]: the model's loop is one of them;
    [cleanup_perm]          permuting the heap list does not change the result;
    [step_equiv], [trace_equiv]  hence whole histories are independent of heap order. *)
From SL Require Import Lib.Base Model.Relay Proofs.RelayMap.
From Coq Require Import Permutation.
Local Open Scope N_scope.

Definition is_due (now : time) (e : hentry) : bool := h_when e <=? now.
Definition is_later (now : time) (e : hentry) : bool := now <? h_when e.
Definition due now (h : list hentry) := filter (is_due now) h.
Definition later now (h : list hentry) := filter (is_later now) h.

Lemma is_later_due now e : is_later now e = negb (is_due now e).
Proof. unfold is_later, is_due. rewrite N.ltb_antisym. reflexivity. Qed.

(** the removal condition of the loop body *)
Definition matches (now : time) (e : hentry) (v : entry) : bool :=
  match v with
  | Ready _ _ => kind_eqb (h_kind e) KPub
  | Waiters exp _ => kind_eqb (h_kind e) KAsk && (exp <=? now)
  end.

Lemma expire_entry_alt now e m :
  expire_entry now e m =
  match lookup (h_id e) m with
  | Some v => if matches now e v then remove (h_id e) m else m
  | None => m
  end.
Proof. unfold expire_entry, matches. destruct (lookup (h_id e) m) as [[? ?|? ?]|]; reflexivity. Qed.

(** store key [k] is removed by processing the heap entries [l] *)
Definition dead (now : time) (l : list hentry) (m : list (msgid * entry)) (k : msgid) : bool :=
  match lookup k m with
  | Some v => existsb (fun e => id_eqb (h_id e) k && matches now e v) l
  | None => false
  end.

Definition sweep (now : time) (l : list hentry) (m : list (msgid * entry)) :=
  fold_left (fun m e => expire_entry now e m) l m.

Lemma dead_perm now l l' m k : Permutation l l' -> dead now l m k = dead now l' m k.
Proof. intros P. unfold dead. destruct (lookup k m); [apply existsb_perm; exact P|reflexivity]. Qed.

Lemma dead_nil now m k : dead now [] m k = false.
Proof. unfold dead. destruct (lookup k m); reflexivity. Qed.

Lemma filter_remove p k (m : list (msgid * entry)) :
  filter p (remove k m) = filter (fun x => negb (id_eqb k (fst x)) && p x) m.
Proof. rewrite remove_filter. apply filter_filter. Qed.

Lemma sweep_filter now l : forall m,
  sweep now l m = filter (fun kv => negb (dead now l m (fst kv))) m.
Proof.
  induction l as [|e l IH]; intros m.
  - cbn [sweep fold_left]. symmetry. apply filter_true_all. intros x _. rewrite dead_nil. reflexivity.
  - change (sweep now (e :: l) m) with (sweep now l (expire_entry now e m)).
    rewrite IH, expire_entry_alt.
    destruct (lookup (h_id e) m) as [v|] eqn:L; [destruct (matches now e v) eqn:M|].
    + (* the entry at h_id e is removed *)
      rewrite filter_remove.
      apply filter_ext. intros [k v'] . cbn [fst].
      destruct (id_eqb_spec (h_id e) k) as [E|N]; cbn [negb andb].
      * subst k. unfold dead at 1. rewrite L. cbn [existsb]. rewrite id_eqb_refl, M. reflexivity.
      * unfold dead. rewrite lookup_remove_neq by exact N.
        destruct (lookup k m) as [v2|]; [|reflexivity].
        cbn [existsb]. rewrite id_eqb_neq by exact N. reflexivity.
    + apply filter_ext. intros [k v']. cbn [fst]. f_equal. unfold dead.
      destruct (lookup k m) as [v2|] eqn:L2; [|reflexivity].
      cbn [existsb].
      destruct (id_eqb_spec (h_id e) k) as [E|N]; [|reflexivity].
      subst k. rewrite L in L2. inversion L2; subst. rewrite M. reflexivity.
    + apply filter_ext. intros [k v']. cbn [fst]. f_equal. unfold dead.
      destruct (lookup k m) as [v2|] eqn:L2; [|reflexivity].
      cbn [existsb].
      destruct (id_eqb_spec (h_id e) k) as [E|N]; [|reflexivity].
      subst k. congruence.
Qed.

(** ** pop_min *)

Lemma pop_min_none h : pop_min h = None -> h = [].
Proof.
  destruct h as [|e r]; [reflexivity|]. cbn [pop_min].
  destruct (pop_min r) as [[m r']|]; [destruct (h_when e <=? h_when m)|]; discriminate.
Qed.

Lemma pop_min_spec h e r : pop_min h = Some (e, r) ->
  exists a b, h = a ++ e :: b /\ r = a ++ b /\ Forall (fun x => h_when e <= h_when x) h.
Proof.
  revert e r. induction h as [|x t IH]; intros e r; cbn [pop_min]; [discriminate|].
  destruct (pop_min t) as [[m r']|] eqn:P.
  - destruct (IH m r' eq_refl) as (a & b & Ht & Hr & Hall).
    destruct (h_when x <=? h_when m) eqn:C; intros H; inversion H; subst e r; clear H.
    + apply N.leb_le in C. exists [], t. repeat split.
      constructor; [apply N.le_refl|].
      eapply Forall_impl; [|exact Hall]. cbn beta. intros y Hy. eapply N.le_trans; eassumption.
    + apply N.leb_gt in C. exists (x :: a), b. subst t r'. repeat split.
      constructor; [apply N.lt_le_incl; exact C|exact Hall].
  - apply pop_min_none in P. subst t. intros H; inversion H; subst. exists [], []. repeat split.
    constructor; [apply N.le_refl|constructor].
Qed.

Lemma min_later_all now e h :
  Forall (fun x => h_when e <= h_when x) h -> now < h_when e ->
  due now h = [] /\ later now h = h.
Proof.
  intros F L. split.
  - apply filter_false_all. intros x I. rewrite Forall_forall in F. specialize (F x I).
    unfold is_due. apply N.leb_gt. eapply N.lt_le_trans; eassumption.
  - apply filter_true_all. intros x I. rewrite Forall_forall in F. specialize (F x I).
    unfold is_later. apply N.ltb_lt. eapply N.lt_le_trans; eassumption.
Qed.

(** ** the model's loop *)

Lemma cleanup_loop_spec now : forall fuel h m, (length h <= fuel)%nat ->
  exists d, Permutation d (due now h) /\ cleanup_loop fuel now m h = (sweep now d m, later now h).
Proof.
  induction fuel as [|fuel IH]; intros h m Hl.
  - destruct h; [|cbn [length] in Hl; lia]. exists []. split; [constructor|reflexivity].
  - cbn [cleanup_loop]. destruct (pop_min h) as [[e rest]|] eqn:P.
    + destruct (pop_min_spec _ _ _ P) as (a & b & Hh & Hr & Hall).
      destruct (now <? h_when e) eqn:C.
      * apply N.ltb_lt in C. destruct (min_later_all now e h Hall C) as [D L].
        exists []. rewrite D, L. split; [constructor|reflexivity].
      * apply N.ltb_ge in C.
        assert (Hlr : (length rest <= fuel)%nat).
        { subst h rest. rewrite app_length in *. cbn [length] in Hl. lia. }
        destruct (IH rest (expire_entry now e m) Hlr) as (d' & Pd & Eq).
        exists (e :: d'). split.
        -- subst h rest. unfold due in *. rewrite !filter_app in *. cbn [filter].
           assert (Du : is_due now e = true) by (apply N.leb_le; exact C). rewrite Du.
           apply Permutation_cons_app. exact Pd.
        -- rewrite Eq. f_equal. subst h rest. unfold later. rewrite !filter_app. cbn [filter].
           rewrite is_later_due. replace (is_due now e) with true by (symmetry; apply N.leb_le; exact C).
           reflexivity.
    + apply pop_min_none in P. subst h. exists []. split; [constructor|reflexivity].
Qed.

Definition swept (now : time) (h : list hentry) (m : list (msgid * entry)) :=
  filter (fun kv => negb (dead now (due now h) m (fst kv))) m.

Lemma cleanup_loop_exact now h m :
  cleanup_loop (length h) now m h = (swept now h m, later now h).
Proof.
  destruct (cleanup_loop_spec now (length h) h m (le_n _)) as (d & P & E).
  rewrite E, sweep_filter. f_equal. apply filter_ext. intros kv. f_equal. apply dead_perm. exact P.
Qed.

Lemma cleanup_exact now s :
  cleanup now s = mkState (swept now (heap s) (msgs s)) (later now (heap s)) (queue s) (chan s).
Proof. unfold cleanup. rewrite cleanup_loop_exact. reflexivity. Qed.

(** ** the nondeterministic loop: BinaryHeap with an unspecified order among equal keys *)

Inductive cleanup_rel (now : time) :
  list (msgid * entry) -> list hentry -> list (msgid * entry) -> list hentry -> Prop :=
| cr_empty m : cleanup_rel now m [] m []
| cr_break m h e :                                   (* peek returns SOME entry with the smallest [when] *)
    In e h -> Forall (fun x => h_when e <= h_when x) h -> now < h_when e ->
    cleanup_rel now m h m h
| cr_pop m h e rest m' h' :
    Permutation h (e :: rest) ->                     (* the heap after pop: any arrangement of the others *)
    Forall (fun x => h_when e <= h_when x) h -> h_when e <= now ->
    cleanup_rel now (expire_entry now e m) rest m' h' ->
    cleanup_rel now m h m' h'.

Theorem cleanup_rel_det now m h m' h' :
  cleanup_rel now m h m' h' -> m' = swept now h m /\ Permutation h' (later now h).
Proof.
  induction 1 as [m|m h e I F L|m h e rest m' h' P F D R [IHm IHh]].
  - split; [|constructor]. unfold swept. symmetry. apply filter_true_all. intros x _.
    cbn [due filter]. rewrite dead_nil. reflexivity.
  - destruct (min_later_all now e h F L) as [Du La]. split.
    + unfold swept. rewrite Du. symmetry. apply filter_true_all. intros x _. rewrite dead_nil. reflexivity.
    + rewrite La. apply Permutation_refl.
  - assert (De : is_due now e = true) by (apply N.leb_le; exact D).
    split.
    + rewrite IHm. unfold swept. rewrite <- sweep_filter.
      change (sweep now (due now rest) (expire_entry now e m)) with (sweep now (e :: due now rest) m).
      rewrite sweep_filter. apply filter_ext. intros kv. f_equal. apply dead_perm.
      apply Permutation_sym. unfold due.
      eapply Permutation_trans; [apply filter_perm; exact P|]. cbn [filter]. rewrite De. apply Permutation_refl.
    + eapply Permutation_trans; [exact IHh|]. apply Permutation_sym. unfold later.
      eapply Permutation_trans; [apply filter_perm; exact P|]. cbn [filter].
      rewrite is_later_due, De. apply Permutation_refl.
Qed.

(** the model's loop is one execution of the nondeterministic loop *)
Lemma cleanup_loop_rel now : forall fuel h m, (length h <= fuel)%nat ->
  cleanup_rel now m h (fst (cleanup_loop fuel now m h)) (snd (cleanup_loop fuel now m h)).
Proof.
  induction fuel as [|fuel IH]; intros h m Hl.
  - destruct h; [constructor|cbn [length] in Hl; lia].
  - cbn [cleanup_loop]. destruct (pop_min h) as [[e rest]|] eqn:P.
    + destruct (pop_min_spec _ _ _ P) as (a & b & Hh & Hr & Hall).
      destruct (now <? h_when e) eqn:C.
      * apply N.ltb_lt in C. cbn [fst snd]. apply cr_break with e; auto.
        subst h. apply in_or_app. right; left; reflexivity.
      * apply N.ltb_ge in C. apply cr_pop with e rest; auto.
        -- subst h rest. apply Permutation_sym. apply Permutation_middle.
        -- apply IH. subst h rest. rewrite app_length in *. cbn [length] in Hl. lia.
    + apply pop_min_none in P. subst h. constructor.
Qed.

(** ** independence of the heap order *)

Lemma swept_perm now h h' m : Permutation h h' -> swept now h m = swept now h' m.
Proof.
  intros P. unfold swept. apply filter_ext. intros kv. f_equal. apply dead_perm.
  apply filter_perm. exact P.
Qed.

Theorem cleanup_perm now m h h' : Permutation h h' ->
  fst (cleanup_loop (length h) now m h) = fst (cleanup_loop (length h') now m h') /\
  Permutation (snd (cleanup_loop (length h) now m h)) (snd (cleanup_loop (length h') now m h')).
Proof.
  intros P. rewrite !cleanup_loop_exact. cbn [fst snd]. split.
  - apply swept_perm; exact P.
  - apply filter_perm; exact P.
Qed.

(** states that differ only in the arrangement of the heap *)
Definition state_equiv (s s' : state) : Prop :=
  msgs s = msgs s' /\ Permutation (heap s) (heap s') /\ queue s = queue s' /\ chan s = chan s'.

Lemma state_equiv_refl s : state_equiv s s.
Proof. repeat split; auto. Qed.

Lemma cleanup_equiv now s s' : state_equiv s s' -> state_equiv (cleanup now s) (cleanup now s').
Proof.
  intros (M & H & Q & C). rewrite !cleanup_exact. unfold state_equiv. cbn [msgs heap queue chan].
  rewrite <- M. repeat split; auto.
  - apply swept_perm; exact H.
  - apply filter_perm; exact H.
Qed.

Lemma inner_send_equiv f now s s' : state_equiv s s' -> state_equiv (inner_send f now s) (inner_send f now s').
Proof.
  intros E. unfold inner_send. destruct (Nat.leb (length f) HDR_SIZE); [exact E|].
  destruct (cleanup_equiv now s s' E) as (M & H & Q & C).
  cbv zeta. rewrite <- M.
  destruct (lookup (hdr_id f) (msgs (cleanup now s))) as [[? ?|? ?]|];
    unfold state_equiv; cbn [msgs heap queue chan]; rewrite <- ?M, <- ?Q, <- ?C; repeat split; auto.
Qed.

Lemma inner_recv_equiv c id ttl now s s' :
  state_equiv s s' -> state_equiv (inner_recv c id ttl now s) (inner_recv c id ttl now s').
Proof.
  intros E. unfold inner_recv.
  destruct (cleanup_equiv now s s' E) as (M & H & Q & C).
  cbv zeta. rewrite <- M.
  destruct (lookup id (msgs (cleanup now s))) as [[? ?|? ?]|];
    unfold state_equiv; cbn [msgs heap queue chan]; rewrite <- ?M, <- ?Q, <- ?C; repeat split; auto.
Qed.

Theorem step_equiv s s' o : state_equiv s s' ->
  snd (step s o) = snd (step s' o) /\ state_equiv (fst (step s o)) (fst (step s' o)).
Proof.
  intros E. destruct o as [c f t|f t|c|]; cbn [step].
  - destruct (negb (hdr_ok f)); [split; [reflexivity|exact E]|].
    destruct (Nat.eqb (length f) HDR_SIZE); cbn [fst snd]; split; auto.
    + apply inner_recv_equiv; exact E.
    + apply inner_send_equiv; exact E.
  - cbn [fst snd]. split; [reflexivity|apply inner_send_equiv; exact E].
  - destruct E as (M & H & Q & C). cbn [fst snd]. unfold pending. rewrite Q, C. split; [reflexivity|].
    unfold state_equiv. cbn [msgs heap queue chan]. repeat split; auto.
  - destruct E as (M & H & Q & C). cbn [fst snd]. rewrite M. split; [reflexivity|].
    repeat split; auto.
Qed.

Theorem trace_equiv h : forall s s', state_equiv s s' ->
  trace s h = trace s' h /\ state_equiv (exec s h) (exec s' h).
Proof.
  induction h as [|o r IH]; intros s s' E; cbn [trace exec fold_left]; [split; [reflexivity|exact E]|].
  destruct (step_equiv s s' o E) as [O E']. rewrite O.
  destruct (IH _ _ E') as [T X]. rewrite T. split; [reflexivity|exact X].
Qed.
