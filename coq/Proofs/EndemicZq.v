(** C05: non-vacuity.  The discrete-log group Z_q with a 33-byte encoding satisfies every
    hypothesis of the Endemic OT theorems ([group_laws], [enc33_roundtrip], [prime q]), and the
    hash-to-curve retry loop succeeds for a concrete oracle. *)
From SL Require Import Lib.Base Lib.Oracle Lib.ZqGroup Gen.Params Model.Endemic Proofs.Endemic.
From Coq Require Import Znumtheory.
Local Open Scope Z_scope.

Section Zq33.
  Variable q : Z.
  Hypothesis q_gt1 : 1 < q.

  (** [zq_group] with points encoded as 33 "bytes": the residue followed by 32 zeros *)
  Definition zq33_group : group_ops (zq q) := {|
    g_add := g_add (zq_group q q_gt1);
    g_neg := g_neg (zq_group q q_gt1);
    g_smul := g_smul (zq_group q q_gt1);
    g_gen := g_gen (zq_group q q_gt1);
    g_id := g_id (zq_group q q_gt1);
    g_eqb := g_eqb (zq_group q q_gt1);
    g_enc := fun a => Z.to_N (val q a) :: repeat 0%N 32;
    g_dec := fun l => match l with
                      | x :: r => if Nat.eqb (length r) 32 then Some (mk q q_gt1 (Z.of_N x)) else None
                      | [] => None
                      end;
  |}.

  Lemma zq33_group_laws : group_laws q zq33_group.
  Proof.
    pose proof (zq_group_laws q q_gt1) as L. destruct L.
    constructor.
    - exact gl_add_assoc.
    - exact gl_add_comm.
    - exact gl_add_id.
    - exact gl_add_neg.
    - exact gl_smul_mod.
    - exact gl_smul_add.
    - exact gl_smul_mul.
    - exact gl_smul_1.
    - exact gl_smul_0.
    - exact gl_smul_dist.
    - exact gl_gen_order.
    - exact gl_eqb.
    - intros a. cbn [zq33_group g_dec g_enc]. rewrite repeat_length. cbn [Nat.eqb].
      f_equal. apply zq_eq. rewrite val_mk. rewrite Z2N.id by apply (val_range q q_gt1). apply val_red.
    - intros a b E. cbn [zq33_group g_enc] in E. injection E as E.
      apply zq_eq. apply Z2N.inj in E; [assumption|apply (val_range q q_gt1)|apply (val_range q q_gt1)].
  Qed.

  Lemma zq33_roundtrip : enc33_roundtrip (zq q) zq33_group.
  Proof.
    intros p. unfold enc33.
    replace (33 - length (g_enc zq33_group p))%nat with 0%nat
      by (cbn [zq33_group g_enc length]; rewrite repeat_length; reflexivity).
    cbn [repeat]. rewrite app_nil_r. apply (gl_dec_enc q zq33_group zq33_group_laws).
  Qed.
End Zq33.

Lemma eot_lt_1_11 : 1 < 11. Proof. lia. Qed.

Lemma eot_prime_11 : prime 11.
Proof.
  apply prime_intro; [lia|]. intros n Hn.
  assert (n = 1 \/ n = 2 \/ n = 3 \/ n = 4 \/ n = 5 \/ n = 6 \/ n = 7 \/ n = 8 \/ n = 9 \/ n = 10) as D by lia.
  destruct D as [->|[->|[->|[->|[->|[->|[->|[->|[->| ->]]]]]]]]];
    apply Zgcd_1_rel_prime; reflexivity.
Qed.

(** an oracle answering 33 zero bytes to every query: the first challenge already decodes *)
Definition eot_zero_oracle : transcript_oracle := fun _ => repeat 0%N 33.

Lemma endemic_nonvacuous :
  group_laws 11 (zq33_group 11 eot_lt_1_11) /\
  enc33_roundtrip (zq 11) (zq33_group 11 eot_lt_1_11) /\
  prime 11 /\
  (forall ro idx sid pk, h_function_opt (zq 11) (zq33_group 11 eot_lt_1_11) eot_zero_oracle ro idx sid pk <> None).
Proof.
  split; [apply zq33_group_laws|]. split; [apply zq33_roundtrip|]. split; [exact eot_prime_11|].
  intros ro idx sid pk E0.
  pose proof (proj1 (h_function_exhausted_iff _ _ _ ro idx sid pk) E0 0%nat) as E.
  assert (L : (0 < h_fuel)%nat) by (unfold h_fuel; lia). specialize (E L). unfold eot_zero_oracle in E.
  cbn [repeat fix_byte0 zq33_group g_dec length Nat.eqb] in E. discriminate E.
Qed.
