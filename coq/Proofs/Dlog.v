From SL Require Import Lib.Base Lib.Oracle Gen.Params Model.Dlog.
From Coq Require Import Znumtheory.
Local Open Scope Z_scope.

Lemma app_inj_len {A} (l1 l1' l2 l2' : list A) :
  length l1 = length l1' -> l1 ++ l2 = l1' ++ l2' -> l1 = l1' /\ l2 = l2'.
Proof.
  revert l1'. induction l1 as [|x r IH]; destruct l1' as [|y r']; cbn; intros L E; try discriminate.
  - auto.
  - inversion E as [[Exy Er]]. destruct (IH r') as [-> ->]; [lia|assumption|auto].
Qed.

Section DlogProofs.
  Variable G : Type.
  Variable O : group_ops G.
  Variable H : transcript_oracle.
  Variable q : Z.
  Hypothesis q_pos : 1 < q.
  Hypothesis laws : group_laws q O.

  Notation smul := (g_smul O).
  Notation add := (g_add O).

  Lemma smul_mod_l k a : smul (k mod q) a = smul k a.
  Proof. symmetry. apply (gl_smul_mod q O laws). Qed.

  (** Completeness, for every secret (incl. 0), base point, transcript prefix, nonce and oracle. *)
  Lemma dlog_complete_lem x B pre r :
    fst (verify G O H q (fst (prove G O H q x B pre r)) (g_smul O x B) B pre) = true.
  Proof.
    unfold prove, verify, fiat_shamir. cbn [fst snd].
    apply (gl_eqb q O laws).
    set (c := Z.of_N (of_be (H (pre ++ fs_ops G O (g_smul O x B) (g_smul O r B) B))) mod q).
    rewrite smul_mod_l.
    rewrite (gl_smul_add q O laws). f_equal.
    rewrite (gl_smul_mul q O laws). reflexivity.
  Qed.

  (** A base point of full order: k*B = id only for k = 0 mod q (every non-identity point of a
      prime-order group). *)
  Definition full_order (B : G) : Prop := forall k, g_smul O k B = g_id O -> k mod q = 0.

  Lemma add_cancel_l a b c : add a b = add a c -> b = c.
  Proof.
    intros E. assert (E2 : add (g_neg O a) (add a b) = add (g_neg O a) (add a c)) by (rewrite E; reflexivity).
    rewrite !(gl_add_assoc q O laws) in E2.
    rewrite (gl_add_comm q O laws (g_neg O a) a), (gl_add_neg q O laws) in E2.
    rewrite (gl_add_comm q O laws (g_id O) b), (gl_add_comm q O laws (g_id O) c) in E2.
    rewrite !(gl_add_id q O laws) in E2. exact E2.
  Qed.

  Lemma smul_neg1 a : smul (-1) a = g_neg O a.
  Proof.
    apply (add_cancel_l a). rewrite (gl_add_neg q O laws).
    rewrite <- (gl_smul_1 q O laws a) at 1. rewrite <- (gl_smul_add q O laws).
    replace (1 + -1) with 0 by lia. apply (gl_smul_0 q O laws).
  Qed.

  Lemma smul_eq_diff k l B : full_order B -> smul k B = smul l B -> (k - l) mod q = 0.
  Proof.
    intros HB E. apply HB. replace (k - l) with (k + (-1) * l) by lia.
    rewrite (gl_smul_add q O laws), (gl_smul_mul q O laws). rewrite <- E.
    rewrite smul_neg1. apply (gl_add_neg q O laws).
  Qed.

  (** The response is unique: for fixed (t, y, B, transcript) at most one s (mod q) verifies, so
      ANY change of the response is rejected, unconditionally. *)
  Lemma dlog_response_unique_lem t s s' y B pre : full_order B ->
    fst (verify G O H q (t, s) y B pre) = true ->
    fst (verify G O H q (t, s') y B pre) = true -> s mod q = s' mod q.
  Proof.
    unfold verify, fiat_shamir. cbn [fst snd]. intros HB E1 E2.
    apply (gl_eqb q O laws) in E1. apply (gl_eqb q O laws) in E2.
    assert (E : smul s B = smul s' B) by (rewrite E1, E2; reflexivity).
    apply smul_eq_diff in E; [|exact HB].
    apply Z.mod_divide in E; [|lia]. destruct E as [k E].
    replace s with (s' + k * q) by lia. apply Z_mod_plus_full.
  Qed.

  Lemma verify_fst t s y B pre :
    fst (verify G O H q (t, s) y B pre) =
    g_eqb O (smul s B) (add t (smul (fst (fiat_shamir G O H q y t B pre)) y)).
  Proof. reflexivity. Qed.

  (** The verification equation in the exponent: for y = x'*B and t = r'*B the proof (t, s) is
      accepted iff s = r' + c*x' (mod q) where c is the challenge for exactly this
      (y, t, B, transcript). *)
  Lemma verify_iff s r' x' B pre : full_order B ->
    let y := g_smul O x' B in let t := g_smul O r' B in
    let c := fst (fiat_shamir G O H q y t B pre) in
    fst (verify G O H q (t, s) y B pre) = true <-> (s - (r' + c * x')) mod q = 0.
  Proof.
    intros HB y t c. rewrite verify_fst. fold c.
    rewrite (gl_eqb q O laws). unfold y, t.
    rewrite <- (gl_smul_mul q O laws), <- (gl_smul_add q O laws). split.
    - intros E. apply smul_eq_diff in E; [|exact HB]. exact E.
    - intros E. apply Z.mod_divide in E; [|lia]. destruct E as [k E].
      replace s with ((r' + c * x') + k * q) by lia.
      rewrite <- (smul_mod_l (r' + c * x' + k * q)). rewrite Z_mod_plus_full. apply smul_mod_l.
  Qed.

  (** Mutation characterisation.  Honest proof (t, s) for secret x, nonce r, base B, transcript
      prefix pre, with honest challenge c0.  If it is accepted for a statement x'*B, a commitment
      shifted by d*B, under a transcript prefix pre' -- any combination -- then the FRESH challenge c'
      (the oracle value on the new query) satisfies one explicit linear equation whose other
      terms were fixed before c' existed. *)
  Lemma dlog_mutation_char_lem x r B pre x' d pre' : full_order B ->
    let t := g_smul O r B in
    let c0 := fst (fiat_shamir G O H q (g_smul O x B) t B pre) in
    let s := (r + c0 * x) mod q in
    let y' := g_smul O x' B in let t' := g_smul O (r + d) B in
    let c' := fst (fiat_shamir G O H q y' t' B pre') in
    fst (verify G O H q (t', s) y' B pre') = true -> (c0 * x - d - c' * x') mod q = 0.
  Proof.
    intros HB t c0 s y' t' c' E.
    apply (verify_iff s (r + d) x' B pre' HB) in E. fold y' t' c' in E.
    unfold s in E. rewrite Zminus_mod_idemp_l in E.
    replace (c0 * x - d - c' * x') with (r + c0 * x - (r + d + c' * x')) by lia. exact E.
  Qed.

  (** Mutation of the BASE POINT: the honest proof (t, s) for y = x*B is checked against the base point B' = b*B (every
      point of a group of prime order is such a multiple), under any transcript prefix.  Acceptance forces the fresh
      challenge c' -- the oracle value on a query that contains B' -- to satisfy one explicit linear equation. *)
  Lemma dlog_base_mutation_char_lem x r B pre b pre' : full_order B ->
    let t := g_smul O r B in let y := g_smul O x B in
    let c0 := fst (fiat_shamir G O H q y t B pre) in
    let s := (r + c0 * x) mod q in
    let B' := g_smul O b B in
    let c' := fst (fiat_shamir G O H q y t B' pre') in
    fst (verify G O H q (t, s) y B' pre') = true -> ((r + c0 * x) * b - r - c' * x) mod q = 0.
  Proof.
    intros HB t y c0 s B' c' E. rewrite verify_fst in E. fold c' in E.
    apply (gl_eqb q O laws) in E. unfold B', t, y in E.
    rewrite <- (gl_smul_mul q O laws), <- (gl_smul_mul q O laws), <- (gl_smul_add q O laws) in E.
    apply smul_eq_diff in E; [|exact HB].
    unfold s in E. rewrite <- Zminus_mod_idemp_l, Zmult_mod_idemp_l, Zminus_mod_idemp_l in E.
    replace ((r + c0 * x) * b - r - c' * x) with ((r + c0 * x) * b - (r + c' * x)) by lia. exact E.
  Qed.

  (** ... so for a prime order, x <> 0: the swapped base point is accepted only if c' is the single value
      ((r + c0 x) b - r) / x, fixed before the oracle was asked about B'. *)
  Lemma dlog_base_mutation_single_point_lem x r B pre b pre' c'' : prime q -> full_order B -> x mod q <> 0 ->
    let t := g_smul O r B in let y := g_smul O x B in
    let c0 := fst (fiat_shamir G O H q y t B pre) in
    let s := (r + c0 * x) mod q in
    let B' := g_smul O b B in
    let c' := fst (fiat_shamir G O H q y t B' pre') in
    fst (verify G O H q (t, s) y B' pre') = true ->
    0 <= c'' < q -> ((r + c0 * x) * b - r - c'' * x) mod q = 0 -> c' = c''.
  Proof.
    intros Hp HB Hx t y c0 s B' c' E R2 M2.
    pose proof (dlog_base_mutation_char_lem x r B pre b pre' HB E) as M1. cbv zeta in M1. fold t y c0 B' c' in M1.
    apply Z.mod_divide in M1; [|lia]. apply Z.mod_divide in M2; [|lia].
    assert (D : (q | (c'' - c') * x)).
    { replace ((c'' - c') * x) with (((r + c0 * x) * b - r - c' * x) - ((r + c0 * x) * b - r - c'' * x)) by lia.
      apply Z.divide_sub_r; assumption. }
    destruct (prime_mult q Hp _ _ D) as [D1|D1].
    - assert (R1 : 0 <= c' < q) by (unfold c', fiat_shamir; cbn [fst]; apply Z.mod_pos_bound; lia).
      destruct D1 as [k D1]. assert (k = 0) by nia. lia.
    - exfalso. apply Hx. apply Z.mod_divide; [lia|exact D1].
  Qed.

  (** For a prime group order and x <> 0: a proof replayed under another transcript context (same
      statement, commitment, base) is accepted only if the two challenges collide. *)
  Lemma dlog_context_binding_lem x r B pre pre' : prime q -> full_order B -> x mod q <> 0 ->
    let t := g_smul O r B in let y := g_smul O x B in
    let c0 := fst (fiat_shamir G O H q y t B pre) in
    let c' := fst (fiat_shamir G O H q y t B pre') in
    fst (verify G O H q (t, (r + c0 * x) mod q) y B pre') = true -> c' = c0.
  Proof.
    intros Hp HB Hx t y c0 c' E.
    pose proof (dlog_mutation_char_lem x r B pre x 0 pre' HB) as M. cbv zeta in M.
    replace (r + 0) with r in M by lia. specialize (M E). fold t y c0 c' in M.
    replace (c0 * x - 0 - c' * x) with ((c0 - c') * x) in M by lia.
    apply Z.mod_divide in M; [|lia].
    destruct (prime_mult q Hp _ _ M) as [D|D].
    - assert (R0 : 0 <= c0 < q) by (unfold c0, fiat_shamir; cbn [fst]; apply Z.mod_pos_bound; lia).
      assert (R1 : 0 <= c' < q) by (unfold c', fiat_shamir; cbn [fst]; apply Z.mod_pos_bound; lia).
      destruct D as [k D]. assert (k = 0) by nia. lia.
    - exfalso. apply Hx. apply Z.mod_divide; [lia|exact D].
  Qed.

  (** The Fiat-Shamir query determines statement, commitment, base point and the whole transcript
      prefix (label, session id, party id, action): the challenge depends on all of them. *)
  Lemma fs_query_injective y t B pre y' t' B' pre' :
    pre ++ fs_ops G O y t B = pre' ++ fs_ops G O y' t' B' ->
    pre = pre' /\ y = y' /\ t = t' /\ B = B'.
  Proof.
    unfold fs_ops. intros E.
    assert (L : length pre = length pre').
    { apply (f_equal (@length top)) in E. rewrite !app_length in E. cbn in E. lia. }
    assert (E2 : pre = pre' /\ [TAppend L_y (g_enc O y); TAppend L_t (g_enc O t); TAppend L_base_point (g_enc O B);
         TChallenge dlog_label 32] = [TAppend L_y (g_enc O y'); TAppend L_t (g_enc O t');
         TAppend L_base_point (g_enc O B'); TChallenge dlog_label 32]).
    { apply app_inj_len; assumption. }
    destruct E2 as [-> E2]. inversion E2 as [[Ey Et EB]].
    repeat split; apply (gl_enc_inj q O laws); assumption.
  Qed.

  Lemma ctx_injective sid party action label sid' party' action' label' :
    new_dlog_proof sid party action label = new_dlog_proof sid' party' action' label' ->
    sid = sid' /\ party = party' /\ action = action' /\ label = label'.
  Proof. unfold new_dlog_proof. intros E. inversion E. auto. Qed.
End DlogProofs.

From SL Require Import Lib.ZqGroup.
Lemma lt_1_11 : 1 < 11. Proof. lia. Qed.

Lemma prime_11 : prime 11.
Proof.
  apply prime_intro; [lia|]. intros n Hn.
  assert (n = 1 \/ n = 2 \/ n = 3 \/ n = 4 \/ n = 5 \/ n = 6 \/ n = 7 \/ n = 8 \/ n = 9 \/ n = 10) as D by lia.
  destruct D as [->|[->|[->|[->|[->|[->|[->|[->|[->| ->]]]]]]]]];
    apply Zgcd_1_rel_prime; reflexivity.
Qed.

Lemma dlog_nonvacuous :
  group_laws 11 (zq_group 11 lt_1_11) /\ full_order (zq 11) (zq_group 11 lt_1_11) 11 (g_gen (zq_group 11 lt_1_11)) /\ prime 11.
Proof.
  split; [apply zq_group_laws|]. split; [|exact prime_11].
  intros k E. cbn [zq_group g_smul g_gen g_id] in E.
  apply (f_equal (val 11)) in E. rewrite !val_mk in E.
  rewrite (Z.mod_small 1) in E by lia. rewrite Z.mul_1_r in E. rewrite Z.mod_0_l in E by lia. exact E.
Qed.
