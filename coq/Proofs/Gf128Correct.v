(** C19 main theorem: the program generated from mul_poly.rs computes the GF(2^128)
    product on all 2^256 operand pairs.  Linearity of the generated program (from the
    type checks [gf_lin_a_ok]/[gf_lin_b_ok] and the soundness theorem [lin_s_sound]),
    bilinearity of the specification, agreement on the 128 x 128 monomial pairs. *)
From SL Require Import Lib.Base Model.ByteLang Model.Gf128 Gen.GfProg.
From SL Require Import Proofs.ByteLangLin Proofs.Gf128Spec Proofs.Gf128Basis.
Local Open Scope N_scope.

(** unfolding lemmas, then everything expensive stays opaque *)
Transparent gf_prog gf_spec_bytes mono.
Lemma gf_prog_unfold a b :
  gf_prog a b = firstn gf_result_len (nth gf_result_arr (arrs (run gf_body (gf_init a b))) []).
Proof. reflexivity. Qed.
Lemma gf_spec_bytes_unfold a b : gf_spec_bytes a b = to_le 16 (gf_spec (of_le a) (of_le b)).
Proof. reflexivity. Qed.
Lemma mono_unfold i : mono i = to_le 16 (N.shiftl 1 (N.of_nat i)).
Proof. reflexivity. Qed.
Opaque gf_prog gf_spec_bytes mono run gf_spec.

Lemma mono_eq i : mono i = to_le 16 (2 ^ N.of_nat i).
Proof. rewrite mono_unfold, N.shiftl_1_l. reflexivity. Qed.

(** * The initial environments of three runs are related *)

Lemma R_zeros c n : R c (repeat 0 n) (repeat 0 n) (repeat 0 n).
Proof. destruct c; cbn [R]; [apply lin3_repeat0|split; reflexivity]. Qed.
Lemma R_nil c : R c [] [] [].
Proof. destruct c; cbn [R]; [constructor|split; reflexivity]. Qed.

Lemma zeros_R (c : bool) (l : list N) : forall k,
  R c (nth k (map (fun n => repeat 0 (N.to_nat n)) l) [])
      (nth k (map (fun n => repeat 0 (N.to_nat n)) l) [])
      (nth k (map (fun n => repeat 0 (N.to_nat n)) l) []).
Proof.
  induction l as [|x l IH]; intros [|k]; cbn [map nth]; try apply R_nil; try apply R_zeros; apply IH.
Qed.

Lemma init_rel_b a b1 b2 : length b1 = length b2 ->
  Forall (inm 255) b1 -> Forall (inm 255) b2 ->
  rel cls_b [] (gf_init a b1) (gf_init a b2) (gf_init a (xorl b1 b2)).
Proof.
  intros L B1 B2. unfold gf_init. apply rel_mk; try reflexivity; [|constructor].
  split; [reflexivity|split; [reflexivity|]].
  intros [|[|k]].
  - change (nth 0 cls_b false) with false. cbn [nth R]. split; reflexivity.
  - change (nth 1 cls_b false) with true. cbn [nth R]. apply lin3_intro; assumption.
  - generalize (nth (S (S k)) cls_b false). intros c. cbn [nth]. apply zeros_R.
Qed.

Lemma init_rel_a a1 a2 b : length a1 = length a2 ->
  Forall (inm 255) a1 -> Forall (inm 255) a2 ->
  rel cls_a [] (gf_init a1 b) (gf_init a2 b) (gf_init (xorl a1 a2) b).
Proof.
  intros L B1 B2. unfold gf_init. apply rel_mk; try reflexivity; [|constructor].
  split; [reflexivity|split; [reflexivity|]].
  intros [|[|k]].
  - change (nth 0 cls_a false) with true. cbn [nth R]. apply lin3_intro; assumption.
  - change (nth 1 cls_a false) with false. cbn [nth R]. split; reflexivity.
  - generalize (nth (S (S k)) cls_a false). intros c. cbn [nth]. apply zeros_R.
Qed.

(** * The generated program is XOR-linear in each operand *)

Lemma res_cls_b : nth gf_result_arr cls_b false = true.
Proof. reflexivity. Qed.
Lemma res_cls_a : nth gf_result_arr cls_a false = true.
Proof. reflexivity. Qed.

Lemma gf_prog_lin3_b a b1 b2 : length b1 = length b2 -> Forall byteP b1 -> Forall byteP b2 ->
  lin3 (gf_prog a b1) (gf_prog a b2) (gf_prog a (xorl b1 b2)).
Proof.
  intros L B1 B2. rewrite !gf_prog_unfold.
  pose proof (lin_s_sound cls_b gf_body [] _ _ _ gf_lin_b_ok
                (init_rel_b a b1 b2 L (Forall_byte_inm _ B1) (Forall_byte_inm _ B2))) as [(_ & _ & HA) _].
  specialize (HA gf_result_arr). rewrite res_cls_b in HA. cbn [R] in HA.
  apply lin3_firstn, HA.
Qed.

Lemma gf_prog_lin3_a a1 a2 b : length a1 = length a2 -> Forall byteP a1 -> Forall byteP a2 ->
  lin3 (gf_prog a1 b) (gf_prog a2 b) (gf_prog (xorl a1 a2) b).
Proof.
  intros L B1 B2. rewrite !gf_prog_unfold.
  pose proof (lin_s_sound cls_a gf_body [] _ _ _ gf_lin_a_ok
                (init_rel_a a1 a2 b L (Forall_byte_inm _ B1) (Forall_byte_inm _ B2))) as [(_ & _ & HA) _].
  specialize (HA gf_result_arr). rewrite res_cls_a in HA. cbn [R] in HA.
  apply lin3_firstn, HA.
Qed.

Theorem gf_prog_xor_r a b1 b2 : length b1 = length b2 -> Forall byteP b1 -> Forall byteP b2 ->
  gf_prog a (xorl b1 b2) = xorl (gf_prog a b1) (gf_prog a b2).
Proof. intros. apply lin3_xorl, gf_prog_lin3_b; assumption. Qed.

Theorem gf_prog_xor_l a1 a2 b : length a1 = length a2 -> Forall byteP a1 -> Forall byteP a2 ->
  gf_prog (xorl a1 a2) b = xorl (gf_prog a1 b) (gf_prog a2 b).
Proof. intros. apply lin3_xorl, gf_prog_lin3_a; assumption. Qed.

(** the result length does not depend on the data (and is 16 on one pair, hence always) *)
Lemma gf_prog_length a b : bytes16 a = true -> bytes16 b = true -> length (gf_prog a b) = 16%nat.
Proof.
  intros Ha Hb.
  destruct (bytes16_inv a Ha) as [La Ba]. destruct (bytes16_inv b Hb) as [Lb Bb].
  assert (Hm : bytes16 (mono 0) = true) by (rewrite mono_eq; apply to_le_bytes16).
  destruct (bytes16_inv _ Hm) as [Lm Bm].
  pose proof (proj1 (lin3_length _ _ _ (gf_prog_lin3_b a b (mono 0) (eq_trans Lb (eq_sym Lm)) Bb Bm))) as E1.
  pose proof (proj1 (lin3_length _ _ _ (gf_prog_lin3_a a (mono 0) (mono 0) (eq_trans La (eq_sym Lm)) Ba Bm))) as E2.
  rewrite E1, E2.
  rewrite (gf_basis_agree_all 0 0) by lia.
  rewrite gf_spec_bytes_unfold. apply to_le_length.
Qed.

(** * Lifting to numbers below 2^128 *)

Definition P (A B : N) : list N := gf_prog (to_le 16 A) (to_le 16 B).

Lemma xorl_self l : xorl l l = repeat 0 (length l).
Proof. induction l as [|x r IH]; cbn [xorl length repeat]; [reflexivity|]. rewrite N.lxor_nilpotent, IH. reflexivity. Qed.

Lemma to_le_0 : to_le 16 0 = repeat 0 16.
Proof. reflexivity. Qed.

Lemma P_lxor_r A B1 B2 : P A (N.lxor B1 B2) = xorl (P A B1) (P A B2).
Proof.
  unfold P. rewrite to_le_lxor. apply gf_prog_xor_r; try apply to_le_bytes.
  rewrite !to_le_length. reflexivity.
Qed.

Lemma P_lxor_l A1 A2 B : P (N.lxor A1 A2) B = xorl (P A1 B) (P A2 B).
Proof.
  unfold P. rewrite to_le_lxor. apply gf_prog_xor_l; try apply to_le_bytes.
  rewrite !to_le_length. reflexivity.
Qed.

Lemma P_length A B : length (P A B) = 16%nat.
Proof. apply gf_prog_length; apply to_le_bytes16. Qed.

Lemma P_0_r A : P A 0 = to_le 16 0.
Proof.
  change 0 with (N.lxor 0 0) at 1. rewrite P_lxor_r, xorl_self, P_length. symmetry; apply to_le_0.
Qed.

Lemma P_0_l B : P 0 B = to_le 16 0.
Proof.
  change 0 with (N.lxor 0 0) at 1. rewrite P_lxor_l, xorl_self, P_length. symmetry; apply to_le_0.
Qed.

Lemma P_basis i j : (i < 128)%nat -> (j < 128)%nat ->
  P (2 ^ N.of_nat i) (2 ^ N.of_nat j) = to_le 16 (gf_spec (2 ^ N.of_nat i) (2 ^ N.of_nat j)).
Proof.
  intros Hi Hj. unfold P. rewrite <- !mono_eq.
  rewrite (gf_basis_agree_all i j Hi Hj).
  etransitivity; [apply gf_spec_bytes_unfold|].
  rewrite !mono_eq.
  rewrite !of_le_to_le16 by (apply pow2_lt128; assumption). reflexivity.
Qed.

Lemma P_mono_l i B : (i < 128)%nat -> B < two128 ->
  P (2 ^ N.of_nat i) B = to_le 16 (gf_spec (2 ^ N.of_nat i) B).
Proof.
  intros Hi.
  apply (basis_agree (list N) xorl (P (2 ^ N.of_nat i)) (fun B => to_le 16 (gf_spec (2 ^ N.of_nat i) B))).
  - intros; apply P_lxor_r.
  - intros. rewrite spec_lxor_r. apply to_le_lxor.
  - rewrite P_0_r, spec_0_r. reflexivity.
  - intros j Hj. apply P_basis; assumption.
Qed.

Theorem P_correct A B : A < two128 -> B < two128 -> P A B = to_le 16 (gf_spec A B).
Proof.
  intros HA HB. revert A HA.
  apply (basis_agree (list N) xorl (fun A => P A B) (fun A => to_le 16 (gf_spec A B))).
  - intros; apply P_lxor_l.
  - intros. rewrite spec_lxor_l by assumption. apply to_le_lxor.
  - rewrite P_0_l, spec_0_l. reflexivity.
  - intros i Hi. apply P_mono_l; assumption.
Qed.

(** * Main theorem and the field laws of the implementation *)

Theorem gf128_mul_correct_all a b : bytes16 a = true -> bytes16 b = true ->
  gf_prog a b = gf_spec_bytes a b.
Proof.
  intros Ha Hb.
  transitivity (P (of_le a) (of_le b)).
  { unfold P. rewrite !to_le_of_le16 by assumption. reflexivity. }
  rewrite P_correct by (apply of_le_lt16; assumption).
  symmetry. apply gf_spec_bytes_unfold.
Qed.

Lemma gf_prog_eq a b : bytes16 a = true -> bytes16 b = true ->
  gf_prog a b = to_le 16 (gf_spec (of_le a) (of_le b)).
Proof. intros. rewrite gf128_mul_correct_all by assumption. apply gf_spec_bytes_unfold. Qed.

Theorem gf_prog_closed a b : bytes16 a = true -> bytes16 b = true -> bytes16 (gf_prog a b) = true.
Proof. intros. rewrite gf_prog_eq by assumption. apply to_le_bytes16. Qed.

Theorem gf_prog_comm a b : bytes16 a = true -> bytes16 b = true -> gf_prog a b = gf_prog b a.
Proof.
  intros Ha Hb. rewrite !gf_prog_eq by assumption.
  rewrite spec_comm by (apply of_le_lt16; assumption). reflexivity.
Qed.

Theorem gf_prog_distr_r a b1 b2 : bytes16 a = true -> bytes16 b1 = true -> bytes16 b2 = true ->
  gf_prog a (xorl b1 b2) = xorl (gf_prog a b1) (gf_prog a b2).
Proof.
  intros _ H1 H2. destruct (bytes16_inv _ H1) as [L1 B1]. destruct (bytes16_inv _ H2) as [L2 B2].
  apply gf_prog_xor_r; try assumption. congruence.
Qed.

Theorem gf_prog_distr_l a1 a2 b : bytes16 a1 = true -> bytes16 a2 = true -> bytes16 b = true ->
  gf_prog (xorl a1 a2) b = xorl (gf_prog a1 b) (gf_prog a2 b).
Proof.
  intros H1 H2 _. destruct (bytes16_inv _ H1) as [L1 B1]. destruct (bytes16_inv _ H2) as [L2 B2].
  apply gf_prog_xor_l; try assumption. congruence.
Qed.

Lemma of_le_mono0 : of_le (mono 0) = 1.
Proof. rewrite mono_eq. apply of_le_to_le16. reflexivity. Qed.

Lemma mono0_bytes16 : bytes16 (mono 0) = true.
Proof. rewrite mono_eq. apply to_le_bytes16. Qed.

Theorem gf_prog_one_r a : bytes16 a = true -> gf_prog a (mono 0) = a.
Proof.
  intros Ha. rewrite gf_prog_eq by (try apply mono0_bytes16; assumption).
  rewrite of_le_mono0, spec_one_r. apply to_le_of_le16, Ha.
Qed.

Theorem gf_prog_one_l a : bytes16 a = true -> gf_prog (mono 0) a = a.
Proof.
  intros Ha. rewrite gf_prog_comm by (try apply mono0_bytes16; assumption).
  apply gf_prog_one_r, Ha.
Qed.

Theorem gf_prog_zero_r a : bytes16 a = true -> gf_prog a (repeat 0 16) = repeat 0 16.
Proof.
  intros Ha. rewrite <- to_le_0. rewrite gf_prog_eq by (try apply to_le_bytes16; assumption).
  rewrite of_le_to_le16 by reflexivity. rewrite spec_0_r. reflexivity.
Qed.

Theorem gf_prog_assoc a b c : bytes16 a = true -> bytes16 b = true -> bytes16 c = true ->
  gf_prog (gf_prog a b) c = gf_prog a (gf_prog b c).
Proof.
  intros Ha Hb Hc.
  assert (Hab : bytes16 (gf_prog a b) = true) by (apply gf_prog_closed; assumption).
  assert (Hbc : bytes16 (gf_prog b c) = true) by (apply gf_prog_closed; assumption).
  rewrite (gf_prog_eq (gf_prog a b) c Hab Hc).
  rewrite (gf_prog_eq a (gf_prog b c) Ha Hbc).
  rewrite (gf_prog_eq a b Ha Hb), (gf_prog_eq b c Hb Hc).
  pose proof (of_le_lt16 _ Ha) as La. pose proof (of_le_lt16 _ Hb) as Lb. pose proof (of_le_lt16 _ Hc) as Lc.
  rewrite !of_le_to_le16 by (apply spec_lt; assumption).
  rewrite spec_assoc by assumption. reflexivity.
Qed.
