(** C05: proofs about the Endemic base-OT model (coq/Model/Endemic.v).
    Part 1: oracle queries (injectivity, the retry loop), list plumbing, per-instance lemmas,
    characterisation of the outputs of the three protocol functions on ARBITRARY messages. *)
From SL Require Import Lib.Base Lib.Oracle Gen.Params Model.Endemic.
Local Open Scope Z_scope.

(** [decode_point (encode_point p) = Some p] for every point (k256's GroupEncoding round-trips on all
    points, the identity being 33 zero bytes).  A premise of the theorems, never an axiom. *)
Definition enc33_roundtrip (G : Type) (O : group_ops G) : Prop :=
  forall p, g_dec O (enc33 G O p) = Some p.

(* ------------------------------------------------------------------ generic list facts *)
Lemma nth_map_seq {A} (f : nat -> A) n idx d : (idx < n)%nat -> nth idx (map f (seq 0 n)) d = f idx.
Proof.
  intros L. rewrite (nth_indep _ d (f 0%nat)) by (rewrite map_length, seq_length; exact L).
  rewrite map_nth. rewrite seq_nth by exact L. reflexivity.
Qed.

Lemma existsb_map_seq {A} (f : nat -> A) (g : A -> bool) n :
  existsb g (map f (seq 0 n)) = true <-> exists i, (i < n)%nat /\ g (f i) = true.
Proof.
  rewrite existsb_exists. split.
  - intros [x [I Gx]]. apply in_map_iff in I. destruct I as [i [E I]]. apply in_seq in I.
    exists i. split; [lia|]. rewrite E. exact Gx.
  - intros [i [L Gi]]. exists (f i). split; [|exact Gi]. apply in_map. apply in_seq. lia.
Qed.

Lemma existsb_map_seq_false {A} (f : nat -> A) (g : A -> bool) n :
  existsb g (map f (seq 0 n)) = false <-> forall i, (i < n)%nat -> g (f i) = false.
Proof.
  split.
  - intros E i L. destruct (g (f i)) eqn:Gi; [|reflexivity].
    assert (T : existsb g (map f (seq 0 n)) = true) by (apply existsb_map_seq; exists i; auto).
    rewrite T in E. discriminate.
  - intros A0. destruct (existsb g (map f (seq 0 n))) eqn:E; [|reflexivity].
    apply existsb_map_seq in E. destruct E as [i [L Gi]]. rewrite (A0 i L) in Gi. discriminate.
Qed.

Lemma app_inj_len_eot {A} (l1 l1' l2 l2' : list A) :
  length l1 = length l1' -> l1 ++ l2 = l1' ++ l2' -> l1 = l1' /\ l2 = l2'.
Proof.
  revert l1'. induction l1 as [|x r IH]; destruct l1' as [|y r']; cbn; intros L E; try discriminate.
  - auto.
  - inversion E as [[Exy Er]]. destruct (IH r') as [-> ->]; [lia|assumption|auto].
Qed.

Lemma repeat_snoc {A} (c : A) k : repeat c k ++ [c] = repeat c (S k).
Proof. induction k as [|k IH]; cbn; [reflexivity|]. rewrite IH. reflexivity. Qed.

(* ------------------------------------------------------------------ u16 encodings *)
Lemma u16_be_inj v w : (v < 65536)%N -> (w < 65536)%N -> u16_be v = u16_be w -> v = w.
Proof.
  intros Lv Lw. unfold u16_be, to_be. rewrite !N.mod_small by assumption.
  change (to_le 2 v) with [(v mod 256)%N; ((v / 256) mod 256)%N].
  change (to_le 2 w) with [(w mod 256)%N; ((w / 256) mod 256)%N].
  intros E. apply (f_equal (@rev N)) in E. rewrite !rev_involutive in E.
  inversion E as [[E0 E1]].
  assert (Dv : (v / 256 < 256)%N) by (apply N.div_lt_upper_bound; lia).
  assert (Dw : (w / 256 < 256)%N) by (apply N.div_lt_upper_bound; lia).
  rewrite !N.mod_small in E1 by assumption.
  pose proof (N.div_mod v 256) as Mv. pose proof (N.div_mod w 256) as Mw. lia.
Qed.

Lemma ro_of_bit_lt c : (ro_of_bit c < 65536)%N.
Proof. destruct c; cbn; lia. Qed.

Lemma ro_of_bit_inj c c' : ro_of_bit c = ro_of_bit c' -> c = c'.
Proof. destruct c, c'; cbn; intros E; try reflexivity; discriminate. Qed.

Lemma eot_n_256 : eot_n = 256%nat.
Proof. reflexivity. Qed.

Lemma idx_lt_u16 idx : (idx < eot_n)%nat -> (N.of_nat idx < 65536)%N.
Proof. rewrite eot_n_256. lia. Qed.

(* ------------------------------------------------------------------ oracle queries *)
Lemma tappend_inj l a l' a' : TAppend l a = TAppend l' a' -> a = a'.
Proof. intros E. inversion E. reflexivity. Qed.

Lemma cons_inj {A} (x y : A) l l' : x :: l = y :: l' -> x = y /\ l = l'.
Proof. intros E. inversion E. auto. Qed.

Section Queries.
  Variable G : Type.
  Variable O : group_ops G.
  Variable H : transcript_oracle.

  (** the oracle input of the (k+1)-th iteration of [h_function]'s loop *)
  Definition h_query (ro idx : N) (sid : list N) (pk : G) (k : nat) : list top :=
    h_prefix G O ro idx sid pk ++ repeat eot_challenge (S k).

  (** two H2 queries that are different oracle inputs with the same answer *)
  Definition h2_collision (idx : N) (P P' : G) : Prop :=
    h2_query G O idx P <> h2_query G O idx P' /\ H (h2_query G O idx P) = H (h2_query G O idx P').

  (** [h_prefix] determines (ro, idx, sid) and the 33-byte encoding of pk -- with NO assumption on
      the group.  This is the statement that fails when a field is dropped from the transcript. *)
  Lemma h_prefix_inj ro idx sid pk ro' idx' sid' pk' :
    (ro < 65536)%N -> (ro' < 65536)%N -> (idx < 65536)%N -> (idx' < 65536)%N ->
    h_prefix G O ro idx sid pk = h_prefix G O ro' idx' sid' pk' ->
    ro = ro' /\ idx = idx' /\ sid = sid' /\ enc33 G O pk = enc33 G O pk'.
  Proof.
    intros L1 L2 L3 L4 E. unfold h_prefix in E.
    apply cons_inj in E. destruct E as [_ E].
    apply cons_inj in E. destruct E as [Es E]. apply tappend_inj in Es.
    apply cons_inj in E. destruct E as [Er E]. apply tappend_inj in Er.
    apply cons_inj in E. destruct E as [Ei E]. apply tappend_inj in Ei.
    apply cons_inj in E. destruct E as [Ep _]. apply tappend_inj in Ep.
    split; [apply u16_be_inj; assumption|]. split; [apply u16_be_inj; assumption|]. split; assumption.
  Qed.

  Lemma h_prefix_length ro idx sid pk : length (h_prefix G O ro idx sid pk) = 5%nat.
  Proof. reflexivity. Qed.

  Lemma h_query_inj ro idx sid pk k ro' idx' sid' pk' k' :
    (ro < 65536)%N -> (ro' < 65536)%N -> (idx < 65536)%N -> (idx' < 65536)%N ->
    h_query ro idx sid pk k = h_query ro' idx' sid' pk' k' ->
    ro = ro' /\ idx = idx' /\ sid = sid' /\ enc33 G O pk = enc33 G O pk' /\ k = k'.
  Proof.
    intros L1 L2 L3 L4 E. unfold h_query in E.
    apply app_inj_len_eot in E; [|rewrite !h_prefix_length; reflexivity].
    destruct E as [E1 E2]. apply h_prefix_inj in E1; auto.
    destruct E1 as [A [B [C D]]]. repeat split; auto.
    apply (f_equal (@length top)) in E2. rewrite !repeat_length in E2. lia.
  Qed.

  (** different session ids give different oracle inputs, whatever the other fields are *)
  Lemma h_query_sid_distinct ro idx sid pk k ro' idx' sid' pk' k' :
    sid <> sid' -> h_query ro idx sid pk k <> h_query ro' idx' sid' pk' k'.
  Proof.
    intros N0 E. unfold h_query, h_prefix in E. cbn [app] in E.
    apply cons_inj in E. destruct E as [_ E].
    apply cons_inj in E. destruct E as [Es _]. apply tappend_inj in Es. auto.
  Qed.

  Lemma h_query_ro_distinct c idx sid pk k idx' sid' pk' k' :
    h_query (ro_of_bit c) idx sid pk k <> h_query (ro_of_bit (negb c)) idx' sid' pk' k'.
  Proof.
    intros E. unfold h_query, h_prefix in E. cbn [app] in E.
    apply cons_inj in E. destruct E as [_ E].
    apply cons_inj in E. destruct E as [_ E].
    apply cons_inj in E. destruct E as [Er _]. apply tappend_inj in Er.
    apply u16_be_inj in Er; try apply ro_of_bit_lt. apply ro_of_bit_inj in Er. destruct c; discriminate.
  Qed.

  (** h_function and h_function_2 never ask the same query (labels differ) *)
  Lemma h_query_h2_distinct ro idx sid pk k idx' P : h_query ro idx sid pk k <> h2_query G O idx' P.
  Proof.
    intros E. unfold h_query, h_prefix, h2_query in E. cbn [app] in E.
    apply cons_inj in E. destruct E as [_ E].
    apply cons_inj in E. destruct E as [E _]. discriminate E.
  Qed.

  Lemma h2_query_inj idx P idx' P' :
    (idx < 65536)%N -> (idx' < 65536)%N ->
    h2_query G O idx P = h2_query G O idx' P' -> idx = idx' /\ enc33 G O P = enc33 G O P'.
  Proof.
    intros L1 L2 E. unfold h2_query in E.
    apply cons_inj in E. destruct E as [_ E].
    apply cons_inj in E. destruct E as [Ei E]. apply tappend_inj in Ei.
    apply cons_inj in E. destruct E as [Ep _]. apply tappend_inj in Ep.
    split; [apply u16_be_inj; assumption|assumption].
  Qed.

  (** The retry loop: when it succeeds, the result is the decoding of the oracle's answer to the
      (k+1)-th challenge on the transcript, all earlier answers being undecodable. *)
  Lemma h_loop_some fuel hist p :
    h_loop G O H fuel hist = Some p ->
    exists k, (k < fuel)%nat /\
      g_dec O (fix_byte0 (H (hist ++ repeat eot_challenge (S k)))) = Some p /\
      forall j, (j < k)%nat -> g_dec O (fix_byte0 (H (hist ++ repeat eot_challenge (S j)))) = None.
  Proof.
    revert hist. induction fuel as [|f IH]; intros hist E; [discriminate|].
    cbn [h_loop] in E.
    destruct (g_dec O (fix_byte0 (H (hist ++ [eot_challenge])))) as [p0|] eqn:D.
    - inversion E; subst p0. exists 0%nat. split; [lia|]. split; [exact D|]. intros j Lj; lia.
    - apply IH in E. destruct E as [k [Lk [Dk Nk]]]. exists (S k). split; [lia|].
      rewrite <- app_assoc in Dk. change ([eot_challenge] ++ repeat eot_challenge (S k)) with (repeat eot_challenge (S (S k))) in Dk.
      split; [exact Dk|]. intros j Lj. destruct j as [|j].
      + exact D.
      + specialize (Nk j ltac:(lia)). rewrite <- app_assoc in Nk. exact Nk.
  Qed.

  Lemma h_loop_none fuel hist :
    h_loop G O H fuel hist = None <->
    forall j, (j < fuel)%nat -> g_dec O (fix_byte0 (H (hist ++ repeat eot_challenge (S j)))) = None.
  Proof.
    revert hist. induction fuel as [|f IH]; intros hist.
    - cbn. split; [intros _ j L; lia|reflexivity].
    - cbn [h_loop]. destruct (g_dec O (fix_byte0 (H (hist ++ [eot_challenge])))) as [p0|] eqn:D.
      + split; [discriminate|]. intros A. specialize (A 0%nat ltac:(lia)). cbn [repeat] in A. rewrite D in A. discriminate.
      + rewrite IH. split.
        * intros A j Lj. destruct j as [|j]; [exact D|].
          specialize (A j ltac:(lia)). rewrite <- app_assoc in A. exact A.
        * intros A j Lj. specialize (A (S j) ltac:(lia)). rewrite <- app_assoc. exact A.
  Qed.

  (** [h_function] is an oracle output: the point decoded from the answer to one explicit query. *)
  Lemma h_function_is_oracle_output ro idx sid pk p :
    h_function_opt G O H ro idx sid pk = Some p ->
    h_function G O H ro idx sid pk = p /\
    exists k, (k < h_fuel)%nat /\ g_dec O (fix_byte0 (H (h_query ro idx sid pk k))) = Some p /\
      forall j, (j < k)%nat -> g_dec O (fix_byte0 (H (h_query ro idx sid pk j))) = None.
  Proof.
    intros E. split; [unfold h_function; rewrite E; reflexivity|].
    unfold h_function_opt in E. apply h_loop_some in E. exact E.
  Qed.

  (** fuel exhaustion = the first 64 answers are all undecodable (probability 2^-64 for a random
      oracle; never observed by the correspondence) *)
  Lemma h_function_exhausted_iff ro idx sid pk :
    h_function_opt G O H ro idx sid pk = None <->
    forall j, (j < h_fuel)%nat -> g_dec O (fix_byte0 (H (h_query ro idx sid pk j))) = None.
  Proof. unfold h_function_opt. apply h_loop_none. Qed.
End Queries.

Global Opaque h_function h_function_opt eot_n.
Arguments h_function_2 : simpl never.
Arguments enc33 : simpl never.

(* ------------------------------------------------------------------ per-instance lemmas *)
Section Instances.
  Variable G : Type.
  Variable O : group_ops G.
  Variable H : transcript_oracle.
  Variable q : Z.

  Notation smul := (g_smul O).
  Notation add := (g_add O).
  Notation neg := (g_neg O).
  Notation gen := (g_gen O).
  Notation hf := (h_function G O H).
  Notation h2 := (h_function_2 G O H).
  Notation e33 := (enc33 G O).
  Notation nomsg := (@nil N, @nil N).

  (** the Diffie-Hellman point the sender hashes for side [b], given the decoded r_0, r_1 *)
  Definition skey_point (sid : list N) (idx : N) (b : bool) (r0 r1 : G) (tb0 tb1 : Z) : G :=
    if b then smul tb1 (add r1 (hf 1%N idx sid r0)) else smul tb0 (add r0 (hf 0%N idx sid r1)).

  Definition send_at sid (msg1 : list (list N * list N)) (tbs : list (Z * Z)) (idx : nat) :=
    send_instance G O H sid (N.of_nat idx) (fst (nth idx msg1 nomsg)) (snd (nth idx msg1 nomsg))
                  (fst (nth idx tbs (0, 0))) (snd (nth idx tbs (0, 0))).

  Definition recv_at (st : recv_state) (msg2 : list (list N * list N)) (idx : nat) :=
    recv_process_instance G O H st idx (nth idx msg2 nomsg).

  Definition chosen_side (st : recv_state) (msg2 : list (list N * list N)) (idx : nat) : list N :=
    if bit_at (rs_bits st) idx then snd (nth idx msg2 nomsg) else fst (nth idx msg2 nomsg).

  Lemma send_all_eq sid msg1 tbs : send_all G O H sid msg1 tbs = map (send_at sid msg1 tbs) (seq 0 eot_n).
  Proof. reflexivity. Qed.

  Lemma recv_all_eq st msg2 : recv_all G O H st msg2 = map (recv_at st msg2) (seq 0 eot_n).
  Proof. reflexivity. Qed.

  Lemma send_instance_dec sid idx r0b r1b tb0 tb1 r0 r1 :
    g_dec O r0b = Some r0 -> g_dec O r1b = Some r1 ->
    send_instance G O H sid idx r0b r1b tb0 tb1 =
      ((e33 (smul tb0 gen), e33 (smul tb1 gen)),
       (h2 idx (skey_point sid idx false r0 r1 tb0 tb1), h2 idx (skey_point sid idx true r0 r1 tb0 tb1)),
       false).
  Proof. intros E0 E1. unfold send_instance, dec_or_id. rewrite E0, E1. reflexivity. Qed.

  Lemma send_instance_msg2 sid idx r0b r1b tb0 tb1 :
    fst (fst (send_instance G O H sid idx r0b r1b tb0 tb1)) = (e33 (smul tb0 gen), e33 (smul tb1 gen)).
  Proof. unfold send_instance, dec_or_id. destruct (g_dec O r0b), (g_dec O r1b); reflexivity. Qed.

  Lemma send_instance_flag sid idx r0b r1b tb0 tb1 :
    snd (send_instance G O H sid idx r0b r1b tb0 tb1) = true <-> g_dec O r0b = None \/ g_dec O r1b = None.
  Proof.
    unfold send_instance, dec_or_id. destruct (g_dec O r0b), (g_dec O r1b); cbn [snd orb]; split; intros A; auto;
      try discriminate; destruct A; discriminate.
  Qed.

  Lemma recv_instance_dec st idx mb p :
    g_dec O (if bit_at (rs_bits st) idx then snd mb else fst mb) = Some p ->
    recv_process_instance G O H st idx mb = (h2 (N.of_nat idx) (smul (nth idx (rs_ta st) 0) p), false).
  Proof. intros E. unfold recv_process_instance, dec_or_id. rewrite E. reflexivity. Qed.

  Lemma recv_instance_flag st idx mb :
    snd (recv_process_instance G O H st idx mb) = true <->
    g_dec O (if bit_at (rs_bits st) idx then snd mb else fst mb) = None.
  Proof.
    unfold recv_process_instance, dec_or_id.
    destruct (g_dec O (if bit_at (rs_bits st) idx then snd mb else fst mb)); cbn [snd]; split; intros A; auto; discriminate.
  Qed.

  (* ---------------------------------------------------------------- totality / verdicts *)
  Definition msg1_undecodable (msg1 : list (list N * list N)) : Prop :=
    exists idx, (idx < eot_n)%nat /\
      (g_dec O (fst (nth idx msg1 nomsg)) = None \/ g_dec O (snd (nth idx msg1 nomsg)) = None).

  Definition msg2_undecodable (st : recv_state) (msg2 : list (list N * list N)) : Prop :=
    exists idx, (idx < eot_n)%nat /\ g_dec O (chosen_side st msg2 idx) = None.

  Lemma sender_err_iff sid msg1 tbs :
    snd (eot_sender_process G O H sid msg1 tbs) = Err eot_err_decode <-> msg1_undecodable msg1.
  Proof.
    unfold eot_sender_process. cbn [snd]. rewrite send_all_eq.
    destruct (existsb snd (map (send_at sid msg1 tbs) (seq 0 eot_n))) eqn:E.
    - split; [intros _|reflexivity]. apply existsb_map_seq in E. destruct E as [i [L F]].
      exists i. split; [exact L|]. apply send_instance_flag in F. exact F.
    - split; [discriminate|]. intros [i [L D]]. exfalso.
      rewrite existsb_map_seq_false in E. specialize (E i L).
      assert (F : snd (send_at sid msg1 tbs i) = true) by (apply send_instance_flag; exact D).
      rewrite E in F. discriminate.
  Qed.

  Lemma sender_total sid msg1 tbs :
    snd (eot_sender_process G O H sid msg1 tbs) = Err eot_err_decode \/
    exists skeys, snd (eot_sender_process G O H sid msg1 tbs) = Val skeys /\ length skeys = eot_n.
  Proof.
    unfold eot_sender_process. cbn [snd].
    destruct (existsb snd (send_all G O H sid msg1 tbs)); [left; reflexivity|right].
    eexists. split; [reflexivity|]. rewrite map_length. unfold send_all. rewrite map_length, seq_length. reflexivity.
  Qed.

  Lemma sender_msg2_nth sid msg1 tbs idx : (idx < eot_n)%nat ->
    nth idx (fst (eot_sender_process G O H sid msg1 tbs)) nomsg =
      (e33 (smul (fst (nth idx tbs (0, 0))) gen), e33 (smul (snd (nth idx tbs (0, 0))) gen)).
  Proof.
    intros L. unfold eot_sender_process. cbn [fst]. rewrite send_all_eq, map_map.
    rewrite nth_map_seq by exact L. unfold send_at. apply send_instance_msg2.
  Qed.

  (** complete description of the sender's keys when it returns Val, for ARBITRARY message 1 *)
  Lemma sender_val_char sid msg1 tbs skeys idx :
    snd (eot_sender_process G O H sid msg1 tbs) = Val skeys -> (idx < eot_n)%nat ->
    exists r0 r1,
      g_dec O (fst (nth idx msg1 nomsg)) = Some r0 /\ g_dec O (snd (nth idx msg1 nomsg)) = Some r1 /\
      nth idx skeys nomsg =
        (h2 (N.of_nat idx) (skey_point sid (N.of_nat idx) false r0 r1 (fst (nth idx tbs (0, 0))) (snd (nth idx tbs (0, 0)))),
         h2 (N.of_nat idx) (skey_point sid (N.of_nat idx) true r0 r1 (fst (nth idx tbs (0, 0))) (snd (nth idx tbs (0, 0))))).
  Proof.
    unfold eot_sender_process. cbn [snd]. rewrite send_all_eq.
    destruct (existsb snd (map (send_at sid msg1 tbs) (seq 0 eot_n))) eqn:E; [discriminate|].
    intros V L. inversion V as [V']. clear V V'.
    rewrite existsb_map_seq_false in E. specialize (E idx L).
    rewrite map_map, nth_map_seq by exact L.
    destruct (g_dec O (fst (nth idx msg1 nomsg))) as [r0|] eqn:D0.
    2:{ exfalso. assert (F : snd (send_at sid msg1 tbs idx) = true) by (apply send_instance_flag; left; exact D0).
        rewrite E in F. discriminate. }
    destruct (g_dec O (snd (nth idx msg1 nomsg))) as [r1|] eqn:D1.
    2:{ exfalso. assert (F : snd (send_at sid msg1 tbs idx) = true) by (apply send_instance_flag; right; exact D1).
        rewrite E in F. discriminate. }
    exists r0, r1. split; [reflexivity|]. split; [reflexivity|].
    unfold send_at. rewrite (send_instance_dec _ _ _ _ _ _ r0 r1 D0 D1). reflexivity.
  Qed.

  Lemma receiver_err_iff st msg2 :
    eot_receiver_process G O H st msg2 = Err eot_err_decode <-> msg2_undecodable st msg2.
  Proof.
    unfold eot_receiver_process. rewrite recv_all_eq.
    destruct (existsb snd (map (recv_at st msg2) (seq 0 eot_n))) eqn:E.
    - split; [intros _|reflexivity]. apply existsb_map_seq in E. destruct E as [i [L F]].
      exists i. split; [exact L|]. apply recv_instance_flag in F. exact F.
    - split; [discriminate|]. intros [i [L D]]. exfalso.
      rewrite existsb_map_seq_false in E. specialize (E i L).
      assert (F : snd (recv_at st msg2 i) = true) by (apply recv_instance_flag; exact D).
      rewrite E in F. discriminate.
  Qed.

  Lemma receiver_total st msg2 :
    eot_receiver_process G O H st msg2 = Err eot_err_decode \/
    exists rkeys, eot_receiver_process G O H st msg2 = Val (rs_bits st, rkeys) /\ length rkeys = eot_n.
  Proof.
    unfold eot_receiver_process.
    destruct (existsb snd (recv_all G O H st msg2)); [left; reflexivity|right].
    eexists. split; [reflexivity|]. rewrite map_length. unfold recv_all. rewrite map_length, seq_length. reflexivity.
  Qed.

  (** complete description of the receiver's keys when it returns Val, for ARBITRARY message 2 *)
  Lemma receiver_val_char st msg2 bits rkeys idx :
    eot_receiver_process G O H st msg2 = Val (bits, rkeys) -> (idx < eot_n)%nat ->
    bits = rs_bits st /\
    exists mb, g_dec O (chosen_side st msg2 idx) = Some mb /\
      nth idx rkeys [] = h2 (N.of_nat idx) (smul (nth idx (rs_ta st) 0) mb).
  Proof.
    unfold eot_receiver_process. rewrite recv_all_eq.
    destruct (existsb snd (map (recv_at st msg2) (seq 0 eot_n))) eqn:E; [discriminate|].
    intros V L. inversion V as [[V1 V2]]. clear V. split; [reflexivity|].
    rewrite existsb_map_seq_false in E. specialize (E idx L).
    rewrite map_map, nth_map_seq by exact L.
    destruct (g_dec O (chosen_side st msg2 idx)) as [mb|] eqn:D.
    2:{ exfalso. assert (F : snd (recv_at st msg2 idx) = true) by (apply recv_instance_flag; exact D).
        rewrite E in F. discriminate. }
    exists mb. split; [reflexivity|]. unfold recv_at. rewrite (recv_instance_dec _ _ _ mb D). reflexivity.
  Qed.
End Instances.
