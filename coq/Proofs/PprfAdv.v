(** C06: whole-message versions of the tamper characterisation, and the calibrated adversarial sender
    [adv_pprf] (selective failure).  For every oracle H. *)
From SL Require Import Lib.Base Lib.Oracle Gen.Params Model.Pprf
     Proofs.PprfBytes Proofs.PprfTree Proofs.Pprf Proofs.PprfTamper.
Local Open Scope nat_scope.

Definition bits_eq_dec : forall a b : list bool, {a = b} + {a <> b} := list_eq_dec Bool.bool_dec.

Section Adv.
  Variable H : transcript_oracle.
  Variable sid : bytes.
  Notation P := (leaf_proof H sid).

  (* ---------------------------------------------------------------- whole message: used word / t_tilda *)
  Lemma build_msgs_length K n sk tt : length (map snd (build_pprf_gen H K n sid sk tt)) = n.
  Proof. unfold build_pprf_gen. rewrite !map_length, seq_length. reflexivity. Qed.

  Lemma fst_build_tree ks tt0 : fst (build_tree H sid ks tt0) = sender_leaves H sid ks.
  Proof. rewrite build_tree_eq. reflexivity. Qed.

  Lemma slice_ne {A} K n j (l : list A) : 0 < K -> length l = n * K -> j < n -> tree_slice K j l <> [].
  Proof.
    intros HK Hl Hj E. pose proof (tree_slice_length K j n l Hl Hj) as L. rewrite E in L. cbn in L. lia.
  Qed.

  (** a used correction word of tree j shifted by delta <> 0: accepted -> explicit collision *)
  Lemma tamper_char_t_gen K n sk cb rk tt j level delta r :
    0 < K -> ot_consistent_gen K n sk cb rk -> tt_zero tt -> j < n -> S level < K ->
    fit LB delta <> zeros LB ->
    let ms := map snd (build_pprf_gen H K n sid sk tt) in
    let leaves := fst (nth j (build_pprf_gen H K n sid sk tt) dbuild) in
    eval_pprf_gen H K n sid cb rk
      (upd j (map_t (fun w => bxor w (fit LB delta)) level (extract_bit cb (j * K + S level)) (nth j ms default_msg)) ms)
      = Val r ->
    (exists ps', hash_collision H sid (map P leaves) ps') \/ leaf_collision H sid \/ prg_collision H sid.
  Proof.
    intros HK Hc Htt Hj Hl HD. cbv zeta. intros E.
    unfold eval_pprf_gen, eval_inputs in E.
    destruct (eval_trees_seq_inv H sid _ n 0 r E) as [_ Hr]. specialize (Hr j Hj). cbn [Nat.add eval_tree'] in Hr.
    rewrite nth_upd_same in Hr by (rewrite build_msgs_length; exact Hj).
    rewrite nth_build_msgs in Hr by exact Hj. rewrite nth_build by exact Hj.
    set (ks := tree_slice K j sk) in *. set (cs := tree_bits K j cb) in *. set (fs := tree_slice K j rk) in *.
    assert (Hok : okeys ks cs fs) by (apply (okeys_slice K n); assumption).
    assert (Hne : ks <> []) by (apply (slice_ne K n); [exact HK|apply Hc|exact Hj]).
    assert (Lks : length ks = K) by (apply (tree_slice_length K j n); [apply Hc|exact Hj]).
    rewrite <- (nth_tree_bits K j cb (S level) Hl) in Hr. fold cs in Hr.
    apply eval_tree_val_inv in Hr. destruct Hr as [_ Hd].
    rewrite fst_build_tree.
    assert (Hs : p_s_tilda (map_t (fun w => bxor w (fit LB delta)) level (nth (S level) cs false)
                              (snd (build_tree H sid ks (nth j tt [])))) = proof_hash H sid (map P (sender_leaves H sid ks))).
    { rewrite build_tree_eq. reflexivity. }
    rewrite Hs in Hd.
    destruct (bytess_eq_dec (recv_view H sid cs fs
                 (map_t (fun w => bxor w (fit LB delta)) level (nth (S level) cs false)
                        (snd (build_tree H sid ks (nth j tt []))))) (map P (sender_leaves H sid ks))) as [Ev|Nv].
    - right. apply (tampered_word_view H sid ks cs fs (nth j tt []) level delta); try assumption. lia.
    - left. eexists. split; [|symmetry; exact Hd]. intros E2. apply Nv. symmetry. exact E2.
  Qed.

  (** t_tilda of tree j replaced by any other value: accepted -> collision of the proof hash *)
  Lemma tamper_char_tt_gen K n sk cb rk tt j v r :
    0 < K -> ot_consistent_gen K n sk cb rk -> tt_zero tt -> j < n ->
    let ms := map snd (build_pprf_gen H K n sid sk tt) in
    let leaves := fst (nth j (build_pprf_gen H K n sid sk tt) dbuild) in
    fit LB2 v <> p_t_tilda (nth j ms default_msg) ->
    eval_pprf_gen H K n sid cb rk (upd j (set_t_tilda v (nth j ms default_msg)) ms) = Val r ->
    exists ps', hash_collision H sid (map P leaves) ps'.
  Proof.
    intros HK Hc Htt Hj. cbv zeta. intros Hv E.
    unfold eval_pprf_gen, eval_inputs in E.
    destruct (eval_trees_seq_inv H sid _ n 0 r E) as [_ Hr]. specialize (Hr j Hj). cbn [Nat.add eval_tree'] in Hr.
    rewrite nth_upd_same in Hr by (rewrite build_msgs_length; exact Hj).
    rewrite nth_build_msgs in Hr, Hv by exact Hj. rewrite nth_build by exact Hj.
    set (ks := tree_slice K j sk) in *. set (cs := tree_bits K j cb) in *. set (fs := tree_slice K j rk) in *.
    assert (Hok : okeys ks cs fs) by (apply (okeys_slice K n); assumption).
    assert (Hne : ks <> []) by (apply (slice_ne K n); [exact HK|apply Hc|exact Hj]).
    apply eval_tree_val_inv in Hr. destruct Hr as [_ Hd].
    rewrite fst_build_tree.
    assert (Hs : p_s_tilda (set_t_tilda v (snd (build_tree H sid ks (nth j tt [])))) =
                 proof_hash H sid (map P (sender_leaves H sid ks))).
    { rewrite build_tree_eq. reflexivity. }
    rewrite Hs in Hd.
    eexists. split; [|symmetry; exact Hd].
    intros E2. apply (tampered_tt_view H sid ks cs fs (nth j tt []) v Hok Hne (Htt j) Hv). symmetry. exact E2.
  Qed.

  (* ---------------------------------------------------------------- the adversary, one tree *)
  Lemma okeys_keys_for ks : forall g, length g = length ks -> okeys ks g (keys_for ks g).
  Proof.
    induction ks as [|k ks IH]; intros [|c g] Hl; cbn in Hl; try discriminate; [exact I|].
    cbn. split; [reflexivity|]. apply IH. lia.
  Qed.

  Lemma okeys_unique ks : forall cs fs, okeys ks cs fs -> fs = keys_for ks cs.
  Proof.
    induction ks as [|k ks IH]; intros [|c cs] [|f fs] Hok; cbn in Hok; try contradiction; [reflexivity|].
    destruct Hok as [-> Hok]. cbn. f_equal. apply IH. exact Hok.
  Qed.

  Definition tamper_msg (ks : list (bytes * bytes)) (tt0 : bytes) (level : nat) (side : bool) (delta : bytes) : pprf_msg :=
    map_t (fun w => bxor w (fit LB delta)) level side (snd (build_tree H sid ks tt0)).

  Lemma adv_tree_eq ks tt0 level side delta g :
    adv_tree H sid ks tt0 level side delta g =
    (sender_leaves H sid ks,
     set_s_tilda (proof_hash H sid (recv_view H sid g (keys_for ks g) (tamper_msg ks tt0 level side delta)))
                 (tamper_msg ks tt0 level side delta)).
  Proof.
    unfold adv_tree, tamper_msg. rewrite build_tree_eq. cbn [snd]. rewrite eval_tree_core_eq. reflexivity.
  Qed.

  Lemma recv_state_unused cs fs m level f :
    recv_state H sid cs fs (p_t (map_t f level (negb (nth (S level) cs false)) m)) = recv_state H sid cs fs (p_t m).
  Proof.
    unfold recv_state, map_t. cbn [p_t].
    destruct (nth_error (p_t m) level) as [[a b]|] eqn:E; [|reflexivity].
    symmetry. apply eval_levels_ts_equiv. rewrite <- nth_tl. apply upd_unused. exact E.
  Qed.

  Lemma recv_view_unused cs fs m level f :
    recv_view H sid cs fs (map_t f level (negb (nth (S level) cs false)) m) = recv_view H sid cs fs m.
  Proof. unfold recv_view. rewrite recv_state_unused. reflexivity. Qed.

  Lemma eval_tree_set_s_tilda cs fs m d :
    eval_tree H sid cs fs (set_s_tilda d m) =
    if bytes_eqb (proof_hash H sid (recv_view H sid cs fs m)) d
    then Val (snd (recv_state H sid cs fs (p_t m)), fst (recv_state H sid cs fs (p_t m)))
    else Err err_invalid_proof.
  Proof. unfold eval_tree. rewrite eval_tree_core_set_s_tilda, eval_tree_core_eq. reflexivity. Qed.

  (** right guess: accepted, for every delta, level, side, oracle *)
  Lemma adv_tree_right ks cs fs tt0 level side delta :
    okeys ks cs fs ->
    exists v, eval_tree H sid cs fs (snd (adv_tree H sid ks tt0 level side delta cs)) = Val v.
  Proof.
    intros Hok. rewrite adv_tree_eq. cbn [snd]. rewrite eval_tree_set_s_tilda.
    rewrite <- (okeys_unique ks cs fs Hok).
    replace (bytes_eqb _ _) with true by (symmetry; apply bytes_eqb_eq; reflexivity).
    eexists. reflexivity.
  Qed.

  Lemma negb_of_ne (a b : bool) : a <> b -> b = negb a.
  Proof. destruct a, b; intros; try reflexivity; contradiction. Qed.

  (** neither the receiver nor the guessed receiver reads the tampered word: accepted *)
  Lemma adv_tree_unused ks cs fs tt0 level side delta g :
    okeys ks cs fs -> ks <> [] -> length g = length ks -> fit LB2 tt0 = zeros LB2 ->
    nth (S level) cs false <> side -> nth (S level) g false <> side ->
    exists v, eval_tree H sid cs fs (snd (adv_tree H sid ks tt0 level side delta g)) = Val v.
  Proof.
    intros Hok Hne Hg Htt Hc Hgs. rewrite adv_tree_eq. cbn [snd]. rewrite eval_tree_set_s_tilda.
    assert (Vg : recv_view H sid g (keys_for ks g) (tamper_msg ks tt0 level side delta) = map P (sender_leaves H sid ks)).
    { unfold tamper_msg. rewrite (negb_of_ne _ _ Hgs). rewrite recv_view_unused.
      apply recv_view_honest; [apply okeys_keys_for|..]; assumption. }
    assert (Vc : recv_view H sid cs fs (tamper_msg ks tt0 level side delta) = map P (sender_leaves H sid ks)).
    { unfold tamper_msg. rewrite (negb_of_ne _ _ Hc). rewrite recv_view_unused.
      apply recv_view_honest; assumption. }
    rewrite Vg, Vc.
    replace (bytes_eqb _ _) with true by (symmetry; apply bytes_eqb_eq; reflexivity).
    eexists. reflexivity.
  Qed.

  (** the residual event of the only-if direction: both paths read the tampered word, they differ, and yet
      the 2^K proof values they derive from the tampered message coincide *)
  Definition view_coincidence (ks : list (bytes * bytes)) (tt0 : bytes) (level : nat) (side : bool) (delta : bytes)
             (cs g : list bool) : Prop :=
    nth (S level) cs false = side /\ nth (S level) g false = side /\ cs <> g /\
    recv_view H sid cs (keys_for ks cs) (tamper_msg ks tt0 level side delta) =
    recv_view H sid g (keys_for ks g) (tamper_msg ks tt0 level side delta).

  (** accepted -> right guess, or harmless, or an explicit coincidence *)
  Lemma adv_tree_only_if ks cs fs tt0 level side delta g v :
    okeys ks cs fs -> ks <> [] -> length g = length ks -> fit LB2 tt0 = zeros LB2 ->
    S level < length ks -> fit LB delta <> zeros LB ->
    eval_tree H sid cs fs (snd (adv_tree H sid ks tt0 level side delta g)) = Val v ->
    cs = g \/
    (nth (S level) cs false <> side /\ nth (S level) g false <> side) \/
    (exists ps ps', hash_collision H sid ps ps') \/ leaf_collision H sid \/ prg_collision H sid \/
    view_coincidence ks tt0 level side delta cs g.
  Proof.
    intros Hok Hne Hg Htt Hl HD E.
    rewrite adv_tree_eq in E. cbn [snd] in E. rewrite eval_tree_set_s_tilda in E.
    destruct (bytes_eqb _ _) eqn:Eb; [|discriminate]. apply bytes_eqb_eq in Eb. clear E.
    pose proof (okeys_unique ks cs fs Hok) as Efs. subst fs.
    pose proof (okeys_keys_for ks g Hg) as Hokg.
    set (m1 := tamper_msg ks tt0 level side delta) in *.
    destruct (bits_eq_dec cs g) as [Ecg|Ncg]; [left; exact Ecg|right].
    destruct (bytess_eq_dec (recv_view H sid cs (keys_for ks cs) m1) (recv_view H sid g (keys_for ks g) m1)) as [Ev|Nv].
    2:{ right. left. eexists. eexists. split; [exact Nv|exact Eb]. }
    destruct (Bool.bool_dec (nth (S level) cs false) side) as [Ec|Nc];
      destruct (Bool.bool_dec (nth (S level) g false) side) as [Eg|Ng].
    - (* both read the tampered word *)
      right. right. right. right. repeat split; assumption.
    - (* only the receiver reads it: the guessed view is the honest one *)
      right. right.
      assert (Hvg : recv_view H sid g (keys_for ks g) m1 = map P (sender_leaves H sid ks)).
      { unfold m1, tamper_msg. rewrite (negb_of_ne _ _ Ng). rewrite recv_view_unused.
        apply recv_view_honest; assumption. }
      rewrite Hvg in Ev. unfold m1, tamper_msg in Ev. rewrite <- Ec in Ev.
      destruct (tampered_word_view H sid ks cs (keys_for ks cs) tt0 level delta Hok Hne Hl HD Ev) as [A|B];
        [left; exact A|right; left; exact B].
    - (* only the guessed receiver reads it *)
      right. right.
      assert (Hvc : recv_view H sid cs (keys_for ks cs) m1 = map P (sender_leaves H sid ks)).
      { unfold m1, tamper_msg. rewrite (negb_of_ne _ _ Nc). rewrite recv_view_unused.
        apply recv_view_honest; assumption. }
      rewrite Hvc in Ev. symmetry in Ev. unfold m1, tamper_msg in Ev. rewrite <- Eg in Ev.
      destruct (tampered_word_view H sid ks g (keys_for ks g) tt0 level delta Hokg Hne Hl HD Ev) as [A|B];
        [left; exact A|right; left; exact B].
    - left. split; assumption.
  Qed.

  (* ---------------------------------------------------------------- the adversary, whole message *)
  Lemma nth_adv K n sk tt tree level side delta g j : j < n ->
    nth j (map snd (adv_pprf_gen H K n sid sk tt tree level side delta g)) default_msg =
    snd (if Nat.eqb j tree then adv_tree H sid (tree_slice K j sk) (nth j tt []) level side delta g
         else build_tree H sid (tree_slice K j sk) (nth j tt [])).
  Proof.
    intros Hj. change default_msg with (snd dbuild). rewrite map_nth. unfold adv_pprf_gen.
    rewrite nth_map_seq by exact Hj. reflexivity.
  Qed.

  (** the other trees of the adversarial message are honest and accepted; the verdict is that of [tree] *)
  Lemma adv_accept_iff_tree K n sk cb rk tt tree level side delta g :
    0 < K -> ot_consistent_gen K n sk cb rk -> tt_zero tt -> tree < n ->
    ((exists r, eval_pprf_gen H K n sid cb rk (map snd (adv_pprf_gen H K n sid sk tt tree level side delta g)) = Val r)
     <->
     (exists v, eval_tree H sid (tree_bits K tree cb) (tree_slice K tree rk)
                  (snd (adv_tree H sid (tree_slice K tree sk) (nth tree tt []) level side delta g)) = Val v)).
  Proof.
    intros HK Hc Htt Ht. unfold eval_pprf_gen, eval_inputs. split.
    - intros [r E]. destruct (eval_trees_seq_inv H sid _ n 0 r E) as [_ Hr]. specialize (Hr tree Ht).
      cbn [Nat.add eval_tree'] in Hr. rewrite nth_adv, Nat.eqb_refl in Hr by exact Ht. eexists. exact Hr.
    - intros [v Ev].
      destruct (eval_trees_seq_val H sid
                  (fun j => (tree_bits K j cb, tree_slice K j rk,
                             nth j (map snd (adv_pprf_gen H K n sid sk tt tree level side delta g)) default_msg))
                  (fun _ _ => True) n 0) as [r [E _]]; [|exists r; exact E].
      intros j Hj. cbn [Nat.add eval_tree']. rewrite nth_adv by exact Hj.
      destruct (Nat.eqb_spec j tree) as [->|Hne]; [exists v; split; [exact Ev|exact I]|].
      destruct (eval_tree_honest H sid (tree_slice K j sk) (tree_bits K j cb) (tree_slice K j rk) (nth j tt []))
        as [res [Eres _]].
      + apply (okeys_slice K n); assumption.
      + apply (slice_ne K n); [exact HK|apply Hc|exact Hj].
      + apply Htt.
      + exists res. split; [exact Eres|exact I].
  Qed.
End Adv.
