(** C15 over arbitrary histories: deliveries never exceed asks (same connection, same id, ask earlier),
    an ask is answered if the message is live, the delivered bytes are those of the first live publication,
    duplicates change nothing. *)
From SL Require Import Lib.Base Model.Relay Proofs.RelayMap Proofs.RelayCleanup Proofs.RelayInv Proofs.RelayRetention.
Local Open Scope N_scope.

(** ** counting *)

Definition countp {A} (p : A -> bool) (l : list A) : nat := length (filter p l).

Lemma countp_app {A} (p : A -> bool) a b : countp p (a ++ b) = (countp p a + countp p b)%nat.
Proof. unfold countp. rewrite filter_app, app_length. reflexivity. Qed.

Lemma countp_cons {A} (p : A -> bool) x l : countp p (x :: l) = ((if p x then 1 else 0) + countp p l)%nat.
Proof. unfold countp. cbn [filter]. destruct (p x); reflexivity. Qed.

Lemma countp_nil {A} (p : A -> bool) : countp p [] = 0%nat.
Proof. reflexivity. Qed.

(** frames for connection [c] satisfying [p] in a list of (connection, frame) pairs *)
Definition cnt_q (p : frame -> bool) (c : conn) (q : list (conn * frame)) : nat :=
  countp (fun x => on_conn c x && p (snd x)) q.

Lemma countp_map_snd_filter (p : frame -> bool) c q :
  countp p (map snd (filter (on_conn c) q)) = cnt_q p c q.
Proof.
  unfold cnt_q, countp. induction q as [|x r IH]; cbn [filter map]; [reflexivity|].
  destruct (on_conn c x); cbn [filter map andb]; [destruct (p (snd x)); cbn [length]|]; rewrite IH; reflexivity.
Qed.

Lemma countp_pending p c s : countp p (pending c s) = (cnt_q p c (queue s) + cnt_q p c (chan s))%nat.
Proof. unfold pending. rewrite countp_app, !countp_map_snd_filter. reflexivity. Qed.

(** occurrences of connection [c] in a waiter list *)
Definition cnt (c : conn) (l : list conn) : nat := countp (fun x => x =? c) l.

Lemma cnt_q_deliver p c f l :
  cnt_q p c (map (fun c' => (c', f)) l) = if p f then cnt c l else 0%nat.
Proof.
  unfold cnt_q, cnt, countp. induction l as [|x r IH]; cbn [map filter]; [destruct (p f); reflexivity|].
  unfold on_conn at 1. cbn [fst snd]. destruct (x =? c); cbn [andb].
  - destruct (p f); cbn [length]; rewrite IH; reflexivity.
  - rewrite IH. reflexivity.
Qed.

Lemma cnt_q_not_on p c q : cnt_q p c (filter (not_on_conn c) q) = 0%nat.
Proof.
  unfold cnt_q, countp. rewrite filter_filter. rewrite filter_false_all; [reflexivity|].
  intros x _. unfold not_on_conn. destruct (on_conn c x); reflexivity.
Qed.

Lemma cnt_q_other p c c' q : c' <> c -> cnt_q p c (filter (not_on_conn c') q) = cnt_q p c q.
Proof.
  intros N. unfold cnt_q, countp. rewrite filter_filter. f_equal. apply filter_ext. intros x.
  unfold not_on_conn, on_conn. destruct (fst x =? c) eqn:A; cbn [andb]; [|apply andb_false_r].
  apply N.eqb_eq in A. replace (fst x =? c') with false by (symmetry; apply N.eqb_neq; congruence).
  reflexivity.
Qed.

(** ** what a step delivers *)

Lemma cleanup_queue now s : queue (cleanup now s) = queue s /\ chan (cleanup now s) = chan s.
Proof. rewrite cleanup_exact. split; reflexivity. Qed.

Definition ask_delivery (c : conn) (id : msgid) (s1 : state) : list (conn * frame) :=
  match lookup id (msgs s1) with Some (Ready _ m) => [(c, m)] | _ => [] end.
Definition pub_delivery (f : frame) (s1 : state) : list (conn * frame) :=
  match lookup (hdr_id f) (msgs s1) with Some (Waiters _ l) => map (fun c => (c, f)) l | _ => [] end.

Lemma recv_post_queue c id ttl now s1 :
  queue (recv_post c id ttl now s1) = ask_delivery c id s1 ++ queue s1 /\
  chan (recv_post c id ttl now s1) = chan s1.
Proof.
  unfold recv_post, ask_delivery. destruct (lookup id (msgs s1)) as [[? ?|? ?]|]; split; reflexivity.
Qed.

Lemma send_post_chan f now s1 :
  queue (send_post f now s1) = queue s1 /\ chan (send_post f now s1) = chan s1 ++ pub_delivery f s1.
Proof.
  unfold send_post, pub_delivery. destruct (lookup (hdr_id f) (msgs s1)) as [[? ?|? ?]|]; split;
    cbn [queue chan]; rewrite ?app_nil_r; reflexivity.
Qed.

(** frames handed to connection [c] by the observations of one step / of a whole run *)
Definition drained (c : conn) (ob : list obs) : list frame :=
  flat_map (fun o => match o with ObsDrain c' l => if c' =? c then l else [] | _ => [] end) ob.
Definition received (c : conn) (tr : list (list obs)) : list frame := flat_map (drained c) tr.

Lemma step_drain_self p s c :
  (countp p (drained c (snd (step s (ODrain c)))) +
   (cnt_q p c (queue (fst (step s (ODrain c)))) + cnt_q p c (chan (fst (step s (ODrain c))))))%nat
  = (cnt_q p c (queue s) + cnt_q p c (chan s))%nat.
Proof.
  cbn [step fst snd drained flat_map queue chan]. rewrite N.eqb_refl, app_nil_r.
  rewrite countp_pending, !cnt_q_not_on. lia.
Qed.

Lemma step_drain_other p s c c' : c' <> c ->
  drained c (snd (step s (ODrain c'))) = [] /\
  cnt_q p c (queue (fst (step s (ODrain c')))) = cnt_q p c (queue s) /\
  cnt_q p c (chan (fst (step s (ODrain c')))) = cnt_q p c (chan s).
Proof.
  intros N. cbn [step fst snd drained flat_map queue chan].
  replace (c' =? c) with false by (symmetry; apply N.eqb_neq; exact N).
  rewrite !cnt_q_other by exact N. auto.
Qed.

(** ** deliveries never exceed asks *)

Definition has_id (id : msgid) (f : frame) : bool := id_eqb (hdr_id f) id.
Definition count_id (id : msgid) (l : list frame) : nat := countp (has_id id) l.

(** [o] is an ask by connection [c] for [id] *)
Definition is_ask_of (c : conn) (id : msgid) (o : op) : bool :=
  match o with
  | OSend c' f _ => (c' =? c) && Nat.eqb (length f) HDR_SIZE && id_eqb (hdr_id f) id
  | _ => false
  end.
Definition asks_of (c : conn) (id : msgid) (h : list op) : nat := countp (is_ask_of c id) h.

(** registrations of [c] among the waiters of [id] *)
Definition waiting (c : conn) (id : msgid) (s : state) : nat :=
  match lookup id (msgs s) with Some (Waiters _ l) => cnt c l | _ => 0%nat end.

(** delivered-but-not-yet-drained plus still-registered *)
Definition credit (c : conn) (id : msgid) (s : state) : nat :=
  (cnt_q (has_id id) c (queue s) + cnt_q (has_id id) c (chan s) + waiting c id s)%nat.

Lemma waiting_cleanup T s now c id : Inv T s -> (waiting c id (cleanup now s) <= waiting c id s)%nat.
Proof.
  intros I. unfold waiting. rewrite (cleanup_live T s now I). cbn [msgs].
  rewrite lookup_live by exact (inv_nodup _ _ I).
  destruct (lookup id (msgs s)) as [[e m|E l]|]; [destruct (now <? _)| destruct (now <? _)|]; cbn. all: lia.
Qed.

Lemma b2n_le (b : bool) : ((if b then 1 else 0) <= 1)%nat.
Proof. destruct b; lia. Qed.

Lemma cnt_q_nil p c : cnt_q p c [] = 0%nat.
Proof. reflexivity. Qed.

Lemma cnt_q_app p c a b : cnt_q p c (a ++ b) = (cnt_q p c a + cnt_q p c b)%nat.
Proof. apply countp_app. Qed.

Lemma pub_credit T s f t c id :
  Inv T s -> (credit c id (send_post f t (cleanup t s)) <= credit c id s)%nat.
Proof.
  intros I. unfold credit.
  destruct (cleanup_queue t s) as [Q C].
  pose proof (waiting_cleanup T s t c id I) as W.
  destruct (send_post_chan f t (cleanup t s)) as [Q2 C2].
  rewrite Q2, C2, Q, C, cnt_q_app.
  unfold pub_delivery. unfold waiting at 1. unfold send_post.
  destruct (lookup (hdr_id f) (msgs (cleanup t s))) as [[e m|E l]|] eqn:L1; cbn [msgs].
  - fold (waiting c id (cleanup t s)). rewrite cnt_q_nil. lia.
  - rewrite cnt_q_deliver, lookup_insert. unfold has_id at 3.
    destruct (id_eqb_spec (hdr_id f) id) as [E1|N1].
    + subst id. unfold waiting at 1 in W. rewrite L1 in W. lia.
    + fold (waiting c id (cleanup t s)). lia.
  - rewrite cnt_q_nil, lookup_insert.
    destruct (id_eqb_spec (hdr_id f) id) as [E1|N1].
    + lia.
    + fold (waiting c id (cleanup t s)). lia.
Qed.

Lemma step_credit T s o c id :
  Inv T s ->
  (countp (has_id id) (drained c (snd (step s o))) + credit c id (fst (step s o))
   <= credit c id s + (if is_ask_of c id o then 1 else 0))%nat.
Proof.
  intros I. unfold credit.
  destruct o as [c' f t|f t|c'|].
  - (* OSend *)
    destruct (Nat.ltb (length f) HDR_SIZE) eqn:A.
    { apply Nat.ltb_lt in A. rewrite step_send_short by (unfold hdr_ok; apply Nat.leb_gt; exact A).
      cbn [fst snd drained flat_map app countp filter length]. lia. }
    apply Nat.ltb_ge in A. destruct (Nat.eqb (length f) HDR_SIZE) eqn:B.
    + (* ask *)
      apply Nat.eqb_eq in B. rewrite step_ask by exact B. cbn [fst snd drained flat_map app countp filter length].
      destruct (cleanup_inv T s t I) as (I1 & _ & _).
      destruct (cleanup_queue t s) as [Q C].
      pose proof (waiting_cleanup T s t c id I) as W.
      destruct (recv_post_queue c' (hdr_id f) (hdr_ttl f) t (cleanup t s)) as [Q2 C2].
      rewrite Q2, C2, Q, C. unfold cnt_q at 1. rewrite countp_app. fold (cnt_q (has_id id) c (queue s)).
      cbn [is_ask_of]. rewrite B, Nat.eqb_refl, andb_true_r.
      unfold ask_delivery, waiting at 1, recv_post.
      destruct (lookup (hdr_id f) (msgs (cleanup t s))) as [[e m|E l]|] eqn:L1; cbn [msgs].
      * (* answered immediately *)
        fold (waiting c id (cleanup t s)).
        rewrite countp_cons, countp_nil. unfold on_conn. cbn [fst snd].
        destruct (inv_ready_wf _ _ I1 _ _ _ L1) as [Hid _]. unfold has_id. rewrite Hid.
        destruct ((c' =? c) && id_eqb (hdr_id f) id); lia.
      * (* joins waiters *)
        rewrite countp_nil, lookup_insert.
        destruct (id_eqb_spec (hdr_id f) id) as [E1|N1].
        -- subst id. unfold waiting at 1 in W. rewrite L1 in W. unfold cnt in *. rewrite countp_app, countp_cons, countp_nil.
           rewrite andb_true_r. destruct (c' =? c); lia.
        -- fold (waiting c id (cleanup t s)). rewrite andb_false_r. lia.
      * rewrite countp_nil, lookup_insert.
        destruct (id_eqb_spec (hdr_id f) id) as [E1|N1].
        -- unfold cnt. rewrite countp_cons, countp_nil. rewrite andb_true_r. destruct (c' =? c); lia.
        -- fold (waiting c id (cleanup t s)). rewrite andb_false_r. lia.
    + (* publication through the sink *)
      apply Nat.eqb_neq in B. assert (Hl : (HDR_SIZE < length f)%nat) by lia.
      rewrite step_publish_sink by exact Hl. cbn [fst snd drained flat_map app countp filter length].
      cbn [is_ask_of]. replace (Nat.eqb (length f) HDR_SIZE) with false by (symmetry; apply Nat.eqb_neq; lia).
      rewrite andb_false_r. cbn [andb].
      pose proof (pub_credit T s f t c id I) as H. unfold credit in H. lia.
  - (* SimpleMessageRelay::send *)
    cbn [is_ask_of].
    destruct (Nat.leb (length f) HDR_SIZE) eqn:A.
    { apply Nat.leb_le in A. rewrite step_relay_ignored by exact A.
      cbn [fst snd drained flat_map app countp filter length]. lia. }
    apply Nat.leb_gt in A. rewrite step_publish_relay by exact A.
    cbn [fst snd drained flat_map app countp filter length].
    pose proof (pub_credit T s f t c id I) as H. unfold credit in H. lia.
  - (* drain *)
    cbn [is_ask_of]. destruct (N.eq_dec c' c) as [->|N].
    + pose proof (step_drain_self (has_id id) s c) as H.
      replace (waiting c id (fst (step s (ODrain c)))) with (waiting c id s) by reflexivity. lia.
    + destruct (step_drain_other (has_id id) s c c' N) as (D & Q & C). rewrite D, Q, C.
      replace (waiting c id (fst (step s (ODrain c')))) with (waiting c id s) by reflexivity.
      rewrite countp_nil. lia.
  - cbn [step fst snd drained flat_map app is_ask_of]. rewrite countp_nil. lia.
Qed.

Lemma received_cons c ob tr : received c (ob :: tr) = drained c ob ++ received c tr.
Proof. reflexivity. Qed.

Theorem exec_credit h : forall T s c id,
  Inv T s ->
  (countp (has_id id) (received c (trace s h)) + credit c id (exec s h) <= credit c id s + asks_of c id h)%nat.
Proof.
  induction h as [|o r IH]; intros T s c id I; cbn [trace exec fold_left].
  - unfold received, asks_of. cbn. lia.
  - rewrite received_cons, countp_app. unfold asks_of. rewrite countp_cons. fold (asks_of c id r).
    pose proof (step_credit T s o c id I) as H1.
    pose proof (IH _ _ c id (step_inv T s o I)) as H2.
    change (fold_left (fun s0 o0 => fst (step s0 o0)) r (fst (step s o))) with (exec (fst (step s o)) r).
    lia.
Qed.

(** For every history, connection and id: the copies of messages with that id received so far, plus those
    delivered and not yet drained, plus the connection's registrations still waiting, never exceed the number
    of asks the connection has made for that id.  (As this holds after EVERY prefix of a history, each
    delivery can be matched to a distinct EARLIER ask of the same connection for the same id.) *)
Theorem ask_at_most_once_proof : forall h c id,
  (count_id id (received c (trace init h)) + count_id id (pending c (exec init h)) + waiting c id (exec init h)
   <= asks_of c id h)%nat.
Proof.
  intros h c id. pose proof (exec_credit h 0 init c id Inv_init) as H.
  unfold count_id. rewrite countp_pending. unfold credit in H at 1. unfold credit in H. cbn in H. lia.
Qed.

Corollary never_unasked_proof : forall h c id,
  asks_of c id h = 0%nat ->
  count_id id (received c (trace init h)) = 0%nat /\ count_id id (pending c (exec init h)) = 0%nat.
Proof. intros h c id H. pose proof (ask_at_most_once_proof h c id). lia. Qed.

(** ** an ask is answered if the message is live *)

(** immediately, when a publication is stored and unexpired: exactly one copy goes to the asking connection's
    queue, nothing to anybody else, the store is only cleaned *)
Theorem ask_answered_immediately_proof : forall h c a t e m,
  length a = HDR_SIZE ->
  lookup (hdr_id a) (msgs (exec init h)) = Some (Ready e m) -> t < e ->
  let s := exec init h in
  let s' := fst (step s (OSend c a t)) in
  snd (step s (OSend c a t)) = [ObsSend true] /\
  pending c s' = m :: pending c s /\
  (forall c', c' <> c -> pending c' s' = pending c' s) /\
  lookup (hdr_id a) (msgs s') = Some (Ready e m).
Proof.
  intros h c a t e m La L Lt. cbv zeta. pose proof (reachable_inv h) as I.
  rewrite step_ask by exact La. cbn [fst snd].
  assert (L1 : lookup (hdr_id a) (msgs (cleanup t (exec init h))) = Some (Ready e m)).
  { apply (cleanup_lookup _ _ _ _ _ I). auto. }
  rewrite (recv_post_ready _ _ _ _ _ _ _ L1).
  destruct (cleanup_queue t (exec init h)) as [Q C].
  unfold pending. cbn [queue chan msgs]. rewrite Q, C. repeat split.
  - cbn [filter]. unfold on_conn at 1. cbn [fst]. rewrite N.eqb_refl. reflexivity.
  - intros c' N. cbn [filter]. unfold on_conn at 1. cbn [fst].
    replace (c =? c') with false by (symmetry; apply N.eqb_neq; congruence). reflexivity.
  - exact L1.
Qed.

Lemma repeat_map_filter c (f : frame) l :
  map snd (filter (on_conn c) (map (fun c' => (c', f)) l)) = repeat f (cnt c l).
Proof.
  unfold cnt, countp. induction l as [|x r IH]; cbn [map filter]; [reflexivity|].
  unfold on_conn at 1. cbn [fst]. destruct (x =? c); cbn [map snd length repeat]; rewrite IH; reflexivity.
Qed.

Lemma cnt_in c l : In c l -> (1 <= cnt c l)%nat.
Proof.
  unfold cnt, countp. induction l as [|x r IH]; cbn [In filter]; [contradiction|].
  intros [->|H]; [rewrite N.eqb_refl; cbn [length]; lia|]. destruct (x =? c); cbn [length]; auto.
Qed.

(** what a publication does when waiters are registered: every registration gets one copy, the message is
    stored with its own expiry *)
Lemma publish_wakes T s o f t E l :
  Inv T s -> is_publish o f t -> lookup (hdr_id f) (msgs s) = Some (Waiters E l) -> t < E ->
  let s' := fst (step s o) in
  (forall c, pending c s' = pending c s ++ repeat f (cnt c l)) /\
  lookup (hdr_id f) (msgs s') = Some (Ready (t + hdr_ttl f) f).
Proof.
  intros I P L Lt. cbv zeta. rewrite (is_publish_step s o f t P).
  assert (L1 : lookup (hdr_id f) (msgs (cleanup t s)) = Some (Waiters E l)).
  { apply (cleanup_lookup T); auto. }
  destruct (cleanup_queue t s) as [Q C]. split.
  - intros c. unfold pending, send_post. rewrite L1. cbn [queue chan]. rewrite Q, C.
    rewrite filter_app, map_app, repeat_map_filter, app_assoc. reflexivity.
  - apply send_post_stores. intros e m. rewrite L1. discriminate.
Qed.

(** later, at the first publication before the ask's own expiry: the asking connection gets at least one copy
    (one per registration; with [ask_at_most_once]: exactly one per ask) of exactly the published frame *)
Theorem ask_answered_when_published_proof : forall h1 c a t h2 o f tp,
  length a = HDR_SIZE ->
  (forall e m, lookup (hdr_id a) (msgs (exec init h1)) = Some (Ready e m) -> e <= t) ->
  times_before (t + hdr_ttl a) h2 ->
  (forall o', In o' h2 -> ~ publishes (hdr_id a) o') ->
  is_publish o f tp -> hdr_id f = hdr_id a -> tp < t + hdr_ttl a ->
  let s := exec init (h1 ++ OSend c a t :: h2) in
  let s' := fst (step s o) in
  exists n, (1 <= n)%nat /\ pending c s' = pending c s ++ repeat f n /\
            lookup (hdr_id a) (msgs s') = Some (Ready (tp + hdr_ttl f) f).
Proof.
  intros h1 c a t h2 o f tp La Hn Hb Np P Hid Htp. cbv zeta.
  destruct (waiters_kept_until_max_proof h1 c a t h2 La Hn Hb Np) as (E & l & L & Le & Hin).
  pose proof (reachable_inv (h1 ++ OSend c a t :: h2)) as I.
  rewrite <- Hid in L.
  destruct (publish_wakes _ _ o f tp E l I P L) as [Hp Hs]; [lia|].
  exists (cnt c l). split; [apply cnt_in; exact Hin|]. split; [apply Hp|]. rewrite <- Hid. exact Hs.
Qed.

(** ** first publication wins, duplicates are ignored *)

(** a publication under an id whose stored message is still live changes nothing but the cleanup *)
Theorem dup_ignored_proof : forall h o f t e m,
  is_publish o f t ->
  lookup (hdr_id f) (msgs (exec init h)) = Some (Ready e m) -> t < e ->
  fst (step (exec init h) o) = cleanup t (exec init h) /\
  lookup (hdr_id f) (msgs (fst (step (exec init h) o))) = Some (Ready e m) /\
  (forall c, pending c (fst (step (exec init h) o)) = pending c (exec init h)).
Proof.
  intros h o f t e m P L Lt. pose proof (reachable_inv h) as I.
  rewrite (is_publish_step _ o f t P).
  assert (L1 : lookup (hdr_id f) (msgs (cleanup t (exec init h))) = Some (Ready e m)).
  { apply (cleanup_lookup _ _ _ _ _ I). auto. }
  rewrite (send_post_ready _ _ _ _ _ L1). repeat split; auto.
  intros c. destruct (cleanup_queue t (exec init h)) as [Q C]. unfold pending. rewrite Q, C. reflexivity.
Qed.

Lemma bytes_eqb_false a b : a <> b -> bytes_eqb a b = false.
Proof. intros N. destruct (bytes_eqb a b) eqn:E; [|reflexivity]. apply bytes_eqb_eq in E. contradiction. Qed.

(** while [Ready e m] is stored under [id], a step delivers no frame with that id other than [m] *)
Lemma step_only_stored T s o id e m c f :
  Inv T s -> lookup id (msgs s) = Some (Ready e m) -> (forall t, op_time o = Some t -> t < e) ->
  hdr_id f = id -> f <> m ->
  (countp (bytes_eqb f) (drained c (snd (step s o))) +
   (cnt_q (bytes_eqb f) c (queue (fst (step s o))) + cnt_q (bytes_eqb f) c (chan (fst (step s o)))))%nat
  = (cnt_q (bytes_eqb f) c (queue s) + cnt_q (bytes_eqb f) c (chan s))%nat.
Proof.
  intros I L Ht Hid Hne.
  assert (Live : forall t, op_time o = Some t -> lookup id (msgs (cleanup t s)) = Some (Ready e m)).
  { intros t Hto. apply (cleanup_lookup T); auto. }
  assert (Pub : forall f2 t, op_time o = Some t ->
            cnt_q (bytes_eqb f) c (pub_delivery f2 (cleanup t s)) = 0%nat).
  { intros f2 t Hto. unfold pub_delivery.
    destruct (lookup (hdr_id f2) (msgs (cleanup t s))) as [[? ?|E l]|] eqn:L2; try reflexivity.
    rewrite cnt_q_deliver. rewrite bytes_eqb_false; [reflexivity|].
    intros ->. rewrite Hid, (Live t Hto) in L2. discriminate. }
  destruct o as [c' a t|a t|c'|].
  - destruct (Nat.ltb (length a) HDR_SIZE) eqn:A.
    { apply Nat.ltb_lt in A. rewrite step_send_short by (unfold hdr_ok; apply Nat.leb_gt; exact A). reflexivity. }
    apply Nat.ltb_ge in A. destruct (Nat.eqb (length a) HDR_SIZE) eqn:B.
    + apply Nat.eqb_eq in B. rewrite step_ask by exact B. cbn [fst snd drained flat_map app countp filter length].
      destruct (cleanup_inv T s t I) as (I1 & _ & _).
      destruct (cleanup_queue t s) as [Q C].
      destruct (recv_post_queue c' (hdr_id a) (hdr_ttl a) t (cleanup t s)) as [Q2 C2].
      rewrite Q2, C2, Q, C. unfold cnt_q at 1. rewrite countp_app. fold (cnt_q (bytes_eqb f) c (queue s)).
      unfold ask_delivery.
      destruct (lookup (hdr_id a) (msgs (cleanup t s))) as [[e2 m2|E l]|] eqn:L2; rewrite ?countp_nil; try reflexivity.
      rewrite countp_cons, countp_nil. cbn [snd]. rewrite bytes_eqb_false; [rewrite andb_false_r; reflexivity|].
      intros ->. destruct (inv_ready_wf _ _ I1 _ _ _ L2) as [Hid2 _].
      rewrite Hid in Hid2. rewrite <- Hid2, (Live t eq_refl) in L2. inversion L2. congruence.
    + apply Nat.eqb_neq in B. rewrite step_publish_sink by lia.
      cbn [fst snd drained flat_map app countp filter length].
      destruct (cleanup_queue t s) as [Q C]. destruct (send_post_chan a t (cleanup t s)) as [Q2 C2].
      rewrite Q2, C2, Q, C. unfold cnt_q at 2. rewrite countp_app. fold (cnt_q (bytes_eqb f) c (chan s)).
      fold (cnt_q (bytes_eqb f) c (pub_delivery a (cleanup t s))). rewrite (Pub a t eq_refl). lia.
  - destruct (Nat.leb (length a) HDR_SIZE) eqn:A.
    { apply Nat.leb_le in A. rewrite step_relay_ignored by exact A. reflexivity. }
    apply Nat.leb_gt in A. rewrite step_publish_relay by exact A.
    cbn [fst snd drained flat_map app countp filter length].
    destruct (cleanup_queue t s) as [Q C]. destruct (send_post_chan a t (cleanup t s)) as [Q2 C2].
    rewrite Q2, C2, Q, C. unfold cnt_q at 2. rewrite countp_app. fold (cnt_q (bytes_eqb f) c (chan s)).
    fold (cnt_q (bytes_eqb f) c (pub_delivery a (cleanup t s))). rewrite (Pub a t eq_refl). lia.
  - destruct (N.eq_dec c' c) as [->|N].
    + apply step_drain_self.
    + destruct (step_drain_other (bytes_eqb f) s c c' N) as (D & Q & C). rewrite D, Q, C. reflexivity.
  - reflexivity.
Qed.

Theorem exec_only_stored h : forall T s id e m c f,
  Inv T s -> lookup id (msgs s) = Some (Ready e m) -> times_before e h ->
  hdr_id f = id -> f <> m ->
  (countp (bytes_eqb f) (received c (trace s h)) + countp (bytes_eqb f) (pending c (exec s h)))%nat
  = countp (bytes_eqb f) (pending c s).
Proof.
  induction h as [|o r IH]; intros T s id e m c f I L Hb Hid Hne; cbn [trace exec fold_left].
  - reflexivity.
  - destruct (times_before_cons _ _ _ Hb) as [Ho Hr].
    rewrite received_cons, countp_app.
    pose proof (step_only_stored T s o id e m c f I L Ho Hid Hne) as H1.
    pose proof (IH _ _ id e m c f (step_inv T s o I) (step_ready_kept T s o id e m I L Ho) Hr Hid Hne) as H2.
    change (fold_left (fun s0 o0 => fst (step s0 o0)) r (fst (step s o))) with (exec (fst (step s o)) r).
    rewrite !countp_pending in *. lia.
Qed.

(** While a publication [m] is stored under [id] (from the moment it was stored until its own expiry [e]),
    the only frame with that id delivered to anybody is [m], byte for byte: for every other frame [f] with
    that id the number of copies received or pending does not grow -- whatever is published meanwhile. *)
Theorem first_publication_wins_proof : forall h1 h2 id e m c f,
  lookup id (msgs (exec init h1)) = Some (Ready e m) -> times_before e h2 ->
  hdr_id f = id -> f <> m ->
  (countp (bytes_eqb f) (received c (trace (exec init h1) h2)) +
   countp (bytes_eqb f) (pending c (exec init (h1 ++ h2))))%nat
  = countp (bytes_eqb f) (pending c (exec init h1)).
Proof.
  intros h1 h2 id e m c f L Hb Hid Hne. rewrite exec_app.
  eapply exec_only_stored; eauto. apply reachable_inv.
Qed.

(** and what is stored is the FIRST publication of the lifetime: a publication that finds no live message under
    its id is stored with its own expiry [t + ttl] (and handed to every registered waiter) *)
Theorem first_publication_stored_proof : forall h o f t,
  is_publish o f t ->
  (forall e m, lookup (hdr_id f) (msgs (exec init h)) = Some (Ready e m) -> e <= t) ->
  lookup (hdr_id f) (msgs (fst (step (exec init h) o))) = Some (Ready (t + hdr_ttl f) f).
Proof. intros h o f t P Hn. eapply publish_stores; eauto. apply reachable_inv. Qed.

(** every frame sitting in a queue or channel is a stored-at-delivery-time publication filed under its own id:
    delivered frames always carry a payload and the id they were asked under *)
Lemma trace_app s h1 h2 : trace s (h1 ++ h2) = trace s h1 ++ trace (exec s h1) h2.
Proof.
  revert s; induction h1 as [|o r IH]; intros s; cbn [app trace exec fold_left]; [reflexivity|].
  rewrite IH. reflexivity.
Qed.

(** "ask earlier": the inequality of [ask_at_most_once] after every prefix of the history -- the k-th delivery of
    an id to a connection happens no earlier than the connection's k-th ask for it (order-preserving matching) *)
Corollary ask_at_most_once_prefix_proof : forall h i c id,
  (count_id id (received c (trace init (firstn i h))) + count_id id (pending c (exec init (firstn i h)))
   <= asks_of c id (firstn i h))%nat.
Proof. intros h i c id. pose proof (ask_at_most_once_proof (firstn i h) c id). lia. Qed.

(** both halves of "an ask is answered if the message is live" *)
Theorem ask_answered_if_live_proof :
  (forall h c a t e m,
     length a = HDR_SIZE ->
     lookup (hdr_id a) (msgs (exec init h)) = Some (Ready e m) -> t < e ->
     let s := exec init h in
     let s' := fst (step s (OSend c a t)) in
     snd (step s (OSend c a t)) = [ObsSend true] /\
     pending c s' = m :: pending c s /\
     (forall c', c' <> c -> pending c' s' = pending c' s) /\
     lookup (hdr_id a) (msgs s') = Some (Ready e m))
  /\
  (forall h1 c a t h2 o f tp,
     length a = HDR_SIZE ->
     (forall e m, lookup (hdr_id a) (msgs (exec init h1)) = Some (Ready e m) -> e <= t) ->
     times_before (t + hdr_ttl a) h2 ->
     (forall o', In o' h2 -> ~ publishes (hdr_id a) o') ->
     is_publish o f tp -> hdr_id f = hdr_id a -> tp < t + hdr_ttl a ->
     let s := exec init (h1 ++ OSend c a t :: h2) in
     let s' := fst (step s o) in
     exists n, (1 <= n)%nat /\ pending c s' = pending c s ++ repeat f n /\
               lookup (hdr_id a) (msgs s') = Some (Ready (tp + hdr_ttl f) f)).
Proof. split; [exact ask_answered_immediately_proof|exact ask_answered_when_published_proof]. Qed.
