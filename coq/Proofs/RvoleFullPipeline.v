(** C01, the REAL seed pipeline: Endemic base OT (C05)  ->  all-but-one PPRF build/eval (C06)  ->
    SoftSpoken OT extension + random VOLE (C03 / C01), composed.

    Glue, as in the code (crates/sl-oblivious/src/soft_spoken/all_but_one.rs, harness/src/c01.rs [real_seeds]):
    - the Endemic SENDER's [SenderOutput] (256 pairs rho_0, rho_1) is the input of [build_pprf]; the leaves it
      writes are the [SenderOTSeed], consumed by SoftSpokenOTReceiver = RVOLEReceiver::new;
    - the Endemic RECEIVER's [ReceiverOutput] (packed choice bits, 256 keys) and the PPRF message are the inputs
      of [eval_pprf]; what it writes ([random_choices[j] = y_star as u8], [otp_dec_keys[j] = s_star_i]) is the
      [ReceiverOTSeed], consumed by SoftSpokenOTSender = RVOLESender::process.
    Data bridges proved here:
    - [endemic_gives_ot_consistent]: the conclusion of C05 (lists of keys, [bit_at] on the packed bits) is the
      premise [ot_consistent] of C06 ([extract_bit], [sel]); the two bit conventions are the same function;
    - [pprf_seeds_ok_bridge] (+ converse): the list-level [seeds_ok] of the PPRF development plus the array
      shapes (64 trees, 16 leaves each) is [seeds_ok] of the SoftSpoken development on the seed records, the
      punctured index going through [as u8];
    - [pprf_honest_shape]: an honest build/eval run has these shapes. *)
From SL Require Import Lib.Base Lib.Oracle Lib.ZqGroup Gen.Params Model.Gf128 Model.SoftSpoken Model.Endemic
  Model.RvoleCore Model.Rvole Model.Pprf.
From SL Require Import Proofs.SoftSpokenBytes Proofs.SoftSpokenC03 Proofs.Endemic Proofs.EndemicThm Proofs.EndemicZq.
From SL Require Import Proofs.RvoleLemmas Proofs.RvoleCorrect Proofs.RvolePipeline.
From SL Require Import Proofs.PprfBytes Proofs.PprfTree Proofs.Pprf Proofs.PprfMain.
Local Open Scope nat_scope.

(* ------------------------------------------------------------------ the glue between the models *)
(** [y_star as u8] *)
Definition u8_of_nat (y : nat) : N := (N.of_nat y mod 256)%N.

(** SenderOTSeed written by [build_pprf]: otp_enc_keys[j] = the leaves of tree j *)
Definition pprf_sender_seed (b : list (list (list N) * pprf_msg)) : SenderOTSeed :=
  {| otp_enc_keys := map fst b |}.

(** ReceiverOTSeed written by [eval_pprf]: random_choices[j] = y_star as u8, otp_dec_keys[j] = s_star_i *)
Definition pprf_receiver_seed (r : list (nat * list (list N))) : ReceiverOTSeed :=
  {| random_choices := map u8_of_nat (map fst r); otp_dec_keys := map snd r |}.

(* ------------------------------------------------------------------ constants of the two developments agree *)
Lemma Ntrees_ssTrees : Ntrees = ssTrees.
Proof. rewrite ssTrees_val. vm_compute. reflexivity. Qed.
Lemma Q_ssQ : N.to_nat GP.SOFT_SPOKEN_Q = ssQ.
Proof. rewrite ssQ_val. vm_compute. reflexivity. Qed.
Lemma trees_depth_256 : Ntrees * Kdepth = 256.
Proof. vm_compute. reflexivity. Qed.

(* ------------------------------------------------------------------ C05 conclusion -> C06 premise *)
Lemma endemic_gives_ot_consistent G (O : group_ops G) (H : transcript_oracle) (q : Z) :
  group_laws q O -> enc33_roundtrip G O ->
  forall sid bits tas ros tbs,
  let rn := eot_receiver_new G O H sid bits tas ros in
  let sp := eot_sender_process G O H sid (snd rn) tbs in
  exists skeys rkeys,
    snd sp = Val skeys /\ eot_receiver_process G O H (fst rn) (fst sp) = Val (bits, rkeys) /\
    ot_consistent skeys bits rkeys.
Proof.
  intros GL RT sid bits tas ros tbs rn sp.
  destruct (endemic_correct_lem G O H q GL RT sid bits tas ros tbs) as [sk [rk [ES [ER K]]]].
  cbv zeta in ES, ER. fold rn in ES, ER. fold sp in ES, ER.
  exists sk, rk. split; [exact ES|]. split; [exact ER|].
  unfold ot_consistent, ot_consistent_gen. rewrite trees_depth_256.
  split; [|split].
  - apply (sender_keys_length G O H sid (snd rn) tbs (fst sp)). fold sp. rewrite <- ES. apply surjective_pairing.
  - apply (receiver_keys_length G O H (fst rn) (fst sp) bits). exact ER.
  - intros i Hi. change (extract_bit bits i) with (bit_at bits i). unfold sel. apply K. exact Hi.
Qed.

(* ------------------------------------------------------------------ the two seeds_ok notions *)
Lemma nth_map_u8 rch i : nth i (map u8_of_nat rch) 0%N = u8_of_nat (nth i rch 0).
Proof. exact (map_nth u8_of_nat rch 0 i). Qed.

Lemma u8_of_nat_small y : y < 256 -> u8_of_nat y = N.of_nat y.
Proof. intros Hy. unfold u8_of_nat. apply N.mod_small. lia. Qed.

(** PPRF-side [seeds_ok] (lists, no shapes) + the array shapes  ->  SoftSpoken-side [seeds_ok] (records) *)
Lemma pprf_seeds_ok_bridge sseed rch rseed :
  Proofs.Pprf.seeds_ok sseed rch rseed ->
  length sseed = Ntrees -> length rch = Ntrees -> length rseed = Ntrees ->
  (forall i, i < Ntrees -> length (nth i sseed []) = ssQ /\ length (nth i rseed []) = ssQ) ->
  SoftSpokenC03.seeds_ok {| otp_enc_keys := sseed |}
                         {| random_choices := map u8_of_nat rch; otp_dec_keys := rseed |}.
Proof.
  intros S L1 L2 L3 Sh. unfold SoftSpokenC03.seeds_ok. cbn [otp_enc_keys random_choices otp_dec_keys].
  rewrite map_length, <- Ntrees_ssTrees. split; [exact L1|]. split; [exact L3|]. split; [exact L2|].
  intros i Hi. destruct (S i Hi) as [Hlt Heq]. destruct (Sh i Hi) as [Sh1 Sh2].
  rewrite Q_ssQ in Hlt, Heq. pose proof ssQ_val as Q16.
  rewrite nth_map_u8. rewrite u8_of_nat_small by lia.
  split; [lia|]. split; [exact Sh1|]. split; [exact Sh2|].
  intros j Hj Hne. apply Heq; [exact Hj|]. intros ->. apply Hne. reflexivity.
Qed.

(** converse (for punctured indices that fit a u8): the bridge loses nothing *)
Lemma pprf_seeds_ok_bridge_conv sseed rch rseed :
  (forall i, i < Ntrees -> nth i rch 0 < 256) ->
  SoftSpokenC03.seeds_ok {| otp_enc_keys := sseed |}
                         {| random_choices := map u8_of_nat rch; otp_dec_keys := rseed |} ->
  Proofs.Pprf.seeds_ok sseed rch rseed.
Proof.
  intros B [_ [_ [_ S]]] i Hi. cbn [otp_enc_keys random_choices otp_dec_keys] in S.
  rewrite Ntrees_ssTrees in Hi. destruct (S i Hi) as [Hlt [_ [_ Heq]]].
  rewrite <- Ntrees_ssTrees in Hi. specialize (B i Hi).
  rewrite nth_map_u8, u8_of_nat_small in Hlt, Heq by exact B.
  rewrite Q_ssQ. pose proof ssQ_val as Q16. split; [lia|].
  intros j Hj Hne. apply Heq; [exact Hj|]. intros E. apply Hne. apply Nat2N.inj. exact E.
Qed.

(* ------------------------------------------------------------------ shapes of an honest build / eval *)
Lemma build_pprf_length H sid sk tt : length (build_pprf H sid sk tt) = Ntrees.
Proof. unfold build_pprf, build_pprf_gen. rewrite map_length, seq_length. reflexivity. Qed.

Lemma pprf_honest_shape H sid sk cb rk tt r :
  ot_consistent sk cb rk -> tt_zero tt ->
  eval_pprf H sid cb rk (honest_msgs H sid sk tt) = Val r ->
  length r = Ntrees /\
  forall i, i < Ntrees ->
    length (fst (nth i (build_pprf H sid sk tt) dbuild)) = ssQ /\ length (snd (nth i r dres)) = ssQ.
Proof.
  intros Hc Htt E. destruct (honest_tree_res H sid sk cb rk tt r Hc Htt E) as [Lr Hres].
  split; [exact Lr|]. intros i Hi.
  destruct (Hres i Hi) as [_ [[Hl _] Hlen]]. rewrite tree_bits_length, <- Q_is_pow, Q_ssQ in Hlen.
  split; [exact Hlen|]. rewrite Hl. exact Hlen.
Qed.

(** C06 conclusion -> C03 premise, on the seed records the code fills *)
Lemma pprf_gives_ss_seeds_ok H sid sk cb rk tt r :
  ot_consistent sk cb rk -> tt_zero tt ->
  eval_pprf H sid cb rk (honest_msgs H sid sk tt) = Val r ->
  SoftSpokenC03.seeds_ok (pprf_sender_seed (build_pprf H sid sk tt)) (pprf_receiver_seed r).
Proof.
  intros Hc Htt E. unfold pprf_sender_seed, pprf_receiver_seed.
  destruct (pprf_honest_shape H sid sk cb rk tt r Hc Htt E) as [Lr Sh].
  apply pprf_seeds_ok_bridge.
  - exact (pprf_seeds_ok_lem H sid sk cb rk tt r Hc Htt E).
  - rewrite map_length. apply build_pprf_length.
  - rewrite map_length. exact Lr.
  - rewrite map_length. exact Lr.
  - intros i Hi. destruct (Sh i Hi) as [S1 S2].
    assert (E1 : nth i (map fst (build_pprf H sid sk tt)) [] = fst (nth i (build_pprf H sid sk tt) dbuild))
      by exact (map_nth fst (build_pprf H sid sk tt) dbuild i).
    assert (E2 : nth i (map snd r) [] = snd (nth i r dres)) by exact (map_nth snd r dres i).
    rewrite E1, E2. split; assumption.
Qed.

(* ------------------------------------------------------------------ the composed theorem *)
Local Open Scope Z_scope.

(** [rvole_real_pipeline_correct]: for every group with the group laws and a round-tripping 33-byte encoding,
    every oracle, three independent session ids (base OT, PPRF, RVOLE), ALL tapes of the four stages and every
    sender input: the honest Endemic exchange returns keys on both sides, [eval_pprf] accepts the honest
    [build_pprf] message, RVOLESender::process does not abort, RVOLEReceiver::process accepts, and
    c_i + d_i = a_i * b (mod q) with b the value returned by RVOLEReceiver::new.
    [tt]: the caller's PPRFOutput buffer, all-zero ([Default]); [beta]/[tape]: [u8;64] / [u8;16] arrays. *)
Lemma rvole_real_pipeline_correct_lem :
  forall G (O : group_ops G) (H : transcript_oracle) (q : Z),
  group_laws q O -> enc33_roundtrip G O -> 0 < q <= 2 ^ 256 ->
  forall sid_ot sid_pprf sid bits tas ros tbs tt beta tape (a : list Z) (eta_tape : list (list N)),
  tt_zero tt -> rowP ssLB beta -> rowP ssSB tape ->
  let rn := eot_receiver_new G O H sid_ot bits tas ros in
  let sp := eot_sender_process G O H sid_ot (snd rn) tbs in
  exists skeys rkeys r m c d,
    snd sp = Val skeys /\
    eot_receiver_process G O H (fst rn) (fst sp) = Val (bits, rkeys) /\
    eval_pprf H sid_pprf bits rkeys (honest_msgs H sid_pprf skeys tt) = Val r /\
    let ss := pprf_sender_seed (build_pprf H sid_pprf skeys tt) in
    let rs := pprf_receiver_seed r in
    let new := rvole_recv_new H q sid ss round1_default beta tape in
    let st := fst (fst new) in let b := snd (fst new) in let r1 := snd new in
    rvole_send_process H q sid rs a r1 eta_tape = Val (m, c) /\
    rvole_recv_process H q st m = Val d /\
    b = rvole_b H q rv_xi sid (rv_bit beta) /\
    forall i, (i < rv_lb)%nat -> (nth i c 0 + nth i d 0) mod q = (nth i a 0 * b) mod q.
Proof.
  intros G O H q GL RT Q sid_ot sid_pprf sid bits tas ros tbs tt beta tape a eta_tape Htt R1 R2 rn sp.
  destruct (endemic_gives_ot_consistent G O H q GL RT sid_ot bits tas ros tbs) as [sk [rk [ES [ER OC]]]].
  cbv zeta in ES, ER. fold rn in ES, ER. fold sp in ES, ER.
  destruct (pprf_honest_ok_lem H sid_pprf sk bits rk tt OC Htt) as [r EP].
  pose proof (pprf_gives_ss_seeds_ok H sid_pprf sk bits rk tt r OC Htt EP) as S.
  destruct (rvole_pipeline_correct_lem H q Q sid _ _ beta tape a eta_tape S R1 R2) as [m [c [d [E1 [E2 [E3 E4]]]]]].
  exists sk, rk, r, m, c, d.
  split; [exact ES|]. split; [exact ER|]. split; [exact EP|].
  cbv zeta. split; [exact E1|]. split; [exact E2|]. split; [exact E3|exact E4].
Qed.

(* ------------------------------------------------------------------ non-vacuity *)
(** Z_11 (discrete-log group of Lib/ZqGroup.v with the 33-byte encoding of Proofs/EndemicZq.v) satisfies the
    group premises, 11 is in the modulus range, the zero buffers satisfy the tape premises; hence for the
    constant oracle and every session id / scalar tape / input the whole pipeline runs to c + d = a*b. *)
Lemma rvole_real_pipeline_nonvacuous :
  group_laws 11 (zq33_group 11 eot_lt_1_11) /\ enc33_roundtrip (zq 11) (zq33_group 11 eot_lt_1_11) /\
  0 < 11 <= 2 ^ 256 /\ tt_zero [] /\ rowP ssLB (zbytes ssLB) /\ rowP ssSB (zbytes ssSB) /\
  forall sid_ot sid_pprf sid bits tas ros tbs (a : list Z) (eta_tape : list (list N)),
  let G := zq 11 in let O := zq33_group 11 eot_lt_1_11 in let H := eot_zero_oracle in
  let rn := eot_receiver_new G O H sid_ot bits tas ros in
  let sp := eot_sender_process G O H sid_ot (snd rn) tbs in
  exists skeys rkeys r m c d,
    snd sp = Val skeys /\
    eot_receiver_process G O H (fst rn) (fst sp) = Val (bits, rkeys) /\
    eval_pprf H sid_pprf bits rkeys (honest_msgs H sid_pprf skeys []) = Val r /\
    let new := rvole_recv_new H 11 sid (pprf_sender_seed (build_pprf H sid_pprf skeys [])) round1_default
                              (zbytes ssLB) (zbytes ssSB) in
    rvole_send_process H 11 sid (pprf_receiver_seed r) a (snd new) eta_tape = Val (m, c) /\
    rvole_recv_process H 11 (fst (fst new)) m = Val d /\
    forall i, (i < rv_lb)%nat -> (nth i c 0 + nth i d 0) mod 11 = (nth i a 0 * snd (fst new)) mod 11.
Proof.
  assert (GL : group_laws 11 (zq33_group 11 eot_lt_1_11)) by apply zq33_group_laws.
  assert (RT : enc33_roundtrip (zq 11) (zq33_group 11 eot_lt_1_11)) by apply zq33_roundtrip.
  assert (Q : 0 < 11 <= 2 ^ 256) by (split; [lia|]; apply Z.leb_le; vm_compute; reflexivity).
  assert (TZ : tt_zero []) by (intros j; destruct j; reflexivity).
  assert (RB : rowP ssLB (zbytes ssLB)) by (split; [apply zbytes_length|apply zbytes_bytes]).
  assert (RS : rowP ssSB (zbytes ssSB)) by (split; [apply zbytes_length|apply zbytes_bytes]).
  split; [exact GL|]. split; [exact RT|]. split; [exact Q|]. split; [exact TZ|]. split; [exact RB|].
  split; [exact RS|].
  intros sid_ot sid_pprf sid bits tas ros tbs a eta_tape G O H rn sp.
  destruct (rvole_real_pipeline_correct_lem G O H 11 GL RT Q sid_ot sid_pprf sid bits tas ros tbs []
              (zbytes ssLB) (zbytes ssSB) a eta_tape TZ RB RS)
    as [sk [rk [r [m [c [d [E1 [E2 [E3 [E4 [E5 [_ E7]]]]]]]]]]]].
  exists sk, rk, r, m, c, d.
  split; [exact E1|]. split; [exact E2|]. split; [exact E3|].
  cbv zeta. split; [exact E4|]. split; [exact E5|exact E7].
Qed.
