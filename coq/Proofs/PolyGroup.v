(** C13: group side.  For an arbitrary Z_q-module satisfying [module_laws]: the running-power fold
    equals the power sum, commitment commutes with evaluation and with derivatives, and the Feldman
    check accepts a non-zero share exactly when it is the value of the committed polynomial. *)
From SL Require Import Lib.Base Model.Poly Proofs.PolyFact Proofs.PolySum Proofs.PolyDeriv.
Local Open Scope Z_scope.

Lemma nth_skipn_add {A} (d : A) n : forall l j, nth j (skipn n l) d = nth (n + j) l d.
Proof.
  induction n as [|n IH]; intros l j; [reflexivity|].
  destruct l as [|a l]; [destruct j; reflexivity|]. cbn [skipn Nat.add nth]. apply IH.
Qed.

Section Group.
  Variable q : Z.
  Variable G : Type.
  Variable gadd : G -> G -> G.
  Variable gneg : G -> G.
  Variable gid : G.
  Variable smul : Z -> G -> G.
  Variable geqb : G -> G -> bool.
  Variable gen : G.
  Hypothesis L : module_laws q G gadd gneg gid smul geqb gen.

  Local Notation commit := (commit G smul gen).
  Local Notation g_evaluate_at := (g_evaluate_at q G gadd gid smul).
  Local Notation g_derivative_coeffs := (g_derivative_coeffs q G smul).
  Local Notation feldman_verify := (feldman_verify q G gadd gid smul geqb).

  (* ---- consequences of the laws *)
  Lemma gadd_id_r P : gadd P gid = P.
  Proof. rewrite (gadd_comm _ _ _ _ _ _ _ _ L). apply (gadd_id_l _ _ _ _ _ _ _ _ L). Qed.

  Lemma gadd_cancel_l P Q R : gadd P Q = gadd P R -> Q = R.
  Proof.
    intros H. rewrite <- (gadd_id_l _ _ _ _ _ _ _ _ L Q), <- (gadd_id_l _ _ _ _ _ _ _ _ L R).
    rewrite <- (gadd_neg_l _ _ _ _ _ _ _ _ L P).
    rewrite <- !(gadd_assoc _ _ _ _ _ _ _ _ L). rewrite H. reflexivity.
  Qed.

  Lemma smul_zero P : smul 0 P = gid.
  Proof.
    apply (gadd_cancel_l (smul 0 P)). rewrite <- (smul_add_l _ _ _ _ _ _ _ _ L).
    rewrite gadd_id_r. reflexivity.
  Qed.

  Lemma smul_gid a : smul a gid = gid.
  Proof.
    apply (gadd_cancel_l (smul a gid)). rewrite <- (smul_add_r _ _ _ _ _ _ _ _ L).
    rewrite !gadd_id_r. reflexivity.
  Qed.

  Lemma smul_mod_eq a b P : a mod q = b mod q -> smul a P = smul b P.
  Proof.
    intros H. rewrite <- (smul_mod _ _ _ _ _ _ _ _ L a), <- (smul_mod _ _ _ _ _ _ _ _ L b), H. reflexivity.
  Qed.

  (** multiples of the generator are determined by the scalar modulo q, and only by it *)
  Lemma smul_gen_inj a b : smul a gen = smul b gen <-> a mod q = b mod q.
  Proof.
    split; [|apply smul_mod_eq].
    intros H.
    assert (E : smul (a - b) gen = gid).
    { replace (a - b) with (a + - b) by ring. rewrite (smul_add_l _ _ _ _ _ _ _ _ L), H.
      rewrite <- (smul_add_l _ _ _ _ _ _ _ _ L). replace (b + - b) with 0 by ring. apply smul_zero. }
    apply (gen_free _ _ _ _ _ _ _ _ L) in E.
    replace a with ((a - b) + b) by ring. rewrite Zplus_mod, E, Z.add_0_l, Zmod_mod. reflexivity.
  Qed.

  (* ---- the two evaluation algorithms *)
  (** power sum in the group: sum_i (x^i) * F_i with independently computed powers, starting at x^k
      (the algorithm of the scalar-side [evaluate_at], transported to the group) *)
  Fixpoint g_power_sum (x : Z) (k : nat) (F : list G) : G :=
    match F with
    | [] => gid
    | c :: r => gadd (smul (fpow q x k) c) (g_power_sum x (S k) r)
    end.

  Lemma fold_eval_step x F : forall s k,
    fold_left (g_eval_step q G gadd smul x) F (s, fpow q x k)
    = (gadd s (g_power_sum x k F), fpow q x (k + length F)).
  Proof.
    induction F as [|c F IH]; intros s k.
    - cbn [fold_left g_power_sum length]. rewrite gadd_id_r, Nat.add_0_r. reflexivity.
    - cbn [fold_left g_power_sum length g_eval_step].
      change (fmul q (fpow q x k) x) with (fpow q x (S k)).
      rewrite IH. rewrite <- (gadd_assoc _ _ _ _ _ _ _ _ L).
      replace (S k + length F)%nat with (k + S (length F))%nat by lia. reflexivity.
  Qed.

  (** C13 eval_agree: the running-power fold of [GroupPolynomial::evaluate_at] (and of
      [feldman_verify]) computes the power sum *)
  Theorem eval_agree F x : g_evaluate_at F x = g_power_sum x 0 F.
  Proof.
    unfold Poly.g_evaluate_at. change (fone q) with (fpow q x 0).
    rewrite fold_eval_step. cbn [fst]. apply (gadd_id_l _ _ _ _ _ _ _ _ L).
  Qed.

  (** scalar power sum from x^k over the integers *)
  Fixpoint power_sum (x : Z) (k : nat) (f : list Z) : Z :=
    match f with
    | [] => 0
    | c :: r => x ^ Z.of_nat k * c + power_sum x (S k) r
    end.

  Lemma power_sum_bigsum x f : forall k,
    power_sum x k f = bigsum (length f) (fun i => x ^ Z.of_nat (k + i) * nth i f 0).
  Proof.
    induction f as [|c r IH]; intros k; [reflexivity|].
    cbn [power_sum length]. rewrite IH.
    change (S (length r)) with (1 + length r)%nat. rewrite bigsum_split. cbn [bigsum nth Nat.add].
    rewrite Nat.add_0_r. rewrite Z.add_0_l. f_equal.
    apply bigsum_ext. intros i Hi. replace (S (k + i))%nat with (k + S i)%nat by lia. reflexivity.
  Qed.

  Lemma power_sum_peval x f : power_sum x 0 f = peval f x.
  Proof.
    rewrite power_sum_bigsum, peval_bigsum. apply bigsum_ext. intros i Hi. cbn [Nat.add]. ring.
  Qed.

  Lemma g_power_sum_commit x f : forall k,
    g_power_sum x k (commit f) = smul (power_sum x k f) gen.
  Proof.
    induction f as [|c r IH]; intros k.
    - cbn [Poly.commit map g_power_sum power_sum]. symmetry. apply smul_zero.
    - cbn [Poly.commit map g_power_sum power_sum]. fold (commit r). rewrite IH.
      rewrite (smul_mul _ _ _ _ _ _ _ _ L).
      rewrite (smul_add_l _ _ _ _ _ _ _ _ L). f_equal.
      apply smul_mod_eq. rewrite fpow_spec. rewrite Zmult_mod_idemp_l. reflexivity.
  Qed.

  (** C13 commit_eval: evaluating the commitment = committing to the value *)
  Theorem commit_eval f x : g_evaluate_at (commit f) x = smul (evaluate_at q f x) gen.
  Proof.
    rewrite eval_agree, g_power_sum_commit, power_sum_peval, evaluate_at_spec.
    symmetry. apply (smul_mod _ _ _ _ _ _ _ _ L).
  Qed.

  (* ---- derivatives of the commitment *)
  Lemma skipn_commit n f : skipn n (commit f) = commit (skipn n f).
  Proof. unfold Poly.commit. apply skipn_map. Qed.

  Lemma iter_pderiv_as_map n f :
    Nat.iter n pderiv f
    = map (fun pc : nat * Z => range_prod (fst pc) (fst pc + n) * snd pc) (enumerate (skipn n f)).
  Proof.
    apply (nth_ext _ _ 0 0).
    - rewrite iter_pderiv_length. unfold enumerate. rewrite map_length, enumerate_from_length, skipn_length. reflexivity.
    - intros j Hj. rewrite iter_pderiv_length in Hj. rewrite iter_pderiv_nth.
      rewrite (map_nth_in _ _ 0 (O, 0)) by (unfold enumerate; rewrite enumerate_from_length, skipn_length; exact Hj).
      unfold enumerate. rewrite enumerate_from_nth by (rewrite skipn_length; exact Hj).
      cbn [fst snd Nat.add]. rewrite nth_skipn_add. replace (n + j)%nat with (j + n)%nat by lia. reflexivity.
  Qed.

  Lemma map_enumerate_commit (h : nat -> Z) f : forall k,
    map (fun pu : nat * G => let (pos, u) := pu in smul (h pos) u) (enumerate_from k (commit f))
    = commit (map (fun pc : nat * Z => h (fst pc) * snd pc) (enumerate_from k f)).
  Proof.
    induction f as [|c r IH]; intros k; [reflexivity|].
    cbn [Poly.commit map enumerate_from fst snd]. fold (commit r). rewrite IH.
    rewrite (smul_mul _ _ _ _ _ _ _ _ L). reflexivity.
  Qed.

  Lemma commit_mod_ext f g : map (fun c => c mod q) f = map (fun c => c mod q) g -> commit f = commit g.
  Proof.
    revert g. induction f as [|a f IH]; intros [|b g] H; cbn [map] in H; try discriminate; [reflexivity|].
    inversion H as [[H1 H2]]. cbn [Poly.commit map]. fold (commit f). fold (commit g).
    rewrite (IH g H2). f_equal. apply smul_mod_eq. exact H1.
  Qed.

  (** C13 commit_derivative: [derivative_coeffs n] of the commitment is the commitment to the n-th
      formal derivative; it panics (slice out of range) exactly when n exceeds the length *)
  Theorem commit_derivative f n : (n <= length f)%nat -> Z.of_nat (length f) <= 2 ^ 64 ->
    g_derivative_coeffs (commit f) n = Val (commit (Nat.iter n pderiv f)).
  Proof.
    intros Hn Hlen. unfold Poly.g_derivative_coeffs.
    unfold Poly.commit at 1. rewrite map_length.
    destruct (length f <? n)%nat eqn:E; [apply Nat.ltb_lt in E; lia|].
    f_equal. fold (commit f). rewrite skipn_commit. unfold enumerate.
    rewrite (map_enumerate_commit (fun pos => factorial_range q pos (pos + n))).
    rewrite iter_pderiv_as_map. apply commit_mod_ext. unfold enumerate.
    rewrite !map_map. apply map_ext_in. intros [pos c] Hin. cbn [fst snd].
    assert (Hpos : (pos < length (skipn n f))%nat).
    { clear -Hin. revert Hin. generalize (skipn n f) as l. intros l.
      assert (forall k, In (pos, c) (enumerate_from k l) -> (pos < k + length l)%nat) as X.
      { induction l as [|a l IH]; intros k H; [destruct H|]. cbn [enumerate_from] in H.
        destruct H as [H|H]; [inversion H; cbn [length]; lia|]. apply IH in H. cbn [length]. lia. }
      intros H. apply X in H. lia. }
    rewrite skipn_length in Hpos.
    rewrite factorial_range_spec by lia. rewrite Zmult_mod_idemp_l. reflexivity.
  Qed.

  Theorem commit_derivative_panics f n : (length f < n)%nat ->
    is_panic (g_derivative_coeffs (commit f) n) = true.
  Proof.
    intros H. unfold Poly.g_derivative_coeffs, Poly.commit. rewrite map_length.
    apply Nat.ltb_lt in H. rewrite H. reflexivity.
  Qed.

  (** ... hence evaluating the group-side derivative = committing to the scalar-side derivative *)
  Corollary commit_derivative_eval f n x D : (n <= length f)%nat -> Z.of_nat (length f) <= 2 ^ 64 ->
    g_derivative_coeffs (commit f) n = Val D ->
    g_evaluate_at D x = smul (derivative_at q f n x) gen.
  Proof.
    intros Hn Hlen HD. rewrite commit_derivative in HD by assumption. inversion HD; subst D.
    rewrite commit_eval, evaluate_at_spec, derivative_at_spec by exact Hlen. reflexivity.
  Qed.

  (* ---- Feldman *)
  (** C13 feldman_iff.  Side conditions read off the code: the evaluation point is a NonZeroScalar
      (not needed for the equivalence), the accumulated point must not be the identity. For a
      non-zero share [v] the check accepts exactly when [v] is the value of the committed polynomial. *)
  Theorem feldman_iff f x v : v mod q <> 0 ->
    (feldman_verify (commit f) x v gen = true <-> v mod q = evaluate_at q f x).
  Proof.
    intros Hv. unfold Poly.feldman_verify.
    change (fst (fold_left _ (commit f) (gid, fone q))) with (g_evaluate_at (commit f) x).
    rewrite commit_eval.
    assert (Ered : evaluate_at q f x mod q = evaluate_at q f x) by (rewrite evaluate_at_spec; apply Zmod_mod).
    destruct (geqb (smul (evaluate_at q f x) gen) gid) eqn:E.
    - apply (geqb_spec _ _ _ _ _ _ _ _ L) in E. apply (gen_free _ _ _ _ _ _ _ _ L) in E.
      split; [discriminate|]. intros H. exfalso. apply Hv. rewrite H, <- Ered. exact E.
    - rewrite (geqb_spec _ _ _ _ _ _ _ _ L). rewrite smul_gen_inj. rewrite Ered.
      split; intros H; symmetry; exact H.
  Qed.

  (** the rejections the code performs irrespective of the share *)
  Theorem feldman_rejects_zero_value f x v : evaluate_at q f x = 0 ->
    feldman_verify (commit f) x v gen = false.
  Proof.
    intros H0. unfold Poly.feldman_verify.
    change (fst (fold_left _ (commit f) (gid, fone q))) with (g_evaluate_at (commit f) x).
    rewrite commit_eval, H0, smul_zero.
    assert (E : geqb gid gid = true) by (apply (geqb_spec _ _ _ _ _ _ _ _ L); reflexivity).
    rewrite E. reflexivity.
  Qed.

  Corollary feldman_accepts_iff f x v :
    feldman_verify (commit f) x v gen = true <-> (evaluate_at q f x <> 0 /\ v mod q = evaluate_at q f x).
  Proof.
    destruct (Z.eq_dec (evaluate_at q f x) 0) as [E0|E0].
    - rewrite feldman_rejects_zero_value by exact E0. split; [discriminate|]. intros [H _]. contradiction.
    - destruct (Z.eq_dec (v mod q) 0) as [Ev|Ev].
      + unfold Poly.feldman_verify.
        change (fst (fold_left _ (commit f) (gid, fone q))) with (g_evaluate_at (commit f) x).
        rewrite commit_eval.
        assert (Ered : evaluate_at q f x mod q = evaluate_at q f x) by (rewrite evaluate_at_spec; apply Zmod_mod).
        destruct (geqb (smul (evaluate_at q f x) gen) gid) eqn:E.
        * apply (geqb_spec _ _ _ _ _ _ _ _ L) in E. apply (gen_free _ _ _ _ _ _ _ _ L) in E.
          exfalso. apply E0. rewrite <- Ered. exact E.
        * rewrite (geqb_spec _ _ _ _ _ _ _ _ L), smul_gen_inj, Ered.
          split; [intros H; split; [exact E0|symmetry; exact H]|intros [_ H]; symmetry; exact H].
      + rewrite (feldman_iff f x v Ev). tauto.
  Qed.
End Group.
