(** C12 -- derivation composes along the path: deriving [p1 ++ p2] from the root is deriving [p2] from the
    extended key reached by [p1] (key and chain code), for every split point.  Only the depth byte differs
    (it counts from the root).  For all groups, oracles, roots, chain codes, prefixes and paths. *)
From SL Require Import Lib.Base Lib.Oracle Model.Bip32 Model.Bip32Spec Proofs.Bip32.
Local Open Scope N_scope.

Lemma last_app_ne {A} (p1 p2 : list A) d : p2 <> [] -> last (p1 ++ p2) d = last p2 d.
Proof.
  intros NE. induction p1 as [|x r IH]; [reflexivity|].
  cbn [app]. destruct (r ++ p2) as [|y t] eqn:E.
  - destruct r; [cbn [app] in E; contradiction|discriminate].
  - exact IH.
Qed.

Section Split.
  Variable G : Type.
  Variable O : group_ops G.
  Variable hmac512 : list N -> list N -> list N.
  Variable sha256 : list N -> list N.
  Variable ripemd160 : list N -> list N.
  Variable q : Z.
  Hypothesis laws : group_laws q O.
  Hypothesis elen : enc_len O.

  Notation gid := (g_id O).
  Notation wlk := (walk G O hmac512 sha256 ripemd160 q).
  Notation dxp := (derive_xpub G O hmac512 sha256 ripemd160 q).

  (** the depth byte re-based to the root *)
  Definition rebase (pfx : prefix) (d : nat) (o : outcome (xpubkey G)) : outcome (xpubkey G) :=
    match o with
    | Val x2 => Val {| x_prefix := pfx; x_depth := N.of_nat d mod 256;
                       x_parent_fingerprint := x_parent_fingerprint G x2; x_child_number := x_child_number G x2;
                       x_chain_code := x_chain_code G x2; x_pubkey := x_pubkey G x2 |}
    | Err e => Err e
    | Panic s => Panic s
    end.

  Lemma walk_app p1 : forall P c f p2,
    wlk P c f (p1 ++ p2) = obind (wlk P c f p1) (fun st => let '(P1, c1, f1) := st in wlk P1 c1 f1 p2).
  Proof.
    induction p1 as [|i r IH]; intros P c f p2; [reflexivity|].
    cbn [app walk].
    destruct (get_finger_print G O sha256 ripemd160 P) as [fp|e|s]; cbn [obind]; try reflexivity.
    destruct (derive_child_pubkey G O hmac512 q P c i) as [[[o P1] c1]|e|s]; cbn [obind]; try reflexivity.
    apply IH.
  Qed.

  (** the incoming parent fingerprint is overwritten by the first step *)
  Lemma walk_fp_irrelevant P c f f' i r : wlk P c f (i :: r) = wlk P c f' (i :: r).
  Proof. reflexivity. Qed.

  Lemma derive_xpub_split_lem pfx root cc p1 p2 x1 : p2 <> [] -> (length (p1 ++ p2) <= 255)%nat ->
    dxp pfx root cc p1 = Val x1 ->
    dxp pfx root cc (p1 ++ p2) =
    rebase pfx (length (p1 ++ p2)) (dxp pfx (x_pubkey G x1) (x_chain_code G x1) p2).
  Proof.
    intros NE Len D1.
    pose proof (derived_key_not_identity_lem G O hmac512 sha256 ripemd160 q laws elen pfx root cc p1 x1 D1) as NI.
    apply (eqb_false G O q laws) in NI.
    destruct p2 as [|i r]; [contradiction|].
    rewrite app_length in Len. cbn [length] in Len.
    unfold derive_xpub in D1 |- *.
    destruct (g_eqb O root gid) eqn:NR; [discriminate|].
    destruct (255 <? N.of_nat (length p1)) eqn:L1; [discriminate|].
    destruct (wlk root cc [0; 0; 0; 0] p1) as [[[P1 c1] f1]|e|s] eqn:W1; cbn [obind] in D1; try discriminate.
    inversion D1; subst x1; clear D1. cbn [x_pubkey x_chain_code] in NI |- *.
    rewrite NI.
    replace (255 <? N.of_nat (length (p1 ++ i :: r))) with false
      by (symmetry; apply N.ltb_ge; rewrite app_length; cbn [length]; lia).
    replace (255 <? N.of_nat (length (i :: r))) with false
      by (symmetry; apply N.ltb_ge; cbn [length]; lia).
    rewrite walk_app, W1. cbn [obind].
    rewrite (walk_fp_irrelevant P1 c1 f1 [0; 0; 0; 0] i r).
    replace (N.of_nat (length (p1 ++ i :: r)) =? 0) with false
      by (symmetry; apply N.eqb_neq; rewrite app_length; cbn [length]; lia).
    replace (N.of_nat (length (i :: r)) =? 0) with false
      by (symmetry; apply N.eqb_neq; cbn [length]; lia).
    rewrite !nth_last. rewrite (last_app_ne p1 (i :: r) 0) by discriminate.
    destruct (wlk P1 c1 [0; 0; 0; 0] (i :: r)) as [[[P2 c2] f2]|e|s]; reflexivity.
  Qed.
End Split.

From SL Require Import Lib.ZqGroup Proofs.Bip32NonVac.
Example split_example :
  exists x1 x, derive_xpub _ (zq33 11 bip32_lt_1_11) ex_hmac ex_sha ex_rip 11 XPub ex_root ex_cc [0] = Val x1 /\
    derive_xpub _ (zq33 11 bip32_lt_1_11) ex_hmac ex_sha ex_rip 11 XPub ex_root ex_cc ([0] ++ [2147483647; 5]) = Val x /\
    rebase _ XPub 3 (derive_xpub _ (zq33 11 bip32_lt_1_11) ex_hmac ex_sha ex_rip 11 XPub (x_pubkey _ x1) (x_chain_code _ x1) [2147483647; 5]) = Val x /\
    x_depth _ x = 3.
Proof.
  eexists. eexists. split; [vm_compute; reflexivity|]. split; [vm_compute; reflexivity|].
  split; vm_compute; reflexivity.
Qed.
