(** C15, header codec: what [allocate_message]/[MsgHdr::encode] writes is what [id()/ttl()/flags()] read back,
    with the TTL reduced to the 16 bits the wire format keeps ([ttl & 0xffff]); 36-byte layout. *)
From SL Require Import Lib.Base Gen.Params Model.Relay.
Local Open Scope N_scope.

(** the generated constants the layout depends on (T1): a change of MESSAGE_ID_SIZE / MESSAGE_HEADER_SIZE in
    message.rs breaks these, and with them every theorem below *)
Lemma ID_SIZE_val : ID_SIZE = 32%nat. Proof. reflexivity. Qed.
Lemma HDR_SIZE_val : HDR_SIZE = 36%nat. Proof. reflexivity. Qed.
Lemma HDR_SIZE_layout : HDR_SIZE = (ID_SIZE + 2 + 2)%nat. Proof. reflexivity. Qed.

Lemma length_to_le n v : length (to_le n v) = n.
Proof. revert v; induction n; intros; cbn [to_le length]; auto. Qed.

Lemma bytes_ok_to_le n v : bytes_ok (to_le n v) = true.
Proof.
  revert v; induction n as [|n IH]; intros v; cbn [to_le]; [reflexivity|].
  unfold bytes_ok in *. cbn [forallb]. rewrite IH, andb_true_r.
  unfold byte_ok. apply N.ltb_lt. apply N.mod_lt. discriminate.
Qed.

Lemma bytes_ok_app a b : bytes_ok (a ++ b) = bytes_ok a && bytes_ok b.
Proof. unfold bytes_ok. apply forallb_app. Qed.

Lemma ones16 : 0xffff = N.ones 16. Proof. reflexivity. Qed.

(** the u32 word written at offset 32 *)
Definition hdr_word (ttl flags : N) : N :=
  as_u32 (N.lor (N.land (as_u32 ttl) 0xffff) (N.shiftl (as_u16 flags) 16)).

Lemma hdr_word_low ttl flags : hdr_word ttl flags mod 2 ^ 16 = ttl mod 2 ^ 16.
Proof.
  unfold hdr_word, as_u32, as_u16.
  rewrite <- !N.land_ones.
  rewrite ones16.
  (* land (land (lor (land (land ttl o32) o16) s) o32) o16 *)
  rewrite <- N.land_assoc.
  replace (N.land (N.ones 32) (N.ones 16)) with (N.ones 16) by reflexivity.
  rewrite N.land_lor_distr_l.
  rewrite <- !N.land_assoc.
  replace (N.land (N.ones 16) (N.ones 16)) with (N.ones 16) by reflexivity.
  replace (N.land (N.ones 32) (N.ones 16)) with (N.ones 16) by reflexivity.
  rewrite (N.land_ones (N.shiftl _ _)).
  rewrite N.shiftl_mul_pow2, N.mod_mul by discriminate.
  apply N.lor_0_r.
Qed.

Lemma hdr_word_high ttl flags : hdr_word ttl flags / 2 ^ 16 = flags mod 2 ^ 16.
Proof.
  unfold hdr_word, as_u32, as_u16.
  assert (F : flags mod 2 ^ 16 < 2 ^ 16) by (apply N.mod_lt; discriminate).
  set (f := flags mod 2 ^ 16) in *.
  rewrite <- !N.land_ones. rewrite ones16.
  rewrite N.land_lor_distr_l.
  rewrite <- N.shiftr_div_pow2.
  rewrite N.shiftr_lor.
  (* low part vanishes *)
  assert (L : N.shiftr (N.land (N.land (N.land ttl (N.ones 32)) (N.ones 16)) (N.ones 32)) 16 = 0).
  { rewrite N.shiftr_div_pow2. apply N.div_small.
    rewrite <- !N.land_assoc.
    replace (N.land (N.ones 32) (N.land (N.ones 16) (N.ones 32))) with (N.ones 16) by reflexivity.
    rewrite N.land_ones. apply N.mod_lt. discriminate. }
  rewrite L, N.lor_0_l.
  rewrite N.land_ones, N.shiftl_mul_pow2.
  rewrite N.mod_small.
  - rewrite N.shiftr_div_pow2, N.div_mul by discriminate. reflexivity.
  - change (2 ^ 32) with (2 ^ 16 * 2 ^ 16). apply N.mul_lt_mono_pos_r; [reflexivity|exact F].
Qed.

Lemma of_le_2 a b : of_le [a; b] = a + 256 * b.
Proof. cbn [of_le]. lia. Qed.

Lemma to_le_4 v : to_le 4 v = [v mod 256; v / 256 mod 256; v / 256 / 256 mod 256; v / 256 / 256 / 256 mod 256].
Proof. reflexivity. Qed.

Lemma two_bytes v : v mod 256 + 256 * (v / 256 mod 256) = v mod 2 ^ 16.
Proof.
  change (2 ^ 16) with (256 * 256).
  rewrite N.mod_mul_r by discriminate. reflexivity.
Qed.

Section Codec.
  Variables (id payload : list N) (ttl flags : N).
  Hypothesis Hid : length id = ID_SIZE.

  Let m := allocate_message id ttl flags payload.

  Lemma alloc_unfold : m = id ++ to_le 4 (hdr_word ttl flags) ++ payload.
  Proof. unfold m, allocate_message, hdr_encode, hdr_word. rewrite <- app_assoc. reflexivity. Qed.

  Lemma alloc_length : length m = (HDR_SIZE + length payload)%nat.
  Proof.
    rewrite alloc_unfold, !app_length, length_to_le, Hid. rewrite HDR_SIZE_layout. lia.
  Qed.

  Lemma alloc_id : hdr_id m = id.
  Proof.
    unfold hdr_id. rewrite alloc_unfold, <- Hid.
    rewrite firstn_app, firstn_all, Nat.sub_diag. cbn [firstn]. apply app_nil_r.
  Qed.

  Lemma alloc_skip_id : skipn ID_SIZE m = to_le 4 (hdr_word ttl flags) ++ payload.
  Proof.
    rewrite alloc_unfold, <- Hid. rewrite skipn_app, skipn_all, Nat.sub_diag. reflexivity.
  Qed.

  Lemma alloc_ttl : hdr_ttl_secs m = ttl mod 2 ^ 16.
  Proof.
    unfold hdr_ttl_secs. rewrite alloc_skip_id, to_le_4. cbn [firstn app].
    rewrite of_le_2, two_bytes. apply hdr_word_low.
  Qed.

  Lemma alloc_flags : hdr_flags m = flags mod 2 ^ 16.
  Proof.
    unfold hdr_flags. rewrite alloc_skip_id, to_le_4. cbn [firstn skipn app].
    rewrite of_le_2.
    rewrite <- (hdr_word_high ttl flags).
    set (w := hdr_word ttl flags).
    assert (W : w < 2 ^ 32) by (apply N.mod_lt; discriminate).
    change (2 ^ 16) with (256 * 256) at 1.
    rewrite <- N.div_div by discriminate.
    set (h := w / 256 / 256).
    assert (H : h < 2 ^ 16).
    { unfold h. rewrite N.div_div by discriminate. apply N.div_lt_upper_bound; [discriminate|exact W]. }
    rewrite two_bytes. apply N.mod_small. exact H.
  Qed.

  Lemma alloc_payload : skipn HDR_SIZE m = payload.
  Proof.
    rewrite alloc_unfold, app_assoc.
    replace HDR_SIZE with (length (id ++ to_le 4 (hdr_word ttl flags)))
      by (rewrite app_length, length_to_le, Hid; reflexivity).
    rewrite skipn_app, skipn_all, Nat.sub_diag. reflexivity.
  Qed.

  Lemma alloc_bytes_ok : bytes_ok id = true -> bytes_ok payload = true -> bytes_ok m = true.
  Proof.
    intros A B. rewrite alloc_unfold, !bytes_ok_app, A, B, bytes_ok_to_le. reflexivity.
  Qed.
End Codec.

(** the section hypothesis is satisfiable: any 32-byte id *)
Example codec_section_inhabited : length (repeat 7 32) = ID_SIZE.
Proof. reflexivity. Qed.

(** The property-level statement: the frame built from (id, ttl: u32, flags: u16, payload) has the 36-byte
    header followed by the payload; id and flags read back as built; the TTL reads back modulo 2^16 -- equal
    to the TTL it was built with exactly when that is within the 16-bit wire range. *)
Theorem hdr_roundtrip_proof : forall id ttl flags payload,
  length id = ID_SIZE -> ttl < 2 ^ 32 -> flags < 2 ^ 16 ->
  let m := allocate_message id ttl flags payload in
  length m = (36 + length payload)%nat /\
  hdr_ok m = true /\
  hdr_id m = id /\
  hdr_ttl_secs m = ttl mod 2 ^ 16 /\
  (ttl < 2 ^ 16 -> hdr_ttl_secs m = ttl) /\
  hdr_flags m = flags /\
  skipn 36 m = payload /\
  (bytes_ok id = true -> bytes_ok payload = true -> bytes_ok m = true).
Proof.
  intros id ttl flags payload Hid Httl Hfl m.
  assert (L : length m = (HDR_SIZE + length payload)%nat) by (apply alloc_length; exact Hid).
  repeat split.
  - exact L.
  - unfold hdr_ok. apply Nat.leb_le. lia.
  - apply alloc_id; exact Hid.
  - apply alloc_ttl; exact Hid.
  - intros S. unfold m. rewrite alloc_ttl by exact Hid. apply N.mod_small; exact S.
  - unfold m. rewrite alloc_flags by exact Hid. apply N.mod_small; exact Hfl.
  - apply (alloc_payload id payload ttl flags Hid).
  - apply alloc_bytes_ok; exact Hid.
Qed.

(** [AskMsg::allocate(id, ttl)] is exactly a header: 36 bytes, flags 0, which the relay classifies as an ask *)
Theorem ask_frame_proof : forall id ttl,
  length id = ID_SIZE -> ttl < 2 ^ 32 ->
  let a := ask_allocate id ttl in
  length a = 36%nat /\ hdr_id a = id /\ hdr_ttl_secs a = ttl mod 2 ^ 16 /\ hdr_flags a = 0.
Proof.
  intros id ttl Hid Httl a. unfold a, ask_allocate.
  destruct (hdr_roundtrip_proof id ttl 0 [] Hid Httl eq_refl) as (L & _ & I & T & _ & F & _).
  repeat split; auto.
Qed.
