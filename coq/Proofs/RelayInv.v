(** C16: the invariant tying the relay store to its lazy expiry heap, and its consequence: under the
    invariant [cleanup now] removes EXACTLY the store entries whose own expiry is [<= now]
    ([cleanup_live]) -- the heap with its stale entries behaves like eager expiry by own lifetime. *)
From SL Require Import Lib.Base Model.Relay Proofs.RelayMap Proofs.RelayCleanup.
From Coq Require Import Permutation.
Local Open Scope N_scope.

(** own expiry of a store entry: for [Ready] the (ghost) expiry of the publication, for [Waiters] the stored
    maximum of the expiries of the asks that joined *)
Definition expiry (v : entry) : time := match v with Ready e _ => e | Waiters e _ => e end.

Definition is_pub_for (id : msgid) (e : hentry) : bool := kind_eqb (h_kind e) KPub && id_eqb (h_id e) id.
(** the [Pub] heap entries of an id *)
Definition pubs (id : msgid) (h : list hentry) : list hentry := filter (is_pub_for id) h.

Record Inv (T : time) (s : state) : Prop := mkInv {
  (* the store is a map *)
  inv_nodup : NoDup (keys (msgs s));
  (* (a) Ready at id  =>  exactly one Pub heap entry for id, carrying that message's own expiry *)
  inv_ready : forall id e m, lookup id (msgs s) = Some (Ready e m) -> pubs id (heap s) = [(e, id, KPub)];
  (*     ... and no Pub entry for an id that is not Ready *)
  inv_nopub : forall id, (forall e m, lookup id (msgs s) <> Some (Ready e m)) -> pubs id (heap s) = [];
  (* (b) Waiters E at id  =>  an Ask heap entry (E, id) exists *)
  inv_wait : forall id E l, lookup id (msgs s) = Some (Waiters E l) -> In (E, id, KAsk) (heap s);
  (* (c) nothing in the heap or in the store has an expiry before T *)
  inv_heap_live : forall e, In e (heap s) -> T <= h_when e;
  inv_msgs_live : forall id v, lookup id (msgs s) = Some v -> T <= expiry v;
  (* stored publications are filed under their own id and have a payload *)
  inv_ready_wf : forall id e m, lookup id (msgs s) = Some (Ready e m) -> hdr_id m = id /\ (HDR_SIZE < length m)%nat;
  (* waiter lists are never empty *)
  inv_wait_ne : forall id E l, lookup id (msgs s) = Some (Waiters E l) -> l <> [];
}.

(** strict version, established by [cleanup now]: everything left expires strictly after [now] *)
Definition InvS (now : time) (s : state) : Prop :=
  Inv now s /\ (forall e, In e (heap s) -> now < h_when e) /\
  (forall id v, lookup id (msgs s) = Some v -> now < expiry v).

Lemma Inv_ext T s s' : msgs s = msgs s' -> heap s = heap s' -> Inv T s -> Inv T s'.
Proof. intros M H [A B C D E F G I]. constructor; rewrite <- ?M, <- ?H; assumption. Qed.

Theorem Inv_init : Inv 0 init.
Proof.
  constructor; cbn [init msgs heap keys map lookup pubs filter]; try discriminate; try contradiction.
  - constructor.
  - reflexivity.
Qed.

(** ** under the invariant, [dead] = "own expiry has passed" *)

Lemma existsb_filter {A} (f g : A -> bool) l : existsb f (filter g l) = existsb (fun x => g x && f x) l.
Proof.
  induction l as [|x r IH]; cbn [filter existsb]; [reflexivity|].
  destruct (g x); cbn [existsb andb]; rewrite IH; reflexivity.
Qed.

Lemma in_pubs id x h : In x (pubs id h) <-> In x h /\ h_kind x = KPub /\ h_id x = id.
Proof.
  unfold pubs, is_pub_for. rewrite filter_In, andb_true_iff.
  destruct (kind_eqb_spec (h_kind x) KPub), (id_eqb_spec (h_id x) id); intuition congruence.
Qed.

Lemma dead_live T s now k v : Inv T s -> lookup k (msgs s) = Some v ->
  dead now (due now (heap s)) (msgs s) k = (expiry v <=? now).
Proof.
  intros I L. unfold dead. rewrite L. unfold due. rewrite existsb_filter.
  apply Bool.eq_iff_eq_true. rewrite existsb_exists. split.
  - intros (x & Hx & Hc). rewrite !andb_true_iff in Hc. destruct Hc as (D & Ek & M).
    destruct (id_eqb_spec (h_id x) k) as [E|]; [|discriminate].
    destruct v as [e m|E' l]; cbn [matches expiry] in *.
    + destruct (kind_eqb_spec (h_kind x) KPub) as [K|]; [|discriminate].
      assert (Ip : In x (pubs k (heap s))) by (apply in_pubs; auto).
      rewrite (inv_ready _ _ I _ _ _ L) in Ip. destruct Ip as [<-|[]]. exact D.
    + rewrite andb_true_iff in M. tauto.
  - intros Hle. destruct v as [e m|E' l]; cbn [matches expiry] in *.
    + exists (e, k, KPub). split.
      * assert (Ip : In (e, k, KPub) (pubs k (heap s))) by (rewrite (inv_ready _ _ I _ _ _ L); left; reflexivity).
        apply in_pubs in Ip. tauto.
      * unfold is_due. cbn [h_when h_id h_kind fst snd]. rewrite Hle, id_eqb_refl. reflexivity.
    + exists (E', k, KAsk). split.
      * exact (inv_wait _ _ I _ _ _ L).
      * unfold is_due. cbn [h_when h_id h_kind fst snd]. rewrite Hle, id_eqb_refl. reflexivity.
Qed.

(** the entries whose own expiry is after [now] *)
Definition live (now : time) (m : list (msgid * entry)) := filter (fun kv => now <? expiry (snd kv)) m.

Lemma swept_live T s now : Inv T s -> swept now (heap s) (msgs s) = live now (msgs s).
Proof.
  intros I. unfold swept, live. apply filter_ext_in. intros [k v] Hin. cbn [fst snd].
  rewrite (dead_live T s now k v I) by (apply In_lookup; [exact (inv_nodup _ _ I)|exact Hin]).
  rewrite N.ltb_antisym. reflexivity.
Qed.

(** THE characterisation of cleanup under the invariant: eager expiry by own lifetime *)
Theorem cleanup_live T s now : Inv T s ->
  cleanup now s = mkState (live now (msgs s)) (later now (heap s)) (queue s) (chan s).
Proof. intros I. rewrite cleanup_exact, (swept_live T s now I). reflexivity. Qed.

Lemma lookup_live now m k : NoDup (keys m) ->
  lookup k (live now m) = match lookup k m with
                          | Some v => if now <? expiry v then Some v else None
                          | None => None
                          end.
Proof. intros ND. unfold live. rewrite lookup_filter by exact ND. reflexivity. Qed.

Lemma lookup_live_some now m k v : NoDup (keys m) ->
  lookup k (live now m) = Some v <-> lookup k m = Some v /\ now < expiry v.
Proof.
  intros ND. rewrite lookup_live by exact ND.
  destruct (lookup k m) as [v'|]; [|split; [discriminate|intros [? _]; discriminate]].
  destruct (now <? expiry v') eqn:C.
  - apply N.ltb_lt in C. split; [intros H; inversion H; subst; auto|intros [H _]; exact H].
  - apply N.ltb_ge in C. split; [discriminate|]. intros [H Hl]. inversion H; subst. lia.
Qed.

Lemma pubs_later now id h : pubs id (later now h) = later now (pubs id h).
Proof.
  unfold pubs, later. rewrite !filter_filter. apply filter_ext. intros x. apply andb_comm.
Qed.

Theorem cleanup_inv T s now : Inv T s -> InvS now (cleanup now s).
Proof.
  intros I. rewrite (cleanup_live T s now I).
  pose proof (inv_nodup _ _ I) as ND.
  assert (Hheap : forall e, In e (later now (heap s)) -> now < h_when e).
  { intros e He. unfold later in He. apply filter_In in He. destruct He as [_ He]. apply N.ltb_lt. exact He. }
  assert (Hmsgs : forall id v, lookup id (live now (msgs s)) = Some v -> now < expiry v).
  { intros id v L. apply lookup_live_some in L; tauto. }
  split; [|split; cbn [heap msgs]; assumption].
  constructor; cbn [msgs heap].
  - apply keys_filter_NoDup. exact ND.
  - intros id e m L. apply lookup_live_some in L; [|exact ND]. destruct L as [L Lt]. cbn [expiry] in Lt.
    rewrite pubs_later, (inv_ready _ _ I _ _ _ L). unfold later. cbn [filter]. unfold is_later. cbn [h_when fst].
    replace (now <? e) with true by (symmetry; apply N.ltb_lt; exact Lt). reflexivity.
  - intros id Hn. rewrite pubs_later.
    destruct (lookup id (msgs s)) as [[e m|E l]|] eqn:L.
    + rewrite (inv_ready _ _ I _ _ _ L). unfold later. cbn [filter]. unfold is_later. cbn [h_when fst].
      destruct (now <? e) eqn:C; [|reflexivity]. exfalso. apply (Hn e m).
      apply lookup_live_some; [exact ND|]. split; [exact L|apply N.ltb_lt; exact C].
    + rewrite (inv_nopub _ _ I id); [reflexivity|]. intros e m. rewrite L. discriminate.
    + rewrite (inv_nopub _ _ I id); [reflexivity|]. intros e m. rewrite L. discriminate.
  - intros id E l L. apply lookup_live_some in L; [|exact ND]. destruct L as [L Lt]. cbn [expiry] in Lt.
    unfold later. apply filter_In. split; [exact (inv_wait _ _ I _ _ _ L)|].
    unfold is_later. cbn [h_when fst]. apply N.ltb_lt. exact Lt.
  - intros e He. apply N.lt_le_incl. apply Hheap. exact He.
  - intros id v L. apply N.lt_le_incl. eapply Hmsgs. exact L.
  - intros id e m L. apply lookup_live_some in L; [|exact ND]. destruct L as [L _]. exact (inv_ready_wf _ _ I _ _ _ L).
  - intros id E l L. apply lookup_live_some in L; [|exact ND]. destruct L as [L _]. exact (inv_wait_ne _ _ I _ _ _ L).
Qed.

(** ** the parts of [inner_send] / [inner_recv] after the cleanup *)

Definition send_post (f : frame) (now : time) (s1 : state) : state :=
  let expire := now + hdr_ttl f in
  let id := hdr_id f in
  let k := if Nat.eqb (length f) HDR_SIZE then KAsk else KPub in
  match lookup id (msgs s1) with
  | Some (Waiters _ l) =>
      mkState (insert id (Ready expire f) (msgs s1)) ((expire, id, k) :: heap s1)
              (queue s1) (chan s1 ++ map (fun c => (c, f)) l)
  | Some (Ready _ _) => s1
  | None =>
      mkState (insert id (Ready expire f) (msgs s1)) ((expire, id, k) :: heap s1) (queue s1) (chan s1)
  end.

Definition recv_post (c : conn) (id : msgid) (ttl : N) (now : time) (s1 : state) : state :=
  let expire := now + ttl in
  match lookup id (msgs s1) with
  | Some (Ready _ m) => mkState (msgs s1) (heap s1) ((c, m) :: queue s1) (chan s1)
  | Some (Waiters prev l) =>
      mkState (insert id (Waiters (N.max expire prev) (l ++ [c])) (msgs s1))
              ((expire, id, KAsk) :: heap s1) (queue s1) (chan s1)
  | None =>
      mkState (insert id (Waiters expire [c]) (msgs s1)) ((expire, id, KAsk) :: heap s1) (queue s1) (chan s1)
  end.

Lemma inner_send_unfold f now s :
  inner_send f now s = if Nat.leb (length f) HDR_SIZE then s else send_post f now (cleanup now s).
Proof. reflexivity. Qed.

Lemma inner_recv_unfold c id ttl now s : inner_recv c id ttl now s = recv_post c id ttl now (cleanup now s).
Proof. reflexivity. Qed.

Lemma pubs_cons id e h : pubs id (e :: h) = if is_pub_for id e then e :: pubs id h else pubs id h.
Proof. reflexivity. Qed.

Lemma is_pub_for_pub e id id' : is_pub_for id' (e, id, KPub) = id_eqb id id'.
Proof. reflexivity. Qed.

Lemma is_pub_for_ask e id id' : is_pub_for id' (e, id, KAsk) = false.
Proof. reflexivity. Qed.

(** storing a publication under an id that is not [Ready] *)
Lemma store_ready_inv now s1 f q c :
  InvS now s1 -> (HDR_SIZE < length f)%nat ->
  (forall e m, lookup (hdr_id f) (msgs s1) <> Some (Ready e m)) ->
  Inv now (mkState (insert (hdr_id f) (Ready (now + hdr_ttl f) f) (msgs s1))
                   ((now + hdr_ttl f, hdr_id f, KPub) :: heap s1) q c).
Proof.
  intros (I & Hh & Hm) Hlen Hnr.
  set (id := hdr_id f) in *. set (ex := now + hdr_ttl f).
  constructor; cbn [msgs heap].
  - apply keys_insert_NoDup. exact (inv_nodup _ _ I).
  - intros id' e m. rewrite lookup_insert, pubs_cons, is_pub_for_pub.
    destruct (id_eqb_spec id id') as [<-|N]; intros L.
    + inversion L; subst e m. rewrite (inv_nopub _ _ I id Hnr). reflexivity.
    + exact (inv_ready _ _ I _ _ _ L).
  - intros id' Hn. rewrite pubs_cons, is_pub_for_pub.
    destruct (id_eqb_spec id id') as [<-|N].
    + exfalso. apply (Hn ex f). apply lookup_insert_eq.
    + apply (inv_nopub _ _ I). intros e m L. apply (Hn e m). rewrite lookup_insert_neq by exact N. exact L.
  - intros id' E l. rewrite lookup_insert.
    destruct (id_eqb_spec id id') as [<-|N]; intros L; [discriminate|].
    right. exact (inv_wait _ _ I _ _ _ L).
  - intros e [<-|He]; [cbn [h_when fst]; unfold ex; lia|apply N.lt_le_incl; auto].
  - intros id' v. rewrite lookup_insert.
    destruct (id_eqb_spec id id') as [<-|N]; intros L.
    + inversion L; subst v. cbn [expiry]. unfold ex; lia.
    + apply N.lt_le_incl. eapply Hm; exact L.
  - intros id' e m. rewrite lookup_insert.
    destruct (id_eqb_spec id id') as [<-|N]; intros L.
    + inversion L; subst e m. split; [reflexivity|exact Hlen].
    + exact (inv_ready_wf _ _ I _ _ _ L).
  - intros id' E l. rewrite lookup_insert.
    destruct (id_eqb_spec id id') as [<-|N]; intros L; [discriminate|].
    exact (inv_wait_ne _ _ I _ _ _ L).
Qed.

Lemma send_post_inv now s1 f : InvS now s1 -> (HDR_SIZE < length f)%nat -> Inv now (send_post f now s1).
Proof.
  intros IS Hlen. unfold send_post.
  replace (Nat.eqb (length f) HDR_SIZE) with false by (symmetry; apply Nat.eqb_neq; lia).
  destruct (lookup (hdr_id f) (msgs s1)) as [[e m|E l]|] eqn:L.
  - exact (proj1 IS).
  - apply store_ready_inv; auto. intros e m. rewrite L. discriminate.
  - apply store_ready_inv; auto. intros e m. rewrite L. discriminate.
Qed.

(** storing / extending waiters under an id that is not [Ready] *)
Lemma store_waiters_inv now s1 id ex E l q c :
  InvS now s1 -> now <= ex -> now <= E -> l <> [] ->
  (forall e m, lookup id (msgs s1) <> Some (Ready e m)) ->
  (E = ex \/ In (E, id, KAsk) (heap s1)) ->
  Inv now (mkState (insert id (Waiters E l) (msgs s1)) ((ex, id, KAsk) :: heap s1) q c).
Proof.
  intros (I & Hh & Hm) Hex HE Hl Hnr HIn.
  constructor; cbn [msgs heap].
  - apply keys_insert_NoDup. exact (inv_nodup _ _ I).
  - intros id' e m. rewrite lookup_insert, pubs_cons, is_pub_for_ask.
    destruct (id_eqb_spec id id') as [<-|N]; intros L; [discriminate|].
    exact (inv_ready _ _ I _ _ _ L).
  - intros id' Hn. rewrite pubs_cons, is_pub_for_ask.
    destruct (id_eqb_spec id id') as [<-|N].
    + exact (inv_nopub _ _ I id Hnr).
    + apply (inv_nopub _ _ I). intros e m L. apply (Hn e m). rewrite lookup_insert_neq by exact N. exact L.
  - intros id' E' l'. rewrite lookup_insert.
    destruct (id_eqb_spec id id') as [<-|N]; intros L.
    + inversion L; subst E' l'. destruct HIn as [->|HIn]; [left; reflexivity|right; exact HIn].
    + right. exact (inv_wait _ _ I _ _ _ L).
  - intros e [<-|He]; [exact Hex|apply N.lt_le_incl; auto].
  - intros id' v. rewrite lookup_insert.
    destruct (id_eqb_spec id id') as [<-|N]; intros L.
    + inversion L; subst v. exact HE.
    + apply N.lt_le_incl. eapply Hm; exact L.
  - intros id' e m. rewrite lookup_insert.
    destruct (id_eqb_spec id id') as [<-|N]; intros L; [discriminate|].
    exact (inv_ready_wf _ _ I _ _ _ L).
  - intros id' E' l'. rewrite lookup_insert.
    destruct (id_eqb_spec id id') as [<-|N]; intros L.
    + inversion L; subst. exact Hl.
    + exact (inv_wait_ne _ _ I _ _ _ L).
Qed.

Lemma recv_post_inv now s1 c id ttl : InvS now s1 -> Inv now (recv_post c id ttl now s1).
Proof.
  intros IS. pose proof IS as (I & Hh & Hm). unfold recv_post.
  destruct (lookup id (msgs s1)) as [[e m|E l]|] eqn:L.
  - eapply Inv_ext; [| |exact I]; reflexivity.
  - apply store_waiters_inv; auto.
    + lia.
    + specialize (Hm _ _ L). cbn [expiry] in Hm. lia.
    + destruct l; discriminate.
    + intros e m. rewrite L. discriminate.
    + destruct (N.max_spec (now + ttl) E) as [[_ ->]|[_ ->]]; [right; exact (inv_wait _ _ I _ _ _ L)|left; reflexivity].
  - apply store_waiters_inv; auto; try lia.
    + discriminate.
    + intros e m. rewrite L. discriminate.
Qed.

(** ** preservation by every step *)

(** the time at which an operation runs [cleanup] (if it does) *)
Definition clean_time (T : time) (o : op) : time :=
  match o with
  | OSend _ f t => if hdr_ok f then t else T
  | ORelaySend f t => if Nat.leb (length f) HDR_SIZE then T else t
  | _ => T
  end.

Theorem step_inv T s o : Inv T s -> Inv (clean_time T o) (fst (step s o)).
Proof.
  intros I. destruct o as [c f t|f t|c|]; cbn [step clean_time].
  - unfold hdr_ok. destruct (Nat.leb HDR_SIZE (length f)) eqn:Hok; cbn [negb fst]; [|exact I].
    apply Nat.leb_le in Hok.
    destruct (Nat.eqb (length f) HDR_SIZE) eqn:Heq; cbn [fst].
    + rewrite inner_recv_unfold. apply recv_post_inv. eapply cleanup_inv; exact I.
    + apply Nat.eqb_neq in Heq. rewrite inner_send_unfold.
      replace (Nat.leb (length f) HDR_SIZE) with false by (symmetry; apply Nat.leb_gt; lia).
      apply send_post_inv; [eapply cleanup_inv; exact I|lia].
  - cbn [fst]. rewrite inner_send_unfold.
    destruct (Nat.leb (length f) HDR_SIZE) eqn:Hle; [exact I|].
    apply Nat.leb_gt in Hle. apply send_post_inv; [eapply cleanup_inv; exact I|lia].
  - cbn [fst]. eapply Inv_ext; [| |exact I]; reflexivity.
  - exact I.
Qed.

Fixpoint last_clean (T : time) (h : list op) : time :=
  match h with
  | [] => T
  | o :: r => last_clean (clean_time T o) r
  end.

Theorem exec_inv h : forall T s, Inv T s -> Inv (last_clean T h) (exec s h).
Proof.
  induction h as [|o r IH]; intros T s I; cbn [exec fold_left last_clean]; [exact I|].
  apply IH. apply step_inv. exact I.
Qed.

Corollary reachable_inv h : Inv (last_clean 0 h) (exec init h).
Proof. apply exec_inv. exact Inv_init. Qed.

Lemma exec_app s h1 h2 : exec s (h1 ++ h2) = exec (exec s h1) h2.
Proof. unfold exec. apply fold_left_app. Qed.

Lemma last_clean_app T h1 h2 : last_clean T (h1 ++ h2) = last_clean (last_clean T h1) h2.
Proof. revert T; induction h1 as [|o r IH]; intros T; cbn [app last_clean]; auto. Qed.
