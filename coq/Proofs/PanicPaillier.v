(** C11 for the Paillier key Deserialize impls (Model/Paillier.v: deser_pk, deser_sk; the code after the F4
    repair).  The only panic of key construction is DynResidueParams::new on an even modulus (N^2, p^2, q^2).
    A serialised key is a fixed-width integer (Uint<M> for N, Uint<P> for p and q), so the value ranges below are
    what the byte format can express; inside them EVERY value -- zero, even, non-prime, p = q -- gives an error or
    a key, never the panic.  The no-panic lemmas are in Proofs/PaillierWidth.v (C07); here: the complete case
    split, the zero / even cases without any width hypothesis, and that the site is real (what the validation
    keeps away: key construction from an even value panics). *)
From Coq Require Import ZArith Lia List.
From SL Require Import Lib.Base Model.Paillier Proofs.PaillierWidth Proofs.PaillierExamples.
Local Open Scope Z_scope.

Lemma deser_pk_zero w : deser_pk w 0 = Err 1%N.
Proof. reflexivity. Qed.

Lemma deser_pk_even w n : n <> 0 -> Z.even n = true -> deser_pk w n = Err 2%N.
Proof.
  intros Hn He. unfold deser_pk. destruct (Z.eqb_spec n 0); [contradiction|].
  rewrite <- Z.negb_even, He. reflexivity.
Qed.

Lemma deser_sk_even w p q : Z.even p = true \/ Z.even q = true -> deser_sk w p q = Err 2%N.
Proof.
  intros H. unfold deser_sk. rewrite <- !Z.negb_even.
  destruct H as [-> | ->]; [reflexivity|]. destruct (negb (Z.even p)); reflexivity.
Qed.

(** every public-key value: exactly one of Err 1 (zero), Err 2 (even), a key (odd) *)
Lemma deser_pk_cases w n : widths_ok w -> 0 <= n < 2 ^ wM w ->
  (n = 0 /\ deser_pk w n = Err 1%N) \/
  (n <> 0 /\ Z.even n = true /\ deser_pk w n = Err 2%N) \/
  (Z.odd n = true /\ deser_pk w n = Val (from_n w n)).
Proof.
  intros Hw Hn. destruct (Z.eqb_spec n 0) as [->|Hz]; [left; auto|].
  destruct (Z.even n) eqn:He; [right; left; repeat split; auto; apply deser_pk_even; auto|].
  right; right. assert (Ho : Z.odd n = true) by (rewrite <- Z.negb_even, He; reflexivity).
  split; [exact Ho|].
  pose proof (deser_pk_no_panic w n Hw Hn) as T. unfold deser_pk in *.
  destruct (Z.eqb_spec n 0); [contradiction|]. rewrite Ho in *. unfold from_n_outcome in *.
  destruct (from_n_panics w n); [discriminate|reflexivity].
Qed.

Lemma deser_sk_cases w p q : widths_ok w -> 0 <= p < 2 ^ wP w -> 0 <= q < 2 ^ wP w ->
  ((Z.even p = true \/ Z.even q = true) /\ deser_sk w p q = Err 2%N) \/
  (Z.odd p = true /\ Z.odd q = true /\ deser_sk w p q = Val (from_pq w p q)).
Proof.
  intros Hw Hp Hq.
  destruct (Z.even p) eqn:Ep; [left; split; [auto|apply deser_sk_even; auto]|].
  destruct (Z.even q) eqn:Eq; [left; split; [auto|apply deser_sk_even; auto]|].
  right. assert (Op : Z.odd p = true) by (rewrite <- Z.negb_even, Ep; reflexivity).
  assert (Oq : Z.odd q = true) by (rewrite <- Z.negb_even, Eq; reflexivity).
  split; [exact Op|]. split; [exact Oq|].
  pose proof (deser_sk_no_panic w p q Hw Hp Hq) as T. unfold deser_sk in *. rewrite Op, Oq in *. cbn [andb] in *.
  unfold from_pq_outcome in *. destruct (from_pq_panics w p q); [discriminate|reflexivity].
Qed.

(** the site is real: building the key from an even modulus (what the pre-F4 Deserialize did) panics *)
Lemma from_n_even_panics w n : widths_ok w -> 0 <= n < 2 ^ wM w -> Z.even n = true ->
  from_n_outcome w n = Panic 1%N.
Proof.
  intros (HP & H8 & HM & HC) Hn He.
  assert (HpowC : 2 ^ wC w = 2 ^ wM w * 2 ^ wM w) by (rewrite HC; apply pow2_double; lia).
  unfold from_n_outcome, from_n_panics. rewrite wrap_small by nia.
  rewrite Z.even_mul, He. reflexivity.
Qed.

(** Non-vacuity: the smallest configuration, with a zero, an even, an odd composite modulus and p = q *)
Example pp_hyps_satisfiable :
  widths_ok cfg512 /\ 0 <= 0 < 2 ^ wM cfg512 /\ 0 <= 2 ^ 255 < 2 ^ wM cfg512 /\ 0 <= 15 < 2 ^ wP cfg512 /\
  deser_pk cfg512 0 = Err 1%N /\ deser_pk cfg512 (2 ^ 255) = Err 2%N /\
  is_panic (deser_pk cfg512 15) = false /\ is_panic (deser_sk cfg512 15 15) = false /\
  deser_sk cfg512 0 7 = Err 2%N.
Proof.
  split; [exact widths_ok_512|]. cbn [cfg512 wM wP].
  repeat split; try reflexivity; try (apply Z.pow_pos_nonneg; lia);
    try (apply Z.pow_lt_mono_r; lia); try lia.
Qed.

Lemma deser_zero_even_rejected :
  (forall w, deser_pk w 0 = Err 1%N) /\
  (forall w n, n <> 0 -> Z.even n = true -> deser_pk w n = Err 2%N) /\
  (forall w p q, Z.even p = true \/ Z.even q = true -> deser_sk w p q = Err 2%N).
Proof. exact (conj deser_pk_zero (conj deser_pk_even deser_sk_even)). Qed.
