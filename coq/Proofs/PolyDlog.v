(** C13: the discrete-log instance (Model/PolyDlog.v: G = Z_q, gen = 1) satisfies [module_laws] for
    EVERY modulus q, so no group-side theorem is vacuous; the instantiated theorems; and the
    group-side functions in this instance are the scalar-side ones (used by the correspondence). *)
From Coq Require Import Eqdep_dec.
From SL Require Import Lib.Base Model.Poly Model.PolyDlog Proofs.PolyFact Proofs.PolySum Proofs.PolyDeriv Proofs.PolyGroup.
Local Open Scope Z_scope.

Section Dlog.
  Variable q : Z.

  Lemma zq_val_mk x : zq_val q (zq_mk q x) = x mod q.
  Proof.
    unfold zq_mk, zq_val.
    assert (X : forall (r : Z) (Hr : r mod q = r) (b : bool) (H : (r mod q =? r) = b),
      proj1_sig ((if b as b0 return ((r mod q =? r) = b0 -> zq q)
                  then fun H0 => exist _ r H0
                  else fun _ => exist _ 0 eq_refl) H) = r).
    { intros r Hr b H. destruct b; [reflexivity|].
      exfalso. rewrite Hr, Z.eqb_refl in H. discriminate. }
    apply X. apply Zmod_mod.
  Qed.

  Lemma zq_val_canon (a : zq q) : zq_val q a mod q = zq_val q a.
  Proof. destruct a as [x H]. cbn. apply Z.eqb_eq. exact H. Qed.

  Lemma zq_eq (a b : zq q) : zq_val q a = zq_val q b -> a = b.
  Proof.
    destruct a as [x Hx], b as [y Hy]. cbn. intros E. subst y. f_equal.
    apply UIP_dec. apply Bool.bool_dec.
  Qed.

  Theorem dlog_laws :
    module_laws q (zq q) (dl_add q) (dl_neg q) (dl_id q) (dl_smul q) (dl_eqb q) (dl_gen q).
  Proof.
    constructor; intros; try (apply zq_eq); unfold dl_add, dl_neg, dl_id, dl_smul, dl_gen, dl_eqb;
      rewrite ?zq_val_mk.
    - rewrite Zplus_mod_idemp_r, Zplus_mod_idemp_l. f_equal. ring.
    - f_equal. ring.
    - rewrite Zmod_0_l, Z.add_0_l. apply zq_val_canon.
    - rewrite Zplus_mod_idemp_l, Zmod_0_l. replace (- zq_val q P + zq_val q P) with 0 by ring. apply Zmod_0_l.
    - rewrite <- Zplus_mod. f_equal. ring.
    - rewrite Zmult_mod_idemp_r, <- Zplus_mod. f_equal. ring.
    - rewrite Zmult_mod_idemp_r. f_equal. ring.
    - rewrite Z.mul_1_l. apply zq_val_canon.
    - apply Zmult_mod_idemp_l.
    - assert (E := f_equal (zq_val q) H). unfold dl_smul, dl_gen, dl_id in E. rewrite !zq_val_mk in E.
      rewrite Zmult_mod_idemp_r, Z.mul_1_r, Zmod_0_l in E. exact E.
    - rewrite Z.eqb_eq. split; [apply zq_eq|intros ->; reflexivity].
  Qed.

  (** the instance is not degenerate: for q > 1 generator and identity differ *)
  Lemma dlog_gen_nontrivial : 1 < q -> dl_gen q <> dl_id q.
  Proof.
    intros Hq E. assert (X := f_equal (zq_val q) E). unfold dl_gen, dl_id in X.
    rewrite !zq_val_mk, Zmod_0_l, Z.mod_1_l in X by exact Hq. discriminate.
  Qed.

  (* ---- the theorems of Proofs/PolyGroup.v in this instance (non-vacuity) *)
  Example eval_agree_dlog F x :
    g_evaluate_at q (zq q) (dl_add q) (dl_id q) (dl_smul q) F x
    = g_power_sum q (zq q) (dl_add q) (dl_id q) (dl_smul q) x 0 F.
  Proof. exact (eval_agree q _ _ _ _ _ _ _ dlog_laws F x). Qed.

  Example commit_eval_dlog f x :
    g_evaluate_at q (zq q) (dl_add q) (dl_id q) (dl_smul q) (commit (zq q) (dl_smul q) (dl_gen q) f) x
    = dl_smul q (evaluate_at q f x) (dl_gen q).
  Proof. exact (commit_eval q _ _ _ _ _ _ _ dlog_laws f x). Qed.

  Example feldman_iff_dlog f x v : v mod q <> 0 ->
    (feldman_verify q (zq q) (dl_add q) (dl_id q) (dl_smul q) (dl_eqb q)
       (commit (zq q) (dl_smul q) (dl_gen q) f) x v (dl_gen q) = true
     <-> v mod q = evaluate_at q f x).
  Proof. exact (feldman_iff q _ _ _ _ _ _ _ dlog_laws f x v). Qed.

  (* ---- the functions used by the correspondence are the scalar-side functions *)
  Lemma dl_points_commit f : dl_points q f = commit (zq q) (dl_smul q) (dl_gen q) f.
  Proof.
    unfold dl_points, commit. apply map_ext. intros c. apply zq_eq.
    unfold dl_smul, dl_gen. rewrite !zq_val_mk, Zmult_mod_idemp_r, Z.mul_1_r. reflexivity.
  Qed.

  Lemma dl_commit_spec f : dl_commit q f = map (fun c => c mod q) f.
  Proof.
    unfold dl_commit, commit. rewrite map_map. apply map_ext. intros c.
    unfold dl_smul, dl_gen. rewrite !zq_val_mk, Zmult_mod_idemp_r, Z.mul_1_r. reflexivity.
  Qed.

  Lemma zq_val_smul_gen a : zq_val q (dl_smul q a (dl_gen q)) = a mod q.
  Proof. unfold dl_smul, dl_gen. rewrite !zq_val_mk, Zmult_mod_idemp_r, Z.mul_1_r. reflexivity. Qed.

  (** running-power fold on discrete logs = power sum of the scalar side *)
  Theorem dl_evaluate_at_spec f x : dl_evaluate_at q f x = evaluate_at q f x.
  Proof.
    unfold dl_evaluate_at. rewrite dl_points_commit, commit_eval_dlog, zq_val_smul_gen.
    rewrite evaluate_at_spec. apply Zmod_mod.
  Qed.

  Theorem dl_derivative_coeffs_spec f n : (n <= length f)%nat -> Z.of_nat (length f) <= 2 ^ 64 ->
    dl_derivative_coeffs q f n = Val (map (fun c => c mod q) (Nat.iter n pderiv f)).
  Proof.
    intros Hn Hlen. unfold dl_derivative_coeffs. rewrite dl_points_commit.
    rewrite (commit_derivative q _ _ _ _ _ _ _ dlog_laws f n Hn Hlen).
    f_equal. fold (dl_commit q (Nat.iter n pderiv f)). apply dl_commit_spec.
  Qed.

  Theorem dl_feldman_verify_spec f x v : v mod q <> 0 ->
    (dl_feldman_verify q f x v 1 = true <-> v mod q = evaluate_at q f x).
  Proof.
    intros Hv. unfold dl_feldman_verify. rewrite dl_points_commit.
    fold (dl_gen q). apply feldman_iff_dlog. exact Hv.
  Qed.
End Dlog.

(** concrete runs in the instance (secp256k1 order) *)
Example dlog_feldman_accepts :
  dl_feldman_verify secp256k1_q [5; 7; 11] 3 (5 + 7 * 3 + 11 * 9) 1 = true.
Proof. vm_compute. reflexivity. Qed.
Example dlog_feldman_rejects_off_by_one :
  dl_feldman_verify secp256k1_q [5; 7; 11] 3 (5 + 7 * 3 + 11 * 9 + 1) 1 = false.
Proof. vm_compute. reflexivity. Qed.
Example dlog_feldman_rejects_identity :
  dl_feldman_verify secp256k1_q [secp256k1_q - 3; 1] 3 0 1 = false.
Proof. vm_compute. reflexivity. Qed.
