(** C06 non-vacuity: the premises of the theorems are satisfiable, with tiny concrete oracles. *)
From SL Require Import Lib.Base Lib.Oracle Gen.Params Model.Pprf
     Proofs.PprfBytes Proofs.PprfTree Proofs.Pprf Proofs.PprfTamper Proofs.PprfAdv Proofs.PprfMain.
Local Open Scope nat_scope.

(** a small oracle that depends on its whole query: two bytes derived from the sum of everything absorbed *)
Definition top_weight (t : top) : N :=
  match t with
  | TInit l => fold_right N.add 1%N l
  | TAppend l d => fold_right N.add (fold_right N.add 3%N l) d
  | TAppendU64 l v => fold_right N.add v l
  | TChallenge l n => fold_right N.add (7 + n)%N l
  end.
Definition H_tiny : transcript_oracle :=
  fun ops => let w := fold_right (fun t a => (top_weight t + 3 * a)%N) 0%N ops in [(w mod 256)%N; ((w / 7) mod 256)%N].
(** the constant oracle: every tampered message with the right digest is accepted, and collisions abound *)
Definition H_const : transcript_oracle := fun _ => [].

Definition ex_sk : list (bytes * bytes) := repeat ([1%N], [2%N; 5%N]) (Ntrees * Kdepth).
(** choice bits 0xA5 repeated: every tree reads bits 1,0,1,0 / 0,1,0,1 alternately *)
Definition ex_cb : bytes := repeat 165%N 32.
Definition ex_rk : list bytes :=
  map (fun i => sel (extract_bit ex_cb i) (nth i ex_sk ([], []))) (seq 0 (Ntrees * Kdepth)).

Lemma ex_consistent : ot_consistent ex_sk ex_cb ex_rk.
Proof.
  unfold ot_consistent, ot_consistent_gen. split; [apply repeat_length|]. split.
  - unfold ex_rk. rewrite map_length, seq_length. reflexivity.
  - intros i Hi. unfold ex_rk. rewrite nth_map_seq by exact Hi. reflexivity.
Qed.

Lemma ex_tt_zero : tt_zero [].
Proof. intros j. destruct j; apply fit_nil. Qed.

(** honest run under the tiny oracle: accepted, tree 0 punctured at index 0b0101 = 5 (bits 1,0,1,0 complemented) *)
Lemma ex_honest :
  exists r, eval_pprf H_tiny [9%N] ex_cb ex_rk (honest_msgs H_tiny [9%N] ex_sk []) = Val r /\
            fst (nth 0 r dres) = 5 /\ fst (nth 1 r dres) = 10.
Proof. eexists. split; [vm_compute; reflexivity|]. split; vm_compute; reflexivity. Qed.

(** under the constant oracle a tampered USED correction word is accepted: the premise of
    pprf_tamper_char_word is satisfiable (its conclusion, a collision, then holds) *)
Lemma ex_tampered_accepted :
  fit LB [1%N] <> zeros LB /\
  accepted (eval_pprf H_const [] ex_cb ex_rk
              (upd 0 (map_t (fun w => bxor w (fit LB [1%N])) 0 (extract_bit ex_cb (0 * Kdepth + 1))
                            (nth 0 (honest_msgs H_const [] ex_sk []) default_msg))
                   (honest_msgs H_const [] ex_sk []))).
Proof.
  split; [vm_compute; discriminate|]. eexists. vm_compute. reflexivity.
Qed.

(** the adversary with a wrong guess is rejected under the tiny oracle, with the right guess accepted *)
Lemma ex_adversary :
  accepted (eval_pprf H_tiny [9%N] ex_cb ex_rk
              (adv_msgs H_tiny [9%N] ex_sk [] 3 1 (extract_bit ex_cb (3 * Kdepth + 2)) [1%N] (tree_bits Kdepth 3 ex_cb))) /\
  eval_pprf H_tiny [9%N] ex_cb ex_rk
    (adv_msgs H_tiny [9%N] ex_sk [] 3 1 (extract_bit ex_cb (3 * Kdepth + 2)) [1%N] [false; true; true; true])
  = Err err_invalid_proof.
Proof. split; [eexists; vm_compute; reflexivity|vm_compute; reflexivity]. Qed.

Lemma pprf_nonvacuous_lem :
  ot_consistent ex_sk ex_cb ex_rk /\ tt_zero [] /\
  (exists r, eval_pprf H_tiny [9%N] ex_cb ex_rk (honest_msgs H_tiny [9%N] ex_sk []) = Val r /\
             fst (nth 0 r dres) = 5 /\ fst (nth 1 r dres) = 10) /\
  (fit LB [1%N] <> zeros LB /\
   accepted (eval_pprf H_const [] ex_cb ex_rk
              (upd 0 (map_t (fun w => bxor w (fit LB [1%N])) 0 (extract_bit ex_cb (0 * Kdepth + 1))
                            (nth 0 (honest_msgs H_const [] ex_sk []) default_msg))
                   (honest_msgs H_const [] ex_sk [])))) /\
  (accepted (eval_pprf H_tiny [9%N] ex_cb ex_rk
              (adv_msgs H_tiny [9%N] ex_sk [] 3 1 (extract_bit ex_cb (3 * Kdepth + 2)) [1%N] (tree_bits Kdepth 3 ex_cb))) /\
   eval_pprf H_tiny [9%N] ex_cb ex_rk
     (adv_msgs H_tiny [9%N] ex_sk [] 3 1 (extract_bit ex_cb (3 * Kdepth + 2)) [1%N] [false; true; true; true])
   = Err err_invalid_proof).
Proof.
  split; [exact ex_consistent|]. split; [exact ex_tt_zero|]. split; [exact ex_honest|].
  split; [exact ex_tampered_accepted|exact ex_adversary].
Qed.
