From SL Require Import Lib.Base Gen.Params Gen.Sites Model.CtSites Model.CtSkel.
Local Open Scope N_scope.

(** * The inventory the skeletons were written against is the one the source has now *)
Definition inv_eqb (a b : list (N * N * N)) : bool :=
  list_eqb (fun x y => (fst (fst x) =? fst (fst y)) && (snd (fst x) =? snd (fst y)) && (snd x =? snd y)) a b.

Definition all_sites_unchanged : bool :=
  inv_eqb Sites.paillier_encrypt_with_r FSites.paillier_encrypt_with_r &&
  inv_eqb Sites.paillier_decrypt FSites.paillier_decrypt &&
  inv_eqb Sites.paillier_h FSites.paillier_h &&
  inv_eqb Sites.paillier_mp FSites.paillier_mp &&
  inv_eqb Sites.paillier_decrypt_fast FSites.paillier_decrypt_fast &&
  inv_eqb Sites.paillier_extract_n_root FSites.paillier_extract_n_root &&
  inv_eqb Sites.paillier_decompose FSites.paillier_decompose &&
  inv_eqb Sites.paillier_recombine FSites.paillier_recombine &&
  inv_eqb Sites.paillier_add FSites.paillier_add &&
  inv_eqb Sites.paillier_mul FSites.paillier_mul &&
  inv_eqb Sites.pprf_eval FSites.pprf_eval &&
  inv_eqb Sites.ss_sender_process FSites.ss_sender_process &&
  inv_eqb Sites.ss_transpose FSites.ss_transpose &&
  inv_eqb Sites.rvole_receiver_process FSites.rvole_receiver_process &&
  inv_eqb Sites.rvole_sender_process FSites.rvole_sender_process.

Lemma sites_unchanged : all_sites_unchanged = true.
Proof. vm_compute. reflexivity. Qed.

(** * Every generated site occurs in the skeleton and vice versa *)
Definition keys (inv : list (N * N * N)) : list site := map fst inv.
Definition covers (skel : list sk) (inv : list (N * N * N)) : bool :=
  forallb (fun s => existsb (site_eqb s) (sites_of skel)) (keys inv) &&
  forallb (fun s => existsb (site_eqb s) (keys inv)) (sites_of skel) &&
  Nat.eqb (length (sites_of skel)) (length inv).

Definition delta0 : list N := repeat 0 64.

Lemma sites_covered :
  covers skel_pprf_eval Sites.pprf_eval && covers (skel_ss_sender delta0) Sites.ss_sender_process &&
  covers skel_ss_transpose Sites.ss_transpose && covers skel_rvole_receiver Sites.rvole_receiver_process &&
  covers skel_rvole_sender Sites.rvole_sender_process &&
  (* the Paillier functions have no source-level control flow at all *)
  Nat.eqb (length (Sites.paillier_encrypt_with_r ++ Sites.paillier_decrypt ++ Sites.paillier_h ++ Sites.paillier_mp ++
                   Sites.paillier_decrypt_fast ++ Sites.paillier_extract_n_root ++ Sites.paillier_decompose ++
                   Sites.paillier_recombine ++ Sites.paillier_add ++ Sites.paillier_mul)) 0 = true.
Proof. vm_compute. reflexivity. Qed.

(** * Secret-independence *)
Lemma sum_upto_ext n i f g : (forall k, i <= k < i + N.of_nat n -> f k = g k) -> sum_upto n i f = sum_upto n i g.
Proof.
  revert i. induction n as [|n IH]; intros i H; cbn [sum_upto]; [reflexivity|].
  rewrite (H i) by lia. f_equal. apply IH. intros k Hk. apply H. lia.
Qed.

Lemma sum_upto_const n i (v : N) f : (forall k, i <= k < i + N.of_nat n -> f k = v) -> sum_upto n i f = N.of_nat n * v.
Proof.
  revert i. induction n as [|n IH]; intros i H; cbn [sum_upto]; [lia|].
  rewrite (H i) by lia. rewrite (IH (N.succ i)); [lia|]. intros k Hk. apply H. lia.
Qed.

Definition valid_delta (d : list N) : Prop := forall i, (i < 64)%nat -> nth i d 0 < 16.

(** the branch on the punctured index executes its then-side once and its else-side 15 times per
    tree, whatever the index is (as long as it is below 16) *)
Lemma inner_branch_sum (di : N) (a b : N) : di < 16 ->
  sum_upto 16 0 (fun j => if j =? di then a else b) = a + 15 * b.
Proof.
  intros H.
  assert (D : di = 0 \/ di = 1 \/ di = 2 \/ di = 3 \/ di = 4 \/ di = 5 \/ di = 6 \/ di = 7 \/ di = 8 \/ di = 9 \/
              di = 10 \/ di = 11 \/ di = 12 \/ di = 13 \/ di = 14 \/ di = 15) by lia.
  repeat (destruct D as [->|D]; [cbn [sum_upto N.eqb N.succ Pos.eqb Pos.succ]; lia|]).
  subst. cbn [sum_upto N.eqb N.succ Pos.eqb Pos.succ]. lia.
Qed.

Definition ss_first (delta : list N) : sk :=
  KLoop (K_FOR, 0) (const GP.LAMBDA_C_DIV_SOFT_SPOKEN_K)
     [KLoop (K_FOR, 1) (const GP.SOFT_SPOKEN_Q)
        [KIf (K_IF, 0) (fun c => ctr 1 c =? nth (N.to_nat (ctr 0 c)) delta 0) [] []]].

Definition ind (s x : site) : N := if site_eqb s x then 1 else 0.

Lemma ss_first_count delta x : valid_delta delta ->
  count_node (ss_first delta) [] x =
  (if site_eqb (K_FOR, 0) x then 64 else 0) +
  64 * ((if site_eqb (K_FOR, 1) x then 16 else 0) + (ind (K_IF, 0) x + 15 * ind (K_ELSE, 0) x)).
Proof.
  intros V. unfold ss_first. cbn [count_node]. unfold const.
  change GP.LAMBDA_C_DIV_SOFT_SPOKEN_K with 64. change GP.SOFT_SPOKEN_Q with 16.
  f_equal. change (N.to_nat 64) with 64%nat.
  rewrite (sum_upto_const 64 0 ((if site_eqb (K_FOR, 1) x then 16 else 0) +
        (ind (K_IF, 0) x + 15 * ind (K_ELSE, 0) x))); [reflexivity|].
  intros i Hi. rewrite N.add_0_r. f_equal. change (N.to_nat 16) with 16%nat.
  assert (Vi : nth (N.to_nat i) delta 0 < 16) by (apply V; lia).
  rewrite <- (inner_branch_sum (nth (N.to_nat i) delta 0) (ind (K_IF, 0) x) (ind (K_ELSE, 0) x) Vi).
  apply sum_upto_ext. intros j Hj. unfold ctr, ind. cbn [app nth snd].
  destruct (j =? nth (N.to_nat i) delta 0); rewrite ?N.add_0_r; reflexivity.
Qed.

Lemma ct_ss_sender_lem d1 d2 x : valid_delta d1 -> valid_delta d2 ->
  count (skel_ss_sender d1) [] x = count (skel_ss_sender d2) [] x.
Proof.
  intros V1 V2. unfold skel_ss_sender. cbn [count].
  fold (ss_first d1). fold (ss_first d2). rewrite (ss_first_count d1 x V1), (ss_first_count d2 x V2). reflexivity.
Qed.

(** an out-of-range index DOES change the counts (no row is zeroed): the premise is needed *)
Lemma ct_ss_sender_needs_range :
  count (skel_ss_sender (repeat 16 64)) [] (K_IF, 0) <> count (skel_ss_sender (repeat 0 64)) [] (K_IF, 0).
Proof. vm_compute. discriminate. Qed.

(** Paillier: the trace of primitive cost parameters depends on the size class only *)
Lemma ct_paillier k1 k2 : same_class k1 k2 -> forall m1 r1 c1 z1 m2 r2 c2 z2,
  trace_encrypt k1 m1 r1 = trace_encrypt k2 m2 r2 /\
  trace_decrypt k1 c1 = trace_decrypt k2 c2 /\
  trace_decrypt_fast k1 c1 = trace_decrypt_fast k2 c2 /\
  trace_extract_n_root k1 z1 = trace_extract_n_root k2 z2 /\
  trace_mul k1 c1 m1 = trace_mul k2 c2 m2 /\
  trace_add k1 c1 c1 = trace_add k2 c2 c2.
Proof.
  intros (HC & HM & HP & Hn & Hp & Hq & Hpp & Hqq) m1 r1 c1 z1 m2 r2 c2 z2.
  unfold trace_encrypt, trace_decrypt, trace_decrypt_fast, trace_extract_n_root, trace_mul, trace_add,
    trace_mp, trace_recombine.
  rewrite HC, HM, HP, Hn, Hp, Hq, Hpp, Hqq. repeat split; reflexivity.
Qed.

Lemma ct_mul_vartime_refuted_lem : exists k c m1 m2, trace_mul_vartime k c m1 <> trace_mul_vartime k c m2.
Proof.
  exists {| kp := 11; kq := 17; kwC := 512; kwM := 256; kwP := 128 |}, 5, 1, 100. vm_compute. discriminate.
Qed.

(** concrete predicted counts (compared with measured coverage counters) *)
Lemma pprf_counts :
  map (count skel_pprf_eval []) [(K_FOR,0); (K_FOR,1); (K_FOR,2); (K_CLOSURE,0); (K_FOR,3); (K_FOR,4); (K_FOR,5);
                                  (K_CLOSURE,1); (K_CLOSURE,2); (K_CLOSURE,3); (K_IF,0)]
  = [64; 192; 896; 28672; 6144; 28672; 1024; 65536; 65536; 1024; 0].
Proof. vm_compute. reflexivity. Qed.
