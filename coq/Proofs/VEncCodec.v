(** C09: the wire format of VerifiableRsaEncryption -- from_bytes (to_bytes p) = p and
    to_bytes (from_bytes d) = d, for every world satisfying [world_ok]. *)
From SL Require Import Lib.Base Lib.Oracle Model.VEnc Proofs.VEncBytes Proofs.VEncCore.
Local Open Scope nat_scope.

(** ** list helpers *)
Lemma firstn_app_len {A} (a b : list A) n : length a = n -> firstn n (a ++ b) = a.
Proof. intros <-. rewrite firstn_app, Nat.sub_diag, firstn_all. cbn. apply app_nil_r. Qed.
Lemma skipn_app_len {A} (a b : list A) n : length a = n -> skipn n (a ++ b) = b.
Proof. intros <-. rewrite skipn_app, Nat.sub_diag, skipn_all. reflexivity. Qed.
Lemma skipn_nth_cons {A} (d : list A) i x : nth_error d i = Some x -> skipn i d = x :: skipn (S i) d.
Proof.
  revert i; induction d as [|y r IH]; intros [|i] E; cbn in E; try discriminate.
  - inversion E. reflexivity.
  - cbn [skipn]. apply IH. exact E.
Qed.
Lemma bytes_ok_firstn n l : bytes_ok l = true -> bytes_ok (firstn n l) = true.
Proof.
  intros H. rewrite <- (firstn_skipn n l) in H. apply bytes_ok_app in H. tauto.
Qed.
Lemma bytes_ok_skipn n l : bytes_ok l = true -> bytes_ok (skipn n l) = true.
Proof.
  intros H. rewrite <- (firstn_skipn n l) in H. apply bytes_ok_app in H. tauto.
Qed.
Lemma bytes_ok_nth l i x : bytes_ok l = true -> nth_error l i = Some x -> (x < 256)%N.
Proof.
  intros H E. apply nth_error_In in E. unfold bytes_ok in H.
  pose proof (proj1 (forallb_forall _ _) H x E) as B. unfold byte_ok in B. apply N.ltb_lt. exact B.
Qed.

(** ** u16 fields *)
Lemma to_be_2 v : to_be 2 v = [((v / 256) mod 256)%N; (v mod 256)%N].
Proof. reflexivity. Qed.

Lemma u16be_of_bytes hi lo : (hi < 256)%N -> (lo < 256)%N -> u16be (N.to_nat (hi * 256 + lo)) = [hi; lo].
Proof.
  intros Hh Hl. unfold u16be. rewrite N2Nat.id.
  rewrite (N.mod_small (hi * 256 + lo) 65536) by lia. rewrite to_be_2. f_equal; [|f_equal].
  - rewrite N.add_comm, N.div_add by discriminate. rewrite (N.div_small lo 256) by exact Hl.
    rewrite N.add_0_l. apply N.mod_small. exact Hh.
  - rewrite N.add_comm, N.mod_add by discriminate. apply N.mod_small. exact Hl.
Qed.

Lemma u16be_split v : (N.of_nat v < 65536)%N -> exists hi lo, u16be v = [hi; lo] /\ (hi * 256 + lo)%N = N.of_nat v.
Proof.
  intros Hv. unfold u16be. rewrite N.mod_small by lia. rewrite to_be_2.
  eexists _, _. split; [reflexivity|].
  assert (N.of_nat v / 256 < 256)%N by (apply N.div_lt_upper_bound; lia).
  rewrite (N.mod_small (N.of_nat v / 256) 256) by assumption.
  pose proof (N.div_mod (N.of_nat v) 256 ltac:(discriminate)). lia.
Qed.

(** sizes of a well-formed slot list *)
Definition slot_sized (psz esz : nat) (s : slot) : Prop :=
  length (s_gr s) = psz /\ length (s_encxr s) = esz /\ length (s_encr s) = esz.

Lemma slot_bytes_length psz esz s : slot_sized psz esz s -> length (slot_bytes s) = psz + 2 * esz.
Proof. intros (A & B & C). unfold slot_bytes. rewrite !app_length. lia. Qed.

Lemma flat_slots_length psz esz slots : Forall (slot_sized psz esz) slots ->
  length (flat_map slot_bytes slots) = length slots * (psz + 2 * esz).
Proof.
  induction 1 as [|s r Hs _ IH]; [reflexivity|].
  cbn [flat_map length]. rewrite app_length, IH, (slot_bytes_length psz esz s Hs). lia.
Qed.

(** what a proof object must satisfy to be serialisable and parse back (established by encrypt_with_proof with
    a real RSA key: all ciphertexts have the byte length of the modulus) *)
Definition codec_wf (W : venc_world) (p : vproof) (esz : nat) : Prop :=
  length (vp_seed p) = 32 /\ 128 <= vp_sp p <= 256 /\
  length (vp_slots p) = vp_sp p /\ length (vp_opens p) = vp_sp p /\
  Forall (fun o => (0 <= o < w_q W)%Z) (vp_opens p) /\
  Forall (slot_sized (w_psize W) esz) (vp_slots p) /\
  (N.of_nat (w_psize W) < 65536)%N /\ (N.of_nat esz < 65536)%N.

Section Codec.
  Variable W : venc_world.
  Hypothesis WOK : world_ok W.
  Local Notation repr := (w_repr W).
  Local Notation from_repr := (w_from_repr W).
  Local Notation psize := (w_psize W).
  Local Notation q := (w_q W).
  Let RL := wo_repr W WOK.

  Lemma flat_repr_length opens : length (flat_map repr opens) = 32 * length opens.
  Proof.
    induction opens as [|o r IH]; [reflexivity|]. cbn [flat_map length].
    rewrite app_length, IH, (rl_len _ _ _ RL). unfold SCALAR_SIZE. lia.
  Qed.

  Lemma decode_repr o : (0 <= o < q)%Z -> decode_scalar from_repr (repr o) = Some o.
  Proof.
    intros Ho. unfold decode_scalar. rewrite (rl_len _ _ _ RL), Nat.ltb_irrefl, Nat.sub_diag.
    cbn [repeat app]. apply (rl_from_repr _ _ _ RL). exact Ho.
  Qed.

  (** *** from_bytes (to_bytes p) = p *)
  Lemma take_app a b len off n : length a = N.to_nat n -> (off + n <= len)%N ->
    take (a ++ b) len off n = Val (a, b).
  Proof.
    intros L B. unfold take. destruct (off + n <=? len)%N eqn:E; [|apply N.leb_gt in E; lia].
    rewrite (firstn_app_len a b _ L), (skipn_app_len a b _ L). reflexivity.
  Qed.

  Lemma read_slots_ok esz : forall slots off tail len,
    Forall (slot_sized psize esz) slots ->
    (N.of_nat (length (flat_map slot_bytes slots ++ tail)) + off = len)%N ->
    read_slots psize (flat_map slot_bytes slots ++ tail) len (length slots) off (N.of_nat psize) (N.of_nat esz)
    = Val (slots, ((off + N.of_nat (length slots * (psize + 2 * esz)))%N, tail)).
  Proof.
    induction slots as [|s r IH]; intros off tail len F L.
    - cbn [length read_slots flat_map app Nat.mul]. rewrite N.add_0_r. reflexivity.
    - pose proof (Forall_inv F) as Hs. pose proof (Forall_inv_tail F) as Fr. destruct Hs as (A & B & C).
      cbn [length read_slots flat_map]. unfold slot_bytes at 1. rewrite <- !app_assoc.
      cbn [flat_map] in L. rewrite !app_length in L.
      rewrite (slot_bytes_length psize esz s (conj A (conj B C))) in L.
      destruct (len <? off + (N.of_nat psize + 2 * N.of_nat esz))%N eqn:E; [apply N.ltb_lt in E; lia|].
      rewrite take_app; [|rewrite Nat2N.id; exact A|lia]. cbn [obind fst snd].
      rewrite A, Nat.eqb_refl. cbn [negb].
      rewrite take_app; [|rewrite Nat2N.id; exact B|lia]. cbn [obind fst snd].
      rewrite take_app; [|rewrite Nat2N.id; exact C|lia]. cbn [obind fst snd].
      rewrite (IH _ tail len Fr); [|rewrite app_length; lia]. cbn [obind fst snd].
      destruct s as [g1 e1 e2]; cbn [s_gr s_encxr s_encr].
      match goal with |- Val (_, (?o1, _)) = Val (_, (?o2, _)) => replace o1 with o2 by lia end. reflexivity.
  Qed.

  Lemma read_scalars_ok : forall opens off tail len,
    Forall (fun o => (0 <= o < q)%Z) opens ->
    (N.of_nat (length (flat_map repr opens ++ tail)) + off = len)%N ->
    read_scalars from_repr (flat_map repr opens ++ tail) len (length opens) off = Val opens.
  Proof.
    induction opens as [|o r IH]; intros off tail len F L; [reflexivity|].
    pose proof (Forall_inv F) as Ho. pose proof (Forall_inv_tail F) as Fr.
    cbn [length read_scalars flat_map]. rewrite <- app_assoc. cbn [flat_map] in L.
    rewrite !app_length in L. pose proof (rl_len _ _ _ RL o) as Lo. rewrite Lo in L. unfold SCALAR_SIZE in *.
    destruct (len <? off + N.of_nat 32)%N eqn:E; [apply N.ltb_lt in E; lia|].
    rewrite take_app; [|rewrite Nat2N.id; exact Lo|lia]. cbn [obind fst snd].
    rewrite (decode_repr o Ho). rewrite (IH _ tail len Fr); [|rewrite app_length; lia]. reflexivity.
  Qed.

  Lemma u16_at_hdr (seed hdr : list N) k hi lo off : length seed = 32 ->
    nth_error hdr k = Some hi -> nth_error hdr (S k) = Some lo -> off = N.of_nat (32 + k) ->
    u16_at (seed ++ hdr) off = Val (hi * 256 + lo)%N.
  Proof.
    intros L H1 H2 ->. unfold u16_at, byte_at.
    rewrite Nat2N.id. rewrite nth_error_app2 by lia. replace (32 + k - length seed) with k by lia. rewrite H1.
    cbn [obind]. replace (N.to_nat (N.of_nat (32 + k) + 1)) with (32 + S k) by lia.
    rewrite nth_error_app2 by lia. replace (32 + S k - length seed) with (S k) by lia. rewrite H2. reflexivity.
  Qed.

  (** C09: parsing the serialisation of a well-formed proof object gives the object back *)
  Lemma venc_from_to_bytes_lem p esz : codec_wf W p esz ->
    exists d, W_to_bytes W p = Val d /\ W_from_bytes W d = Val p.
  Proof.
    destruct p as [seed slots opens sp]. unfold codec_wf. cbn [vp_seed vp_slots vp_opens vp_sp].
    intros (Ls & Hsp & Lsl & Lop & Fo & Fs & Hps & Hes).
    destruct slots as [|s0 r]; [cbn in Lsl; lia|].
    unfold W_to_bytes, to_bytes. cbn [vp_seed vp_slots vp_opens vp_sp].
    pose proof (Forall_inv Fs) as (A0 & B0 & _). rewrite A0, B0.
    destruct (u16be_split sp) as (h1 & l1 & E1 & V1); [lia|].
    destruct (u16be_split psize Hps) as (h2 & l2 & E2 & V2).
    destruct (u16be_split esz Hes) as (h3 & l3 & E3 & V3).
    rewrite E1, E2, E3. change (u16be SCALAR_SIZE) with [0%N; 32%N].
    set (body := flat_map slot_bytes (s0 :: r) ++ flat_map repr opens).
    set (hdr := [h1; l1; h2; l2; h3; l3; 0%N; 32%N] ++ body).
    eexists. split; [reflexivity|].
    change (seed ++ [h1; l1] ++ [h2; l2] ++ [h3; l3] ++ [0%N; 32%N] ++ body) with (seed ++ hdr).
    assert (Lbody : length body = sp * (psize + 2 * esz) + 32 * sp).
    { unfold body. rewrite app_length, (flat_slots_length psize esz _ Fs), flat_repr_length, Lsl, Lop. reflexivity. }
    assert (Lhdr : length hdr = 8 + length body) by reflexivity.
    unfold W_from_bytes, from_bytes.
    set (len := N.of_nat (length (seed ++ hdr))).
    assert (Hlen : len = (40 + N.of_nat sp * (N.of_nat psize + 2 * N.of_nat esz + 32))%N).
    { unfold len. rewrite app_length, Ls, Lhdr, Lbody. lia. }
    destruct (len <? 32 + 8)%N eqn:E0; [apply N.ltb_lt in E0; lia|].
    assert (Eseed : slice (seed ++ hdr) len 0 32 = Val seed).
    { unfold slice. destruct ((32 <=? len)%N && (0 <=? 32)%N) eqn:E; [|apply andb_false_iff in E; destruct E as [E|E]; [apply N.leb_gt in E; lia|discriminate]].
      change (N.to_nat 0) with 0. change (N.to_nat (32 - 0)) with 32. cbn [skipn].
      rewrite (firstn_app_len seed hdr 32 Ls). reflexivity. }
    rewrite Eseed. cbn [obind].
    rewrite (u16_at_hdr seed hdr 0 h1 l1 32 Ls eq_refl eq_refl eq_refl). cbn [obind].
    rewrite (u16_at_hdr seed hdr 2 h2 l2 34 Ls eq_refl eq_refl eq_refl). cbn [obind].
    rewrite (u16_at_hdr seed hdr 4 h3 l3 36 Ls eq_refl eq_refl eq_refl). cbn [obind].
    rewrite (u16_at_hdr seed hdr 6 0%N 32%N 38 Ls eq_refl eq_refl eq_refl). cbn [obind].
    rewrite V1, V2, V3.
    change (negb (0 * 256 + 32 =? N.of_nat SCALAR_SIZE)%N) with false. cbv iota.
    rewrite N.eqb_refl. cbn [negb]. change (0 * 256 + 32)%N with 32%N.
    set (T := (N.of_nat psize + 2 * N.of_nat esz + 32)%N).
    assert (HT : T <> 0%N) by (unfold T; lia).
    assert (Hrem : (len - 40 = N.of_nat sp * T)%N) by (rewrite Hlen; fold T; lia).
    rewrite Hrem. rewrite N.div_mul by exact HT. rewrite N.mod_mul by exact HT.
    rewrite sec_param_128.
    destruct (N.of_nat sp <? N.of_nat 128)%N eqn:R1; [apply N.ltb_lt in R1; lia|].
    destruct (256 <? N.of_nat sp)%N eqn:R2; [apply N.ltb_lt in R2; lia|].
    rewrite N.eqb_refl. cbn [negb]. change (0 =? 0)%N with true. cbn [negb].
    rewrite Nat2N.id.
    assert (Eskip : skipn 40 (seed ++ hdr) = body).
    { unfold hdr. rewrite app_assoc. apply skipn_app_len. rewrite app_length, Ls. reflexivity. }
    rewrite Eskip. unfold body. rewrite <- Lsl.
    rewrite (read_slots_ok esz (s0 :: r) 40 (flat_map repr opens) len Fs).
    - cbn [obind fst snd]. rewrite Lsl, <- Lop.
      rewrite <- (app_nil_r (flat_map repr opens)).
      rewrite (read_scalars_ok opens _ [] len Fo).
      + cbn [obind]. rewrite Lop. reflexivity.
      + rewrite app_nil_r, flat_repr_length, Lop, Hlen. lia.
    - fold body. rewrite Lbody, Hlen. lia.
  Qed.

  (** *** to_bytes (from_bytes d) = d *)
  Lemma take_inv rest len off n a b : take rest len off n = Val (a, b) ->
    (N.of_nat (length rest) + off = len)%N ->
    length a = N.to_nat n /\ rest = a ++ b /\ (N.of_nat (length b) + (off + n) = len)%N.
  Proof.
    unfold take. destruct (off + n <=? len)%N eqn:E; [|discriminate]. apply N.leb_le in E.
    intros H L. inversion H; subst a b; clear H.
    assert (N.to_nat n <= length rest) by lia.
    rewrite firstn_length_le by assumption. rewrite firstn_skipn, skipn_length. repeat split; lia.
  Qed.

  Lemma read_slots_inv len gsz esz : forall cnt rest off slots off' rest',
    read_slots psize rest len cnt off gsz esz = Val (slots, (off', rest')) ->
    (N.of_nat (length rest) + off = len)%N ->
    rest = flat_map slot_bytes slots ++ rest' /\ (off' = off + N.of_nat cnt * (gsz + 2 * esz))%N /\
    length slots = cnt /\ Forall (slot_sized (N.to_nat gsz) (N.to_nat esz)) slots /\
    (N.of_nat (length rest') + off' = len)%N.
  Proof.
    induction cnt as [|c IH]; intros rest off slots off' rest' E L; cbn [read_slots] in E.
    - inversion E; subst. cbn. repeat split; auto; lia.
    - destruct (len <? off + (gsz + 2 * esz))%N; [discriminate|].
      destruct (take rest len off gsz) as [[gr r1]| |] eqn:T1; cbn [obind fst snd] in E; try discriminate.
      destruct (negb (length gr =? psize)); [discriminate|].
      destruct (take r1 len (off + gsz) esz) as [[exr r2]| |] eqn:T2; cbn [obind fst snd] in E; try discriminate.
      destruct (take r2 len (off + gsz + esz) esz) as [[er r3]| |] eqn:T3; cbn [obind fst snd] in E; try discriminate.
      destruct (read_slots psize r3 len c (off + gsz + esz + esz) gsz esz) as [[sl [o3 r4]]| |] eqn:R; cbn [obind fst snd] in E; try discriminate.
      inversion E; subst slots off' rest'; clear E.
      destruct (take_inv _ _ _ _ _ _ T1 L) as (A1 & A2 & A3).
      destruct (take_inv _ _ _ _ _ _ T2 A3) as (B1 & B2 & B3).
      destruct (take_inv _ _ _ _ _ _ T3 B3) as (C1 & C2 & C3).
      destruct (IH _ _ _ _ _ R C3) as (D1 & D2 & D3 & D4 & D5).
      repeat split.
      + cbn [flat_map]. unfold slot_bytes at 1. cbn [s_gr s_encxr s_encr].
        rewrite A2, B2, C2, D1. rewrite <- !app_assoc. reflexivity.
      + lia.
      + cbn [length]. lia.
      + constructor; [|exact D4]. unfold slot_sized. cbn [s_gr s_encxr s_encr]. auto.
      + exact D5.
  Qed.

  Lemma read_scalars_inv len : forall cnt rest off opens,
    read_scalars from_repr rest len cnt off = Val opens -> bytes_ok rest = true ->
    (N.of_nat (length rest) + off = len)%N ->
    exists rest', rest = flat_map repr opens ++ rest' /\ length opens = cnt /\
                  Forall (fun o => (0 <= o < q)%Z) opens.
  Proof.
    induction cnt as [|c IH]; intros rest off opens E Hb L; cbn [read_scalars] in E.
    - inversion E. exists rest. auto.
    - destruct (len <? off + N.of_nat SCALAR_SIZE)%N; [discriminate|].
      destruct (take rest len off (N.of_nat SCALAR_SIZE)) as [[b r1]| |] eqn:T1; cbn [obind fst snd] in E; try discriminate.
      destruct (decode_scalar from_repr b) as [s|] eqn:Ed; [|discriminate].
      destruct (read_scalars from_repr r1 len c (off + N.of_nat SCALAR_SIZE)) as [os| |] eqn:R; cbn [obind] in E; try discriminate.
      inversion E; subst opens; clear E.
      destruct (take_inv _ _ _ _ _ _ T1 L) as (A1 & A2 & A3). rewrite Nat2N.id in A1.
      assert (Hbb : bytes_ok b = true /\ bytes_ok r1 = true) by (rewrite A2 in Hb; apply bytes_ok_app; exact Hb).
      destruct Hbb as [Hb1 Hb2].
      destruct (IH _ _ _ R Hb2 A3) as (rest' & D1 & D2 & D3).
      unfold decode_scalar in Ed. rewrite A1, Nat.ltb_irrefl, Nat.sub_diag in Ed. cbn [repeat app] in Ed.
      destruct (rl_canon _ _ _ RL b s Hb1 Ed) as [Er Hr].
      exists rest'. split; [|split; [cbn [length]; lia|constructor; assumption]].
      cbn [flat_map]. rewrite Er, A2, D1, <- app_assoc. reflexivity.
  Qed.

  Lemma u16_at_inv d off v : u16_at d off = Val v ->
    exists hi lo, nth_error d (N.to_nat off) = Some hi /\ nth_error d (S (N.to_nat off)) = Some lo /\ v = (hi * 256 + lo)%N.
  Proof.
    unfold u16_at, byte_at. replace (N.to_nat (off + 1)) with (S (N.to_nat off)) by lia.
    destruct (nth_error d (N.to_nat off)) as [hi|]; cbn [obind]; [|discriminate].
    destruct (nth_error d (S (N.to_nat off))) as [lo|]; cbn [obind]; [|discriminate].
    intros E. inversion E. eauto.
  Qed.

  (** C09: a byte string that parses re-serialises to exactly the same bytes (canonical scalars) *)
  Lemma venc_to_from_bytes_lem d p : bytes_ok d = true -> (N.of_nat psize < 65536)%N ->
    W_from_bytes W d = Val p -> W_to_bytes W p = Val d.
  Proof.
    intros Hb Hps. unfold W_from_bytes, from_bytes.
    set (len := N.of_nat (length d)).
    destruct (len <? 32 + 8)%N eqn:E0; [discriminate|]. apply N.ltb_ge in E0.
    destruct (slice d len 0 32) as [seed| |] eqn:Es; cbn [obind]; try discriminate.
    destruct (u16_at d 32) as [spn| |] eqn:U1; cbn [obind]; try discriminate.
    destruct (u16_at d 34) as [gsz| |] eqn:U2; cbn [obind]; try discriminate.
    destruct (u16_at d 36) as [esz| |] eqn:U3; cbn [obind]; try discriminate.
    destruct (u16_at d 38) as [ssz| |] eqn:U4; cbn [obind]; try discriminate.
    destruct (negb (ssz =? N.of_nat SCALAR_SIZE)%N) eqn:C1; [discriminate|].
    apply negb_false_iff, N.eqb_eq in C1.
    destruct (negb (gsz =? N.of_nat psize)%N) eqn:C2; [discriminate|].
    apply negb_false_iff, N.eqb_eq in C2.
    rewrite sec_param_128.
    destruct (spn <? N.of_nat 128)%N eqn:C3; [discriminate|]. apply N.ltb_ge in C3.
    destruct (256 <? spn)%N eqn:C4; [discriminate|]. apply N.ltb_ge in C4.
    set (T := (gsz + 2 * esz + ssz)%N).
    destruct (negb ((len - 40) / T =? spn)%N) eqn:C5; [discriminate|].
    apply negb_false_iff, N.eqb_eq in C5.
    destruct (negb ((len - 40) mod T =? 0)%N) eqn:C6; [discriminate|].
    apply negb_false_iff, N.eqb_eq in C6.
    rewrite C5.
    destruct (read_slots psize (skipn 40 d) len (N.to_nat spn) 40 gsz esz) as [[slots [off' rest']]| |] eqn:R1;
      cbn [obind fst snd]; try discriminate.
    destruct (read_scalars from_repr rest' len (N.to_nat spn) off') as [opens| |] eqn:R2; cbn [obind]; try discriminate.
    intros E. inversion E; subst p; clear E.
    (* lengths *)
    assert (HT : T <> 0%N) by (unfold T; rewrite C1; unfold SCALAR_SIZE; lia).
    assert (Hrem : (len - 40 = T * spn)%N).
    { pose proof (N.div_mod (len - 40) T HT) as DM. rewrite C5, C6 in DM. lia. }
    assert (L40 : (N.of_nat (length (skipn 40 d)) + 40 = len)%N) by (rewrite skipn_length; unfold len in *; lia).
    destruct (read_slots_inv _ _ _ _ _ _ _ _ _ R1 L40) as (D1 & D2 & D3 & D4 & D5).
    assert (Hbr : bytes_ok rest' = true).
    { pose proof (bytes_ok_skipn 40 d Hb) as H. rewrite D1 in H. apply bytes_ok_app in H. tauto. }
    destruct (read_scalars_inv _ _ _ _ _ R2 Hbr D5) as (rest'' & F1 & F2 & _).
    assert (Lslots : length (flat_map slot_bytes slots) = length slots * (N.to_nat gsz + 2 * N.to_nat esz))
      by (apply flat_slots_length; exact D4).
    assert (rest'' = []).
    { apply length_zero_iff_nil.
      assert (LL : length (skipn 40 d) = length (flat_map slot_bytes slots) + (length (flat_map repr opens) + length rest''))
        by (rewrite D1, F1, !app_length; reflexivity).
      rewrite Lslots, flat_repr_length, D3, F2 in LL.
      unfold T in Hrem. rewrite C1 in Hrem. unfold SCALAR_SIZE in Hrem. nia. }
    subst rest''. rewrite app_nil_r in F1.
    (* header bytes *)
    destruct (u16_at_inv _ _ _ U1) as (h1 & l1 & N1 & N1' & V1).
    destruct (u16_at_inv _ _ _ U2) as (h2 & l2 & N2 & N2' & V2).
    destruct (u16_at_inv _ _ _ U3) as (h3 & l3 & N3 & N3' & V3).
    destruct (u16_at_inv _ _ _ U4) as (h4 & l4 & N4 & N4' & V4).
    change (N.to_nat 32) with 32 in *. change (N.to_nat 34) with 34 in *.
    change (N.to_nat 36) with 36 in *. change (N.to_nat 38) with 38 in *.
    assert (Hd : d = seed ++ [h1; l1] ++ [h2; l2] ++ [h3; l3] ++ [h4; l4] ++ skipn 40 d).
    { unfold slice in Es. destruct ((32 <=? len)%N && (0 <=? 32)%N); [|discriminate].
      change (N.to_nat 0) with 0 in Es. change (N.to_nat (32 - 0)) with 32 in Es. cbn [skipn] in Es.
      inversion Es; subst seed.
      rewrite <- (firstn_skipn 32 d) at 1. f_equal.
      rewrite (skipn_nth_cons d 32 h1 N1), (skipn_nth_cons d 33 l1 N1'), (skipn_nth_cons d 34 h2 N2),
        (skipn_nth_cons d 35 l2 N2'), (skipn_nth_cons d 36 h3 N3), (skipn_nth_cons d 37 l3 N3'),
        (skipn_nth_cons d 38 h4 N4), (skipn_nth_cons d 39 l4 N4'). reflexivity. }
    (* re-serialisation *)
    unfold W_to_bytes, to_bytes. cbn [vp_seed vp_slots vp_opens vp_sp].
    destruct slots as [|s0 r]; [cbn [length] in D3; lia|].
    pose proof (Forall_inv D4) as (A0 & B0 & _). rewrite A0, B0.
    rewrite V1, V2, V3.
    rewrite !u16be_of_bytes by (eapply (bytes_ok_nth d); [exact Hb|eassumption]).
    assert (E4 : u16be SCALAR_SIZE = [h4; l4]).
    { replace SCALAR_SIZE with (N.to_nat (h4 * 256 + l4)) by (rewrite <- V4, C1; apply Nat2N.id).
      apply u16be_of_bytes; (eapply (bytes_ok_nth d); [exact Hb|eassumption]). }
    rewrite E4.
    transitivity (Val (seed ++ [h1; l1] ++ [h2; l2] ++ [h3; l3] ++ [h4; l4] ++ skipn 40 d));
      [rewrite D1, F1; reflexivity|f_equal; symmetry; exact Hd].
  Qed.

  (** a parsed object satisfies the struct invariant (so the recoverability theorems apply to it) *)
  Lemma from_bytes_wf d p : bytes_ok d = true -> W_from_bytes W d = Val p -> vproof_wf W p.
  Proof.
    intros Hb. unfold W_from_bytes, from_bytes.
    set (len := N.of_nat (length d)).
    destruct (len <? 32 + 8)%N eqn:E0; [discriminate|]. apply N.ltb_ge in E0.
    destruct (slice d len 0 32) as [seed| |]; cbn [obind]; try discriminate.
    destruct (u16_at d 32) as [spn| |]; cbn [obind]; try discriminate.
    destruct (u16_at d 34) as [gsz| |]; cbn [obind]; try discriminate.
    destruct (u16_at d 36) as [esz| |]; cbn [obind]; try discriminate.
    destruct (u16_at d 38) as [ssz| |]; cbn [obind]; try discriminate.
    destruct (negb (ssz =? N.of_nat SCALAR_SIZE)%N); [discriminate|].
    destruct (negb (gsz =? N.of_nat psize)%N); [discriminate|].
    destruct (spn <? N.of_nat SEC_PARAM)%N; [discriminate|].
    destruct (256 <? spn)%N; [discriminate|].
    destruct (negb ((len - 40) / (gsz + 2 * esz + ssz) =? spn)%N) eqn:C5; [discriminate|].
    apply negb_false_iff, N.eqb_eq in C5. rewrite C5.
    destruct (negb ((len - 40) mod (gsz + 2 * esz + ssz) =? 0)%N); [discriminate|].
    destruct (read_slots psize (skipn 40 d) len (N.to_nat spn) 40 gsz esz) as [[slots [off' rest']]| |] eqn:R1;
      cbn [obind fst snd]; try discriminate.
    destruct (read_scalars from_repr rest' len (N.to_nat spn) off') as [opens| |] eqn:R2; cbn [obind]; try discriminate.
    intros E. inversion E; subst p; clear E.
    assert (L40 : (N.of_nat (length (skipn 40 d)) + 40 = len)%N) by (rewrite skipn_length; unfold len in *; lia).
    destruct (read_slots_inv _ _ _ _ _ _ _ _ _ R1 L40) as (D1 & D2 & D3 & D4 & D5).
    assert (Hbr : bytes_ok rest' = true).
    { pose proof (bytes_ok_skipn 40 d Hb) as H. rewrite D1 in H. apply bytes_ok_app in H. tauto. }
    destruct (read_scalars_inv _ _ _ _ _ R2 Hbr D5) as (rest'' & F1 & F2 & F3).
    unfold vproof_wf. cbn [vp_slots vp_opens vp_sp]. auto.
  Qed.
End Codec.
