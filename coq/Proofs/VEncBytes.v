(** Byte-string / big-integer lemmas for the verifiable-encryption model (C09/C10):
    little/big-endian codecs, BigUint minimal encodings, left-padding, modular inverse,
    the label multiplication round trip, and the two scalar-encoding instances. *)
From SL Require Import Lib.Base Lib.Oracle Model.VEnc.
From Coq Require Import Znumtheory.
Local Open Scope N_scope.

Definition p256 (n : nat) : N := 256 ^ N.of_nat n.

Lemma p256_0 : p256 0 = 1. Proof. reflexivity. Qed.
Lemma p256_S n : p256 (S n) = 256 * p256 n.
Proof. unfold p256. rewrite Nat2N.inj_succ, N.pow_succ_r'. reflexivity. Qed.
Lemma p256_pos n : 0 < p256 n.
Proof. unfold p256. apply N.neq_0_lt_0. apply N.pow_nonzero. discriminate. Qed.
Lemma p256_add a b : p256 (a + b) = p256 a * p256 b.
Proof. unfold p256. rewrite Nat2N.inj_add, N.pow_add_r. reflexivity. Qed.
Lemma p256_le a b : (a <= b)%nat -> p256 a <= p256 b.
Proof. intros. unfold p256. apply N.pow_le_mono_r; [discriminate|lia]. Qed.

Lemma length_to_le n v : length (to_le n v) = n.
Proof. revert v; induction n; intros; cbn [to_le length]; auto. Qed.

Lemma bytes_ok_to_le n v : bytes_ok (to_le n v) = true.
Proof.
  revert v; induction n; intros; cbn [to_le bytes_ok forallb]; auto.
  apply andb_true_iff; split; [|apply IHn].
  unfold byte_ok. apply N.ltb_lt. apply N.mod_lt. discriminate.
Qed.

Lemma of_le_to_le n v : of_le (to_le n v) = v mod p256 n.
Proof.
  revert v; induction n; intros v.
  - cbn [to_le of_le]. rewrite p256_0, N.mod_1_r. reflexivity.
  - cbn [to_le of_le]. rewrite IHn, p256_S.
    rewrite N.mod_mul_r; [reflexivity|discriminate|]. pose proof (p256_pos n). lia.
Qed.

Lemma bytes_ok_cons x l : bytes_ok (x :: l) = true <-> x < 256 /\ bytes_ok l = true.
Proof. unfold bytes_ok. cbn [forallb]. rewrite andb_true_iff. unfold byte_ok. rewrite N.ltb_lt. tauto. Qed.

Lemma bytes_ok_app a b : bytes_ok (a ++ b) = true <-> bytes_ok a = true /\ bytes_ok b = true.
Proof. unfold bytes_ok. rewrite forallb_app, andb_true_iff. tauto. Qed.

Lemma bytes_ok_rev l : bytes_ok (rev l) = bytes_ok l.
Proof.
  unfold bytes_ok. destruct (forallb byte_ok l) eqn:E.
  - apply forallb_forall. intros x Hx. apply in_rev in Hx. exact (proj1 (forallb_forall _ _) E x Hx).
  - destruct (forallb byte_ok (rev l)) eqn:E2; auto.
    rewrite <- E. symmetry. apply forallb_forall. intros x Hx. apply in_rev in Hx.
    exact (proj1 (forallb_forall _ _) E2 x Hx).
Qed.

Lemma bytes_ok_repeat0 n : bytes_ok (repeat 0 n) = true.
Proof. induction n; cbn; auto. Qed.

Lemma of_le_lt l : bytes_ok l = true -> of_le l < p256 (length l).
Proof.
  induction l as [|x r IH]; intros Hb.
  - cbn [of_le length]. rewrite p256_0. lia.
  - apply bytes_ok_cons in Hb. destruct Hb as [Hx Hr]. specialize (IH Hr).
    cbn [of_le length]. rewrite p256_S. lia.
Qed.

Lemma to_le_of_le l : bytes_ok l = true -> to_le (length l) (of_le l) = l.
Proof.
  induction l as [|x r IH]; intros Hb; [reflexivity|].
  apply bytes_ok_cons in Hb. destruct Hb as [Hx Hr].
  cbn [length to_le of_le]. f_equal.
  - replace (x + 256 * of_le r) with (x + of_le r * 256) by lia.
    rewrite N.mod_add by discriminate. apply N.mod_small. exact Hx.
  - replace (x + 256 * of_le r) with (x + of_le r * 256) by lia.
    rewrite N.div_add by discriminate.
    rewrite (N.div_small x 256) by exact Hx. rewrite N.add_0_l. apply IH. exact Hr.
Qed.

Lemma to_le_small_zeros n : to_le n 0 = repeat 0 n.
Proof. induction n; cbn [to_le repeat]; auto. rewrite N.mod_0_l, N.div_0_l by discriminate. f_equal. exact IHn. Qed.

Lemma to_le_app_zeros k n v : v < p256 k -> to_le (k + n) v = to_le k v ++ repeat 0 n.
Proof.
  revert v; induction k; intros v Hv.
  - rewrite p256_0 in Hv. assert (v = 0) by lia. subst. cbn [Nat.add to_le app]. apply to_le_small_zeros.
  - cbn [Nat.add to_le app]. f_equal. apply IHk.
    rewrite p256_S in Hv. apply N.div_lt_upper_bound; [discriminate|exact Hv].
Qed.

Lemma of_le_app a b : of_le (a ++ b) = of_le a + p256 (length a) * of_le b.
Proof.
  induction a as [|x r IH]; cbn [app of_le length].
  - rewrite p256_0. lia.
  - rewrite IH, p256_S. lia.
Qed.

Lemma of_le_repeat0 n : of_le (repeat 0 n) = 0.
Proof. induction n; cbn [repeat of_le]; auto. rewrite IHn. reflexivity. Qed.

(** big-endian *)
Lemma length_to_be n v : length (to_be n v) = n.
Proof. unfold to_be. rewrite rev_length. apply length_to_le. Qed.
Lemma bytes_ok_to_be n v : bytes_ok (to_be n v) = true.
Proof. unfold to_be. rewrite bytes_ok_rev. apply bytes_ok_to_le. Qed.
Lemma of_be_to_be n v : of_be (to_be n v) = v mod p256 n.
Proof. unfold of_be, to_be. rewrite rev_involutive. apply of_le_to_le. Qed.
Lemma to_be_of_be l : bytes_ok l = true -> to_be (length l) (of_be l) = l.
Proof.
  intros Hb. unfold of_be, to_be. rewrite <- (rev_length l).
  rewrite to_le_of_le by (rewrite bytes_ok_rev; exact Hb). apply rev_involutive.
Qed.
Lemma of_be_lt l : bytes_ok l = true -> of_be l < p256 (length l).
Proof. intros Hb. unfold of_be. rewrite <- (rev_length l). apply of_le_lt. rewrite bytes_ok_rev. exact Hb. Qed.
Lemma to_be_pad k n v : v < p256 k -> to_be (n + k) v = repeat 0 n ++ to_be k v.
Proof.
  intros Hv. unfold to_be. rewrite Nat.add_comm, to_le_app_zeros by exact Hv.
  rewrite rev_app_distr. f_equal. clear. induction n; cbn [repeat rev]; auto.
  rewrite IHn. clear. induction n; cbn [repeat app]; auto. f_equal. exact IHn.
Qed.
Lemma of_be_pad n l : of_be (repeat 0 n ++ l) = of_be l.
Proof.
  unfold of_be. rewrite rev_app_distr, of_le_app.
  assert (E : rev (repeat 0 n) = repeat 0 n).
  { clear. induction n; cbn [repeat rev]; auto. rewrite IHn. clear. induction n; cbn [repeat app]; auto. f_equal; exact IHn. }
  rewrite E, of_le_repeat0. lia.
Qed.

(** ** BigUint minimal encodings *)
Local Open Scope Z_scope.

Lemma p256_Z n : Z.of_N (p256 n) = 256 ^ Z.of_nat n.
Proof. unfold p256. rewrite N2Z.inj_pow. rewrite nat_N_Z. reflexivity. Qed.

Lemma byte_len_ge1 v : (1 <= byte_len v)%nat.
Proof.
  unfold byte_len. pose proof (Z.log2_nonneg v).
  assert (0 <= Z.log2 v / 8) by (apply Z.div_pos; lia). lia.
Qed.

Lemma byte_len_bound v : 0 <= v -> v < 256 ^ Z.of_nat (byte_len v).
Proof.
  intros Hv. unfold byte_len.
  pose proof (Z.log2_nonneg v) as Hl.
  assert (Hd : 0 <= Z.log2 v / 8) by (apply Z.div_pos; lia).
  rewrite Z2Nat.id by lia.
  destruct (Z.eq_dec v 0) as [->|Hnz].
  - apply Z.pow_pos_nonneg; lia.
  - assert (Hpos : 0 < v) by lia.
    pose proof (Z.log2_spec v Hpos) as [_ Hu].
    eapply Z.lt_le_trans; [exact Hu|].
    replace 256 with (2 ^ 8) by reflexivity. rewrite <- Z.pow_mul_r by lia.
    apply Z.pow_le_mono_r; [lia|].
    pose proof (Z.mod_pos_bound (Z.log2 v) 8 ltac:(lia)).
    pose proof (Z.div_mod (Z.log2 v) 8 ltac:(lia)). lia.
Qed.

Lemma byte_len_le v k : (1 <= k)%nat -> 0 <= v < 256 ^ Z.of_nat k -> (byte_len v <= k)%nat.
Proof.
  intros Hk [Hv Hlt]. unfold byte_len.
  destruct (Z.eq_dec v 0) as [->|Hnz].
  - cbn. lia.
  - assert (Hpos : 0 < v) by lia.
    pose proof (Z.log2_spec v Hpos) as [Hl _].
    assert (Hlog : Z.log2 v < 8 * Z.of_nat k).
    { apply (Z.pow_lt_mono_r_iff 2); [lia|lia|].
      eapply Z.le_lt_trans; [exact Hl|]. rewrite Z.pow_mul_r by lia. exact Hlt. }
    assert (Z.log2 v / 8 < Z.of_nat k) by (apply Z.div_lt_upper_bound; lia).
    pose proof (Z.log2_nonneg v). assert (0 <= Z.log2 v / 8) by (apply Z.div_pos; lia). lia.
Qed.

Lemma length_bu_to_be v : length (bu_to_be v) = byte_len v.
Proof. unfold bu_to_be. apply length_to_be. Qed.

Lemma bytes_ok_bu_to_be v : bytes_ok (bu_to_be v) = true.
Proof. unfold bu_to_be. apply bytes_ok_to_be. Qed.

Lemma bu_from_be_nonneg b : 0 <= bu_from_be b.
Proof. unfold bu_from_be. lia. Qed.

Lemma bu_from_to_be v : 0 <= v -> bu_from_be (bu_to_be v) = v.
Proof.
  intros Hv. unfold bu_from_be, bu_to_be. rewrite of_be_to_be.
  rewrite N.mod_small; [lia|].
  pose proof (byte_len_bound v Hv) as B. rewrite <- p256_Z in B. lia.
Qed.

Lemma bu_from_be_lt b : bytes_ok b = true -> bu_from_be b < 256 ^ Z.of_nat (length b).
Proof. intros Hb. unfold bu_from_be. rewrite <- p256_Z. pose proof (of_be_lt b Hb). lia. Qed.

(** left-padding the minimal encoding to the width k restores the fixed-width encoding *)
Lemma pad_bu_to_be k v : (1 <= k)%nat -> 0 <= v < 256 ^ Z.of_nat k ->
  (length (bu_to_be v) <= k)%nat /\
  repeat 0%N (k - length (bu_to_be v)) ++ bu_to_be v = to_be k (Z.to_N v).
Proof.
  intros Hk Hv. rewrite length_bu_to_be. pose proof (byte_len_le v k Hk Hv) as Hl. split; [exact Hl|].
  unfold bu_to_be.
  replace k with ((k - byte_len v) + byte_len v)%nat at 2 by lia.
  symmetry. apply to_be_pad.
  pose proof (byte_len_bound v (proj1 Hv)) as B. rewrite <- p256_Z in B. lia.
Qed.

(** the round trip used by decrypt: bytes -> integer -> minimal bytes -> left-pad = bytes *)
Lemma pad_roundtrip b : (1 <= length b)%nat -> bytes_ok b = true ->
  (length (bu_to_be (bu_from_be b)) <= length b)%nat /\
  repeat 0%N (length b - length (bu_to_be (bu_from_be b))) ++ bu_to_be (bu_from_be b) = b.
Proof.
  intros Hl Hb.
  pose proof (bu_from_be_lt b Hb) as Hlt. pose proof (bu_from_be_nonneg b) as Hnn.
  destruct (pad_bu_to_be (length b) (bu_from_be b) Hl (conj Hnn Hlt)) as [H1 H2].
  split; [exact H1|]. rewrite H2. unfold bu_from_be. rewrite N2Z.id. apply to_be_of_be. exact Hb.
Qed.

(** ** Extended Euclid / mod_inverse *)
Lemma egcd_spec g n : forall fuel r0 r1 t0 t1 d t,
  (n | t0 * g - r0) -> (n | t1 * g - r1) ->
  egcd fuel r0 r1 t0 t1 = Some (d, t) ->
  (n | t * g - d) /\ Z.gcd r0 r1 = Z.gcd d 0.
Proof.
  induction fuel as [|f IH]; intros r0 r1 t0 t1 d t H0 H1 E; [discriminate|].
  cbn [egcd] in E. destruct (r1 =? 0) eqn:Ez.
  - apply Z.eqb_eq in Ez. subst r1. inversion E; subst. split; [exact H0|reflexivity].
  - apply Z.eqb_neq in Ez.
    apply IH in E; [|exact H1|].
    + destruct E as [E1 E2]. split; [exact E1|]. rewrite <- E2.
      replace (r0 - r0 / r1 * r1) with (r0 + (- (r0 / r1)) * r1) by lia.
      rewrite Z.gcd_add_mult_diag_r. apply Z.gcd_comm.
    + replace ((t0 - r0 / r1 * t1) * g - (r0 - r0 / r1 * r1))
        with ((t0 * g - r0) + (- (r0 / r1)) * (t1 * g - r1)) by lia.
      apply Z.divide_add_r; [exact H0|]. apply Z.divide_mul_r. exact H1.
Qed.

(** the product r0 * r1 at least halves in every step, so a fuel of log2(r0 * r1) + 2 suffices *)
Lemma egcd_fuel : forall fuel r0 r1 t0 t1,
  0 <= r1 <= r0 -> r0 * r1 < 2 ^ Z.of_nat fuel ->
  egcd (S fuel) r0 r1 t0 t1 <> None.
Proof.
  induction fuel as [|f IH]; intros r0 r1 t0 t1 Hr Hp.
  - cbn [egcd]. destruct (r1 =? 0) eqn:Ez; [discriminate|].
    apply Z.eqb_neq in Ez. cbn in Hp. nia.
  - cbn [egcd]. destruct (r1 =? 0) eqn:Ez; [discriminate|].
    apply Z.eqb_neq in Ez. fold (egcd (S f)).
    assert (Hr1 : 0 < r1) by lia.
    pose proof (Z.mod_pos_bound r0 r1 Hr1) as Hm.
    pose proof (Z.div_mod r0 r1 ltac:(lia)) as Hd.
    assert (Hq : 1 <= r0 / r1) by (apply Z.div_le_lower_bound; lia).
    replace (r0 - r0 / r1 * r1) with (r0 mod r1) by lia.
    apply IH; [lia|].
    rewrite Nat2Z.inj_succ, Z.pow_succ_r in Hp by lia.
    assert (2 * (r1 * (r0 mod r1)) <= r0 * r1) by nia. lia.
Qed.

Lemma mod_inverse_sound g n v : 0 < n -> mod_inverse g n = Some v ->
  0 <= v < n /\ (v * g) mod n = 1 mod n.
Proof.
  intros Hn. unfold mod_inverse.
  destruct (egcd _ n (g mod n) 0 1) as [[d t]|] eqn:E; [|discriminate].
  destruct (d =? 1) eqn:Ed; [|discriminate]. apply Z.eqb_eq in Ed. subst d.
  intros Ev. inversion Ev; subst v. split; [apply Z.mod_pos_bound; exact Hn|].
  apply egcd_spec with (g := g) (n := n) in E.
  - destruct E as [[k E] _]. rewrite Zmult_mod_idemp_l.
    replace (t * g) with (1 + k * n) by lia. rewrite Z_mod_plus_full. reflexivity.
  - exists (-1). lia.
  - exists (g / n). pose proof (Z.div_mod g n ltac:(lia)). lia.
Qed.

Lemma mod_inverse_complete g n : 1 < n -> Z.gcd g n = 1 -> exists v, mod_inverse g n = Some v.
Proof.
  intros Hn Hg. unfold mod_inverse.
  pose proof (Z.mod_pos_bound g n ltac:(lia)) as Hm.
  destruct (egcd _ n (g mod n) 0 1) as [[d t]|] eqn:E.
  - pose proof E as E'. apply egcd_spec with (g := g) (n := n) in E'.
    + destruct E' as [_ E2]. rewrite Z.gcd_0_r in E2.
      rewrite Z.gcd_comm, Z.gcd_mod, Z.gcd_comm in E2 by lia. rewrite Hg in E2.
      assert (Hd : d = 1 \/ d = -1) by lia. destruct Hd as [-> | ->].
      * cbn. eauto.
      * (* the gcd computed by the iteration is non-negative *)
        exfalso. revert E. clear -Hn Hm.
        assert (G : forall fuel r0 r1 t0 t1 d' t', 0 <= r1 -> 0 <= r0 -> egcd fuel r0 r1 t0 t1 = Some (d', t') -> 0 <= d').
        { induction fuel as [|f IH]; intros r0 r1 t0 t1 d' t' H1 H0 E; [discriminate|].
          cbn [egcd] in E. destruct (r1 =? 0) eqn:Ez.
          - inversion E; subst; exact H0.
          - apply Z.eqb_neq in Ez. apply IH in E; [exact E| |exact H1].
            replace (r0 - r0 / r1 * r1) with (r0 mod r1) by (pose proof (Z.div_mod r0 r1 ltac:(lia)); lia).
            apply Z.mod_pos_bound. lia. }
        intros E. apply G in E; lia.
    + exists (-1). lia.
    + exists (g / n). pose proof (Z.div_mod g n ltac:(lia)). lia.
  - exfalso. revert E.
    replace (2 * Z.to_nat (Z.log2 n + 1) + 2)%nat with (S (2 * Z.to_nat (Z.log2 n + 1) + 1))%nat by lia.
    apply egcd_fuel; [lia|].
    pose proof (Z.log2_spec n ltac:(lia)) as [_ Hu].
    pose proof (Z.log2_nonneg n) as Hl.
    replace (Z.of_nat (2 * Z.to_nat (Z.log2 n + 1) + 1)) with (Z.succ (Z.log2 n) + Z.succ (Z.log2 n) + 1) by lia.
    rewrite !Z.pow_add_r by lia.
    assert (0 < 2 ^ Z.succ (Z.log2 n)) by (apply Z.pow_pos_nonneg; lia). nia.
Qed.

(** label_roundtrip: dividing by the label integer undoes the multiplication, for every message below n *)
Lemma label_roundtrip m l n li : 0 < n -> 0 <= m < n -> mod_inverse l n = Some li ->
  (((m * l) mod n) * li) mod n = m.
Proof.
  intros Hn Hm Hi. apply mod_inverse_sound in Hi; [|exact Hn]. destruct Hi as [_ Hi].
  rewrite Zmult_mod_idemp_l.
  replace (m * l * li) with (m * (li * l)) by lia.
  rewrite <- Zmult_mod_idemp_r, Hi, Zmult_mod_idemp_r, Z.mul_1_r. apply Z.mod_small. exact Hm.
Qed.

(** label_no_wrap: a 32-byte message times a 32-byte label integer never reaches a modulus of >= 2^512 *)
Lemma label_no_wrap m l n : 0 <= m < 2 ^ 256 -> 0 <= l < 2 ^ 256 -> 2 ^ 512 <= n -> 0 <= m * l < n.
Proof.
  intros Hm Hl Hn. replace (2 ^ 512) with (2 ^ 256 * 2 ^ 256) in Hn by reflexivity. nia.
Qed.

(** ** Scalar encodings: the laws the proofs use, and the two instances *)
Record repr_laws (q : Z) (repr : Z -> list N) (from_repr : list N -> option Z) : Prop := {
  rl_len : forall s, length (repr s) = SCALAR_SIZE;
  rl_bytes : forall s, bytes_ok (repr s) = true;
  rl_from_repr : forall s, 0 <= s < q -> from_repr (repr s) = Some s;
  rl_canon : forall b s, bytes_ok b = true -> from_repr b = Some s -> repr s = b /\ 0 <= s < q;
  rl_width : forall b s, from_repr b = Some s -> length b = SCALAR_SIZE;
}.

Lemma repr_be_laws q : 0 < q <= 2 ^ 256 -> repr_laws q repr_be (from_repr_be q).
Proof.
  intros Hq. constructor.
  - intros s. apply length_to_be.
  - intros s. apply bytes_ok_to_be.
  - intros s Hs. unfold from_repr_be, repr_be. rewrite length_to_be, Nat.eqb_refl.
    rewrite of_be_to_be. rewrite N.mod_small.
    + rewrite Z2N.id by lia. destruct (s <? q) eqn:E; [reflexivity|apply Z.ltb_ge in E; lia].
    + assert (E : Z.of_N (p256 SCALAR_SIZE) = 2 ^ 256) by (rewrite p256_Z; reflexivity). lia.
  - intros b s Hb. unfold from_repr_be, repr_be.
    destruct (length b =? SCALAR_SIZE)%nat eqn:El; [|discriminate]. apply Nat.eqb_eq in El.
    destruct (Z.of_N (of_be b) <? q) eqn:E; [|discriminate]. apply Z.ltb_lt in E.
    intros Es. inversion Es; subst s. rewrite N2Z.id. split; [|lia].
    rewrite <- El. apply to_be_of_be. exact Hb.
  - intros b s. unfold from_repr_be.
    destruct (length b =? SCALAR_SIZE)%nat eqn:El; [|discriminate]. apply Nat.eqb_eq in El. auto.
Qed.

Lemma repr_le_laws q : 0 < q <= 2 ^ 256 -> repr_laws q repr_le (from_repr_le q).
Proof.
  intros Hq. constructor.
  - intros s. apply length_to_le.
  - intros s. apply bytes_ok_to_le.
  - intros s Hs. unfold from_repr_le, repr_le. rewrite length_to_le, Nat.eqb_refl.
    rewrite of_le_to_le. rewrite N.mod_small.
    + rewrite Z2N.id by lia. destruct (s <? q) eqn:E; [reflexivity|apply Z.ltb_ge in E; lia].
    + assert (E : Z.of_N (p256 SCALAR_SIZE) = 2 ^ 256) by (rewrite p256_Z; reflexivity). lia.
  - intros b s Hb. unfold from_repr_le, repr_le.
    destruct (length b =? SCALAR_SIZE)%nat eqn:El; [|discriminate]. apply Nat.eqb_eq in El.
    destruct (Z.of_N (of_le b) <? q) eqn:E; [|discriminate]. apply Z.ltb_lt in E.
    intros Es. inversion Es; subst s. rewrite N2Z.id. split; [|lia].
    rewrite <- El. apply to_le_of_le. exact Hb.
  - intros b s. unfold from_repr_le.
    destruct (length b =? SCALAR_SIZE)%nat eqn:El; [|discriminate]. apply Nat.eqb_eq in El. auto.
Qed.

(** lower bound on the byte length (a modulus of at least 2^592 has at least 75 bytes) *)
Lemma byte_len_ge v k : 256 ^ Z.of_nat k <= v -> (k + 1 <= byte_len v)%nat.
Proof.
  intros Hv. assert (H0 : 0 <= v) by (pose proof (Z.pow_nonneg 256 (Z.of_nat k)); lia).
  pose proof (byte_len_bound v H0) as B.
  destruct (le_lt_dec (k + 1) (byte_len v)) as [|Hlt]; [assumption|exfalso].
  assert (256 ^ Z.of_nat (byte_len v) <= 256 ^ Z.of_nat k) by (apply Z.pow_le_mono_r; lia). lia.
Qed.
