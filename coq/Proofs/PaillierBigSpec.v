(** The BigZ mirror (Model/PaillierBig.v) computes the same values as the Z model (Model/Paillier.v):
    [[bf x]] = f [[x]] for every mirrored function, hence [check_case_big = check_case] on every case.
    The proofs are rewrites with the [BigZ.spec_*] lemmas of the Bignums library; those rest on the
    specifications of the kernel's primitive 63-bit integers (the Uint63 axioms of Coq's standard library),
    which is why this file is NOT in the cone of Props/C07.v / Props/C08.v: it validates the evaluator
    used by the correspondence check, not the theorems. *)
From Bignums Require Import BigZ.
From Coq Require Import ZArith Lia List.
From SL Require Import Lib.Base Model.Paillier Model.PaillierBig Corr.PaillierCases.
Local Open Scope Z_scope.

Lemma bz_spec x : [[bz x]] = x.
Proof. apply BigZ.spec_of_Z. Qed.

Lemma bwrap_spec w x : [[bwrap w x]] = wrap w [[x]].
Proof. unfold bwrap, wrap. rewrite BigZ.spec_modulo, bz_spec. reflexivity. Qed.

Lemma bwadd_spec w a b : [[bwadd w a b]] = wadd w [[a]] [[b]].
Proof. unfold bwadd, wadd. rewrite bwrap_spec, BigZ.spec_add. reflexivity. Qed.

Lemma bwsub_spec w a b : [[bwsub w a b]] = wsub w [[a]] [[b]].
Proof. unfold bwsub, wsub. rewrite bwrap_spec, BigZ.spec_sub. reflexivity. Qed.

Lemma bwdiv_spec a b : [[bwdiv a b]] = wdiv [[a]] [[b]].
Proof. apply BigZ.spec_div. Qed.

Lemma bcrem_spec a m : [[bcrem a m]] = crem [[a]] [[m]].
Proof. apply BigZ.spec_modulo. Qed.

Lemma bsub_mod_spec w a b p : [[bsub_mod w a b p]] = sub_mod w [[a]] [[b]] [[p]].
Proof.
  unfold bsub_mod, sub_mod. rewrite bwrap_spec, BigZ.spec_add, BigZ.spec_sub, BigZ.spec_ltb.
  destruct ([[a]] <? [[b]]); [reflexivity|rewrite bz_spec; reflexivity].
Qed.

Lemma bpowmod_pos_spec b e m : [[bpowmod_pos b e m]] = powmod_pos [[b]] e [[m]].
Proof.
  induction e as [e IH|e IH|]; cbn [bpowmod_pos powmod_pos].
  - rewrite BigZ.spec_modulo, BigZ.spec_mul, BigZ.spec_modulo, BigZ.spec_mul, IH. reflexivity.
  - rewrite BigZ.spec_modulo, BigZ.spec_mul, IH. reflexivity.
  - reflexivity.
Qed.

Lemma bpowmod_spec b e m : [[bpowmod b e m]] = powmod [[b]] e [[m]].
Proof.
  unfold bpowmod, powmod. destruct e.
  - rewrite BigZ.spec_modulo, bz_spec. reflexivity.
  - rewrite bpowmod_pos_spec, BigZ.spec_modulo. reflexivity.
  - rewrite BigZ.spec_modulo, bz_spec. reflexivity.
Qed.

Lemma bpow_bounded_exp_spec b e k m : [[bpow_bounded_exp b e k m]] = pow_bounded_exp [[b]] [[e]] k [[m]].
Proof. unfold bpow_bounded_exp, pow_bounded_exp. apply bpowmod_spec. Qed.

Lemma begcd_loop_spec fuel : forall r0 r1 t0 t1,
  ([[fst (begcd_loop fuel r0 r1 t0 t1)]], [[snd (begcd_loop fuel r0 r1 t0 t1)]])
  = egcd_loop fuel [[r0]] [[r1]] [[t0]] [[t1]].
Proof.
  induction fuel as [|k IH]; intros r0 r1 t0 t1; cbn [begcd_loop egcd_loop]; [reflexivity|].
  rewrite BigZ.spec_eqb, bz_spec. destruct ([[r1]] =? 0); [reflexivity|].
  rewrite IH. rewrite !BigZ.spec_sub, !BigZ.spec_mul, !BigZ.spec_div. reflexivity.
Qed.

Lemma bmodinv_spec a m : [[bmodinv a m]] = modinv [[a]] [[m]].
Proof.
  unfold bmodinv, modinv. rewrite BigZ.spec_modulo.
  pose proof (begcd_loop_spec (egcd_fuel [[m]]) m (BigZ.modulo a m) (bz 0) (bz 1)) as H.
  rewrite BigZ.spec_modulo, !bz_spec in H. rewrite <- H. reflexivity.
Qed.

Lemma bbits_spec x : bbits x = bits [[x]].
Proof. reflexivity. Qed.

Lemma bfrom_n_spec w n : pk_of_big (bfrom_n w n) = from_n w [[n]].
Proof. unfold pk_of_big, bfrom_n, from_n. cbn [bpk_n bpk_nn]. rewrite bwrap_spec, BigZ.spec_mul. reflexivity. Qed.

Lemma bh_spec w p pp n : [[bh w p pp n]] = h w [[p]] [[pp]] [[n]].
Proof.
  unfold bh, h. rewrite bwrap_spec, bmodinv_spec, bwdiv_spec, bwsub_spec, bsub_mod_spec, bcrem_spec, !bz_spec.
  reflexivity.
Qed.

Lemma bfrom_pq_spec w p q : sk_of_big (bfrom_pq w p q) = from_pq w [[p]] [[q]].
Proof.
  unfold sk_of_big, bfrom_pq, from_pq.
  cbn [bsk_pk bsk_phi bsk_inv_phi bsk_p bsk_hp bsk_q bsk_hq bsk_pinv_q bsk_pp bsk_qq].
  rewrite bfrom_n_spec, !bh_spec, !bmodinv_spec, !bwrap_spec, !BigZ.spec_mul, !bwsub_spec, !bz_spec.
  reflexivity.
Qed.

(** operations: stated for a BigZ key and its Z image *)
Lemma bencrypt_spec w pk m r : [[bencrypt w pk m r]] = encrypt w (pk_of_big pk) [[m]] [[r]].
Proof.
  unfold bencrypt, encrypt, pk_of_big. cbn [pk_n pk_nn].
  rewrite bcrem_spec, BigZ.spec_mul, bcrem_spec, bwadd_spec, bwrap_spec, BigZ.spec_mul, bz_spec,
    bpow_bounded_exp_spec, bbits_spec. reflexivity.
Qed.

Lemma badd_spec w pk c1 c2 : [[badd w pk c1 c2]] = add w (pk_of_big pk) [[c1]] [[c2]].
Proof. unfold badd, add, pk_of_big. cbn [pk_nn]. rewrite !bcrem_spec, BigZ.spec_mul, !bcrem_spec. reflexivity. Qed.

Lemma bmul_spec w pk c k : [[bmul w pk c k]] = mul w (pk_of_big pk) [[c]] [[k]].
Proof. unfold bmul, mul, pk_of_big. cbn [pk_nn]. apply bpow_bounded_exp_spec. Qed.

Lemma bmul_vartime_spec w pk c k : [[bmul_vartime w pk c k]] = mul_vartime w (pk_of_big pk) [[c]] [[k]].
Proof.
  unfold bmul_vartime, mul_vartime, pk_of_big. cbn [pk_nn].
  rewrite bpow_bounded_exp_spec, bwrap_spec, bbits_spec. reflexivity.
Qed.

Lemma binto_message_spec pk m :
  match binto_message pk m with Some x => Some [[x]] | None => None end = into_message (pk_of_big pk) [[m]].
Proof.
  unfold binto_message, into_message, pk_of_big. cbn [pk_n]. rewrite BigZ.spec_ltb.
  destruct ([[m]] <? [[bpk_n pk]]); reflexivity.
Qed.

Lemma bdecrypt_spec w sk c : [[bdecrypt w sk c]] = decrypt w (sk_of_big sk) [[c]].
Proof.
  unfold bdecrypt, decrypt, sk_of_big, pk_of_big. cbn [sk_pk pk_n pk_nn sk_phi sk_inv_phi].
  rewrite bcrem_spec, BigZ.spec_mul, bcrem_spec, bwrap_spec, bwdiv_spec, bwsub_spec, bz_spec,
    bpow_bounded_exp_spec, bwrap_spec. reflexivity.
Qed.

Lemma bmp_spec w cp p hp pp : [[bmp w cp p hp pp]] = mp w [[cp]] [[p]] [[hp]] [[pp]].
Proof.
  unfold bmp, mp.
  rewrite bcrem_spec, BigZ.spec_mul, bcrem_spec, bwrap_spec, bwdiv_spec, bwsub_spec, bz_spec,
    bpow_bounded_exp_spec, bwrap_spec, bwsub_spec, bz_spec. reflexivity.
Qed.

Lemma brecombine_spec w pinv v1 v2 p q :
  [[brecombine w pinv v1 v2 p q]] = recombine w [[pinv]] [[v1]] [[v2]] [[p]] [[q]].
Proof.
  unfold brecombine, recombine.
  rewrite bwadd_spec, bwrap_spec, BigZ.spec_mul, bcrem_spec, BigZ.spec_mul, bsub_mod_spec, bcrem_spec. reflexivity.
Qed.

Lemma bdecrypt_fast_spec w sk c : [[bdecrypt_fast w sk c]] = decrypt_fast w (sk_of_big sk) [[c]].
Proof.
  unfold bdecrypt_fast, decrypt_fast, bdecompose, decompose, sk_of_big.
  cbn [sk_pp sk_qq sk_p sk_q sk_hp sk_hq sk_pinv_q].
  rewrite brecombine_spec, !bmp_spec, !bcrem_spec. reflexivity.
Qed.

Lemma bextract_n_root_spec w sk z : [[bextract_n_root w sk z]] = extract_n_root w (sk_of_big sk) [[z]].
Proof.
  unfold bextract_n_root, extract_n_root, bextract_n_root_init_params, extract_n_root_init_params,
    bextract_n_root_with, extract_n_root_with, bdecompose, decompose, sk_of_big, pk_of_big.
  cbn [sk_pk pk_n sk_phi sk_p sk_q sk_pinv_q].
  rewrite brecombine_spec, !bpow_bounded_exp_spec, !bcrem_spec, bmodinv_spec, !bwsub_spec, !bz_spec. reflexivity.
Qed.

Lemma bextract_n_root_init_params_spec w sk :
  (let '(a, b, c, d) := bextract_n_root_init_params w sk in ([[a]], [[b]], [[c]], [[d]]))
  = extract_n_root_init_params w (sk_of_big sk).
Proof.
  unfold bextract_n_root_init_params, extract_n_root_init_params, bdecompose, decompose, sk_of_big, pk_of_big.
  cbn [sk_pk pk_n sk_phi sk_p sk_q].
  rewrite !bcrem_spec, bmodinv_spec, !bwsub_spec, !bz_spec. reflexivity.
Qed.

(** * The two evaluators of Corr/PaillierCases.v agree *)
Lemma check_op_big_eq w sk op : check_op_big w sk op = check_op w (sk_of_big sk) op.
Proof.
  destruct op; unfold check_op_big, check_op, bres.
  - (* OKey *)
    change (sk_pk (sk_of_big sk)) with (pk_of_big (bsk_pk sk)).
    change (pk_n (pk_of_big (bsk_pk sk))) with [[bpk_n (bsk_pk sk)]].
    change (pk_nn (pk_of_big (bsk_pk sk))) with [[bpk_nn (bsk_pk sk)]].
    change (sk_phi (sk_of_big sk)) with [[bsk_phi sk]].
    destruct ip as [ [ [ [dp dq] pm] qm] |]; [|reflexivity].
    rewrite <- bextract_n_root_init_params_spec.
    destruct (bextract_n_root_init_params w sk) as [ [ [a b] c] d]. reflexivity.
  - (* OEnc *)
    change (sk_pk (sk_of_big sk)) with (pk_of_big (bsk_pk sk)).
    rewrite <- (bz_spec m) at 2. rewrite <- binto_message_spec.
    destruct (binto_message (bsk_pk sk) (bz m)); [|reflexivity].
    rewrite bencrypt_spec, bz_spec. reflexivity.
  - rewrite bdecrypt_spec, bz_spec. reflexivity.
  - rewrite bdecrypt_fast_spec, bz_spec. reflexivity.
  - rewrite bextract_n_root_spec, bz_spec. reflexivity.
  - change (sk_pk (sk_of_big sk)) with (pk_of_big (bsk_pk sk)). rewrite badd_spec, !bz_spec. reflexivity.
  - change (sk_pk (sk_of_big sk)) with (pk_of_big (bsk_pk sk)).
    rewrite <- (bz_spec k) at 2. rewrite <- binto_message_spec.
    destruct (binto_message (bsk_pk sk) (bz k)); [|reflexivity].
    rewrite bmul_spec, bz_spec. reflexivity.
  - change (sk_pk (sk_of_big sk)) with (pk_of_big (bsk_pk sk)).
    rewrite <- (bz_spec k) at 2. rewrite <- binto_message_spec.
    destruct (binto_message (bsk_pk sk) (bz k)); [|reflexivity].
    rewrite bmul_vartime_spec, bz_spec. reflexivity.
  - reflexivity.
  - reflexivity.
  - reflexivity.
  - reflexivity.
Qed.

Theorem check_case_big_eq c : check_case_big c = check_case c.
Proof.
  destruct c as [ [ [b p] q] ops]. unfold check_case_big, check_case.
  rewrite <- (bz_spec p) at 2. rewrite <- (bz_spec q) at 2. rewrite <- bfrom_pq_spec.
  induction ops as [|o ops IH]; [reflexivity|]. cbn [forallb]. rewrite check_op_big_eq, IH. reflexivity.
Qed.

Print Assumptions check_case_big_eq.
