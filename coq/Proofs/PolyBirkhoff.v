(** C13: the Birkhoff coefficients interpolate.  [birkhoff_coeffs] returns row 0 of the inverse of
    the Birkhoff matrix; GIVEN that the matrix model's result is a left inverse
    ([mat_mul q Minv M = mat_id n] -- the conclusion of C20's [inverse_correct], taken here as a
    premise), sum_i b_i * f^(r_i)(x_i) = f(0) for every f with n coefficients, in the field and
    in the exponent. *)
From SL Require Import Lib.Base Model.Matrix Model.Poly Model.PolyBirkhoff.
From SL Require Import Proofs.PolyFact Proofs.PolySum Proofs.PolyDeriv Proofs.PolyGroup.
Local Open Scope Z_scope.

Section Birkhoff.
  Variable q : Z.

  (** entry k of [polynomial_coeff_multipliers x r n] *)
  Definition mcoef (x : Z) (r k : nat) : Z :=
    if (k <? r)%nat then 0 else fmul q (factorial_range q (k - r) k) (fpow q x (k - r)).

  Lemma multipliers_length x r n : length (polynomial_coeff_multipliers q x r n) = n.
  Proof. unfold polynomial_coeff_multipliers. rewrite map_length, seq_length. reflexivity. Qed.

  Lemma multipliers_nth x r n k : (k < n)%nat ->
    nth k (polynomial_coeff_multipliers q x r n) 0 = mcoef x r k.
  Proof.
    intros H. unfold polynomial_coeff_multipliers.
    rewrite (map_nth_in _ _ 0 O) by (rewrite seq_length; exact H).
    rewrite seq_nth by exact H. reflexivity.
  Qed.

  (** the inner product of Model/Matrix.v is the integer inner product modulo q *)
  Lemma fold_dot l : forall a,
    fold_left (fun acc (ab : Z * Z) => zq_add q acc (zq_mul q (fst ab) (snd ab))) l a
    = match l with [] => a | _ => (a + zsum (map (fun ab => fst ab * snd ab) l)) mod q end.
  Proof.
    induction l as [|x l IH]; intros a; [reflexivity|].
    cbn [fold_left]. rewrite IH. unfold zq_add, zq_mul. cbn [map zsum fold_right].
    fold (zsum (map (fun ab : Z * Z => fst ab * snd ab) l)).
    destruct l as [|y l'].
    - cbn [map zsum fold_right]. rewrite Z.add_0_r. apply Zplus_mod_idemp_r.
    - rewrite Zplus_mod_idemp_l.
      set (S := zsum _).
      replace (a + (fst x * snd x) mod q + S) with ((fst x * snd x) mod q + (a + S)) by ring.
      rewrite Zplus_mod_idemp_l. f_equal. ring.
  Qed.

  Lemma dot_spec u v : dot q u v = bigsum (length v) (fun i => nth i u 0 * nth i v 0) mod q.
  Proof.
    unfold dot. rewrite fold_dot. rewrite <- zsum_map_combine.
    destruct (combine u v); [reflexivity|]. rewrite Z.add_0_l. reflexivity.
  Qed.

  Lemma birkhoff_hd_length (ps : list (Z * nat)) : ps <> [] ->
    length (hd [] (birkhoff_matrix q ps)) = length ps.
  Proof.
    destruct ps as [|[x r] t]; [contradiction|]. intros _.
    unfold birkhoff_matrix. cbn [map hd]. apply multipliers_length.
  Qed.

  Lemma length_pos {A} (l : list A) : l <> [] -> (0 < length l)%nat.
  Proof. destruct l; [contradiction|cbn; lia]. Qed.

  Section Params.
    Variable params : list (Z * nat).
    Let n := length params.
    Let xs (i : nat) : Z := fst (nth i params (0, O)).
    Let rk (i : nat) : nat := snd (nth i params (0, O)).
    Let M := birkhoff_matrix q params.

    Lemma birkhoff_matrix_length : length M = n.
    Proof. unfold M, birkhoff_matrix. apply map_length. Qed.

    Lemma birkhoff_matrix_row i : (i < n)%nat ->
      nth i M [] = polynomial_coeff_multipliers q (xs i) (rk i) n.
    Proof.
      intros H. unfold M, birkhoff_matrix.
      rewrite (map_nth_in _ _ [] (0, O)) by exact H.
      unfold xs, rk. destruct (nth i params (0, O)) as [x r]. reflexivity.
    Qed.

    Lemma mat_col_length k : length (mat_col k M) = n.
    Proof. unfold mat_col. rewrite map_length. apply birkhoff_matrix_length. Qed.

    Lemma mat_col_nth k i : (i < n)%nat -> (k < n)%nat -> nth i (mat_col k M) 0 = mcoef (xs i) (rk i) k.
    Proof.
      intros Hi Hk. unfold mat_col.
      rewrite (map_nth_in _ _ 0 []) by (rewrite birkhoff_matrix_length; exact Hi).
      rewrite birkhoff_matrix_row by exact Hi. apply multipliers_nth. exact Hk.
    Qed.

    (** a derivative value is the inner product of a matrix row with the coefficient vector *)
    Lemma derivative_at_row f i : length f = n -> (i < n)%nat ->
      derivative_at q f (rk i) (xs i) = bigsum n (fun k => mcoef (xs i) (rk i) k * nth k f 0) mod q.
    Proof.
      intros Hf Hi. rewrite derivative_at_full, Hf. apply bigsum_mod_ext. intros k Hk.
      unfold mcoef. destruct (k <? rk i)%nat; [reflexivity|].
      rewrite fmul_mod. unfold fmul. rewrite !Zmult_mod_idemp_l. f_equal. ring.
    Qed.

    Hypothesis Hne : params <> [].

    Lemma hd_row_length : length (hd [] M) = n.
    Proof.
      apply birkhoff_hd_length. exact Hne.
    Qed.

    (** what the left-inverse premise says about row 0 *)
    Lemma row0_of_left_inverse Minv : mat_mul q Minv M = mat_id n ->
      exists b rest, Minv = b :: rest /\
        forall k, (k < n)%nat ->
          bigsum n (fun i => nth i b 0 * mcoef (xs i) (rk i) k) mod q = (if (0 =? k)%nat then 1 else 0).
    Proof.
      intros H. assert (Hn : (0 < n)%nat) by (apply length_pos; exact Hne).
      destruct Minv as [|b rest].
      { exfalso. unfold mat_mul, mat_id in H. cbn [map] in H.
        destruct n; [lia|]. discriminate. }
      exists b, rest. split; [reflexivity|]. intros k Hk.
      assert (R0 : nth 0 (mat_mul q (b :: rest) M) [] = nth 0 (mat_id n) []) by (rewrite H; reflexivity).
      unfold mat_mul in R0. cbn [map nth] in R0. rewrite hd_row_length in R0.
      unfold mat_id in R0. rewrite (map_nth_in _ _ [] O) in R0 by (rewrite seq_length; exact Hn).
      rewrite seq_nth in R0 by exact Hn. cbn [Nat.add] in R0.
      assert (Hk' : In k (seq 0 n)) by (apply in_seq; lia).
      pose proof (ext_in_map R0 k Hk') as E. cbv beta in E.
      rewrite dot_spec, mat_col_length in E. rewrite <- E.
      apply bigsum_mod_ext. intros i Hi. rewrite mat_col_nth by lia. reflexivity.
    Qed.

    (** C13 birkhoff_interpolates (scalar side) *)
    Theorem birkhoff_interpolates Minv f :
      Z.of_nat n <= 2 ^ 64 -> length f = n ->
      matrix_inverse q M n = Val Minv ->
      mat_mul q Minv M = mat_id n ->
      exists b, birkhoff_coeffs q params = Val b /\
        bigsum n (fun i => nth i b 0 * derivative_at q f (rk i) (xs i)) mod q = evaluate_at q f 0.
    Proof.
      intros Hn Hf Hinv Hmul.
      destruct (row0_of_left_inverse Minv Hmul) as (b & rest & -> & Hrow).
      exists b. split.
      { unfold birkhoff_coeffs. fold n. fold M. rewrite Hinv. reflexivity. }
      assert (Hpos : (0 < n)%nat) by (apply length_pos; exact Hne).
      (* A: replace the derivative values by integer row products *)
      transitivity (bigsum n (fun i => nth i b 0 * bigsum n (fun k => mcoef (xs i) (rk i) k * nth k f 0)) mod q).
      { apply bigsum_mod_ext. intros i Hi. rewrite derivative_at_row by assumption.
        apply Zmult_mod_idemp_r. }
      (* B: exchange the sums *)
      replace (bigsum n (fun i => nth i b 0 * bigsum n (fun k => mcoef (xs i) (rk i) k * nth k f 0)))
        with (bigsum n (fun k => bigsum n (fun i => nth i b 0 * mcoef (xs i) (rk i) k) * nth k f 0)).
      2:{ transitivity (bigsum n (fun k => bigsum n (fun i => nth i b 0 * mcoef (xs i) (rk i) k * nth k f 0))).
          - apply bigsum_ext. intros k Hk. symmetry. apply bigsum_scale_r.
          - rewrite bigsum_swap. apply bigsum_ext. intros i Hi. rewrite <- bigsum_scale_l.
            apply bigsum_ext. intros k Hk. ring. }
      (* C: row 0 of the inverse times the matrix is the unit vector *)
      transitivity (bigsum n (fun k => (if (0 =? k)%nat then 1 else 0) * nth k f 0) mod q).
      { apply bigsum_mod_ext. intros k Hk. rewrite <- (Hrow k Hk). apply eq_sym, Zmult_mod_idemp_l. }
      rewrite (bigsum_single n 0);
        [|exact Hpos|intros i Hi Hne0; destruct i; [contradiction|cbn [Nat.eqb]; ring]].
      cbn [Nat.eqb]. rewrite Z.mul_1_l. symmetry. apply evaluate_at_zero.
    Qed.
  End Params.

  (* ------------------------------------------------------------------ in the exponent *)
  Section Exponent.
    Variable G : Type.
    Variable gadd : G -> G -> G.
    Variable gneg : G -> G.
    Variable gid : G.
    Variable smul : Z -> G -> G.
    Variable geqb : G -> G -> bool.
    Variable gen : G.
    Hypothesis L : module_laws q G gadd gneg gid smul geqb gen.

    (** sum_{i<n} F i in the group *)
    Fixpoint gbig (n : nat) (F : nat -> G) : G :=
      match n with O => gid | S k => gadd (gbig k F) (F k) end.

    (** the r-th derivative of a group polynomial evaluated at x, as the code composes it:
        [GroupPolynomial::new(F.derivative_coeffs(r).collect()).evaluate_at(x)] *)
    Definition g_derivative_at (F : list G) (r : nat) (x : Z) : outcome G :=
      obind (g_derivative_coeffs q G smul F r) (fun D => Val (g_evaluate_at q G gadd gid smul D x)).

    Lemma gbig_ext n F F' : (forall i, (i < n)%nat -> F i = F' i) -> gbig n F = gbig n F'.
    Proof.
      induction n as [|n IH]; intros H; cbn [gbig]; [reflexivity|].
      rewrite IH by (intros; apply H; lia). rewrite H by lia. reflexivity.
    Qed.

    Lemma gbig_smul_gen n F : gbig n (fun i => smul (F i) gen) = smul (bigsum n F) gen.
    Proof.
      induction n as [|n IH]; cbn [gbig bigsum].
      - symmetry. apply (smul_zero q G gadd gneg gid smul geqb gen L).
      - rewrite IH. symmetry. apply (smul_add_l _ _ _ _ _ _ _ _ L).
    Qed.

    (** C13 birkhoff_interpolates in the exponent: for the committed polynomial
        sum_i b_i * F^(r_i)(x_i) = F_0 (the commitment to f(0)).  Ranks are at most n, so no
        [derivative_coeffs] call panics. *)
    Theorem birkhoff_interpolates_exponent (params : list (Z * nat)) Minv f :
      params <> [] -> Z.of_nat (length params) <= 2 ^ 64 -> length f = length params ->
      (forall i, (i < length params)%nat -> (snd (nth i params (0%Z, O)) <= length params)%nat) ->
      matrix_inverse q (birkhoff_matrix q params) (length params) = Val Minv ->
      mat_mul q Minv (birkhoff_matrix q params) = mat_id (length params) ->
      exists b D, birkhoff_coeffs q params = Val b /\
        (forall i, (i < length params)%nat ->
           g_derivative_at (commit G smul gen f) (snd (nth i params (0, O))) (fst (nth i params (0, O))) = Val (D i)) /\
        gbig (length params) (fun i => smul (nth i b 0) (D i)) = smul (evaluate_at q f 0) gen /\
        g_get_constant G (commit G smul gen f) = Val (smul (nth 0 f 0) gen) /\
        smul (evaluate_at q f 0) gen = smul (nth 0 f 0) gen.
    Proof.
      intros Hne Hn Hf Hrk Hinv Hmul.
      destruct (birkhoff_interpolates params Hne Minv f Hn Hf Hinv Hmul) as (b & Hb & Hsum).
      exists b.
      exists (fun i => smul (derivative_at q f (snd (nth i params (0, O))) (fst (nth i params (0, O)))) gen).
      split; [exact Hb|]. split; [|split; [|split]].
      - intros i Hi. unfold g_derivative_at.
        rewrite (commit_derivative q G gadd gneg gid smul geqb gen L) by (rewrite ?Hf; auto).
        cbn [obind]. f_equal.
        rewrite (commit_eval q G gadd gneg gid smul geqb gen L).
        rewrite evaluate_at_spec, <- derivative_at_spec by (rewrite Hf; exact Hn).
        reflexivity.
      - rewrite (gbig_ext _ _ (fun i => smul (nth i b 0 * derivative_at q f (snd (nth i params (0, O))) (fst (nth i params (0, O)))) gen))
          by (intros; apply (smul_mul _ _ _ _ _ _ _ _ L)).
        rewrite gbig_smul_gen. rewrite <- Hsum. symmetry. apply (smul_mod _ _ _ _ _ _ _ _ L).
      - destruct f as [|c t]; [|reflexivity].
        exfalso. cbn [length] in Hf. destruct params; [contradiction|discriminate].
      - rewrite evaluate_at_zero. apply (smul_mod _ _ _ _ _ _ _ _ L).
    Qed.
  End Exponent.
End Birkhoff.

(** non-vacuity: a hierarchical setup (ranks 0,0,1) evaluated in the model, secp256k1 order:
    the premises of [birkhoff_interpolates] hold and so does the identity *)
Example birkhoff_example :
  let q := Poly.secp256k1_q in
  let params := [(1, 0%nat); (2, 0%nat); (3, 1%nat)] in
  let f := [11; 22; 33] in
  exists Minv b,
    matrix_inverse q (birkhoff_matrix q params) 3 = Val Minv /\
    mat_mul q Minv (birkhoff_matrix q params) = mat_id 3 /\
    birkhoff_coeffs q params = Val b /\
    (nth 0 b 0 * derivative_at q f 0 1 + nth 1 b 0 * derivative_at q f 0 2 + nth 2 b 0 * derivative_at q f 1 3) mod q = 11.
Proof.
  cbv zeta. eexists. eexists.
  split; [vm_compute; reflexivity|].
  split; [vm_compute; reflexivity|].
  split; [vm_compute; reflexivity|].
  vm_compute. reflexivity.
Qed.
