(** C11 for the in-memory relay (crates/sl-mpc-mate/src/coord/simple.rs).

    Model/Relay.v (C15/C16) is a total step function with NO panic outcome: it decides what to do with a
    frame by [hdr_ok] / length tests.  Model/Panic.v has the panic-aware frame classification (every slice,
    `try_into().unwrap()` and `assert` of MsgHdr / start_send / Inner::send as an explicit [Panic] site).
    This file joins the two:
      - [classify_start_send_spec], [classify_relay_send_spec]: the panic-aware classification computes exactly
        the case split, message id and TTL that [Relay.step] uses;
      - [step_locked]: the relay step with the mutex made explicit -- `lock().unwrap()` panics (site P_LOCK) when
        the mutex is poisoned, and a panic inside a critical section poisons it;
      - [run_locked_spec]: over EVERY history of operations (frames of any length and content, through the Sink
        path and through SimpleMessageRelay::send, drains, messages()) no step panics, the mutex is never
        poisoned, and states and observations are those of [Relay.exec] / [Relay.trace]. *)
From SL Require Import Lib.Base Gen.Params Model.Relay.
From SL Require Model.Panic Proofs.Panic.
Local Open Scope N_scope.

Lemma pr_HDR_eq : Panic.HDR = HDR_SIZE. Proof. reflexivity. Qed.
Lemma pr_HDR_val : HDR_SIZE = 36%nat. Proof. reflexivity. Qed.
Lemma pr_ID_val : ID_SIZE = 32%nat. Proof. reflexivity. Qed.

(** the accessors of Model/Panic.v on a 36-byte header, as values *)
Lemma pr_hdr_id_val h : length h = 36%nat -> Panic.hdr_id h = Val (firstn 32 h).
Proof.
  intros L. unfold Panic.hdr_id. rewrite Panic.IDSZ_val.
  rewrite Panic.slice_ok by lia. cbn [obind Nat.sub skipn].
  rewrite firstn_length, L. reflexivity.
Qed.

Lemma pr_hdr_ttl_val h : length h = 36%nat -> Panic.hdr_ttl h = Val (of_le (firstn 2 (skipn 32 h))).
Proof.
  intros L. unfold Panic.hdr_ttl. rewrite Panic.IDSZ_val.
  rewrite Panic.slice_ok by lia. cbn [obind]. rewrite L.
  rewrite Panic.slice_ok; [|lia|rewrite firstn_length, skipn_length; lia].
  cbn [obind]. rewrite skipn_O, Nat.sub_0_r, firstn_firstn.
  change (Nat.min 2 (36 - 32)) with 2%nat.
  rewrite firstn_length, skipn_length, L. reflexivity.
Qed.

Lemma pr_firstn36 (f : list N) : (36 <= length f)%nat ->
  firstn 32 (firstn 36 f) = firstn 32 f /\ firstn 2 (skipn 32 (firstn 36 f)) = firstn 2 (skipn 32 f).
Proof.
  intros L. split.
  - rewrite firstn_firstn. reflexivity.
  - rewrite skipn_firstn_comm. rewrite firstn_firstn. reflexivity.
Qed.

(** Sink::start_send: the panic-aware classification IS the case split of [Relay.step], with the id and TTL
    that [Relay.step] reads *)
Lemma classify_start_send_spec f :
  Panic.classify_start_send f =
    if negb (hdr_ok f) then Val Panic.FShort
    else if Nat.eqb (length f) HDR_SIZE then Val (Panic.FAsk (hdr_id f) (hdr_ttl_secs f))
    else Val (Panic.FPublish (hdr_id f) (hdr_ttl_secs f)).
Proof.
  unfold Panic.classify_start_send, Panic.msghdr_try_from, hdr_ok. rewrite pr_HDR_eq.
  destruct (Nat.leb_spec HDR_SIZE (length f)) as [L|L]; cbn [negb]; [|reflexivity].
  rewrite pr_HDR_val in *.
  assert (L36 : length (firstn 36 f) = 36%nat) by (rewrite firstn_length; lia).
  rewrite (pr_hdr_id_val _ L36), (pr_hdr_ttl_val _ L36). cbn [obind].
  destruct (pr_firstn36 f L) as [-> ->]. unfold hdr_id, hdr_ttl_secs. rewrite pr_ID_val. reflexivity.
Qed.

(** SimpleMessageRelay::send -> Inner::send *)
Lemma classify_relay_send_spec f :
  Panic.classify_relay_send f =
    if Nat.leb (length f) HDR_SIZE then Val Panic.FShort
    else Val (Panic.FPublish (hdr_id f) (hdr_ttl_secs f)).
Proof.
  unfold Panic.classify_relay_send, Panic.msghdr_try_from. rewrite pr_HDR_eq.
  destruct (Nat.leb_spec (length f) HDR_SIZE) as [L|L]; [reflexivity|].
  destruct (Nat.leb_spec HDR_SIZE (length f)) as [L2|L2]; [|lia].
  rewrite pr_HDR_val in *.
  assert (L36 : length (firstn 36 f) = 36%nat) by (rewrite firstn_length; lia).
  rewrite (pr_hdr_id_val _ L36), (pr_hdr_ttl_val _ L36). cbn [obind].
  destruct (pr_firstn36 f L2) as [-> ->]. unfold hdr_id, hdr_ttl_secs. rewrite pr_ID_val. reflexivity.
Qed.

(** ** the relay with its mutex *)
Definition P_LOCK : N := 30.        (* `self.inner.lock().unwrap()` on a poisoned mutex *)

Record lrelay := mkL { poisoned : bool; inner : state }.

(** a critical section: a panic while the guard is alive poisons the mutex *)
Definition under_lock {A} (r : lrelay) (body : state -> outcome (state * A)) : lrelay * outcome A :=
  if poisoned r then (r, Panic P_LOCK)
  else match body (inner r) with
       | Val (s', a) => (mkL false s', Val a)
       | Err e => (r, Err e)
       | Panic k => (mkL true (inner r), Panic k)
       end.

(** Inner::send with its panic sites (length test, try_into().unwrap(), hdr.ttl(), hdr.id()) *)
Definition inner_send_checked (f : frame) (t : time) (s : state) : outcome state :=
  obind (Panic.classify_relay_send f) (fun cl =>
    match cl with
    | Panic.FShort => Val s
    | _ => Val (inner_send f t s)
    end).

Definition step_locked (r : lrelay) (o : op) : lrelay * outcome (list obs) :=
  match o with
  | OSend c f t =>
      match Panic.msghdr_try_from f with
      | Err _ => (r, Val [ObsSend false])                    (* map_err(|_| MessageSendError)?, before lock() *)
      | Panic k => (r, Panic k)
      | Val _ =>
          under_lock r (fun s =>
            obind (Panic.classify_start_send f) (fun cl =>
              match cl with
              | Panic.FShort => Val (s, [ObsSend false])
              | Panic.FAsk id ttl => Val (inner_recv c id (ttl * NANOS) t s, [ObsSend true])
              | Panic.FPublish _ _ => obind (inner_send_checked f t s) (fun s' => Val (s', [ObsSend true]))
              end))
      end
  | ORelaySend f t => under_lock r (fun s => obind (inner_send_checked f t s) (fun s' => Val (s', [])))
  | ODrain c => (mkL (poisoned r) (fst (step (inner r) o)), Val (snd (step (inner r) o)))   (* poll_next: no lock *)
  | OMessages => under_lock r (fun s => Val (step s OMessages))
  end.

Fixpoint run_locked (r : lrelay) (h : list op) : lrelay * list (outcome (list obs)) :=
  match h with
  | [] => (r, [])
  | o :: rest =>
      let '(r1, x) := step_locked r o in
      let '(r2, xs) := run_locked r1 rest in
      (r2, x :: xs)
  end.

Lemma inner_send_checked_val f t s : inner_send_checked f t s = Val (inner_send f t s).
Proof.
  unfold inner_send_checked. rewrite classify_relay_send_spec. unfold inner_send.
  destruct (Nat.leb (length f) HDR_SIZE); reflexivity.
Qed.

(** one step from an unpoisoned relay: no panic, still unpoisoned, state and observations of [Relay.step] *)
Lemma step_locked_spec s o : step_locked (mkL false s) o = (mkL false (fst (step s o)), Val (snd (step s o))).
Proof.
  destruct o as [c f t|f t|c|]; cbn [step_locked step].
  - pose proof (classify_start_send_spec f) as C. unfold Panic.msghdr_try_from, hdr_ok in *.
    rewrite pr_HDR_eq. destruct (Nat.leb HDR_SIZE (length f)); cbn [negb] in *; [|reflexivity].
    unfold under_lock. cbn [poisoned inner]. rewrite C.
    destruct (Nat.eqb (length f) HDR_SIZE); cbn [obind].
    + unfold hdr_ttl. reflexivity.
    + rewrite inner_send_checked_val. reflexivity.
  - unfold under_lock. cbn [poisoned inner]. rewrite inner_send_checked_val. reflexivity.
  - reflexivity.
  - reflexivity.
Qed.

(** every history *)
Lemma run_locked_spec : forall h s,
  run_locked (mkL false s) h = (mkL false (exec s h), map Val (trace s h)).
Proof.
  induction h as [|o r IH]; intros s; [reflexivity|].
  cbn [run_locked]. rewrite step_locked_spec, IH. reflexivity.
Qed.

Lemma relay_history_no_panic h s :
  poisoned (fst (run_locked (mkL false s) h)) = false /\
  Forall (fun x => is_panic x = false) (snd (run_locked (mkL false s) h)).
Proof.
  rewrite run_locked_spec. split; [reflexivity|].
  cbn [snd]. induction (trace s h); constructor; [reflexivity|assumption].
Qed.

(** the lock model is not vacuous: once poisoned, every later locking call panics (what F6 looked like) *)
Lemma poisoned_is_fatal s f t :
  snd (step_locked (mkL true s) (ORelaySend f t)) = Panic P_LOCK /\
  snd (step_locked (mkL true s) OMessages) = Panic P_LOCK.
Proof. split; reflexivity. Qed.

Lemma under_lock_poisons {A} s (body : state -> outcome (state * A)) k :
  body s = Panic k -> under_lock (mkL false s) body = (mkL true s, Panic k).
Proof. intros E. unfold under_lock. cbn [poisoned inner]. rewrite E. reflexivity. Qed.
