From SL Require Import Lib.Base Gen.Params Model.Panic.
Local Open Scope N_scope.

Lemma HDR_val : HDR = 36%nat. Proof. reflexivity. Qed.
Lemma IDSZ_val : IDSZ = 32%nat. Proof. reflexivity. Qed.

Lemma slice_ok site l a b : (a <= b)%nat -> (b <= length l)%nat ->
  slice site l a b = Val (firstn (b - a) (skipn a l)).
Proof.
  intros H1 H2. unfold slice.
  destruct (Nat.leb_spec a b); [|lia]. destruct (Nat.leb_spec b (length l)); [|lia]. reflexivity.
Qed.

Lemma len_slice (l : list N) a b : (a <= b)%nat -> (b <= length l)%nat -> length (firstn (b - a) (skipn a l)) = (b - a)%nat.
Proof. intros. rewrite firstn_length, skipn_length. lia. Qed.

Lemma msghdr_try_from_total frame : is_panic (msghdr_try_from frame) = false.
Proof. unfold msghdr_try_from. destruct (Nat.leb HDR (length frame)); reflexivity. Qed.

Lemma msghdr_try_from_len frame h : msghdr_try_from frame = Val h -> length h = 36%nat.
Proof.
  unfold msghdr_try_from. destruct (Nat.leb_spec HDR (length frame)) as [L|L]; [|discriminate].
  intros E. assert (E2 : h = firstn HDR frame) by congruence. subst h.
  rewrite firstn_length. rewrite HDR_val in *. lia.
Qed.

Lemma slice_val site (l : list N) a b : (a <= b)%nat -> (b <= length l)%nat ->
  exists s, slice site l a b = Val s /\ length s = (b - a)%nat.
Proof.
  intros H1 H2. rewrite slice_ok by assumption. eexists. split; [reflexivity|]. apply len_slice; assumption.
Qed.

Lemma hdr_id_total h : length h = 36%nat -> exists id, hdr_id h = Val id /\ length id = 32%nat.
Proof.
  intros L. unfold hdr_id. rewrite IDSZ_val.
  destruct (slice_val 11 h 0 32) as [s [-> Ls]]; [lia|lia|]. cbn [obind].
  replace (length s) with 32%nat by lia. cbn [Nat.eqb]. exists s. split; [reflexivity|lia].
Qed.

Lemma hdr_ttl_total h : length h = 36%nat -> exists t, hdr_ttl h = Val t.
Proof.
  intros L. unfold hdr_ttl. rewrite IDSZ_val.
  destruct (slice_val 13 h 32 (length h)) as [r [-> Lr]]; [lia|lia|]. cbn [obind].
  destruct (slice_val 14 r 0 2) as [s [-> Ls]]; [lia|lia|]. cbn [obind].
  replace (length s) with 2%nat by lia. cbn [Nat.eqb]. eexists. reflexivity.
Qed.

Lemma hdr_flags_total h : length h = 36%nat -> exists t, hdr_flags h = Val t.
Proof.
  intros L. unfold hdr_flags. rewrite IDSZ_val.
  destruct (slice_val 16 h 32 (length h)) as [r [-> Lr]]; [lia|lia|]. cbn [obind].
  destruct (slice_val 17 r 2 (length r)) as [s [-> Ls]]; [lia|lia|]. cbn [obind].
  replace (length s) with 2%nat by lia. cbn [Nat.eqb]. eexists. reflexivity.
Qed.

(** No frame whatsoever makes the Sink path panic. *)
Lemma classify_start_send_total frame : is_panic (classify_start_send frame) = false.
Proof.
  unfold classify_start_send. destruct (msghdr_try_from frame) as [h| |s] eqn:E.
  - apply msghdr_try_from_len in E.
    destruct (hdr_id_total h E) as [id [-> _]]. destruct (hdr_ttl_total h E) as [t ->]. cbn [obind].
    destruct (Nat.eqb (length frame) HDR); reflexivity.
  - reflexivity.
  - pose proof (msghdr_try_from_total frame) as T. rewrite E in T. discriminate.
Qed.

(** No frame whatsoever makes SimpleMessageRelay::send panic (so the relay lock is never poisoned by it). *)
Lemma classify_relay_send_total frame : is_panic (classify_relay_send frame) = false.
Proof.
  unfold classify_relay_send. destruct (Nat.leb_spec (length frame) HDR) as [L|L]; [reflexivity|].
  unfold msghdr_try_from at 1. destruct (Nat.leb_spec HDR (length frame)) as [L2|L2]; [|lia].
  assert (E : length (firstn HDR frame) = 36%nat) by (rewrite firstn_length, HDR_val in *; lia).
  destruct (hdr_id_total _ E) as [id [-> _]]. destruct (hdr_ttl_total _ E) as [t ->]. reflexivity.
Qed.
