(** C06, one GGM tree: what sender and receiver compute level by level, for every oracle. *)
From SL Require Import Lib.Base Lib.Oracle Gen.Params Model.Pprf Proofs.PprfBytes.
Local Open Scope nat_scope.

(* ------------------------------------------------------------------ generic list facts *)
Lemma map_nth_seq {A B} (g : A -> B) (l : list A) d :
  map (fun y => g (nth y l d)) (seq 0 (length l)) = map g l.
Proof.
  induction l as [|x l IH]; [reflexivity|].
  cbn [length]. rewrite <- cons_seq, <- seq_shift. cbn [map nth]. f_equal.
  rewrite map_map. exact IH.
Qed.

Lemma div2_decomp z : z = 2 * (z / 2) + z mod 2 /\ z mod 2 < 2.
Proof. split; [apply Nat.div_mod; lia | apply Nat.mod_upper_bound; lia]. Qed.

Lemma bit_nat_lt c : bit_nat c < 2.
Proof. destruct c; cbn; lia. Qed.
Lemma bit_nat_negb c : bit_nat (negb c) <> bit_nat c.
Proof. destruct c; cbn; lia. Qed.
Lemma bit_nat_two b c : b < 2 -> b <> bit_nat c -> b = bit_nat (negb c).
Proof. destruct c; cbn; lia. Qed.

Lemma nth_firstn_lt {A} i n (l : list A) d : i < n -> nth i (firstn n l) d = nth i l d.
Proof.
  revert i l. induction n as [|n IH]; intros i l Hi; [lia|].
  destruct l as [|x l]; [destruct i; reflexivity|]. destruct i; cbn; [reflexivity|]. apply IH. lia.
Qed.

Lemma nth_skipn_add {A} i n (l : list A) d : nth i (skipn n l) d = nth (n + i) l d.
Proof.
  revert l. induction n as [|n IH]; intros l; [reflexivity|].
  destruct l as [|x l]; [destruct i; reflexivity|]. cbn. apply IH.
Qed.

Section Tree.
  Variable H : transcript_oracle.
  Variable sid : bytes.

  Notation gl := (ggm_left H sid).
  Notation gr := (ggm_right H sid).
  Notation P := (leaf_proof H sid).

  (** child b x : the b-th child seed of x *)
  Definition child (b : nat) (x : bytes) : bytes := if Nat.eqb b 0 then gl x else gr x.

  Lemma child_length b x : length (child b x) = LB.
  Proof. unfold child, ggm_left, ggm_right. destruct (Nat.eqb b 0); apply fit_length. Qed.
  Lemma P_length x : length (P x) = LB2.
  Proof. apply fit_length. Qed.

  (* ---------------------------------------------------------------- sender *)
  Lemma expand_cons x s : expand H sid (x :: s) = gl x :: gr x :: expand H sid s.
  Proof. reflexivity. Qed.

  Lemma expand_length s : length (expand H sid s) = 2 * length s.
  Proof. induction s as [|x s IH]; [reflexivity|]. rewrite expand_cons. cbn [length]. lia. Qed.

  Lemma nth_expand s y b : y < length s -> b < 2 ->
    nth (2 * y + b) (expand H sid s) [] = child b (nth y s []).
  Proof.
    revert y. induction s as [|x s IH]; intros y Hy Hb; [cbn in Hy; lia|].
    rewrite expand_cons. destruct y as [|y].
    - destruct b as [|[|b]]; [reflexivity|reflexivity|lia].
    - replace (2 * S y + b) with (S (S (2 * y + b))) by lia. cbn [nth]. apply IH; [cbn in Hy; lia|assumption].
  Qed.

  Lemma evens_expand s : evens (expand H sid s) = map (child 0) s.
  Proof. induction s as [|x s IH]; [reflexivity|]. rewrite expand_cons. cbn [evens map]. f_equal. exact IH. Qed.
  Lemma odds_expand s : odds (expand H sid s) = map (child 1) s.
  Proof. induction s as [|x s IH]; [reflexivity|]. rewrite expand_cons. cbn [odds map]. f_equal. exact IH. Qed.

  Lemma all_len_map_child b s : all_len LB (map (child b) s).
  Proof. apply Forall_forall. intros x Hx. apply in_map_iff in Hx. destruct Hx as [z [<- _]]. apply child_length. Qed.
  Lemma all_len_map_P s : all_len LB2 (map P s).
  Proof. apply Forall_forall. intros x Hx. apply in_map_iff in Hx. destruct Hx as [z [<- _]]. apply P_length. Qed.

  (** the sender's correction word of side b at a level whose parent seeds are s *)
  Definition corr_word (b : nat) (s : list bytes) (r : bytes) : bytes :=
    bxor (fit LB r) (xsum LB (map (child b) s)).

  Lemma build_levels_cons s r0 r1 ks :
    build_levels H sid s ((r0, r1) :: ks) =
    (fst (build_levels H sid (expand H sid s) ks),
     (corr_word 0 s r0, corr_word 1 s r1) :: snd (build_levels H sid (expand H sid s) ks)).
  Proof.
    cbn [build_levels]. destruct (build_levels H sid (expand H sid s) ks) as [lv ts]. cbn [fst snd].
    rewrite evens_expand, odds_expand.
    rewrite (fold_left_bxor LB) by (try apply all_len_map_child; apply fit_length).
    rewrite (fold_left_bxor LB) by (try apply all_len_map_child; apply fit_length).
    reflexivity.
  Qed.

  (* ---------------------------------------------------------------- receiver, one level *)
  Definition recv_F (ystar : nat) (ysy : nat * bytes) : list bytes :=
    let (y, sy) := ysy in if Nat.eqb y ystar then [zeros LB; zeros LB] else [gl sy; gr sy].

  Lemma children_length ystar s k : length (flat_map (recv_F ystar) (combine (seq k (length s)) s)) = 2 * length s.
  Proof.
    revert k. induction s as [|x s IH]; intros k; [reflexivity|].
    cbn [length seq combine flat_map]. rewrite app_length, IH.
    unfold recv_F. destruct (Nat.eqb k ystar); cbn [length]; lia.
  Qed.

  Lemma nth_children ystar s k y b d : y < length s -> b < 2 ->
    nth (2 * y + b) (flat_map (recv_F ystar) (combine (seq k (length s)) s)) d =
    if Nat.eqb (k + y) ystar then zeros LB else child b (nth y s []).
  Proof.
    revert k y. induction s as [|x s IH]; intros k y Hy Hb; [cbn in Hy; lia|].
    cbn [length seq combine flat_map]. destruct y as [|y].
    - rewrite Nat.add_0_r. cbn [nth Nat.mul Nat.add]. unfold recv_F at 1.
      destruct (Nat.eqb k ystar); destruct b as [|[|b]]; try lia; reflexivity.
    - replace (2 * S y + b) with (2 + (2 * y + b)) by lia.
      rewrite app_nth2; [|unfold recv_F; destruct (Nat.eqb k ystar); cbn [length]; lia].
      replace (length (recv_F ystar (k, x))) with 2 by (unfold recv_F; destruct (Nat.eqb k ystar); reflexivity).
      replace (2 + (2 * y + b) - 2) with (2 * y + b) by lia.
      rewrite IH by (cbn in Hy; lia || assumption). replace (S k + y) with (k + S y) by lia. reflexivity.
  Qed.

  (** the value the receiver stores at index 2*ystar + ct_x *)
  Definition level_acc (s : list bytes) (ystar : nat) (c : bool) (tw : bytes * bytes) (F : bytes) : bytes :=
    skip_fold (fun y => child (bit_nat c) (nth y s [])) ystar (seq 0 (length s))
              (bxor (fit LB (sel c tw)) (fit LB F)).

  Lemma level_acc_length s ystar c tw F : length (level_acc s ystar c tw F) = LB.
  Proof.
    unfold level_acc. apply skip_fold_length.
    - intros. apply child_length.
    - apply bxor_length; apply fit_length.
  Qed.

  Lemma eval_level_spec s ystar c tw F :
    ystar < length s ->
    let r := eval_level H sid s ystar c tw F in
    snd r = 2 * ystar + bit_nat (negb c) /\
    length (fst r) = 2 * length s /\
    forall y b, y < length s -> b < 2 ->
      nth (2 * y + b) (fst r) [] =
      if Nat.eqb y ystar then (if Nat.eqb b (bit_nat c) then level_acc s ystar c tw F else zeros LB)
      else child b (nth y s []).
  Proof.
    intros Hys. unfold eval_level. fold (recv_F ystar).
    set (s1 := flat_map (recv_F ystar) (combine (seq 0 (length s)) s)).
    cbn [fst snd]. split; [reflexivity|]. split.
    - rewrite upd_length. apply children_length.
    - assert (Hacc : fold_left (fun a y => if Nat.eqb y ystar then a else bxor a (nth (2 * y + bit_nat c) s1 (zeros LB)))
                       (seq 0 (length s)) (bxor (fit LB (sel c tw)) (fit LB F)) = level_acc s ystar c tw F).
      { unfold level_acc. apply skip_fold_ext. intros y Hin Hne. apply in_seq in Hin.
        unfold s1. rewrite nth_children by (try apply bit_nat_lt; lia).
        cbn [Nat.add]. destruct (Nat.eqb_spec y ystar); [contradiction|reflexivity]. }
      rewrite Hacc. intros y b Hy Hb.
      destruct (Nat.eqb_spec y ystar) as [->|Hne].
      + destruct (Nat.eqb_spec b (bit_nat c)) as [->|Hbc].
        * apply nth_upd_same. unfold s1. rewrite children_length. pose proof (bit_nat_lt c). lia.
        * rewrite nth_upd_other by lia. unfold s1. rewrite nth_children by assumption.
          cbn [Nat.add]. rewrite Nat.eqb_refl. reflexivity.
      + rewrite nth_upd_other by (pose proof (bit_nat_lt c); lia).
        unfold s1. rewrite nth_children by assumption. cbn [Nat.add].
        destruct (Nat.eqb_spec y ystar); [contradiction|reflexivity].
  Qed.

  (* ---------------------------------------------------------------- the invariant *)
  (** the receiver's level state agrees with the sender's except at ystar, where it is all-zero *)
  Definition agree (s sr : list bytes) (ystar : nat) : Prop :=
    length sr = length s /\ ystar < length s /\ nth ystar sr [] = zeros LB /\
    forall y, y < length s -> y <> ystar -> nth y sr [] = nth y s [].

  Lemma level_acc_honest s sr ystar c r0 r1 F :
    agree s sr ystar -> fit LB F = fit LB (sel c (r0, r1)) ->
    level_acc sr ystar c (corr_word 0 s r0, corr_word 1 s r1) F = child (bit_nat c) (nth ystar s []).
  Proof.
    intros [Hlen [Hys [Hz Hag]]] HF. unfold level_acc. rewrite Hlen.
    rewrite (skip_fold_ext _ (fun y => child (bit_nat c) (nth y s []))).
    2:{ intros y Hin Hne. apply in_seq in Hin. rewrite Hag by lia. reflexivity. }
    rewrite (skip_fold_in LB).
    - rewrite (map_nth_seq (child (bit_nat c)) s []).
      assert (Hw : fit LB (sel c (corr_word 0 s r0, corr_word 1 s r1)) = bxor (fit LB F) (xsum LB (map (child (bit_nat c)) s))).
      { rewrite HF. destruct c; cbn [sel fst snd bit_nat]; apply fit_id; unfold corr_word;
          (apply bxor_length; [apply fit_length | apply xsum_length, all_len_map_child]). }
      rewrite Hw.
      set (R := fit LB F). set (X := xsum LB (map (child (bit_nat c)) s)). set (Y := child (bit_nat c) (nth ystar s [])).
      assert (HR : length R = LB) by apply fit_length.
      assert (HX : length X = LB) by (apply xsum_length, all_len_map_child).
      assert (HY : length Y = LB) by apply child_length.
      rewrite (bxor_comm R X), (bxor_cancel_r X R LB HX HR). apply (bxor_cancel_l Y X LB HY HX).
    - apply seq_NoDup.
    - apply in_seq. lia.
    - intros. apply child_length.
    - apply bxor_length; apply fit_length.
  Qed.

  Lemma eval_level_honest s sr ystar c r0 r1 F :
    agree s sr ystar -> fit LB F = fit LB (sel c (r0, r1)) ->
    let r := eval_level H sid sr ystar c (corr_word 0 s r0, corr_word 1 s r1) F in
    agree (expand H sid s) (fst r) (snd r) /\ snd r = 2 * ystar + bit_nat (negb c).
  Proof.
    intros Hag HF. pose proof Hag as [Hlen [Hys [Hz Heq]]].
    assert (Hys' : ystar < length sr) by lia.
    destruct (eval_level_spec sr ystar c (corr_word 0 s r0, corr_word 1 s r1) F Hys') as [Hy' [Hl' Hn']].
    cbv zeta. split; [|exact Hy'].
    set (r := eval_level H sid sr ystar c (corr_word 0 s r0, corr_word 1 s r1) F) in *.
    unfold agree. rewrite expand_length, Hl', Hy', Hlen.
    pose proof (bit_nat_lt (negb c)) as Hxi. pose proof (bit_nat_negb c) as Hneq.
    split; [reflexivity|]. split; [lia|]. split.
    - rewrite Hn' by lia. rewrite Nat.eqb_refl.
      destruct (Nat.eqb_spec (bit_nat (negb c)) (bit_nat c)); [contradiction|reflexivity].
    - intros z Hz' Hne. destruct (div2_decomp z) as [Hdec Hb]. rewrite Hdec.
      rewrite Hn' by lia. rewrite nth_expand by lia.
      destruct (Nat.eqb_spec (z / 2) ystar) as [Ey|Ney].
      + assert (Hbc : z mod 2 = bit_nat c).
        { destruct (Nat.eq_dec (z mod 2) (bit_nat c)) as [E|NE]; [exact E|].
          exfalso. apply Hne. rewrite Hdec, Ey. f_equal. apply bit_nat_two; assumption. }
        rewrite Hbc, Nat.eqb_refl, Ey. apply level_acc_honest; assumption.
      + rewrite Heq by lia. reflexivity.
  Qed.

  (* ---------------------------------------------------------------- all levels *)
  (** per-instance consistency of the base OTs of one tree: received key = rho_c *)
  Fixpoint okeys (ks : list (bytes * bytes)) (cs : list bool) (fs : list bytes) : Prop :=
    match ks, cs, fs with
    | [], [], [] => True
    | k :: ks', c :: cs', f :: fs' => f = sel c k /\ okeys ks' cs' fs'
    | _, _, _ => False
    end.

  (** y* <- 2 y* + (1 xor choice bit) *)
  Definition ystar_step (a : nat) (c : bool) : nat := 2 * a + bit_nat (negb c).
  Definition ystar_from (y0 : nat) (cs : list bool) : nat := fold_left ystar_step cs y0.
  Definition ystar_of_bits (cs : list bool) : nat := ystar_from 0 cs.

  Lemma eval_levels_honest ks : forall cs fs s sr ystar,
    okeys ks cs fs -> agree s sr ystar ->
    let b := build_levels H sid s ks in
    let r := eval_levels H sid sr ystar cs fs (snd b) in
    agree (fst b) (fst r) (snd r) /\ snd r = ystar_from ystar cs /\ length (fst b) = length s * 2 ^ length ks.
  Proof.
    induction ks as [|[r0 r1] ks IH]; intros cs fs s sr ystar Hok Hag.
    - destruct cs, fs; cbn in Hok; try contradiction. cbn. repeat split; try apply Hag; lia.
    - destruct cs as [|c cs], fs as [|f fs]; cbn in Hok; try contradiction. destruct Hok as [Hf Hok].
      cbv zeta. rewrite build_levels_cons. cbn [fst snd eval_levels hd tl].
      assert (HF : fit LB f = fit LB (sel c (r0, r1))) by (rewrite Hf; reflexivity).
      destruct (eval_level_honest s sr ystar c r0 r1 f Hag HF) as [Hag' Hy'].
      destruct (eval_level H sid sr ystar c (corr_word 0 s r0, corr_word 1 s r1) f) as [s' y'].
      cbn [fst snd] in *.
      destruct (IH cs fs (expand H sid s) s' y' Hok Hag') as [A [B C]].
      split; [exact A|]. split.
      + rewrite B, Hy'. reflexivity.
      + rewrite C, expand_length. cbn [length Nat.pow]. lia.
  Qed.

  (* ---------------------------------------------------------------- the proof values *)
  Definition view_F (ystar : nat) (ysy : nat * bytes) : bytes :=
    let (y, sy) := ysy in if Nat.eqb y ystar then zeros LB2 else P sy.

  Lemma nth_view_map ystar s k y d : y < length s ->
    nth y (map (view_F ystar) (combine (seq k (length s)) s)) d =
    if Nat.eqb (k + y) ystar then zeros LB2 else P (nth y s []).
  Proof.
    revert k y. induction s as [|x s IH]; intros k y Hy; [cbn in Hy; lia|].
    cbn [length seq combine map]. destruct y as [|y].
    - rewrite Nat.add_0_r. reflexivity.
    - cbn [nth]. rewrite IH by (cbn in Hy; lia). replace (S k + y) with (k + S y) by lia. reflexivity.
  Qed.

  (** the value the verifier puts into slot ystar *)
  Definition view_acc (s : list bytes) (ystar : nat) (tt : bytes) : bytes :=
    skip_fold (fun y => P (nth y s [])) ystar (seq 0 (length s)) (fit LB2 tt).

  Lemma proof_view_spec s ystar tt : ystar < length s ->
    length (proof_view H sid s ystar tt) = length s /\
    forall y, y < length s ->
      nth y (proof_view H sid s ystar tt) [] = if Nat.eqb y ystar then view_acc s ystar tt else P (nth y s []).
  Proof.
    intros Hys. unfold proof_view. fold (view_F ystar).
    set (ps := map (view_F ystar) (combine (seq 0 (length s)) s)).
    assert (Hlps : length ps = length s).
    { unfold ps. rewrite map_length, combine_length, seq_length. lia. }
    split; [rewrite upd_length; exact Hlps|].
    assert (Hacc : fold_left (fun a y => if Nat.eqb y ystar then a else bxor a (nth y ps (zeros LB2)))
                     (seq 0 (length s)) (fit LB2 tt) = view_acc s ystar tt).
    { unfold view_acc. apply skip_fold_ext. intros y Hin Hne. apply in_seq in Hin.
      unfold ps. rewrite nth_view_map by lia. cbn [Nat.add].
      destruct (Nat.eqb_spec y ystar); [contradiction|reflexivity]. }
    rewrite Hacc. intros y Hy. destruct (Nat.eqb_spec y ystar) as [->|Hne].
    - apply nth_upd_same. lia.
    - rewrite nth_upd_other by lia. unfold ps. rewrite nth_view_map by assumption. cbn [Nat.add].
      destruct (Nat.eqb_spec y ystar); [contradiction|reflexivity].
  Qed.

  Lemma view_acc_length s ystar tt : length (view_acc s ystar tt) = LB2.
  Proof. unfold view_acc. apply skip_fold_length; [intros; apply P_length|apply fit_length]. Qed.

  Lemma proof_view_honest leaves sr ystar tt0 :
    agree leaves sr ystar -> fit LB2 tt0 = zeros LB2 ->
    proof_view H sid sr ystar (fold_left bxor (map P leaves) (fit LB2 tt0)) = map P leaves.
  Proof.
    intros [Hlen [Hys [Hz Heq]]] Htt.
    assert (Hys' : ystar < length sr) by lia.
    destruct (proof_view_spec sr ystar (fold_left bxor (map P leaves) (fit LB2 tt0)) Hys') as [Hl Hn].
    apply (nth_ext_d []); [rewrite Hl, map_length; exact Hlen|].
    intros y Hy. rewrite Hl in Hy. rewrite Hn by assumption.
    assert (HX : length (xsum LB2 (map P leaves)) = LB2) by (apply xsum_length, all_len_map_P).
    assert (Hnm : forall z, nth z (map P leaves) [] = if Nat.ltb z (length leaves) then P (nth z leaves []) else []).
    { intros z. destruct (Nat.ltb_spec z (length leaves)) as [Hlt|Hge].
      - rewrite (nth_indep _ [] (P [])) by (rewrite map_length; exact Hlt). apply map_nth.
      - apply nth_overflow. rewrite map_length. exact Hge. }
    rewrite Hnm. destruct (Nat.ltb_spec y (length leaves)) as [_|Hge]; [|lia].
    destruct (Nat.eqb_spec y ystar) as [->|Hne]; [|rewrite Heq by lia; reflexivity].
    unfold view_acc. rewrite Hlen.
    rewrite (skip_fold_ext _ (fun y => P (nth y leaves []))).
    2:{ intros z Hin Hne. apply in_seq in Hin. rewrite Heq by lia. reflexivity. }
    rewrite (skip_fold_in LB2).
    - rewrite (map_nth_seq P leaves []).
      rewrite (fold_left_bxor LB2) by (try apply all_len_map_P; apply fit_length).
      rewrite Htt, (bxor_zeros_l _ LB2 HX), (fit_id LB2 _ HX).
      apply (bxor_cancel_l _ _ LB2); [apply P_length|exact HX].
    - apply seq_NoDup.
    - apply in_seq. lia.
    - intros. apply P_length.
    - apply fit_length.
  Qed.

  (* ---------------------------------------------------------------- one tree, honest *)
  Lemma eval_tree_core_set_s_tilda cs fs v m :
    eval_tree_core H sid cs fs (set_s_tilda v m) = eval_tree_core H sid cs fs m.
  Proof. reflexivity. Qed.

  (** what an accepted tree result must satisfy *)
  Definition tree_res_ok (leaves : list bytes) (cs : list bool) (res : nat * list bytes) : Prop :=
    fst res = ystar_of_bits cs /\ agree leaves (snd res) (fst res) /\ length leaves = 2 ^ length cs.

  Lemma agree_level0 k0 c0 f0 : f0 = sel c0 k0 ->
    agree [fit LB (fst k0); fit LB (snd k0)]
          (if c0 then [zeros LB; fit LB f0] else [fit LB f0; zeros LB]) (bit_nat (negb c0)).
  Proof.
    intros ->. destruct c0; cbn [sel negb bit_nat]; unfold agree; cbn [length nth];
      (split; [reflexivity|]; split; [lia|]; split; [reflexivity|]);
      intros y Hy Hne; destruct y as [|[|y]]; try lia; reflexivity.
  Qed.

  Lemma okeys_length ks : forall cs fs, okeys ks cs fs -> length cs = length ks /\ length fs = length ks.
  Proof.
    induction ks as [|k ks IH]; intros [|c cs] [|f fs] Hok; cbn in Hok; try contradiction; [split; reflexivity|].
    destruct Hok as [_ Hok]. destruct (IH _ _ Hok). cbn [length]. lia.
  Qed.

  Lemma eval_tree_core_honest ks cs fs tt0 :
    okeys ks cs fs -> ks <> [] -> fit LB2 tt0 = zeros LB2 ->
    let b := build_tree H sid ks tt0 in
    let r := eval_tree_core H sid cs fs (snd b) in
    tree_res_ok (fst b) cs (fst (fst r), snd (fst r)) /\ snd r = p_s_tilda (snd b).
  Proof.
    intros Hok Hne Htt.
    destruct ks as [|k0 ks]; [contradiction|].
    destruct cs as [|c0 cs], fs as [|f0 fs]; cbn in Hok; try contradiction. destruct Hok as [Hf0 Hok].
    cbv zeta. unfold build_tree, eval_tree_core. cbn [hd tl].
    pose proof (agree_level0 k0 c0 f0 Hf0) as Hag0.
    pose proof (eval_levels_honest ks cs fs _ _ _ Hok Hag0) as HL. cbv zeta in HL.
    destruct (build_levels H sid [fit LB (fst k0); fit LB (snd k0)] ks) as [leaves ts].
    cbn [fst snd p_t p_t_tilda p_s_tilda] in *.
    destruct (eval_levels H sid (if c0 then [zeros LB; fit LB f0] else [fit LB f0; zeros LB])
                (bit_nat (negb c0)) cs fs ts) as [srf yf].
    cbn [fst snd] in *. destruct HL as [Hag [Hy Hlen]].
    split.
    - unfold tree_res_ok. cbn [fst snd]. split; [|split].
      + rewrite Hy. unfold ystar_of_bits, ystar_from. cbn [fold_left]. unfold ystar_step at 2. reflexivity.
      + exact Hag.
      + rewrite Hlen. destruct (okeys_length _ _ _ Hok) as [E _]. cbn [length Nat.pow]. rewrite E. lia.
    - rewrite (proof_view_honest leaves srf yf tt0 Hag Htt). reflexivity.
  Qed.

  Lemma eval_tree_honest ks cs fs tt0 :
    okeys ks cs fs -> ks <> [] -> fit LB2 tt0 = zeros LB2 ->
    exists res, eval_tree H sid cs fs (snd (build_tree H sid ks tt0)) = Val res /\
                tree_res_ok (fst (build_tree H sid ks tt0)) cs res.
  Proof.
    intros Hok Hne Htt. destruct (eval_tree_core_honest ks cs fs tt0 Hok Hne Htt) as [Hres Hd].
    unfold eval_tree.
    destruct (eval_tree_core H sid cs fs (snd (build_tree H sid ks tt0))) as [[y s] d]. cbn [fst snd] in *.
    rewrite Hd. replace (bytes_eqb _ _) with true by (symmetry; apply bytes_eqb_eq; reflexivity).
    eexists. split; [reflexivity|exact Hres].
  Qed.
End Tree.
