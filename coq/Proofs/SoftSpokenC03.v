(** C03: SoftSpoken OT extension delivers exactly the chosen message (and the honest message is accepted). *)
From SL Require Import Lib.Base Lib.Oracle Gen.Params Model.Gf128 Model.SoftSpoken.
From SL Require Import Proofs.ByteLangLin Proofs.Gf128Spec Proofs.SoftSpokenBytes Proofs.SoftSpokenAlgebra
  Proofs.SoftSpokenTranspose.
Local Open Scope nat_scope.

(** The two seed sets fit together: punctured index in range, keys agree off the punctured index.
    (Keys are arbitrary strings: they are only ever hashed.) *)
Definition seeds_ok (ss : SenderOTSeed) (rs : ReceiverOTSeed) : Prop :=
  length (otp_enc_keys ss) = ssTrees /\ length (otp_dec_keys rs) = ssTrees /\
  length (random_choices rs) = ssTrees /\
  forall i, i < ssTrees ->
    (nth i (random_choices rs) 0 < 16)%N /\
    length (nth i (otp_enc_keys ss) []) = ssQ /\ length (nth i (otp_dec_keys rs) []) = ssQ /\
    forall j, j < ssQ -> N.of_nat j <> nth i (random_choices rs) 0%N ->
      nth j (nth i (otp_dec_keys rs) []) [] = nth j (nth i (otp_enc_keys ss) []) [].

(** a well-formed first-round message (what the Rust type [Round1Output] guarantees) *)
Definition msg_ok (m : Round1Output) : Prop :=
  length (r1_u m) = ssTrees /\ Forall (rowP ssLPB) (r1_u m) /\ rowP ssSB (r1_x m) /\
  length (r1_t m) = ssLC /\ Forall (rowP ssSB) (r1_t m).

Lemma Forall_nth_P {A} (P : A -> Prop) l i d : Forall P l -> i < length l -> P (nth i l d).
Proof. intros H Hi. rewrite Forall_forall in H. apply H, nth_In, Hi. Qed.

Lemma nth_repeat_lt {A} (a d : A) n i : i < n -> nth i (repeat a n) d = a.
Proof. revert i; induction n as [|n IH]; intros [|i] Hi; cbn; try lia; [reflexivity|apply IH; lia]. Qed.

Lemma div_mod_4' r : r = r / 4 * ssK + r mod 4.
Proof. rewrite ssK_val, (Nat.mul_comm (r / 4) 4). apply Nat.div_mod. discriminate. Qed.

Section C03.
  Variable H : transcript_oracle.
  Variable sid : list N.

  (* ---------------------------------------------------------------- shapes of the expansions *)
  Lemma ss_prg_row key : rowP ssLPB (ss_prg H sid key).
  Proof. apply fitb_row. Qed.

  Lemma recv_expand_nth ss i : nth i (recv_expand H sid ss) [] = map (ss_prg H sid) (nth i (otp_enc_keys ss) []).
  Proof. unfold recv_expand. change (@nil (list N)) with (map (ss_prg H sid) []) at 1. apply map_nth. Qed.

  Lemma recv_expand_length ss : length (recv_expand H sid ss) = length (otp_enc_keys ss).
  Proof. apply map_length. Qed.

  Lemma recv_expand_rows ss i : Forall (rowP ssLPB) (nth i (recv_expand H sid ss) []).
  Proof.
    rewrite recv_expand_nth. apply Forall_forall. intros r Hr. apply in_map_iff in Hr.
    destruct Hr as (k & <- & _). apply ss_prg_row.
  Qed.

  Lemma recv_expand_row_length ss i : length (nth i (recv_expand H sid ss) []) = length (nth i (otp_enc_keys ss) []).
  Proof. rewrite recv_expand_nth. apply map_length. Qed.

  Definition send_leaf (delta : N) (jk : N * list N) : list N :=
    let '(j, key) := jk in if (j =? delta)%N then zbytes ssLPB else ss_prg H sid key.

  Lemma send_expand_nth rs i : i < length (random_choices rs) -> i < length (otp_dec_keys rs) ->
    nth i (send_expand H sid rs) [] =
    map (send_leaf (nth i (random_choices rs) 0%N)) (combine (Nseq ssQ) (nth i (otp_dec_keys rs) [])).
  Proof.
    intros H1 H2. unfold send_expand.
    rewrite (nth_map_combine _ _ _ i 0%N [] []) by assumption. reflexivity.
  Qed.

  Lemma send_expand_length rs : length (random_choices rs) = ssTrees -> length (otp_dec_keys rs) = ssTrees ->
    length (send_expand H sid rs) = ssTrees.
  Proof. intros H1 H2. unfold send_expand. rewrite map_length, combine_length, H1, H2. apply Nat.min_id. Qed.

  Lemma send_leaf_row delta jk : rowP ssLPB (send_leaf delta jk).
  Proof. destruct jk as [j key]. cbn. destruct (j =? delta)%N; [apply zbytes_row|apply ss_prg_row]. Qed.

  Lemma send_expand_rows rs i : i < length (random_choices rs) -> i < length (otp_dec_keys rs) ->
    Forall (rowP ssLPB) (nth i (send_expand H sid rs) []).
  Proof.
    intros H1 H2. rewrite send_expand_nth by assumption. apply Forall_forall. intros r Hr.
    apply in_map_iff in Hr. destruct Hr as (jk & <- & _). apply send_leaf_row.
  Qed.

  (* ---------------------------------------------------------------- rows of v and w *)
  Lemma recv_v_nth rx i b : i < length rx -> b < ssK ->
    nth (i * ssK + b) (recv_v rx) [] = recv_v_row (nth i rx []) (N.of_nat b).
  Proof.
    intros Hi Hb. unfold recv_v, recv_v_blocks.
    rewrite (concat_nth_const _ ssK) by
      (try exact Hb; intros l Hl; apply in_map_iff in Hl; destruct Hl as (rs & <- & _);
       rewrite map_length; apply Nseq_length).
    rewrite (nth_map_lt _ _ _ []) by exact Hi.
    rewrite (nth_map_lt _ _ _ 0%N) by (rewrite Nseq_length; exact Hb).
    rewrite Nseq_nth by exact Hb. reflexivity.
  Qed.

  Lemma recv_v_length rx : length (recv_v rx) = length rx * ssK.
  Proof.
    unfold recv_v, recv_v_blocks. rewrite (concat_length_const _ ssK).
    - rewrite map_length. reflexivity.
    - intros l Hl. apply in_map_iff in Hl. destruct Hl as (rs & <- & _). rewrite map_length. apply Nseq_length.
  Qed.

  Lemma send_w_nth deltas rx u i b : i < length deltas -> i < length rx -> i < length u -> b < ssK ->
    nth (i * ssK + b) (send_w deltas rx u) [] =
    send_w_row (nth i deltas 0%N) (nth i rx []) (nth i u []) (N.of_nat b).
  Proof.
    intros Hd Hr Hu Hb. unfold send_w, send_w_blocks.
    rewrite (concat_nth_const _ ssK);
      [|intros l Hl; apply in_map_iff in Hl; destruct Hl as ([d [rs ui]] & <- & _); rewrite map_length; apply Nseq_length
       |exact Hb].
    rewrite (nth_map_combine _ _ _ i 0%N ([], []) []) by (rewrite ?combine_length; lia).
    rewrite (combine_nth_lt _ _ i [] []) by assumption.
    rewrite (nth_map_lt _ _ _ 0%N) by (rewrite Nseq_length; exact Hb).
    rewrite Nseq_nth by exact Hb. reflexivity.
  Qed.

  Lemma send_w_length deltas rx u : length deltas = ssTrees -> length rx = ssTrees -> length u = ssTrees ->
    length (send_w deltas rx u) = ssLC.
  Proof.
    intros Hd Hr Hu. unfold send_w, send_w_blocks. rewrite (concat_length_const _ ssK).
    - rewrite map_length, !combine_length, Hd, Hr, Hu, !Nat.min_id. reflexivity.
    - intros l Hl. apply in_map_iff in Hl. destruct Hl as ([d [rs ui]] & <- & _). rewrite map_length. apply Nseq_length.
  Qed.

  (* ---------------------------------------------------------------- core algebra, any u *)
  (** sum of the 16 PRG rows of tree i *)
  Definition tree_sum (ss : SenderOTSeed) (i : nat) : list N :=
    xsum (nth i (recv_expand H sid ss) []) (zbytes ssLPB).

  Lemma tree_sum_row ss i : rowP ssLPB (tree_sum ss i).
  Proof. apply xsum_row; [apply recv_expand_rows|apply zbytes_row]. Qed.

  Lemma recv_v_row_row rs b : Forall (rowP ssLPB) rs -> rowP ssLPB (recv_v_row rs b).
  Proof.
    intros HR. rewrite recv_v_row_vfold by (eapply Forall_impl; [|exact HR]; intros r [_ B]; exact B).
    apply vfold_row; [exact HR|apply zbytes_row].
  Qed.

  (** Row 4i+b of the sender's matrix W for ANY 64x80 matrix u:
      w = v ^ delta_{i,b} * (sum_j r_j ^ u_i). *)
  Theorem send_w_general ss rs u i b :
    seeds_ok ss rs -> length u = ssTrees -> Forall (rowP ssLPB) u -> i < ssTrees -> b < ssK ->
    nth (i * ssK + b) (send_w (random_choices rs) (send_expand H sid rs) u) [] =
    xor_bytes (nth (i * ssK + b) (recv_v (recv_expand H sid ss)) [])
              (maskb (N.testbit (nth i (random_choices rs) 0%N) (N.of_nat b))
                     (xor_bytes (tree_sum ss i) (nth i u []))).
  Proof.
    intros (Le & Ld & Lc & Hs) Lu Hu Hi Hb.
    destruct (Hs i Hi) as (Hdelta & Lei & Ldi & Hagree).
    rewrite send_w_nth; try lia; [|rewrite send_expand_length by assumption; exact Hi].
    rewrite recv_v_nth; [|rewrite recv_expand_length, Le; exact Hi|exact Hb].
    apply send_w_row_char.
    - rewrite recv_expand_row_length. exact Lei.
    - rewrite send_expand_nth by lia. rewrite map_length, combine_length, Nseq_length, Ldi. apply Nat.min_id.
    - apply recv_expand_rows.
    - apply send_expand_rows; lia.
    - apply Forall_nth_P; [exact Hu|lia].
    - intros j Hj NE. rewrite send_expand_nth by lia. rewrite recv_expand_nth.
      rewrite (nth_map_combine _ _ _ j 0%N [] []) by (rewrite ?Nseq_length; lia).
      rewrite Nseq_nth by exact Hj. unfold send_leaf.
      destruct (N.eqb_spec (N.of_nat j) (nth i (random_choices rs) 0%N)) as [E|_]; [contradiction|].
      rewrite (Hagree j Hj NE).
      rewrite (nth_map_lt _ _ _ []) by lia. reflexivity.
  Qed.

  (* ---------------------------------------------------------------- the honest receiver *)
  Variable ss : SenderOTSeed.
  Variable rs : ReceiverOTSeed.
  Variable choices tape : list N.
  Hypothesis Hseeds : seeds_ok ss rs.
  Hypothesis Hchoices : rowP ssLB choices.
  Hypothesis Htape : rowP ssSB tape.

  Let epc := choices ++ tape.
  Let rx := recv_expand H sid ss.
  Let u := recv_u epc (r1_u round1_default) rx.
  Let v := recv_v rx.
  Let chis := chi_matrix H (matrix_digest H sid u).
  Let deltas := random_choices rs.
  Let w := send_w deltas (send_expand H sid rs) u.
  Let nabla := packed_nabla deltas.
  Let out := ss_receiver H sid ss choices tape.

  Lemma epc_row : rowP ssLPB epc.
  Proof.
    destruct Hchoices as [Lc Bc], Htape as [Lt Bt]. split.
    - unfold epc. rewrite app_length, Lc, Lt. reflexivity.
    - apply Forall_app. split; assumption.
  Qed.

  Lemma rx_length : length rx = ssTrees.
  Proof. unfold rx. rewrite recv_expand_length. apply Hseeds. Qed.

  Lemma deltas_length : length deltas = ssTrees.
  Proof. apply Hseeds. Qed.

  Lemma u_nth i : i < ssTrees -> nth i u [] = recv_u_row epc (zbytes ssLPB) (nth i rx []).
  Proof.
    intros Hi. unfold u, recv_u. cbn [round1_default r1_u].
    rewrite (nth_map_combine _ _ _ i [] [] []) by (rewrite ?repeat_length, ?rx_length; exact Hi).
    cbn [fst snd]. f_equal. apply nth_repeat_lt. exact Hi.
  Qed.

  Lemma u_length : length u = ssTrees.
  Proof. unfold u, recv_u. cbn [round1_default r1_u]. rewrite map_length, combine_length, repeat_length, rx_length. apply Nat.min_id. Qed.

  Lemma u_rows : Forall (rowP ssLPB) u.
  Proof.
    apply Forall_forall. intros r Hr. destruct (In_nth _ _ [] Hr) as (i & Hi & <-). rewrite u_length in Hi.
    rewrite u_nth by exact Hi. unfold recv_u_row. apply xor_bytes_row; [|apply epc_row].
    apply (xsum_row ssLPB); [apply recv_expand_rows|apply zbytes_row].
  Qed.

  Lemma v_length : length v = ssLC.
  Proof. unfold v. rewrite recv_v_length, rx_length. reflexivity. Qed.

  Lemma v_row r : r < ssLC -> rowP ssLPB (nth r v []).
  Proof.
    intros Hr. rewrite (div_mod_4' r). rewrite ssLC_val in Hr.
    unfold v.
    rewrite recv_v_nth; [|rewrite rx_length, ssTrees_val; apply Nat.div_lt_upper_bound; lia
                         |rewrite ssK_val; apply Nat.mod_upper_bound; discriminate].
    apply recv_v_row_row, recv_expand_rows.
  Qed.

  (** C03 core algebra: row r of the sender's W is row r of the receiver's V, xor the extended choice
      vector where bit r of nabla is set. *)
  Theorem w_eq_v_xor_delta_x r : r < ssLC ->
    nth r w [] = xor_bytes (nth r v []) (maskb (nabla_bit deltas r) epc).
  Proof.
    intros Hr. rewrite ssLC_val in Hr.
    assert (Hi : r / 4 < ssTrees) by (rewrite ssTrees_val; apply Nat.div_lt_upper_bound; lia).
    assert (Hb : r mod 4 < ssK) by (rewrite ssK_val; apply Nat.mod_upper_bound; discriminate).
    rewrite (div_mod_4' r) at 1 2.
    unfold w, v, rx, deltas. rewrite (send_w_general ss rs u (r / 4) (r mod 4) Hseeds u_length u_rows Hi Hb).
    f_equal. unfold nabla_bit. f_equal.
    rewrite u_nth by exact Hi. apply recv_u_row_char; [apply epc_row|apply recv_expand_rows].
  Qed.

  Lemma w_length : length w = ssLC.
  Proof.
    unfold w. apply send_w_length; [apply deltas_length| |apply u_length].
    apply send_expand_length; apply Hseeds.
  Qed.

  (* ---------------------------------------------------------------- the honest message is accepted *)
  Lemma chis_phi_row row : rowP ssLPB row -> rowP 16 (Phi chis row).
  Proof. intros [L B]. apply Phi_row; assumption. Qed.

  Lemma recv_t_nth r : r < ssLC -> nth r (recv_t chis v (r1_t round1_default)) [] = Phi chis (nth r v []).
  Proof.
    intros Hr. unfold recv_t. cbn [round1_default r1_t].
    rewrite (nth_map_combine _ _ _ r [] [] []) by (rewrite ?repeat_length, ?v_length; exact Hr).
    cbn [fst snd]. rewrite nth_repeat_lt by exact Hr. reflexivity.
  Qed.

  Lemma honest_row_ok r : r < ssLC ->
    send_row_ok chis nabla (fst out) r (nth r w []) = true.
  Proof.
    intros Hr. unfold send_row_ok, out, ss_receiver, ss_receiver_buf. cbn [fst r1_t r1_x].
    fold epc rx u v chis.
    rewrite recv_t_nth by exact Hr.
    rewrite map_combine_xor.
    rewrite ss_extract_bit_bitat. unfold nabla. rewrite packed_nabla_bitat by (try apply deltas_length; exact Hr).
    change (if nabla_bit deltas r then 1%N else 0%N) with (N.b2n (nabla_bit deltas r)).
    change (phi_acc chis epc (r1_x round1_default)) with (Phi chis epc).
    rewrite and_mask_bit by (apply chis_phi_row, epc_row).
    change (phi_acc chis (nth r w []) (zbytes ssSB)) with (Phi chis (nth r w [])).
    rewrite w_eq_v_xor_delta_x by exact Hr.
    rewrite Phi_xor_maskb by (try apply epc_row; apply v_row, Hr).
    apply bytes_eqb_eq. reflexivity.
  Qed.

  Lemma honest_check : send_check chis nabla (fst out) w = true.
  Proof.
    unfold send_check. apply forallb_forall. intros [r wr] Hin. cbn [fst snd].
    rewrite <- w_length in Hin. destruct (in_combine_seq w 0 r wr [] Hin) as [Hr ->].
    rewrite Nat.sub_0_r. apply honest_row_ok. rewrite <- w_length. lia.
  Qed.

  Lemma sender_unfold msg : r1_u msg = u ->
    ss_sender H sid rs msg =
    if send_check chis nabla msg w then Val (send_outputs H sid nabla (transpose_bool_matrix w)) else Err ss_err_ban.
  Proof. intros E. unfold ss_sender. rewrite E. reflexivity. Qed.

  Theorem honest_accepted :
    ss_sender H sid rs (fst out) = Val (send_outputs H sid nabla (transpose_bool_matrix w)).
  Proof. rewrite sender_unfold by reflexivity. rewrite honest_check. reflexivity. Qed.

  (* ---------------------------------------------------------------- chosen message equal *)
  Lemma w_matrix_rows : forall r, r < ssLC -> rowP ssLPB (nth r w []).
  Proof.
    intros r Hr. rewrite w_eq_v_xor_delta_x by exact Hr.
    apply xor_bytes_row; [apply v_row, Hr|apply maskb_row, epc_row].
  Qed.

  Lemma bitat_xor a b c : length a = length b -> c < length a * 8 ->
    bitat (xor_bytes a b) c = xorb (bitat a c) (bitat b c).
  Proof.
    intros L Hc. unfold bitat.
    assert (c / 8 < length a) by (apply Nat.div_lt_upper_bound; lia).
    rewrite xor_bytes_nth by lia. apply N.lxor_spec.
  Qed.

  Lemma bitat_zbytes n c : bitat (zbytes n) c = false.
  Proof. unfold bitat. rewrite zbytes_nth. apply N.bits_0. Qed.

  Lemma bitat_maskb m a c : bitat (maskb m a) c = m && bitat a c.
  Proof. destruct m; cbn [maskb andb]; [reflexivity|apply bitat_zbytes]. Qed.

  (** the sender's transposed row c is the receiver's, xor nabla where the (extended) choice bit c is set *)
  Lemma zeta_psi c : c < ssLPB * 8 ->
    nth c (transpose_bool_matrix w) [] =
    xor_bytes (nth c (transpose_bool_matrix v) []) (maskb (bitat epc c) nabla).
  Proof.
    intros Hc.
    pose proof (packed_nabla_NB deltas deltas_length) as HNB. fold nabla in HNB.
    assert (Ln : length nabla = ssLCB) by (apply packed_nabla_length, deltas_length).
    apply bytes_ext.
    { rewrite transpose_row_length by exact Hc. symmetry. apply xor_bytes_len.
      - apply transpose_row_length, Hc.
      - rewrite maskb_length. exact Ln. }
    intros rb k Hrb. rewrite transpose_row_length in Hrb by exact Hc.
    rewrite xor_bytes_nth by (rewrite ?transpose_row_length, ?maskb_length, ?Ln by exact Hc; exact Hrb).
    rewrite N.lxor_spec.
    rewrite !transpose_testbit by (try exact Hc; try exact Hrb; try apply w_length; apply v_length).
    assert (Hrb32 : rb < 32) by (rewrite ssLCB_val in Hrb; exact Hrb).
    destruct (N.ltb_spec k 8) as [Hk|Hk]; cbn [andb].
    - assert (Hr : 8 * rb + N.to_nat k < ssLC) by (rewrite ssLC_val; lia).
      rewrite w_eq_v_xor_delta_x by exact Hr.
      destruct (v_row _ Hr) as [Lv _]. destruct epc_row as [Le _].
      assert (Hc8 : c / 8 < ssLPB) by (apply Nat.div_lt_upper_bound; lia).
      rewrite xor_bytes_nth by (rewrite ?maskb_length; lia).
      rewrite N.lxor_spec. f_equal.
      destruct (bitat epc c) eqn:Eb; cbn [maskb].
      + destruct HNB as [_ HN]. rewrite HN by exact Hrb32.
        destruct (N.ltb_spec k 8); [|lia]. cbn [andb].
        destruct (nabla_bit deltas (8 * rb + N.to_nat k)); cbn [maskb].
        * exact Eb.
        * rewrite zbytes_nth. apply N.bits_0.
      + rewrite zbytes_nth, N.bits_0.
        destruct (nabla_bit deltas (8 * rb + N.to_nat k)); cbn [maskb].
        * exact Eb.
        * rewrite zbytes_nth. apply N.bits_0.
    - destruct (bitat epc c); cbn [maskb].
      + destruct HNB as [_ HN]. rewrite HN by exact Hrb32. destruct (N.ltb_spec k 8); [lia|reflexivity].
      + rewrite zbytes_nth, N.bits_0. reflexivity.
  Qed.

  Lemma epc_bitat j : j < ssL -> bitat epc j = bitat choices j.
  Proof.
    intros Hj. unfold bitat, epc. rewrite ssL_val in Hj. destruct Hchoices as [Lc _]. rewrite ssLB_val in Lc.
    rewrite app_nth1; [reflexivity|]. rewrite Lc. apply Nat.div_lt_upper_bound; lia.
  Qed.

  Lemma rand_rows_nth rows j : j < ssL -> j < length rows ->
    nth j (rand_rows H sid rows) [] = rand_out H sid (N.of_nat j) (nth j rows []).
  Proof.
    intros Hj Hl. unfold rand_rows.
    rewrite (nth_map_combine _ _ _ j 0%N [] []) by (rewrite ?Nseq_length; assumption).
    cbn [fst snd]. rewrite Nseq_nth by exact Hj. reflexivity.
  Qed.

  Lemma L_lt j : j < ssL -> j < ssLPB * 8.
  Proof. rewrite ssL_val, ssLPB_val. lia. Qed.

  (** whole rows of the outputs: the receiver's row j is the sender's row j for choice bit j *)
  Theorem chosen_row_equal j : j < ssL ->
    nth j (re_v_x (snd out)) [] =
    nth j (if bitat choices j then se_v_1 (send_outputs H sid nabla (transpose_bool_matrix w))
           else se_v_0 (send_outputs H sid nabla (transpose_bool_matrix w))) [].
  Proof.
    intros Hj. pose proof (L_lt j Hj) as Hc.
    unfold out, ss_receiver, ss_receiver_buf. cbn [snd re_v_x]. fold epc rx u v.
    rewrite rand_rows_nth by (rewrite ?transpose_length; assumption).
    assert (Ln : length nabla = ssLCB) by (apply packed_nabla_length, deltas_length).
    pose proof (zeta_psi j Hc) as Hz. rewrite epc_bitat in Hz by exact Hj.
    destruct (bitat choices j); cbn [send_outputs se_v_0 se_v_1 maskb] in *.
    - rewrite rand_rows_nth by (rewrite ?map_length, ?transpose_length; assumption).
      f_equal. rewrite (nth_map_lt _ _ _ []) by (rewrite transpose_length; exact Hc).
      rewrite Hz. symmetry. apply xor_bytes_cancel.
      rewrite transpose_row_length by exact Hc. symmetry. exact Ln.
    - rewrite rand_rows_nth by (rewrite ?transpose_length; assumption).
      f_equal. rewrite Hz. symmetry. apply xor_bytes_zeros_r.
      rewrite Ln. apply transpose_row_length, Hc.
  Qed.

  (** if the receiver's row equals the sender's row for the OTHER bit in some slot k, then either nabla is
      zero (all punctured indices 0) or the randomisation hash collides on two distinct queries *)
  Theorem other_row_differs j k : j < ssL -> k < ssW ->
    let so := send_outputs H sid nabla (transpose_bool_matrix w) in
    let psi_j := nth j (transpose_bool_matrix v) [] in
    nth k (nth j (re_v_x (snd out)) []) [] = nth k (nth j (if bitat choices j then se_v_0 so else se_v_1 so) []) [] ->
    nabla = zbytes ssLCB \/
    (rand_query sid (N.of_nat j) psi_j k <> rand_query sid (N.of_nat j) (xor_bytes psi_j nabla) k /\
     Hn H ssKB (rand_query sid (N.of_nat j) psi_j k) = Hn H ssKB (rand_query sid (N.of_nat j) (xor_bytes psi_j nabla) k)).
  Proof.
    intros Hj Hk so psi_j Heq. pose proof (L_lt j Hj) as Hc.
    assert (Ln : length nabla = ssLCB) by (apply packed_nabla_length, deltas_length).
    assert (Lp : length psi_j = ssLCB) by (apply transpose_row_length, Hc).
    destruct (list_eq_dec N.eq_dec nabla (zbytes ssLCB)) as [Z|NZ]; [left; exact Z|right].
    assert (Hne : psi_j <> xor_bytes psi_j nabla).
    { intros E. apply NZ. apply (xor_bytes_inj_l nabla (zbytes ssLCB) psi_j); try (rewrite ?zbytes_length; congruence).
      rewrite xor_bytes_zeros_r by exact Lp. symmetry. exact E. }
    split.
    { unfold rand_query, rand_ops. intros E. apply app_inv_tail in E. inversion E. contradiction. }
    (* the receiver's value *)
    unfold out, ss_receiver, ss_receiver_buf in Heq. cbn [snd re_v_x] in Heq. fold epc rx u v in Heq.
    rewrite rand_rows_nth in Heq by (rewrite ?transpose_length; assumption).
    fold psi_j in Heq.
    pose proof (zeta_psi j Hc) as Hz. rewrite epc_bitat in Hz by exact Hj. fold psi_j in Hz.
    unfold so in Heq. destruct (bitat choices j); cbn [send_outputs se_v_0 se_v_1 maskb] in *.
    - rewrite rand_rows_nth in Heq by (rewrite ?transpose_length; assumption).
      rewrite Hz in Heq. unfold rand_out in Heq.
      rewrite !(nth_map_lt _ _ _ 0) in Heq by (rewrite seq_length; exact Hk).
      rewrite seq_nth in Heq by exact Hk. exact Heq.
    - rewrite rand_rows_nth in Heq by (rewrite ?map_length, ?transpose_length; assumption).
      rewrite (nth_map_lt _ _ _ []) in Heq by (rewrite transpose_length; exact Hc).
      rewrite Hz in Heq. rewrite (xor_bytes_zeros_r psi_j) in Heq by (rewrite Ln; exact Lp).
      unfold rand_out in Heq.
      rewrite !(nth_map_lt _ _ _ 0) in Heq by (rewrite seq_length; exact Hk).
      rewrite seq_nth in Heq by exact Hk. exact Heq.
  Qed.
End C03.

(* ==================================================================== closed statements *)
Theorem ss_w_eq_v_xor_delta_x_lem : forall H sid ss rs choices tape,
  seeds_ok ss rs -> rowP ssLB choices -> rowP ssSB tape ->
  forall r, r < ssLC ->
  nth r (send_w (random_choices rs) (send_expand H sid rs) (r1_u (fst (ss_receiver H sid ss choices tape)))) [] =
  xor_bytes (nth r (recv_v (recv_expand H sid ss)) [])
            (maskb (nabla_bit (random_choices rs) r) (choices ++ tape)).
Proof. intros H sid ss rs choices tape Hs Hc Ht r Hr. exact (w_eq_v_xor_delta_x H sid ss rs choices tape Hs Hc Ht r Hr). Qed.

Theorem ss_honest_accepted_lem : forall H sid ss rs choices tape,
  seeds_ok ss rs -> rowP ssLB choices -> rowP ssSB tape ->
  exists so, ss_sender H sid rs (fst (ss_receiver H sid ss choices tape)) = Val so.
Proof.
  intros H sid ss rs choices tape Hs Hc Ht. eexists. exact (honest_accepted H sid ss rs choices tape Hs Hc Ht).
Qed.

Theorem ss_choices_recorded_lem : forall H sid ss choices tape buf,
  re_choices (snd (ss_receiver H sid ss choices tape)) = choices /\
  re_choices (snd (ss_receiver_buf H sid ss buf choices tape)) = choices.
Proof. intros. split; reflexivity. Qed.

Theorem ss_chosen_equal_lem : forall H sid ss rs choices tape,
  seeds_ok ss rs -> rowP ssLB choices -> rowP ssSB tape ->
  forall so, ss_sender H sid rs (fst (ss_receiver H sid ss choices tape)) = Val so ->
  forall j k, j < ssL -> k < ssW ->
  nth k (nth j (re_v_x (snd (ss_receiver H sid ss choices tape))) []) [] =
  nth k (nth j (if bitat choices j then se_v_1 so else se_v_0 so) []) [].
Proof.
  intros H sid ss rs choices tape Hs Hc Ht so Hso j k Hj Hk.
  rewrite (honest_accepted H sid ss rs choices tape Hs Hc Ht) in Hso. inversion Hso; subst so; clear Hso.
  rewrite (chosen_row_equal H sid ss rs choices tape Hs Hc Ht j Hj). reflexivity.
Qed.

(** the shape used by the layers above: acceptance and the chosen-message equality in one statement *)
Theorem ss_correct : forall H sid ss rs choices tape,
  seeds_ok ss rs -> rowP ssLB choices -> rowP ssSB tape ->
  exists so, ss_sender H sid rs (fst (ss_receiver H sid ss choices tape)) = Val so /\
    forall j k, j < ssL -> k < ssW ->
    nth k (nth j (re_v_x (snd (ss_receiver H sid ss choices tape))) []) [] =
    nth k (nth j (if bitat choices j then se_v_1 so else se_v_0 so) []) [].
Proof.
  intros H sid ss rs choices tape Hs Hc Ht.
  destruct (ss_honest_accepted_lem H sid ss rs choices tape Hs Hc Ht) as [so Hso].
  exists so. split; [exact Hso|]. apply (ss_chosen_equal_lem H sid ss rs choices tape Hs Hc Ht so Hso).
Qed.

Theorem ss_other_differs_lem : forall H sid ss rs choices tape,
  seeds_ok ss rs -> rowP ssLB choices -> rowP ssSB tape ->
  forall so, ss_sender H sid rs (fst (ss_receiver H sid ss choices tape)) = Val so ->
  forall j k, j < ssL -> k < ssW ->
  let nabla := packed_nabla (random_choices rs) in
  let psi_j := nth j (transpose_bool_matrix (recv_v (recv_expand H sid ss))) [] in
  let q1 := rand_query sid (N.of_nat j) psi_j k in
  let q2 := rand_query sid (N.of_nat j) (xor_bytes psi_j nabla) k in
  nth k (nth j (re_v_x (snd (ss_receiver H sid ss choices tape))) []) [] =
  nth k (nth j (if bitat choices j then se_v_0 so else se_v_1 so) []) [] ->
  nabla = zbytes ssLCB \/ (q1 <> q2 /\ Hn H ssKB q1 = Hn H ssKB q2).
Proof.
  intros H sid ss rs choices tape Hs Hc Ht so Hso j k Hj Hk nabla psi_j q1 q2 Heq.
  rewrite (honest_accepted H sid ss rs choices tape Hs Hc Ht) in Hso. inversion Hso; subst so; clear Hso.
  exact (other_row_differs H sid ss rs choices tape Hs Hc Ht j k Hj Hk Heq).
Qed.

(** nabla = 0 exactly when every punctured index is 0 *)
Lemma packed_nabla_zero_iff deltas : length deltas = ssTrees -> (forall i, i < ssTrees -> (nth i deltas 0 < 16)%N) ->
  (packed_nabla deltas = zbytes ssLCB <-> forall i, i < ssTrees -> nth i deltas 0%N = 0%N).
Proof.
  intros L Hlt. pose proof (packed_nabla_NB deltas L) as HNB. split.
  - intros Z i Hi. apply N.bits_inj. intros k. rewrite N.bits_0.
    destruct (N.lt_ge_cases k 4) as [Hk|Hk].
    + assert (Hp : 4 * i + N.to_nat k < 256) by (rewrite ssTrees_val in Hi; lia).
      pose proof (NB_bitat _ _ _ HNB Hp) as Hb. rewrite Z in Hb.
      unfold bitat in Hb. rewrite zbytes_nth, N.bits_0 in Hb. unfold nabla_bit in Hb.
      destruct (div_mod_4 i (N.to_nat k) ltac:(lia)) as [E1 E2]. rewrite E1, E2, N2Nat.id in Hb. symmetry. exact Hb.
    + destruct (N.eq_dec (nth i deltas 0%N) 0) as [->|NZ]; [apply N.bits_0|].
      apply N.bits_above_log2. apply N.log2_lt_pow2; [lia|].
      eapply N.lt_le_trans; [apply Hlt, Hi|]. change 16%N with (2 ^ 4)%N. apply N.pow_le_mono_r; [discriminate|exact Hk].
  - intros Hz. destruct HNB as [Ln HN]. apply bytes_ext.
    + rewrite zbytes_length, ssLCB_val. exact Ln.
    + intros rb k Hrb. rewrite Ln in Hrb. rewrite HN by exact Hrb. rewrite zbytes_nth, N.bits_0.
      destruct (N.ltb_spec k 8); cbn [andb]; [|reflexivity].
      unfold nabla_bit. rewrite Hz; [apply N.bits_0|].
      rewrite ssTrees_val. apply Nat.div_lt_upper_bound; lia.
Qed.

(* -------------------------------------------------------------------- the seed generator *)
Theorem gen_seed_ot_ok_lem : forall keys picks,
  length keys = ssTrees -> (forall i, i < ssTrees -> length (nth i keys []) = ssQ) ->
  length picks = ssTrees -> (forall i, i < ssTrees -> (nth i picks 0 < 16)%N) ->
  seeds_ok (fst (gen_seed_ot keys picks)) (snd (gen_seed_ot keys picks)).
Proof.
  intros keys picks Lk Lki Lp Hp. unfold gen_seed_ot. cbn [fst snd].
  assert (Hmod : forall i, i < ssTrees -> nth i (map (fun c => (c mod 256)%N) picks) 0%N = nth i picks 0%N).
  { intros i Hi. rewrite (nth_map_lt _ _ _ 0%N) by lia. apply N.mod_small.
    eapply N.lt_trans; [apply Hp, Hi|reflexivity]. }
  assert (Hdec : forall i, i < ssTrees ->
     nth i (map (fun ck => let '(choice, keys_i) := ck in
                   map (fun jk => let '(j, key) := jk in if (j =? choice)%N then zbytes ssLCB else key)
                       (combine (Nseq ssQ) keys_i))
                (combine (map (fun c => (c mod 256)%N) picks) keys)) []
     = map (fun jk => let '(j, key) := jk in if (j =? nth i picks 0)%N then zbytes ssLCB else key)
           (combine (Nseq ssQ) (nth i keys []))).
  { intros i Hi. rewrite (nth_map_combine _ _ _ i 0%N [] []) by (rewrite ?map_length; lia).
    rewrite Hmod by exact Hi. reflexivity. }
  split; [exact Lk|]. split; [|split].
  - cbn [otp_dec_keys]. rewrite map_length, combine_length, map_length, Lp, Lk. apply Nat.min_id.
  - cbn [random_choices]. rewrite map_length. exact Lp.
  - intros i Hi. cbn [random_choices otp_dec_keys otp_enc_keys]. rewrite Hmod by exact Hi.
    rewrite Hdec by exact Hi. split; [apply Hp, Hi|]. split; [apply Lki, Hi|]. split.
    + rewrite map_length, combine_length, Nseq_length, Lki by exact Hi. apply Nat.min_id.
    + intros j Hj NE. rewrite (nth_map_combine _ _ _ j 0%N [] []) by (rewrite ?Nseq_length, ?Lki by exact Hi; exact Hj).
      rewrite Nseq_nth by exact Hj.
      destruct (N.eqb_spec (N.of_nat j) (nth i picks 0%N)); [contradiction|reflexivity].
Qed.

(* -------------------------------------------------------------------- non-vacuity *)
(** a tiny concrete instance: constant oracle, keys [[j]], punctured indices alternating 0 and 15 *)
Definition ex_keys : list (list (list N)) := repeat (map (fun j => [j]) (Nseq 16)) 64.
Definition ex_picks : list N := concat (repeat [0; 15]%N 32).
Definition ex_oracle : transcript_oracle := fun _ => [].

Lemma ex_seeds_ok : seeds_ok (fst (gen_seed_ot ex_keys ex_picks)) (snd (gen_seed_ot ex_keys ex_picks)).
Proof.
  apply gen_seed_ot_ok_lem.
  - rewrite ssTrees_val. reflexivity.
  - rewrite ssTrees_val, ssQ_val. intros i Hi. unfold ex_keys. rewrite nth_repeat_lt by exact Hi. reflexivity.
  - rewrite ssTrees_val. reflexivity.
  - rewrite ssTrees_val. intros i Hi.
    assert (F : Forall (fun p => (p < 16)%N) ex_picks) by (repeat constructor).
    apply Forall_nth_P; [exact F|exact Hi].
Qed.

Lemma ss_nonvacuous_lem :
  let ss := fst (gen_seed_ot ex_keys ex_picks) in
  let rs := snd (gen_seed_ot ex_keys ex_picks) in
  seeds_ok ss rs /\ nth 0 (random_choices rs) 7%N = 0%N /\ nth 1 (random_choices rs) 7%N = 15%N /\
  rowP ssLB (zbytes ssLB) /\ rowP ssSB (zbytes ssSB) /\
  exists so, ss_sender ex_oracle [] rs (fst (ss_receiver ex_oracle [] ss (zbytes ssLB) (zbytes ssSB))) = Val so.
Proof.
  intros ss rs. split; [apply ex_seeds_ok|]. split; [reflexivity|]. split; [reflexivity|].
  split; [apply zbytes_row|]. split; [apply zbytes_row|].
  apply ss_honest_accepted_lem; [apply ex_seeds_ok|apply zbytes_row|apply zbytes_row].
Qed.
