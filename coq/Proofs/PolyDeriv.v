(** C13: scalar-side evaluation and derivatives.  The model functions are the images modulo q of
    integer polynomial evaluation [peval] and of the n-fold formal derivative [pderiv]. *)
From SL Require Import Lib.Base Model.Poly Proofs.PolyFact Proofs.PolySum.
Local Open Scope Z_scope.

(** integer polynomial evaluation (Horner) and formal derivative on coefficient lists *)
Fixpoint peval (f : list Z) (x : Z) : Z :=
  match f with [] => 0 | c :: t => c + x * peval t x end.

Definition pderiv (f : list Z) : list Z :=
  match f with
  | [] => []
  | _ :: t => map (fun ic : nat * Z => Z.of_nat (S (fst ic)) * snd ic) (enumerate t)
  end.

Lemma peval_bigsum f x : peval f x = bigsum (length f) (fun i => nth i f 0 * x ^ Z.of_nat i).
Proof.
  induction f as [|c t IH]; [reflexivity|].
  cbn [peval length]. rewrite IH.
  change (S (length t)) with (1 + length t)%nat. rewrite bigsum_split. cbn [bigsum nth].
  rewrite <- bigsum_scale_l. rewrite Z.pow_0_r. 
  replace (0 + c * 1) with c by ring. f_equal.
  apply bigsum_ext. intros i Hi. cbn [Nat.add nth].
  rewrite Nat2Z.inj_succ, Z.pow_succ_r by lia. ring.
Qed.

Lemma enumerate_from_length {A} (l : list A) : forall k, length (enumerate_from k l) = length l.
Proof. induction l as [|a l IH]; intros k; cbn [enumerate_from length]; [reflexivity|]. rewrite IH. reflexivity. Qed.

Lemma enumerate_from_nth {A} (l : list A) d : forall k i, (i < length l)%nat ->
  nth i (enumerate_from k l) (O, d) = ((k + i)%nat, nth i l d).
Proof.
  induction l as [|a l IH]; intros k i Hi; cbn [length] in Hi; [lia|].
  destruct i as [|i]; cbn [enumerate_from nth].
  - rewrite Nat.add_0_r. reflexivity.
  - rewrite IH by lia. f_equal. lia.
Qed.

Lemma map_nth_in {A B} (g : A -> B) (l : list A) d d' : forall i, (i < length l)%nat ->
  nth i (map g l) d = g (nth i l d').
Proof.
  induction l as [|a l IH]; intros i Hi; cbn [length] in Hi; [lia|].
  destruct i; cbn [map nth]; [reflexivity|]. apply IH. lia.
Qed.

Lemma pderiv_length f : length (pderiv f) = (length f - 1)%nat.
Proof.
  destruct f as [|c t]; [reflexivity|]. cbn [pderiv length].
  unfold enumerate. rewrite map_length, enumerate_from_length. lia.
Qed.

Lemma pderiv_nth f j : nth j (pderiv f) 0 = Z.of_nat (S j) * nth (S j) f 0.
Proof.
  destruct f as [|c t]; [destruct j; cbn; ring|]. cbn [pderiv nth].
  destruct (Nat.lt_ge_cases j (length t)) as [H|H].
  - rewrite (map_nth_in _ _ 0 (O, 0)) by (unfold enumerate; rewrite enumerate_from_length; exact H).
    unfold enumerate. rewrite enumerate_from_nth by exact H. reflexivity.
  - rewrite !nth_overflow; [ring|lia|].
    unfold enumerate. rewrite map_length, enumerate_from_length. lia.
Qed.

Lemma iter_pderiv_length n f : length (Nat.iter n pderiv f) = (length f - n)%nat.
Proof.
  induction n as [|n IH]; cbn [Nat.iter nat_rect]; [lia|].
  rewrite pderiv_length. unfold Nat.iter in IH. rewrite IH. lia.
Qed.

Lemma range_prod_front s e : (s < e)%nat -> range_prod s e = Z.of_nat (S s) * range_prod (S s) e.
Proof.
  intros H. unfold range_prod. replace (e - s)%nat with (S (e - S s)) by lia.
  cbn [seq map zprod fold_right]. reflexivity.
Qed.

(** coefficient j of the n-th formal derivative: (j+1)...(j+n) * f_{j+n} *)
Lemma iter_pderiv_nth n : forall f j,
  nth j (Nat.iter n pderiv f) 0 = range_prod j (j + n) * nth (j + n) f 0.
Proof.
  induction n as [|n IH]; intros f j.
  - cbn [Nat.iter nat_rect]. rewrite Nat.add_0_r, range_prod_refl. ring.
  - change (Nat.iter (S n) pderiv f) with (pderiv (Nat.iter n pderiv f)).
    rewrite pderiv_nth, IH.
    rewrite (range_prod_front j (j + S n)) by lia.
    replace (S j + n)%nat with (j + S n)%nat by lia. ring.
Qed.

(** skipping the first r enumerated entries = masking the indices below r *)
Lemma zsum_skipn_enumerate {A} (g : nat * A -> Z) (l : list A) : forall k r,
  zsum (map g (skipn r (enumerate_from k l)))
  = zsum (map (fun ic => if (fst ic <? k + r)%nat then 0 else g ic) (enumerate_from k l)).
Proof.
  induction l as [|a l IH]; intros k r.
  - destruct r; reflexivity.
  - destruct r as [|r].
    + cbn [skipn]. f_equal. apply map_ext_in. intros [i c] Hin.
      assert (k <= i)%nat.
      { clear -Hin. revert k Hin. generalize (a :: l) as m. induction m as [|b m IHm]; intros k Hin; [destruct Hin|].
        cbn [enumerate_from] in Hin. destruct Hin as [E|Hin]; [inversion E; lia|].
        apply IHm in Hin. lia. }
      cbn [fst]. destruct (i <? k + 0)%nat eqn:E; [apply Nat.ltb_lt in E; lia|reflexivity].
    + cbn [enumerate_from skipn map zsum fold_right fst]. fold (zsum (map (fun ic : nat * A => if (fst ic <? k + S r)%nat then 0 else g ic) (enumerate_from (S k) l))).
      rewrite IH. replace (S k + r)%nat with (k + S r)%nat by lia.
      destruct (k <? k + S r)%nat eqn:E; [ring|apply Nat.ltb_ge in E; lia].
Qed.

Section Spec.
  Variable q : Z.

  (** C13: [evaluate_at] is integer evaluation modulo q *)
  Theorem evaluate_at_spec f x : evaluate_at q f x = peval f x mod q.
  Proof.
    unfold evaluate_at. rewrite fsum_spec. unfold enumerate.
    rewrite (zsum_map_enumerate _ 0). rewrite peval_bigsum.
    apply bigsum_mod_ext. intros i Hi. cbn [Nat.add].
    rewrite fmul_mod, fpow_spec, Zmult_mod_idemp_l. f_equal. ring.
  Qed.

  (** [derivative_at] with all indices present (those below the order contribute 0) *)
  Lemma derivative_at_full f n x :
    derivative_at q f n x
    = bigsum (length f) (fun i =>
        if (i <? n)%nat then 0
        else fmul q (fmul q (factorial_range q (i - n) i) (nth i f 0)) (fpow q x (i - n))) mod q.
  Proof.
    unfold derivative_at. rewrite fsum_spec. unfold enumerate.
    rewrite zsum_skipn_enumerate. rewrite (zsum_map_enumerate _ 0).
    reflexivity.
  Qed.

  (** the same modulo q in integer arithmetic *)
  Lemma derivative_at_int f n x : Z.of_nat (length f) <= 2 ^ 64 ->
    derivative_at q f n x
    = bigsum (length f) (fun i =>
        if (i <? n)%nat then 0
        else range_prod (i - n) i * nth i f 0 * x ^ Z.of_nat (i - n)) mod q.
  Proof.
    intros Hlen. rewrite derivative_at_full. apply bigsum_mod_ext. intros i Hi.
    destruct (i <? n)%nat eqn:E; [reflexivity|]. apply Nat.ltb_ge in E.
    rewrite fmul_mod. unfold fmul. rewrite Zmult_mod_idemp_l.
    rewrite factorial_range_spec by lia. rewrite fpow_spec.
    rewrite Zmult_mod_idemp_r.
    rewrite <- Z.mul_assoc. rewrite Zmult_mod_idemp_l. f_equal. ring.
  Qed.

  (** C13 derivative_at_spec: the n-th formal derivative evaluated at x, modulo q.
      The premise bounds the number of coefficients by the range of usize. *)
  Theorem derivative_at_spec f n x : Z.of_nat (length f) <= 2 ^ 64 ->
    derivative_at q f n x = peval (Nat.iter n pderiv f) x mod q.
  Proof.
    intros Hlen. rewrite derivative_at_int by exact Hlen.
    rewrite peval_bigsum, iter_pderiv_length.
    destruct (Nat.le_gt_cases n (length f)) as [Hn|Hn].
    - replace (length f) with (n + (length f - n))%nat at 1 by lia.
      rewrite bigsum_split.
      rewrite bigsum_zero.
      2:{ intros i Hi. destruct (i <? n)%nat eqn:E; [reflexivity|apply Nat.ltb_ge in E; lia]. }
      rewrite Z.add_0_l. f_equal. apply bigsum_ext. intros j Hj.
      destruct (n + j <? n)%nat eqn:E; [apply Nat.ltb_lt in E; lia|].
      rewrite iter_pderiv_nth.
      replace (n + j - n)%nat with j by lia. replace (j + n)%nat with (n + j)%nat by lia. reflexivity.
    - replace (length f - n)%nat with 0%nat by lia. cbn [bigsum].
      rewrite bigsum_zero; [reflexivity|].
      intros i Hi. destruct (i <? n)%nat eqn:E; [reflexivity|apply Nat.ltb_ge in E; lia].
  Qed.

  (** order 0 is evaluation; an order above the degree gives 0 *)
  Corollary derivative_at_0 f x : Z.of_nat (length f) <= 2 ^ 64 -> derivative_at q f 0 x = evaluate_at q f x.
  Proof. intros H. rewrite derivative_at_spec by exact H. rewrite evaluate_at_spec. reflexivity. Qed.

  Corollary derivative_at_beyond f n x : (length f <= n)%nat -> derivative_at q f n x = 0.
  Proof.
    intros H. unfold derivative_at. rewrite skipn_all2; [reflexivity|].
    unfold enumerate. rewrite enumerate_from_length. exact H.
  Qed.

  (** value at 0 is the constant coefficient *)
  Lemma evaluate_at_zero f : evaluate_at q f 0 = nth 0 f 0 mod q.
  Proof.
    rewrite evaluate_at_spec. destruct f as [|c t]; [reflexivity|]. cbn [peval nth]. f_equal. ring.
  Qed.
End Spec.

(** non-vacuity / sanity: the code's own unit tests, in the model *)
Example derivative_example_normal :
  derivative_at secp256k1_q [1; 2; 3; 4] 2 2 = 54.
Proof. vm_compute. reflexivity. Qed.
Example derivative_example_large :
  derivative_at secp256k1_q [1; 2; secp256k1_q - 1] 1 2 = secp256k1_q - 2.
Proof. vm_compute. reflexivity. Qed.
