(** C06: the closed statements (all oracles, all session ids, all consistent base OTs) at the real
    parameters K = SOFT_SPOKEN_K, 64 trees, derived from the depth-generic lemmas. *)
From SL Require Import Lib.Base Lib.Oracle Gen.Params Model.Pprf Proofs.PprfBytes Proofs.PprfTree Proofs.Pprf.
Local Open Scope nat_scope.

(** side conditions on the generated constants (a changed constant that breaks them breaks the build) *)
Lemma Kdepth_pos : 0 < Kdepth.
Proof. vm_compute. lia. Qed.
Lemma Q_is_pow : N.to_nat GP.SOFT_SPOKEN_Q = 2 ^ Kdepth.
Proof. vm_compute. reflexivity. Qed.
Lemma trees_times_depth : Ntrees * Kdepth = N.to_nat GP.LAMBDA_C.
Proof. vm_compute. reflexivity. Qed.

Definition honest_msgs H sid sk tt : list pprf_msg := map snd (build_pprf H sid sk tt).

Lemma pprf_honest_ok_lem : forall H sid sk cb rk tt,
  ot_consistent sk cb rk -> tt_zero tt ->
  exists r, eval_pprf H sid cb rk (honest_msgs H sid sk tt) = Val r.
Proof.
  intros H sid sk cb rk tt Hc Htt.
  destruct (pprf_honest_core H sid Kdepth Ntrees sk cb rk tt Kdepth_pos Hc Htt) as [r [E _]].
  exists r. exact E.
Qed.

Lemma honest_tree_res H sid sk cb rk tt r :
  ot_consistent sk cb rk -> tt_zero tt ->
  eval_pprf H sid cb rk (honest_msgs H sid sk tt) = Val r ->
  length r = Ntrees /\
  forall j, j < Ntrees ->
    tree_res_ok (fst (nth j (build_pprf H sid sk tt) dbuild)) (tree_bits Kdepth j cb) (nth j r dres).
Proof.
  intros Hc Htt E.
  destruct (pprf_honest_core H sid Kdepth Ntrees sk cb rk tt Kdepth_pos Hc Htt) as [r0 [E0 [L0 P0]]].
  unfold eval_pprf, honest_msgs, build_pprf in E. rewrite E0 in E. inversion E; subst r0. split; assumption.
Qed.

(** the receiver's punctured index of tree j, read from the choice bits as the code does *)
Definition ystar_tree (cb : bytes) (j : nat) : nat := ystar_of_bits (tree_bits Kdepth j cb).

Lemma pprf_leaves_lem : forall H sid sk cb rk tt r,
  ot_consistent sk cb rk -> tt_zero tt ->
  eval_pprf H sid cb rk (honest_msgs H sid sk tt) = Val r ->
  forall j, j < Ntrees ->
    fst (nth j r dres) = ystar_tree cb j /\
    forall y, y < 2 ^ Kdepth -> y <> ystar_tree cb j ->
      nth y (snd (nth j r dres)) [] = nth y (fst (nth j (build_pprf H sid sk tt) dbuild)) [].
Proof.
  intros H sid sk cb rk tt r Hc Htt E j Hj.
  destruct (honest_tree_res H sid sk cb rk tt r Hc Htt E) as [_ Hres].
  destruct (Hres j Hj) as [Hy [[_ [_ [_ Heq]]] Hlen]]. rewrite tree_bits_length in Hlen.
  split; [exact Hy|]. intros y Hy2 Hne. apply Heq; [rewrite Hlen; exact Hy2|]. rewrite Hy. exact Hne.
Qed.

Lemma pprf_punctured_slot_lem : forall H sid sk cb rk tt r,
  ot_consistent sk cb rk -> tt_zero tt ->
  eval_pprf H sid cb rk (honest_msgs H sid sk tt) = Val r ->
  forall j, j < Ntrees -> nth (ystar_tree cb j) (snd (nth j r dres)) [] = zeros LB.
Proof.
  intros H sid sk cb rk tt r Hc Htt E j Hj.
  destruct (honest_tree_res H sid sk cb rk tt r Hc Htt E) as [_ Hres].
  destruct (Hres j Hj) as [Hy [[_ [_ [Hz _]]] _]]. unfold ystar_tree. rewrite <- Hy. exact Hz.
Qed.

Lemma pprf_seeds_ok_lem : forall H sid sk cb rk tt r,
  ot_consistent sk cb rk -> tt_zero tt ->
  eval_pprf H sid cb rk (honest_msgs H sid sk tt) = Val r ->
  seeds_ok (map fst (build_pprf H sid sk tt)) (map fst r) (map snd r).
Proof.
  intros H sid sk cb rk tt r Hc Htt E. unfold seeds_ok, seeds_ok_gen. intros i Hi.
  destruct (honest_tree_res H sid sk cb rk tt r Hc Htt E) as [_ Hres].
  destruct (Hres i Hi) as [Hy [[_ [Hlt [_ Heq]]] Hlen]]. rewrite tree_bits_length in Hlen.
  assert (E1 : nth i (map fst r) 0 = fst (nth i r dres)) by exact (map_nth fst r dres i).
  assert (E2 : nth i (map snd r) [] = snd (nth i r dres)) by exact (map_nth snd r dres i).
  assert (E3 : nth i (map fst (build_pprf H sid sk tt)) [] = fst (nth i (build_pprf H sid sk tt) dbuild))
    by exact (map_nth fst (build_pprf H sid sk tt) dbuild i).
  rewrite E1, E2, E3.
  rewrite Q_is_pow, <- Hlen. split; [exact Hlt|]. intros j Hj Hne. apply Heq; assumption.
Qed.

Lemma pprf_flip_digest_rejected_lem : forall H sid cb rk ms j v r,
  j < Ntrees -> j < length ms ->
  eval_pprf H sid cb rk ms = Val r ->
  v <> p_s_tilda (nth j ms default_msg) ->
  eval_pprf H sid cb rk (upd j (set_s_tilda v (nth j ms default_msg)) ms) = Err err_invalid_proof.
Proof. intros H sid cb rk ms j v r. apply flip_digest_gen. Qed.

Lemma pprf_flip_unused_side_lem : forall H sid cb rk ms j level (f : bytes -> bytes),
  S level < Kdepth ->
  eval_pprf H sid cb rk
    (upd j (map_t f level (negb (extract_bit cb (j * Kdepth + S level))) (nth j ms default_msg)) ms) =
  eval_pprf H sid cb rk ms.
Proof. intros H sid cb rk ms j level f. apply flip_unused_gen. Qed.
