(** C06: the closed statements (all oracles, all session ids, all consistent base OTs) at the real
    parameters K = SOFT_SPOKEN_K, 64 trees, derived from the depth-generic lemmas. *)
From SL Require Import Lib.Base Lib.Oracle Gen.Params Model.Pprf Proofs.PprfBytes Proofs.PprfTree Proofs.Pprf.
Local Open Scope nat_scope.

(** side conditions on the generated constants (a changed constant that breaks them breaks the build) *)
Lemma Kdepth_pos : 0 < Kdepth.
Proof. vm_compute. lia. Qed.
Lemma Q_is_pow : N.to_nat GP.SOFT_SPOKEN_Q = 2 ^ Kdepth.
Proof. vm_compute. reflexivity. Qed.
Lemma trees_times_depth : Ntrees * Kdepth = N.to_nat GP.LAMBDA_C.
Proof. vm_compute. reflexivity. Qed.

Definition honest_msgs H sid sk tt : list pprf_msg := map snd (build_pprf H sid sk tt).

Lemma pprf_honest_ok_lem : forall H sid sk cb rk tt,
  ot_consistent sk cb rk -> tt_zero tt ->
  exists r, eval_pprf H sid cb rk (honest_msgs H sid sk tt) = Val r.
Proof.
  intros H sid sk cb rk tt Hc Htt.
  destruct (pprf_honest_core H sid Kdepth Ntrees sk cb rk tt Kdepth_pos Hc Htt) as [r [E _]].
  exists r. exact E.
Qed.

Lemma honest_tree_res H sid sk cb rk tt r :
  ot_consistent sk cb rk -> tt_zero tt ->
  eval_pprf H sid cb rk (honest_msgs H sid sk tt) = Val r ->
  length r = Ntrees /\
  forall j, j < Ntrees ->
    tree_res_ok (fst (nth j (build_pprf H sid sk tt) dbuild)) (tree_bits Kdepth j cb) (nth j r dres).
Proof.
  intros Hc Htt E.
  destruct (pprf_honest_core H sid Kdepth Ntrees sk cb rk tt Kdepth_pos Hc Htt) as [r0 [E0 [L0 P0]]].
  unfold eval_pprf, honest_msgs, build_pprf in E. rewrite E0 in E. inversion E; subst r0. split; assumption.
Qed.

(** the receiver's punctured index of tree j, read from the choice bits as the code does *)
Definition ystar_tree (cb : bytes) (j : nat) : nat := ystar_of_bits (tree_bits Kdepth j cb).

Lemma pprf_leaves_lem : forall H sid sk cb rk tt r,
  ot_consistent sk cb rk -> tt_zero tt ->
  eval_pprf H sid cb rk (honest_msgs H sid sk tt) = Val r ->
  forall j, j < Ntrees ->
    fst (nth j r dres) = ystar_tree cb j /\
    forall y, y < 2 ^ Kdepth -> y <> ystar_tree cb j ->
      nth y (snd (nth j r dres)) [] = nth y (fst (nth j (build_pprf H sid sk tt) dbuild)) [].
Proof.
  intros H sid sk cb rk tt r Hc Htt E j Hj.
  destruct (honest_tree_res H sid sk cb rk tt r Hc Htt E) as [_ Hres].
  destruct (Hres j Hj) as [Hy [[_ [_ [_ Heq]]] Hlen]]. rewrite tree_bits_length in Hlen.
  split; [exact Hy|]. intros y Hy2 Hne. apply Heq; [rewrite Hlen; exact Hy2|]. rewrite Hy. exact Hne.
Qed.

Lemma pprf_punctured_slot_lem : forall H sid sk cb rk tt r,
  ot_consistent sk cb rk -> tt_zero tt ->
  eval_pprf H sid cb rk (honest_msgs H sid sk tt) = Val r ->
  forall j, j < Ntrees -> nth (ystar_tree cb j) (snd (nth j r dres)) [] = zeros LB.
Proof.
  intros H sid sk cb rk tt r Hc Htt E j Hj.
  destruct (honest_tree_res H sid sk cb rk tt r Hc Htt E) as [_ Hres].
  destruct (Hres j Hj) as [Hy [[_ [_ [Hz _]]] _]]. unfold ystar_tree. rewrite <- Hy. exact Hz.
Qed.

Lemma pprf_seeds_ok_lem : forall H sid sk cb rk tt r,
  ot_consistent sk cb rk -> tt_zero tt ->
  eval_pprf H sid cb rk (honest_msgs H sid sk tt) = Val r ->
  seeds_ok (map fst (build_pprf H sid sk tt)) (map fst r) (map snd r).
Proof.
  intros H sid sk cb rk tt r Hc Htt E. unfold seeds_ok, seeds_ok_gen. intros i Hi.
  destruct (honest_tree_res H sid sk cb rk tt r Hc Htt E) as [_ Hres].
  destruct (Hres i Hi) as [Hy [[_ [Hlt [_ Heq]]] Hlen]]. rewrite tree_bits_length in Hlen.
  assert (E1 : nth i (map fst r) 0 = fst (nth i r dres)) by exact (map_nth fst r dres i).
  assert (E2 : nth i (map snd r) [] = snd (nth i r dres)) by exact (map_nth snd r dres i).
  assert (E3 : nth i (map fst (build_pprf H sid sk tt)) [] = fst (nth i (build_pprf H sid sk tt) dbuild))
    by exact (map_nth fst (build_pprf H sid sk tt) dbuild i).
  rewrite E1, E2, E3.
  rewrite Q_is_pow, <- Hlen. split; [exact Hlt|]. intros j Hj Hne. apply Heq; assumption.
Qed.

Lemma pprf_flip_digest_rejected_lem : forall H sid cb rk ms j v r,
  j < Ntrees -> j < length ms ->
  eval_pprf H sid cb rk ms = Val r ->
  v <> p_s_tilda (nth j ms default_msg) ->
  eval_pprf H sid cb rk (upd j (set_s_tilda v (nth j ms default_msg)) ms) = Err err_invalid_proof.
Proof. intros H sid cb rk ms j v r. exact (flip_digest_gen H sid Kdepth Ntrees cb rk ms j v r). Qed.

Lemma pprf_flip_unused_side_lem : forall H sid cb rk ms j level (f : bytes -> bytes),
  S level < Kdepth ->
  eval_pprf H sid cb rk
    (upd j (map_t f level (negb (extract_bit cb (j * Kdepth + S level))) (nth j ms default_msg)) ms) =
  eval_pprf H sid cb rk ms.
Proof. intros H sid cb rk ms j level f. exact (flip_unused_gen H sid Kdepth Ntrees cb rk ms j level f). Qed.

(* ------------------------------------------------------------------ tampering characterised by collisions *)
From SL Require Import Proofs.PprfTamper Proofs.PprfAdv.

Definition accepted {A} (o : outcome A) : Prop := exists r, o = Val r.

Lemma pprf_tamper_char_word_lem : forall H sid sk cb rk tt j level delta,
  ot_consistent sk cb rk -> tt_zero tt -> j < Ntrees -> S level < Kdepth ->
  fit LB delta <> zeros LB ->
  let ms := honest_msgs H sid sk tt in
  let used_side := extract_bit cb (j * Kdepth + S level) in
  accepted (eval_pprf H sid cb rk
              (upd j (map_t (fun w => bxor w (fit LB delta)) level used_side (nth j ms default_msg)) ms)) ->
  (exists ps', hash_collision H sid (map (leaf_proof H sid) (fst (nth j (build_pprf H sid sk tt) dbuild))) ps')
  \/ leaf_collision H sid \/ prg_collision H sid.
Proof.
  intros H sid sk cb rk tt j level delta Hc Htt Hj Hl HD. cbv zeta. intros [r E].
  exact (tamper_char_t_gen H sid Kdepth Ntrees sk cb rk tt j level delta r Kdepth_pos Hc Htt Hj Hl HD E).
Qed.

Lemma pprf_tamper_char_t_tilda_lem : forall H sid sk cb rk tt j v,
  ot_consistent sk cb rk -> tt_zero tt -> j < Ntrees ->
  let ms := honest_msgs H sid sk tt in
  fit LB2 v <> p_t_tilda (nth j ms default_msg) ->
  accepted (eval_pprf H sid cb rk (upd j (set_t_tilda v (nth j ms default_msg)) ms)) ->
  exists ps', hash_collision H sid (map (leaf_proof H sid) (fst (nth j (build_pprf H sid sk tt) dbuild))) ps'.
Proof.
  intros H sid sk cb rk tt j v Hc Htt Hj. cbv zeta. intros Hv [r E].
  exact (tamper_char_tt_gen H sid Kdepth Ntrees sk cb rk tt j v r Kdepth_pos Hc Htt Hj Hv E).
Qed.

Lemma pprf_queries_distinct_lem : forall sid,
  (forall ps ps', hash_q sid ps = hash_q sid ps' -> ps = ps') /\
  (forall x x', proof_q sid x = proof_q sid x' -> x = x') /\
  (forall x x' b b', ggm_q sid x b = ggm_q sid x' b' -> x = x').
Proof.
  intros sid. split; [apply hash_q_inj|]. split; [apply proof_q_inj|apply ggm_q_inj].
Qed.

(* ------------------------------------------------------------------ the calibrated adversarial sender *)
Definition adv_msgs H sid sk tt tree level side delta g : list pprf_msg :=
  map snd (adv_pprf H sid sk tt tree level side delta g).

(** the coincidences excluded in the only-if direction, for the adversary aimed at [tree] *)
Definition adv_coincidence H sid (sk : list (bytes * bytes)) (tt : list bytes) (cb : bytes)
           (tree level : nat) (side : bool) (delta : bytes) (g : list bool) : Prop :=
  (exists ps ps', hash_collision H sid ps ps') \/ leaf_collision H sid \/ prg_collision H sid \/
  view_coincidence H sid (tree_slice Kdepth tree sk) (nth tree tt []) level side delta (tree_bits Kdepth tree cb) g.

Lemma pprf_selective_failure_if_lem : forall H sid sk cb rk tt tree level side delta,
  ot_consistent sk cb rk -> tt_zero tt -> tree < Ntrees ->
  accepted (eval_pprf H sid cb rk (adv_msgs H sid sk tt tree level side delta (tree_bits Kdepth tree cb))).
Proof.
  intros H sid sk cb rk tt tree level side delta Hc Htt Ht.
  unfold accepted, adv_msgs, adv_pprf, eval_pprf.
  apply (proj2 (adv_accept_iff_tree H sid Kdepth Ntrees sk cb rk tt tree level side delta
                  (tree_bits Kdepth tree cb) Kdepth_pos Hc Htt Ht)).
  apply adv_tree_right. apply (okeys_slice Kdepth Ntrees); assumption.
Qed.

Lemma pprf_selective_failure_unused_lem : forall H sid sk cb rk tt tree level side delta g,
  ot_consistent sk cb rk -> tt_zero tt -> tree < Ntrees -> S level < Kdepth -> length g = Kdepth ->
  extract_bit cb (tree * Kdepth + S level) <> side -> nth (S level) g false <> side ->
  accepted (eval_pprf H sid cb rk (adv_msgs H sid sk tt tree level side delta g)).
Proof.
  intros H sid sk cb rk tt tree level side delta g Hc Htt Ht Hl Hg Hcs Hgs.
  unfold accepted, adv_msgs, adv_pprf, eval_pprf.
  apply (proj2 (adv_accept_iff_tree H sid Kdepth Ntrees sk cb rk tt tree level side delta g Kdepth_pos Hc Htt Ht)).
  apply adv_tree_unused.
  - apply (okeys_slice Kdepth Ntrees); assumption.
  - apply (slice_ne Kdepth Ntrees); [exact Kdepth_pos|apply Hc|exact Ht].
  - rewrite (tree_slice_length Kdepth tree Ntrees); [exact Hg|apply Hc|exact Ht].
  - apply Htt.
  - rewrite nth_tree_bits by exact Hl. exact Hcs.
  - exact Hgs.
Qed.

Lemma pprf_selective_failure_only_if_lem : forall H sid sk cb rk tt tree level side delta g,
  ot_consistent sk cb rk -> tt_zero tt -> tree < Ntrees -> S level < Kdepth -> length g = Kdepth ->
  fit LB delta <> zeros LB ->
  accepted (eval_pprf H sid cb rk (adv_msgs H sid sk tt tree level side delta g)) ->
  g = tree_bits Kdepth tree cb \/
  (extract_bit cb (tree * Kdepth + S level) <> side /\ nth (S level) g false <> side) \/
  adv_coincidence H sid sk tt cb tree level side delta g.
Proof.
  intros H sid sk cb rk tt tree level side delta g Hc Htt Ht Hl Hg HD Hacc.
  unfold accepted, adv_msgs, adv_pprf, eval_pprf in Hacc.
  apply (proj1 (adv_accept_iff_tree H sid Kdepth Ntrees sk cb rk tt tree level side delta g Kdepth_pos Hc Htt Ht)) in Hacc.
  destruct Hacc as [v Ev].
  assert (Lks : length (tree_slice Kdepth tree sk) = Kdepth)
    by (apply (tree_slice_length Kdepth tree Ntrees); [apply Hc|exact Ht]).
  destruct (adv_tree_only_if H sid _ _ _ (nth tree tt []) level side delta g v
              (okeys_slice Kdepth Ntrees sk cb rk tree Hc Ht)
              (slice_ne Kdepth Ntrees tree sk Kdepth_pos (proj1 Hc) Ht)
              (eq_trans Hg (eq_sym Lks)) (Htt tree) (eq_ind_r (fun n => S level < n) Hl Lks) HD Ev)
    as [E|[[A B]|[C|[C|[C|C]]]]].
  - left. symmetry. exact E.
  - right. left. rewrite nth_tree_bits in A by exact Hl. split; assumption.
  - right. right. left. exact C.
  - right. right. right. left. exact C.
  - right. right. right. right. left. exact C.
  - right. right. right. right. right.
    destruct C as [C1 [C2 [C3 C4]]]. repeat split; assumption.
Qed.

(** the iff, for a tampered word the receiver reads, once the coincidences are excluded *)
Lemma pprf_selective_failure_lem : forall H sid sk cb rk tt tree level side delta g,
  ot_consistent sk cb rk -> tt_zero tt -> tree < Ntrees -> S level < Kdepth -> length g = Kdepth ->
  fit LB delta <> zeros LB ->
  extract_bit cb (tree * Kdepth + S level) = side ->
  ~ adv_coincidence H sid sk tt cb tree level side delta g ->
  (accepted (eval_pprf H sid cb rk (adv_msgs H sid sk tt tree level side delta g)) <-> g = tree_bits Kdepth tree cb).
Proof.
  intros H sid sk cb rk tt tree level side delta g Hc Htt Ht Hl Hg HD Hused Hno. split.
  - intros Hacc.
    destruct (pprf_selective_failure_only_if_lem H sid sk cb rk tt tree level side delta g Hc Htt Ht Hl Hg HD Hacc)
      as [E|[[A _]|C]]; [exact E|contradiction|contradiction].
  - intros ->. apply pprf_selective_failure_if_lem; assumption.
Qed.
