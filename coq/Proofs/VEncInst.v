(** Non-vacuity of the hypotheses of C09/C10: a toy world (the group Z_11 with generator 1, big-endian 32-byte
    scalar encoding, a constant "hash" whose value is the integer 1, identity "RSA" with a 593-bit modulus)
    satisfies [world_ok], [rsa_pair_ok] and the coprimality premise for every label.  Both scalar encodings used
    by the real curves satisfy [repr_laws] (Proofs/VEncBytes.v: repr_be_laws, repr_le_laws). *)
From SL Require Import Lib.Base Lib.Oracle Lib.ZqGroup Model.VEnc Proofs.VEncBytes Proofs.VEncCore.
Local Open Scope Z_scope.

Lemma venc_lt_1_11 : 1 < 11. Proof. lia. Qed.

Definition toy_hash (_ : list N) : list N := repeat 0%N 31 ++ [1%N].

Definition toy_world : venc_world := {|
  w_G := zq 11;
  w_O := zq_group 11 venc_lt_1_11;
  w_q := 11;
  w_psize := 1;
  w_repr := repr_be;
  w_from_repr := from_repr_be 11;
  w_sha256 := toy_hash;
  w_PK := unit;
  w_SK := unit;
  w_pk_n := fun _ => 2 ^ 592 + 1;
  w_sk_n := fun _ => 2 ^ 592 + 1;
  w_rsa_enc := fun _ _ m => Some m;
  w_rsa_dec := fun _ c => Some c;
|}.

Lemma toy_world_ok : world_ok toy_world.
Proof.
  constructor; cbn [toy_world w_q w_O w_repr w_from_repr w_sha256 w_psize w_G].
  - lia.
  - apply zq_group_laws.
  - apply repr_be_laws. split; [lia|]. apply Z.lt_le_incl. reflexivity.
  - intros x. split; reflexivity.
  - intros P. reflexivity.
Qed.

Lemma toy_rsa_pair_ok : rsa_pair_ok toy_world tt tt.
Proof.
  unfold rsa_pair_ok. cbn [toy_world w_pk_n w_sk_n w_rsa_enc w_rsa_dec]. split; [reflexivity|]. split.
  - lia.
  - intros seed m _ _. exists m. auto.
Qed.

Lemma toy_label_int label : W_label_int toy_world label = 1.
Proof. reflexivity. Qed.

Lemma toy_label_coprime label : Z.gcd (W_label_int toy_world label) (w_pk_n toy_world tt) = 1.
Proof. rewrite toy_label_int. apply Z.gcd_1_l. Qed.

Lemma venc_nonvacuous :
  world_ok toy_world /\ rsa_pair_ok toy_world tt tt /\
  (forall label, Z.gcd (W_label_int toy_world label) (w_pk_n toy_world tt) = 1) /\
  (forall x label sp seed tape, (match sp with Some s => 128 <= s <= 256 | None => True end)%nat ->
     exists p, W_encrypt toy_world x tt label sp seed tape = Val p).
Proof.
  split; [exact toy_world_ok|]. split; [exact toy_rsa_pair_ok|]. split; [exact toy_label_coprime|].
  intros. eapply venc_encrypt_succeeds_lem; [exact toy_world_ok|exact toy_rsa_pair_ok|assumption].
Qed.

(** conjunctions used by Props/C09.v *)
From SL Require Import Proofs.VEncCodec.
Lemma venc_wf_both : forall W : venc_world, world_ok W ->
  (forall (d : list N) (p : vproof), bytes_ok d = true -> W_from_bytes W d = Val p -> vproof_wf W p) /\
  (forall (x : Z) (pk : w_PK W) (label : list N) (sp : option nat) (seed : list N) (tape : nat -> Z) (p : vproof),
     W_encrypt W x pk label sp seed tape = Val p -> vproof_wf W p).
Proof. intros W H. split; [apply (from_bytes_wf W H)|apply (encrypt_wf W H)]. Qed.

Lemma venc_label_arith :
  (forall m l n : Z, 0 <= m < 2 ^ 256 -> 0 <= l < 2 ^ 256 -> 2 ^ 512 <= n -> 0 <= m * l < n) /\
  (forall g n : Z, 1 < n -> Z.gcd g n = 1 -> exists v : Z, mod_inverse g n = Some v).
Proof. split; [exact label_no_wrap|exact mod_inverse_complete]. Qed.

Lemma venc_repr_both : forall q : Z, 0 < q <= 2 ^ 256 ->
  repr_laws q repr_be (from_repr_be q) /\ repr_laws q repr_le (from_repr_le q).
Proof. intros q H. split; [apply repr_be_laws|apply repr_le_laws]; exact H. Qed.
