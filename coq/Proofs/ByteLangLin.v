(** Soundness of the XOR-linearity type system of Model/ByteLang.v, proved once
    for arbitrary programs: three runs whose environments are related
    ("public parts equal, linear parts satisfy E12 = E1 xor E2 pointwise") are
    still related after running any program accepted by [lin_s]. *)
From SL Require Import Lib.Base Model.ByteLang.
Local Open Scope N_scope.

(** * Bit-level facts *)

(** all set bits of [x] lie inside the mask [m] *)
Definition inm (m x : N) : Prop := forall n, N.testbit x n = true -> N.testbit m n = true.

Ltac bits n :=
  apply N.bits_inj; intro n;
  repeat first [rewrite N.lxor_spec | rewrite N.land_spec | rewrite N.lor_spec | rewrite N.bits_0].
Ltac bcases :=
  repeat match goal with |- context[N.testbit ?a ?n] => destruct (N.testbit a n) end;
  try reflexivity.

Lemma testbit_255 n : N.testbit 255 n = (n <? 8).
Proof.
  change 255 with (N.ones 8).
  destruct (N.ltb_spec n 8).
  - apply N.ones_spec_low; assumption.
  - apply N.ones_spec_high; assumption.
Qed.

Lemma byte_lt x : x < 256 -> inm 255 x.
Proof.
  intros H n Hn. rewrite testbit_255. apply N.ltb_lt.
  destruct (N.lt_ge_cases n 8) as [|Hge]; [assumption|exfalso].
  change 256 with (2 ^ 8) in H.
  rewrite <- (N.mod_small x (2 ^ 8) H) in Hn.
  rewrite N.mod_pow2_bits_high in Hn by assumption. discriminate.
Qed.

Lemma inm_0 m : inm m 0.
Proof. intros n H. rewrite N.bits_0 in H. discriminate. Qed.

Lemma inm_lxor m x y : inm m x -> inm m y -> inm m (N.lxor x y).
Proof.
  intros Hx Hy n. rewrite N.lxor_spec.
  destruct (N.testbit x n) eqn:Ex; [intros _; apply Hx; assumption|].
  destruct (N.testbit y n) eqn:Ey; [intros _; apply Hy; assumption|discriminate].
Qed.

Lemma inm_lor_l m1 m2 x : inm m1 x -> inm (N.lor m1 m2) x.
Proof. intros H n Hn. rewrite N.lor_spec, (H n Hn). reflexivity. Qed.
Lemma inm_lor_r m1 m2 x : inm m2 x -> inm (N.lor m1 m2) x.
Proof. intros H n Hn. rewrite N.lor_spec, (H n Hn). apply orb_true_r. Qed.

Lemma inm_lor m x y : inm m x -> inm m y -> inm m (N.lor x y).
Proof.
  intros Hx Hy n. rewrite N.lor_spec.
  destruct (N.testbit x n) eqn:Ex; [intros _; apply Hx; assumption|].
  destruct (N.testbit y n) eqn:Ey; [intros _; apply Hy; assumption|discriminate].
Qed.

Lemma inm_land_l m x c : inm m x -> inm m (N.land x c).
Proof.
  intros H n. rewrite N.land_spec. intros Hn. apply andb_true_iff in Hn. apply H, Hn.
Qed.

Lemma inm_land_mask m x c : inm m x -> inm (N.land m c) (N.land x c).
Proof.
  intros H n. rewrite !N.land_spec. intros Hn. apply andb_true_iff in Hn.
  destruct Hn as [Hx Hc]. rewrite (H n Hx), Hc. reflexivity.
Qed.

Lemma land_lxor_l x y c : N.land (N.lxor x y) c = N.lxor (N.land x c) (N.land y c).
Proof. bits n. bcases. Qed.

Lemma lxor_swap a b c d :
  N.lxor (N.lxor a b) (N.lxor c d) = N.lxor (N.lxor a c) (N.lxor b d).
Proof. bits n. bcases. Qed.

Lemma u8_testbit v n : N.testbit (u8 v) n = (n <? 8) && N.testbit v n.
Proof.
  unfold u8. change 256 with (2 ^ 8).
  destruct (N.ltb_spec n 8).
  - rewrite N.mod_pow2_bits_low by assumption. reflexivity.
  - rewrite N.mod_pow2_bits_high by assumption. reflexivity.
Qed.

Lemma u8_lxor x y : u8 (N.lxor x y) = N.lxor (u8 x) (u8 y).
Proof. bits n. rewrite !u8_testbit, N.lxor_spec. destruct (n <? 8); bcases. Qed.

Lemma inm_u8 m x : inm m x -> inm (u8 m) (u8 x).
Proof.
  intros H n. rewrite !u8_testbit. intros Hn. apply andb_true_iff in Hn.
  destruct Hn as [Hl Hx]. rewrite Hl, (H n Hx). reflexivity.
Qed.

Lemma inm_255_u8 x : inm 255 (u8 x).
Proof.
  intros n. rewrite u8_testbit, testbit_255. intros Hn. apply andb_true_iff in Hn. apply Hn.
Qed.

Lemma inm_shiftl m x c : inm m x -> inm (N.shiftl m c) (N.shiftl x c).
Proof.
  intros H n. destruct (N.lt_ge_cases n c) as [Hl|Hg].
  - rewrite N.shiftl_spec_low by assumption. discriminate.
  - rewrite !N.shiftl_spec_high' by assumption. apply H.
Qed.

Lemma inm_shiftr m x c : inm m x -> inm (N.shiftr m c) (N.shiftr x c).
Proof. intros H n. rewrite !N.shiftr_spec'. apply H. Qed.

Lemma inm_255_shiftr x c : inm 255 x -> inm 255 (N.shiftr x c).
Proof.
  intros H n. rewrite N.shiftr_spec'. intros Hn. apply H in Hn.
  rewrite testbit_255 in *. apply N.ltb_lt in Hn. apply N.ltb_lt. lia.
Qed.

Lemma inm_down_closure m x k : inm m x -> inm 255 x -> inm (down_closure m) (N.shiftr x k).
Proof.
  intros Hm Hb n. rewrite N.shiftr_spec'. intros Hn.
  pose proof (Hb _ Hn) as Hlt. rewrite testbit_255 in Hlt. apply N.ltb_lt in Hlt.
  pose proof (Hm _ Hn) as Hbit.
  unfold down_closure. cbn [map fold_left].
  rewrite !N.lor_spec, !N.shiftr_spec'.
  assert (Hk : k = 0 \/ k = 1 \/ k = 2 \/ k = 3 \/ k = 4 \/ k = 5 \/ k = 6 \/ k = 7) by lia.
  repeat (destruct Hk as [Hk|Hk]; [subst k; rewrite Hbit, ?orb_true_r; reflexivity|]).
  subst k; rewrite Hbit, ?orb_true_r; reflexivity.
Qed.

Lemma disjoint_lor m1 m2 a b :
  inm m1 a -> inm m2 b -> N.land m1 m2 = 0 -> N.lor a b = N.lxor a b.
Proof.
  intros Ha Hb Hd. bits n.
  destruct (N.testbit a n) eqn:Ea; destruct (N.testbit b n) eqn:Eb; try reflexivity.
  exfalso. pose proof (Ha _ Ea) as H1. pose proof (Hb _ Eb) as H2.
  assert (H : N.testbit (N.land m1 m2) n = true) by (rewrite N.land_spec, H1, H2; reflexivity).
  rewrite Hd, N.bits_0 in H. discriminate.
Qed.

Lemma mask1_cases m x : N.lor m 1 = 1 -> inm m x -> x = 0 \/ x = 1.
Proof.
  intros Hm Hx.
  assert (Hhi : forall n, n <> 0 -> N.testbit x n = false).
  { intros n Hn. destruct (N.testbit x n) eqn:E; [exfalso|reflexivity].
    apply Hx in E.
    assert (H : N.testbit (N.lor m 1) n = true) by (rewrite N.lor_spec, E; reflexivity).
    rewrite Hm in H. destruct n; [congruence|]. cbn in H. discriminate. }
  assert (Hs : N.shiftr x 1 = 0).
  { bits n. rewrite N.shiftr_spec'. apply Hhi. lia. }
  rewrite N.shiftr_div_pow2 in Hs. change (2 ^ 1) with 2 in Hs.
  pose proof (N.div_mod' x 2) as Hd.
  assert (Hl : x mod 2 < 2) by (apply N.mod_lt; discriminate).
  rewrite Hs in Hd. lia.
Qed.

(** * The three-run relation on values *)

(** [vrel (Some m)]: linear (third run = XOR of the first two), bits inside [m], bytes.
    [vrel None]: public (equal in the three runs). *)
Definition vrel (t : ety) (x y z : N) : Prop :=
  match t with
  | Some m => z = N.lxor x y /\ inm m x /\ inm m y /\ inm 255 x /\ inm 255 y
  | None => x = y /\ x = z
  end.

Lemma vrel_pub x : vrel None x x x.
Proof. split; reflexivity. Qed.

Lemma vrel_zero m : vrel (Some m) 0 0 0.
Proof. repeat split; try apply inm_0. Qed.

Lemma vrel_and m x y z c1 c2 c12 :
  vrel (Some m) x y z -> vrel None c1 c2 c12 ->
  vrel (Some m) (N.land x c1) (N.land y c2) (N.land z c12).
Proof.
  intros (-> & Hx & Hy & Bx & By) [<- <-].
  repeat split; try (apply inm_land_l; assumption). apply land_lxor_l.
Qed.

Lemma vrel_and_mask m x y z c :
  vrel (Some m) x y z ->
  vrel (Some (N.land m c)) (N.land x c) (N.land y c) (N.land z c).
Proof.
  intros (-> & Hx & Hy & Bx & By).
  repeat split; try (apply inm_land_mask; assumption); try (apply inm_land_l; assumption).
  apply land_lxor_l.
Qed.

Lemma vrel_xor m1 m2 x1 y1 z1 x2 y2 z2 :
  vrel (Some m1) x1 y1 z1 -> vrel (Some m2) x2 y2 z2 ->
  vrel (Some (N.lor m1 m2)) (N.lxor x1 x2) (N.lxor y1 y2) (N.lxor z1 z2).
Proof.
  intros (-> & Hx1 & Hy1 & Bx1 & By1) (-> & Hx2 & Hy2 & Bx2 & By2).
  repeat split; try (apply inm_lxor; assumption).
  - apply lxor_swap.
  - apply inm_lxor; [apply inm_lor_l|apply inm_lor_r]; assumption.
  - apply inm_lxor; [apply inm_lor_l|apply inm_lor_r]; assumption.
Qed.

Lemma vrel_xor_pub x1 y1 z1 x2 y2 z2 :
  vrel None x1 y1 z1 -> vrel None x2 y2 z2 ->
  vrel None (N.lxor x1 x2) (N.lxor y1 y2) (N.lxor z1 z2).
Proof. intros [<- <-] [<- <-]. apply vrel_pub. Qed.

Lemma vrel_or m1 m2 x1 y1 z1 x2 y2 z2 :
  N.land m1 m2 = 0 ->
  vrel (Some m1) x1 y1 z1 -> vrel (Some m2) x2 y2 z2 ->
  vrel (Some (N.lor m1 m2)) (N.lor x1 x2) (N.lor y1 y2) (N.lor z1 z2).
Proof.
  intros Hd (-> & Hx1 & Hy1 & Bx1 & By1) (-> & Hx2 & Hy2 & Bx2 & By2).
  rewrite (disjoint_lor m1 m2 x1 x2), (disjoint_lor m1 m2 y1 y2),
          (disjoint_lor m1 m2 (N.lxor x1 y1) (N.lxor x2 y2))
    by (try apply inm_lxor; assumption).
  apply vrel_xor; repeat split; assumption.
Qed.

Lemma vrel_shl m x y z k :
  vrel (Some m) x y z ->
  vrel (Some (u8 (N.shiftl m k))) (u8 (N.shiftl x k)) (u8 (N.shiftl y k)) (u8 (N.shiftl z k)).
Proof.
  intros (-> & Hx & Hy & Bx & By).
  repeat split; try apply inm_255_u8; try (apply inm_u8, inm_shiftl; assumption).
  rewrite N.shiftl_lxor. apply u8_lxor.
Qed.

Lemma vrel_shl_any m x y z k :
  vrel (Some m) x y z ->
  vrel (Some 255) (u8 (N.shiftl x k)) (u8 (N.shiftl y k)) (u8 (N.shiftl z k)).
Proof.
  intros (-> & Hx & Hy & Bx & By).
  repeat split; try apply inm_255_u8.
  rewrite N.shiftl_lxor. apply u8_lxor.
Qed.

Lemma vrel_shr m x y z k :
  vrel (Some m) x y z ->
  vrel (Some (N.shiftr m k)) (N.shiftr x k) (N.shiftr y k) (N.shiftr z k).
Proof.
  intros (-> & Hx & Hy & Bx & By).
  repeat split; try (apply inm_shiftr; assumption); try (apply inm_255_shiftr; assumption).
  apply N.shiftr_lxor.
Qed.

Lemma vrel_shr_any m x y z k :
  vrel (Some m) x y z ->
  vrel (Some (down_closure m)) (N.shiftr x k) (N.shiftr y k) (N.shiftr z k).
Proof.
  intros (-> & Hx & Hy & Bx & By).
  repeat split; try (apply inm_down_closure; assumption); try (apply inm_255_shiftr; assumption).
  apply N.shiftr_lxor.
Qed.

Lemma vrel_neg m x y z :
  N.lor m 1 = 1 -> vrel (Some m) x y z ->
  vrel (Some 255) (u8 (256 - x)) (u8 (256 - y)) (u8 (256 - z)).
Proof.
  intros Hm (-> & Hx & Hy & Bx & By).
  repeat split; try apply inm_255_u8.
  destruct (mask1_cases m x Hm Hx) as [-> | ->];
    destruct (mask1_cases m y Hm Hy) as [-> | ->]; reflexivity.
Qed.

(** * Linear byte arrays: three lists, third = bytewise XOR of the first two *)

Fixpoint xorl (a b : list N) : list N :=
  match a, b with
  | x :: r, y :: s => N.lxor x y :: xorl r s
  | _, _ => []
  end.

Inductive lin3 : list N -> list N -> list N -> Prop :=
| lin3_nil : lin3 [] [] []
| lin3_cons x y l1 l2 l12 : inm 255 x -> inm 255 y -> lin3 l1 l2 l12 ->
    lin3 (x :: l1) (y :: l2) (N.lxor x y :: l12).

Lemma lin3_nth l1 l2 l12 : lin3 l1 l2 l12 ->
  forall i, vrel (Some 255) (nth i l1 0) (nth i l2 0) (nth i l12 0).
Proof.
  induction 1 as [|x y l1 l2 l12 Hx Hy H IH]; intros i.
  - destruct i; apply vrel_zero.
  - destruct i; cbn [nth]; [|apply IH]. repeat split; assumption.
Qed.

Lemma lin3_upd l1 l2 l12 m x y z i : lin3 l1 l2 l12 -> vrel (Some m) x y z ->
  lin3 (upd l1 i x) (upd l2 i y) (upd l12 i z).
Proof.
  intros H (-> & _ & _ & Bx & By). revert i.
  induction H as [|x0 y0 l1 l2 l12 Hx Hy H IH]; intros i; cbn [upd].
  - destruct i; constructor.
  - destruct i; constructor; auto.
Qed.

Lemma lin3_app a1 a2 a12 b1 b2 b12 : lin3 a1 a2 a12 -> lin3 b1 b2 b12 ->
  lin3 (a1 ++ b1) (a2 ++ b2) (a12 ++ b12).
Proof. induction 1; intros Hb; cbn [app]; [assumption|constructor; auto]. Qed.

Lemma lin3_firstn n l1 l2 l12 : lin3 l1 l2 l12 ->
  lin3 (firstn n l1) (firstn n l2) (firstn n l12).
Proof.
  intros H; revert n. induction H; intros n; destruct n; cbn [firstn]; constructor; auto.
Qed.

Lemma lin3_skipn n l1 l2 l12 : lin3 l1 l2 l12 ->
  lin3 (skipn n l1) (skipn n l2) (skipn n l12).
Proof.
  intros H; revert n. induction H; intros n; destruct n; cbn [skipn]; try constructor; auto.
Qed.

Lemma lin3_length l1 l2 l12 : lin3 l1 l2 l12 ->
  length l1 = length l2 /\ length l1 = length l12.
Proof. induction 1 as [|? ? ? ? ? ? ? ? [IH1 IH2]]; cbn [length]; split; congruence. Qed.

Lemma lin3_repeat0 n : lin3 (repeat 0 n) (repeat 0 n) (repeat 0 n).
Proof.
  induction n; cbn [repeat]; [constructor|].
  change (0 :: repeat 0 n) with (N.lxor 0 0 :: repeat 0 n) at 3.
  constructor; auto using inm_0.
Qed.

Lemma lin3_xorl l1 l2 l12 : lin3 l1 l2 l12 -> l12 = xorl l1 l2.
Proof. induction 1; cbn [xorl]; congruence. Qed.

Lemma lin3_intro l1 l2 : length l1 = length l2 ->
  Forall (inm 255) l1 -> Forall (inm 255) l2 -> lin3 l1 l2 (xorl l1 l2).
Proof.
  revert l2. induction l1 as [|x r IH]; intros [|y s] Hl H1 H2; try discriminate; cbn [xorl].
  - constructor.
  - inversion H1; inversion H2; subst. constructor; auto.
Qed.

(** * Arrays of the environment *)

Definition R (c : bool) (l1 l2 l12 : list N) : Prop :=
  if c then lin3 l1 l2 l12 else l1 = l2 /\ l1 = l12.

Definition arel (cls : list bool) (A1 A2 A12 : list (list N)) : Prop :=
  length A1 = length A2 /\ length A1 = length A12 /\
  forall a, R (nth a cls false) (nth a A1 []) (nth a A2 []) (nth a A12 []).

Lemma upd_arr_length A a f : length (upd_arr A a f) = length A.
Proof. revert a; induction A as [|x A IH]; intros [|a]; cbn [upd_arr length]; auto. Qed.

Lemma upd_arr_nth A a f a' :
  nth a' (upd_arr A a f) [] =
  if (Nat.eqb a' a && Nat.ltb a (length A))%bool then f (nth a A []) else nth a' A [].
Proof.
  revert a a'; induction A as [|x A IH]; intros a a'.
  - cbn [upd_arr length]. rewrite andb_false_r. destruct a; reflexivity.
  - destruct a as [|a], a' as [|a']; cbn [upd_arr nth length]; try reflexivity.
    rewrite IH. reflexivity.
Qed.

Lemma arel_upd cls A1 A2 A12 a f1 f2 f12 :
  arel cls A1 A2 A12 ->
  (R (nth a cls false) (nth a A1 []) (nth a A2 []) (nth a A12 []) ->
   R (nth a cls false) (f1 (nth a A1 [])) (f2 (nth a A2 [])) (f12 (nth a A12 []))) ->
  arel cls (upd_arr A1 a f1) (upd_arr A2 a f2) (upd_arr A12 a f12).
Proof.
  intros (L1 & L2 & H) Hf. repeat split.
  - rewrite !upd_arr_length; assumption.
  - rewrite !upd_arr_length; assumption.
  - intros a'. rewrite !upd_arr_nth, <- L1, <- L2.
    destruct (Nat.eqb a' a && Nat.ltb a (length A1))%bool eqn:E; [|apply H].
    apply andb_true_iff in E. destruct E as [E _]. apply Nat.eqb_eq in E. subst a'.
    apply Hf, H.
Qed.

Lemma R_nth c l1 l2 l12 i : R c l1 l2 l12 ->
  vrel (if c then Some 255 else None) (nthN l1 i) (nthN l2 i) (nthN l12 i).
Proof.
  unfold R, nthN. destruct c.
  - intros H; apply lin3_nth; assumption.
  - intros [<- <-]. apply vrel_pub.
Qed.

Lemma R_upd c t l1 l2 l12 i x y z : c = is_lin t ->
  vrel t x y z -> R c l1 l2 l12 -> R c (upd l1 i x) (upd l2 i y) (upd l12 i z).
Proof.
  intros -> V. destruct t as [m|]; cbn [is_lin R].
  - intros H. eapply lin3_upd; eassumption.
  - destruct V as [<- <-]. intros [<- <-]. split; reflexivity.
Qed.

(** * Locals *)

Inductive lrel : list ety -> list N -> list N -> list N -> Prop :=
| lrel_nil : lrel [] [] [] []
| lrel_cons t ts x y z xs ys zs : vrel t x y z -> lrel ts xs ys zs ->
    lrel (t :: ts) (x :: xs) (y :: ys) (z :: zs).

Lemma lrel_snoc ts xs ys zs t x y z : lrel ts xs ys zs -> vrel t x y z ->
  lrel (ts ++ [t]) (xs ++ [x]) (ys ++ [y]) (zs ++ [z]).
Proof. induction 1; intros V; cbn [app]; constructor; auto. constructor. Qed.

Lemma lrel_nth ts xs ys zs : lrel ts xs ys zs ->
  forall n t, nth_error ts n = Some t -> vrel t (nth n xs 0) (nth n ys 0) (nth n zs 0).
Proof.
  induction 1 as [|t0 ts x y z xs ys zs V H IH]; intros n t Hn.
  - destruct n; discriminate.
  - destruct n; cbn [nth_error nth] in *; [inversion Hn; subst; assumption|apply IH; assumption].
Qed.

(** * Environments *)

Definition rel (cls : list bool) (lt : list ety) (E1 E2 E12 : env) : Prop :=
  arel cls (arrs E1) (arrs E2) (arrs E12) /\
  lrel lt (locals E1) (locals E2) (locals E12) /\
  ctrs E1 = ctrs E2 /\ ctrs E1 = ctrs E12.

(** * Soundness for expressions *)

Lemma lin_e_sound cls lt E1 E2 E12 : rel cls lt E1 E2 E12 ->
  forall e t, lin_e cls lt e = Some t ->
  vrel t (beval E1 e) (beval E2 e) (beval E12 e).
Proof.
  intros (HA & HL & C1 & C2).
  induction e as [a i|n|c|a IHa b IHb|a IHa b IHb|a IHa b IHb|a IHa k|a IHa k|a IHa];
    intros t Ht; cbn [lin_e] in Ht; cbn [beval].
  - (* BGet *)
    inversion Ht; subst t; clear Ht. rewrite <- C1, <- C2.
    destruct HA as (_ & _ & HA). apply R_nth, HA.
  - (* BLocal *)
    eapply lrel_nth; eassumption.
  - (* BConst *)
    inversion Ht; subst t; clear Ht.
    destruct (N.eqb_spec c 0) as [->|_]; [apply vrel_zero|apply vrel_pub].
  - (* BAnd *)
    destruct (lin_e cls lt a) as [[ma|]|]; destruct (lin_e cls lt b) as [[mb|]|];
      try discriminate; inversion Ht; subst t; clear Ht.
    + specialize (IHa _ eq_refl). specialize (IHb _ eq_refl).
      destruct b; try (apply vrel_and; assumption).
      cbn [beval] in *. apply vrel_and_mask; assumption.
    + specialize (IHa _ eq_refl). specialize (IHb _ eq_refl).
      rewrite (N.land_comm (beval E1 a)), (N.land_comm (beval E2 a)), (N.land_comm (beval E12 a)).
      destruct a; try (apply vrel_and; assumption).
      cbn [beval] in *. apply vrel_and_mask; assumption.
    + destruct (IHa _ eq_refl) as [<- <-]. destruct (IHb _ eq_refl) as [<- <-]. apply vrel_pub.
  - (* BOr *)
    destruct (lin_e cls lt a) as [[ma|]|]; destruct (lin_e cls lt b) as [[mb|]|];
      try discriminate.
    + unfold masks_disjoint in Ht. destruct (N.eqb_spec (N.land ma mb) 0) as [Hd|]; [|discriminate].
      inversion Ht; subst t; clear Ht. apply vrel_or; auto.
    + inversion Ht; subst t; clear Ht.
      destruct (IHa _ eq_refl) as [<- <-]. destruct (IHb _ eq_refl) as [<- <-]. apply vrel_pub.
  - (* BXor *)
    destruct (lin_e cls lt a) as [[ma|]|]; destruct (lin_e cls lt b) as [[mb|]|];
      try discriminate; inversion Ht; subst t; clear Ht.
    + apply vrel_xor; auto.
    + apply vrel_xor_pub; auto.
  - (* BShl *)
    rewrite <- C1, <- C2.
    destruct (lin_e cls lt a) as [[ma|]|]; try discriminate; inversion Ht; subst t; clear Ht.
    + specialize (IHa _ eq_refl).
      destruct k; cbn [shl_mask ieval]; try (eapply vrel_shl_any; eassumption).
      apply vrel_shl; assumption.
    + destruct (IHa _ eq_refl) as [<- <-]. apply vrel_pub.
  - (* BShr *)
    rewrite <- C1, <- C2.
    destruct (lin_e cls lt a) as [[ma|]|]; try discriminate; inversion Ht; subst t; clear Ht.
    + specialize (IHa _ eq_refl).
      destruct k; cbn [shr_mask ieval]; try (apply vrel_shr_any; assumption).
      apply vrel_shr; assumption.
    + destruct (IHa _ eq_refl) as [<- <-]. apply vrel_pub.
  - (* BNeg *)
    destruct (lin_e cls lt a) as [[ma|]|]; try discriminate.
    + destruct (N.eqb_spec (N.lor ma 1) 1) as [Hm|]; [|discriminate].
      inversion Ht; subst t; clear Ht. eapply vrel_neg; eauto.
    + inversion Ht; subst t; clear Ht.
      destruct (IHa _ eq_refl) as [<- <-]. apply vrel_pub.
Qed.

(** * Loops *)

Section Iter.
  Variable cls : list bool.
  Variables f1 f2 f12 : N -> list (list N) -> list (list N).
  Hypothesis Hstep : forall v A1 A2 A12,
    arel cls A1 A2 A12 -> arel cls (f1 v A1) (f2 v A2) (f12 v A12).

  Lemma iter_up_rel n : forall i A1 A2 A12, arel cls A1 A2 A12 ->
    arel cls (iter_up n i f1 A1) (iter_up n i f2 A2) (iter_up n i f12 A12).
  Proof. induction n; intros; cbn [iter_up]; auto. Qed.

  Lemma iter_down_rel n : forall lo A1 A2 A12, arel cls A1 A2 A12 ->
    arel cls (iter_down n lo f1 A1) (iter_down n lo f2 A2) (iter_down n lo f12 A12).
  Proof. induction n; intros; cbn [iter_down]; auto. Qed.
End Iter.

(** * Soundness for statements *)

Lemma rel_mk cls lt A1 A2 A12 L1 L2 L12 c1 c2 c12 :
  arel cls A1 A2 A12 -> lrel lt L1 L2 L12 -> c1 = c2 -> c1 = c12 ->
  rel cls lt {| arrs := A1; locals := L1; ctrs := c1 |}
             {| arrs := A2; locals := L2; ctrs := c2 |}
             {| arrs := A12; locals := L12; ctrs := c12 |}.
Proof. intros; split; [|split; [|split]]; assumption. Qed.

Theorem lin_s_sound cls p : forall lt E1 E2 E12,
  lin_s cls lt p = true -> rel cls lt E1 E2 E12 ->
  rel cls lt (run p E1) (run p E2) (run p E12).
Proof.
  induction p as [|p1 IH1 p2 IH2|a i e|a i e|e body IH|rv lo hi body IH|d len s];
    intros lt E1 E2 E12 Hs Hr; cbn [lin_s] in Hs; cbn [run].
  - assumption.
  - apply andb_true_iff in Hs. destruct Hs as [Hs1 Hs2]. eauto.
  - (* SSet *)
    destruct (lin_e cls lt e) as [t|] eqn:He; [|discriminate].
    apply eqb_prop in Hs. pose proof (lin_e_sound _ _ _ _ _ Hr _ _ He) as V.
    destruct Hr as (HA & HL & C1 & C2). unfold set_arr. rewrite <- C1, <- C2.
    apply rel_mk; try assumption; try reflexivity.
    apply arel_upd; [assumption|]. apply R_upd with (t := t); assumption.
  - (* SXor *)
    destruct (lin_e cls lt e) as [t|] eqn:He; [|discriminate].
    apply eqb_prop in Hs. pose proof (lin_e_sound _ _ _ _ _ Hr _ _ He) as V.
    destruct Hr as (HA & HL & C1 & C2). unfold set_arr. rewrite <- C1, <- C2.
    apply rel_mk; try assumption; try reflexivity.
    apply arel_upd; [assumption|]. intros HR.
    pose proof (R_nth _ _ _ _ (ieval (ctrs E1) i) HR) as Vo.
    rewrite Hs in Vo, HR |- *.
    destruct t as [m|]; cbn [is_lin] in *.
    + eapply R_upd with (t := Some (N.lor 255 m)); [reflexivity| |assumption].
      apply vrel_xor; assumption.
    + eapply R_upd with (t := None); [reflexivity| |assumption].
      apply vrel_xor_pub; assumption.
  - (* SLet *)
    destruct (lin_e cls lt e) as [t|] eqn:He; [|discriminate].
    pose proof (lin_e_sound _ _ _ _ _ Hr _ _ He) as V.
    destruct Hr as (HA & HL & C1 & C2).
    apply rel_mk; try assumption; try reflexivity.
    refine (proj1 (IH _ _ _ _ Hs _)).
    apply rel_mk; try assumption; try reflexivity. apply lrel_snoc; assumption.
  - (* SFor *)
    destruct Hr as (HA & HL & C1 & C2).
    apply rel_mk; try assumption; try reflexivity.
    rewrite <- C1, <- C2.
    assert (Hstep : forall v A1 A2 A12, arel cls A1 A2 A12 ->
      arel cls
        (arrs (run body {| arrs := A1; locals := locals E1; ctrs := ctrs E1 ++ [v] |}))
        (arrs (run body {| arrs := A2; locals := locals E2; ctrs := ctrs E1 ++ [v] |}))
        (arrs (run body {| arrs := A12; locals := locals E12; ctrs := ctrs E1 ++ [v] |}))).
    { intros v A1 A2 A12 H. refine (proj1 (IH _ _ _ _ Hs _)).
      apply rel_mk; try assumption; reflexivity. }
    destruct rv.
    + apply (iter_down_rel cls _ _ _ Hstep); assumption.
    + apply (iter_up_rel cls _ _ _ Hstep); assumption.
  - (* SCopy *)
    apply eqb_prop in Hs.
    destruct Hr as (HA & HL & C1 & C2).
    apply rel_mk; try assumption; try reflexivity.
    apply arel_upd; [assumption|]. intros Hd.
    destruct HA as (_ & _ & HA). pose proof (HA s) as Hsrc. rewrite <- Hs in Hsrc.
    destruct (nth d cls false); cbn [R] in *.
    + apply lin3_app; [apply lin3_firstn|apply lin3_skipn]; assumption.
    + destruct Hd as [<- <-]. destruct Hsrc as [<- <-]. split; reflexivity.
Qed.
