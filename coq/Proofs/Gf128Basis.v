(** Reflection obligations on the *generated* program (re-established by
    computation on whatever mul_poly.rs currently says):
      - panic-freedom of every index / shift / copy ([gf_bounds_ok]);
      - the linearity type checks in both arguments;
      - agreement with the spec on all 128 x 128 monomial pairs. *)
From SL Require Import Lib.Base Model.ByteLang Model.Gf128 Gen.GfProg Proofs.GfBasisDef.
From SL.Proofs.GfBasis Require Import B00 B01 B02 B03 B04 B05 B06 B07 B08 B09 B10 B11 B12 B13 B14 B15.

Lemma gf_bounds_ok : sok gf_arr_lens 0 [] gf_body = true.
Proof. vm_compute. reflexivity. Qed.

(** linear in b for fixed a: array a public; b_data, c, b linear *)
Definition cls_b : list bool := [false; true; true; true].
(** linear in a for fixed b: a linear, b_data public, c linear, b (shifted copies of b_data) public *)
Definition cls_a : list bool := [true; false; true; false].

Lemma gf_lin_b_ok : lin_s cls_b [] gf_body = true.
Proof. vm_compute. reflexivity. Qed.
Lemma gf_lin_a_ok : lin_s cls_a [] gf_body = true.
Proof. vm_compute. reflexivity. Qed.

Opaque gf_prog gf_spec_bytes mono.

Lemma chunk_in k i : basis_chunk k = true -> (8 * k <= i < 8 * k + 8)%nat -> basis_row i = true.
Proof.
  unfold basis_chunk. intros H Hi. rewrite forallb_forall in H. apply H. apply in_seq. lia.
Qed.

Lemma gf_basis_row i : (i < 128)%nat -> basis_row i = true.
Proof.
  intros Hi.
  destruct (Nat.lt_ge_cases i 8) as [H0|H0]; [apply (chunk_in 0 i chunk_00); lia|].
  destruct (Nat.lt_ge_cases i 16) as [H1|H1]; [apply (chunk_in 1 i chunk_01); lia|].
  destruct (Nat.lt_ge_cases i 24) as [H2|H2]; [apply (chunk_in 2 i chunk_02); lia|].
  destruct (Nat.lt_ge_cases i 32) as [H3|H3]; [apply (chunk_in 3 i chunk_03); lia|].
  destruct (Nat.lt_ge_cases i 40) as [H4|H4]; [apply (chunk_in 4 i chunk_04); lia|].
  destruct (Nat.lt_ge_cases i 48) as [H5|H5]; [apply (chunk_in 5 i chunk_05); lia|].
  destruct (Nat.lt_ge_cases i 56) as [H6|H6]; [apply (chunk_in 6 i chunk_06); lia|].
  destruct (Nat.lt_ge_cases i 64) as [H7|H7]; [apply (chunk_in 7 i chunk_07); lia|].
  destruct (Nat.lt_ge_cases i 72) as [H8|H8]; [apply (chunk_in 8 i chunk_08); lia|].
  destruct (Nat.lt_ge_cases i 80) as [H9|H9]; [apply (chunk_in 9 i chunk_09); lia|].
  destruct (Nat.lt_ge_cases i 88) as [H10|H10]; [apply (chunk_in 10 i chunk_10); lia|].
  destruct (Nat.lt_ge_cases i 96) as [H11|H11]; [apply (chunk_in 11 i chunk_11); lia|].
  destruct (Nat.lt_ge_cases i 104) as [H12|H12]; [apply (chunk_in 12 i chunk_12); lia|].
  destruct (Nat.lt_ge_cases i 112) as [H13|H13]; [apply (chunk_in 13 i chunk_13); lia|].
  destruct (Nat.lt_ge_cases i 120) as [H14|H14]; [apply (chunk_in 14 i chunk_14); lia|].
  destruct (Nat.lt_ge_cases i 128) as [H15|H15]; [apply (chunk_in 15 i chunk_15); lia|].
  lia.
Qed.

Lemma gf_basis_agree_all i j : (i < 128)%nat -> (j < 128)%nat ->
  gf_prog (mono i) (mono j) = gf_spec_bytes (mono i) (mono j).
Proof.
  intros Hi Hj. pose proof (gf_basis_row i Hi) as H. unfold basis_row in H.
  pose proof (proj1 (forallb_forall _ _) H j) as Hj'. cbv beta in Hj'.
  assert (Hin : In j idx128).
  { unfold idx128. apply (proj2 (in_seq 128 0 j)). split; [apply Nat.le_0_l|exact Hj]. }
  exact (proj1 (bytes_eqb_eq _ _) (Hj' Hin)).
Qed.
