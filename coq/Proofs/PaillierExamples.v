(** Non-vacuity: the premises [widths_ok] and [key_ok] are satisfiable -- the four limb configurations,
    the handbook key (11, 17) (p<q and p>q) and a pair of 32-bit primes whose product has 64 bits (p>q) / and a
    pair whose product has 63 bits.  Primality of the concrete numbers is established by a verified
    trial-division checker run in the kernel ([vm_compute]), which limits THESE Examples to primes of about
    32 bits; Proofs/PaillierPrimes.v adds a Pocklington certificate checker and pairs of 64-bit primes.
    (Primality of the key-sized primes used by the harness is NOT certified: they come from num-bigint-dig's
    probabilistic test.) *)
From Coq Require Import ZArith Znumtheory Lia List.
From SL Require Import Lib.Base Model.Paillier.
Local Open Scope Z_scope.

Fixpoint no_divisor_from (fuel : nat) (d p : Z) : bool :=
  match fuel with
  | O => true
  | S k => if p mod d =? 0 then false else no_divisor_from k (d + 1) p
  end.

(** trial division by 2 .. sqrt p *)
Definition prime_check (p : Z) : bool :=
  (1 <? p) && no_divisor_from (Z.to_nat (Z.sqrt p - 1)) 2 p.

Lemma no_divisor_from_spec fuel : forall d p, 0 < d -> no_divisor_from fuel d p = true ->
  forall e, d <= e < d + Z.of_nat fuel -> ~ (e | p).
Proof.
  induction fuel as [|k IH]; intros d p Hd H e He Hdiv; [lia|].
  cbn [no_divisor_from] in H. destruct (Z.eqb_spec (p mod d) 0) as [E|E]; [discriminate|].
  destruct (Z.eq_dec e d) as [->|Hne].
  - apply E. apply Z.mod_divide; [lia|exact Hdiv].
  - apply (IH (d + 1) p ltac:(lia) H e); [lia|exact Hdiv].
Qed.

Theorem prime_check_sound p : prime_check p = true -> prime p.
Proof.
  unfold prime_check. intros H. apply andb_prop in H. destruct H as [H1 H2]. apply Z.ltb_lt in H1.
  apply prime_alt. split; [exact H1|]. intros d Hd Hdiv.
  pose proof (Z.sqrt_spec p ltac:(lia)) as S. cbv zeta in S. pose proof (Z.sqrt_nonneg p) as S0. set (s := Z.sqrt p) in *.
  destruct Hdiv as [e He].
  assert (He1 : 1 < e < p) by nia.
  (* one of d, e is at most s *)
  assert (Hsmall : exists f, 2 <= f <= s /\ (f | p)).
  { destruct (Z_le_gt_dec d s).
    - exists d. split; [lia|]. exists e; lia.
    - destruct (Z_le_gt_dec e s).
      + exists e. split; [lia|]. exists d; lia.
      + exfalso. assert (Z.succ s * Z.succ s <= e * d) by (apply Z.mul_le_mono_nonneg; lia). nia. }
  destruct Hsmall as (f & Hf & Hfd).
  refine (no_divisor_from_spec _ 2 p ltac:(lia) H2 f _ Hfd).
  rewrite Z2Nat.id by lia. lia.
Qed.

Example widths_ok_512 : widths_ok cfg512. Proof. repeat split. Qed.
Example widths_ok_1024 : widths_ok cfg1024. Proof. repeat split. Qed.
Example widths_ok_2048 : widths_ok cfg2048. Proof. repeat split. Qed.
Example widths_ok_4096 : widths_ok cfg4096. Proof. repeat split. Qed.

Ltac key_ok_tac :=
  unfold key_ok;
  split; [apply prime_check_sound; vm_compute; reflexivity|];
  split; [apply prime_check_sound; vm_compute; reflexivity|];
  split; [discriminate|];
  split; [vm_compute; reflexivity|]; split; [vm_compute; reflexivity|]; split; [vm_compute; reflexivity|];
  split; [vm_compute; reflexivity|]; split; vm_compute; reflexivity.

(** the handbook key, both orders, in the smallest and in the largest configuration *)
Example key_ok_11_17 : key_ok cfg512 11 17. Proof. key_ok_tac. Qed.
Example key_ok_17_11 : key_ok cfg512 17 11. Proof. key_ok_tac. Qed.
Example key_ok_11_17_4096 : key_ok cfg4096 11 17. Proof. key_ok_tac. Qed.

(** 32-bit primes: 4294967291 = 2^32 - 5 and 4294967279 = 2^32 - 17 (product of 64 bits = 2k bits for k = 32),
    3000000019 and 2147483659 (product of 63 bits = 2k-1 bits); p > q and p < q *)
Example key_ok_32bit_gt : key_ok cfg512 4294967291 4294967279. Proof. key_ok_tac. Qed.
Example key_ok_32bit_lt : key_ok cfg512 2147483659 3000000019. Proof. key_ok_tac. Qed.
