(** Closed forms of the C01/C02 lemmas: the statements of Props/C01.v and Props/C02.v, with their
    vocabulary. *)
From SL Require Import Lib.Base Lib.Oracle Lib.ZqGroup Gen.Params Model.Gf128 Model.SoftSpoken Model.Endemic
  Model.RvoleCore Model.Rvole.
From SL Require Import Proofs.Gf128Spec Proofs.SoftSpokenBytes Proofs.SoftSpokenC03 Proofs.Endemic Proofs.EndemicThm.
From SL Require Import Proofs.RvoleLemmas Proofs.RvoleCorrect Proofs.RvoleTamper Proofs.RvolePipeline Proofs.RvoleOtReply.
Local Open Scope Z_scope.

(* ------------------------------------------------------------------ vocabulary *)
Definition accepted (r : outcome (list Z)) : Prop := exists d, r = Val d.

(** the two mu-hash queries are different, yet the oracle answers coincide *)
Definition mu_collision (H : transcript_oracle) (sid : list N) (X Y : list (list N)) : Prop :=
  X <> Y /\ mu_query sid X <> mu_query sid Y /\ H (mu_query sid X) = H (mu_query sid Y).

(** the items the receiver hashes for message m: recv_mu = H (mu_query sid (recv_items ..)) *)
Definition recv_items H q xi lb rho sid (beta : nat -> bool) (vx : mat) (m : rmsg) : list (list N) :=
  items_of xi rho (recv_item q lb beta vx (cell (m_atilde m)) (fun k => nth k (m_eta m) [])
                             (thetas H q xi lb rho sid (cell (m_atilde m)))).

(** the honest sender's message and the items it hashes *)
Definition honest_msg H q xi lb rho sid v0 v1 a eta_tape : rmsg :=
  fst (rvole_send_core H q xi lb rho sid v0 v1 a eta_tape).
Definition send_items H q xi lb rho sid v0 v1 a eta_tape : list (list N) :=
  items_of xi rho (send_item q lb v0
                     (thetas H q xi lb rho sid (cell (m_atilde (honest_msg H q xi lb rho sid v0 v1 a eta_tape))))).

(** the adversary's message, the items it hashes, and theta'[k] . Delta_j for its fresh theta' *)
Definition adv_thetas H q xi lb rho sid v0 v1 a eta_tape spec : list Z :=
  thetas H q xi lb rho sid (cell (m_atilde (adv_sender H q xi lb rho sid v0 v1 a eta_tape spec))).
Definition adv_items H q xi lb rho sid v0 v1 a eta_tape spec : list (list N) :=
  items_of xi rho (adv_item q lb v0 spec a (adv_thetas H q xi lb rho sid v0 v1 a eta_tape spec)).
Definition theta_dot_delta H q xi lb rho sid v0 v1 a eta_tape spec (j k : nat) : Z :=
  theta_dot lb (adv_thetas H q xi lb rho sid v0 v1 a eta_tape spec) k (adv_delta spec a j).
Definition attacked (spec : adv_spec) (j : nat) : Prop := In j (map fst spec).

Lemma recv_mu_items H q xi lb rho sid beta vx m :
  recv_mu H q xi lb rho sid beta vx m = H (mu_query sid (recv_items H q xi lb rho sid beta vx m)).
Proof. reflexivity. Qed.

(* ================================================================== C01 *)
Lemma rvole_correct_closed : forall (H : transcript_oracle) (q : Z) (xi lb rho : nat), 0 < q <= 2 ^ 256 ->
  forall (sid : list N) (v0 v1 vx : mat) (beta : nat -> bool) (a : list Z) (eta_tape : list (list N)),
  ot_correlated xi (lb + rho) beta v0 v1 vx ->
  let sent := rvole_send_core H q xi lb rho sid v0 v1 a eta_tape in
  exists d, rvole_recv_core H q xi lb rho sid beta vx (fst sent) = Val d /\
    forall i, (i < lb)%nat ->
      (nth i (snd sent) 0 + nth i d 0) mod q = (nth i a 0 * rvole_b H q xi sid beta) mod q.
Proof. exact rvole_correct_core. Qed.

Lemma rvole_ot_variant_correct_closed : forall (H : transcript_oracle) (q : Z) (xi lb rho : nat), 0 < q <= 2 ^ 256 ->
  forall (sid : list N) (keys0 keys1 keysx : nat -> list N) (beta : nat -> bool) (a : list Z) (eta_tape : list (list N)),
  (forall j, (j < xi)%nat -> keysx j = if beta j then keys1 j else keys0 j) ->
  let sent := rvole_ot_send_core H q xi lb rho sid keys0 keys1 a eta_tape in
  exists d, rvole_ot_recv_core H q xi lb rho sid beta keysx (fst sent) = Val d /\
    forall i, (i < lb)%nat ->
      (nth i (snd sent) 0 + nth i d 0) mod q = (nth i a 0 * rvole_b H q xi sid beta) mod q.
Proof. exact rvole_ot_variant_correct_core. Qed.

Lemma rvole_pipeline_correct_closed : forall (H : transcript_oracle) (q : Z), 0 < q <= 2 ^ 256 ->
  forall sid ss rs beta tape (a : list Z) (eta_tape : list (list N)),
  seeds_ok ss rs -> rowP ssLB beta -> rowP ssSB tape ->
  let new := rvole_recv_new H q sid ss round1_default beta tape in
  let st := fst (fst new) in let b := snd (fst new) in let r1 := snd new in
  exists m c d,
    rvole_send_process H q sid rs a r1 eta_tape = Val (m, c) /\
    rvole_recv_process H q st m = Val d /\
    b = rvole_b H q rv_xi sid (rv_bit beta) /\
    forall i, (i < rv_lb)%nat -> (nth i c 0 + nth i d 0) mod q = (nth i a 0 * b) mod q.
Proof. exact rvole_pipeline_correct_lem. Qed.

(** ... in particular with the seeds of generate_all_but_one_seed_ot, for every rng tape of it *)
Lemma rvole_pipeline_synthetic_closed : forall (H : transcript_oracle) (q : Z), 0 < q <= 2 ^ 256 ->
  forall sid keys picks beta tape (a : list Z) (eta_tape : list (list N)),
  length keys = ssTrees -> (forall i, (i < ssTrees)%nat -> length (nth i keys []) = ssQ) ->
  length picks = ssTrees -> (forall i, (i < ssTrees)%nat -> (nth i picks 0 < 16)%N) ->
  rowP ssLB beta -> rowP ssSB tape ->
  let seeds := gen_seed_ot keys picks in
  let new := rvole_recv_new H q sid (fst seeds) round1_default beta tape in
  exists m c d,
    rvole_send_process H q sid (snd seeds) a (snd new) eta_tape = Val (m, c) /\
    rvole_recv_process H q (fst (fst new)) m = Val d /\
    forall i, (i < rv_lb)%nat -> (nth i c 0 + nth i d 0) mod q = (nth i a 0 * snd (fst new)) mod q.
Proof.
  intros H q Q sid keys picks beta tape a eta_tape K1 K2 P1 P2 R1 R2 seeds new.
  pose proof (gen_seed_ot_ok_lem keys picks K1 K2 P1 P2) as S.
  destruct (rvole_pipeline_correct_lem H q Q sid (fst seeds) (snd seeds) beta tape a eta_tape S R1 R2)
    as [m [c [d [E1 [E2 [_ E3]]]]]].
  exists m, c, d. split; [exact E1|]. split; [exact E2|exact E3].
Qed.

Lemma rvole_ot_pipeline_correct_closed :
  forall G (O : group_ops G) (H : transcript_oracle) (q : Z),
  group_laws q O -> enc33_roundtrip G O -> 0 < q <= 2 ^ 256 ->
  forall sid bits_a tas_a ros_a bits_b tas_b ros_b (a : list Z) tbs_a tbs_b (eta_tape : list (list N)),
  length bits_a = 32%nat -> length bits_b = 32%nat ->
  exists st b m1a m1b m2a m2b m c d,
    rvole_ot_recv_new H q G O sid bits_a tas_a ros_a bits_b tas_b ros_b = Val ((st, b), (m1a, m1b)) /\
    rvole_ot_send_process H q G O sid a m1a m1b tbs_a tbs_b eta_tape = ((m2a, m2b), Val (m, c)) /\
    rvole_ot_recv_process H q G O st m2a m2b m = Val d /\
    b = rvole_b H q rv_xi sid (rv_bit (bits_a ++ bits_b)) /\
    forall i, (i < rv_lb)%nat -> (nth i c 0 + nth i d 0) mod q = (nth i a 0 * b) mod q.
Proof. exact rvole_ot_pipeline_correct_lem. Qed.

(* ================================================================== C02 *)
Lemma rvole_honest_accepted_closed : forall (H : transcript_oracle) (q : Z) (xi lb rho : nat), 0 < q <= 2 ^ 256 ->
  forall (sid : list N) (v0 v1 vx : mat) (beta : nat -> bool) (a : list Z) (eta_tape : list (list N)),
  ot_correlated xi (lb + rho) beta v0 v1 vx ->
  accepted (rvole_recv_core H q xi lb rho sid beta vx (honest_msg H q xi lb rho sid v0 v1 a eta_tape)).
Proof. exact rvole_honest_accepted_core. Qed.

Lemma rvole_flip_mu_hash_rejected_closed : forall (H : transcript_oracle) (q : Z) (xi lb rho : nat)
  (sid : list N) (beta : nat -> bool) (vx : mat) (m m' : rmsg),
  m_atilde m' = m_atilde m -> m_eta m' = m_eta m -> m_mu m' <> m_mu m ->
  accepted (rvole_recv_core H q xi lb rho sid beta vx m) ->
  rvole_recv_core H q xi lb rho sid beta vx m' = Err rv_err_check.
Proof. exact flip_mu_hash_rejected_lem. Qed.

Lemma rvole_flip_eta_rejected_closed : forall (H : transcript_oracle) (q : Z) (xi lb rho : nat), 0 < q <= 2 ^ 256 ->
  forall (sid : list N) (v0 v1 vx : mat) (beta : nat -> bool) (a : list Z) (eta_tape : list (list N)),
  ot_correlated xi (lb + rho) beta v0 v1 vx ->
  let msg := honest_msg H q xi lb rho sid v0 v1 a eta_tape in
  forall m', m_atilde m' = m_atilde msg -> m_mu m' = m_mu msg ->
  ((forall k, (k < rho)%nat -> reduce_be q (nth k (m_eta m') []) = reduce_be q (nth k (m_eta msg) [])) ->
     rvole_recv_core H q xi lb rho sid beta vx m' = rvole_recv_core H q xi lb rho sid beta vx msg) /\
  (forall j0 k0, (j0 < xi)%nat -> beta j0 = true -> (k0 < rho)%nat ->
     reduce_be q (nth k0 (m_eta m') []) <> reduce_be q (nth k0 (m_eta msg) []) ->
     accepted (rvole_recv_core H q xi lb rho sid beta vx m') ->
     mu_collision H sid (recv_items H q xi lb rho sid beta vx m') (send_items H q xi lb rho sid v0 v1 a eta_tape)).
Proof.
  intros H q xi lb rho Q sid v0 v1 vx beta a eta_tape OT msg m' EA EM. split.
  - intros EE. apply eta_same_residue_lem; assumption.
  - intros j0 k0 Lj B Lk NE ACC.
    pose proof (flip_eta_collision_lem H q xi lb rho Q sid v0 v1 vx beta a eta_tape OT m' j0 k0 EA EM Lj B Lk NE ACC) as C.
    cbv zeta in C. unfold mu_collision, recv_items, send_items. rewrite EA. exact C.
Qed.

Lemma rvole_tamper_atilde_char_closed : forall (H : transcript_oracle) (q : Z) (xi lb rho : nat), 0 < q <= 2 ^ 256 ->
  forall (sid : list N) (v0 v1 vx : mat) (beta : nat -> bool) (a : list Z) (eta_tape : list (list N)),
  ot_correlated xi (lb + rho) beta v0 v1 vx ->
  let msg := honest_msg H q xi lb rho sid v0 v1 a eta_tape in
  forall m', m_eta m' = m_eta msg -> m_mu m' = m_mu msg ->
  (exists j c, (j < xi)%nat /\ (c < lb + rho)%nat /\ cell (m_atilde m') j c <> cell (m_atilde msg) j c) ->
  let th := thetas H q xi lb rho sid (cell (m_atilde msg)) in
  let th' := thetas H q xi lb rho sid (cell (m_atilde m')) in
  let delta := fun j c => alpha q (cell (m_atilde m')) j c - alpha q (cell (m_atilde msg)) j c in
  (* the theta query is a different query *)
  theta_pre xi lb rho sid (cell (m_atilde m')) <> theta_pre xi lb rho sid (cell (m_atilde msg)) /\
  (accepted (rvole_recv_core H q xi lb rho sid beta vx m') ->
     mu_collision H sid (recv_items H q xi lb rho sid beta vx m') (send_items H q xi lb rho sid v0 v1 a eta_tape) \/
     forall j k, (j < xi)%nat -> (k < rho)%nat ->
       let F := fun i => alpha q v0 j i + b2z (beta j) * nth i a 0 in
       (theta_dot lb th' k F - theta_dot lb th k F
        + b2z (beta j) * (theta_dot lb th' k (delta j) + delta j (lb + k)%nat)) mod q = 0).
Proof.
  intros H q xi lb rho Q sid v0 v1 vx beta a eta_tape OT msg m' EE EM D th th' delta.
  exact (tamper_atilde_lem H q xi lb rho Q sid v0 v1 vx beta a eta_tape OT m' EE EM D).
Qed.

Lemma rvole_selective_failure_closed : forall (H : transcript_oracle) (q : Z) (xi lb rho : nat), 0 < q <= 2 ^ 256 ->
  forall (sid : list N) (v0 v1 vx : mat) (beta : nat -> bool) (a : list Z) (eta_tape : list (list N)),
  ot_correlated xi (lb + rho) beta v0 v1 vx ->
  forall spec : adv_spec,
  let madv := adv_sender H q xi lb rho sid v0 v1 a eta_tape spec in
  let YA := adv_items H q xi lb rho sid v0 v1 a eta_tape spec in
  let XA := recv_items H q xi lb rho sid beta vx madv in
  (* theta'.Delta_j <> 0 at every attacked position *)
  (forall j, (j < xi)%nat -> attacked spec j ->
     exists k, (k < rho)%nat /\ theta_dot_delta H q xi lb rho sid v0 v1 a eta_tape spec j k mod q <> 0) ->
  (* no collision of the mu hash on these two item lists *)
  (H (mu_query sid YA) = H (mu_query sid XA) -> YA = XA) ->
  (accepted (rvole_recv_core H q xi lb rho sid beta vx madv) <->
   forall j, (j < xi)%nat -> attacked spec j -> adv_guess spec j = beta j).
Proof.
  intros H q xi lb rho Q sid v0 v1 vx beta a eta_tape OT spec madv YA XA ND NC.
  exact (selective_failure_lem H q xi lb rho Q sid v0 v1 vx beta a eta_tape OT spec ND NC).
Qed.

Lemma rvole_selective_failure_uncond_closed : forall (H : transcript_oracle) (q : Z) (xi lb rho : nat), 0 < q <= 2 ^ 256 ->
  forall (sid : list N) (v0 v1 vx : mat) (beta : nat -> bool) (a : list Z) (eta_tape : list (list N)),
  ot_correlated xi (lb + rho) beta v0 v1 vx ->
  forall spec : adv_spec,
  let madv := adv_sender H q xi lb rho sid v0 v1 a eta_tape spec in
  let YA := adv_items H q xi lb rho sid v0 v1 a eta_tape spec in
  let XA := recv_items H q xi lb rho sid beta vx madv in
  ((forall j, (j < xi)%nat -> attacked spec j -> adv_guess spec j = beta j) ->
   accepted (rvole_recv_core H q xi lb rho sid beta vx madv)) /\
  (accepted (rvole_recv_core H q xi lb rho sid beta vx madv) ->
   forall j k, (j < xi)%nat -> (k < rho)%nat -> adv_guess spec j <> beta j ->
     theta_dot_delta H q xi lb rho sid v0 v1 a eta_tape spec j k mod q <> 0 ->
     mu_collision H sid XA YA).
Proof.
  intros H q xi lb rho Q sid v0 v1 vx beta a eta_tape OT spec madv YA XA.
  destruct (selective_failure_uncond_lem H q xi lb rho Q sid v0 v1 vx beta a eta_tape OT spec) as [A B].
  split; [exact A|]. intros ACC j k Lj Lk NG NZ.
  destruct (B ACC j k Lj Lk NG NZ) as [N1 [N2 E]].
  split; [exact N1|]. split; [intros E2; apply N2; symmetry; exact E2|symmetry; exact E].
Qed.

Lemma rvole_zero_bit_unaffected_closed : forall (H : transcript_oracle) (q : Z) (xi lb rho : nat), 0 < q <= 2 ^ 256 ->
  forall (sid : list N) (v0 v1 vx : mat) (beta : nat -> bool) (a : list Z) (eta_tape : list (list N)),
  ot_correlated xi (lb + rho) beta v0 v1 vx ->
  forall spec : adv_spec,
  let madv := adv_sender H q xi lb rho sid v0 v1 a eta_tape spec in
  (* row level, for ANY message: a row with beta_j = 0 never reads the message *)
  (forall (at_ : mat) j c, beta j = false -> dd q beta vx at_ j c = alpha q vx j c mod q) /\
  (* all attacked positions carry a zero bit: shares and relation are those of the honest run *)
  ((forall j, (j < xi)%nat -> attacked spec j -> beta j = false) ->
   recv_shares H q xi lb sid beta vx madv =
   recv_shares H q xi lb sid beta vx (honest_msg H q xi lb rho sid v0 v1 a eta_tape) /\
   forall d, rvole_recv_core H q xi lb rho sid beta vx madv = Val d ->
     forall i, (i < lb)%nat ->
       (nth i (snd (rvole_send_core H q xi lb rho sid v0 v1 a eta_tape)) 0 + nth i d 0) mod q =
       (nth i a 0 * rvole_b H q xi sid beta) mod q).
Proof.
  intros H q xi lb rho Q sid v0 v1 vx beta a eta_tape OT spec madv. split.
  - intros at_ j c B. apply zero_bit_row_lem. exact B.
  - intros Z0. split.
    + exact (zero_bit_unaffected_lem H q xi lb rho sid v0 v1 vx beta a eta_tape spec Z0).
    + exact (zero_bit_relation_lem H q xi lb rho Q sid v0 v1 vx beta a eta_tape OT spec Z0).
Qed.

Lemma rvole_adv_nil_is_honest_closed : forall H q xi lb rho sid v0 v1 a eta_tape,
  adv_sender H q xi lb rho sid v0 v1 a eta_tape [] = honest_msg H q xi lb rho sid v0 v1 a eta_tape.
Proof. exact adv_sender_nil. Qed.

(** the composed receivers reject a changed digest as well (both variants) *)
Lemma rvole_process_flip_mu_hash_closed : forall (H : transcript_oracle) (q : Z) (st : rv_state) (m m' : rmsg),
  m_atilde m' = m_atilde m -> m_eta m' = m_eta m -> m_mu m' <> m_mu m ->
  accepted (rvole_recv_process H q st m) -> rvole_recv_process H q st m' = Err rv_err_check.
Proof. intros H q st m m'. unfold rvole_recv_process. apply flip_mu_hash_rejected_lem. Qed.

Lemma rvole_ot_process_flip_mu_hash_closed : forall G (O : group_ops G) (H : transcript_oracle) (q : Z)
  (st : rvo_state) m2a m2b (m m' : rmsg),
  m_atilde m' = m_atilde m -> m_eta m' = m_eta m -> m_mu m' <> m_mu m ->
  accepted (rvole_ot_recv_process H q G O st m2a m2b m) ->
  rvole_ot_recv_process H q G O st m2a m2b m' = Err rv_err_check.
Proof.
  intros G O H q st m2a m2b m m' EA EE NM. unfold rvole_ot_recv_process.
  destruct (eot_receiver_process G O H (ro_a st) m2a) as [[ba ka]|e|p]; try (intros [d D]; discriminate).
  destruct (eot_receiver_process G O H (ro_b st) m2b) as [[bb kb]|e|p]; try (intros [d D]; discriminate).
  destruct (length ka + length kb =? rv_xi)%nat; [|intros [d D]; discriminate].
  unfold rvole_ot_recv_core. apply flip_mu_hash_rejected_lem; assumption.
Qed.

(** base-OT variant, corruption confined to the embedded base-OT replies.  PARTIAL: see the header of
    Proofs/RvoleOtReply.v for the sentence that is not a theorem. *)
Lemma rvole_ot_reply_tamper_partial_closed : forall G (O : group_ops G) (H : transcript_oracle) (q : Z)
  (st : rvo_state) m2a m2b (m : rmsg),
  (forall m2a' m2b',
     (forall idx, (idx < eot_n)%nat -> read_side (ro_a st) m2a' idx = read_side (ro_a st) m2a idx) ->
     (forall idx, (idx < eot_n)%nat -> read_side (ro_b st) m2b' idx = read_side (ro_b st) m2b idx) ->
     rvole_ot_recv_process H q G O st m2a' m2b' m = rvole_ot_recv_process H q G O st m2a m2b m) /\
  ((exists idx, (idx < eot_n)%nat /\ g_dec O (read_side (ro_a st) m2a idx) = None) \/
   ((forall idx, (idx < eot_n)%nat -> g_dec O (read_side (ro_a st) m2a idx) <> None) /\
    exists idx, (idx < eot_n)%nat /\ g_dec O (read_side (ro_b st) m2b idx) = None) ->
   rvole_ot_recv_process H q G O st m2a m2b m = Err rv_err_decode).
Proof. exact rvole_ot_reply_tamper_partial_lem. Qed.

(* ================================================================== non-vacuity *)
(** The premises are satisfiable: the secp256k1 order lies in the allowed range, and any OT-layer
    output in which v_x is read off (v_0, v_1) by beta is correlated. *)
Definition secp256k1_q : Z := 0xFFFFFFFFFFFFFFFFFFFFFFFFFFFFFFFEBAAEDCE6AF48A03BBFD25E8CD0364141.

Lemma rvole_hyps_satisfiable_lem :
  0 < secp256k1_q <= 2 ^ 256 /\
  forall xi w (beta : nat -> bool) (v0 v1 : mat),
    ot_correlated xi w beta v0 v1 (fun j k => if beta j then v1 j k else v0 j k).
Proof.
  split; [unfold secp256k1_q; split; [reflexivity|]; intros E; vm_compute in E; discriminate|].
  intros xi w beta v0 v1 j k _ _. reflexivity.
Qed.

(** A concrete instance of the premises of [rvole_selective_failure] (one row, constant oracle, q = 251,
    replacement input a+1, the guess equal to the receiver's bit): non-degenerate and collision-free. *)
Definition ex_H : transcript_oracle := fun _ => [3%N].
Definition ex_mat0 : mat := fun _ _ => [5%N].
Definition ex_mat1 : mat := fun _ _ => [9%N].
Definition ex_spec : adv_spec := [(0%nat, ([8], true))].

Lemma rvole_selective_hyps_satisfiable_lem :
  let beta := fun _ : nat => true in
  ot_correlated 1 2 beta ex_mat0 ex_mat1 ex_mat1 /\ 0 < 251 <= 2 ^ 256 /\
  (forall j, (j < 1)%nat -> attacked ex_spec j ->
     exists k, (k < 1)%nat /\ theta_dot_delta ex_H 251 1 1 1 [] ex_mat0 ex_mat1 [7] [[1%N]] ex_spec j k mod 251 <> 0) /\
  (ex_H (mu_query [] (adv_items ex_H 251 1 1 1 [] ex_mat0 ex_mat1 [7] [[1%N]] ex_spec)) =
   ex_H (mu_query [] (recv_items ex_H 251 1 1 1 [] beta ex_mat1
                        (adv_sender ex_H 251 1 1 1 [] ex_mat0 ex_mat1 [7] [[1%N]] ex_spec))) ->
   adv_items ex_H 251 1 1 1 [] ex_mat0 ex_mat1 [7] [[1%N]] ex_spec =
   recv_items ex_H 251 1 1 1 [] beta ex_mat1 (adv_sender ex_H 251 1 1 1 [] ex_mat0 ex_mat1 [7] [[1%N]] ex_spec)).
Proof.
  intros beta. split; [intros j k _ _; reflexivity|]. split; [split; [reflexivity|intros E; vm_compute in E; discriminate]|].
  split.
  - intros j Lj _. exists 0%nat. split; [lia|]. assert (j = 0)%nat by lia. subst j. vm_compute. discriminate.
  - intros _. vm_compute. reflexivity.
Qed.
