(** The one-page abstract specification of the relay (no heap, no lazy cleanup) and the refinement theorem;
    the ghost expiry of [Ready] is never read by the model; the non-vacuity example history. *)
From SL Require Import Lib.Base Model.Relay Proofs.RelayMap Proofs.RelayCleanup Proofs.RelayInv.
Local Open Scope N_scope.

(** * Abstract specification
    Per id the store holds either the first publication of the id's current lifetime together with its own
    expiry, or the connections waiting for it together with the maximum of their asks' expiries.
    Every ask / publication at clock [now] first forgets every entry whose expiry is [<= now]. *)

Record astate := mkA {
  a_msgs  : list (msgid * entry);
  a_queue : list (conn * frame);
  a_chan  : list (conn * frame);
}.

Definition a_init : astate := mkA [] [] [].

Definition a_expire (now : time) (a : astate) : astate := mkA (live now (a_msgs a)) (a_queue a) (a_chan a).

Definition a_publish (f : frame) (now : time) (a : astate) : astate :=
  let a1 := a_expire now a in
  let id := hdr_id f in
  match lookup id (a_msgs a1) with
  | Some (Waiters _ l) =>        (* every waiter gets a copy; the message is stored with its own expiry *)
      mkA (insert id (Ready (now + hdr_ttl f) f) (a_msgs a1)) (a_queue a1) (a_chan a1 ++ map (fun c => (c, f)) l)
  | Some (Ready _ _) => a1       (* a live publication is already stored: ignored *)
  | None => mkA (insert id (Ready (now + hdr_ttl f) f) (a_msgs a1)) (a_queue a1) (a_chan a1)
  end.

Definition a_ask (c : conn) (id : msgid) (ttl : N) (now : time) (a : astate) : astate :=
  let a1 := a_expire now a in
  match lookup id (a_msgs a1) with
  | Some (Ready _ m) => mkA (a_msgs a1) ((c, m) :: a_queue a1) (a_chan a1)     (* answered at once *)
  | Some (Waiters prev l) => mkA (insert id (Waiters (N.max (now + ttl) prev) (l ++ [c])) (a_msgs a1)) (a_queue a1) (a_chan a1)
  | None => mkA (insert id (Waiters (now + ttl) [c]) (a_msgs a1)) (a_queue a1) (a_chan a1)
  end.

Definition a_pending (c : conn) (a : astate) : list frame :=
  map snd (filter (on_conn c) (a_queue a)) ++ map snd (filter (on_conn c) (a_chan a)).

Definition astep (a : astate) (o : op) : astate * list obs :=
  match o with
  | OSend c f t =>
      if Nat.ltb (length f) HDR_SIZE then (a, [ObsSend false])
      else if Nat.eqb (length f) HDR_SIZE then (a_ask c (hdr_id f) (hdr_ttl f) t a, [ObsSend true])
      else (a_publish f t a, [ObsSend true])
  | ORelaySend f t => if Nat.leb (length f) HDR_SIZE then (a, []) else (a_publish f t a, [])
  | ODrain c =>
      (mkA (a_msgs a) (filter (not_on_conn c) (a_queue a)) (filter (not_on_conn c) (a_chan a)),
       [ObsDrain c (a_pending c a)])
  | OMessages => (a, [ObsMsgs (map fst (a_msgs a))])
  end.

Definition aexec (a : astate) (h : list op) : astate := fold_left (fun a o => fst (astep a o)) h a.
Fixpoint atrace (a : astate) (h : list op) : list (list obs) :=
  match h with [] => [] | o :: r => snd (astep a o) :: atrace (fst (astep a o)) r end.

(** * Refinement: forget the heap *)
Definition abs (s : state) : astate := mkA (msgs s) (queue s) (chan s).

Lemma abs_cleanup T s now : Inv T s -> abs (cleanup now s) = a_expire now (abs s).
Proof. intros I. rewrite (cleanup_live T s now I). reflexivity. Qed.

Lemma abs_send_post f now s1 :
  abs (send_post f now s1) =
  match lookup (hdr_id f) (msgs s1) with
  | Some (Waiters _ l) =>
      mkA (insert (hdr_id f) (Ready (now + hdr_ttl f) f) (msgs s1)) (queue s1) (chan s1 ++ map (fun c => (c, f)) l)
  | Some (Ready _ _) => abs s1
  | None => mkA (insert (hdr_id f) (Ready (now + hdr_ttl f) f) (msgs s1)) (queue s1) (chan s1)
  end.
Proof. unfold send_post. destruct (lookup (hdr_id f) (msgs s1)) as [[? ?|? ?]|]; reflexivity. Qed.

Lemma abs_recv_post c id ttl now s1 :
  abs (recv_post c id ttl now s1) =
  match lookup id (msgs s1) with
  | Some (Ready _ m) => mkA (msgs s1) ((c, m) :: queue s1) (chan s1)
  | Some (Waiters prev l) => mkA (insert id (Waiters (N.max (now + ttl) prev) (l ++ [c])) (msgs s1)) (queue s1) (chan s1)
  | None => mkA (insert id (Waiters (now + ttl) [c]) (msgs s1)) (queue s1) (chan s1)
  end.
Proof. unfold recv_post. destruct (lookup id (msgs s1)) as [[? ?|? ?]|]; reflexivity. Qed.

Lemma abs_publish T s f now : Inv T s -> abs (send_post f now (cleanup now s)) = a_publish f now (abs s).
Proof.
  intros I. rewrite abs_send_post. unfold a_publish. rewrite <- (abs_cleanup T s now I). reflexivity.
Qed.

Lemma abs_ask T s c id ttl now : Inv T s -> abs (recv_post c id ttl now (cleanup now s)) = a_ask c id ttl now (abs s).
Proof.
  intros I. rewrite abs_recv_post. unfold a_ask. rewrite <- (abs_cleanup T s now I). reflexivity.
Qed.

Theorem step_refines T s o : Inv T s ->
  abs (fst (step s o)) = fst (astep (abs s) o) /\ snd (step s o) = snd (astep (abs s) o).
Proof.
  intros I. destruct o as [c f t|f t|c|]; cbn [step astep].
  - unfold hdr_ok. rewrite Nat.ltb_antisym. destruct (Nat.leb HDR_SIZE (length f)) eqn:A; cbn [negb].
    + destruct (Nat.eqb (length f) HDR_SIZE) eqn:B; cbn [fst snd]; split; try reflexivity.
      * rewrite inner_recv_unfold. apply (abs_ask T); exact I.
      * rewrite inner_send_unfold. apply Nat.leb_le in A. apply Nat.eqb_neq in B.
        replace (Nat.leb (length f) HDR_SIZE) with false by (symmetry; apply Nat.leb_gt; lia).
        apply (abs_publish T); exact I.
    + split; reflexivity.
  - rewrite inner_send_unfold. destruct (Nat.leb (length f) HDR_SIZE); cbn [fst snd]; split; try reflexivity.
    apply (abs_publish T); exact I.
  - split; reflexivity.
  - split; reflexivity.
Qed.

(** Every history: the relay (heap, lazy cleanup, stale entries) makes exactly the observations of the
    specification and stays in the corresponding state. *)
Theorem relay_refines_spec_proof : forall h,
  trace init h = atrace a_init h /\ abs (exec init h) = aexec a_init h.
Proof.
  assert (G : forall h T s, Inv T s -> trace s h = atrace (abs s) h /\ abs (exec s h) = aexec (abs s) h).
  { induction h as [|o r IH]; intros T s I; cbn [trace atrace exec aexec fold_left]; [split; reflexivity|].
    destruct (step_refines T s o I) as [E1 E2]. rewrite <- E1, <- E2.
    destruct (IH _ _ (step_inv T s o I)) as [A B]. split; [f_equal; exact A|exact B]. }
  intros h. exact (G h 0 init Inv_init).
Qed.

(** * The ghost expiry of [Ready] is never read *)

Definition erase_entry (v : entry) : entry := match v with Ready _ m => Ready 0 m | w => w end.
Definition erase_msgs (m : list (msgid * entry)) := map (fun kv => (fst kv, erase_entry (snd kv))) m.
Definition erase (s : state) : state := mkState (erase_msgs (msgs s)) (heap s) (queue s) (chan s).

Lemma lookup_erase k m : lookup k (erase_msgs m) = option_map erase_entry (lookup k m).
Proof.
  induction m as [|[k' v] r IH]; cbn [erase_msgs map lookup fst snd option_map]; [reflexivity|].
  destruct (id_eqb k k'); [reflexivity|exact IH].
Qed.

Lemma remove_erase k m : remove k (erase_msgs m) = erase_msgs (remove k m).
Proof.
  induction m as [|[k' v] r IH]; cbn [erase_msgs map remove fst snd]; [reflexivity|].
  destruct (id_eqb k k'); [exact IH|]. cbn [map fst snd]. f_equal. exact IH.
Qed.

Lemma insert_erase k v m : insert k (erase_entry v) (erase_msgs m) = erase_msgs (insert k v m).
Proof. unfold insert. rewrite remove_erase. reflexivity. Qed.

Lemma expire_entry_erase now e m : expire_entry now e (erase_msgs m) = erase_msgs (expire_entry now e m).
Proof.
  unfold expire_entry. rewrite lookup_erase.
  destruct (lookup (h_id e) m) as [[? ?|? ?]|]; cbn [option_map erase_entry]; try reflexivity.
  - destruct (kind_eqb (h_kind e) KPub); [apply remove_erase|reflexivity].
  - destruct (kind_eqb (h_kind e) KAsk && (exp <=? now)); [apply remove_erase|reflexivity].
Qed.

Lemma cleanup_loop_erase now : forall fuel m h,
  cleanup_loop fuel now (erase_msgs m) h =
  (erase_msgs (fst (cleanup_loop fuel now m h)), snd (cleanup_loop fuel now m h)).
Proof.
  induction fuel as [|fuel IH]; intros m h; cbn [cleanup_loop]; [reflexivity|].
  destruct (pop_min h) as [[e rest]|]; [|reflexivity].
  destruct (now <? h_when e); [reflexivity|]. rewrite expire_entry_erase. apply IH.
Qed.

Lemma cleanup_erase now s : cleanup now (erase s) = erase (cleanup now s).
Proof.
  unfold cleanup, erase. cbn [msgs heap queue chan]. rewrite cleanup_loop_erase.
  destruct (cleanup_loop (length (heap s)) now (msgs s) (heap s)) as [m h]. reflexivity.
Qed.

(** states equal up to the ghost field *)
Definition ghost_eq (s s' : state) : Prop := erase s = erase s'.

Lemma ghost_eq_erase s : ghost_eq (erase s) s.
Proof.
  unfold ghost_eq, erase. cbn [msgs heap queue chan]. f_equal. unfold erase_msgs. rewrite map_map.
  apply map_ext. intros [k [e m|e l]]; reflexivity.
Qed.

Lemma erase_msgs_inj_lookup m m' k : erase_msgs m = erase_msgs m' ->
  option_map erase_entry (lookup k m) = option_map erase_entry (lookup k m').
Proof. intros E. rewrite <- !lookup_erase, E. reflexivity. Qed.

Lemma cleanup_ghost now s s' : ghost_eq s s' -> ghost_eq (cleanup now s) (cleanup now s').
Proof. unfold ghost_eq. intros E. rewrite <- !cleanup_erase, E. reflexivity. Qed.

Lemma ghost_eq_parts s s' : ghost_eq s s' <->
  erase_msgs (msgs s) = erase_msgs (msgs s') /\ heap s = heap s' /\ queue s = queue s' /\ chan s = chan s'.
Proof.
  unfold ghost_eq, erase. split.
  - intros E. inversion E. auto.
  - intros (A & B & C & D). rewrite A, B, C, D. reflexivity.
Qed.

Lemma send_post_ghost f now s s' : ghost_eq s s' -> ghost_eq (send_post f now s) (send_post f now s').
Proof.
  intros G. apply ghost_eq_parts in G. destruct G as (M & H & Q & C).
  pose proof (erase_msgs_inj_lookup _ _ (hdr_id f) M) as L.
  unfold send_post.
  destruct (lookup (hdr_id f) (msgs s)) as [[? ?|? ?]|], (lookup (hdr_id f) (msgs s')) as [[? ?|? ?]|];
    cbn [option_map erase_entry] in L; try discriminate; apply ghost_eq_parts; cbn [msgs heap queue chan];
    rewrite <- ?insert_erase, ?M, ?H, ?Q, ?C; auto.
  inversion L; subst. auto.
Qed.

Lemma recv_post_ghost c id ttl now s s' :
  ghost_eq s s' -> ghost_eq (recv_post c id ttl now s) (recv_post c id ttl now s').
Proof.
  intros G. apply ghost_eq_parts in G. destruct G as (M & H & Q & C).
  pose proof (erase_msgs_inj_lookup _ _ id M) as L.
  unfold recv_post.
  destruct (lookup id (msgs s)) as [[? ?|? ?]|], (lookup id (msgs s')) as [[? ?|? ?]|];
    cbn [option_map erase_entry] in L; try discriminate; apply ghost_eq_parts; cbn [msgs heap queue chan];
    rewrite <- ?insert_erase, ?M, ?H, ?Q, ?C; auto.
  - inversion L; subst. auto.
  - inversion L; subst. auto.
Qed.

Lemma keys_erase m : map fst (erase_msgs m) = map fst m.
Proof. unfold erase_msgs. rewrite map_map. reflexivity. Qed.

(** The expiry stored in [Ready] is ghost: two states that differ only there make the same observations and
    stay equal up to that field -- no function of the model reads it. *)
Theorem ghost_not_read_proof : forall s s' o, ghost_eq s s' ->
  snd (step s o) = snd (step s' o) /\ ghost_eq (fst (step s o)) (fst (step s' o)).
Proof.
  intros s s' o G. destruct o as [c f t|f t|c|]; cbn [step].
  - destruct (negb (hdr_ok f)); [split; [reflexivity|exact G]|].
    destruct (Nat.eqb (length f) HDR_SIZE); cbn [fst snd]; (split; [reflexivity|]).
    + rewrite !inner_recv_unfold. apply recv_post_ghost, cleanup_ghost, G.
    + rewrite !inner_send_unfold. destruct (Nat.leb (length f) HDR_SIZE); [exact G|].
      apply send_post_ghost, cleanup_ghost, G.
  - cbn [fst snd]. split; [reflexivity|]. rewrite !inner_send_unfold.
    destruct (Nat.leb (length f) HDR_SIZE); [exact G|]. apply send_post_ghost, cleanup_ghost, G.
  - apply ghost_eq_parts in G. destruct G as (M & H & Q & C). cbn [fst snd]. unfold pending. rewrite Q, C.
    split; [reflexivity|]. apply ghost_eq_parts. cbn [msgs heap queue chan]. auto.
  - pose proof G as G'. apply ghost_eq_parts in G'. destruct G' as (M & _). cbn [fst snd].
    rewrite <- (keys_erase (msgs s)), <- (keys_erase (msgs s')), M. split; [reflexivity|exact G].
Qed.

(** * Non-vacuity: a concrete history, evaluated by the kernel
    ids [ia], [ib]; connections 0,1,2; times in seconds * 10^9. *)
Definition ex_ia : msgid := repeat 7 32.
Definition ex_ib : msgid := repeat 9 32.
Definition ex_sec (n : N) : time := n * NANOS.
Definition ex_pub1 : frame := allocate_message ex_ia 5 0 [1; 1; 1].
Definition ex_pub2 : frame := allocate_message ex_ia 5 0 [2; 2].        (* duplicate publication, other bytes *)
Definition ex_pubb : frame := allocate_message ex_ib 2 0 [3].

Definition ex_history : list op := [
  OSend 0 (ask_allocate ex_ia 3) (ex_sec 0);        (* ask before publish, waiter 1 *)
  OSend 1 (ask_allocate ex_ia 1) (ex_sec 0);        (* waiter 2, shorter TTL *)
  OSend 2 (ask_allocate ex_ib 1) (ex_sec 0);        (* an ask that will expire before its publication *)
  OMessages;
  OSend 2 ex_pub1 (ex_sec 2);                       (* publication: both waiters of ia are served (max, not min) *)
  ODrain 0; ODrain 1; ODrain 2;
  ORelaySend ex_pub2 (ex_sec 3);                    (* duplicate: ignored *)
  OSend 1 (ask_allocate ex_ia 1) (ex_sec 3);        (* answered at once with the FIRST publication *)
  ODrain 1;
  ORelaySend ex_pubb (ex_sec 3);                    (* ib: the ask expired at 1s, nobody is served *)
  ODrain 2;
  OMessages;
  OSend 0 (ask_allocate ex_ia 1) (ex_sec 7);        (* ia expired at 7s = 2s + 5s: this ask waits *)
  ODrain 0;
  OMessages;
  OSend 0 [1; 2; 3] (ex_sec 7)                      (* short frame: Err *)
].

Definition ex_expected : list (list obs) := [
  [ObsSend true]; [ObsSend true]; [ObsSend true];
  [ObsMsgs [ex_ib; ex_ia]];
  [ObsSend true];
  [ObsDrain 0 [ex_pub1]]; [ObsDrain 1 [ex_pub1]]; [ObsDrain 2 []];
  [];
  [ObsSend true];
  [ObsDrain 1 [ex_pub1]];
  [];
  [ObsDrain 2 []];
  [ObsMsgs [ex_ib; ex_ia]];
  [ObsSend true];
  [ObsDrain 0 []];
  [ObsMsgs [ex_ia]];
  [ObsSend false]
].

Example relay_example_history_proof : trace init ex_history = ex_expected.
Proof. vm_compute. reflexivity. Qed.
