(** C05: corollaries for NON-ZERO sender scalars (the sender draws [NonZeroScalar::random], /repo bb0ba40)
    and a PRIME group order.

    The "other key / substituted message" characterisations of Proofs/EndemicThm.v end in an equation
        t_b * (r + Hc(query)) = m * gen.
    For t_b = 0 (mod q) that equation is trivially true (defect F9).  For t_b <> 0 (mod q) and prime q,
    t_b has the inverse [zq_invert q (t_b mod q)] (Model/Matrix.v: the model of [Scalar::invert],
    specification in Proofs/MatrixInv.v) and the equation is solved for the hash-to-curve output:
        Hc(query) = ((m * t_b^-1) mod q) * gen - r,
    ONE point, a function of values that were fixed before the query was made. *)
From SL Require Import Lib.Base Lib.Oracle Lib.ZqGroup Gen.Params Model.Endemic Model.Matrix
  Proofs.Endemic Proofs.EndemicThm Proofs.EndemicZq Proofs.MatrixInv.
From Coq Require Import Znumtheory.
Local Open Scope Z_scope.

(** the inverse of a unit modulo a prime, for an arbitrary (unreduced) representative *)
Lemma zq_invert_unit q k : prime q -> k mod q <> 0 ->
  exists inv, zq_invert q (k mod q) = Some inv /\ 0 <= inv < q /\ (k * inv) mod q = 1.
Proof.
  intros Hp NZ. pose proof (prime_ge_2 q Hp) as H2.
  pose proof (Z.mod_pos_bound k q ltac:(lia)) as B.
  destruct (zq_invert_prime q (k mod q) Hp ltac:(lia)) as [v [I [R U]]].
  exists v. split; [exact I|]. split; [exact R|].
  rewrite Z.mul_mod_idemp_l in U by lia. exact U.
Qed.

Section EndemicNonzero.
  Variable G : Type.
  Variable O : group_ops G.
  Variable H : transcript_oracle.
  Variable q : Z.
  Hypothesis laws : group_laws q O.
  Hypothesis dec_enc : enc33_roundtrip G O.
  Hypothesis q_prime : prime q.

  Notation smul := (g_smul O).
  Notation add := (g_add O).
  Notation neg := (g_neg O).
  Notation gen := (g_gen O).
  Notation gid := (g_id O).
  Notation hf := (h_function G O H).
  Notation nomsg := (@nil N, @nil N).
  Notation rchoice := (recv_r_choice G O H).

  (* ---------------------------------------------------------------- algebra *)
  Lemma smul_unit_solve k inv X P : (k * inv) mod q = 1 -> smul k X = P -> X = smul inv P.
  Proof.
    intros U E. subst P. rewrite <- (gl_smul_mul q O laws). rewrite (gl_smul_mod q O laws).
    rewrite (Z.mul_comm inv k), U. symmetry. apply (gl_smul_1 q O laws).
  Qed.

  Lemma add_solve a h P : add a h = P -> h = add P (neg a).
  Proof.
    intros E. subst P. rewrite (gl_add_comm q O laws a h). rewrite <- (gl_add_assoc q O laws).
    rewrite (gl_add_neg q O laws). symmetry. apply (gl_add_id q O laws).
  Qed.

  (** k * (a + h) = P, k a unit  ->  h = k^-1 * P - a *)
  Lemma single_point_solve k inv a h P :
    (k * inv) mod q = 1 -> smul k (add a h) = P -> h = add (smul inv P) (neg a).
  Proof. intros U E. apply add_solve. apply (smul_unit_solve k); assumption. Qed.

  (** k * (a + h) = m * gen  ->  h = ((m * k^-1) mod q) * gen - a *)
  Lemma single_point_gen k inv m a h :
    (k * inv) mod q = 1 -> smul k (add a h) = smul m gen -> h = add (smul ((m * inv) mod q) gen) (neg a).
  Proof.
    intros U E. transitivity (add (smul inv (smul m gen)) (neg a)).
    - apply (single_point_solve k); assumption.
    - f_equal. rewrite <- (gl_smul_mod q O laws). rewrite <- (gl_smul_mul q O laws). f_equal. lia.
  Qed.

  (** k * (a + h) = t * M  ->  h = ((t * k^-1) mod q) * M - a *)
  Lemma single_point_pt k inv t M a h :
    (k * inv) mod q = 1 -> smul k (add a h) = smul t M -> h = add (smul ((t * inv) mod q) M) (neg a).
  Proof.
    intros U E. transitivity (add (smul inv (smul t M)) (neg a)).
    - apply (single_point_solve k); assumption.
    - f_equal. rewrite <- (gl_smul_mod q O laws). rewrite <- (gl_smul_mul q O laws). f_equal. lia.
  Qed.

  (* ================================================================ the corollaries *)

  (** Honest exchange, non-zero "other" sender scalar: receiver key = sender's OTHER key forces an H2
      collision, or the fresh hash-to-curve output Hc(1-c, idx, sid, r_c) to be the single point
      ((t_a * t_b_c * t_b_o^-1) mod q) * gen - r_o. *)
  Lemma endemic_other_key_single_point_lem sid bits tas ros tbs skeys rkeys idx :
    let rn := eot_receiver_new G O H sid bits tas ros in
    let sp := eot_sender_process G O H sid (snd rn) tbs in
    snd sp = Val skeys -> eot_receiver_process G O H (fst rn) (fst sp) = Val (bits, rkeys) ->
    (idx < 256)%nat ->
    let c := bit_at bits idx in
    let ta := nth idx tas 0 in
    let ro := nth idx ros gid in
    let rc := rchoice sid c (N.of_nat idx) ta ro in
    let tb_c := if c then snd (nth idx tbs (0, 0)) else fst (nth idx tbs (0, 0)) in
    let tb_o := if c then fst (nth idx tbs (0, 0)) else snd (nth idx tbs (0, 0)) in
    let h_fresh := hf (ro_of_bit (negb c)) (N.of_nat idx) sid rc in
    tb_o mod q <> 0 ->
    nth idx rkeys [] = (if c then fst (nth idx skeys nomsg) else snd (nth idx skeys nomsg)) ->
    h2_collision G O H (N.of_nat idx) (smul ta (smul tb_c gen)) (smul tb_o (add ro h_fresh)) \/
    (exists inv, zq_invert q (tb_o mod q) = Some inv /\ (tb_o * inv) mod q = 1 /\
       h_fresh = add (smul ((ta * tb_c * inv) mod q) gen) (neg ro) /\
       forall k k', h_query G O (ro_of_bit (negb c)) (N.of_nat idx) sid rc k <>
                    h_query G O (ro_of_bit c) (N.of_nat idx) sid ro k').
  Proof.
    intros rn sp SV RV L c ta ro rc tb_c tb_o h_fresh NZ E.
    destruct (endemic_other_key_lem G O H q laws dec_enc sid bits tas ros tbs skeys rkeys idx SV RV L E)
      as [C|[EQ D]]; [left; exact C|right].
    destruct (zq_invert_unit q tb_o q_prime NZ) as [inv [I [_ U]]].
    exists inv. split; [exact I|]. split; [exact U|]. split; [|exact D].
    apply (single_point_gen tb_o inv); assumption.
  Qed.

  (** Different session ids (honest message passing), both sender scalars non-zero: the chosen-side
      coincidence is a plain collision hS = hR of hash-to-curve on two different queries, the
      other-side coincidence a single-point event of the fresh query. *)
  Lemma endemic_session_binding_single_point_lem sidR sidS bits tas ros tbs skeys rkeys idx (b : bool) :
    sidR <> sidS ->
    let rn := eot_receiver_new G O H sidR bits tas ros in
    let sp := eot_sender_process G O H sidS (snd rn) tbs in
    snd sp = Val skeys -> eot_receiver_process G O H (fst rn) (fst sp) = Val (bits, rkeys) ->
    (idx < 256)%nat ->
    let c := bit_at bits idx in
    let ta := nth idx tas 0 in
    let ro := nth idx ros gid in
    let rc := rchoice sidR c (N.of_nat idx) ta ro in
    let tb_c := if c then snd (nth idx tbs (0, 0)) else fst (nth idx tbs (0, 0)) in
    let tb_o := if c then fst (nth idx tbs (0, 0)) else snd (nth idx tbs (0, 0)) in
    let hS := hf (ro_of_bit c) (N.of_nat idx) sidS ro in
    let hR := hf (ro_of_bit c) (N.of_nat idx) sidR ro in
    let h_fresh := hf (ro_of_bit (negb c)) (N.of_nat idx) sidS rc in
    tb_c mod q <> 0 -> tb_o mod q <> 0 ->
    nth idx rkeys [] = (if b then snd (nth idx skeys nomsg) else fst (nth idx skeys nomsg)) ->
    (b = c /\ h2_collision G O H (N.of_nat idx) (smul ta (smul tb_c gen)) (smul tb_c (add rc hS))) \/
    (b = c /\ hS = hR /\
       forall k k', h_query G O (ro_of_bit c) (N.of_nat idx) sidS ro k <> h_query G O (ro_of_bit c) (N.of_nat idx) sidR ro k') \/
    (b = negb c /\ h2_collision G O H (N.of_nat idx) (smul ta (smul tb_c gen)) (smul tb_o (add ro h_fresh))) \/
    (b = negb c /\ exists inv, zq_invert q (tb_o mod q) = Some inv /\ (tb_o * inv) mod q = 1 /\
       h_fresh = add (smul ((ta * tb_c * inv) mod q) gen) (neg ro)).
  Proof.
    intros NS rn sp SV RV L c ta ro rc tb_c tb_o hS hR h_fresh NZc NZo E.
    destruct (endemic_session_binding_lem G O H q laws dec_enc sidR sidS bits tas ros tbs skeys rkeys idx b NS SV RV L E)
      as [C|[[Bc [EQ D]]|[C|[Bc EQ]]]].
    - left. exact C.
    - right; left. split; [exact Bc|]. split; [|exact D].
      apply (smul_cancel G O q laws tb_c); assumption.
    - right; right; left. exact C.
    - right; right; right. split; [exact Bc|].
      destruct (zq_invert_unit q tb_o q_prime NZo) as [inv [I [_ U]]].
      exists inv. split; [exact I|]. split; [exact U|].
      apply (single_point_gen tb_o inv); assumption.
  Qed.

  (** Message 1 substituted (made by another receiver run), the sender's scalar on side b non-zero:
      key equality forces an H2 collision or the sender's hash-to-curve output on side b to be one
      explicit point.  (For sid = sid' and b = c' that query is the one the other receiver made itself,
      so this is an equation, not necessarily a fresh-query event.) *)
  Lemma endemic_msg1_substituted_single_point_lem sid bits tas sid' bits' tas' ros' tbs skeys rkeys idx (b : bool) :
    let st := {| rs_bits := bits; rs_ta := tas |} in
    let rn' := eot_receiver_new G O H sid' bits' tas' ros' in
    let sp := eot_sender_process G O H sid (snd rn') tbs in
    snd sp = Val skeys -> eot_receiver_process G O H st (fst sp) = Val (bits, rkeys) ->
    (idx < 256)%nat ->
    let c := bit_at bits idx in
    let c' := bit_at bits' idx in
    let ta := nth idx tas 0 in
    let ro' := nth idx ros' gid in
    let rc' := rchoice sid' c' (N.of_nat idx) (nth idx tas' 0) ro' in
    let r0 := if c' then ro' else rc' in
    let r1 := if c' then rc' else ro' in
    let tb_c := if c then snd (nth idx tbs (0, 0)) else fst (nth idx tbs (0, 0)) in
    let tb_b := if b then snd (nth idx tbs (0, 0)) else fst (nth idx tbs (0, 0)) in
    tb_b mod q <> 0 ->
    nth idx rkeys [] = (if b then snd (nth idx skeys nomsg) else fst (nth idx skeys nomsg)) ->
    (exists P P', h2_collision G O H (N.of_nat idx) P P') \/
    (exists inv, zq_invert q (tb_b mod q) = Some inv /\ (tb_b * inv) mod q = 1 /\
       hf (ro_of_bit b) (N.of_nat idx) sid (if b then r0 else r1) =
         add (smul ((ta * tb_c * inv) mod q) gen) (neg (if b then r1 else r0))).
  Proof.
    intros st rn' sp SV RV L c c' ta ro' rc' r0 r1 tb_c tb_b NZ E.
    destruct (endemic_msg1_substituted_lem G O H q laws dec_enc sid bits tas sid' bits' tas' ros' tbs skeys rkeys idx b SV RV L E)
      as [C|EQ]; [left; exact C|right].
    destruct (zq_invert_unit q tb_b q_prime NZ) as [inv [I [_ U]]].
    exists inv. split; [exact I|]. split; [exact U|].
    apply (single_point_gen tb_b inv); assumption.
  Qed.

  (** Message 2 substituted (any other sender run), own sender's "other" scalar non-zero. *)
  Lemma endemic_msg2_substituted_single_point_lem sid bits tas ros tbs sid' msg1' tbs' skeys rkeys idx (b : bool) :
    let rn := eot_receiver_new G O H sid bits tas ros in
    let sp := eot_sender_process G O H sid (snd rn) tbs in
    let sp' := eot_sender_process G O H sid' msg1' tbs' in
    snd sp = Val skeys -> eot_receiver_process G O H (fst rn) (fst sp') = Val (bits, rkeys) ->
    (idx < 256)%nat ->
    let c := bit_at bits idx in
    let ta := nth idx tas 0 in
    let ro := nth idx ros gid in
    let rc := rchoice sid c (N.of_nat idx) ta ro in
    let tb_c := if c then snd (nth idx tbs (0, 0)) else fst (nth idx tbs (0, 0)) in
    let tb_o := if c then fst (nth idx tbs (0, 0)) else snd (nth idx tbs (0, 0)) in
    let tb_c' := if c then snd (nth idx tbs' (0, 0)) else fst (nth idx tbs' (0, 0)) in
    let h_fresh := hf (ro_of_bit (negb c)) (N.of_nat idx) sid rc in
    tb_o mod q <> 0 ->
    nth idx rkeys [] = (if b then snd (nth idx skeys nomsg) else fst (nth idx skeys nomsg)) ->
    (exists P P', h2_collision G O H (N.of_nat idx) P P') \/
    (b = c /\ (ta * tb_c' - ta * tb_c) mod q = 0) \/
    (b = negb c /\ exists inv, zq_invert q (tb_o mod q) = Some inv /\ (tb_o * inv) mod q = 1 /\
       h_fresh = add (smul ((ta * tb_c' * inv) mod q) gen) (neg ro)).
  Proof.
    intros rn sp sp' SV RV L c ta ro rc tb_c tb_o tb_c' h_fresh NZ E.
    destruct (endemic_msg2_substituted_lem G O H q laws dec_enc sid bits tas ros tbs sid' msg1' tbs' skeys rkeys idx b SV RV L E)
      as [C|[C|[Bc EQ]]]; [left; exact C|right; left; exact C|right; right].
    split; [exact Bc|].
    destruct (zq_invert_unit q tb_o q_prime NZ) as [inv [I [_ U]]].
    exists inv. split; [exact I|]. split; [exact U|].
    apply (single_point_gen tb_o inv); assumption.
  Qed.

  (** ARBITRARY message 1 and message 2, the sender's scalar on side b non-zero: key equality forces an
      H2 collision or the sender's hash-to-curve output on side b to equal
      ((t_a * t_b^-1) mod q) * mb - r_b, mb the point the receiver decoded from message 2. *)
  Lemma endemic_key_equal_char_nonzero_lem sidS msg1 tbs skeys st msg2 bits rkeys idx (b : bool) :
    snd (eot_sender_process G O H sidS msg1 tbs) = Val skeys ->
    eot_receiver_process G O H st msg2 = Val (bits, rkeys) ->
    (idx < 256)%nat ->
    let tb_b := if b then snd (nth idx tbs (0, 0)) else fst (nth idx tbs (0, 0)) in
    tb_b mod q <> 0 ->
    nth idx rkeys [] = (if b then snd (nth idx skeys nomsg) else fst (nth idx skeys nomsg)) ->
    exists r0 r1 mb,
      g_dec O (fst (nth idx msg1 nomsg)) = Some r0 /\ g_dec O (snd (nth idx msg1 nomsg)) = Some r1 /\
      g_dec O (chosen_side st msg2 idx) = Some mb /\
      let ta := nth idx (rs_ta st) 0 in
      let h := hf (ro_of_bit b) (N.of_nat idx) sidS (if b then r0 else r1) in
      (exists inv, zq_invert q (tb_b mod q) = Some inv /\ (tb_b * inv) mod q = 1 /\
         h = add (smul ((ta * inv) mod q) mb) (neg (if b then r1 else r0))) \/
      h2_collision G O H (N.of_nat idx) (smul ta mb) (smul tb_b (add (if b then r1 else r0) h)).
  Proof.
    intros SV RV L tb_b NZ E.
    destruct (endemic_key_equal_char_lem G O H q laws dec_enc sidS msg1 tbs skeys st msg2 bits rkeys idx b SV RV L E)
      as [r0 [r1 [mb [D0 [D1 [D K]]]]]].
    exists r0, r1, mb. split; [exact D0|]. split; [exact D1|]. split; [exact D|].
    intros ta h. cbv zeta in K. destruct K as [EQ|C]; [left|right; exact C].
    destruct (zq_invert_unit q tb_b q_prime NZ) as [inv [I [_ U]]].
    exists inv. split; [exact I|]. split; [exact U|].
    apply (single_point_pt tb_b inv). { exact U. } symmetry. exact EQ.
  Qed.
End EndemicNonzero.

(* ------------------------------------------------------------------ non-vacuity *)
(** Z_11, the all-zero oracle, one non-default tape entry (t_a = 2, (t_b_0, t_b_1) = (5, 3)): ALL premises
    of [endemic_other_key_single_point_lem] hold at instance 0 -- the run succeeds, the receiver's choice
    bit is 0, the sender's other scalar 3 is a unit with inverse 4, and (the oracle being constant) the
    receiver's key does equal the sender's other key. *)
Lemma endemic_single_point_nonvacuous :
  let O := zq33_group 11 eot_lt_1_11 in
  let H := eot_zero_oracle in
  group_laws 11 O /\ enc33_roundtrip (zq 11) O /\ prime 11 /\
  exists sid bits tas ros tbs skeys rkeys idx,
    let rn := eot_receiver_new (zq 11) O H sid bits tas ros in
    let sp := eot_sender_process (zq 11) O H sid (snd rn) tbs in
    snd sp = Val skeys /\ eot_receiver_process (zq 11) O H (fst rn) (fst sp) = Val (bits, rkeys) /\
    (idx < 256)%nat /\
    let c := bit_at bits idx in
    let tb_o := if c then fst (nth idx tbs (0, 0)) else snd (nth idx tbs (0, 0)) in
    tb_o mod 11 <> 0 /\ zq_invert 11 (tb_o mod 11) = Some 4 /\
    nth idx rkeys [] = (if c then fst (nth idx skeys ([], [])) else snd (nth idx skeys ([], []))).
Proof.
  intros O H.
  assert (LW : group_laws 11 O) by apply zq33_group_laws.
  assert (RT : enc33_roundtrip (zq 11) O) by apply zq33_roundtrip.
  split; [exact LW|]. split; [exact RT|]. split; [exact eot_prime_11|].
  pose (rn := eot_receiver_new (zq 11) O H [] [] [2] []).
  destruct (exchange_char (zq 11) O H RT [] [] [2] [] [] [(5, 3)] (fst rn)) as [skeys [rkeys [SV [RV K]]]].
  exists [], [], [2], [], [(5, 3)], skeys, rkeys, 0%nat.
  intros rn0 sp. split; [exact SV|]. split; [exact RV|]. split; [lia|].
  assert (C : bit_at [] 0 = false) by reflexivity.
  intros c tb_o. unfold tb_o, c. rewrite C. cbn [nth snd fst].
  split; [intros D; vm_compute in D; discriminate D|]. split; [vm_compute; reflexivity|].
  assert (L : (0 < eot_n)%nat) by (rewrite eot_n_256; lia).
  destruct (K 0%nat L) as [KS KR]. rewrite KS, KR. cbn [snd].
  unfold h_function_2, H, eot_zero_oracle. reflexivity.
Qed.
