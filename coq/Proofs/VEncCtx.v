(** C10: context binding of verifiable-encryption proofs, in the form
      "an honest proof accepted under a foreign context  ->  explicit coincidence"
    (DESIGN.md 3.3).  The coincidences are: all challenge bits of two distinct hash queries are zero (other
    point), a collision of the label hash (other label), equal ciphertexts under two RSA keys (other key). *)
From SL Require Import Lib.Base Lib.Oracle Model.VEnc Proofs.VEncBytes Proofs.VEncCore.
Local Open Scope Z_scope.

Section Ctx.
  Variable W : venc_world.
  Hypothesis WOK : world_ok W.
  Local Notation G := (w_G W).
  Local Notation O := (w_O W).
  Local Notation q := (w_q W).
  Local Notation repr := (w_repr W).
  Local Notation from_repr := (w_from_repr W).
  Local Notation gen := (g_gen (w_O W)).
  Local Notation smul := (g_smul (w_O W)).
  Local Notation add := (g_add (w_O W)).
  Local Notation ENC := (enc_slots G O q repr (w_sha256 W) (w_PK W) (w_pk_n W) (w_rsa_enc W)).
  Local Notation ENCL := (rsa_encrypt_with_label (w_sha256 W) (w_PK W) (w_pk_n W) (w_rsa_enc W)).
  Let laws := wo_laws W WOK.
  Let RL := wo_repr W WOK.
  Let q_gt1 := wo_q W WOK.

  (** shape of slot j of an honest proof *)
  Lemma honest_slots_shape x pk label seed tape ch : forall cnt i l os,
    ENC x pk label seed tape cnt i = Val l -> open_slots ch l i = Val os ->
    forall j pr o, nth_error (map (fun t => fst (fst t)) l) j = Some pr -> nth_error os j = Some o ->
    exists r b, 0 <= r < q /\ extract_bit ch (i + j) = Val b /\ o = (if b then (x + r) mod q else r) /\
      s_gr pr = g_enc O (smul r gen) /\
      ENCL (repr r) label pk seed = Val (s_encr pr) /\ ENCL (repr ((x + r) mod q)) label pk seed = Val (s_encxr pr).
  Proof.
    induction cnt as [|c IH]; intros i l os E Eo j pr o Hp Ho; cbn [enc_slots] in E.
    - inversion E; subst l. destruct j; discriminate.
    - destruct (ENCL (repr (tape i mod q)) label pk seed) as [e1| |] eqn:E1; cbn [obind] in E; try discriminate.
      destruct (ENCL (repr ((x + tape i mod q) mod q)) label pk seed) as [e2| |] eqn:E2; cbn [obind] in E; try discriminate.
      destruct (ENC x pk label seed tape c (S i)) as [rest| |] eqn:Er; cbn [obind] in E; try discriminate.
      inversion E; subst l; clear E. cbn [open_slots] in Eo.
      destruct (extract_bit ch i) as [b| |] eqn:Eb; cbn [obind] in Eo; try discriminate.
      destruct (open_slots ch rest (S i)) as [os'| |] eqn:Eo'; cbn [obind] in Eo; try discriminate.
      inversion Eo; subst os; clear Eo.
      destruct j as [|j'].
      + cbn [map nth_error fst] in Hp, Ho. inversion Hp; subst pr. inversion Ho; subst o.
        exists (tape i mod q), b. rewrite Nat.add_0_r. cbn [s_gr s_encr s_encxr].
        repeat split; auto; apply Z.mod_pos_bound; lia.
      + cbn [map nth_error] in Hp, Ho. replace (i + S j')%nat with (S i + j')%nat by lia.
        eapply IH; eassumption.
  Qed.

  Lemma honest_slot x pk label sp seed tape p j pr o : W_encrypt W x pk label sp seed tape = Val p ->
    nth_error (vp_slots p) j = Some pr -> nth_error (vp_opens p) j = Some o ->
    vp_seed p = seed /\
    exists r b, 0 <= r < q /\ extract_bit (W_challenge W (smul x gen) label (vp_slots p)) j = Val b /\
      o = (if b then (x + r) mod q else r) /\ s_gr pr = g_enc O (smul r gen) /\
      W_enc_label W (repr r) label pk seed = Val (s_encr pr) /\
      W_enc_label W (repr ((x + r) mod q)) label pk seed = Val (s_encxr pr).
  Proof.
    intros E Hp Ho. apply (encrypt_inv W) in E. destruct E as (_ & l & os & El & Eo & ->).
    cbn [vp_seed vp_slots vp_opens] in *. split; [reflexivity|].
    pose proof (honest_slots_shape _ _ _ _ _ _ _ _ _ _ El Eo j pr o Hp Ho) as H. cbn [Nat.add] in H. exact H.
  Qed.

  (** arithmetic: x + r = r (mod q) forces x = 0 (mod q) *)
  Lemma shift_fix x r : 0 < x < q -> 0 <= r < q -> (x + r) mod q <> r.
  Proof.
    intros Hx Hr E.
    pose proof (Z.div_mod (x + r) q ltac:(lia)) as DM. rewrite E in DM.
    assert (q * ((x + r) / q) = x) by lia.
    assert ((x + r) / q = 0 \/ 1 <= (x + r) / q) by (pose proof (Z.div_pos (x + r) q ltac:(lia) ltac:(lia)); lia).
    nia.
  Qed.

  Lemma add_cancel_r a b c : add b a = add c a -> b = c.
  Proof.
    rewrite (gl_add_comm q O laws b a), (gl_add_comm q O laws c a). apply (add_cancel_l W WOK).
  Qed.

  (** the integer read from the encoding determines the canonical scalar *)
  Lemma repr_int_inj s1 s2 : 0 <= s1 < q -> 0 <= s2 < q ->
    bu_from_be (repr s1) = bu_from_be (repr s2) -> s1 = s2.
  Proof.
    intros H1 H2 E.
    assert (R : repr s1 = repr s2).
    { rewrite <- (to_be_of_be (repr s1)) by apply (rl_bytes _ _ _ RL).
      rewrite <- (to_be_of_be (repr s2)) by apply (rl_bytes _ _ _ RL).
      rewrite !(rl_len _ _ _ RL). unfold bu_from_be in E. f_equal. lia. }
    pose proof (rl_from_repr _ _ _ RL s1 H1) as F1. pose proof (rl_from_repr _ _ _ RL s2 H2) as F2.
    rewrite R in F1. congruence.
  Qed.

  (** equal ciphertexts of two label-bound encryptions (same key) have equal plaintext integers -- a
      consequence of the RSA hypothesis *)
  Lemma enc_label_inj pk sk s1 s2 label1 label2 seed1 seed2 c : rsa_pair_ok W pk sk ->
    W_enc_label W (repr s1) label1 pk seed1 = Val c -> W_enc_label W (repr s2) label2 pk seed2 = Val c ->
    bu_from_be (repr s1) * W_label_int W label1 = bu_from_be (repr s2) * W_label_int W label2.
  Proof.
    intros Hp E1 E2.
    destruct (enc_label_dec W WOK pk sk label1 seed1 s1 Hp) as (c1 & F1 & D1).
    destruct (enc_label_dec W WOK pk sk label2 seed2 s2 Hp) as (c2 & F2 & D2).
    rewrite E1 in F1. rewrite E2 in F2. inversion F1; inversion F2; subst c1 c2.
    rewrite D1 in D2. inversion D2 as [D].
    pose proof (repr_int_range W WOK s1). pose proof (repr_int_range W WOK s2).
    pose proof (label_int_range W WOK label1). pose proof (label_int_range W WOK label2).
    rewrite <- (bu_from_to_be (bu_from_be (repr s1) * W_label_int W label1)) by nia.
    rewrite <- (bu_from_to_be (bu_from_be (repr s2) * W_label_int W label2)) by nia.
    rewrite D. reflexivity.
  Qed.

  (** *** another point *)
  (** An honest proof for x <> 0 accepted for a point Q' <> x*G: every challenge bit of BOTH hash queries
      (for x*G and for Q') is zero on all slots. *)
  Lemma venc_ctx_point_lem x pk sk label sp seed tape p Q' : rsa_pair_ok W pk sk ->
    W_label_int W label <> 0 -> 0 < x < q ->
    W_encrypt W x pk label sp seed tape = Val p ->
    Q' <> W_smul W x (W_gen W) ->
    W_verify W p Q' pk label = Val tt ->
    forall j, (j < vp_sp p)%nat ->
      extract_bit (W_challenge W (W_smul W x (W_gen W)) label (vp_slots p)) j = Val false /\
      extract_bit (W_challenge W Q' label (vp_slots p)) j = Val false.
  Proof.
    intros Hp Hl Hx E HQ V j Hj.
    destruct (encrypt_wf W WOK _ _ _ _ _ _ _ E) as (L1 & L2 & _).
    destruct (nth_error (vp_slots p) j) as [pr|] eqn:Hs; [|apply nth_error_None in Hs; lia].
    destruct (nth_error (vp_opens p) j) as [o|] eqn:Ho; [|apply nth_error_None in Ho; lia].
    destruct (honest_slot _ _ _ _ _ _ _ j pr o E Hs Ho) as (Hseed & r & b & Hr & Eb & Eo & Eg & Er & Exr).
    destruct (verify_accept_slot W WOK p Q' pk label j pr o V Hj Hs Ho) as (b' & enc & R & Eb' & Ee & ER & C).
    rewrite Eg, (gl_dec_enc q O laws) in ER. inversion ER; subst R. rewrite Hseed in Ee.
    unfold W_smul, W_gen in *. rewrite Eb, Eb'.
    assert (Hxr : 0 <= (x + r) mod q < q) by (apply Z.mod_pos_bound; lia).
    destruct b', b; subst o; destruct C as [C1 C2]; try (split; reflexivity); exfalso.
    - (* both select x+r: Q' + rG = xG + rG *)
      apply HQ. rewrite <- (add_smul_gen W WOK) in C1. apply add_cancel_r in C1. exact C1.
    - (* Q' side asks for x+r, the proof opened r: E(x+r) = E(r) *)
      subst enc. pose proof (enc_label_inj pk sk _ _ _ _ _ _ _ Hp Exr Ee) as I.
      apply Z.mul_cancel_r in I; [|exact Hl].
      apply repr_int_inj in I; [|assumption|assumption]. exact (shift_fix x r Hx Hr I).
    - (* Q' side asks for r, the proof opened x+r: rG = (x+r)G *)
      apply (smul_gen_inj W WOK) in C1; [|assumption|assumption]. symmetry in C1. exact (shift_fix x r Hx Hr C1).
  Qed.

  (** *** another label *)
  (** An honest proof for x <> 0 accepted under label': the two challenges agree on every slot, and for every
      slot whose opened scalar has a non-zero integer encoding the two label integers collide
      (SHA-256("SL-label-for-RSA" ++ label) = SHA-256("SL-label-for-RSA" ++ label') as integers). *)
  Lemma venc_ctx_label_lem x pk sk label label' sp seed tape p : rsa_pair_ok W pk sk -> 0 < x < q ->
    W_encrypt W x pk label sp seed tape = Val p ->
    W_verify W p (W_smul W x (W_gen W)) pk label' = Val tt ->
    forall j o, nth_error (vp_opens p) j = Some o ->
      extract_bit (W_challenge W (W_smul W x (W_gen W)) label' (vp_slots p)) j =
      extract_bit (W_challenge W (W_smul W x (W_gen W)) label (vp_slots p)) j /\
      (bu_from_be (repr o) <> 0 -> W_label_int W label' = W_label_int W label).
  Proof.
    intros Hp Hx E V j o Ho.
    destruct (encrypt_wf W WOK _ _ _ _ _ _ _ E) as (L1 & L2 & _).
    assert (Hj : (j < vp_sp p)%nat) by (rewrite <- L2; apply nth_error_Some; rewrite Ho; discriminate).
    destruct (nth_error (vp_slots p) j) as [pr|] eqn:Hs; [|apply nth_error_None in Hs; lia].
    destruct (honest_slot _ _ _ _ _ _ _ j pr o E Hs Ho) as (Hseed & r & b & Hr & Eb & Eo & Eg & Er & Exr).
    destruct (verify_accept_slot W WOK p _ pk label' j pr o V Hj Hs Ho) as (b' & enc & R & Eb' & Ee & ER & C).
    rewrite Eg, (gl_dec_enc q O laws) in ER. inversion ER; subst R. rewrite Hseed in Ee.
    unfold W_smul, W_gen in *. rewrite Eb, Eb'.
    assert (Hxr : 0 <= (x + r) mod q < q) by (apply Z.mod_pos_bound; lia).
    destruct b', b; subst o; destruct C as [C1 C2]; subst enc.
    - split; [reflexivity|]. intros Hnz.
      pose proof (enc_label_inj pk sk _ _ _ _ _ _ _ Hp Ee Exr) as I.
      apply Z.mul_cancel_l in I; assumption.
    - exfalso. (* xG + rG = rG *)
      rewrite (add_smul_gen W WOK) in C1. apply (smul_gen_inj W WOK) in C1; [|assumption|assumption].
      exact (shift_fix x r Hx Hr C1).
    - exfalso. apply (smul_gen_inj W WOK) in C1; [|assumption|assumption]. symmetry in C1.
      exact (shift_fix x r Hx Hr C1).
    - split; [reflexivity|]. intros Hnz.
      pose proof (enc_label_inj pk sk _ _ _ _ _ _ _ Hp Ee Er) as I.
      apply Z.mul_cancel_l in I; assumption.
  Qed.

  (** *** another RSA key *)
  (** An honest proof accepted under another public key pk': for every slot, the label-bound encryption of the
      opened scalar under pk' is bit-for-bit the ciphertext produced under pk. *)
  Lemma venc_ctx_key_lem x pk pk' label sp seed tape p :
    W_encrypt W x pk label sp seed tape = Val p ->
    W_verify W p (W_smul W x (W_gen W)) pk' label = Val tt ->
    forall j o, nth_error (vp_opens p) j = Some o ->
      W_enc_label W (repr o) label pk' seed = W_enc_label W (repr o) label pk seed.
  Proof.
    intros E V j o Ho.
    destruct (encrypt_wf W WOK _ _ _ _ _ _ _ E) as (L1 & L2 & _).
    assert (Hj : (j < vp_sp p)%nat) by (rewrite <- L2; apply nth_error_Some; rewrite Ho; discriminate).
    destruct (nth_error (vp_slots p) j) as [pr|] eqn:Hs; [|apply nth_error_None in Hs; lia].
    destruct (honest_slot _ _ _ _ _ _ _ j pr o E Hs Ho) as (Hseed & r & b & Hr & Eb & Eo & Eg & Er & Exr).
    destruct (verify_accept_slot W WOK p _ pk' label j pr o V Hj Hs Ho) as (b' & enc & R & Eb' & Ee & ER & C).
    rewrite Hseed in Ee. unfold W_smul, W_gen in *. rewrite Eb in Eb'. inversion Eb'; subst b'.
    rewrite Ee. destruct b; subst o; destruct C as [_ C2]; subst enc; symmetry; assumption.
  Qed.

  (** *** byte alterations of an honest proof, by wire field (partial characterisation, DESIGN.md C10) *)
  (** opened scalars: ANY other canonical scalar in ANY slot is rejected, unconditionally
      (non-canonical bytes are refused by from_bytes: read_scalars / decode_scalar) *)
  Lemma venc_alter_open_rejected_lem x pk label sp seed tape p p' j o o' :
    W_encrypt W x pk label sp seed tape = Val p ->
    vp_slots p' = vp_slots p -> vp_sp p' = vp_sp p ->
    nth_error (vp_opens p) j = Some o -> nth_error (vp_opens p') j = Some o' ->
    0 <= o' < q -> o' <> o ->
    W_verify W p' (W_smul W x (W_gen W)) pk label <> Val tt.
  Proof.
    intros E Hsl Hsp Ho Ho' Hr' Hne V.
    destruct (encrypt_wf W WOK _ _ _ _ _ _ _ E) as (L1 & L2 & F).
    assert (Hj : (j < vp_sp p)%nat) by (rewrite <- L2; apply nth_error_Some; rewrite Ho; discriminate).
    destruct (nth_error (vp_slots p) j) as [pr|] eqn:Hs; [|apply nth_error_None in Hs; lia].
    destruct (honest_slot _ _ _ _ _ _ _ j pr o E Hs Ho) as (Hseed & r & b & Hr & Eb & Eo & Eg & Er & Exr).
    assert (Hs' : nth_error (vp_slots p') j = Some pr) by (rewrite Hsl; exact Hs).
    assert (Hj' : (j < vp_sp p')%nat) by (rewrite Hsp; exact Hj).
    destruct (verify_accept_slot W WOK p' _ pk label j pr o' V Hj' Hs' Ho') as (b' & enc & R & Eb' & Ee & ER & C).
    rewrite Eg, (gl_dec_enc q O laws) in ER. inversion ER; subst R.
    rewrite Hsl in Eb'. unfold W_smul, W_gen in *. rewrite Eb in Eb'. inversion Eb'; subst b'.
    assert (Hor : 0 <= o < q) by (apply nth_error_In in Ho; exact (proj1 (Forall_forall _ _) F o Ho)).
    apply Hne. apply (smul_gen_inj W WOK); [assumption|assumption|].
    destruct b; subst o; destruct C as [C1 _]; rewrite <- C1; [apply (add_smul_gen W WOK)|reflexivity].
  Qed.

  (** seed: the proof with another seed is accepted only if, in every slot, re-encryption under the new
      seed reproduces the ciphertext made under the old one *)
  Lemma venc_alter_seed_char_lem x pk label sp seed tape p p' :
    W_encrypt W x pk label sp seed tape = Val p ->
    vp_slots p' = vp_slots p -> vp_sp p' = vp_sp p -> vp_opens p' = vp_opens p ->
    W_verify W p' (W_smul W x (W_gen W)) pk label = Val tt ->
    forall j o, nth_error (vp_opens p) j = Some o ->
      W_enc_label W (repr o) label pk (vp_seed p') = W_enc_label W (repr o) label pk seed.
  Proof.
    intros E Hsl Hsp Hop V j o Ho.
    destruct (encrypt_wf W WOK _ _ _ _ _ _ _ E) as (L1 & L2 & F).
    assert (Hj : (j < vp_sp p)%nat) by (rewrite <- L2; apply nth_error_Some; rewrite Ho; discriminate).
    destruct (nth_error (vp_slots p) j) as [pr|] eqn:Hs; [|apply nth_error_None in Hs; lia].
    destruct (honest_slot _ _ _ _ _ _ _ j pr o E Hs Ho) as (Hseed & r & b & Hr & Eb & Eo & Eg & Er & Exr).
    assert (Hs' : nth_error (vp_slots p') j = Some pr) by (rewrite Hsl; exact Hs).
    assert (Ho' : nth_error (vp_opens p') j = Some o) by (rewrite Hop; exact Ho).
    assert (Hj' : (j < vp_sp p')%nat) by (rewrite Hsp; exact Hj).
    destruct (verify_accept_slot W WOK p' _ pk label j pr o V Hj' Hs' Ho') as (b' & enc & R & Eb' & Ee & ER & C).
    rewrite Hsl in Eb'. unfold W_smul, W_gen in *. rewrite Eb in Eb'. inversion Eb'; subst b'.
    rewrite Ee. destruct b; subst o; destruct C as [_ C2]; subst enc; symmetry; assumption.
  Qed.

  (** commitments / ciphertexts: a proof whose slot list was altered (same seed, openings, length) is accepted,
      for x <> 0, only if the challenge recomputed over the altered bytes agrees with the original challenge on
      EVERY unaltered slot (a hash query on different input reproducing >= 127 given bits) *)
  Lemma venc_alter_slots_char_lem x pk label sp seed tape p p' : 0 < x < q ->
    W_encrypt W x pk label sp seed tape = Val p ->
    vp_sp p' = vp_sp p -> vp_opens p' = vp_opens p ->
    W_verify W p' (W_smul W x (W_gen W)) pk label = Val tt ->
    forall j pr, nth_error (vp_slots p) j = Some pr -> nth_error (vp_slots p') j = Some pr ->
      extract_bit (W_challenge W (W_smul W x (W_gen W)) label (vp_slots p')) j =
      extract_bit (W_challenge W (W_smul W x (W_gen W)) label (vp_slots p)) j.
  Proof.
    intros Hx E Hsp Hop V j pr Hs Hs'.
    destruct (encrypt_wf W WOK _ _ _ _ _ _ _ E) as (L1 & L2 & F).
    assert (Hj : (j < vp_sp p)%nat) by (rewrite <- L1; apply nth_error_Some; rewrite Hs; discriminate).
    destruct (nth_error (vp_opens p) j) as [o|] eqn:Ho; [|apply nth_error_None in Ho; lia].
    destruct (honest_slot _ _ _ _ _ _ _ j pr o E Hs Ho) as (Hseed & r & b & Hr & Eb & Eo & Eg & Er & Exr).
    assert (Ho' : nth_error (vp_opens p') j = Some o) by (rewrite Hop; exact Ho).
    assert (Hj' : (j < vp_sp p')%nat) by (rewrite Hsp; exact Hj).
    destruct (verify_accept_slot W WOK p' _ pk label j pr o V Hj' Hs' Ho') as (b' & enc & R & Eb' & Ee & ER & C).
    rewrite Eg, (gl_dec_enc q O laws) in ER. inversion ER; subst R.
    unfold W_smul, W_gen in *. rewrite Eb, Eb'.
    assert (Hxr : 0 <= (x + r) mod q < q) by (apply Z.mod_pos_bound; lia).
    destruct b', b; subst o; destruct C as [C1 _]; try reflexivity; exfalso.
    - rewrite (add_smul_gen W WOK) in C1. apply (smul_gen_inj W WOK) in C1; [|assumption|assumption].
      exact (shift_fix x r Hx Hr C1).
    - apply (smul_gen_inj W WOK) in C1; [|assumption|assumption]. symmetry in C1.
      exact (shift_fix x r Hx Hr C1).
  Qed.
End Ctx.
